(* Thread/Proto.v — the hand-off PROTOCOL of runtime/thread.go as an
   interleaving small-step semantics over atomic actions (model (1) of
   DESIGN §6 C09, Appendix D.2).  Executable: [step] is a function, so the
   model is also a trace ACCEPTOR ([accepts]) for traces recorded from the
   instrumented Go code.

   Goroutine g runs Lua thread g (0 = main).  Every Lock/Unlock/status or
   caller access/channel operation/ReleaseBytes of Resume, Close, Yield, end,
   Start is one action of the goroutine that performs it:

   Resume/Close(t) by g : R1 lock t | R2 test status (else unlock, error) | R3 lock g (status check), or refuse: resumer chain too deep (unlock t, error)
                          R4 t.caller:=g; t.status:=OK | R5 unlock t | R6 unlock g
                          R7 send t.ch | R8 recv g.ch
   Yield by g           : Y1 lock g | Y2 status check, c:=caller (nil => unlock, error) | Y3 lock c (check)
                          Y4 status:=Suspended; caller:=nil | Y5 unlock g | Y6 unlock c
                          Y7 send c.ch | Y8 recv g.ch
   end by g             : E0 c:=caller; caller:=nil (action 20) | HANDLER PHASE: the pending __close handlers run as
                          ordinary Lua code of the still-running thread (pc Lua with hctx set; discarded if the
                          thread was killed; Yield takes its nil-caller error path) | LHDone: phase over
                          E1 lock g | E2 lock c (checks) | E3 close g.ch | E4 status:=Dead; caller:=nil
                          E6 closeErr:=.. | E6r ReleaseBytes | E7 send c.ch | E9 unlock c | E10 unlock g
                          (regression variants only: E5 handlers inside the locked section with X1..X3/XY1 their
                           coroutine operations; E8 ReleaseBytes after the send)
   Start body           : S0 recv g.ch, then Lua; deferred recover => end

   Unbuffered channels: send and receive are ONE rendezvous action [LRdv]
   (enabled when the sender is at its send and the receiver at its receive).
   [cfg] selects the code as it stands ([current]: handlers before the locked section; ReleaseBytes
   (E6r, action 27) before the send) or a regression variant ([old_handlers]: handlers at E5 holding
   both mutexes; [old_order]: additionally E8 ReleaseBytes after the send).  No proofs in this file. *)
From Coq Require Import List Bool Arith.
Import ListNotations.

Inductive st := OK | Suspended | Dead.
Inductive rk := Res | Cls.
Inductive msg := MVal (v : nat) | MErr (v : nat) | MTerm.

(* [hctx] = the locals of the running [end] frame while it runs the pending __close handlers
   (repaired order): the detached caller and the message that will be sent to it *)
Record thread := mkTh {
  status : st; caller : option nat; mux : option nat; closed : bool; closeErr : bool;
  hctx : option (nat * msg) }.

Inductive pcT :=
| NotCreated | S0 | Lua | MainDone | Panicked
| R1 (k : rk) (t v : nat) | R2 (k : rk) (t v : nat) | R3 (k : rk) (t v : nat) | R4 (k : rk) (t v : nat)
| R5 (k : rk) (t v : nat) | R6 (k : rk) (t v : nat) | R7 (k : rk) (t v : nat) | R8 (t : nat)
| Y1 (v : nat) | Y2 (v : nat) | Y3 (c v : nat) | Y4 (c v : nat) | Y5 (c v : nat) | Y6 (c v : nat)
| Y7 (c v : nat) | Y8
| E0 (m : msg) | E1 (c : nat) (m : msg) | E2 (c : nat) (m : msg) | E3 (c : nat) (m : msg)
| E4 (c : nat) (m : msg) | E5 (c : nat) (m : msg) | E6 (c : nat) (m : msg) | E6r (c : nat) (m : msg)
| E7 (c : nat) (m : msg) | E8 (c : nat) | E9 (c : nat) | E10 | Done
(* coroutine operations started by a __close handler running inside end (E5) *)
| X1 (t c : nat) (m : msg) | X2 (t c : nat) (m : msg) | X3 (t c : nat) (m : msg) | XY1 (c : nat) (m : msg).

Record cfg := mkCfg { rel_after_send : bool; handlers_locked : bool }.
(* the code as it stands: ReleaseBytes precedes the send (fix eafa506); end runs the pending __close
   handlers FIRST, as an ordinary running thread with its caller detached, before taking any mutex,
   closing the channel or becoming dead; a termination raised by a handler is forwarded *)
Definition current : cfg := mkCfg false false.
(* regression variants: the order before eafa506 (ReleaseBytes after the hand-off, handlers inside the
   locked section), and the code before the handler repair (handlers run at E5 holding both mutexes) *)
Definition old_order : cfg := mkCfg true true.
Definition old_handlers : cfg := mkCfg false true.

Record state := mkState { n : nat; th : nat -> thread; pc : nat -> pcT }.

Inductive label :=
| LCreate | LResume (t v : nat) | LClose (t : nat) | LYield (v : nat) | LFinish (m : msg) | LStatus (t : nat)
| LHResume (t : nat) | LHYield          (* old code: decided by a __close handler inside the locked section of end *)
| LHDone (m : msg)                      (* repaired code: the handler phase of end is over; m will be sent *)
| LRefuse                               (* Resume gives up after the status test: chain of resumers too deep ("stack overflow") *)
| LStep (code : nat)                    (* the atomic action numbered [code] of the goroutine's pc *)
| LRdv.                                 (* rendezvous, named by the sender *)

Record action := mkAct { who : nat; lab : label }.

Definition upd {A} (f : nat -> A) (i : nat) (v : A) : nat -> A :=
  fun j => if Nat.eqb j i then v else f j.

Definition th0 : thread := mkTh OK None None false false None.
Definition thNew : thread := mkTh Suspended None None false false None.
Definition init : state := mkState 1 (fun _ => th0) (upd (fun _ => NotCreated) 0 Lua).

Definition set_mux (x : thread) (m : option nat) : thread :=
  mkTh (status x) (caller x) m (closed x) (closeErr x) (hctx x).
Definition set_sc (x : thread) (s : st) (c : option nat) : thread :=
  mkTh s c (mux x) (closed x) (closeErr x) (hctx x).
Definition set_closed (x : thread) : thread :=
  mkTh (status x) (caller x) (mux x) true (closeErr x) (hctx x).
Definition set_cerr (x : thread) (b : bool) : thread :=
  mkTh (status x) (caller x) (mux x) (closed x) b (hctx x).
(* end detaches the caller and remembers it (and the pending message) for the handler phase *)
Definition set_h (x : thread) (h : option (nat * msg)) : thread :=
  mkTh (status x) None (mux x) (closed x) (closeErr x) h.
(* the end frame's locals are dead once the thread is marked Dead *)
Definition clr_h (x : thread) : thread :=
  mkTh (status x) (caller x) (mux x) (closed x) (closeErr x) None.

Definition setpc (s : state) (g : nat) (p : pcT) : state := mkState (n s) (th s) (upd (pc s) g p).
Definition setth (s : state) (t : nat) (x : thread) : state := mkState (n s) (upd (th s) t x) (pc s).

Definition is_free (s : state) (u : nat) : bool :=
  match mux (th s u) with None => true | Some _ => false end.
Definition held_by (s : state) (u g : nat) : bool :=
  match mux (th s u) with Some h => Nat.eqb h g | None => false end.

(* lock u by g then continue at p; None = blocked *)
Definition lock (s : state) (g u : nat) (p : pcT) : option state :=
  if is_free s u then Some (setpc (setth s u (set_mux (th s u) (Some g))) g p) else None.
(* unlock of a mutex not held is a Go fatal error *)
Definition unlock (s : state) (g u : nat) (p : pcT) : option state :=
  if held_by s u g then Some (setpc (setth s u (set_mux (th s u) None)) g p)
  else Some (setpc s g Panicked).

Definition st_eqb (a b : st) : bool :=
  match a, b with OK, OK | Suspended, Suspended | Dead, Dead => true | _, _ => false end.

Definition is_err (m : msg) : bool := match m with MErr _ => true | _ => false end.
Definition is_term (m : msg) : bool := match m with MTerm => true | _ => false end.

(* where the receiver of a message sent by end/yield continues *)
Definition after_recv (c : nat) (m : msg) : pcT :=
  match m with
  | MTerm => if Nat.eqb c 0 then MainDone else E0 MTerm
  | _ => Lua
  end.

(* g is in the handler phase of an end whose thread was killed: no Lua code runs (truncate(0)) *)
Definition in_hterm (s : state) (g : nat) : bool :=
  match hctx (th s g) with Some (_, m) => is_term m | None => false end.

Definition step (cf : cfg) (s : state) (a : action) : option state :=
  let g := who a in
  if negb (g <? n s) then None else
  match pc s g, lab a with
  (* ---- Lua code decides *)
  | Lua, LCreate =>
      if in_hterm s g then None else
      Some (mkState (S (n s)) (upd (th s) (n s) thNew) (upd (pc s) (n s) S0))
  | Lua, LResume t v => if negb (in_hterm s g) && (t <? n s) then Some (setpc s g (R1 Res t v)) else None
  | Lua, LClose t => if negb (in_hterm s g) && (t <? n s) then Some (setpc s g (R1 Cls t 0)) else None
  | Lua, LYield v => if in_hterm s g then None else Some (setpc s g (Y1 v))
  | Lua, LFinish m =>
      match hctx (th s g) with
      | None => Some (setpc s g (if Nat.eqb g 0 then MainDone else E0 m))
      | Some _ => None
      end
  | Lua, LStatus t => if negb (in_hterm s g) && (t <? n s) then Some s else None
  (* the handler phase of end is over (handlers returned, raised an error, or exhausted the quota:
     m = MTerm): continue with the locked section *)
  | Lua, LHDone m =>
      match hctx (th s g) with
      | Some (c, m0) => if is_term m0 && negb (is_term m) then None
                        else Some (setpc s g (E1 c m))
      | None => None
      end
  (* a termination received from a callee while running handlers unwinds to end's recover *)
  | E0 _, LHDone m =>
      match hctx (th s g) with
      | Some (c, _) => if is_term m then Some (setpc s g (E1 c MTerm)) else None
      | None => None
      end
  (* ---- Resume / Close *)
  | R1 k t v, LStep cd => if negb (cd =? 1) then None else lock s g t (R2 k t v)
  | R2 k t v, LStep cd => if negb (cd =? 2) then None else
      if st_eqb (status (th s t)) Suspended then Some (setpc s g (R3 k t v))
      else unlock s g t Lua
  (* since 2f4d6a9: after the status test Resume refuses when caller.resumeDepth is at the bound:
     unlock t, return the error "stack overflow" to Lua; no other state changes *)
  | R3 Res t v, LRefuse => unlock s g t Lua
  | R3 k t v, LStep cd => if negb (cd =? 3) then None else
      if st_eqb (status (th s g)) OK then lock s g g (R4 k t v)
      else if is_free s g then Some (setpc s g Panicked) else None
  | R4 k t v, LStep cd => if negb (cd =? 4) then None else
      Some (setpc (setth s t (set_sc (th s t) OK (Some g))) g (R5 k t v))
  | R5 k t v, LStep cd => if negb (cd =? 5) then None else unlock s g t (R6 k t v)
  | R6 k t v, LStep cd => if negb (cd =? 6) then None else unlock s g g (R7 k t v)
  | R7 k t v, LRdv =>
      if closed (th s t) then Some (setpc s g Panicked) else
      match pc s t with
      | S0 | Y8 =>
          Some (setpc (setpc s g (R8 t)) t (match k with Res => Lua | Cls => E0 (MVal 0) end))
      | _ => None
      end
  (* ---- Yield *)
  | Y1 v, LStep cd => if negb (cd =? 11) then None else lock s g g (Y2 v)
  | Y2 v, LStep cd => if negb (cd =? 12) then None else
      if negb (st_eqb (status (th s g)) OK) then Some (setpc s g Panicked) else
      match caller (th s g) with
      | None => unlock s g g Lua
      | Some c => Some (setpc s g (Y3 c v))
      end
  | Y3 c v, LStep cd => if negb (cd =? 13) then None else
      if st_eqb (status (th s c)) OK then lock s g c (Y4 c v)
      else if is_free s c then Some (setpc s g Panicked) else None
  | Y4 c v, LStep cd => if negb (cd =? 14) then None else Some (setpc (setth s g (set_sc (th s g) Suspended None)) g (Y5 c v))
  | Y5 c v, LStep cd => if negb (cd =? 15) then None else unlock s g g (Y6 c v)
  | Y6 c v, LStep cd => if negb (cd =? 16) then None else unlock s g c (Y7 c v)
  | Y7 c v, LRdv =>
      if closed (th s c) then Some (setpc s g Panicked) else
      match pc s c with
      | R8 _ => Some (setpc (setpc s g Y8) c Lua)
      | _ => None
      end
  (* ---- end *)
  | E0 m, LStep cd => if negb (cd =? 20) then None else
      match hctx (th s g) with
      | Some _ => None
      | None =>
        match caller (th s g) with
        | None => Some (setpc s g Panicked)
        | Some c =>
          if handlers_locked cf then Some (setpc s g (E1 c m))
          else Some (setpc (setth s g (set_h (th s g) (Some (c, m)))) g Lua)
        end
      end
  | E1 c m, LStep cd => if negb (cd =? 21) then None else lock s g g (E2 c m)
  | E2 c m, LStep cd => if negb (cd =? 22) then None else
      if st_eqb (status (th s g)) OK && st_eqb (status (th s c)) OK then lock s g c (E3 c m)
      else if is_free s c then Some (setpc s g Panicked) else None
  | E3 c m, LStep cd => if negb (cd =? 23) then None else Some (setpc (setth s g (set_closed (th s g))) g (E4 c m))
  | E4 c m, LStep cd => if negb (cd =? 24) then None else Some (setpc (setth s g (clr_h (set_sc (th s g) Dead None))) g (if handlers_locked cf then E5 c m else E6 c m))
  | E5 c m, LStep cd => if negb (cd =? 25) then None else Some (setpc s g (E6 c m))
  (* since fix 8db1ed8 a thread killed by a context termination (m = MTerm) discards its pending
     handlers (closeStack.truncate(0)) instead of running them: no Lua code runs in E5 then *)
  | E5 c m, LHResume t =>
      if handlers_locked cf && negb (is_term m) && (t <? n s) then Some (setpc s g (X1 t c m)) else None
  | E5 c m, LHYield => if handlers_locked cf && negb (is_term m) then Some (setpc s g (XY1 c m)) else None
  | X1 t c m, LStep cd => if negb (cd =? 41) then None else lock s g t (X2 t c m)
  | X2 t c m, LStep cd => if negb (cd =? 42) then None else
      if st_eqb (status (th s t)) Suspended then Some (setpc s g (X3 t c m))
      else unlock s g t (E5 c m)
  | X3 t c m, LStep cd => if negb (cd =? 43) then None else lock s g g (Panicked)     (* caller.mux.Lock() with caller = g: g holds it *)
  | XY1 c m, LStep cd => if negb (cd =? 44) then None else lock s g g (Panicked)      (* t.mux.Lock() in Yield: g holds it *)
  | E6 c m, LStep cd => if negb (cd =? 26) then None else
      Some (setpc (setth s g (set_cerr (th s g) (is_err m))) g
                  (if rel_after_send cf then E7 c m else E6r c m))
  | E6r c m, LStep cd => if negb (cd =? 27) then None else Some (setpc s g (E7 c m))
  | E7 c m, LRdv =>
      if closed (th s c) then Some (setpc s g Panicked) else
      match pc s c with
      | R8 _ => Some (setpc (setpc s g (if rel_after_send cf then E8 c else E9 c)) c (after_recv c m))
      | _ => None
      end
  | E8 c, LStep cd => if negb (cd =? 28) then None else Some (setpc s g (E9 c))
  | E9 c, LStep cd => if negb (cd =? 29) then None else unlock s g c E10
  | E10, LStep cd => if negb (cd =? 30) then None else unlock s g g Done
  | _, _ => None
  end.

Fixpoint run (cf : cfg) (s : state) (tr : list action) : option state :=
  match tr with
  | [] => Some s
  | a :: r => match step cf s a with Some s' => run cf s' r | None => None end
  end.

(* index of the first rejected action (0-based), or None if the whole trace is accepted *)
Fixpoint first_reject (cf : cfg) (s : state) (tr : list action) (i : nat) : option nat :=
  match tr with
  | [] => None
  | a :: r => match step cf s a with Some s' => first_reject cf s' r (S i) | None => Some i end
  end.

Definition accepts (cf : cfg) (tr : list action) : bool :=
  match run cf init tr with Some _ => true | None => false end.

(* ---- classification of program counters *)

(* blocked in a receive on its own channel *)
Definition waiting (p : pcT) : bool := match p with S0 | Y8 | R8 _ => true | _ => false end.
(* the post-send tail of end *)
Definition tail (p : pcT) : bool := match p with E8 _ | E9 _ | E10 => true | _ => false end.
(* holds the baton: may run Lua / start protocol actions *)
Definition active (p : pcT) : bool :=
  match p with
  | NotCreated | Done | Panicked => false      (* Panicked = the Go process died (fatal error / panic) *)
  | _ => negb (waiting p) && negb (tail p)
  end.

(* the next action of a goroutine at p reads or writes shared runtime state
   (thread fields, runtime accounting, anything Lua code touches) other than by
   a mutex or channel operation *)
Definition accessing (p : pcT) : bool :=
  match p with
  | Lua | R2 _ _ _ | R3 _ _ _ | R4 _ _ _ | Y2 _ | Y3 _ _ | Y4 _ _ | E0 _ | E2 _ _ | E3 _ _ | E4 _ _
  | E5 _ _ | E6 _ _ | E6r _ _ | E8 _ | X2 _ _ _ => true
  | _ => false
  end.

(* the actions a goroutine may attempt at its pc (finite for a given payload choice) *)
Definition offers (cf : cfg) (s : state) (g : nat) : list label :=
  match pc s g with
  | Lua => [LCreate; LFinish (MVal 0); LHDone MTerm]
  | E0 _ => [LStep 20; LHDone MTerm]
  | R1 _ _ _ => [LStep 1] | R2 _ _ _ => [LStep 2] | R3 _ _ _ => [LStep 3; LRefuse] | R4 _ _ _ => [LStep 4]
  | R5 _ _ _ => [LStep 5] | R6 _ _ _ => [LStep 6] | R7 _ _ _ => [LRdv]
  | Y1 _ => [LStep 11] | Y2 _ => [LStep 12] | Y3 _ _ => [LStep 13] | Y4 _ _ => [LStep 14]
  | Y5 _ _ => [LStep 15] | Y6 _ _ => [LStep 16] | Y7 _ _ => [LRdv]
  | E1 _ _ => [LStep 21] | E2 _ _ => [LStep 22] | E3 _ _ => [LStep 23]
  | E4 _ _ => [LStep 24] | E5 _ _ => [LStep 25] | E6 _ _ => [LStep 26] | E6r _ _ => [LStep 27]
  | E7 _ _ => [LRdv] | E8 _ => [LStep 28] | E9 _ => [LStep 29] | E10 => [LStep 30]
  | X1 _ _ _ => [LStep 41] | X2 _ _ _ => [LStep 42] | X3 _ _ _ => [LStep 43] | XY1 _ _ => [LStep 44]
  | _ => []
  end.

Definition enabled_g (cf : cfg) (s : state) (g : nat) : bool :=
  existsb (fun l => match step cf s (mkAct g l) with Some _ => true | None => false end) (offers cf s g).

Definition can_step (cf : cfg) (s : state) : bool := existsb (enabled_g cf s) (seq 0 (n s)).

Definition main_done (s : state) : bool := match pc s 0 with MainDone => true | _ => false end.
