(* Pattern/Terminate.v — machine_terminates with an explicit fuel bound.

   For EVERY item list (well formed or not), subject, machine state and budget:
   the weight [mu st] strictly decreases at every step, so [run] never answers
   OOutOfFuel when given at least [mu st] units of fuel.  From a start state the
   weight is at most [cost L items], an explicit function of L = |s| and the
   item list:
       cost []              = 2
       cost (x* | x+ :: r)  = 1 + (L + 2) * cost r
       cost (x?  :: r)      = 1 + 3 * cost r
       cost (x-  :: r)      = (L + 1) * (1 + cost r)
       cost (other :: r)    = 1 + cost r
   (exponential only in the number of repetition items — which is why real
   matching work has to be bounded by the CPU budget, see C15_run_budget). *)
From Coq Require Import ZArith NArith List Bool Lia.
From GV Require Import Pattern.Common Pattern.Machine.
Import ListNotations.
Open Scope Z_scope.

Section Term.
Variable items : list item.
Variable ea : bool.
Variable s : list Z.
Notation L := (slen s).

Lemma L_nonneg : 0 <= L.
Proof. unfold slen. lia. Qed.

Fixpoint cost (suf : list item) : Z :=
  match suf with
  | [] => 2
  | ISingle Star _ :: r | ISingle Plus _ :: r => 1 + (L + 2) * cost r
  | ISingle Opt _ :: r => 1 + 3 * cost r
  | ISingle Lazy _ :: r => (L + 1) * (1 + cost r)
  | _ :: r => 1 + cost r
  end.

(* remaining iterations of a lazy item at position si, clamped to 0..L *)
Definition lz (si : Z) : Z := Z.min L (Z.max 0 (L - si)).

(* position-dependent weight of "run this suffix from si" *)
Definition A (suf : list item) (si : Z) : Z :=
  match suf with
  | ISingle Lazy _ :: r => (lz si + 1) * (1 + cost r)
  | _ => cost suf
  end.

Lemma cost_ge2 suf : 2 <= cost suf.
Proof.
  pose proof L_nonneg.
  induction suf as [|it r IH]; cbn [cost]; [lia|].
  destruct it as [k cls| | | | |]; try lia. destruct k; nia.
Qed.

Lemma lz_range si : 0 <= lz si <= L.
Proof. pose proof L_nonneg. unfold lz. lia. Qed.

Lemma A_le_cost suf si : A suf si <= cost suf.
Proof.
  pose proof (lz_range si). pose proof L_nonneg.
  destruct suf as [|it r]; cbn [A cost]; [lia|].
  destruct it as [k cls| | | | |]; try lia. destruct k; try lia.
  pose proof (cost_ge2 r). nia.
Qed.

Lemma A_ge3 it r si : 3 <= A (it :: r) si.
Proof.
  pose proof (lz_range si). pose proof L_nonneg. pose proof (cost_ge2 r).
  destruct it as [k cls| | | | |]; cbn [A cost]; try lia. destruct k; cbn [A cost]; nia.
Qed.

Lemma A_ge2 suf si : 2 <= A suf si.
Proof. destruct suf; [cbn [A cost]; lia|]. pose proof (A_ge3 i suf si). lia. Qed.

(* weight of a trackback entry: alternatives si, si-1, ..., si-c *)
Fixpoint esum (suf : list item) (si : Z) (c : nat) : Z :=
  A suf si + match c with O => 0 | S c' => esum suf (si - 1) c' end.

Lemma esum_le suf : forall c si, esum suf si c <= (Z.of_nat c + 1) * cost suf.
Proof.
  induction c; intros si; simpl esum.
  - pose proof (A_le_cost suf si). change (Z.of_nat 0) with 0. lia.
  - pose proof (A_le_cost suf si). specialize (IHc (si - 1)). rewrite Nat2Z.inj_succ.
    pose proof (cost_ge2 suf). nia.
Qed.

Lemma esum_ge0 suf : forall c si, 0 <= esum suf si c.
Proof.
  induction c; intros si; simpl esum; pose proof (A_ge2 suf si); [lia|].
  specialize (IHc (si - 1)). lia.
Qed.

Definition E (t : tbe) : Z :=
  esum (skipn (t_pi t) items) (t_si t) (Z.to_nat (t_si t - t_min t)).

Fixpoint sumE (tb : list tbe) : Z :=
  match tb with [] => 0 | t :: r => E t + sumE r end.

Lemma sumE_ge0 tb : 0 <= sumE tb.
Proof. induction tb; simpl; [lia|]. unfold E. pose proof (esum_ge0 (skipn (t_pi a) items) (Z.to_nat (t_si a - t_min a)) (t_si a)). lia. Qed.

(* weight of the running part of a state *)
Definition W (si : Z) (pi : nat) : Z :=
  match nth_error items pi with
  | None => if si =? -1 then 1 else 2
  | Some _ => A (skipn pi items) si
  end.

Definition mu (st : mstate) : Z := W (m_si st) (m_pi st) + sumE (m_tb st).

Lemma skipn_nth {X} : forall n (l : list X) x, nth_error l n = Some x -> skipn n l = x :: skipn (S n) l.
Proof.
  induction n; destruct l; simpl; intros; try discriminate.
  - inversion H. reflexivity.
  - apply IHn. assumption.
Qed.

Lemma skipn_none {X} : forall n (l : list X), nth_error l n = None -> skipn n l = [].
Proof. intros. apply skipn_all2. apply nth_error_None. assumption. Qed.

Lemma W_le_A si pi : W si pi <= A (skipn pi items) si.
Proof.
  unfold W. destruct (nth_error items pi) eqn:E1; [lia|].
  rewrite (skipn_none _ _ E1). simpl. destruct (si =? -1); lia.
Qed.

Lemma W_ge1 si pi : 1 <= W si pi.
Proof.
  unfold W. destruct (nth_error items pi); [pose proof (A_ge2 (skipn pi items) si); lia|].
  destruct (si =? -1); lia.
Qed.

Lemma mu_ge1 st : 1 <= mu st.
Proof. unfold mu. pose proof (W_ge1 (m_si st) (m_pi st)). pose proof (sumE_ge0 (m_tb st)). lia. Qed.

(* trackback() strictly decreases the weight when the running part weighs >= 2 *)
Lemma trackback_dec st : 2 <= W (m_si st) (m_pi st) -> mu (trackback items st) + 1 <= mu st.
Proof.
  intros HW. unfold mu, trackback. destruct (m_tb st) as [|t rest]; cbn [m_si m_pi m_tb sumE].
  - assert (Hend : W (-1) (nitems items) = 1).
    { unfold W, nitems.
      replace (nth_error items (length items)) with (@None item) by (symmetry; apply nth_error_None; lia).
      reflexivity. }
    rewrite Hend. lia.
  - pose proof (W_le_A (t_si t) (t_pi t)) as HWA.
    destruct (t_min t <? t_si t) eqn:El; cbn [sumE]; unfold E; cbn [t_si t_pi t_min].
    + apply Z.ltb_lt in El.
      replace (Z.to_nat (t_si t - t_min t)) with (S (Z.to_nat (t_si t - 1 - t_min t))) by lia.
      cbn [esum]. lia.
    + apply Z.ltb_ge in El.
      replace (Z.to_nat (t_si t - t_min t)) with O by lia. cbn [esum]. lia.
Qed.

Lemma span_le_L cls si : Z.of_nat (span cls (suffix s si)) <= L.
Proof.
  assert (H : forall l, (span cls l <= length l)%nat).
  { induction l; simpl; [lia|]. destruct (bs_mem cls a); lia. }
  specialize (H (suffix s si)). unfold suffix in *. rewrite skipn_length in H. unfold slen. lia.
Qed.

Lemma greedy_le cls si k : greedy s cls si = Some k -> 0 <= k <= L.
Proof.
  unfold greedy. pose proof L_nonneg. pose proof (span_le_L cls si).
  destruct (matchNext s cls si) as [[|]|]; intros H1; inversion H1; subst; lia.
Qed.

Lemma matchNext_true cls si : matchNext s cls si = Some true -> 0 <= si < L.
Proof.
  unfold matchNext, getb. destruct (si <? L) eqn:E1; [|discriminate].
  apply Z.ltb_lt in E1. destruct (0 <=? si) eqn:E2; simpl.
  - apply Z.leb_le in E2. intros _. lia.
  - discriminate.
Qed.

(* every step that continues strictly decreases the weight *)
Lemma step_dec st st' t : step items ea s st = SNext st' t -> mu st' + 1 <= mu st.
Proof.
  pose proof L_nonneg as HL.
  unfold step. destruct (nth_error items (m_pi st)) as [it|] eqn:En.
  - pose proof (skipn_nth _ _ _ En) as Hsk.
    assert (HW : W (m_si st) (m_pi st) = A (it :: skipn (S (m_pi st)) items) (m_si st)).
    { unfold W. rewrite En, Hsk. reflexivity. }
    assert (HW2 : 2 <= W (m_si st) (m_pi st)).
    { rewrite HW. pose proof (A_ge3 it (skipn (S (m_pi st)) items) (m_si st)). lia. }
    pose proof (trackback_dec st HW2) as HTB.
    set (r := skipn (S (m_pi st)) items) in *.
    pose proof (cost_ge2 r) as Hc2.
    assert (Hnext : forall si', W si' (S (m_pi st)) <= cost r).
    { intros si'. pose proof (W_le_A si' (S (m_pi st))). pose proof (A_le_cost r si'). fold r in H. lia. }
    destruct it as [k cls|n|op cl|cls|n|n].
    + destruct k.
      * (* Once *)
        destruct (matchNext s cls (m_si st)) as [[|]|]; intros H; try discriminate H; injection H as Hst Ht; subst st' t; auto.
        unfold mu. cbn [m_si m_pi m_tb]. rewrite HW. cbn [A cost]. specialize (Hnext (m_si st + 1)). lia.
      * (* Star *)
        destruct (greedy s cls (m_si st)) as [k|] eqn:Eg; intros H; try discriminate H; injection H as Hst Ht; subst st' t.
        pose proof (greedy_le _ _ _ Eg) as Hk.
        unfold mu. cbn [m_si m_pi m_tb]. rewrite HW. cbn [A cost]. specialize (Hnext (m_si st + k)).
        destruct (0 <? k) eqn:E0; cbn [sumE].
        -- unfold E. cbn [t_si t_pi t_min]. fold r.
           pose proof (esum_le r (Z.to_nat (m_si st + k - m_si st)) (m_si st + k)) as He.
           replace (Z.of_nat (Z.to_nat (m_si st + k - m_si st))) with k in He by lia. nia.
        -- nia.
      * (* Plus *)
        destruct (matchNext s cls (m_si st)) as [[|]|]; intros H; try discriminate H; try (injection H as Hst Ht; subst st' t; auto; fail).
        destruct (greedy s cls (m_si st + 1)) as [k|] eqn:Eg; [|discriminate]; injection H as Hst Ht; subst st' t.
        pose proof (greedy_le _ _ _ Eg) as Hk.
        unfold mu. cbn [m_si m_pi m_tb]. rewrite HW. cbn [A cost]. specialize (Hnext (m_si st + 1 + k)).
        destruct (0 <? k) eqn:E0; cbn [sumE].
        -- unfold E. cbn [t_si t_pi t_min]. fold r.
           pose proof (esum_le r (Z.to_nat (m_si st + 1 + k - (m_si st + 1))) (m_si st + 1 + k)) as He.
           replace (Z.of_nat (Z.to_nat (m_si st + 1 + k - (m_si st + 1)))) with k in He by lia. nia.
        -- nia.
      * (* Lazy *)
        destruct (matchNext s cls (m_si st)) as [[|]|] eqn:Em; intros H; try discriminate H; injection H as Hst Ht; subst st' t.
        -- pose proof (matchNext_true _ _ Em) as Hsi.
           unfold mu. cbn [m_si m_pi m_tb sumE]. rewrite HW. specialize (Hnext (m_si st)).
           unfold E. cbn [t_si t_pi t_min]. rewrite Hsk. fold r.
           replace (Z.to_nat (m_si st + 1 - (m_si st + 1))) with O by lia. cbn [esum A cost].
           unfold lz. replace (Z.min L (Z.max 0 (L - m_si st))) with (L - m_si st) by lia.
           replace (Z.min L (Z.max 0 (L - (m_si st + 1)))) with (L - m_si st - 1) by lia. nia.
        -- unfold mu. cbn [m_si m_pi m_tb]. rewrite HW. specialize (Hnext (m_si st)). cbn [A cost].
           pose proof (lz_range (m_si st)). nia.
      * (* Opt *)
        destruct (matchNext s cls (m_si st)) as [[|]|] eqn:Em; intros H; try discriminate H; injection H as Hst Ht; subst st' t.
        -- unfold mu. cbn [m_si m_pi m_tb sumE]. rewrite HW. specialize (Hnext (m_si st + 1)). cbn [A cost].
           unfold E. cbn [t_si t_pi t_min]. fold r.
           pose proof (esum_le r (Z.to_nat (m_si st + 1 - m_si st)) (m_si st + 1)) as He.
           replace (Z.of_nat (Z.to_nat (m_si st + 1 - m_si st))) with 1 in He by lia. lia.
        -- unfold mu. cbn [m_si m_pi m_tb]. rewrite HW. specialize (Hnext (m_si st)). cbn [A cost]. lia.
    + (* back-reference *)
      destruct ((n <? 0) || (10 <=? n)); [discriminate|].
      destruct (m_caps st n) as [cs ce].
      destruct ((cs <=? ce) && (m_si st + ce - cs <=? L)); [|intros H; try discriminate H; injection H as Hst Ht; subst st' t; auto].
      destruct (slice s cs ce); [|discriminate].
      destruct (slice s (m_si st) (m_si st + ce - cs)); [|discriminate].
      destruct (list_eqb l l0); intros H; try discriminate H; injection H as Hst Ht; subst st' t; auto.
      unfold mu. cbn [m_si m_pi m_tb]. rewrite HW. cbn [A cost]. specialize (Hnext (m_si st + ce - cs)). lia.
    + (* %b *)
      destruct (m_si st <? L); [|intros H; try discriminate H; injection H as Hst Ht; subst st' t; auto].
      destruct (getb s (m_si st)); [|discriminate].
      destruct (z =? op); [|intros H; try discriminate H; injection H as Hst Ht; subst st' t; auto].
      destruct (bal op cl (suffix s (m_si st + 1)) 1 1) as [[|] n]; intros H; try discriminate H; injection H as Hst Ht; subst st' t; auto.
      unfold mu. cbn [m_si m_pi m_tb]. rewrite HW. cbn [A cost]. specialize (Hnext (m_si st + n)). lia.
    + (* %f *)
      destruct (if 0 <? m_si st then getb s (m_si st - 1) else Some 0); [|discriminate].
      destruct (if m_si st <? L then getb s (m_si st) else Some 0); [|discriminate].
      destruct (bs_mem cls z || negb (bs_mem cls z0)); intros H; try discriminate H; injection H as Hst Ht; subst st' t; auto.
      unfold mu. cbn [m_si m_pi m_tb]. rewrite HW. cbn [A cost]. specialize (Hnext (m_si st)). lia.
    + destruct ((n <? 0) || (10 <=? n)); [discriminate|]. intros H; try discriminate H; injection H as Hst Ht; subst st' t.
      unfold mu. cbn [m_si m_pi m_tb]. rewrite HW. cbn [A cost]. specialize (Hnext (m_si st)). lia.
    + destruct ((n <? 0) || (10 <=? n)); [discriminate|]. intros H; try discriminate H; injection H as Hst Ht; subst st' t.
      unfold mu. cbn [m_si m_pi m_tb]. rewrite HW. cbn [A cost]. specialize (Hnext (m_si st)). lia.
  - (* matchToEnd's test *)
    destruct (m_si st =? -1) eqn:E1; [discriminate|].
    destruct (negb ea || (m_si st =? L)); [discriminate|].
    intros H; try discriminate H; injection H as Hst Ht; subst st' t. apply trackback_dec. unfold W. rewrite En, E1. lia.
Qed.

(* machine_terminates: fuel >= mu st is enough, whatever the budget *)
Theorem machine_terminates : forall fuel B u st,
  mu st <= Z.of_nat fuel -> fst (run items ea s fuel B u st) <> OOutOfFuel.
Proof.
  induction fuel as [|f IH]; intros B u st H.
  - pose proof (mu_ge1 st). simpl in H. lia.
  - simpl. destruct (step items ea s st) as [st' t|o] eqn:Es.
    + destruct ((0 <? B) && (B <=? u + t)); [simpl; discriminate|].
      apply IH. pose proof (step_dec _ _ _ Es). lia.
    + simpl. intros Ho. subst o. revert Es. unfold step.
      repeat match goal with
             | |- context [match ?x with _ => _ end] => destruct x; try discriminate
             end.
Qed.

(* the weight of a start state is at most cost items *)
Lemma mu_start init c : mu (start_state init c) <= cost items.
Proof.
  unfold mu, start_state. cbn [m_si m_pi m_tb sumE].
  pose proof (W_le_A init O). simpl skipn in H. pose proof (A_le_cost items init). lia.
Qed.
End Term.

(* explicit fuel bound as a function of the subject length and the item list *)
Definition fuel_bound (s : list Z) (items : list item) : nat := Z.to_nat (cost s items).

Theorem find_terminates : forall items ea s n fuel B u init c,
  (fuel_bound s items <= fuel)%nat ->
  fst (fst (findLoop items ea s n fuel B u init c)) <> OOutOfFuel.
Proof.
  intros items ea s. induction n as [|n IH]; intros fuel B u init c Hf; simpl.
  - discriminate.
  - pose proof (machine_terminates items ea s fuel B u (start_state init c)) as Ht.
    assert (Hm : mu items s (start_state init c) <= Z.of_nat fuel).
    { pose proof (mu_start items s init c). unfold fuel_bound in Hf. lia. }
    specialize (Ht Hm).
    destruct (run items ea s fuel B u (start_state init c)) as [o u'] eqn:Er. simpl in Ht.
    destruct o; simpl; try discriminate; auto.
Qed.

Theorem api_terminates : forall fromStart p s init B fuel,
  (fuel_bound s (p_items p) <= fuel)%nat -> a_res (api fromStart p fuel s init B) <> MFuel.
Proof.
  intros fromStart p s init B fuel Hf. unfold api.
  destruct (fromStart && p_sanchor p).
  - destruct (slen s <? init); [simpl; discriminate|].
    pose proof (machine_terminates (p_items p) (p_eanchor p) s fuel B 0 (start_state init caps0)) as Ht.
    assert (Hm : mu (p_items p) s (start_state init caps0) <= Z.of_nat fuel).
    { pose proof (mu_start (p_items p) s init caps0). unfold fuel_bound in Hf. lia. }
    specialize (Ht Hm).
    destruct (run (p_items p) (p_eanchor p) s fuel B 0 (start_state init caps0)) as [o u'].
    simpl in Ht. destruct o; simpl; try discriminate. congruence.
  - pose proof (find_terminates (p_items p) (p_eanchor p) s (Z.to_nat (slen s - init + 1)) fuel B 0 init caps0 Hf) as Ht.
    destruct (findLoop (p_items p) (p_eanchor p) s (Z.to_nat (slen s - init + 1)) fuel B 0 init caps0) as [[o u'] st].
    simpl in Ht. destruct o; simpl; try discriminate. congruence.
Qed.
