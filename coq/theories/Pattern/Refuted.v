(* Pattern/Refuted.v — what the faithful implementation model refutes
   (witnesses by vm_compute; each is replayed on the Go code by the check). *)
From Coq Require Import ZArith NArith List Bool.
From GV Require Import Pattern.Common Pattern.Build Pattern.Machine Pattern.Spec Pattern.Drivers.
Import ListNotations.
Open Scope Z_scope.

Definition b_of (r : res pattern) : pattern :=
  match r with Ok p => p | _ => mkPattern [] 0 false false end.

(* pattern "()%1" on "abc": the machine slices s[0:-1] — a Go run-time panic *)
Lemma backref_position_capture_panics :
  exists ptn s, exists p, build ptn = Ok p /\
    a_panicked (api false p 1000 s 0 0) = true.
Proof.
  exists [40; 41; 37; 49], [97; 98; 99]. eexists. split; [vm_compute; reflexivity|].
  vm_compute. reflexivity.
Qed.

(* no_panic, refuted as stated for all patterns: *)
Lemma machine_no_panic_refuted :
  exists items ea s st fuel, fst (run items ea s fuel 0 0 st) = OPanic.
Proof.
  exists [ICapStart 1; IBackref 1], false, [97], (start_state 0 caps0), 10%nat.
  vm_compute. reflexivity.
Qed.

(* ("aaa"):gsub("^a","x"): the model of matching.go gives xxx 3, the manual xaa 1 *)
Lemma gsub_ignores_anchor_refuted :
  exists ptn s repl p, build ptn = Ok p /\
    fst (fst (gsub_im p 1000 s 0 repl (-1))) = DVals [CStr [120; 120; 120]; CPos 3] /\
    gsub_s p s repl (-1) = DVals [CStr [120; 97; 97]; CPos 1].
Proof.
  exists [94; 97], [97; 97; 97], [120]. eexists. split; [vm_compute; reflexivity|].
  split; vm_compute; reflexivity.
Qed.

(* ("abc"):gsub("%w*","x"): count 2 instead of 1 *)
Lemma gsub_count_refuted :
  exists ptn s repl p, build ptn = Ok p /\
    fst (fst (gsub_im p 1000 s 0 repl (-1))) = DVals [CStr [120]; CPos 2] /\
    gsub_s p s repl (-1) = DVals [CStr [120]; CPos 1].
Proof.
  exists [37; 119; 42], [97; 98; 99], [120]. eexists. split; [vm_compute; reflexivity|].
  split; vm_compute; reflexivity.
Qed.

(* ("abc"):gsub("abc",""): the subject comes back unchanged *)
Lemma gsub_empty_result_refuted :
  exists ptn s p, build ptn = Ok p /\
    fst (fst (gsub_im p 1000 s 0 [] (-1))) = DVals [CStr s; CPos 1] /\
    gsub_s p s [] (-1) = DVals [CStr []; CPos 1].
Proof.
  exists [97; 98; 99], [97; 98; 99]. eexists. split; [vm_compute; reflexivity|].
  split; vm_compute; reflexivity.
Qed.

(* string.match("abc", "^", 5): slice panic in pushCaptures *)
Lemma match_beyond_end_refuted :
  exists ptn s p, build ptn = Ok p /\
    fst (match_im p 1000 s 0 4) = DPanic /\ match_s p s 4 = DNil.
Proof.
  exists [94], [97; 98; 99]. eexists. split; [vm_compute; reflexivity|].
  split; vm_compute; reflexivity.
Qed.
