(* Pattern/Refuted.v — what the faithful implementation model still refutes
   (witness by vm_compute; replayed on the Go code by the check).
   The other defects found in round 1 (machine panic on %n -> position capture,
   string.match beyond the end, gsub anchor / empty result / trailing %) have
   been repaired in /repo and the models updated; their witnesses live in
   corpus/C15/. *)
From Coq Require Import ZArith NArith List Bool.
From GV Require Import Pattern.Common Pattern.Build Pattern.Machine Pattern.Spec Pattern.Drivers.
Import ListNotations.
Open Scope Z_scope.

(* ("abc"):gsub("%w*","x"): count 2 instead of 1 — the skipped empty match is
   counted (lib/stringlib/lua/matching.lua:237 pins this behaviour) *)
Lemma gsub_count_refuted :
  exists ptn s repl p, build ptn = Ok p /\
    fst (gsub_im p 1000 s 0 repl None) = DVals [CStr [120]; CPos 2] /\
    gsub_s p s repl None = DVals [CStr [120]; CPos 1].
Proof.
  exists [37; 119; 42], [97; 98; 99], [120]. eexists. split; [vm_compute; reflexivity|].
  split; vm_compute; reflexivity.
Qed.
