(* Pattern/Common.v — data shared by the pattern builder model (Build.v), the
   trackback machine model (Machine.v) and the manual-level matcher (Spec.v):
   bytes, byte sets (mirror of lib/stringlib/pattern/byteset.go), pattern
   items (mirror of patternItem in pattern.go) and the deterministic string
   primitives (run of a class, balanced scan, slices).

   No proofs in this file. *)
From Coq Require Import ZArith NArith List Bool.
Import ListNotations.
Open Scope Z_scope.

(* ---------------------------------------------------------------- byte sets
   Go: type byteSet [4]uint64.  Model: one N used as a 256-bit mask
   (word k of the Go array = bits 64k .. 64k+63). *)
Definition bset := N.
Definition bs_empty : bset := 0%N.
Definition bs_add (s : bset) (b : Z) : bset := N.lor s (N.shiftl 1 (Z.to_N b)).
Definition bs_merge (s t : bset) : bset := N.lor s t.
Definition bs_full : bset := N.ones 256.
Definition bs_compl (s : bset) : bset := N.lxor s bs_full.
Definition bs_mem (s : bset) (b : Z) : bool := N.testbit s (Z.to_N b).

(* byteRange(a, b): if a > b { return } (empty range);
   for i := a; i < b; i++ { add(i) }; add(b) *)
Definition bs_range (a b : Z) : bset :=
  if b <? a then bs_empty else
  bs_add (fold_left bs_add (map (fun k => a + Z.of_nat k) (seq 0 (Z.to_nat (b - a)))) bs_empty) b.

Definition w4 (w0 w1 w2 w3 : N) : bset :=
  (w0 + N.shiftl w1 64 + N.shiftl w2 128 + N.shiftl w3 192)%N.

(* the literal masks of byteset.go *)
Definition letterSet    := w4 0x0 0x7fffffe07fffffe 0x0 0x0.
Definition controlSet   := w4 0xffffffff 0x8000000000000000 0x0 0x0.
Definition digitSet     := w4 0x3ff000000000000 0x0 0x0 0x0.
Definition printableSet := w4 0xfffffffe00000000 0x7fffffffffffffff 0x0 0x0.
Definition lowerSet     := w4 0x0 0x7fffffe00000000 0x0 0x0.
Definition punctSet     := w4 0xfc00fffe00000000 0x78000001f8000001 0x0 0x0.
Definition spaceSet     := w4 0x100003e00 0x0 0x0 0x0.
Definition upperSet     := w4 0x0 0x7fffffe 0x0 0x0.
Definition alphanumSet  := w4 0x3ff000000000000 0x7fffffe07fffffe 0x0 0x0.
Definition hexSet       := w4 0x3ff000000000000 0x7e0000007e 0x0 0x0.
Definition zeroSet      := w4 0x1 0x0 0x0 0x0.

(* namedByteSet *)
Definition named (c : Z) : option bset :=
  if c =? 97 then Some letterSet else if c =? 99 then Some controlSet
  else if c =? 100 then Some digitSet else if c =? 103 then Some printableSet
  else if c =? 108 then Some lowerSet else if c =? 112 then Some punctSet
  else if c =? 115 then Some spaceSet else if c =? 117 then Some upperSet
  else if c =? 119 then Some alphanumSet else if c =? 120 then Some hexSet
  else if c =? 122 then Some zeroSet
  else if c =? 65 then Some (bs_compl letterSet) else if c =? 67 then Some (bs_compl controlSet)
  else if c =? 68 then Some (bs_compl digitSet) else if c =? 71 then Some (bs_compl printableSet)
  else if c =? 76 then Some (bs_compl lowerSet) else if c =? 80 then Some (bs_compl punctSet)
  else if c =? 83 then Some (bs_compl spaceSet) else if c =? 85 then Some (bs_compl upperSet)
  else if c =? 87 then Some (bs_compl alphanumSet) else if c =? 88 then Some (bs_compl hexSet)
  else if c =? 90 then Some (bs_compl zeroSet)
  else None.

(* the manual's definition of the classes (isalpha etc. of the C locale),
   used only to check the literal masks (Proofs: masks_correct) *)
Definition inr (lo hi c : Z) : bool := (lo <=? c) && (c <=? hi).
Definition class_spec (k c : Z) : bool :=
  if k =? 97 then inr 65 90 c || inr 97 122 c
  else if k =? 99 then inr 0 31 c || (c =? 127)
  else if k =? 100 then inr 48 57 c
  else if k =? 103 then inr 33 126 c
  else if k =? 108 then inr 97 122 c
  else if k =? 112 then inr 33 47 c || inr 58 64 c || inr 91 96 c || inr 123 126 c
  else if k =? 115 then inr 9 13 c || (c =? 32)
  else if k =? 117 then inr 65 90 c
  else if k =? 119 then inr 65 90 c || inr 97 122 c || inr 48 57 c
  else if k =? 120 then inr 48 57 c || inr 65 70 c || inr 97 102 c
  else false.

(* ---------------------------------------------------------------- items *)
Inductive rkind := Once | Star | Plus | Lazy | Opt.
(* ptnOnce ptnGreedyRepeat ptnGreedyRepeatOnce ptnRepeat ptnOptional *)

Inductive item :=
| ISingle (k : rkind) (cls : bset)
| IBackref (n : Z)            (* ptnCapture      *)
| IBalanced (op cl : Z)       (* ptnBalanced     *)
| IFrontier (cls : bset)      (* ptnFrontier     *)
| ICapStart (n : Z)           (* ptnStartCapture *)
| ICapEnd (n : Z).            (* ptnEndCapture   *)

Record pattern := mkPattern {
  p_items : list item; p_ncap : Z; p_sanchor : bool; p_eanchor : bool }.

(* captures: slot -> (start, end); end = -1 marks a position capture *)
Definition caps := Z -> Z * Z.
Definition caps0 : caps := fun _ => (0, 0).
Definition cset (c : caps) (n : Z) (v : Z * Z) : caps := fun k => if k =? n then v else c k.

(* ---------------------------------------------------------------- subject *)
Section Subject.
Variable s : list Z.
Definition slen : Z := Z.of_nat (length s).

(* s[i]; None = Go index-out-of-range panic *)
Definition getb (i : Z) : option Z :=
  if (0 <=? i) && (i <? slen) then nth_error s (Z.to_nat i) else None.

(* s[a:b]; None = Go slice-bounds panic *)
Definition slice (a b : Z) : option (list Z) :=
  if (0 <=? a) && (a <=? b) && (b <=? slen)
  then Some (firstn (Z.to_nat (b - a)) (skipn (Z.to_nat a) s)) else None.

Definition suffix (i : Z) : list Z := skipn (Z.to_nat i) s.

(* number of leading bytes of l that belong to cls *)
Fixpoint span (cls : bset) (l : list Z) : nat :=
  match l with
  | b :: r => if bs_mem cls b then S (span cls r) else O
  | [] => O
  end.

(* does the byte at i exist and belong to cls? (i >= 0 assumed) *)
Definition one (cls : bset) (i : Z) : bool :=
  match suffix i with b :: _ => bs_mem cls b | [] => false end.

(* balanced scan after the opening byte: l = rest of the subject, depth >= 1.
   Returns (found, bytes consumed).  The closing byte is tested first, as in
   matcher.go's switch (so op = cl closes immediately). *)
Fixpoint bal (op cl : Z) (l : list Z) (depth : nat) (consumed : Z) : bool * Z :=
  match l with
  | [] => (false, consumed)
  | b :: r =>
    if b =? cl then
      match depth with
      | S O | O => (true, consumed + 1)
      | S d => bal op cl r d (consumed + 1)
      end
    else if b =? op then bal op cl r (S depth) (consumed + 1)
    else bal op cl r depth (consumed + 1)
  end.
End Subject.

Fixpoint list_eqb (a b : list Z) : bool :=
  match a, b with
  | [], [] => true
  | x :: a', y :: b' => (x =? y) && list_eqb a' b'
  | _, _ => false
  end.
