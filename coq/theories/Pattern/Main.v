(* Pattern/Main.v — the pieces put together: for every pattern string the
   compiler model accepts, Pattern.Match / MatchFromStart, run with the
   explicit fuel bound, return exactly the specification's leftmost match and
   captures, never panic, never run out of fuel. *)
From Coq Require Import ZArith NArith List Bool Lia.
From GV Require Import Pattern.Common Pattern.Build Pattern.Machine Pattern.Spec Pattern.Top
  Pattern.Full Pattern.Terminate Pattern.BuildWf.
Import ListNotations.
Open Scope Z_scope.

Lemma run_mono items ea s : forall f B u st o u',
  run items ea s f B u st = (o, u') -> o <> OOutOfFuel ->
  forall k, run items ea s (f + k) B u st = (o, u').
Proof.
  induction f as [|f IH]; intros B u st o u' H Ho k; simpl in *.
  - injection H as H _. congruence.
  - destruct (step items ea s st) as [st' t|o'].
    + destruct ((0 <? B) && (B <=? u + t)); [assumption|]. apply IH; assumption.
    + assumption.
Qed.

Lemma findLoop_mono items ea s : forall n f B u si c r,
  findLoop items ea s n f B u si c = r -> fst (fst r) <> OOutOfFuel ->
  forall k, findLoop items ea s n (f + k) B u si c = r.
Proof.
  induction n as [|n IH]; intros f B u si c r H Hr k; simpl in *; [assumption|].
  destruct (run items ea s f B u (start_state si c)) as [o u'] eqn:Er.
  assert (Ho : o <> OOutOfFuel).
  { intros E. subst o. subst r. simpl in Hr. congruence. }
  rewrite (run_mono items ea s f B u _ o u' Er Ho k).
  destruct o; try assumption. apply IH; assumption.
Qed.

Lemma api_mono fromStart p s init B f k :
  a_res (api fromStart p f s init B) <> MFuel ->
  api fromStart p (f + k) s init B = api fromStart p f s init B.
Proof.
  unfold api. destruct (fromStart && p_sanchor p).
  - destruct (slen s <? init); [reflexivity|].
    destruct (run (p_items p) (p_eanchor p) s f B 0 (start_state init caps0)) as [o u'] eqn:Er.
    intros H. assert (Ho : o <> OOutOfFuel) by (intros E; subst o; simpl in H; congruence).
    rewrite (run_mono _ _ _ f B 0 _ o u' Er Ho k). reflexivity.
  - destruct (findLoop (p_items p) (p_eanchor p) s (Z.to_nat (slen s - init + 1)) f B 0 init caps0)
      as [[o u'] st] eqn:Ef.
    intros H. assert (Ho : fst (fst (o, u', st)) <> OOutOfFuel) by (simpl; intros E; subst o; simpl in H; congruence).
    rewrite (findLoop_mono _ _ _ _ f B 0 init caps0 _ Ef Ho k). reflexivity.
Qed.

(* explicit fuel: the bound of Terminate.v is enough for the equivalence *)
Theorem api_equiv_spec_explicit : forall fromStart p s init f,
  wf_pattern p = true -> 0 <= init <= slen s -> (fuel_bound s (p_items p) <= f)%nat ->
  api fromStart p f s init 0 =
  mkApi (match spec_find_list p (fromStart && p_sanchor p) s init with
         | Some l => MCaps l | None => MNil end) 0 false.
Proof.
  intros fromStart p s init f Hwf Hi Hf.
  destruct (api_equiv_spec fromStart p s init Hwf Hi) as [N HN].
  rewrite <- (api_mono fromStart p s init 0 f N (api_terminates fromStart p s init 0 f Hf)).
  apply HN. lia.
Qed.

(* ... and it holds for every pattern string accepted by the compiler model *)
Theorem match_follows_manual : forall ptn p fromStart s init f,
  build ptn = Ok p -> 0 <= init <= slen s -> (fuel_bound s (p_items p) <= f)%nat ->
  api fromStart p f s init 0 =
  mkApi (match spec_find_list p (fromStart && p_sanchor p) s init with
         | Some l => MCaps l | None => MNil end) 0 false.
Proof.
  intros. apply api_equiv_spec_explicit; auto. eapply build_wf; eauto.
Qed.
