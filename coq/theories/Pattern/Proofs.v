(* Pattern/Proofs.v — proofs about the byte-set masks and the manual-level matcher. *)
From Coq Require Import ZArith NArith List Bool Lia.
From GV Require Import Pattern.Common Pattern.Build Pattern.Machine Pattern.Spec.
Import ListNotations.
Open Scope Z_scope.

(* the literal masks of byteset.go are the classes of the manual, for all 256 bytes *)
Definition all_bytes : list Z := map Z.of_nat (seq 0 256).
Definition class_letters : list Z := [97; 99; 100; 103; 108; 112; 115; 117; 119; 120].

Lemma masks_check :
  forallb (fun k => forallb (fun c =>
     match named k, named (k - 32) with
     | Some lo, Some up =>
       Bool.eqb (bs_mem lo c) (class_spec k c) && Bool.eqb (bs_mem up c) (negb (class_spec k c))
     | _, _ => false
     end) all_bytes) class_letters = true.
Proof. vm_compute. reflexivity. Qed.

Lemma in_all_bytes c : 0 <= c < 256 -> In c all_bytes.
Proof.
  intros H. unfold all_bytes. apply in_map_iff. exists (Z.to_nat c). split; [lia|].
  apply in_seq. lia.
Qed.

Lemma masks_correct k c lo up :
  In k class_letters -> 0 <= c < 256 -> named k = Some lo -> named (k - 32) = Some up ->
  bs_mem lo c = class_spec k c /\ bs_mem up c = negb (class_spec k c).
Proof.
  intros Hk Hc Hlo Hup.
  pose proof masks_check as H. rewrite forallb_forall in H. specialize (H k Hk).
  rewrite forallb_forall in H. specialize (H c (in_all_bytes c Hc)).
  rewrite Hlo, Hup in H. apply andb_true_iff in H. destruct H as [H1 H2].
  apply eqb_prop in H1. apply eqb_prop in H2. auto.
Qed.
