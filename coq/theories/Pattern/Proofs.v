(* Pattern/Proofs.v — proofs about the byte-set masks and the manual-level matcher. *)
From Coq Require Import ZArith NArith List Bool Lia.
From GV Require Import Pattern.Common Pattern.Build Pattern.Machine Pattern.Spec.
Import ListNotations.
Open Scope Z_scope.

(* the literal masks of byteset.go are the classes of the manual, for all 256 bytes *)
Definition all_bytes : list Z := map Z.of_nat (seq 0 256).
Definition class_letters : list Z := [97; 99; 100; 103; 108; 112; 115; 117; 119; 120].

Lemma masks_check :
  forallb (fun k => forallb (fun c =>
     match named k, named (k - 32) with
     | Some lo, Some up =>
       Bool.eqb (bs_mem lo c) (class_spec k c) && Bool.eqb (bs_mem up c) (negb (class_spec k c))
     | _, _ => false
     end) all_bytes) class_letters = true.
Proof. vm_compute. reflexivity. Qed.

Lemma in_all_bytes c : 0 <= c < 256 -> In c all_bytes.
Proof.
  intros H. unfold all_bytes. apply in_map_iff. exists (Z.to_nat c). split; [lia|].
  apply in_seq. lia.
Qed.

Lemma masks_correct k c lo up :
  In k class_letters -> 0 <= c < 256 -> named k = Some lo -> named (k - 32) = Some up ->
  bs_mem lo c = class_spec k c /\ bs_mem up c = negb (class_spec k c).
Proof.
  intros Hk Hc Hlo Hup.
  pose proof masks_check as H. rewrite forallb_forall in H. specialize (H k Hk).
  rewrite forallb_forall in H. specialize (H c (in_all_bytes c Hc)).
  rewrite Hlo, Hup in H. apply andb_true_iff in H. destruct H as [H1 H2].
  apply eqb_prop in H1. apply eqb_prop in H2. auto.
Qed.

(* ---------------------------------------------------------------- ranges
   [x-y] in a set denotes the bytes c with x <= c <= y (manual: "in ascending
   order"); a reversed range therefore denotes the empty set. *)
Lemma bs_mem_add s x c : 0 <= x -> 0 <= c -> bs_mem (bs_add s x) c = bs_mem s c || (c =? x).
Proof.
  intros Hx Hc. unfold bs_mem, bs_add.
  rewrite N.lor_spec, N.shiftl_1_l, N.pow2_bits_eqb. f_equal.
  destruct (c =? x) eqn:E.
  - apply Z.eqb_eq in E. subst. apply N.eqb_refl.
  - apply N.eqb_neq. apply Z.eqb_neq in E. intros H. apply E.
    rewrite <- (Z2N.id x), <- (Z2N.id c) by assumption. congruence.
Qed.

Lemma bs_mem_fold l : forall s c, 0 <= c -> (forall x, In x l -> 0 <= x) ->
  bs_mem (fold_left bs_add l s) c = bs_mem s c || existsb (Z.eqb c) l.
Proof.
  induction l as [|x l IH]; intros s c Hc Hl; simpl.
  - rewrite orb_false_r. reflexivity.
  - rewrite IH by (auto; intros; apply Hl; right; assumption).
    rewrite bs_mem_add by (auto; apply Hl; left; reflexivity).
    rewrite orb_assoc. reflexivity.
Qed.

Theorem bs_range_spec a b c : 0 <= a -> 0 <= b -> 0 <= c ->
  bs_mem (bs_range a b) c = (a <=? c) && (c <=? b).
Proof.
  intros Ha Hb Hc. unfold bs_range. destruct (b <? a) eqn:E.
  - apply Z.ltb_lt in E. unfold bs_mem, bs_empty. rewrite N.bits_0.
    symmetry. apply andb_false_iff.
    destruct (Z_le_gt_dec a c); [right; apply Z.leb_gt; lia|left; apply Z.leb_gt; lia].
  - apply Z.ltb_ge in E.
    rewrite bs_mem_add by assumption. rewrite bs_mem_fold; auto.
    + unfold bs_mem at 1, bs_empty. rewrite N.bits_0. simpl.
      destruct (existsb (Z.eqb c) (map (fun k => a + Z.of_nat k) (seq 0 (Z.to_nat (b - a))))) eqn:Ex.
      * apply existsb_exists in Ex. destruct Ex as (x & Hin & Hx). apply Z.eqb_eq in Hx. subst x.
        apply in_map_iff in Hin. destruct Hin as (k & Hk & Hin). apply in_seq in Hin. simpl.
        symmetry. apply andb_true_iff. split; apply Z.leb_le; lia.
      * simpl. destruct (c =? b) eqn:Ecb.
        -- apply Z.eqb_eq in Ecb. subst. symmetry. apply andb_true_iff. split; apply Z.leb_le; lia.
        -- apply Z.eqb_neq in Ecb. symmetry. apply andb_false_iff.
           destruct (Z_le_gt_dec a c) as [Hac|Hac]; [|left; apply Z.leb_gt; lia].
           destruct (Z_le_gt_dec c b) as [Hcb|Hcb]; [|right; apply Z.leb_gt; lia].
           exfalso. assert (Hin : existsb (Z.eqb c) (map (fun k => a + Z.of_nat k) (seq 0 (Z.to_nat (b - a)))) = true).
           { apply existsb_exists. exists c. split; [|apply Z.eqb_refl].
             apply in_map_iff. exists (Z.to_nat (c - a)). split; [lia|]. apply in_seq. lia. }
           congruence.
    + intros x Hin. apply in_map_iff in Hin. destruct Hin as (k & Hk & _). lia.
Qed.
