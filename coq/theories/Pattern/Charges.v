(* Pattern/Charges.v — budget_charges: matching work is charged.
   The number of machine steps is bounded by the number of consumeBudget calls
   (ticks): for every item list, subject and state,

       steps  <=  Phi st  +  2 * (|items| + 2) * ticks,

   where Phi of a start state is |items| + 2 (so a whole find() over |s|+1
   start positions makes at most (|items|+2)*(|s|+1) + 2*(|items|+2)*ticks
   steps).  Hence a run that is not killed by a budget B made fewer than
   Phi + 2(|items|+2)*B steps: exponential backtracking cannot go uncharged.
   (A step is O(|s|) Go work at most: greedy runs and %b charge one tick per
   byte; a back-reference comparison is a single uncharged step.) *)
From Coq Require Import ZArith NArith List Bool Lia.
From GV Require Import Pattern.Common Pattern.Machine Pattern.Terminate.
Import ListNotations.
Open Scope Z_scope.

Section Charges.
Variable items : list item.
Variable ea : bool.
Variable s : list Z.
Notation N := (Z.of_nat (length items)).
Notation K := (2 * (N + 2)).

Definition cnt (t : tbe) : Z := Z.max 0 (t_si t - t_min t) + 1.
Fixpoint sumC (tb : list tbe) : Z := match tb with [] => 0 | t :: r => cnt t + sumC r end.

Definition P (si : Z) (pi : nat) : Z :=
  match nth_error items pi with
  | Some _ => N + 2 - Z.of_nat pi
  | None => if si =? -1 then 1 else 2
  end.

Definition Phi (st : mstate) : Z := P (m_si st) (m_pi st) + (N + 2) * sumC (m_tb st).

Lemma sumC_ge0 tb : 0 <= sumC tb.
Proof. induction tb; simpl; unfold cnt in *; lia. Qed.

Lemma P_range si pi : 1 <= P si pi <= N + 2.
Proof.
  unfold P. destruct (nth_error items pi) eqn:E.
  - assert (pi < length items)%nat by (apply nth_error_Some; congruence). lia.
  - destruct (si =? -1); lia.
Qed.

Lemma Phi_ge1 st : 1 <= Phi st.
Proof. unfold Phi. pose proof (P_range (m_si st) (m_pi st)). pose proof (sumC_ge0 (m_tb st)). nia. Qed.

Lemma P_next si si' pi it : nth_error items pi = Some it -> P si' (S pi) + 1 <= P si pi.
Proof.
  intros E. unfold P. rewrite E.
  assert (pi < length items)%nat by (apply nth_error_Some; congruence).
  destruct (nth_error items (S pi)); [lia|]. destruct (si' =? -1); lia.
Qed.

Lemma trackback_pot st : 2 <= P (m_si st) (m_pi st) -> 1 + Phi (trackback items st) <= Phi st.
Proof.
  intros HP. unfold Phi, trackback. destruct (m_tb st) as [|t rest]; cbn [m_si m_pi m_tb sumC].
  - assert (Hend : P (-1) (nitems items) = 1).
    { unfold P, nitems.
      replace (nth_error items (length items)) with (@None item) by (symmetry; apply nth_error_None; lia).
      reflexivity. }
    rewrite Hend. lia.
  - pose proof (P_range (t_si t) (t_pi t)) as HPr. pose proof (sumC_ge0 rest).
    destruct (t_min t <? t_si t) eqn:El; cbn [sumC]; unfold cnt; cbn [t_si t_pi t_min].
    + apply Z.ltb_lt in El. nia.
    + apply Z.ltb_ge in El. nia.
Qed.

Lemma bal_ticks op cl : forall l d c0 b n, bal op cl l d c0 = (b, n) -> c0 <= n.
Proof.
  induction l as [|x l IH]; intros d c0 b n H; simpl in H.
  - inversion H; lia.
  - destruct (x =? cl).
    + destruct d as [|[|d]]; try (inversion H; lia). apply IH in H. lia.
    + destruct (x =? op); apply IH in H; lia.
Qed.

(* one step costs at most the drop of the potential plus K per tick *)
Lemma step_pot st st' t : step items ea s st = SNext st' t -> 1 + Phi st' <= Phi st + K * t /\ 0 <= t.
Proof.
  unfold step. destruct (nth_error items (m_pi st)) as [it|] eqn:En.
  - assert (HP2 : 2 <= P (m_si st) (m_pi st)).
    { unfold P. rewrite En. assert (m_pi st < length items)%nat by (apply nth_error_Some; congruence). lia. }
    pose proof (trackback_pot st HP2) as HTB.
    assert (Hn : forall si', P si' (S (m_pi st)) + 1 <= P (m_si st) (m_pi st)) by (intros; eapply P_next; eauto).
    pose proof (sumC_ge0 (m_tb st)) as HS.
    assert (HN : 0 <= N) by lia.
    destruct it as [k cls|n|op cl|cls|n|n].
    + destruct k.
      * destruct (matchNext s cls (m_si st)) as [[|]|]; intros H; try discriminate H;
          injection H as Hst Ht; subst st' t; [|split; lia].
        unfold Phi. cbn [m_si m_pi m_tb]. specialize (Hn (m_si st + 1)). split; lia.
      * destruct (greedy s cls (m_si st)) as [k|] eqn:Eg; intros H; try discriminate H.
        injection H as Hst Ht; subst st' t. pose proof (greedy_le s _ _ _ Eg) as Hk.
        unfold Phi. cbn [m_si m_pi m_tb]. specialize (Hn (m_si st + k)).
        destruct (0 <? k) eqn:E0; cbn [sumC]; [|split; nia].
        apply Z.ltb_lt in E0. unfold cnt. cbn [t_si t_min]. split; nia.
      * destruct (matchNext s cls (m_si st)) as [[|]|]; intros H; try discriminate H;
          [|injection H as Hst Ht; subst st' t; split; lia].
        destruct (greedy s cls (m_si st + 1)) as [k|] eqn:Eg; [|discriminate].
        injection H as Hst Ht; subst st' t. pose proof (greedy_le s _ _ _ Eg) as Hk.
        unfold Phi. cbn [m_si m_pi m_tb]. specialize (Hn (m_si st + 1 + k)).
        pose proof (Z.mul_nonneg_nonneg (N + 2) (1 + k) ltac:(lia) ltac:(lia)) as Hm.
        repeat match goal with |- context [K * ?x] => progress (change x with (1 + k)) end.
        match goal with |- _ /\ 0 <= ?x => change x with (1 + k) end.
        destruct (0 <? k) eqn:E0; cbn [sumC]; [|split; lia].
        apply Z.ltb_lt in E0. unfold cnt. cbn [t_si t_min].
        replace (Z.max 0 (m_si st + 1 + k - (m_si st + 1))) with k by lia. split; nia.
      * destruct (matchNext s cls (m_si st)) as [[|]|]; intros H; try discriminate H;
          injection H as Hst Ht; subst st' t; unfold Phi; cbn [m_si m_pi m_tb sumC];
          specialize (Hn (m_si st)); [unfold cnt; cbn [t_si t_min]|]; split; nia.
      * destruct (matchNext s cls (m_si st)) as [[|]|]; intros H; try discriminate H;
          injection H as Hst Ht; subst st' t; unfold Phi; cbn [m_si m_pi m_tb sumC].
        -- specialize (Hn (m_si st + 1)). unfold cnt; cbn [t_si t_min]. split; nia.
        -- specialize (Hn (m_si st)). split; nia.
    + destruct ((n <? 0) || (10 <=? n)); [discriminate|].
      destruct (m_caps st n) as [cs ce].
      destruct ((cs <=? ce) && (m_si st + ce - cs <=? slen s)) eqn:Ec;
        [|intros H; injection H as Hst Ht; subst st' t; split; lia].
      apply andb_true_iff in Ec. destruct Ec as [Ec _]. apply Z.leb_le in Ec.
      destruct (slice s cs ce); [|discriminate].
      destruct (slice s (m_si st) (m_si st + ce - cs)); [|discriminate].
      destruct (list_eqb l l0); intros H; injection H as Hst Ht; subst st' t; [|split; nia].
      unfold Phi. cbn [m_si m_pi m_tb]. specialize (Hn (m_si st + ce - cs)). split; nia.
    + destruct (m_si st <? slen s); [|intros H; injection H as Hst Ht; subst st' t; split; lia].
      destruct (getb s (m_si st)); [|discriminate].
      destruct (z =? op); [|intros H; injection H as Hst Ht; subst st' t; split; lia].
      destruct (bal op cl (suffix s (m_si st + 1)) 1 1) as [[|] n] eqn:Eb;
        pose proof (bal_ticks _ _ _ _ _ _ _ Eb) as Hb;
        intros H; injection H as Hst Ht; subst st' t; [|split; nia].
      unfold Phi. cbn [m_si m_pi m_tb]. specialize (Hn (m_si st + n)). split; nia.
    + destruct (if 0 <? m_si st then getb s (m_si st - 1) else Some 0); [|discriminate].
      destruct (if m_si st <? slen s then getb s (m_si st) else Some 0); [|discriminate].
      destruct (bs_mem cls z || negb (bs_mem cls z0)); intros H; injection H as Hst Ht; subst st' t; [split; lia|].
      unfold Phi. cbn [m_si m_pi m_tb]. specialize (Hn (m_si st)). split; lia.
    + destruct ((n <? 0) || (10 <=? n)); [discriminate|]. intros H; injection H as Hst Ht; subst st' t.
      unfold Phi. cbn [m_si m_pi m_tb]. specialize (Hn (m_si st)). split; lia.
    + destruct ((n <? 0) || (10 <=? n)); [discriminate|]. intros H; injection H as Hst Ht; subst st' t.
      unfold Phi. cbn [m_si m_pi m_tb]. specialize (Hn (m_si st)). split; lia.
  - destruct (m_si st =? -1) eqn:E1; [discriminate|].
    destruct (negb ea || (m_si st =? slen s)); [discriminate|].
    intros H; injection H as Hst Ht; subst st' t. split; [|lia].
    assert (2 <= P (m_si st) (m_pi st)) by (unfold P; rewrite En, E1; lia).
    pose proof (trackback_pot st H). lia.
Qed.

(* run without budget, counting the steps actually made *)
Fixpoint runs (f : nat) (u : Z) (st : mstate) : outcome * Z * nat :=
  match f with
  | O => (OOutOfFuel, u, O)
  | S f' =>
    match step items ea s st with
    | SDone o => (o, u, 1%nat)
    | SNext st' t => let '(o, u', n) := runs f' (u + t) st' in (o, u', S n)
    end
  end.

Lemma runs_run : forall f u st, fst (runs f u st) = run items ea s f 0 u st.
Proof.
  induction f; intros u st; simpl; [reflexivity|].
  destruct (step items ea s st) as [st' t|o]; [|reflexivity].
  specialize (IHf (u + t) st'). destruct (runs f (u + t) st') as [[o u'] n]. simpl in *. exact IHf.
Qed.

(* budget_charges *)
Theorem budget_charges : forall f u st o u' n,
  runs f u st = (o, u', n) -> Z.of_nat n <= Phi st + K * (u' - u) /\ u <= u'.
Proof.
  induction f as [|f IH]; intros u st o u' n H; simpl in H.
  - injection H as _ Hu Hn. subst. pose proof (Phi_ge1 st). simpl. lia.
  - destruct (step items ea s st) as [st' t|o'] eqn:Es.
    + destruct (runs f (u + t) st') as [[o1 u1] n1] eqn:Er. injection H as _ Hu Hn. subst.
      destruct (IH _ _ _ _ _ Er) as [H1 H2]. destruct (step_pot _ _ _ Es) as [H3 H4].
      rewrite Nat2Z.inj_succ. split; nia.
    + injection H as _ Hu Hn. subst. pose proof (Phi_ge1 st). simpl. lia.
Qed.

Lemma Phi_start init c : Phi (start_state init c) <= N + 2.
Proof.
  unfold Phi, start_state. cbn [m_si m_pi m_tb sumC]. pose proof (P_range init O). lia.
Qed.
End Charges.

(* "matching work is charged": counting one unit of work per step plus one per
   byte the step looks at beyond the first — greedy runs, %b scans and (since
   the back-reference comparison calls consumeBudgetN) back-references all
   charge one tick per byte — the total work of a run is bounded by the ticks:
       work = steps + ticks <= Phi st + (2(|items|+2) + 1) * ticks. *)
Theorem work_charged : forall items ea s f u st o u' n,
  runs items ea s f u st = (o, u', n) ->
  Z.of_nat n + (u' - u) <= Phi items st + (2 * (Z.of_nat (length items) + 2) + 1) * (u' - u).
Proof.
  intros items ea s f u st o u' n H.
  destruct (budget_charges items ea s f u st o u' n H) as [H1 H2]. lia.
Qed.
