(* Pattern/Build.v — implementation model (IM) of the pattern compiler,
   lib/stringlib/pattern/builder.go (getPattern, next, back, emit,
   getPatternItem, checkCapture, getCharClass, getUnion, getCharRange).
   Go errors are [Err e]; an index-out-of-range panic would be [BPanic];
   loops are fuelled, [BFuel] is distinct from every real outcome.

   No proofs in this file. *)
From Coq Require Import ZArith NArith List Bool.
From GV Require Import Pattern.Common.
Import ListNotations.
Open Scope Z_scope.

Inductive berr :=
| EMalformed              (* errInvalidPattern        "malformed pattern" *)
| EUnfinishedCapture      (* errUnfinishedCapture     *)
| EInvalidPatternCapture  (* errInvalidPatternCapture *)
| ETooComplex             (* errPatternTooComplex     *)
| EInvalidCaptureIdx (n : Z)
| EInvalidPct             (* ErrInvalidPct "invalid use of '%'" *)
| EMissingBracket.        (* errMissingBracketAfterF "missing '[' after '%f' in pattern" *)

Inductive res (A : Type) :=
| Ok (a : A) | Err (e : berr) | BPanic | BFuel.
Arguments Ok {A}. Arguments Err {A}. Arguments BPanic {A}. Arguments BFuel {A}.

Definition bind {A B} (r : res A) (f : A -> res B) : res B :=
  match r with Ok a => f a | Err e => Err e | BPanic => BPanic | BFuel => BFuel end.
Notation "'do' x <- e ; k" := (bind e (fun x => k))
  (at level 200, x name, e at level 100, k at level 200, right associativity).
Notation "'do' ' x <- e ; k" := (bind e (fun x => k))
  (at level 200, x strict pattern, e at level 100, k at level 200, right associativity).

Record pb := mkPb {
  b_items : list item;   (* reversed *)
  b_ciMax : Z;
  b_cStack : list Z;     (* top first *)
  b_i : nat;
  b_aL : bool; b_aR : bool }.

Definition maxPatternSize : nat := Z.to_nat 10000.

Section Builder.
Variable ptn : list Z.
Definition plen : nat := length ptn.

Definition set_i (p : pb) (i : nat) : pb :=
  mkPb (b_items p) (b_ciMax p) (b_cStack p) i (b_aL p) (b_aR p).

Definition next (p : pb) : res (Z * pb) :=
  if Nat.leb plen (b_i p) then Err EMalformed
  else match nth_error ptn (b_i p) with
       | Some b => Ok (b, set_i p (S (b_i p)))
       | None => BPanic
       end.

(* the byte at pb.i without consuming it, for the test made after %f *)
Definition peekF (p : pb) : res Z :=
  if Nat.leb plen (b_i p) then Err EMissingBracket
  else match nth_error ptn (b_i p) with
       | Some b => Ok b
       | None => BPanic
       end.

Definition back (p : pb) : pb := set_i p (Nat.pred (b_i p)).

Definition emit (p : pb) (it : item) : pb :=
  mkPb (it :: b_items p) (b_ciMax p) (b_cStack p) (b_i p) (b_aL p) (b_aR p).

Definition getCharRange (c : Z) : res bset :=
  match named c with
  | Some s => Ok s
  | None =>
    if c =? 48 then Err (EInvalidCaptureIdx 0)
    else if inr 49 57 c || inr 65 90 c || inr 97 122 c then Err EInvalidPct
    else Ok (bs_add bs_empty c)
  end.

(* the Loop of getUnion; b is the byte last read (err == nil); [first] = this is
   the first byte of the set, where a ']' stands for itself *)
Fixpoint unionLoop (fuel : nat) (first : bool) (neg : bool) (s : bset) (b : Z) (p : pb) : res (bset * pb) :=
  match fuel with
  | O => BFuel
  | S f =>
    if (b =? 93 (* ] *)) && negb first then Ok ((if neg then bs_compl s else s), p)
    else if b =? 37 (* % *) then
      do '(b1, p) <- next p;
      do r <- getCharRange b1;
      do '(b2, p) <- next p;
      unionLoop f false neg (bs_merge s r) b2 p
    else
      let c := b in
      do '(b1, p) <- next p;
      if b1 =? 45 (* - *) then
        do '(b2, p) <- next p;
        if b2 =? 93 then unionLoop f false neg (bs_add (bs_add s c) 45) b2 p
        else
          do '(b3, p) <- next p;
          unionLoop f false neg (bs_merge s (bs_range c b2)) b3 p
      else unionLoop f false neg (bs_add s c) b1 p
  end.

Definition getUnion (p : pb) : res (bset * pb) :=
  do '(b, p) <- next p;
  do '(neg, b, p) <- (if b =? 94 (* ^ *) then do '(b', p') <- next p; Ok (true, b', p')
                      else Ok (false, b, p));
  unionLoop (S (S plen)) true neg bs_empty b p.

Definition getCharClass (p : pb) : res (bset * pb) :=
  do '(b, p) <- next p;
  if b =? 46 (* . *) then Ok (bs_full, p)
  else if b =? 37 then
    do '(b1, p) <- next p;
    do s <- getCharRange b1;
    Ok (s, p)
  else if b =? 91 (* [ *) then getUnion p
  else Ok (bs_add bs_empty b, p).

Definition checkCapture (p : pb) (ci : Z) : bool :=
  if b_ciMax p <? ci then false
  else negb (existsb (fun sci => sci =? ci) (b_cStack p)).

(* the tail of getPatternItem: optional repetition suffix, then emit *)
Definition finishSingle (r : bset * pb) : res pb :=
  let '(s, p) := r in
  match next p with
  | Ok (b, p') =>
    if b =? 42 then Ok (emit p' (ISingle Star s))
    else if b =? 43 then Ok (emit p' (ISingle Plus s))
    else if b =? 45 then Ok (emit p' (ISingle Lazy s))
    else if b =? 63 then Ok (emit p' (ISingle Opt s))
    else Ok (emit (back p') (ISingle Once s))
  | Err _ => Ok (emit p (ISingle Once s))
  | BPanic => BPanic
  | BFuel => BFuel
  end.

Definition getPatternItem (p : pb) : res pb :=
  do '(b, p) <- next p;
  if b =? 94 (* ^ *) then
    if Nat.eqb (b_i p) 1 then Ok (mkPb (b_items p) (b_ciMax p) (b_cStack p) (b_i p) true (b_aR p))
    else do r <- getCharClass (back p); finishSingle r
  else if b =? 36 (* $ *) then
    if Nat.eqb (b_i p) plen then Ok (mkPb (b_items p) (b_ciMax p) (b_cStack p) (b_i p) (b_aL p) true)
    else do r <- getCharClass (back p); finishSingle r
  else if b =? 40 (* ( *) then
    let ci := b_ciMax p + 1 in
    let p := mkPb (b_items p) ci (b_cStack p) (b_i p) (b_aL p) (b_aR p) in
    if 10 <=? ci then Err EMalformed
    else
      do '(b1, p1) <- next p;
      let p2 := if b1 =? 41 then p1
                else let q := back p1 in
                     mkPb (b_items q) (b_ciMax q) (ci :: b_cStack q) (b_i q) (b_aL q) (b_aR q) in
      Ok (emit p2 (ICapStart ci))
  else if b =? 41 (* ) *) then
    match b_cStack p with
    | [] => Err EInvalidPatternCapture
    | top :: rest =>
      let p := emit p (ICapEnd top) in
      Ok (mkPb (b_items p) (b_ciMax p) rest (b_i p) (b_aL p) (b_aR p))
    end
  else if b =? 37 (* % *) then
    do '(c, p) <- next p;
    if c =? 102 (* f *) then
      (* pb.i >= len(pb.ptn) || pb.ptn[pb.i] != '[' *)
      do b0 <- peekF p;
      if b0 =? 91 then
        do '(s, p) <- getCharClass p;
        Ok (emit p (IFrontier s))
      else Err EMissingBracket
    else if c =? 98 (* b *) then
      do '(op, p) <- next p;
      do '(cl, p) <- next p;
      Ok (emit p (IBalanced op cl))
    else if inr 49 57 c then
      let ci := c - 48 in
      if checkCapture p ci then Ok (emit p (IBackref ci))
      else Err (EInvalidCaptureIdx ci)
    else
      do s <- getCharRange c;
      finishSingle (s, p)
  else
    do r <- getCharClass (back p); finishSingle r.

Fixpoint patternLoop (fuel : nat) (sz : nat) (p : pb) : res pb :=
  match fuel with
  | O => BFuel
  | S f =>
    if Nat.ltb (b_i p) plen then
      do p <- getPatternItem p;
      if Nat.ltb maxPatternSize (S sz) then Err ETooComplex
      else patternLoop f (S sz) p
    else Ok p
  end.

Definition getPattern : res pattern :=
  do p <- patternLoop (S plen) O (mkPb [] 0 [] O false false);
  match b_cStack p with
  | _ :: _ => Err EUnfinishedCapture
  | [] => Ok (mkPattern (rev (b_items p)) (b_ciMax p) (b_aL p) (b_aR p))
  end.
End Builder.

Definition build (ptn : list Z) : res pattern := getPattern ptn.
