(* Pattern/DriverProofs.v — facts about the specification matcher that the
   iteration of gmatch/gsub relies on, and gsub_progress for the model of
   matching.go's loop.
   M_range: a match of Spec.M lies inside the subject and does not end before
   it starts.  gsub_progress: every iteration of the gsub loop moves the search
   position strictly forward (so len(s)+2 iterations always suffice), whatever
   the match is — empty, skipped or replaced. *)
From Coq Require Import ZArith NArith List Bool Lia.
From GV Require Import Pattern.Common Pattern.Build Pattern.Machine Pattern.Spec Pattern.Top
  Pattern.Drivers Pattern.Equiv Pattern.Full Pattern.Terminate Pattern.BuildWf Pattern.Main.
Import ListNotations.
Open Scope Z_scope.

Lemma try_down_some {A} (f : Z -> option A) : forall n lo r,
  try_down f n lo = Some r -> exists j, lo <= j <= lo + Z.of_nat n /\ f j = Some r.
Proof.
  induction n as [|n IH]; intros lo r H.
  - rewrite try_down_0 in H. exists (lo + Z.of_nat 0). split; [simpl; lia|assumption].
  - rewrite try_down_S in H. destruct (f (lo + Z.of_nat (S n))) eqn:E.
    + injection H as H. subst. exists (lo + Z.of_nat (S n)). split; [lia|assumption].
    + destruct (IH _ _ H) as (j & Hj & Hf). exists j. split; [lia|assumption].
Qed.

Lemma try_up_some {A} (f : Z -> option A) : forall n lo r,
  try_up f n lo = Some r -> exists j, lo <= j <= lo + Z.of_nat n /\ f j = Some r.
Proof.
  induction n as [|n IH]; intros lo r H.
  - rewrite try_up_0 in H. exists lo. split; [simpl; lia|assumption].
  - rewrite try_up_S in H. destruct (f lo) eqn:E.
    + injection H as H. subst. exists lo. split; [lia|assumption].
    + destruct (IH _ _ H) as (j & Hj & Hf). exists j. split; [lia|assumption].
Qed.

Section Range.
Variable ea : bool.
Variable s : list Z.
Notation len := (slen s).

Lemma slice_some_inv a b l : slice s a b = Some l -> 0 <= a /\ a <= b /\ b <= len.
Proof.
  unfold slice. destruct ((0 <=? a) && (a <=? b) && (b <=? len)) eqn:E; [|discriminate].
  intros _. apply andb_true_iff in E. destruct E as [E E3]. apply andb_true_iff in E. destruct E as [E1 E2].
  apply Z.leb_le in E1. apply Z.leb_le in E2. apply Z.leb_le in E3. lia.
Qed.

Theorem M_range : forall items i c e c',
  0 <= i <= len -> M ea s items i c = Some (e, c') -> i <= e <= len.
Proof.
  induction items as [|it items IH]; intros i c e c' Hi H.
  - simpl in H. destruct (ea && negb (i =? len)); [discriminate|]. injection H as H _. lia.
  - destruct it as [k cls|n|op cl|cls|n|n]; simpl in H.
    + destruct k.
      * destruct (one s cls i) eqn:O1; [|discriminate].
        destruct (one_true_span s cls i ltac:(lia) O1) as [_ Hlt].
        apply IH in H; lia.
      * pose proof (span_bound s cls i Hi).
        apply try_down_some in H. destruct H as (j & Hj & H). apply IH in H; lia.
      * destruct (span cls (suffix s i)) as [|k] eqn:Es; [discriminate|].
        pose proof (span_bound s cls i Hi). rewrite Es in H0.
        apply try_down_some in H. destruct H as (j & Hj & H). apply IH in H; lia.
      * pose proof (span_bound s cls i Hi).
        apply try_up_some in H. destruct H as (j & Hj & H). apply IH in H; lia.
      * destruct (one s cls i) eqn:O1.
        -- destruct (one_true_span s cls i ltac:(lia) O1) as [_ Hlt].
           destruct (M ea s items (i + 1) c) as [[e1 c1]|] eqn:E1.
           ++ injection H as H1 H2. subst. apply IH in E1; lia.
           ++ apply IH in H; lia.
        -- apply IH in H; lia.
    + destruct (c n) as [cs ce]. destruct (ce <? cs) eqn:El; [discriminate|]. apply Z.ltb_ge in El.
      destruct (slice s cs ce) eqn:S1; [|discriminate].
      destruct (slice s i (i + (ce - cs))) eqn:S2; [|discriminate].
      destruct (list_eqb l l0); [|discriminate].
      apply slice_some_inv in S2. apply IH in H; lia.
    + destruct (suffix s i) as [|b r] eqn:Es; [discriminate|].
      destruct (b =? op); [|discriminate].
      destruct (bal op cl r 1 1) as [[|] n] eqn:Eb; [|discriminate].
      pose proof (bal_bound op cl r 1%nat 1 _ _ Eb) as Hb.
      assert (Hlt : i < len).
      { destruct (Z_lt_le_dec i len); [assumption|]. exfalso.
        unfold suffix in Es. rewrite skipn_all2 in Es; [discriminate|]. unfold slen in *. lia. }
      pose proof (suffix_len s i Hi) as Hl. rewrite Es in Hl. simpl length in Hl.
      apply IH in H; lia.
    + destruct (negb (bs_mem cls (byte_or0 s (i - 1))) && bs_mem cls (byte_or0 s i)); [|discriminate].
      apply IH in H; lia.
    + apply IH in H; lia.
    + apply IH in H; lia.
Qed.

(* leftmost search: the reported start is at or after init, the match is inside the subject *)
Lemma find_at_range items : forall n i st e c,
  0 <= i -> i + Z.of_nat n <= len + 1 ->
  find_at ea s items n i = Some (st, e, c) -> i <= st /\ st <= e /\ e <= len.
Proof.
  induction n as [|n IH]; intros i st e c H0 Hn H; simpl in H; [discriminate|].
  destruct (M ea s items i caps0) as [[e0 c0]|] eqn:E.
  - injection H as H1 H2 H3. subst. apply M_range in E; lia.
  - apply IH in H; lia.
Qed.
End Range.

(* what Match/MatchFromStart return for an accepted pattern, in terms of positions *)
Theorem api_match_range : forall fromStart p s init f st e rest,
  wf_pattern p = true -> 0 <= init <= slen s ->
  (Terminate.fuel_bound s (p_items p) <= f)%nat ->
  a_res (api fromStart p f s init 0) = MCaps ((st, e) :: rest) ->
  init <= st /\ st <= e /\ e <= slen s.
Proof.
  intros fromStart p s init f st e rest Hwf Hi Hf H.
  rewrite (Main.api_equiv_spec_explicit fromStart p s init f Hwf Hi Hf) in H. simpl in H.
  unfold spec_find_list, find in H.
  replace (slen s <? init) with false in H by (symmetry; apply Z.ltb_ge; lia).
  destruct (fromStart && p_sanchor p).
  - destruct (M (p_eanchor p) s (p_items p) init caps0) as [[e0 c0]|] eqn:E; [|discriminate].
    unfold capture_list in H. injection H as H1 H2 _. subst.
    apply M_range in E; lia.
  - destruct (find_at (p_eanchor p) s (p_items p) (Z.to_nat (slen s - init + 1)) init) as [[[st0 e0] c0]|] eqn:E;
      [|discriminate].
    unfold capture_list in H. injection H as H1 H2 _. subst.
    apply find_at_range in E; lia.
Qed.

(* gsub_progress: one iteration of matching.go's loop (model Drivers.gsub_loop):
   given a match (st, en) found from position si with si <= st <= en, the next
   search position is strictly larger than si. *)
Theorem gsub_progress : forall si st en : Z,
  si <= st -> st <= en ->
  si < (if en <=? st then st + 1 else en).
Proof.
  intros si st en H1 H2. destruct (en <=? st) eqn:E.
  - lia.
  - apply Z.leb_gt in E. lia.
Qed.

(* ... and for the loop itself: whatever MatchFromStart/Match returns for an
   accepted pattern at search position si, the position used by the next
   iteration of gsub (and of the gmatch iterator: same update) is beyond si. *)
Theorem gsub_iteration_progress : forall fromStart ptn p s si f st en rest,
  build ptn = Ok p -> 0 <= si <= slen s ->
  (Terminate.fuel_bound s (p_items p) <= f)%nat ->
  a_res (api fromStart p f s si 0) = MCaps ((st, en) :: rest) ->
  si < (if en <=? st then st + 1 else en) /\ (if en <=? st then st + 1 else en) <= slen s + 1.
Proof.
  intros fromStart ptn p s si f st en rest Hb Hi Hf H.
  pose proof (BuildWf.build_wf ptn p Hb) as Hwf.
  destruct (api_match_range fromStart p s si f st en rest Hwf Hi Hf H) as (H1 & H2 & H3).
  split; [apply gsub_progress; assumption|].
  destruct (en <=? st) eqn:E; [apply Z.leb_le in E|]; lia.
Qed.

(* gsub's 4th argument: a non-positive maximum means no replacement at all,
   in the specification (lstrlib: while (n < max_s)) and in the model of the
   repaired matching.go (n < 0 is clamped to 0) *)
Lemma slice_all (s : list Z) : slice s 0 (slen s) = Some s.
Proof.
  unfold slice. replace ((0 <=? 0) && (0 <=? slen s) && (slen s <=? slen s)) with true.
  - simpl skipn. rewrite Z.sub_0_r. unfold slen. rewrite Nat2Z.id. rewrite firstn_all. reflexivity.
  - symmetry. unfold slen. repeat (apply andb_true_iff; split); apply Z.leb_le; lia.
Qed.

Theorem gsub_s_nonpositive : forall p s repl n, n <= 0 ->
  gsub_s p s repl (Some n) = DVals [CStr s; CPos 0].
Proof.
  intros p s repl n Hn. unfold gsub_s.
  replace (2 * S (length s) + 2)%nat with (S (2 * S (length s) + 1))%nat by lia.
  simpl gsub_sloop. replace (n <=? 0) with true by (symmetry; apply Z.leb_le; lia).
  rewrite slice_all. reflexivity.
Qed.

Theorem gsub_im_nonpositive : forall p f s B repl n, n <= 0 ->
  gsub_im p f s B repl (Some n) = (DVals [CStr s; CPos 0], false).
Proof.
  intros p f s B repl n Hn. unfold gsub_im, gsub_n.
  replace (S (length s) + 2)%nat with (S (length s + 2))%nat by lia.
  destruct (n <? 0) eqn:E.
  - simpl. reflexivity.
  - apply Z.ltb_ge in E. assert (n = 0) by lia. subst. simpl. reflexivity.
Qed.

(* %bxy tests the closing delimiter first (matcher.go's switch, lstrlib's
   matchbalance): with identical delimiters the first later delimiter closes. *)
Theorem balanced_close_first : forall x r c0, bal x x (x :: r) 1 c0 = (true, c0 + 1).
Proof. intros. simpl. rewrite Z.eqb_refl. reflexivity. Qed.

Theorem balanced_same_delims_spec : forall ea s x i c rest,
  (exists r, suffix s i = x :: x :: r) ->
  M ea s (IBalanced x x :: rest) i c = M ea s rest (i + 2) c.
Proof.
  intros ea s x i c rest [r H]. simpl. rewrite H. rewrite Z.eqb_refl.
  rewrite balanced_close_first. reflexivity.
Qed.
