(* Pattern/Top.v — entry points used by the extracted oracle (oracle/pattern):
   thin wrappers that turn capture functions into lists.  No proofs. *)
From Coq Require Import ZArith NArith List Bool.
From GV Require Import Pattern.Common Pattern.Build Pattern.Machine Pattern.Spec Pattern.Drivers.
Import ListNotations.
Open Scope Z_scope.

(* Spec.find with the captures as the list Go returns: whole match first *)
Definition spec_find_list (p : pattern) (anchored : bool) (s : list Z) (init : Z)
  : option (list (Z * Z)) :=
  if slen s <? init then None else
  match find p anchored s init with
  | Some (st, e, c) => Some (capture_list (p_ncap p) st e c)
  | None => None
  end.

(* does the pattern contain a back-reference to a position capture?  (the
   defect class of backref_position_capture_panics) *)
Fixpoint closed_caps (l : list item) : list Z :=
  match l with
  | ICapEnd n :: r => n :: closed_caps r
  | _ :: r => closed_caps r
  | [] => []
  end.
Definition backref_to_position (p : pattern) : bool :=
  let closed := closed_caps (p_items p) in
  existsb (fun it => match it with
                     | IBackref n => negb (existsb (Z.eqb n) closed)
                     | _ => false end) (p_items p).

(* ---------------------------------------------------------------- well-formedness
   of a compiled item list (hypothesis of Full.machine_equiv_spec; the oracle
   evaluates it on every pattern the builder accepts):
   capture indices are in 0..9, a capture index is opened once, a
   back-reference names a capture opened before it and not closed after it. *)
Definition is_start (n : Z) (it : item) : bool := match it with ICapStart m => m =? n | _ => false end.
Definition is_end (n : Z) (it : item) : bool := match it with ICapEnd m => m =? n | _ => false end.
Definition has_start (n : Z) (l : list item) : bool := existsb (is_start n) l.
Definition has_end (n : Z) (l : list item) : bool := existsb (is_end n) l.
Definition idx_ok (n : Z) : bool := (0 <=? n) && (n <? 10).
Definition check_item (it : item) (pre suf : list item) : bool :=
  match it with
  | ICapStart n => idx_ok n && negb (has_start n pre)
  | ICapEnd n => idx_ok n
  | IBackref n => idx_ok n && has_start n pre && negb (has_end n suf)
  | _ => true
  end.
Fixpoint wfb (pre l : list item) : bool :=
  match l with
  | [] => true
  | it :: suf => check_item it pre suf && wfb (pre ++ [it]) suf
  end.
Definition wf_pattern (p : pattern) : bool :=
  wfb [] (p_items p) &&
  forallb (fun k => has_start (Z.of_nat k) (p_items p)) (seq 1 (Z.to_nat (p_ncap p))).
