(* Pattern/Top.v — entry points used by the extracted oracle (oracle/pattern):
   thin wrappers that turn capture functions into lists.  No proofs. *)
From Coq Require Import ZArith NArith List Bool.
From GV Require Import Pattern.Common Pattern.Build Pattern.Machine Pattern.Spec Pattern.Drivers.
Import ListNotations.
Open Scope Z_scope.

(* Spec.find with the captures as the list Go returns: whole match first *)
Definition spec_find_list (p : pattern) (anchored : bool) (s : list Z) (init : Z)
  : option (list (Z * Z)) :=
  if slen s <? init then None else
  match find p anchored s init with
  | Some (st, e, c) => Some (capture_list (p_ncap p) st e c)
  | None => None
  end.

(* does the pattern contain a back-reference to a position capture?  (the
   defect class of backref_position_capture_panics) *)
Fixpoint closed_caps (l : list item) : list Z :=
  match l with
  | ICapEnd n :: r => n :: closed_caps r
  | _ :: r => closed_caps r
  | [] => []
  end.
Definition backref_to_position (p : pattern) : bool :=
  let closed := closed_caps (p_items p) in
  existsb (fun it => match it with
                     | IBackref n => negb (existsb (Z.eqb n) closed)
                     | _ => false end) (p_items p).
