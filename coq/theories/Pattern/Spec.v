(* Pattern/Spec.v — specification model (S): the Lua 5.4 manual's pattern
   semantics (§6.4.1) as a structurally recursive backtracking matcher over
   the item list.
     single class        : exactly one byte of the class
     class followed by * : 0 or more, longest run first, then shorter
     class followed by + : 1 or more, longest first
     class followed by - : 0 or more, shortest first
     class followed by ? : one occurrence if possible, then none
     %n                  : the substring equal to capture n (a position capture
                           has no substring, so it never matches)
     %bxy                : balanced x ... y
     %f[set]             : frontier: previous byte (or \0) not in set, next byte (or \0) in set
     ( )  ()             : captures threaded functionally along the path
     $ at the end        : the match must end at the end of the subject
     ^ / leftmost        : [find]
   No proofs in this file. *)
From Coq Require Import ZArith NArith List Bool.
From GV Require Import Pattern.Common.
Import ListNotations.
Open Scope Z_scope.

Section Spec.
Variable eanchor : bool.
Variable s : list Z.

(* try f (lo + n), f (lo + n - 1), ..., f lo *)
Fixpoint try_down {A} (f : Z -> option A) (n : nat) (lo : Z) : option A :=
  match f (lo + Z.of_nat n) with
  | Some r => Some r
  | None => match n with O => None | S n' => try_down f n' lo end
  end.

(* try f lo, f (lo + 1), ..., f (lo + n) *)
Fixpoint try_up {A} (f : Z -> option A) (n : nat) (lo : Z) : option A :=
  match f lo with
  | Some r => Some r
  | None => match n with O => None | S n' => try_up f n' (lo + 1) end
  end.

Definition byte_or0 (i : Z) : Z :=
  match getb s i with Some b => b | None => 0 end.

Fixpoint M (items : list item) (i : Z) (c : caps) : option (Z * caps) :=
  match items with
  | [] => if eanchor && negb (i =? slen s) then None else Some (i, c)
  | ISingle Once cls :: rest =>
    if one s cls i then M rest (i + 1) c else None
  | ISingle Star cls :: rest =>
    try_down (fun j => M rest j c) (span cls (suffix s i)) i
  | ISingle Plus cls :: rest =>
    match span cls (suffix s i) with
    | O => None
    | S k => try_down (fun j => M rest j c) k (i + 1)
    end
  | ISingle Lazy cls :: rest =>
    try_up (fun j => M rest j c) (span cls (suffix s i)) i
  | ISingle Opt cls :: rest =>
    if one s cls i then
      match M rest (i + 1) c with Some r => Some r | None => M rest i c end
    else M rest i c
  | IBackref n :: rest =>
    let '(cs, ce) := c n in
    if ce <? cs then None
    else
      let l := ce - cs in
      match slice s cs ce, slice s i (i + l) with
      | Some a, Some b => if list_eqb a b then M rest (i + l) c else None
      | _, _ => None
      end
  | IBalanced op cl :: rest =>
    match suffix s i with
    | b :: r =>
      if b =? op then
        match bal op cl r 1 1 with
        | (true, n) => M rest (i + n) c
        | (false, _) => None
        end
      else None
    | [] => None
    end
  | IFrontier cls :: rest =>
    if negb (bs_mem cls (byte_or0 (i - 1))) && bs_mem cls (byte_or0 i)
    then M rest i c else None
  | ICapStart n :: rest => M rest i (cset c n (i, -1))
  | ICapEnd n :: rest => M rest i (cset c n (fst (c n), i))
  end.

(* leftmost: the first start position i, i+1, ... (n of them) with a match *)
Fixpoint find_at (items : list item) (n : nat) (i : Z) : option (Z * Z * caps) :=
  match n with
  | O => None
  | S n' =>
    match M items i caps0 with
    | Some (e, c) => Some (i, e, c)
    | None => find_at items n' (i + 1)
    end
  end.
End Spec.

(* find in subject s from 0-based position init (0 <= init): start, end, captures *)
Definition find (p : pattern) (anchored : bool) (s : list Z) (init : Z) : option (Z * Z * caps) :=
  if anchored then
    match M (p_eanchor p) s (p_items p) init caps0 with
    | Some (e, c) => Some (init, e, c)
    | None => None
    end
  else find_at (p_eanchor p) s (p_items p) (Z.to_nat (slen s - init + 1)) init.
