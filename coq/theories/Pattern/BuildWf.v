(* Pattern/BuildWf.v — build_wf: every pattern the compiler model (Build.v,
   mirror of builder.go) accepts satisfies Top.wf_pattern, the hypothesis of
   the simulation theorems (Full.v): capture indices are 1..9, each opened once,
   every index 1..captureCount is opened, a back-reference names a capture
   opened before it and closed (or a position capture) — never one that is
   still open, and never one closed later. *)
From Coq Require Import ZArith NArith List Bool Lia.
From GV Require Import Pattern.Common Pattern.Build Pattern.Top.
Import ListNotations.
Open Scope Z_scope.

Definition is_backref (n : Z) (it : item) : bool :=
  match it with IBackref m => m =? n | _ => false end.
Definition has_backref (n : Z) (l : list item) : bool := existsb (is_backref n) l.

Lemma has_start_app n l1 l2 : has_start n (l1 ++ l2) = has_start n l1 || has_start n l2.
Proof. apply existsb_app. Qed.
Lemma has_end_app n l1 l2 : has_end n (l1 ++ l2) = has_end n l1 || has_end n l2.
Proof. apply existsb_app. Qed.
Lemma has_backref_app n l1 l2 : has_backref n (l1 ++ l2) = has_backref n l1 || has_backref n l2.
Proof. apply existsb_app. Qed.

(* appending an item at the end keeps wfb *)
Lemma wfb_snoc_intro it : forall l pre,
  wfb pre l = true -> check_item it (pre ++ l) [] = true ->
  (forall n, it = ICapEnd n -> has_backref n l = false) ->
  wfb pre (l ++ [it]) = true.
Proof.
  induction l as [|x l IH]; intros pre W C NB.
  - simpl. rewrite app_nil_r in C. rewrite C. reflexivity.
  - simpl in W. apply andb_true_iff in W. destruct W as [Wx W].
    simpl. apply andb_true_iff. split.
    + destruct x; simpl in *; auto.
      (* back-reference: the appended item must not close its capture *)
      apply andb_true_iff in Wx. destruct Wx as [Wx1 Wx2].
      rewrite Wx1. simpl. rewrite has_end_app. simpl. rewrite orb_false_r.
      apply negb_true_iff in Wx2. rewrite Wx2. simpl.
      destruct it; simpl; auto.
      destruct (n0 =? n) eqn:E; [|reflexivity].
      apply Z.eqb_eq in E. subst n0.
      specialize (NB n eq_refl). simpl in NB. rewrite Z.eqb_refl in NB. discriminate.
    + apply IH; auto.
      * rewrite <- app_assoc. exact C.
      * intros n E. specialize (NB n E). simpl in NB. apply orb_false_iff in NB. tauto.
Qed.

Definition its (p : pb) : list item := rev (b_items p).

Record Inv (p : pb) : Prop := mkInv {
  i_wf : wfb [] (its p) = true;
  i_ci : 0 <= b_ciMax p <= 9;
  i_stack : forall n, In n (b_cStack p) -> 1 <= n <= b_ciMax p;
  i_back : forall n, has_backref n (its p) = true -> ~ In n (b_cStack p) /\ n <= b_ciMax p;
  i_all : forall n, 1 <= n <= b_ciMax p -> has_start n (its p) = true;
  i_only : forall n, has_start n (its p) = true -> 1 <= n <= b_ciMax p }.

Definition same (p p' : pb) : Prop :=
  b_items p' = b_items p /\ b_ciMax p' = b_ciMax p /\ b_cStack p' = b_cStack p.

Lemma same_refl p : same p p. Proof. unfold same; auto. Qed.
Lemma same_trans p q r : same p q -> same q r -> same p r.
Proof. unfold same. intros (a & b & c) (d & e & f). repeat split; congruence. Qed.

Lemma Inv_same p p' : same p p' -> Inv p -> Inv p'.
Proof.
  intros (H1 & H2 & H3) [a b c d e f]. unfold its in *.
  constructor; unfold its; rewrite ?H1, ?H2, ?H3; auto.
Qed.

Lemma bind_ok {A B} (r : res A) (f : A -> res B) y :
  bind r f = Ok y -> exists a, r = Ok a /\ f a = Ok y.
Proof. destruct r; simpl; intros; try discriminate. eauto. Qed.

Section B.
Variable ptn : list Z.

Lemma next_same p b p' : next ptn p = Ok (b, p') -> same p p'.
Proof.
  unfold next. destruct (Nat.leb (plen ptn) (b_i p)); [discriminate|].
  destruct (nth_error ptn (b_i p)); [|discriminate].
  intros H. injection H as _ H. subst p'. unfold same, set_i. simpl. auto.
Qed.

Lemma back_same p : same p (back p).
Proof. unfold same, back, set_i. simpl. auto. Qed.

Lemma unionLoop_same : forall fuel first neg s b p r p',
  unionLoop ptn fuel first neg s b p = Ok (r, p') -> same p p'.
Proof.
  induction fuel; intros first neg s b p r p' H; simpl in H; [discriminate|].
  destruct ((b =? 93) && negb first).
  - injection H as _ H. subst. apply same_refl.
  - destruct (b =? 37).
    + apply bind_ok in H. destruct H as ([b1 p1] & H1 & H). apply next_same in H1.
      apply bind_ok in H. destruct H as (r1 & _ & H).
      apply bind_ok in H. destruct H as ([b2 p2] & H2 & H). apply next_same in H2.
      apply IHfuel in H. eapply same_trans; [|exact H]. eapply same_trans; eauto.
    + apply bind_ok in H. destruct H as ([b1 p1] & H1 & H). apply next_same in H1.
      destruct (b1 =? 45).
      * apply bind_ok in H. destruct H as ([b2 p2] & H2 & H). apply next_same in H2.
        destruct (b2 =? 93).
        -- apply IHfuel in H. eapply same_trans; [|exact H]. eapply same_trans; eauto.
        -- apply bind_ok in H. destruct H as ([b3 p3] & H3 & H). apply next_same in H3.
           apply IHfuel in H. eapply same_trans; [|exact H].
           eapply same_trans; [|exact H3]. eapply same_trans; eauto.
      * apply IHfuel in H. eapply same_trans; eauto.
Qed.

Lemma getUnion_same p r p' : getUnion ptn p = Ok (r, p') -> same p p'.
Proof.
  unfold getUnion. intros H.
  apply bind_ok in H. destruct H as ([b p1] & H1 & H). apply next_same in H1.
  apply bind_ok in H. destruct H as ([[neg b2] p2] & H2 & H).
  assert (S2 : same p1 p2).
  { destruct (b =? 94).
    - apply bind_ok in H2. destruct H2 as ([b' p'0] & H2 & H3). apply next_same in H2.
      injection H3 as _ _ H3. subst. exact H2.
    - injection H2 as _ _ H2. subst. apply same_refl. }
  apply unionLoop_same in H.
  eapply same_trans; [exact H1|]. eapply same_trans; [exact S2|]. exact H.
Qed.

Lemma getCharClass_same p r p' : getCharClass ptn p = Ok (r, p') -> same p p'.
Proof.
  unfold getCharClass. intros H.
  apply bind_ok in H. destruct H as ([b p1] & H1 & H). apply next_same in H1.
  destruct (b =? 46).
  - injection H as _ H. subst. exact H1.
  - destruct (b =? 37).
    + apply bind_ok in H. destruct H as ([b1 p2] & H2 & H). apply next_same in H2.
      apply bind_ok in H. destruct H as (s0 & _ & H). injection H as _ H. subst.
      eapply same_trans; eauto.
    + destruct (b =? 91).
      * apply getUnion_same in H. eapply same_trans; eauto.
      * injection H as _ H. subst. exact H1.
Qed.

(* emitting an item that is neither a capture item nor a back-reference *)
Definition plain (it : item) : bool :=
  match it with ISingle _ _ | IBalanced _ _ | IFrontier _ => true | _ => false end.

Lemma its_emit p it : its (emit p it) = its p ++ [it].
Proof. unfold its, emit. simpl. reflexivity. Qed.

Lemma Inv_emit_plain p it : plain it = true -> Inv p -> Inv (emit p it).
Proof.
  intros P [a b c d e f].
  assert (Hs : forall n, has_start n (its p ++ [it]) = has_start n (its p)).
  { intros n. rewrite has_start_app. destruct it; simpl in *; try discriminate; rewrite orb_false_r; reflexivity. }
  assert (Hb : forall n, has_backref n (its p ++ [it]) = has_backref n (its p)).
  { intros n. rewrite has_backref_app. destruct it; simpl in *; try discriminate; rewrite orb_false_r; reflexivity. }
  constructor; rewrite ?its_emit; simpl b_ciMax; simpl b_cStack; auto.
  - apply wfb_snoc_intro; auto.
    + destruct it; simpl in *; try discriminate; reflexivity.
    + intros n E. subst it. discriminate.
  - intros n. rewrite Hb. auto.
  - intros n. rewrite Hs. auto.
  - intros n. rewrite Hs. auto.
Qed.

Lemma finishSingle_inv s p p' : finishSingle ptn (s, p) = Ok p' -> Inv p -> Inv p'.
Proof.
  unfold finishSingle. intros H I.
  destruct (next ptn p) as [[b p1]|e| |] eqn:En; try discriminate.
  - apply next_same in En. pose proof (Inv_same _ _ En I) as I1.
    destruct (b =? 42). { injection H as H; subst p'. apply Inv_emit_plain; [reflexivity|exact I1]. }
    destruct (b =? 43). { injection H as H; subst p'. apply Inv_emit_plain; [reflexivity|exact I1]. }
    destruct (b =? 45). { injection H as H; subst p'. apply Inv_emit_plain; [reflexivity|exact I1]. }
    destruct (b =? 63). { injection H as H; subst p'. apply Inv_emit_plain; [reflexivity|exact I1]. }
    injection H as H; subst p'. apply Inv_emit_plain; [reflexivity|].
    eapply Inv_same; [apply back_same|exact I1].
  - injection H as H. subst p'. apply Inv_emit_plain; [reflexivity|exact I].
Qed.

Lemma class_then_finish p p' :
  bind (getCharClass ptn p) (finishSingle ptn) = Ok p' -> Inv p -> Inv p'.
Proof.
  intros H I. apply bind_ok in H. destruct H as ([s0 p1] & H1 & H).
  apply getCharClass_same in H1. eapply finishSingle_inv; eauto. eapply Inv_same; eauto.
Qed.

Lemma checkCapture_true p ci : checkCapture p ci = true -> ci <= b_ciMax p /\ ~ In ci (b_cStack p).
Proof.
  unfold checkCapture. destruct (b_ciMax p <? ci) eqn:E; [discriminate|].
  apply Z.ltb_ge in E. intros H. apply negb_true_iff in H. split; [lia|].
  intros Hin. assert (existsb (fun sci => sci =? ci) (b_cStack p) = true); [|congruence].
  apply existsb_exists. exists ci. split; [assumption|apply Z.eqb_refl].
Qed.

Lemma getPatternItem_inv p p' : getPatternItem ptn p = Ok p' -> Inv p -> Inv p'.
Proof.
  unfold getPatternItem. intros H I.
  apply bind_ok in H. destruct H as ([b p1] & H1 & H). apply next_same in H1.
  pose proof (Inv_same _ _ H1 I) as I1.
  assert (Iback : Inv (back p1)) by (eapply Inv_same; [apply back_same|exact I1]).
  destruct (b =? 94).
  { destruct (Nat.eqb (b_i p1) 1).
    - injection H as H. subst p'. eapply Inv_same; [|exact I1]. unfold same. simpl. auto.
    - eapply class_then_finish; eauto. }
  destruct (b =? 36).
  { destruct (Nat.eqb (b_i p1) (plen ptn)).
    - injection H as H. subst p'. eapply Inv_same; [|exact I1]. unfold same. simpl. auto.
    - eapply class_then_finish; eauto. }
  destruct (b =? 40).
  { (* ( *)
    destruct (10 <=? b_ciMax p1 + 1) eqn:E10; [discriminate|]. apply Z.leb_gt in E10.
    apply bind_ok in H. destruct H as ([b1 p2] & H2 & H). apply next_same in H2. simpl in H2.
    injection H as H. subst p'.
    destruct I1 as [a bb c d e f].
    set (ci := b_ciMax p1 + 1) in *.
    destruct H2 as (Hi & Hc & Hs). simpl in Hi, Hc, Hs.
    assert (Hns : has_start ci (its p1) = false).
    { destruct (has_start ci (its p1)) eqn:E; [|reflexivity]. apply f in E. unfold ci in E. lia. }
    assert (Hst : forall n, has_start n (its p1 ++ [ICapStart ci]) = has_start n (its p1) || (ci =? n)).
    { intros n. rewrite has_start_app. simpl. rewrite orb_false_r. reflexivity. }
    assert (Hbr : forall n, has_backref n (its p1 ++ [ICapStart ci]) = has_backref n (its p1)).
    { intros n. rewrite has_backref_app. simpl. rewrite orb_false_r. reflexivity. }
    assert (Hits : forall q, b_items q = b_items p1 -> its (emit q (ICapStart ci)) = its p1 ++ [ICapStart ci]).
    { intros q Hq. unfold its, emit. simpl. rewrite Hq. reflexivity. }
    assert (Hwf : wfb [] (its p1 ++ [ICapStart ci]) = true).
    { apply wfb_snoc_intro; auto.
      - simpl. rewrite Hns. unfold idx_ok.
        replace (0 <=? ci) with true by (symmetry; apply Z.leb_le; unfold ci; lia).
        replace (ci <? 10) with true by (symmetry; apply Z.ltb_lt; lia). reflexivity.
      - intros n E. discriminate. }
    destruct (b1 =? 41).
    - (* position capture: nothing pushed *)
      constructor; rewrite ?(Hits p2 Hi); simpl b_ciMax; simpl b_cStack; rewrite ?Hc, ?Hs; simpl; auto.
      + fold ci. lia.
      + fold ci. intros n Hn. apply c in Hn. lia.
      + fold ci. intros n. rewrite Hbr. intros Hn. apply d in Hn. destruct Hn. split; [assumption|lia].
      + fold ci. intros n Hn. rewrite Hst. destruct (Z.eq_dec n ci).
        * subst. rewrite Z.eqb_refl. apply orb_true_r.
        * rewrite e by lia. reflexivity.
      + fold ci. intros n. rewrite Hst. intros Hn. apply orb_true_iff in Hn. destruct Hn as [Hn|Hn].
        * apply f in Hn. lia.
        * apply Z.eqb_eq in Hn. lia.
    - (* ordinary capture: ci pushed on the stack *)
      match goal with |- Inv ?x => set (q := x) end.
      assert (Eits : its q = its p1 ++ [ICapStart ci])
        by (unfold q, its, emit, back, set_i; simpl; rewrite Hi; reflexivity).
      assert (Eci : b_ciMax q = ci) by (unfold q, emit, back, set_i; simpl; exact Hc).
      assert (Estk : b_cStack q = ci :: b_cStack p1)
        by (unfold q, emit, back, set_i; simpl; rewrite Hs; reflexivity).
      constructor; rewrite ?Eits, ?Eci, ?Estk; auto.
      + lia.
      + fold ci. intros n [Hn|Hn]; [lia|]. apply c in Hn. lia.
      + fold ci. intros n. rewrite Hbr. intros Hn. apply d in Hn. destruct Hn as [Hn1 Hn2].
        split; [|lia]. intros [E|E]; [lia|contradiction].
      + fold ci. intros n Hn. rewrite Hst. destruct (Z.eq_dec n ci).
        * subst. rewrite Z.eqb_refl. apply orb_true_r.
        * rewrite e by lia. reflexivity.
      + fold ci. intros n. rewrite Hst. intros Hn. apply orb_true_iff in Hn. destruct Hn as [Hn|Hn].
        * apply f in Hn. lia.
        * apply Z.eqb_eq in Hn. lia. }
  destruct (b =? 41).
  { (* ) *)
    destruct (b_cStack p1) as [|top rest] eqn:Est; [discriminate|].
    injection H as H. subst p'.
    destruct I1 as [a bb c d e f]. rewrite Est in *.
    assert (Htop : 1 <= top <= b_ciMax p1) by (apply c; left; reflexivity).
    assert (Hst : forall n, has_start n (its p1 ++ [ICapEnd top]) = has_start n (its p1)).
    { intros n. rewrite has_start_app. simpl. rewrite orb_false_r. reflexivity. }
    assert (Hbr : forall n, has_backref n (its p1 ++ [ICapEnd top]) = has_backref n (its p1)).
    { intros n. rewrite has_backref_app. simpl. rewrite orb_false_r. reflexivity. }
    constructor; unfold its; simpl b_items; simpl b_ciMax; simpl b_cStack;
      change (rev (b_items p1) ++ [ICapEnd top]) with (its p1 ++ [ICapEnd top]); auto.
    - apply wfb_snoc_intro; auto.
      + simpl. unfold idx_ok.
        replace (0 <=? top) with true by (symmetry; apply Z.leb_le; lia).
        replace (top <? 10) with true by (symmetry; apply Z.ltb_lt; lia). reflexivity.
      + intros n E. injection E as E. subst n.
        destruct (has_backref top (its p1)) eqn:Eb; [|exact Eb].
        apply d in Eb. destruct Eb as [Eb _]. exfalso. apply Eb. left. reflexivity.
    - intros n Hn. apply c. right. assumption.
    - intros n. rewrite Hbr. intros Hn. apply d in Hn. destruct Hn as [Hn1 Hn2].
      split; [|assumption]. intros Hin. apply Hn1. right. assumption.
    - intros n Hn. rewrite Hst. auto.
    - intros n. rewrite Hst. auto. }
  destruct (b =? 37).
  { apply bind_ok in H. destruct H as ([c0 p2] & H2 & H). apply next_same in H2.
    pose proof (Inv_same _ _ H2 I1) as I2.
    destruct (c0 =? 102).
    - apply bind_ok in H. destruct H as (b0 & _ & H).
      destruct (b0 =? 91); [|discriminate].
      apply bind_ok in H. destruct H as ([s0 p3] & H3 & H). apply getCharClass_same in H3.
      injection H as H. subst p'. apply Inv_emit_plain; [reflexivity|]. eapply Inv_same; eauto.
    - destruct (c0 =? 98).
      + apply bind_ok in H. destruct H as ([op p3] & H3 & H). apply next_same in H3.
        apply bind_ok in H. destruct H as ([cl p4] & H4 & H). apply next_same in H4.
        injection H as H. subst p'. apply Inv_emit_plain; [reflexivity|].
        eapply Inv_same; [exact H4|]. eapply Inv_same; eauto.
      + destruct (inr 49 57 c0) eqn:Ed.
        * (* back-reference *)
          destruct (checkCapture p2 (c0 - 48)) eqn:Ecc; [|discriminate].
          injection H as H. subst p'.
          apply checkCapture_true in Ecc. destruct Ecc as [Ele Enin].
          unfold inr in Ed. apply andb_true_iff in Ed. destruct Ed as [Ed1 Ed2].
          apply Z.leb_le in Ed1. apply Z.leb_le in Ed2.
          set (ci := c0 - 48) in *.
          destruct I2 as [a bb c d e f].
          assert (Hst : forall n, has_start n (its p2 ++ [IBackref ci]) = has_start n (its p2)).
          { intros n. rewrite has_start_app. simpl. rewrite orb_false_r. reflexivity. }
          assert (Hbr : forall n, has_backref n (its p2 ++ [IBackref ci]) = has_backref n (its p2) || (ci =? n)).
          { intros n. rewrite has_backref_app. simpl. rewrite orb_false_r. reflexivity. }
          constructor; rewrite ?its_emit; simpl b_ciMax; simpl b_cStack; auto.
          -- apply wfb_snoc_intro; auto.
             ++ simpl. rewrite e by (unfold ci; lia). unfold idx_ok.
                replace (0 <=? ci) with true by (symmetry; apply Z.leb_le; unfold ci; lia).
                replace (ci <? 10) with true by (symmetry; apply Z.ltb_lt; unfold ci; lia). reflexivity.
             ++ intros n E. discriminate.
          -- intros n. rewrite Hbr. intros Hn. apply orb_true_iff in Hn. destruct Hn as [Hn|Hn].
             ++ auto.
             ++ apply Z.eqb_eq in Hn. subst n. split; assumption.
          -- intros n Hn. rewrite Hst. auto.
          -- intros n. rewrite Hst. auto.
        * apply bind_ok in H. destruct H as (s0 & _ & H). eapply finishSingle_inv; eauto. }
  eapply class_then_finish; eauto.
Qed.

Lemma patternLoop_inv : forall fuel sz p p', patternLoop ptn fuel sz p = Ok p' -> Inv p -> Inv p'.
Proof.
  induction fuel; intros sz p p' H I; simpl in H; [discriminate|].
  destruct (Nat.ltb (b_i p) (plen ptn)).
  - apply bind_ok in H. destruct H as (p1 & H1 & H).
    destruct (Nat.ltb maxPatternSize (S sz)); [discriminate|].
    eapply IHfuel; eauto. eapply getPatternItem_inv; eauto.
  - injection H as H. subst. assumption.
Qed.

Lemma Inv_init : Inv (mkPb [] 0 [] O false false).
Proof.
  constructor; unfold its; simpl; auto; try lia; try (intros; discriminate); try (intros; contradiction).
Qed.

(* build_wf *)
Theorem build_wf : forall p, build ptn = Ok p -> wf_pattern p = true.
Proof.
  intros p H. unfold build, getPattern in H.
  apply bind_ok in H. destruct H as (q & H1 & H).
  apply patternLoop_inv in H1; [|apply Inv_init].
  destruct (b_cStack q); [|discriminate]. injection H as H. subst p.
  destruct H1 as [a b c d e f]. unfold wf_pattern. simpl. unfold its in *.
  rewrite a. simpl. apply forallb_forall. intros k Hk. apply in_seq in Hk. apply e. lia.
Qed.
End B.
