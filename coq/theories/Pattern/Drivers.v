(* Pattern/Drivers.v — string.find / match / gmatch / gsub.
   IM side: mirror of lib/stringlib/matching.go (find, match, pushCaptures,
   pushExtraCaptures, captureValue, gmatch's iterator, gsub with a string
   replacement) on top of Machine.api.
   S side: what the Lua 5.4 reference semantics prescribe (lstrlib.c
   str_find_aux, gmatch_aux, str_gsub/add_s: leftmost match, `lastmatch`
   rule for empty matches, `^` honoured by find/match/gsub), on top of Spec.M.
   Positions are 0-based byte offsets [si] (Lua init - 1, already normalised).

   The IM functions also return diagnostic flags naming the places where the
   Go code is known to leave the manual (used only to classify differences).
   No proofs in this file. *)
From Coq Require Import ZArith NArith List Bool.
From GV Require Import Pattern.Common Pattern.Build Pattern.Machine Pattern.Spec.
Import ListNotations.
Open Scope Z_scope.

Inductive cval := CStr (l : list Z) | CPos (p : Z).

Inductive derr := DEInvalidCaptureIdx (n : Z) | DEInvalidPct.

Inductive dres :=
| DVals (l : list cval)
| DNil
| DErr (e : derr)
| DPanic
| DFuel.

(* decimal rendering of a non-negative integer (strconv.Itoa / lua_Integer -> string) *)
Fixpoint dec_digits (fuel : nat) (n : Z) (acc : list Z) : list Z :=
  match fuel with
  | O => acc
  | S f => let acc' := (48 + n mod 10) :: acc in
           if n <? 10 then acc' else dec_digits f (n / 10) acc'
  end.
Definition itoa (n : Z) : list Z :=
  if n <? 0 then 45 :: dec_digits 25 (- n) [] else dec_digits 25 n [].

(* string.gmatch: a '^' at the start of the pattern does not work as an anchor,
   it stands for itself — the pattern compiled is "%" .. ptn (matching.go
   gmatch; lstrlib's gmatch simply does not look for an anchor) *)
Definition gmatch_pattern (ptn : list Z) : list Z :=
  match ptn with 94 :: _ => 37 :: ptn | _ => ptn end.

(* ======================================================================= IM *)
Section IM.
Variable p : pattern.
Variable fuel : nat.
Variable s : list Z.
Variable B : Z.          (* t.UnusedCPU(); 0 = no limit *)

(* captureValue; None = slice panic *)
Definition captureValue (c : Z * Z) : option cval :=
  let '(st, en) := c in
  if en =? -1 then Some (CPos (st + 1))
  else match slice s st en with Some l => Some (CStr l) | None => None end.

Fixpoint captureValues (l : list (Z * Z)) : option (list cval) :=
  match l with
  | [] => Some []
  | c :: r =>
    match captureValue c, captureValues r with
    | Some v, Some vs => Some (v :: vs)
    | _, _ => None
    end
  end.

(* pushCaptures *)
Definition pushCaptures (l : list (Z * Z)) : dres :=
  match l with
  | [] => DNil
  | [c] => match slice s (fst c) (snd c) with Some x => DVals [CStr x] | None => DPanic end
  | _ :: rest => match captureValues rest with Some vs => DVals vs | None => DPanic end
  end.

(* string.find, pattern branch, plus the len(ptn) == 0 branch (ptn_empty) *)
Definition find_im (ptn_empty : bool) (si : Z) : dres * Z :=
  if slen s <? si then (DNil, 0)
  else if ptn_empty then (DVals [CPos (si + 1); CPos si], slen s - si)   (* si+i+1, si+i+len(ptn) with i = 0 *)
  else
    let r := api true p fuel s si B in
    match a_res r with
    | MFuel => (DFuel, 0)
    | MPanic => (DPanic, 0)
    | MNil => (DNil, a_used r)
    | MCaps [] => (DNil, a_used r)
    | MCaps (first :: rest) =>
      match captureValues rest with
      | Some vs => (DVals (CPos (fst first + 1) :: CPos (snd first) :: vs), a_used r)
      | None => (DPanic, a_used r)
      end
    end.

Definition match_im (si : Z) : dres * Z :=
  let r := api true p fuel s si B in
  match a_res r with
  | MFuel => (DFuel, 0)
  | MPanic => (DPanic, 0)
  | MNil => (pushCaptures [], a_used r)
  | MCaps l => (pushCaptures l, a_used r)
  end.

(* one call of the gmatch iterator: result, new si, new allowEmpty *)
Fixpoint gm_iter (n : nat) (si : Z) (allowEmpty : bool) : dres * Z * bool :=
  match n with
  | O => (DFuel, si, allowEmpty)
  | S n' =>
    match a_res (api false p fuel s si B) with
    | MFuel => (DFuel, si, allowEmpty)
    | MPanic => (DPanic, si, allowEmpty)
    | MNil | MCaps [] => (DNil, si, allowEmpty)
    | MCaps (((st, en) :: _) as l) =>
      if allowEmpty || negb (st =? si) || negb (en =? si) then
        let ae := en <=? st in
        (pushCaptures l, (if ae then st + 1 else en), ae)
      else gm_iter n' (si + 1) true
    end
  end.

(* the whole for-in loop: list of results; the flag tells how it ended *)
Fixpoint gmatch_loop (n : nat) (si : Z) (allowEmpty : bool) (acc : list (list cval))
  : list (list cval) * dres :=
  match n with
  | O => (rev acc, DFuel)
  | S n' =>
    match gm_iter (S (length s) + 2) si allowEmpty with
    | (DVals vs, si', ae') => gmatch_loop n' si' ae' (vs :: acc)
    | (r, _, _) => (rev acc, r)
    end
  end.
Definition gmatch_im (si : Z) : list (list cval) * dres :=
  gmatch_loop (S (length s) + 2) si true [].

(* replF for a string replacement: regexp "(?s)%.?" — % followed by any byte,
   or a lone % at the end (an error) *)
Fixpoint expand_im (repl : list Z) (cstrings : Z -> list Z) (maxIndex : Z) : option derr * list Z :=
  match repl with
  | 37 :: b :: r =>
    if inr 48 57 b then
      let idx := b - 48 in
      if maxIndex <? idx then (Some (DEInvalidCaptureIdx idx), [])
      else let '(e, out) := expand_im r cstrings maxIndex in (e, cstrings idx ++ out)
    else if b =? 37 then
      let '(e, out) := expand_im r cstrings maxIndex in (e, 37 :: out)
    else (Some DEInvalidPct, [])
  | [37] => (Some DEInvalidPct, [])
  | x :: r => let '(e, out) := expand_im r cstrings maxIndex in (e, x :: out)
  | [] => (None, [])
  end.

Definition cval_string (v : cval) : list Z :=
  match v with CStr l => l | CPos n => itoa n end.

Definition repl_im (repl : list Z) (captures : list (Z * Z)) : option (option derr * list Z) :=
  match captureValues captures with
  | None => None
  | Some vs =>
    let strs := map cval_string vs in
    let n := Z.of_nat (length captures) in
    let cstrings := fun k : Z =>
      if (n =? 1) && (k =? 1) then nth 0 strs [] else nth (Z.to_nat k) strs [] in
    let maxIndex := if n =? 1 then 1 else n - 1 in
    Some (expand_im repl cstrings maxIndex)
  end.

Record gstate := mkG {
  g_si : Z; g_sj : Z; g_sb : list Z; g_wrote : bool; g_count : Z; g_allow : bool;
  g_skipped : bool }.

(* the main loop of gsub; maxn = gsub_n of the 4th argument *)
Fixpoint gsub_loop (n : nat) (repl : list Z) (maxn : Z) (g : gstate) : dres * gstate :=
  match n with
  | O => (DFuel, g)
  | S n' =>
    if g_count g =? maxn then (DNil, g)
    else
      match a_res (api true p fuel s (g_si g) B) with     (* pat.MatchFromStart *)
      | MFuel => (DFuel, g)
      | MPanic => (DPanic, g)
      | MNil | MCaps [] => (DNil, g)
      | MCaps (((st, en) :: _) as l) =>
        let doit := g_allow g || negb (st =? g_si g) || negb (en =? g_si g) in
        let step (sb : list Z) (sj : Z) (wrote : bool) :=
          let ae := en <=? st in
          let g' := mkG (if ae then st + 1 else en) sj sb wrote (g_count g + 1) ae
                        (g_skipped g || negb doit) in
          if p_sanchor p then (DNil, g')     (* matchCount++; break *)
          else gsub_loop n' repl maxn g' in
        if doit then
          match repl_im repl l with
          | None => (DPanic, g)
          | Some (Some e, _) => (DErr e, g)
          | Some (None, sub) =>
            match slice s (g_sj g) st with
            | None => (DPanic, g)
            | Some pre => step (g_sb g ++ pre ++ sub) en true
            end
          end
        else step (g_sb g) (g_sj g) (g_wrote g)
      end
  end.

(* result string, count, flag: the loop skipped an empty match *)
(* the 4th argument: absent -> n = -1 (no limit); given -> if n < 0 { n = 0 } *)
Definition gsub_n (maxn : option Z) : Z :=
  match maxn with None => -1 | Some n => if n <? 0 then 0 else n end.

Definition gsub_im (repl : list Z) (maxn : option Z) : dres * bool :=
  match gsub_loop (S (length s) + 2) repl (gsub_n maxn) (mkG 0 0 [] false 0 true false) with
  | (DNil, g) =>
    let res :=
      if negb (g_wrote g) then Some s
      else if g_sj g <? slen s
           then match slice s (g_sj g) (slen s) with Some t => Some (g_sb g ++ t) | None => None end
           else Some (g_sb g) in
    match res with
    | Some r => (DVals [CStr r; CPos (g_count g)], g_skipped g)
    | None => (DPanic, false)
    end
  | (r, g) => (r, g_skipped g)
  end.
End IM.

(* ======================================================================== S *)
Section S.
Variable p : pattern.
Variable s : list Z.

Definition cap_value (c : Z * Z) : cval :=
  let '(st, en) := c in
  if en =? -1 then CPos (st + 1)
  else match slice s st en with Some l => CStr l | None => CStr [] end.

Definition explicit_caps (c : caps) : list cval :=
  map (fun k => cap_value (c (Z.of_nat k))) (seq 1 (Z.to_nat (p_ncap p))).

(* whole match if the pattern has no captures *)
Definition result_caps (st en : Z) (c : caps) : list cval :=
  match explicit_caps c with
  | [] => [cap_value (st, en)]
  | l => l
  end.

Definition find_s (si : Z) : dres :=
  if slen s <? si then DNil
  else match find p (p_sanchor p) s si with
       | Some (st, en, c) => DVals (CPos (st + 1) :: CPos en :: explicit_caps c)
       | None => DNil
       end.

Definition match_s (si : Z) : dres :=
  if slen s <? si then DNil
  else match find p (p_sanchor p) s si with
       | Some (st, en, c) => DVals (result_caps st en c)
       | None => DNil
       end.

(* gmatch_aux: for src = gm->src .. src_end: match at src; accept unless the
   match ends at lastmatch.  (`^` is not an anchor for gmatch.) *)
Fixpoint gm_scan (n : nat) (src lastmatch : Z) : option (Z * Z * caps) :=
  match n with
  | O => None
  | S n' =>
    match M (p_eanchor p) s (p_items p) src caps0 with
    | Some (e, c) => if e =? lastmatch then gm_scan n' (src + 1) lastmatch else Some (src, e, c)
    | None => gm_scan n' (src + 1) lastmatch
    end
  end.

Fixpoint gmatch_sloop (n : nat) (src lastmatch : Z) (acc : list (list cval)) : list (list cval) :=
  match n with
  | O => rev acc
  | S n' =>
    match gm_scan (Z.to_nat (slen s - src + 1)) src lastmatch with
    | Some (st, e, c) => gmatch_sloop n' e e (result_caps st e c :: acc)
    | None => rev acc
    end
  end.
Definition gmatch_s (si : Z) : list (list cval) :=
  gmatch_sloop (S (length s) + 2) si (-1) [].

(* add_s *)
Fixpoint expand_s (repl : list Z) (whole : list Z) (caps_ : list cval) : option derr * list Z :=
  match repl with
  | 37 :: b :: r =>
    if b =? 37 then let '(e, out) := expand_s r whole caps_ in (e, 37 :: out)
    else if b =? 48 then let '(e, out) := expand_s r whole caps_ in (e, whole ++ out)
    else if inr 49 57 b then
      let idx := b - 48 in
      match caps_ with
      | [] => if idx =? 1 then let '(e, out) := expand_s r whole caps_ in (e, whole ++ out)
              else (Some (DEInvalidCaptureIdx idx), [])
      | _ =>
        match nth_error caps_ (Z.to_nat (idx - 1)) with
        | Some v =>
          let '(e, out) := expand_s r whole caps_ in
          (e, match v with CStr l => l | CPos n => itoa n end ++ out)
        | None => (Some (DEInvalidCaptureIdx idx), [])
        end
      end
    else (Some DEInvalidPct, [])
  | [37] => (Some DEInvalidPct, [])
  | x :: r => let '(e, out) := expand_s r whole caps_ in (e, x :: out)
  | [] => (None, [])
  end.

(* str_gsub; maxn = max_s *)
Fixpoint gsub_sloop (n : nat) (repl : list Z) (maxn : Z) (src lastmatch : Z) (cnt : Z) (acc : list Z)
  : dres :=
  match n with
  | O => DFuel
  | S n' =>
    let finish := fun acc' src' =>
      match slice s src' (slen s) with
      | Some t => DVals [CStr (acc' ++ t); CPos cnt]
      | None => DVals [CStr acc'; CPos cnt]
      end in
    if maxn <=? cnt then finish acc src
    else
      let try_skip := fun (_ : unit) =>
        match getb s src with
        | Some b =>
          if p_sanchor p then finish (acc ++ [b]) (src + 1)
          else gsub_sloop n' repl maxn (src + 1) lastmatch cnt (acc ++ [b])
        | None => DVals [CStr acc; CPos cnt]
        end in
      match M (p_eanchor p) s (p_items p) src caps0 with
      | Some (e, c) =>
        if e =? lastmatch then try_skip tt
        else
          let whole := match slice s src e with Some l => l | None => [] end in
          match expand_s repl whole (explicit_caps c) with
          | (Some err, _) => DErr err
          | (None, sub) =>
            if p_sanchor p then
              match slice s e (slen s) with
              | Some t => DVals [CStr (acc ++ sub ++ t); CPos (cnt + 1)]
              | None => DVals [CStr (acc ++ sub); CPos (cnt + 1)]
              end
            else gsub_sloop n' repl maxn e e (cnt + 1) (acc ++ sub)
          end
      | None => try_skip tt
      end
  end.

(* max_s = luaL_optinteger(L, 4, srcl + 1): absent = len + 1; n <= 0 = no replacement *)
Definition gsub_s (repl : list Z) (maxn : option Z) : dres :=
  gsub_sloop (2 * (S (length s)) + 2) repl (match maxn with None => slen s + 1 | Some n => n end) 0 (-1) 0 [].
End S.
