(* Pattern/BuildProofs.v — the pattern compiler never panics: every index into
   the pattern string made by builder.go (through next()) is in range, for all
   byte strings. *)
From Coq Require Import ZArith NArith List Bool Lia.
From GV Require Import Pattern.Common Pattern.Build.
Import ListNotations.
Open Scope Z_scope.

Definition np {A} (r : res A) : Prop := r <> BPanic.

Lemma bind_np {A B} (r : res A) (f : A -> res B) : np r -> (forall a, np (f a)) -> np (bind r f).
Proof. unfold np. destruct r; simpl; auto; congruence. Qed.

Section B.
Variable ptn : list Z.

Lemma next_np p : np (next ptn p).
Proof.
  unfold np, next. destruct (Nat.leb (plen ptn) (b_i p)) eqn:E; [discriminate|].
  destruct (nth_error ptn (b_i p)) eqn:En; [discriminate|].
  apply nth_error_None in En. apply Nat.leb_gt in E. unfold plen in E. lia.
Qed.

Lemma peekF_np p : np (peekF ptn p).
Proof.
  unfold np, peekF. destruct (Nat.leb (plen ptn) (b_i p)) eqn:E; [discriminate|].
  destruct (nth_error ptn (b_i p)) eqn:En; [discriminate|].
  apply nth_error_None in En. apply Nat.leb_gt in E. unfold plen in E. lia.
Qed.

Ltac np_step :=
  match goal with
  | |- np (bind _ _) => apply bind_np; [|intros]
  | |- np (next _ _) => apply next_np
  | |- np (peekF _ _) => apply peekF_np
  | |- np (Ok _) => unfold np; discriminate
  | |- np (Err _) => unfold np; discriminate
  | |- np BFuel => unfold np; discriminate
  | |- np (if ?c then _ else _) => destruct c
  | |- np (match ?x with _ => _ end) => destruct x
  | |- np (let '(_, _) := ?x in _) => destruct x
  end.

Lemma getCharRange_np c : np (getCharRange c).
Proof. unfold getCharRange. repeat np_step. Qed.

Lemma unionLoop_np : forall fuel first neg s b p, np (unionLoop ptn fuel first neg s b p).
Proof.
  induction fuel; intros; simpl; [unfold np; discriminate|].
  repeat first [apply IHfuel | apply getCharRange_np | np_step].
Qed.

Lemma getUnion_np p : np (getUnion ptn p).
Proof. unfold getUnion. repeat first [apply unionLoop_np | np_step]. Qed.

Lemma getCharClass_np p : np (getCharClass ptn p).
Proof. unfold getCharClass. repeat first [apply getUnion_np | apply getCharRange_np | np_step]. Qed.

Lemma finishSingle_np r : np (finishSingle ptn r).
Proof.
  unfold finishSingle. destruct r as [s p].
  pose proof (next_np p) as H. destruct (next ptn p) as [[b p']| | |]; try (unfold np; discriminate).
  - repeat np_step.
  - exfalso. apply H. reflexivity.
Qed.

Lemma getPatternItem_np p : np (getPatternItem ptn p).
Proof.
  unfold getPatternItem.
  repeat first [apply finishSingle_np | apply getCharClass_np | apply getCharRange_np | np_step].
Qed.

Lemma patternLoop_np : forall fuel sz p, np (patternLoop ptn fuel sz p).
Proof.
  induction fuel; intros; simpl; [unfold np; discriminate|].
  repeat first [apply IHfuel | apply getPatternItem_np | np_step].
Qed.

Theorem build_no_panic : build ptn <> BPanic.
Proof.
  unfold build, getPattern. change (np (bind (patternLoop ptn (S (plen ptn)) 0 (mkPb [] 0 [] 0 false false))
    (fun p => match b_cStack p with _ :: _ => Err EUnfinishedCapture
              | [] => Ok (mkPattern (rev (b_items p)) (b_ciMax p) (b_aL p) (b_aR p)) end))).
  apply bind_np; [apply patternLoop_np|]. intros a. destruct (b_cStack a); unfold np; discriminate.
Qed.
End B.
