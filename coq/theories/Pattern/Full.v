(* Pattern/Full.v — the full simulation between the trackback machine
   (Machine.v) and the manual-level matcher (Spec.v), DESIGN Appendix D.3:
   every item kind (single classes with all repetition suffixes, %f, %b,
   back-references, captures, position captures), capture VALUES, and the
   find() loop over start positions (leftmost match).

   Key points of the proof:
   - a trackback entry (si, pi', siMin) stands for the alternatives
     "rest of the pattern at si, si-1, ..., siMin" (greedy_alts); the first
     retried alternative is the maximum again (harmless: M is deterministic);
   - the machine does not restore captures when it backtracks.  [agree pre suf
     c cS] says that the machine's capture array c coincides with the
     functional captures cS of the specification on every slot opened in [pre]
     (start field) and not closed later in [suf] (end field); stale entries
     are confined to slots that will be overwritten before they are read,
     because a back-reference only reads a capture opened before it and not
     closed after it (wfb);
   - [inrange]: captures opened so far lie inside the subject, so the slices
     taken by a back-reference cannot panic. *)
From Coq Require Import ZArith NArith List Bool Lia.
From GV Require Import Pattern.Common Pattern.Machine Pattern.Spec Pattern.Top Pattern.Equiv.
Import ListNotations.
Open Scope Z_scope.

Section Full.
Variable items : list item.
Variable ea : bool.
Variable s : list Z.
Notation len := (slen s).
Notation reaches := (Equiv.reaches items ea s).
Notation halts := (Equiv.halts items ea s).
Notation tb_result := (Equiv.tb_result items).
Notation step := (Machine.step items ea s).

Definition agree (pre suf : list item) (c cS : caps) : Prop :=
  forall n, has_start n pre = true ->
    fst (c n) = fst (cS n) /\ (has_end n suf = false -> snd (c n) = snd (cS n)).

Definition inrange (pre : list item) (cS : caps) : Prop :=
  forall n, has_start n pre = true -> 0 <= fst (cS n) <= len /\ snd (cS n) <= len.

Definition ok (pre suf : list item) (r : option (Z * caps)) (st : mstate) (cS : caps)
  (tb : list tbe) : Prop :=
  match r with
  | Some (e, cS') => exists c', halts st (OMatch e c') /\ agree (pre ++ suf) [] c' cS'
  | None => exists c', reaches st (tb_result c' tb) /\ agree pre suf c' cS
  end.

Lemma ok_pre pre suf r st0 st cS tb : reaches st0 st -> ok pre suf r st cS tb -> ok pre suf r st0 cS tb.
Proof.
  intros R H. destruct r as [[e cS']|]; simpl in *.
  - destruct H as (c' & H1 & H2). exists c'. split; [eapply reaches_halts; eauto|assumption].
  - destruct H as (c' & H1 & H2). exists c'. split; [eapply reaches_trans; eauto|assumption].
Qed.

Lemma ok_some_tb pre suf e cS' st cS cS2 tb tb2 :
  ok pre suf (Some (e, cS')) st cS tb -> ok pre suf (Some (e, cS')) st cS2 tb2.
Proof. exact (fun H => H). Qed.

(* ------------------------------------------------------------ has_start / has_end *)
Definition noncap (it : item) : bool :=
  match it with ICapStart _ | ICapEnd _ => false | _ => true end.

Lemma has_start_snoc n pre it : has_start n (pre ++ [it]) = has_start n pre || is_start n it.
Proof. unfold has_start. rewrite existsb_app. simpl. rewrite orb_false_r. reflexivity. Qed.

Lemma noncap_start it n : noncap it = true -> is_start n it = false.
Proof. destruct it; simpl; auto; discriminate. Qed.
Lemma noncap_end it n : noncap it = true -> is_end n it = false.
Proof. destruct it; simpl; auto; discriminate. Qed.

Lemma agree_plain_fwd pre it suf c cS : noncap it = true ->
  agree pre (it :: suf) c cS -> agree (pre ++ [it]) suf c cS.
Proof.
  intros N H n Hn. rewrite has_start_snoc, (noncap_start it n N), orb_false_r in Hn.
  destruct (H n Hn) as [H1 H2]. split; [assumption|]. intros He. apply H2.
  simpl. rewrite (noncap_end it n N). assumption.
Qed.

Lemma agree_plain_back pre it suf c cS : noncap it = true ->
  agree (pre ++ [it]) suf c cS -> agree pre (it :: suf) c cS.
Proof.
  intros N H n Hn.
  assert (Hn' : has_start n (pre ++ [it]) = true) by (rewrite has_start_snoc, Hn; reflexivity).
  destruct (H n Hn') as [H1 H2]. split; [assumption|]. intros He. apply H2.
  simpl in He. rewrite (noncap_end it n N) in He. assumption.
Qed.

Lemma inrange_plain pre it cS : noncap it = true -> inrange pre cS -> inrange (pre ++ [it]) cS.
Proof.
  intros N H n Hn. rewrite has_start_snoc, (noncap_start it n N), orb_false_r in Hn. auto.
Qed.

Lemma ok_shift_plain pre it suf r st cS tb : noncap it = true ->
  ok (pre ++ [it]) suf r st cS tb -> ok pre (it :: suf) r st cS tb.
Proof.
  intros N H. destruct r as [[e cS']|]; simpl in *.
  - rewrite <- app_assoc in H. exact H.
  - destruct H as (c' & H1 & H2). exists c'. split; [assumption|]. apply agree_plain_back; assumption.
Qed.

(* ------------------------------------------------------------ more subject facts *)
Lemma slice_some a b : 0 <= a -> a <= b -> b <= len -> exists l, slice s a b = Some l.
Proof.
  intros. unfold slice.
  replace ((0 <=? a) && (a <=? b) && (b <=? len)) with true; [eauto|].
  symmetry. repeat (apply andb_true_iff; split); apply Z.leb_le; lia.
Qed.

Lemma slice_none a b : len < b -> slice s a b = None.
Proof.
  intros. unfold slice. replace (b <=? len) with false by (symmetry; apply Z.leb_gt; lia).
  rewrite andb_false_r. reflexivity.
Qed.

Lemma getb_prev i : 0 <= i <= len ->
  (if 0 <? i then getb s (i - 1) else Some 0) = Some (byte_or0 s (i - 1)).
Proof.
  intros H. unfold byte_or0. destruct (0 <? i) eqn:E.
  - apply Z.ltb_lt in E. destruct (getb_suffix s (i - 1)) as (b & r & H1 & _); [lia|]. rewrite H1. reflexivity.
  - apply Z.ltb_ge in E. replace (i - 1) with (-1) by lia. reflexivity.
Qed.

Lemma getb_next i : 0 <= i <= len ->
  (if i <? len then getb s i else Some 0) = Some (byte_or0 s i).
Proof.
  intros H. unfold byte_or0. destruct (i <? len) eqn:E.
  - apply Z.ltb_lt in E. destruct (getb_suffix s i) as (b & r & H1 & _); [lia|]. rewrite H1. reflexivity.
  - apply Z.ltb_ge in E. unfold getb. replace (i <? len) with false by (symmetry; apply Z.ltb_ge; lia).
    rewrite andb_false_r. reflexivity.
Qed.

Lemma bal_bound op cl : forall l d c0 b n,
  bal op cl l d c0 = (b, n) -> c0 <= n <= c0 + Z.of_nat (length l).
Proof.
  induction l as [|x l IH]; intros d c0 b n H; simpl in H.
  - inversion H; subst. simpl. lia.
  - simpl length. rewrite Nat2Z.inj_succ.
    destruct (x =? cl).
    + destruct d as [|[|d]].
      * inversion H; subst. lia.
      * inversion H; subst. lia.
      * apply IH in H. lia.
    + destruct (x =? op); apply IH in H; lia.
Qed.

Lemma try_up_S {A} (f : Z -> option A) n lo :
  try_up f (S n) lo = match f lo with Some r => Some r | None => try_up f n (lo + 1) end.
Proof. reflexivity. Qed.
Lemma try_up_0 {A} (f : Z -> option A) lo : try_up f O lo = f lo.
Proof. simpl. destruct (f lo); reflexivity. Qed.

(* ------------------------------------------------------------ simulation *)
Definition goal (suf pre : list item) (pi : nat) : Prop :=
  forall i c cS tb, 0 <= i <= len -> agree pre suf c cS -> inrange pre cS ->
  ok pre suf (M ea s suf i cS) (mkSt i pi c tb) cS tb.

Lemma tb_result_more c' lo n pi' tb :
  tb_result c' (mkTb (lo + Z.of_nat (S n)) pi' lo :: tb) =
  mkSt (lo + Z.of_nat (S n)) pi' c' (mkTb (lo + Z.of_nat n) pi' lo :: tb).
Proof.
  unfold Equiv.tb_result, trackback. cbn [m_tb m_caps t_si t_pi t_min].
  replace (lo <? lo + Z.of_nat (S n)) with true by (symmetry; apply Z.ltb_lt; lia).
  replace (lo + Z.of_nat (S n) - 1) with (lo + Z.of_nat n) by lia. reflexivity.
Qed.

Lemma tb_result_last c' lo pi' tb :
  tb_result c' (mkTb lo pi' lo :: tb) = mkSt lo pi' c' tb.
Proof.
  unfold Equiv.tb_result, trackback. cbn [m_tb m_caps t_si t_pi t_min].
  rewrite Z.ltb_irrefl. reflexivity.
Qed.

Lemma greedy_alts rest pre' pi' (IH : goal rest pre' pi') : forall n lo c cS tb,
  0 <= lo -> lo + Z.of_nat n <= len -> agree pre' rest c cS -> inrange pre' cS ->
  ok pre' rest (try_down (fun j => M ea s rest j cS) n lo)
     (mkSt (lo + Z.of_nat n) pi' c
        (match n with O => tb | S m => mkTb (lo + Z.of_nat m) pi' lo :: tb end)) cS tb.
Proof.
  induction n as [|n IHn]; intros lo c cS tb Hlo Hhi Ha Hr.
  - rewrite try_down_0. apply IH; auto. lia.
  - rewrite try_down_S.
    pose proof (IH (lo + Z.of_nat (S n)) c cS (mkTb (lo + Z.of_nat n) pi' lo :: tb) ltac:(lia) Ha Hr) as H1.
    destruct (M ea s rest (lo + Z.of_nat (S n)) cS) as [[e cS']|].
    + exact H1.
    + unfold ok in H1. cbv beta iota in H1. destruct H1 as (c' & R & Ha').
      assert (Hst : tb_result c' (mkTb (lo + Z.of_nat n) pi' lo :: tb) =
                    mkSt (lo + Z.of_nat n) pi' c'
                      (match n with O => tb | S m => mkTb (lo + Z.of_nat m) pi' lo :: tb end)).
      { destruct n as [|m].
        - replace (lo + Z.of_nat 0) with lo by (simpl; lia). apply tb_result_last.
        - apply tb_result_more. }
      rewrite Hst in R.
      eapply ok_pre; [exact R|]. apply IHn; auto. lia.
Qed.

Lemma greedy_item rest pre' pi' (IH : goal rest pre' pi') : forall k lo c cS tb,
  0 <= lo -> lo + Z.of_nat k <= len -> agree pre' rest c cS -> inrange pre' cS ->
  ok pre' rest (try_down (fun j => M ea s rest j cS) k lo)
     (mkSt (lo + Z.of_nat k) pi' c
        (if 0 <? Z.of_nat k then mkTb (lo + Z.of_nat k) pi' lo :: tb else tb)) cS tb.
Proof.
  intros k lo c cS tb Hlo Hhi Ha Hr. destruct k as [|k].
  - rewrite try_down_0. replace (0 <? Z.of_nat 0) with false by reflexivity. apply IH; auto. lia.
  - replace (0 <? Z.of_nat (S k)) with true by (symmetry; apply Z.ltb_lt; lia).
    pose proof (IH (lo + Z.of_nat (S k)) c cS (mkTb (lo + Z.of_nat (S k)) pi' lo :: tb) ltac:(lia) Ha Hr) as H1.
    pose proof (greedy_alts rest pre' pi' IH (S k) lo) as GA.
    rewrite try_down_S.
    destruct (M ea s rest (lo + Z.of_nat (S k)) cS) as [[e cS']|] eqn:EM.
    + exact H1.
    + unfold ok in H1. cbv beta iota in H1. destruct H1 as (c' & R & Ha').
      rewrite tb_result_more in R.
      eapply ok_pre; [exact R|].
      specialize (GA c' cS tb Hlo Hhi Ha' Hr). rewrite try_down_S, EM in GA. exact GA.
Qed.

Lemma idx_ok_false n : idx_ok n = true -> (n <? 0) || (10 <=? n) = false.
Proof.
  unfold idx_ok. intros H. apply andb_true_iff in H. destruct H as [H1 H2].
  apply Z.leb_le in H1. apply Z.ltb_lt in H2.
  apply orb_false_iff. split; [apply Z.ltb_ge|apply Z.leb_gt]; lia.
Qed.

Lemma sim : forall suf pre, items = pre ++ suf -> wfb pre suf = true -> goal suf pre (length pre).
Proof.
  induction suf as [|it suf IHs]; intros pre E W i c cS tb Hi Ha Hr.
  - (* end of the pattern: matchToEnd's test *)
    assert (Hn : nth_error items (length pre) = None).
    { apply nth_error_None. rewrite E, app_nil_r. lia. }
    assert (Hm1 : (i =? -1) = false) by (apply Z.eqb_neq; lia).
    assert (Hc : negb ea || (i =? len) = negb (ea && negb (i =? len))).
    { generalize ea. intros b. destruct b, (i =? len); reflexivity. }
    simpl M. destruct (ea && negb (i =? len)) eqn:C; simpl.
    + exists c. split; [|assumption]. apply (reaches_step _ _ _ _ _ 0).
      unfold Machine.step. cbn [m_si m_pi m_caps m_tb]. rewrite Hn, Hm1, Hc. reflexivity.
    + exists c. split; [|rewrite app_nil_r; assumption]. apply halts_step.
      unfold Machine.step. cbn [m_si m_pi m_caps m_tb]. rewrite Hn, Hm1, Hc. reflexivity.
  - simpl in W. apply andb_true_iff in W. destruct W as [Wc W].
    assert (Hnth : nth_error items (length pre) = Some it) by (rewrite E; apply nth_mid).
    assert (IH : goal suf (pre ++ [it]) (S (length pre))).
    { replace (S (length pre)) with (length (pre ++ [it])) by (rewrite app_length; simpl; lia).
      apply IHs; [rewrite <- app_assoc; exact E|exact W]. }
    destruct it as [k cls|n|op cl|cls|n|n].
    + (* single class *)
      assert (NC : noncap (ISingle k cls) = true) by reflexivity.
      pose proof (agree_plain_fwd _ _ _ _ _ NC Ha) as Ha1.
      pose proof (inrange_plain _ _ _ NC Hr) as Hr1.
      destruct k; simpl M.
      * (* Once *)
        destruct (one s cls i) eqn:O1.
        -- destruct (one_true_span s cls i ltac:(lia) O1) as [_ Hlt].
           eapply ok_pre.
           { apply (reaches_step _ _ _ _ (mkSt (i + 1) (S (length pre)) c tb) 1).
             unfold Machine.step. cbn [m_si m_pi m_caps m_tb].
             rewrite Hnth, matchNext_one, O1 by lia. reflexivity. }
           apply ok_shift_plain; [exact NC|]. apply IH; auto. lia.
        -- exists c. split; [|assumption]. apply (reaches_step _ _ _ _ _ 0).
           unfold Machine.step. cbn [m_si m_pi m_caps m_tb].
           rewrite Hnth, matchNext_one, O1 by lia. reflexivity.
      * (* Star *)
        pose proof (span_bound s cls i Hi) as Hb.
        eapply ok_pre.
        { eapply reaches_step. unfold Machine.step. cbn [m_si m_pi m_caps m_tb].
          rewrite Hnth, greedy_span by lia. reflexivity. }
        apply ok_shift_plain; [exact NC|].
        apply (greedy_item suf (pre ++ [ISingle Star cls]) (S (length pre)) IH); auto. lia.
      * (* Plus *)
        destruct (one s cls i) eqn:O1.
        -- destruct (one_true_span s cls i ltac:(lia) O1) as [Hsp Hlt]. rewrite Hsp.
           pose proof (span_bound s cls (i + 1) ltac:(lia)) as Hb.
           eapply ok_pre.
           { eapply reaches_step. unfold Machine.step. cbn [m_si m_pi m_caps m_tb].
             rewrite Hnth, matchNext_one, O1 by lia. rewrite greedy_span by lia. reflexivity. }
           apply ok_shift_plain; [exact NC|].
           apply (greedy_item suf (pre ++ [ISingle Plus cls]) (S (length pre)) IH); auto. lia.
        -- rewrite (one_false_span s cls i O1).
           exists c. split; [|assumption]. apply (reaches_step _ _ _ _ _ 0).
           unfold Machine.step. cbn [m_si m_pi m_caps m_tb].
           rewrite Hnth, matchNext_one, O1 by lia. reflexivity.
      * (* Lazy: induction on the length of the run still available *)
        clear IHs Ha1.
        remember (span cls (suffix s i)) as n eqn:Hn.
        revert i c Hi Hn Ha. induction n as [|n IHn]; intros i c Hi Hn Ha.
        -- assert (O1 : one s cls i = false).
           { destruct (one s cls i) eqn:O1; [|reflexivity].
             destruct (one_true_span s cls i ltac:(lia) O1) as [Hsp _]. congruence. }
           rewrite try_up_0.
           eapply ok_pre.
           { apply (reaches_step _ _ _ _ (mkSt i (S (length pre)) c tb) 0).
             unfold Machine.step. cbn [m_si m_pi m_caps m_tb].
             rewrite Hnth, matchNext_one, O1 by lia. reflexivity. }
           apply ok_shift_plain; [exact NC|]. apply IH; auto. apply agree_plain_fwd; auto.
        -- assert (O1 : one s cls i = true).
           { destruct (one s cls i) eqn:O1; [reflexivity|].
             rewrite (one_false_span s cls i O1) in Hn. discriminate. }
           destruct (one_true_span s cls i ltac:(lia) O1) as [Hsp Hlt].
           rewrite try_up_S.
           pose proof (IH i c cS (mkTb (i + 1) (length pre) (i + 1) :: tb) Hi
                         (agree_plain_fwd _ _ _ _ _ NC Ha) Hr1) as H1.
           assert (R : reaches (mkSt i (length pre) c tb)
                         (mkSt i (S (length pre)) c (mkTb (i + 1) (length pre) (i + 1) :: tb))).
           { apply (reaches_step _ _ _ _ _ 1). unfold Machine.step. cbn [m_si m_pi m_caps m_tb].
             rewrite Hnth, matchNext_one, O1 by lia. reflexivity. }
           destruct (M ea s suf i cS) as [[e cS']|].
           ++ eapply ok_pre; [exact R|]. apply ok_shift_plain; [exact NC|]. exact H1.
           ++ unfold ok in H1. cbv beta iota in H1. destruct H1 as (c' & R1 & Ha').
              rewrite tb_result_last in R1.
              eapply ok_pre; [eapply reaches_trans; [exact R|exact R1]|].
              apply IHn; [lia|congruence|]. apply agree_plain_back; auto.
      * (* Opt *)
        destruct (one s cls i) eqn:O1.
        -- destruct (one_true_span s cls i ltac:(lia) O1) as [_ Hlt].
           pose proof (greedy_item suf (pre ++ [ISingle Opt cls]) (S (length pre)) IH 1%nat i c cS tb
                         ltac:(lia) ltac:(simpl; lia) Ha1 Hr1) as G.
           rewrite try_down_S, try_down_0 in G. simpl Z.of_nat in G.
           replace (0 <? 1) with true in G by reflexivity.
           replace (i + 0) with i in G by lia.
           eapply ok_pre.
           { apply (reaches_step _ _ _ _ (mkSt (i + 1) (S (length pre)) c (mkTb (i + 1) (S (length pre)) i :: tb)) 1).
             unfold Machine.step. cbn [m_si m_pi m_caps m_tb].
             rewrite Hnth, matchNext_one, O1 by lia. reflexivity. }
           apply ok_shift_plain; [exact NC|]. exact G.
        -- eapply ok_pre.
           { apply (reaches_step _ _ _ _ (mkSt i (S (length pre)) c tb) 0).
             unfold Machine.step. cbn [m_si m_pi m_caps m_tb].
             rewrite Hnth, matchNext_one, O1 by lia. reflexivity. }
           apply ok_shift_plain; [exact NC|]. apply IH; auto.
    + (* back-reference *)
      assert (NC : noncap (IBackref n) = true) by reflexivity.
      pose proof (agree_plain_fwd _ _ _ _ _ NC Ha) as Ha1.
      pose proof (inrange_plain _ _ _ NC Hr) as Hr1.
      simpl in Wc. apply andb_true_iff in Wc. destruct Wc as [Wc We].
      apply andb_true_iff in Wc. destruct Wc as [Wi Ws].
      apply negb_true_iff in We.
      destruct (Ha n Ws) as [Hf Hs']. specialize (Hs' We).
      destruct (Hr n Ws) as [Hr1' Hr2'].
      assert (Hcn : c n = cS n) by (destruct (c n), (cS n); simpl in *; congruence).
      simpl M. destruct (cS n) as [cs ce] eqn:EcS. simpl in Hr1', Hr2'.
      destruct (ce <? cs) eqn:Elt.
      * apply Z.ltb_lt in Elt. exists c. split; [|assumption]. apply (reaches_step _ _ _ _ _ 0).
        unfold Machine.step. cbn [m_si m_pi m_caps m_tb]. rewrite Hnth, (idx_ok_false n Wi), Hcn.
        replace (cs <=? ce) with false by (symmetry; apply Z.leb_gt; lia). reflexivity.
      * apply Z.ltb_ge in Elt.
        destruct (slice_some cs ce ltac:(lia) Elt Hr2') as [l1 Hl1]. rewrite Hl1.
        replace (i + (ce - cs)) with (i + ce - cs) by lia.
        destruct (i + ce - cs <=? len) eqn:Ee.
        -- apply Z.leb_le in Ee.
           destruct (slice_some i (i + ce - cs) ltac:(lia) ltac:(lia) Ee) as [l2 Hl2]. rewrite Hl2.
           destruct (list_eqb l1 l2) eqn:Eq.
           ++ eapply ok_pre.
              { apply (reaches_step _ _ _ _ (mkSt (i + ce - cs) (S (length pre)) c tb) (ce - cs)).
                unfold Machine.step. cbn [m_si m_pi m_caps m_tb]. rewrite Hnth, (idx_ok_false n Wi), Hcn.
                replace (cs <=? ce) with true by (symmetry; apply Z.leb_le; lia).
                replace (i + ce - cs <=? len) with true by (symmetry; apply Z.leb_le; lia).
                cbn [andb]. rewrite Hl1, Hl2, Eq. reflexivity. }
              apply ok_shift_plain; [exact NC|]. apply IH; auto. lia.
           ++ exists c. split; [|assumption]. apply (reaches_step _ _ _ _ _ (ce - cs)).
              unfold Machine.step. cbn [m_si m_pi m_caps m_tb]. rewrite Hnth, (idx_ok_false n Wi), Hcn.
              replace (cs <=? ce) with true by (symmetry; apply Z.leb_le; lia).
              replace (i + ce - cs <=? len) with true by (symmetry; apply Z.leb_le; lia).
              cbn [andb]. rewrite Hl1, Hl2, Eq. reflexivity.
        -- apply Z.leb_gt in Ee. rewrite (slice_none i (i + ce - cs) Ee).
           exists c. split; [|assumption]. apply (reaches_step _ _ _ _ _ 0).
           unfold Machine.step. cbn [m_si m_pi m_caps m_tb]. rewrite Hnth, (idx_ok_false n Wi), Hcn.
           replace (i + ce - cs <=? len) with false by (symmetry; apply Z.leb_gt; lia).
           rewrite andb_false_r. reflexivity.
    + (* %b *)
      assert (NC : noncap (IBalanced op cl) = true) by reflexivity.
      pose proof (agree_plain_fwd _ _ _ _ _ NC Ha) as Ha1.
      pose proof (inrange_plain _ _ _ NC Hr) as Hr1.
      simpl M. destruct (i <? len) eqn:El.
      * apply Z.ltb_lt in El. destruct (getb_suffix s i ltac:(lia)) as (b & r & Hg & Hsf).
        rewrite Hsf. pose proof (suffix_cons s i b r ltac:(lia) Hsf) as Hs1.
        destruct (b =? op) eqn:Eop.
        -- destruct (bal op cl r 1 1) as [fnd n] eqn:Eb.
           pose proof (bal_bound op cl r 1%nat 1 fnd n Eb) as Hbn.
           pose proof (suffix_len s (i + 1) ltac:(lia)) as Hsl. rewrite Hs1 in Hsl.
           destruct fnd.
           ++ eapply ok_pre.
              { apply (reaches_step _ _ _ _ (mkSt (i + n) (S (length pre)) c tb) n).
                unfold Machine.step. cbn [m_si m_pi m_caps m_tb].
                rewrite Hnth. replace (i <? len) with true by (symmetry; apply Z.ltb_lt; lia).
                rewrite Hg, Eop, Hs1, Eb. reflexivity. }
              apply ok_shift_plain; [exact NC|]. apply IH; auto. lia.
           ++ exists c. split; [|assumption]. apply (reaches_step _ _ _ _ _ n).
              unfold Machine.step. cbn [m_si m_pi m_caps m_tb].
              rewrite Hnth. replace (i <? len) with true by (symmetry; apply Z.ltb_lt; lia).
              rewrite Hg, Eop, Hs1, Eb. reflexivity.
        -- exists c. split; [|assumption]. apply (reaches_step _ _ _ _ _ 1).
           unfold Machine.step. cbn [m_si m_pi m_caps m_tb].
           rewrite Hnth. replace (i <? len) with true by (symmetry; apply Z.ltb_lt; lia).
           rewrite Hg, Eop. reflexivity.
      * apply Z.ltb_ge in El. replace i with len by lia. rewrite suffix_end.
        exists c. split; [|assumption]. apply (reaches_step _ _ _ _ _ 0).
        unfold Machine.step. cbn [m_si m_pi m_caps m_tb].
        rewrite Hnth, Z.ltb_irrefl. reflexivity.
    + (* %f *)
      assert (NC : noncap (IFrontier cls) = true) by reflexivity.
      pose proof (agree_plain_fwd _ _ _ _ _ NC Ha) as Ha1.
      pose proof (inrange_plain _ _ _ NC Hr) as Hr1.
      simpl M.
      destruct (bs_mem cls (byte_or0 s (i - 1))) eqn:Ep; destruct (bs_mem cls (byte_or0 s i)) eqn:En; simpl.
      * exists c. split; [|assumption]. apply (reaches_step _ _ _ _ _ 0).
        unfold Machine.step. cbn [m_si m_pi m_caps m_tb].
        rewrite Hnth, getb_prev, getb_next, Ep by lia. reflexivity.
      * exists c. split; [|assumption]. apply (reaches_step _ _ _ _ _ 0).
        unfold Machine.step. cbn [m_si m_pi m_caps m_tb].
        rewrite Hnth, getb_prev, getb_next, Ep by lia. reflexivity.
      * eapply ok_pre.
        { apply (reaches_step _ _ _ _ (mkSt i (S (length pre)) c tb) 0).
          unfold Machine.step. cbn [m_si m_pi m_caps m_tb].
          rewrite Hnth, getb_prev, getb_next, Ep, En by lia. reflexivity. }
        apply ok_shift_plain; [exact NC|]. apply IH; auto.
      * exists c. split; [|assumption]. apply (reaches_step _ _ _ _ _ 0).
        unfold Machine.step. cbn [m_si m_pi m_caps m_tb].
        rewrite Hnth, getb_prev, getb_next, Ep, En by lia. reflexivity.
    + (* ( *)
      simpl in Wc. apply andb_true_iff in Wc. destruct Wc as [Wi Wn]. apply negb_true_iff in Wn.
      simpl M.
      assert (Ha1 : agree (pre ++ [ICapStart n]) suf (cset c n (i, -1)) (cset cS n (i, -1))).
      { intros m Hm. rewrite has_start_snoc in Hm. unfold cset. simpl in Hm.
        destruct (m =? n) eqn:Emn.
        - simpl. split; auto.
        - rewrite Z.eqb_sym, Emn, orb_false_r in Hm.
          destruct (Ha m Hm) as [H1 H2]. split; [assumption|]. intros He. apply H2.
          simpl. assumption. }
      assert (Hr1 : inrange (pre ++ [ICapStart n]) (cset cS n (i, -1))).
      { intros m Hm. rewrite has_start_snoc in Hm. unfold cset. simpl in Hm.
        destruct (m =? n) eqn:Emn.
        - simpl. lia.
        - rewrite Z.eqb_sym, Emn, orb_false_r in Hm. apply Hr. assumption. }
      pose proof (IH i (cset c n (i, -1)) (cset cS n (i, -1)) tb Hi Ha1 Hr1) as H1.
      eapply ok_pre.
      { apply (reaches_step _ _ _ _ (mkSt i (S (length pre)) (cset c n (i, -1)) tb) 0).
        unfold Machine.step. cbn [m_si m_pi m_caps m_tb]. rewrite Hnth, (idx_ok_false n Wi). reflexivity. }
      destruct (M ea s suf i (cset cS n (i, -1))) as [[e cS']|]; simpl in *.
      * rewrite <- app_assoc in H1. exact H1.
      * destruct H1 as (c' & R & Ha'). exists c'. split; [assumption|].
        intros m Hm.
        assert (Emn : (m =? n) = false).
        { destruct (m =? n) eqn:Emn; [|reflexivity]. apply Z.eqb_eq in Emn. subst. congruence. }
        assert (Hm' : has_start m (pre ++ [ICapStart n]) = true) by (rewrite has_start_snoc, Hm; reflexivity).
        destruct (Ha' m Hm') as [H1 H2]. unfold cset in H1, H2. rewrite Emn in H1, H2.
        split; [assumption|]. intros He. apply H2. simpl in He. assumption.
    + (* ) *)
      simpl in Wc. rename Wc into Wi.
      simpl M.
      assert (Ha1 : agree (pre ++ [ICapEnd n]) suf (cset c n (fst (c n), i)) (cset cS n (fst (cS n), i))).
      { intros m Hm. rewrite has_start_snoc in Hm. simpl in Hm. rewrite orb_false_r in Hm. unfold cset.
        destruct (Ha m Hm) as [H1 H2].
        destruct (m =? n) eqn:Emn.
        - apply Z.eqb_eq in Emn. subst. simpl. split; auto.
        - split; [assumption|]. intros He. apply H2. simpl. rewrite Z.eqb_sym, Emn. assumption. }
      assert (Hr1 : inrange (pre ++ [ICapEnd n]) (cset cS n (fst (cS n), i))).
      { intros m Hm. rewrite has_start_snoc in Hm. simpl in Hm. rewrite orb_false_r in Hm. unfold cset.
        destruct (Hr m Hm) as [H1 H2].
        destruct (m =? n) eqn:Emn.
        - apply Z.eqb_eq in Emn. subst. simpl. lia.
        - auto. }
      pose proof (IH i _ _ tb Hi Ha1 Hr1) as H1.
      eapply ok_pre.
      { apply (reaches_step _ _ _ _ (mkSt i (S (length pre)) (cset c n (fst (c n), i)) tb) 0).
        unfold Machine.step. cbn [m_si m_pi m_caps m_tb]. rewrite Hnth, (idx_ok_false n Wi). reflexivity. }
      destruct (M ea s suf i (cset cS n (fst (cS n), i))) as [[e cS']|]; simpl in *.
      * rewrite <- app_assoc in H1. exact H1.
      * destruct H1 as (c' & R & Ha'). exists c'. split; [assumption|].
        intros m Hm.
        assert (Hm' : has_start m (pre ++ [ICapEnd n]) = true)
          by (rewrite has_start_snoc, Hm; reflexivity).
        destruct (Ha' m Hm') as [H1 H2]. unfold cset in H1, H2.
        destruct (m =? n) eqn:Emn.
        -- apply Z.eqb_eq in Emn. subst. simpl in H1. split; [assumption|].
           intros He. simpl in He. rewrite Z.eqb_refl in He. discriminate.
        -- split; [assumption|]. intros He. apply H2. simpl in He. rewrite Z.eqb_sym, Emn in He. assumption.
Qed.
End Full.

(* ------------------------------------------------------------ top level *)
Section Top.
Variable items : list item.
Variable ea : bool.
Variable s : list Z.
Notation len := (slen s).
Hypothesis WF : wfb [] items = true.

Definition caps_eq_on (c cS : caps) : Prop :=
  forall n, has_start n items = true -> c n = cS n.

(* matchToEnd from one start position *)
Theorem machine_equiv_spec_at : forall init c0, 0 <= init <= len ->
  match M ea s items init caps0 with
  | Some (e, cS') => exists c', Equiv.halts items ea s (start_state init c0) (OMatch e c') /\ caps_eq_on c' cS'
  | None => exists c', Equiv.halts items ea s (start_state init c0) (ONoMatch c')
  end.
Proof.
  intros init c0 Hi.
  pose proof (sim items ea s items [] eq_refl WF init (cset c0 0 (init, snd (c0 0))) caps0 [] Hi) as H.
  assert (Ha : agree [] items (cset c0 0 (init, snd (c0 0))) caps0) by (intros n Hn; discriminate).
  assert (Hr : inrange s [] caps0) by (intros n Hn; discriminate).
  specialize (H Ha Hr). unfold start_state. simpl length in H.
  destruct (M ea s items init caps0) as [[e cS']|]; unfold ok in H; cbv beta iota in H.
  - destruct H as (c' & Hh & Hag). exists c'. split; [assumption|].
    intros n Hn. simpl in Hag. destruct (Hag n Hn) as [H1 H2]. specialize (H2 eq_refl).
    destruct (c' n), (cS' n); simpl in *; congruence.
  - destruct H as (c' & R & _). exists c'.
    eapply reaches_halts; [exact R|].
    apply halts_step. unfold Equiv.tb_result, trackback, step. cbn [m_tb m_si m_pi m_caps].
    replace (nth_error items (nitems items)) with (@None item)
      by (symmetry; apply nth_error_None; unfold nitems; lia).
    reflexivity.
Qed.

Lemma run_pair f u st :
  run items ea s f 0 u st = (Equiv.runo items ea s f st, snd (run items ea s f 0 u st)).
Proof.
  unfold Equiv.runo. rewrite (run_used_indep items ea s f 0 u st).
  destruct (run items ea s f 0 u st); reflexivity.
Qed.

(* find(): the loop over start positions returns the leftmost match *)
Theorem machine_equiv_spec_find : forall n init c0,
  0 <= init -> init + Z.of_nat n <= len + 1 ->
  exists N, forall f, (N <= f)%nat -> forall u,
    match find_at ea s items n init with
    | Some (st, e, cS') =>
      exists c' u', findLoop items ea s n f 0 u init c0 = (OMatch e c', u', st) /\ caps_eq_on c' cS'
    | None =>
      exists c' u', findLoop items ea s n f 0 u init c0 = (ONoMatch c', u', init + Z.of_nat n)
    end.
Proof.
  induction n as [|n IH]; intros init c0 H0 Hn.
  - exists O. intros f _ u. simpl. exists c0, u. replace (init + 0) with init by lia. reflexivity.
  - pose proof (machine_equiv_spec_at init c0 ltac:(lia)) as H1.
    simpl find_at.
    destruct (M ea s items init caps0) as [[e cS']|].
    + destruct H1 as (c' & [N HN] & Heq). exists N. intros f Hf u.
      exists c', (snd (run items ea s f 0 u (start_state init c0))). split; [|assumption].
      simpl findLoop. rewrite run_pair.
      replace f with (N + (f - N))%nat by lia. rewrite HN. reflexivity.
    + destruct H1 as (c' & [N1 HN1]).
      destruct (IH (init + 1) c' ltac:(lia) ltac:(lia)) as [N2 HN2].
      exists (Nat.max N1 N2). intros f Hf u.
      specialize (HN2 f ltac:(lia) (snd (run items ea s f 0 u (start_state init c0)))).
      replace (init + Z.of_nat (S n)) with (init + 1 + Z.of_nat n) by lia.
      assert (Hrun : run items ea s f 0 u (start_state init c0) =
                     (ONoMatch c', snd (run items ea s f 0 u (start_state init c0)))).
      { rewrite run_pair at 1. replace f with (N1 + (f - N1))%nat at 1 by lia. rewrite HN1. reflexivity. }
      simpl findLoop. rewrite Hrun. exact HN2.
Qed.
End Top.

(* Pattern.Match / Pattern.MatchFromStart (Machine.api, budget 0) against
   Spec.find through Top.spec_find_list: same captures, no panic. *)
Theorem api_equiv_spec : forall fromStart p s init,
  wf_pattern p = true -> 0 <= init <= slen s ->
  exists N, forall f, (N <= f)%nat ->
    api fromStart p f s init 0 =
    mkApi (match spec_find_list p (fromStart && p_sanchor p) s init with
           | Some l => MCaps l | None => MNil end) 0 false.
Proof.
  intros fromStart p s init Hwf Hi.
  unfold wf_pattern in Hwf. apply andb_true_iff in Hwf. destruct Hwf as [WF Hall].
  assert (Hcl : forall st e c' cS', caps_eq_on (p_items p) c' cS' ->
            capture_list (p_ncap p) st e c' = capture_list (p_ncap p) st e cS').
  { intros st e c' cS' Heq. unfold capture_list. f_equal. apply map_ext_in. intros k Hk.
    apply Heq. rewrite forallb_forall in Hall. apply Hall. assumption. }
  unfold api, spec_find_list, find.
  replace (slen s <? init) with false by (symmetry; apply Z.ltb_ge; lia).
  destruct (fromStart && p_sanchor p).
  - pose proof (machine_equiv_spec_at (p_items p) (p_eanchor p) s WF init caps0 Hi) as H.
    destruct (M (p_eanchor p) s (p_items p) init caps0) as [[e cS']|].
    + destruct H as (c' & [N HN] & Heq). exists N. intros f Hf.
      rewrite run_pair. replace f with (N + (f - N))%nat by lia. rewrite HN.
      simpl. rewrite (Hcl _ _ _ _ Heq). reflexivity.
    + destruct H as (c' & [N HN]). exists N. intros f Hf.
      rewrite run_pair. replace f with (N + (f - N))%nat by lia. rewrite HN. reflexivity.
  - destruct (machine_equiv_spec_find (p_items p) (p_eanchor p) s WF
                (Z.to_nat (slen s - init + 1)) init caps0 ltac:(lia) ltac:(lia)) as [N HN].
    exists N. intros f Hf. specialize (HN f Hf 0).
    destruct (find_at (p_eanchor p) s (p_items p) (Z.to_nat (slen s - init + 1)) init) as [[[st e] cS']|].
    + destruct HN as (c' & u' & Hfl & Heq). rewrite Hfl. simpl. rewrite (Hcl _ _ _ _ Heq). reflexivity.
    + destruct HN as (c' & u' & Hfl). rewrite Hfl. reflexivity.
Qed.

(* budgets > 0: the machine either stops with the budget panic or behaves
   exactly (outcome and ticks) as without a budget *)
Lemma run_budget items ea s : forall f B u st,
  fst (run items ea s f B u st) = OBudget \/ run items ea s f B u st = run items ea s f 0 u st.
Proof.
  induction f as [|f IH]; intros B u st; simpl.
  - right. reflexivity.
  - destruct (step items ea s st) as [st' t|o].
    + destruct ((0 <? B) && (B <=? u + t)).
      * left. reflexivity.
      * apply IH.
    + right. reflexivity.
Qed.

(* a budget kill happens only when the ticks reach the budget *)
Lemma step_not_budget items ea s st : step items ea s st <> SDone OBudget.
Proof.
  intros H. unfold step in H.
  repeat match type of H with
         | context [match ?x with _ => _ end] => destruct x; try discriminate
         end.
Qed.

Lemma run_budget_kill items ea s : forall f B u st,
  0 < B -> u < B -> fst (run items ea s f B u st) = OBudget -> B <= snd (run items ea s f B u st).
Proof.
  induction f as [|f IH]; intros B u st HB Hu H; simpl in *.
  - discriminate.
  - destruct (step items ea s st) as [st' t|o] eqn:ES.
    + destruct ((0 <? B) && (B <=? u + t)) eqn:E.
      * simpl. apply andb_true_iff in E. destruct E as [_ E]. apply Z.leb_le in E. assumption.
      * apply IH; [assumption| |assumption].
        apply andb_false_iff in E. destruct E as [E|E].
        -- apply Z.ltb_ge in E. lia.
        -- apply Z.leb_gt in E. assumption.
    + simpl in H. subst o. exfalso. exact (step_not_budget _ _ _ _ ES).
Qed.

(* MatchFromStart / Match beyond the end of the subject: no match, no panic
   (repair of findFromStart; find()'s loop is empty) *)
Lemma api_beyond_end fromStart p f s init B :
  slen s < init -> a_res (api fromStart p f s init B) = MNil /\ a_panicked (api fromStart p f s init B) = false.
Proof.
  intros H. unfold api.
  replace (slen s <? init) with true by (symmetry; apply Z.ltb_lt; lia).
  replace (Z.to_nat (slen s - init + 1)) with O by lia.
  destruct (fromStart && p_sanchor p); simpl; auto.
Qed.
