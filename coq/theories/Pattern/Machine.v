(* Pattern/Machine.v — implementation model (IM) of the trackback machine,
   lib/stringlib/pattern/matcher.go (match, matchToEnd, find, findFromStart,
   matchNext, getNext, trackback, addTrackback, consumeBudget) and of the two
   entry points of pattern.go (Match, MatchFromStart) with their recover().

   One [step] = one iteration of the `for m.pi < len(m.items)` loop of match()
   (or, when pi = len(items), the test made by matchToEnd).  A step reports
   how many times it called consumeBudget ([ticks]); [run] adds them up and
   stops with [OBudget] when the Go code would panic(budgetConsumed).
   Go run-time panics (index / slice bounds) are [OPanic].  The unused field
   patternMatcher.ci is not modelled.

   No proofs in this file. *)
From Coq Require Import ZArith NArith List Bool.
From GV Require Import Pattern.Common.
Import ListNotations.
Open Scope Z_scope.

Record tbe := mkTb { t_si : Z; t_pi : nat; t_min : Z }.
Record mstate := mkSt { m_si : Z; m_pi : nat; m_caps : caps; m_tb : list tbe }.

Inductive outcome :=
| OMatch (e : Z) (c : caps)
| ONoMatch (c : caps)
| OPanic
| OBudget
| OOutOfFuel.

Inductive sres := SNext (st : mstate) (ticks : Z) | SDone (o : outcome).

Section Machine.
Variable items : list item.
Variable eanchor : bool.
Variable s : list Z.

Definition nitems : nat := length items.

(* func (m *patternMatcher) trackback() *)
Definition trackback (st : mstate) : mstate :=
  match m_tb st with
  | [] => mkSt (-1) nitems (m_caps st) []
  | t :: rest =>
    mkSt (t_si t) (t_pi t) (m_caps st)
         (if t_min t <? t_si t then mkTb (t_si t - 1) (t_pi t) (t_min t) :: rest else rest)
  end.

(* m.si < len(m.s) && s.contains(m.s[m.si]);  None = index panic *)
Definition matchNext (cls : bset) (si : Z) : option bool :=
  if si <? slen s then
    match getb s si with Some b => Some (bs_mem cls b) | None => None end
  else Some false.

(* for m.matchNext(item.bytes) {}  — number of bytes consumed *)
Definition greedy (cls : bset) (si : Z) : option Z :=
  match matchNext cls si with
  | None => None
  | Some false => Some 0
  | Some true => Some (Z.of_nat (span cls (suffix s si)))
  end.

Definition step (st : mstate) : sres :=
  let si := m_si st in let pi := m_pi st in let c := m_caps st in let tb := m_tb st in
  match nth_error items pi with
  | None =>
    (* match() returned; matchToEnd *)
    if si =? -1 then SDone (ONoMatch c)
    else if negb eanchor || (si =? slen s) then SDone (OMatch si c)
    else SNext (trackback st) 0
  | Some (ISingle Once cls) =>
    match matchNext cls si with
    | None => SDone OPanic
    | Some true => SNext (mkSt (si + 1) (S pi) c tb) 1
    | Some false => SNext (trackback st) 0
    end
  | Some (ISingle Star cls) =>
    match greedy cls si with
    | None => SDone OPanic
    | Some k =>
      SNext (mkSt (si + k) (S pi) c
                  (if 0 <? k then mkTb (si + k) (S pi) si :: tb else tb)) k
    end
  | Some (ISingle Plus cls) =>
    match matchNext cls si with
    | None => SDone OPanic
    | Some false => SNext (trackback st) 0
    | Some true =>
      let si1 := si + 1 in
      match greedy cls si1 with
      | None => SDone OPanic
      | Some k =>
        SNext (mkSt (si1 + k) (S pi) c
                    (if 0 <? k then mkTb (si1 + k) (S pi) si1 :: tb else tb)) (1 + k)
      end
    end
  | Some (ISingle Lazy cls) =>
    match matchNext cls si with
    | None => SDone OPanic
    | Some true => SNext (mkSt si (S pi) c (mkTb (si + 1) pi (si + 1) :: tb)) 1
    | Some false => SNext (mkSt si (S pi) c tb) 0
    end
  | Some (ISingle Opt cls) =>
    match matchNext cls si with
    | None => SDone OPanic
    | Some true => SNext (mkSt (si + 1) (S pi) c (mkTb (si + 1) (S pi) si :: tb)) 1
    | Some false => SNext (mkSt si (S pi) c tb) 0
    end
  | Some (IBackref n) =>
    if (n <? 0) || (10 <=? n) then SDone OPanic
    else
      let '(cs, ce) := c n in
      let e := si + ce - cs in
      (* c.end >= c.start && end <= len(m.s) && ...  (a position capture never matches) *)
      if (cs <=? ce) && (e <=? slen s) then
        match slice s cs ce with
        | None => SDone OPanic
        | Some l1 =>
          match slice s si e with
          | None => SDone OPanic
          | Some l2 =>
            (* consumeBudgetN(c.end - c.start): the comparison is charged *)
            if list_eqb l1 l2 then SNext (mkSt e (S pi) c tb) (ce - cs)
            else SNext (trackback st) (ce - cs)
          end
        end
      else SNext (trackback st) 0
  | Some (IBalanced op cl) =>
    if si <? slen s then
      match getb s si with
      | None => SDone OPanic
      | Some b =>
        if b =? op then
          match bal op cl (suffix s (si + 1)) 1 1 with
          | (true, n) => SNext (mkSt (si + n) (S pi) c tb) n
          | (false, n) => SNext (trackback st) n
          end
        else SNext (trackback st) 1
      end
    else SNext (trackback st) 0
  | Some (IFrontier cls) =>
    match (if 0 <? si then getb s (si - 1) else Some 0) with
    | None => SDone OPanic
    | Some p =>
      match (if si <? slen s then getb s si else Some 0) with
      | None => SDone OPanic
      | Some n =>
        if bs_mem cls p || negb (bs_mem cls n) then SNext (trackback st) 0
        else SNext (mkSt si (S pi) c tb) 0
      end
    end
  | Some (ICapStart n) =>
    if (n <? 0) || (10 <=? n) then SDone OPanic
    else SNext (mkSt si (S pi) (cset c n (si, -1)) tb) 0
  | Some (ICapEnd n) =>
    if (n <? 0) || (10 <=? n) then SDone OPanic
    else SNext (mkSt si (S pi) (cset c n (fst (c n), si)) tb) 0
  end.

(* matchToEnd from a state; budget B (0 = unlimited), [used] ticks so far *)
Fixpoint run (fuel : nat) (B used : Z) (st : mstate) : outcome * Z :=
  match fuel with
  | O => (OOutOfFuel, used)
  | S f =>
    match step st with
    | SDone o => (o, used)
    | SNext st' t =>
      let used' := used + t in
      if (0 <? B) && (B <=? used') then (OBudget, used')
      else run f B used' st'
    end
  end.

(* matchToEnd after reset(si): captures[0].start = si *)
Definition start_state (si : Z) (c : caps) : mstate :=
  mkSt si O (cset c 0 (si, snd (c 0))) [].

(* find(): for si := m.si; si <= len(m.s); si++ { reset(si); matchToEnd }
   n = number of start positions left.  Returns outcome, used, start. *)
Fixpoint findLoop (n : nat) (fuel : nat) (B used : Z) (si : Z) (c : caps)
  : outcome * Z * Z :=
  match n with
  | O => (ONoMatch c, used, si)
  | S n' =>
    match run fuel B used (start_state si c) with
    | (ONoMatch c', used') => findLoop n' fuel B used' (si + 1) c'
    | (o, used') => (o, used', si)
    end
  end.
End Machine.

(* ------------------------------------------------------------ entry points *)
Inductive mres := MCaps (l : list (Z * Z)) | MNil | MFuel | MPanic.

Record apires := mkApi { a_res : mres; a_used : Z; a_panicked : bool }.

Definition capture_list (ncap : Z) (start e : Z) (c : caps) : list (Z * Z) :=
  (start, e) :: map (fun k => c (Z.of_nat k)) (seq 1 (Z.to_nat ncap)).

(* Pattern.MatchFromStart (fromStart = true) / Pattern.Match (false),
   including the deferred recover(): budgetConsumed is turned into
   (nil, budget+1); any other panic leaves the named results at (nil, 0)
   (a_panicked records it; MPanic is unused by the current code). *)
Definition api (fromStart : bool) (p : pattern) (fuel : nat) (s : list Z) (init : Z) (B : Z) : apires :=
  let r :=
    if fromStart && p_sanchor p
    then (if slen s <? init then (ONoMatch caps0, 0, init)     (* findFromStart: m.si > len(m.s) *)
          else (run (p_items p) (p_eanchor p) s fuel B 0 (start_state init caps0), init))
    else findLoop (p_items p) (p_eanchor p) s
                  (Z.to_nat (slen s - init + 1)) fuel B 0 init caps0 in
  match r with
  | (OMatch e c, used, start) =>
    mkApi (MCaps (capture_list (p_ncap p) start e c)) (if 0 <? B then used else 0) false
  | (ONoMatch _, used, _) => mkApi MNil (if 0 <? B then used else 0) false
  | (OBudget, _, _) => mkApi MNil (B + 1) false
  | (OPanic, _, _) => mkApi MNil 0 true        (* swallowed by the blanket recover(): (nil, 0) *)
  | (OOutOfFuel, _, _) => mkApi MFuel 0 false
  end.
