(* Pattern/Equiv.v — simulation between the trackback machine (Machine.v) and
   the manual-level recursive matcher (Spec.v), DESIGN Appendix D.3.

   Proved here (machine_equiv_spec_partial): for every item list made of
   single-class items with any repetition suffix (none * + - ?), captures and
   position captures — i.e. no back-references, no %b, no %f — every subject,
   every start position and both end-anchor settings, the machine started with
   an arbitrary trackback stack halts, without panic and for every large
   enough fuel, with a match ending exactly where Spec.M ends, or (when Spec.M
   fails) reaches the state that trackback() produces from that stack.
   The statement is about the match span; equality of the capture values is
   left to the exhaustive three-way comparison. *)
From Coq Require Import ZArith NArith List Bool Lia.
From GV Require Import Pattern.Common Pattern.Machine Pattern.Spec.
Import ListNotations.
Open Scope Z_scope.

Section Sim.
Variable items : list item.
Variable ea : bool.
Variable s : list Z.
Notation len := (slen s).

(* the machine without a budget (B = 0), outcome only *)
Definition runo (fuel : nat) (st : mstate) : outcome := fst (run items ea s fuel 0 0 st).

Lemma run_used_indep fuel : forall u u' st,
  fst (run items ea s fuel 0 u st) = fst (run items ea s fuel 0 u' st).
Proof.
  induction fuel; intros; simpl; auto.
  destruct (step items ea s st); simpl; auto.
Qed.

Lemma runo_next f st st' t : step items ea s st = SNext st' t -> runo (S f) st = runo f st'.
Proof. intros H. unfold runo. simpl. rewrite H. simpl. apply run_used_indep. Qed.

Lemma runo_done f st o : step items ea s st = SDone o -> runo (S f) st = o.
Proof. intros H. unfold runo. simpl. rewrite H. reflexivity. Qed.

Definition reaches (st st' : mstate) : Prop := exists n, forall m, runo (n + m) st = runo m st'.
Definition halts (st : mstate) (o : outcome) : Prop := exists n, forall m, runo (n + m) st = o.

Lemma reaches_refl st : reaches st st.
Proof. exists O. reflexivity. Qed.

Lemma reaches_trans a b c : reaches a b -> reaches b c -> reaches a c.
Proof.
  intros [n H1] [k H2]. exists (n + k)%nat. intros m.
  rewrite <- Nat.add_assoc, H1. apply H2.
Qed.

Lemma reaches_halts a b o : reaches a b -> halts b o -> halts a o.
Proof.
  intros [n H1] [k H2]. exists (n + k)%nat. intros m.
  rewrite <- Nat.add_assoc, H1. apply H2.
Qed.

Lemma reaches_step st st' t : step items ea s st = SNext st' t -> reaches st st'.
Proof. intros H. exists 1%nat. intros m. simpl. eapply runo_next; eauto. Qed.

Lemma halts_step st o : step items ea s st = SDone o -> halts st o.
Proof. intros H. exists 1%nat. intros m. simpl. eapply runo_done; eauto. Qed.

(* ------------------------------------------------------------ subject facts *)
Lemma nth_skipn {A} : forall n (l : list A), (n < length l)%nat ->
  exists b r, nth_error l n = Some b /\ skipn n l = b :: r.
Proof.
  induction n; destruct l; simpl; intros; try lia.
  - eauto.
  - apply IHn. lia.
Qed.

Lemma getb_suffix i : 0 <= i < len -> exists b r, getb s i = Some b /\ suffix s i = b :: r.
Proof.
  intros H. unfold getb, suffix.
  replace ((0 <=? i) && (i <? len)) with true by (symmetry; apply andb_true_iff; split; [apply Z.leb_le|apply Z.ltb_lt]; lia).
  apply nth_skipn. unfold slen in H. lia.
Qed.

Lemma suffix_end : suffix s len = [].
Proof. unfold suffix, slen. rewrite Nat2Z.id. apply skipn_all. Qed.

Lemma skipn_S_cons {A} : forall n (l : list A) b r, skipn n l = b :: r -> skipn (S n) l = r.
Proof.
  induction n; intros l b r H.
  - simpl in H. subst l. reflexivity.
  - destruct l; simpl in H; [discriminate|]. simpl. apply (IHn _ _ _ H).
Qed.

Lemma suffix_cons i b r : 0 <= i -> suffix s i = b :: r -> suffix s (i + 1) = r.
Proof.
  unfold suffix. intros Hi H.
  replace (Z.to_nat (i + 1)) with (S (Z.to_nat i)) by lia.
  eapply skipn_S_cons; eauto.
Qed.

Lemma suffix_len i : 0 <= i <= len -> Z.of_nat (length (suffix s i)) = len - i.
Proof. unfold suffix, slen. intros. rewrite skipn_length. lia. Qed.

Lemma span_le cls l : (span cls l <= length l)%nat.
Proof. induction l; simpl; [lia|]. destruct (bs_mem cls a); lia. Qed.

Lemma span_bound cls i : 0 <= i <= len -> i + Z.of_nat (span cls (suffix s i)) <= len.
Proof. intros H. pose proof (span_le cls (suffix s i)). pose proof (suffix_len i H). lia. Qed.

Lemma matchNext_one cls i : 0 <= i <= len -> matchNext s cls i = Some (one s cls i).
Proof.
  intros H. unfold matchNext, one. destruct (i <? len) eqn:E.
  - apply Z.ltb_lt in E. destruct (getb_suffix i) as (b & r & H1 & H2); [lia|].
    rewrite H1, H2. reflexivity.
  - apply Z.ltb_ge in E. replace i with len by lia. rewrite suffix_end. reflexivity.
Qed.

Lemma greedy_span cls i : 0 <= i <= len ->
  greedy s cls i = Some (Z.of_nat (span cls (suffix s i))).
Proof.
  intros H. unfold greedy. rewrite matchNext_one by assumption. unfold one.
  destruct (suffix s i) eqn:E; simpl; [reflexivity|].
  destruct (bs_mem cls z); reflexivity.
Qed.

Lemma one_true_span cls i : 0 <= i -> one s cls i = true ->
  span cls (suffix s i) = S (span cls (suffix s (i + 1))) /\ i < len.
Proof.
  unfold one. intros Hi H. destruct (suffix s i) eqn:E; [discriminate|].
  simpl. rewrite H. rewrite (suffix_cons i z l Hi E). split; [reflexivity|].
  destruct (Z_lt_le_dec i len); [assumption|].
  exfalso. unfold suffix in E. rewrite skipn_all2 in E; [discriminate|]. unfold slen in *. lia.
Qed.

Lemma one_false_span cls i : one s cls i = false -> span cls (suffix s i) = O.
Proof.
  unfold one. intros H. destruct (suffix s i); simpl; [reflexivity|]. rewrite H. reflexivity.
Qed.

(* ------------------------------------------------------------ the fragment *)
Fixpoint simple (l : list item) : bool :=
  match l with
  | [] => true
  | ISingle _ _ :: r => simple r
  | ICapStart n :: r | ICapEnd n :: r => (0 <=? n) && (n <? 10) && simple r
  | _ => false
  end.

(* Spec.M without the captures *)
Fixpoint Mp (l : list item) (i : Z) : option Z :=
  match l with
  | [] => if ea && negb (i =? len) then None else Some i
  | ISingle Once cls :: r => if one s cls i then Mp r (i + 1) else None
  | ISingle Star cls :: r => try_down (Mp r) (span cls (suffix s i)) i
  | ISingle Plus cls :: r =>
    match span cls (suffix s i) with O => None | S k => try_down (Mp r) k (i + 1) end
  | ISingle Lazy cls :: r => try_up (Mp r) (span cls (suffix s i)) i
  | ISingle Opt cls :: r =>
    if one s cls i then match Mp r (i + 1) with Some e => Some e | None => Mp r i end
    else Mp r i
  | ICapStart _ :: r | ICapEnd _ :: r => Mp r i
  | _ => None
  end.

Lemma try_down_map {A B} (g : A -> B) f f' : (forall j, option_map g (f j) = f' j) ->
  forall n lo, option_map g (try_down f n lo) = try_down f' n lo.
Proof.
  intros H. induction n; intros lo; simpl; rewrite <- H; destruct (f _); simpl; auto.
Qed.

Lemma try_up_map {A B} (g : A -> B) f f' : (forall j, option_map g (f j) = f' j) ->
  forall n lo, option_map g (try_up f n lo) = try_up f' n lo.
Proof.
  intros H. induction n; intros lo; simpl; rewrite <- H; destruct (f _); simpl; auto.
Qed.

Lemma Mp_M : forall l, simple l = true -> forall i c, option_map fst (M ea s l i c) = Mp l i.
Proof.
  induction l as [|it l IH]; intros S i c.
  - simpl. destruct (ea && negb (i =? len)); reflexivity.
  - destruct it as [k cls| | | |n|n]; simpl in S; try discriminate.
    + destruct k; simpl.
      * destruct (one s cls i); auto.
      * apply try_down_map. intros; auto.
      * destruct (span cls (suffix s i)); auto. apply try_down_map. intros; auto.
      * apply try_up_map. intros; auto.
      * destruct (one s cls i); auto.
        rewrite <- (IH S (i + 1) c). destruct (M ea s l (i + 1) c); simpl; auto.
    + apply andb_true_iff in S. destruct S as [_ S]. simpl. auto.
    + apply andb_true_iff in S. destruct S as [_ S]. simpl. auto.
Qed.

Lemma try_down_S {A} (f : Z -> option A) n lo :
  try_down f (S n) lo =
  match f (lo + Z.of_nat (S n)) with Some r => Some r | None => try_down f n lo end.
Proof. reflexivity. Qed.
Lemma try_down_0 {A} (f : Z -> option A) lo : try_down f O lo = f (lo + Z.of_nat 0).
Proof. simpl. destruct (f (lo + 0)); reflexivity. Qed.

(* ------------------------------------------------------------ simulation *)
Definition tb_result (c : caps) (tb : list tbe) : mstate := trackback items (mkSt 0 O c tb).

Lemma trackback_eq i pi c tb : trackback items (mkSt i pi c tb) = tb_result c tb.
Proof. reflexivity. Qed.

Definition goal (suf : list item) (pi : nat) : Prop :=
  forall i c tb, 0 <= i <= len ->
  match Mp suf i with
  | Some e => exists c', halts (mkSt i pi c tb) (OMatch e c')
  | None => exists c', reaches (mkSt i pi c tb) (tb_result c' tb)
  end.

(* alternatives lo+n, lo+n-1, ..., lo of a greedy / optional item whose
   trackback entry is on the stack *)
Lemma greedy_alts rest pi' (IH : goal rest pi') : forall n lo c tb,
  0 <= lo -> lo + Z.of_nat n <= len ->
  let st := mkSt (lo + Z.of_nat n) pi' c
                 (match n with O => tb | S m => mkTb (lo + Z.of_nat m) pi' lo :: tb end) in
  match try_down (Mp rest) n lo with
  | Some e => exists c', halts st (OMatch e c')
  | None => exists c', reaches st (tb_result c' tb)
  end.
Proof.
  induction n as [|n IHn]; intros lo c tb Hlo Hhi; cbv zeta.
  - rewrite try_down_0. apply IH. lia.
  - rewrite try_down_S.
    pose proof (IH (lo + Z.of_nat (S n)) c (mkTb (lo + Z.of_nat n) pi' lo :: tb)) as H1.
    destruct (Mp rest (lo + Z.of_nat (S n))) as [e|].
    + apply H1. lia.
    + destruct H1 as [c' R]; [lia|].
      assert (Hst : tb_result c' (mkTb (lo + Z.of_nat n) pi' lo :: tb) =
                    mkSt (lo + Z.of_nat n) pi' c'
                      (match n with O => tb | S m => mkTb (lo + Z.of_nat m) pi' lo :: tb end)).
      { unfold tb_result, trackback. simpl. destruct n as [|m].
        - replace (lo <? lo + Z.of_nat 0) with false by (symmetry; apply Z.ltb_ge; simpl; lia). reflexivity.
        - replace (lo <? lo + Z.of_nat (S m)) with true by (symmetry; apply Z.ltb_lt; lia).
          replace (lo + Z.of_nat (S m) - 1) with (lo + Z.of_nat m) by lia. reflexivity. }
      rewrite Hst in R.
      specialize (IHn lo c' tb Hlo ltac:(lia)). cbv zeta in IHn.
      destruct (try_down (Mp rest) n lo) as [e|].
      * destruct IHn as [c'' Hh]. exists c''. eapply reaches_halts; eauto.
      * destruct IHn as [c'' Hr]. exists c''. eapply reaches_trans; eauto.
Qed.

Lemma nth_mid {A} (pre : list A) it suf : nth_error (pre ++ it :: suf) (length pre) = Some it.
Proof. rewrite nth_error_app2 by lia. rewrite Nat.sub_diag. reflexivity. Qed.

(* after a greedy run of k bytes from lo the machine pushed (lo+k, pi', lo) if k > 0 *)
Lemma greedy_item rest pi' (IH : goal rest pi') : forall k lo c tb,
  0 <= lo -> lo + Z.of_nat k <= len ->
  let st := mkSt (lo + Z.of_nat k) pi' c
              (if 0 <? Z.of_nat k then mkTb (lo + Z.of_nat k) pi' lo :: tb else tb) in
  match try_down (Mp rest) k lo with
  | Some e => exists c', halts st (OMatch e c')
  | None => exists c', reaches st (tb_result c' tb)
  end.
Proof.
  intros k lo c tb Hlo Hhi. cbv zeta.
  destruct k as [|k].
  - rewrite try_down_0. replace (0 <? Z.of_nat 0) with false by reflexivity. apply IH. lia.
  - replace (0 <? Z.of_nat (S k)) with true by (symmetry; apply Z.ltb_lt; lia).
    pose proof (IH (lo + Z.of_nat (S k)) c (mkTb (lo + Z.of_nat (S k)) pi' lo :: tb)) as H1.
    pose proof (greedy_alts rest pi' IH (S k) lo) as GA. cbv zeta in GA.
    rewrite try_down_S in *.
    destruct (Mp rest (lo + Z.of_nat (S k))) as [e|].
    + apply H1. lia.
    + destruct H1 as [c' R]; [lia|].
      assert (Hst : tb_result c' (mkTb (lo + Z.of_nat (S k)) pi' lo :: tb) =
                    mkSt (lo + Z.of_nat (S k)) pi' c' (mkTb (lo + Z.of_nat k) pi' lo :: tb)).
      { unfold tb_result, trackback. cbn [m_tb m_caps t_si t_pi t_min].
        replace (lo <? lo + Z.of_nat (S k)) with true by (symmetry; apply Z.ltb_lt; lia).
        replace (lo + Z.of_nat (S k) - 1) with (lo + Z.of_nat k) by lia. reflexivity. }
      rewrite Hst in R.
      specialize (GA c' tb Hlo Hhi).
      destruct (try_down (Mp rest) k lo) as [e|].
      * destruct GA as [c'' Hh]. exists c''. eapply reaches_halts; eauto.
      * destruct GA as [c'' Hr]. exists c''. eapply reaches_trans; eauto.
Qed.

Lemma sim : forall suf pre, items = pre ++ suf -> simple suf = true -> goal suf (length pre).
Proof.
  induction suf as [|it suf IHs]; intros pre E Ssuf i c tb Hi.
  - (* end of the pattern: matchToEnd's test *)
    assert (Hn : nth_error items (length pre) = None).
    { apply nth_error_None. rewrite E, app_nil_r. lia. }
    assert (Hm1 : (i =? -1) = false) by (apply Z.eqb_neq; lia).
    assert (Hc : negb ea || (i =? len) = negb (ea && negb (i =? len))).
    { generalize ea. intros b. destruct b, (i =? len); reflexivity. }
    simpl Mp. destruct (ea && negb (i =? len)) eqn:C.
    + exists c. apply (reaches_step _ _ 0). unfold step. cbn [m_si m_pi m_caps m_tb]. rewrite Hn, Hm1, Hc. reflexivity.
    + exists c. apply halts_step. unfold step. cbn [m_si m_pi m_caps m_tb]. rewrite Hn, Hm1, Hc. reflexivity.
  - assert (Hnth : nth_error items (length pre) = Some it) by (rewrite E; apply nth_mid).
    assert (IH : goal suf (S (length pre))).
    { replace (S (length pre)) with (length (pre ++ [it])) by (rewrite app_length; simpl; lia).
      apply IHs.
      - rewrite <- app_assoc. exact E.
      - destruct it as [k cls| | | |n|n]; simpl in Ssuf; try discriminate; auto;
          apply andb_true_iff in Ssuf; destruct Ssuf; auto. }
    destruct it as [k cls| | | |n|n]; simpl in Ssuf; try discriminate.
    + destruct k; simpl Mp.
      * (* Once *)
        destruct (one s cls i) eqn:O1.
        -- destruct (one_true_span cls i ltac:(lia) O1) as [_ Hlt].
           pose proof (IH (i + 1) c tb ltac:(lia)) as H1.
           assert (R : reaches (mkSt i (length pre) c tb) (mkSt (i + 1) (S (length pre)) c tb)).
           { apply (reaches_step _ _ 1). unfold step. simpl. rewrite Hnth, matchNext_one, O1 by lia. reflexivity. }
           destruct (Mp suf (i + 1)).
           ++ destruct H1 as [c' H1]. exists c'. eapply reaches_halts; eauto.
           ++ destruct H1 as [c' H1]. exists c'. eapply reaches_trans; eauto.
        -- exists c. apply (reaches_step _ _ 0). unfold step. simpl.
           rewrite Hnth, matchNext_one, O1 by lia. reflexivity.
      * (* Star *)
        pose proof (span_bound cls i Hi) as Hb.
        pose proof (greedy_item suf (S (length pre)) IH (span cls (suffix s i)) i c tb ltac:(lia) Hb) as G.
        cbv zeta in G.
        assert (R : reaches (mkSt i (length pre) c tb)
                     (mkSt (i + Z.of_nat (span cls (suffix s i))) (S (length pre)) c
                        (if 0 <? Z.of_nat (span cls (suffix s i))
                         then mkTb (i + Z.of_nat (span cls (suffix s i))) (S (length pre)) i :: tb else tb))).
        { eapply reaches_step. unfold step. simpl. rewrite Hnth, greedy_span by lia. reflexivity. }
        destruct (try_down (Mp suf) (span cls (suffix s i)) i).
        -- destruct G as [c' G]. exists c'. eapply reaches_halts; eauto.
        -- destruct G as [c' G]. exists c'. eapply reaches_trans; eauto.
      * (* Plus *)
        destruct (one s cls i) eqn:O1.
        -- destruct (one_true_span cls i ltac:(lia) O1) as [Hsp Hlt]. rewrite Hsp.
           set (k := span cls (suffix s (i + 1))) in *.
           pose proof (span_bound cls (i + 1) ltac:(lia)) as Hb. fold k in Hb.
           pose proof (greedy_item suf (S (length pre)) IH k (i + 1) c tb ltac:(lia) Hb) as G.
           cbv zeta in G.
           assert (R : reaches (mkSt i (length pre) c tb)
                     (mkSt (i + 1 + Z.of_nat k) (S (length pre)) c
                        (if 0 <? Z.of_nat k
                         then mkTb (i + 1 + Z.of_nat k) (S (length pre)) (i + 1) :: tb else tb))).
           { eapply reaches_step. unfold step. simpl. rewrite Hnth, matchNext_one, O1 by lia.
             rewrite greedy_span by lia. fold k. reflexivity. }
           destruct (try_down (Mp suf) k (i + 1)).
           ++ destruct G as [c' G]. exists c'. eapply reaches_halts; eauto.
           ++ destruct G as [c' G]. exists c'. eapply reaches_trans; eauto.
        -- rewrite (one_false_span cls i O1).
           exists c. apply (reaches_step _ _ 0). unfold step. simpl.
           rewrite Hnth, matchNext_one, O1 by lia. reflexivity.
      * (* Lazy: induction on the length of the run still available *)
        clear IHs.
        remember (span cls (suffix s i)) as n eqn:Hn.
        revert i c Hi Hn. induction n as [|n IHn]; intros i c Hi Hn.
        -- assert (O1 : one s cls i = false).
           { destruct (one s cls i) eqn:O1; [|reflexivity].
             destruct (one_true_span cls i ltac:(lia) O1) as [Hsp _]. congruence. }
           simpl try_up.
           pose proof (IH i c tb Hi) as H1.
           assert (R : reaches (mkSt i (length pre) c tb) (mkSt i (S (length pre)) c tb)).
           { apply (reaches_step _ _ 0). unfold step. simpl. rewrite Hnth, matchNext_one, O1 by lia. reflexivity. }
           destruct (Mp suf i).
           ++ destruct H1 as [c' H1]. exists c'. eapply reaches_halts; eauto.
           ++ destruct H1 as [c' H1]. exists c'. eapply reaches_trans; eauto.
        -- assert (O1 : one s cls i = true).
           { destruct (one s cls i) eqn:O1; [reflexivity|].
             rewrite (one_false_span cls i O1) in Hn. discriminate. }
           destruct (one_true_span cls i ltac:(lia) O1) as [Hsp Hlt].
           simpl try_up.
           pose proof (IH i c (mkTb (i + 1) (length pre) (i + 1) :: tb) Hi) as H1.
           assert (R : reaches (mkSt i (length pre) c tb)
                         (mkSt i (S (length pre)) c (mkTb (i + 1) (length pre) (i + 1) :: tb))).
           { apply (reaches_step _ _ 1). unfold step. simpl. rewrite Hnth, matchNext_one, O1 by lia. reflexivity. }
           destruct (Mp suf i).
           ++ destruct H1 as [c' H1]. exists c'. eapply reaches_halts; eauto.
           ++ destruct H1 as [c' H1].
              assert (Hst : tb_result c' (mkTb (i + 1) (length pre) (i + 1) :: tb)
                            = mkSt (i + 1) (length pre) c' tb).
              { unfold tb_result, trackback. simpl. rewrite Z.ltb_irrefl. reflexivity. }
              rewrite Hst in H1.
              specialize (IHn (i + 1) c' ltac:(lia) ltac:(congruence)).
              destruct (try_up (Mp suf) n (i + 1)).
              ** destruct IHn as [c'' H2]. exists c''.
                 eapply reaches_halts; [eapply reaches_trans; eauto|]. exact H2.
              ** destruct IHn as [c'' H2]. exists c''.
                 eapply reaches_trans; [eapply reaches_trans; eauto|]. exact H2.
      * (* Opt *)
        destruct (one s cls i) eqn:O1.
        -- destruct (one_true_span cls i ltac:(lia) O1) as [_ Hlt].
           pose proof (greedy_item suf (S (length pre)) IH 1%nat i c tb ltac:(lia) ltac:(simpl; lia)) as G.
           cbv zeta in G. rewrite try_down_S, try_down_0 in G. simpl Z.of_nat in G.
           replace (0 <? 1) with true in G by reflexivity.
           replace (i + 0) with i in G by lia.
           assert (R : reaches (mkSt i (length pre) c tb)
                     (mkSt (i + 1) (S (length pre)) c (mkTb (i + 1) (S (length pre)) i :: tb))).
           { apply (reaches_step _ _ 1). unfold step. simpl. rewrite Hnth, matchNext_one, O1 by lia. reflexivity. }
           destruct (Mp suf (i + 1)).
           ++ destruct G as [c' G]. exists c'. eapply reaches_halts; eauto.
           ++ destruct (Mp suf i).
              ** destruct G as [c' G]. exists c'. eapply reaches_halts; eauto.
              ** destruct G as [c' G]. exists c'. eapply reaches_trans; eauto.
        -- pose proof (IH i c tb Hi) as H1.
           assert (R : reaches (mkSt i (length pre) c tb) (mkSt i (S (length pre)) c tb)).
           { apply (reaches_step _ _ 0). unfold step. simpl. rewrite Hnth, matchNext_one, O1 by lia. reflexivity. }
           destruct (Mp suf i).
           ++ destruct H1 as [c' H1]. exists c'. eapply reaches_halts; eauto.
           ++ destruct H1 as [c' H1]. exists c'. eapply reaches_trans; eauto.
    + (* ICapStart *)
      apply andb_true_iff in Ssuf. destruct Ssuf as [Hn' _]. apply andb_true_iff in Hn'. destruct Hn' as [Hn0 Hn10].
      simpl Mp.
      pose proof (IH i (cset c n (i, -1)) tb Hi) as H1.
      assert (R : reaches (mkSt i (length pre) c tb) (mkSt i (S (length pre)) (cset c n (i, -1)) tb)).
      { apply (reaches_step _ _ 0). unfold step. simpl. rewrite Hnth.
        replace (n <? 0) with false by (symmetry; apply Z.ltb_ge; apply Z.leb_le; assumption).
        replace (10 <=? n) with false by (symmetry; apply Z.leb_gt; apply Z.ltb_lt; assumption).
        reflexivity. }
      destruct (Mp suf i).
      * destruct H1 as [c' H1]. exists c'. eapply reaches_halts; eauto.
      * destruct H1 as [c' H1]. exists c'. eapply reaches_trans; eauto.
    + (* ICapEnd *)
      apply andb_true_iff in Ssuf. destruct Ssuf as [Hn' _]. apply andb_true_iff in Hn'. destruct Hn' as [Hn0 Hn10].
      simpl Mp.
      pose proof (IH i (cset c n (fst (c n), i)) tb Hi) as H1.
      assert (R : reaches (mkSt i (length pre) c tb) (mkSt i (S (length pre)) (cset c n (fst (c n), i)) tb)).
      { apply (reaches_step _ _ 0). unfold step. simpl. rewrite Hnth.
        replace (n <? 0) with false by (symmetry; apply Z.ltb_ge; apply Z.leb_le; assumption).
        replace (10 <=? n) with false by (symmetry; apply Z.leb_gt; apply Z.ltb_lt; assumption).
        reflexivity. }
      destruct (Mp suf i).
      * destruct H1 as [c' H1]. exists c'. eapply reaches_halts; eauto.
      * destruct H1 as [c' H1]. exists c'. eapply reaches_trans; eauto.
Qed.
End Sim.

(* ------------------------------------------------------------ top level *)
Theorem machine_equiv_spec_partial :
  forall items ea s init c0, simple items = true -> 0 <= init <= slen s ->
  exists fuel, forall f, (fuel <= f)%nat ->
    match M ea s items init caps0 with
    | Some (e, _) => exists c', fst (run items ea s f 0 0 (start_state init c0)) = OMatch e c'
    | None => exists c', fst (run items ea s f 0 0 (start_state init c0)) = ONoMatch c'
    end.
Proof.
  intros items ea s init c0 Hs Hi.
  pose proof (sim items ea s items [] eq_refl Hs init (cset c0 0 (init, snd (c0 0))) [] Hi) as H.
  pose proof (Mp_M ea s items Hs init caps0) as HM.
  simpl length in H. unfold start_state.
  destruct (M ea s items init caps0) as [[e c1]|]; simpl in HM; rewrite <- HM in H.
  - destruct H as [c' [n Hn]]. exists n. intros f Hf. exists c'.
    replace f with (n + (f - n))%nat by lia. apply Hn.
  - destruct H as [c' R].
    assert (Hh : halts items ea s (tb_result items c' []) (ONoMatch c')).
    { apply halts_step. unfold tb_result, trackback, step. cbn [m_tb m_si m_pi m_caps].
      replace (nth_error items (nitems items)) with (@None item)
        by (symmetry; apply nth_error_None; unfold nitems; lia).
      reflexivity. }
    destruct (reaches_halts items ea s _ _ _ R Hh) as [n Hn].
    exists n. intros f Hf. exists c'.
    replace f with (n + (f - n))%nat by lia. apply Hn.
Qed.

(* the fragment is not empty and contains all repetition kinds and captures *)
Example simple_example :
  simple [ICapStart 1; ISingle Star 5%N; ISingle Lazy 6%N; ICapEnd 1; ICapStart 2; ISingle Plus 2%N; ISingle Opt 3%N; ISingle Once 1%N] = true.
Proof. reflexivity. Qed.

(* leftmost: Spec.find_at returns a real match at the first position that has one *)
Lemma spec_find_leftmost ea s items : forall n i st e c,
  find_at ea s items n i = Some (st, e, c) ->
  M ea s items st caps0 = Some (e, c) /\ i <= st < i + Z.of_nat n /\
  forall j, i <= j < st -> M ea s items j caps0 = None.
Proof.
  induction n as [|n IH]; intros i st e c H; simpl in H; [discriminate|].
  destruct (M ea s items i caps0) as [[e0 c1]|] eqn:E.
  - inversion H; subst. split; [assumption|]. split; [lia|]. intros j Hj. lia.
  - destruct (IH _ _ _ _ H) as (H1 & H2 & H3). split; [assumption|]. split; [lia|].
    intros j Hj. destruct (Z.eq_dec j i); [subst; assumption|]. apply H3. lia.
Qed.

(* greedy maximality for a final `cls*`: the match takes the whole run *)
Lemma spec_star_last_maximal s cls i c :
  M false s [ISingle Star cls] i c = Some (i + Z.of_nat (span cls (suffix s i)), c).
Proof.
  simpl. destruct (span cls (suffix s i)); simpl; reflexivity.
Qed.

(* lazy minimality for a final `cls-`: the match is empty *)
Lemma spec_lazy_last_minimal s cls i c : M false s [ISingle Lazy cls] i c = Some (i, c).
Proof. simpl. destruct (span cls (suffix s i)); simpl; reflexivity. Qed.
