(* Properties/C04.v — statements only.  C04: no Lua source or program can crash
   the embedding Go process; exceeding an implementation limit is a compile
   error, not a panic and not silently wrong code.

   PROVED here (model: GV.VM.Opcode = /repo/code/opcodes.go, reg.go, instructions.go;
   GV.VM.Limits = the limit sites of /repo/ircomp/compinstr.go, ircomp.go,
   /repo/code/unit_builder.go, the int16 pc of /repo/runtime/luacont.go):
     - every field of every opcode type reads back as written, within the stated ranges;
     - the register allocator never hands out a register that does not fit its field
       and fails only with a CompilationPanic (= compile error), for every history;
     - a request within a limit is encoded exactly; a request beyond ANY limit (registers,
       constants, closures, vararg/multi-result index, table-constructor fill index,
       close-stack height, function length / jump distance) is a compile error — never a Go
       panic, never a truncated opcode; in a function that passed the length check the int16
       program counter and every jump are exact.
       (Round 1 refuted this on the unrepaired code: string panics at four limits, int16
       truncation of jumps and pc; the witnesses are now corpus/C04 cases replayed first.)
   NOT a theorem (explored by child processes in lib/props/C04.py): Go stack
   exhaustion, out-of-memory, the scanner/parser/AST compiler, the VM loop and the
   standard library. *)
From Coq Require Import ZArith List Lia.
From GV Require Import VM.Opcode VM.OpcodeProofs VM.Limits VM.LimitsProofs VM.Wf VM.WfProofs VM.ParseDepth VM.ParseDepthProofs VM.ExpDepth VM.ExpDepthProofs.
Import ListNotations.
Open Scope Z_scope.

(* ---------------------------------------------------------------- encode/decode round trips *)
Theorem C04_encode_decode_roundtrip_type1 : forall a b c op,
  reg_ok a -> reg_ok b -> reg_ok c -> 0 <= op < 2^4 ->
  let w := mkType1 op a b c in
  HasType1 w = true /\ GetX w = op /\ GetA w = a /\ GetB w = b /\ GetC w = c.
Proof. exact type1_fields. Qed.
Print Assumptions C04_encode_decode_roundtrip_type1.

Theorem C04_encode_decode_roundtrip_type2 : forall f a b c,
  flag_ok f -> reg_ok a -> reg_ok b -> reg_ok c ->
  let w := mkType2 f a b c in
  HasType1 w = false /\ TypePfx w = Type2Pfx /\ GetF w = (f =? 1) /\ GetA w = a /\ GetB w = b /\ GetC w = c.
Proof. exact type2_fields. Qed.
Print Assumptions C04_encode_decode_roundtrip_type2.

Theorem C04_encode_decode_roundtrip_type3 : forall f op a n,
  flag_ok f -> 0 <= op < 2^2 -> reg_ok a -> 0 <= n < 2^16 ->
  let w := mkType3 f op a n in
  HasType1 w = false /\ TypePfx w = Type3Pfx /\ GetF w = (f =? 1) /\ GetY w = op /\ GetA w = a /\
  GetN w = n /\ GetKIndex w = n.
Proof. exact type3_fields. Qed.
Print Assumptions C04_encode_decode_roundtrip_type3.

Theorem C04_encode_decode_roundtrip_type4a : forall f op a b,
  flag_ok f -> 0 <= op < 2^8 -> reg_ok a -> reg_ok b ->
  let w := mkType4a f op a b in
  HasType1 w = false /\ TypePfx w = Type4Pfx /\ HasType4a w = true /\ GetF w = (f =? 1) /\
  GetUnOp w = op /\ GetA w = a /\ GetB w = b.
Proof. exact type4a_fields. Qed.
Print Assumptions C04_encode_decode_roundtrip_type4a.

Theorem C04_encode_decode_roundtrip_type4b : forall f op a l,
  flag_ok f -> 0 <= op < 2^8 -> reg_ok a -> 0 <= l < 2^8 ->
  let w := mkType4b f op a l in
  HasType1 w = false /\ TypePfx w = Type4Pfx /\ HasType4a w = false /\ GetF w = (f =? 1) /\
  GetUnOpK w = op /\ GetA w = a /\ GetL w = l.
Proof. exact type4b_fields. Qed.
Print Assumptions C04_encode_decode_roundtrip_type4b.

Theorem C04_encode_decode_roundtrip_type5 : forall f op a d,
  flag_ok f -> 0 <= op < 2^2 -> reg_ok a -> 0 <= d < 2^16 ->
  let w := mkType5 f op a d in
  HasType1 w = false /\ TypePfx w = Type5Pfx /\ GetF w = (f =? 1) /\ GetJ w = op /\ GetA w = a /\
  GetClStackOffset w = d /\ u16 w = d.
Proof. exact type5_fields. Qed.
Print Assumptions C04_encode_decode_roundtrip_type5.

(* the signed jump offset *)
Theorem C04_encode_decode_roundtrip_type5_offset : forall f op a d,
  flag_ok f -> 0 <= op < 2^2 -> reg_ok a -> - 2^15 <= d < 2^15 ->
  let w := mkType5 f op a (encodeDoff d) in
  HasType1 w = false /\ TypePfx w = Type5Pfx /\ GetF w = (f =? 1) /\ GetJ w = op /\ GetA w = a /\ GetOffset w = d.
Proof. exact type5_offset. Qed.
Print Assumptions C04_encode_decode_roundtrip_type5_offset.

Theorem C04_encode_decode_roundtrip_type6 : forall f a b i,
  flag_ok f -> reg_ok a -> reg_ok b -> 0 <= i < 2^8 ->
  let w := mkType6 f a b i in
  HasType1 w = false /\ TypePfx w = Type6Pfx /\ GetF w = (f =? 1) /\ GetA w = a /\ GetB w = b /\ GetM w = i.
Proof. exact type6_fields. Qed.
Print Assumptions C04_encode_decode_roundtrip_type6.

Theorem C04_encode_decode_roundtrip_type7 : forall f a b c,
  flag_ok f -> reg_ok a -> reg_ok b -> reg_ok c ->
  let w := mkType7 f a b c in
  HasType1 w = false /\ TypePfx w = Type7Pfx /\ GetF w = (f =? 1) /\ GetA w = a /\ GetB w = b /\ GetC w = c.
Proof. exact type7_fields. Qed.
Print Assumptions C04_encode_decode_roundtrip_type7.

Theorem C04_encode_decode_roundtrip_type0 : forall f a,
  flag_ok f -> reg_ok a ->
  let w := mkType0 f a in
  HasType1 w = false /\ HasType0 w = true /\ TypePfx w = Type0Pfx /\ GetF w = (f =? 1) /\ GetA w = a.
Proof. exact type0_fields. Qed.
Print Assumptions C04_encode_decode_roundtrip_type0.

(* all of the above as one statement *)
Theorem C04_encode_decode_roundtrip : encode_decode_roundtrip_statement.
Proof. exact encode_decode_roundtrip_all. Qed.
Print Assumptions C04_encode_decode_roundtrip.

(* patching a jump offset / constant index into an emitted opcode (c is ANY word) *)
Theorem C04_set_offset_roundtrip : forall c d, - 2^15 <= d < 2^15 ->
  GetOffset (SetOffset c d) = d /\
  HasType1 (SetOffset c d) = HasType1 c /\ TypePfx (SetOffset c d) = TypePfx c /\
  GetF (SetOffset c d) = GetF c /\ GetJ (SetOffset c d) = GetJ c /\ GetA (SetOffset c d) = GetA c.
Proof. exact SetOffset_fields. Qed.
Print Assumptions C04_set_offset_roundtrip.

Theorem C04_set_kindex_roundtrip : forall c i, 0 <= i < 2^16 ->
  GetKIndex (SetKIndex c i) = i /\
  HasType1 (SetKIndex c i) = HasType1 c /\ TypePfx (SetKIndex c i) = TypePfx c /\
  GetF (SetKIndex c i) = GetF c /\ GetY (SetKIndex c i) = GetY c /\ GetA (SetKIndex c i) = GetA c.
Proof. exact SetKIndex_fields. Qed.
Print Assumptions C04_set_kindex_roundtrip.

(* a limit that is handled correctly: integers are inlined iff they fit int16 (others go to the constant table) *)
Theorem C04_load_small_int_exact : forall r n, reg_ok r ->
  match LoadSmallInt r n with
  | Some w => - 2^15 <= n < 2^15 /\ GetY w = OpInt16 /\ GetA w = r /\ Lit16ToInt16 (GetN w) = n
  | None => ~ (- 2^15 <= n < 2^15)
  end.
Proof. exact LoadSmallInt_exact. Qed.
Print Assumptions C04_load_small_int_exact.

(* ---------------------------------------------------------------- limits *)
(* register allocation, every history of take/release/use requests over any set of IR registers *)
Theorem C04_registers_fit_every_history : forall isCell os,
  let '(af, rs, res) := ra_run (ra_init isCell) os in
  (length (ra_regs af) <= 255)%nat /\ (length (ra_cells af) <= 255)%nat /\
  Forall reg_ok rs /\ res <> RPanicStr.
Proof. exact ra_history_safe. Qed.
Print Assumptions C04_registers_fit_every_history.

Theorem C04_alloc_reg_limit_iff : forall regs, (length regs <= 255)%nat ->
  (allocReg regs = RPanicComp <-> all_busy regs = true /\ length regs = 255%nat).
Proof. exact allocReg_full. Qed.
Print Assumptions C04_alloc_reg_limit_iff.

(* within the limit: an opcode is emitted and it reads back as the request *)
Theorem C04_limit_in_range_encodes : forall r, req_wf r -> in_range r = true ->
  exists w, compile r = Encoded w /\ decodes_to r w.
Proof. exact limit_in_range_encodes. Qed.
Print Assumptions C04_limit_in_range_encodes.

(* beyond the limit: a compile error, for every limit *)
Theorem C04_limit_is_compile_error : forall r, req_wf r -> in_range r = false ->
  compile r = CompileError.
Proof. exact limit_is_compile_error. Qed.
Print Assumptions C04_limit_is_compile_error.

Theorem C04_compile_never_panics_nor_truncates : forall r, req_wf r ->
  compile r <> Panic /\ forall w, compile r <> Truncated w.
Proof. exact compile_never_panics_nor_truncates. Qed.
Print Assumptions C04_compile_never_panics_nor_truncates.

(* why the length check is needed: the Builder's Offset(int) conversion is unchecked, and a distance
   outside int16 would be stored as a different one *)
Theorem C04_truncated_jump_is_wrong : forall opcode from to,
  ~ (- 2^15 <= to - from < 2^15) ->
  GetOffset (SetOffset opcode (s16 (to - from))) <> to - from.
Proof. exact truncated_jump_is_wrong. Qed.
Print Assumptions C04_truncated_jump_is_wrong.

(* the program counter of the VM, in any function that passed the length check *)
Theorem C04_pc_exact : forall len pc target,
  len <= maxCodeSize -> 0 <= pc < len -> 0 <= target <= len ->
  pc_next pc = pc + 1 /\ pc_jump pc (target - pc) = target.
Proof. exact pc_exact. Qed.
Print Assumptions C04_pc_exact.

(* ---------------------------------------------------------------- static check of compiled code *)
(* In a function that passes check_code with some certificate S of reachable addresses (run by
   the harness on every unit the real compiler emits), every address the VM's int16 pc can reach lies inside the code and the opcode there
   indexes registers, cells and constants in range: no Go index panic from the code itself. *)
Theorem C04_check_code_sound : forall f S, check_code f S = true ->
  forall pc, reach f pc -> marked S pc = true /\ 0 <= pc < len f /\ safe_at f pc.
Proof. exact check_code_sound. Qed.
Print Assumptions C04_check_code_sound.

(* ---------------------------------------------------------------- parser recursion *)
(* Model: VM/ParseDepth.v, the recursion skeleton of /repo/parsing/parser.go with the nesting
   limit.  For every token sequence, of any length and nesting, parsing a chunk has at most
   maxNestingDepth + 1 nested ShortExp/Stat frames; deeper input is a syntax error (Example
   deep_input_is_syntax_error; the boundary is compared with the real parser on every run). *)
Theorem C04_parser_recursion_depth_bounded : forall fuel ts,
  (frames_of (parseChunk fuel ts) <= S maxNestingDepth)%nat.
Proof. exact recursion_depth_bounded. Qed.
Print Assumptions C04_parser_recursion_depth_bounded.

(* ---------------------------------------------------------------- AST compiler recursion *)
(* Model: VM/ExpDepth.v, the recursion skeleton of astcomp's expression dispatch with the round-3
   depth counter.  The parser's loops build expression trees of unlimited depth (f()()()..., a.b.b...,
   x .. y .. z ...); for every tree the compiler has at most maxExpDepth + 1 nested CompileExp frames. *)
Theorem C04_astcomp_recursion_depth_bounded : forall e d, (d <= maxExpDepth)%nat ->
  (cframes (compileExp e d) <= S maxExpDepth)%nat.
Proof. exact exp_depth_bounded. Qed.
Print Assumptions C04_astcomp_recursion_depth_bounded.
