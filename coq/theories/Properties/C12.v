(* Properties/C12.v — statements only.  C12: the front end accepts Lua 5.4
   syntax and decodes it faithfully.
   Models: GV.Front.Token/Parse (mirror of parsing/parser.go Exp/ShortExp/
   PrefixExp/Args/ExpList/TableConstructor/Field, ops/ops.go, ast/binopexp.go),
   GV.Front.Print (printer inserting exactly the parentheses the precedence
   table requires; denotation [norm] of spellings), GV.Front.Lex (literal
   denotations), GV.Front.LexStr (string literal denotations).  [parse] is the
   extracted function, fuel 8*|ts|+8. *)
From Coq Require Import NArith ZArith List.
From GV Require Import Front.Token Front.Parse Front.Print Front.Proofs Front.RoundTrip Front.RoundTripMain Front.Exact Front.Mono Front.ErrPos Front.Stat Front.StatPrint Front.StatRoundTrip Front.StatRoundTripCor Front.StatNorm Front.StatRoundTripNorm Front.StatTotal Front.StatMono Front.Lex Front.LexProofs Front.LexStr Front.LexStrProofs.
Import ListNotations.

(* parse ∘ print: for EVERY expression tree over all 21 binary and 4 unary
   operators, calls, method calls, indexing, table constructors, with any
   redundant parentheses / alternative spellings, the parser returns the
   tree's denotation.  This is precedence and associativity of every operator
   pair in every nesting at once. *)
Theorem C12_parse_print : forall e, parse (print e) = Ok (norm e).
Proof. exact parse_print. Qed.
Print Assumptions C12_parse_print.

(* [parse] (fuel 8*|ts|+8, the extracted function) never runs out of fuel *)
Theorem C12_parse_total : forall ts, parse ts <> OutOfFuel.
Proof. exact parse_total. Qed.
Print Assumptions C12_parse_total.

(* with the minimal parentheses only: the tree itself comes back *)
Theorem C12_parse_print_min : forall e, plain e = true -> parse (print e) = Ok e.
Proof. exact parse_print_min. Qed.
Print Assumptions C12_parse_print_min.

(* the hypothesis is satisfiable, on a tree that needs parentheses *)
Example C12_plain_example :
  plain (EBin OpMul (EBin OpAdd (EName 1) (EName 2)) (EUn OpNeg (EBin OpPow (EName 3) (EUn OpNeg (EName 1))))) = true
  /\ parse (print (EBin OpMul (EBin OpAdd (EName 1) (EName 2)) (EUn OpNeg (EBin OpPow (EName 3) (EUn OpNeg (EName 1))))))
     = Ok (EBin OpMul (EBin OpAdd (EName 1) (EName 2)) (EUn OpNeg (EBin OpPow (EName 3) (EUn OpNeg (EName 1))))).
Proof. split; vm_compute; reflexivity. Qed.

(* error position: a token that cannot continue an expression, after a
   complete expression, is the token at which the error is reported *)
Theorem C12_error_at_first_extra_token :
  forall e t junk, suffix_tok t = false -> binop_of t = None ->
  parse (print e ++ t :: junk) = Err (t :: junk).
Proof. exact error_at_extra_token. Qed.
Print Assumptions C12_error_at_first_extra_token.

(* whenever [parse] reports an error, it reports it AT a token of the input
   (or its end): the offending token is determined, hence so is its line *)
Theorem C12_first_error_token_line :
  forall ts rest, parse ts = Err rest -> exists pre, ts = pre ++ rest.
Proof. exact first_error_token. Qed.
Print Assumptions C12_first_error_token_line.

(* ast.NewBinOp's same-precedence list merging loses nothing: the merged node
   denotes the left-nested binary tree (what the harness compares). *)
Theorem C12_unflatten_new_binop : forall l op r,
  unflatten (new_binop l op r) = EBin op (unflatten l) (unflatten r).
Proof. exact unflatten_new_binop. Qed.
Print Assumptions C12_unflatten_new_binop.

(* multi-valued expressions (manual §3.4.12): parentheses are kept around calls … *)
Theorem C12_paren_kept_call : forall f m b args,
  norm (EParen (ECall f m b args)) = EParen (norm (ECall f m b args)).
Proof. exact paren_kept_call. Qed.
Print Assumptions C12_paren_kept_call.

(* … and around '...' (repaired PrefixExp: ast.UnOp{OpId, Etc}) … *)
Theorem C12_paren_kept_etc : norm (EParen EEtc) = EParen EEtc.
Proof. exact paren_kept_etc. Qed.
Print Assumptions C12_paren_kept_etc.

(* … and dropped exactly around the single-valued expressions *)
Theorem C12_paren_only_truncates_multivalue : forall e,
  norm (EParen e) = norm e <-> multi_valued (norm e) = false.
Proof. exact paren_only_truncates_multivalue. Qed.
Print Assumptions C12_paren_only_truncates_multivalue.

(* ---- numerals (manual §3.1 vs ast.NewNumber, integer branch) *)
(* hexadecimal integer numerals of any length wrap around modulo 2^64 *)
Theorem C12_numeral_denotation_hex : forall ds, go_hex ds = s_hex ds.
Proof. exact go_hex_correct. Qed.
Print Assumptions C12_numeral_denotation_hex.

(* decimal integer numerals: an integer if it fits int64, else a float
   (ast.NewNumber as repaired: ParseInt, then ParseFloat) *)
Theorem C12_numeral_denotation_dec : forall ds, go_dec ds = s_dec ds.
Proof. exact go_dec_correct. Qed.
Print Assumptions C12_numeral_denotation_dec.

(* ---- string literals (manual §3.1) *)
(* every byte string has a spelling with escapes, and it denotes the string *)
Theorem C12_unescape_quote_roundtrip :
  forall s, Forall (fun b => (b < 256)%N) s -> unescape (quote s) = Some s.
Proof. exact unescape_quote_roundtrip. Qed.
Print Assumptions C12_unescape_quote_roundtrip.

(* a long bracket of any level with any contents — the empty one included —
   denotes its contents, line ends normalised, a first line end skipped *)
Theorem C12_long_bracket_denotation : forall level c,
  long_denot (long_open level ++ c ++ long_close level) = skip_first_nl (normalize_nl c).
Proof. exact long_bracket_denotation. Qed.
Print Assumptions C12_long_bracket_denotation.

(* ---- statements (Front/Stat.v: Block, Return, Stat, If, For, Local, FunctionStat,
   FunctionDef, NameAttrib, assignment and call statements) *)
(* print a chunk, parse it: the same chunk — for every block over all statement
   forms (local with attribs, assignment, call statement, do, while, repeat,
   if/elseif/else, numeric and generic for, function / method / local function
   definitions with their bodies, return, break, goto, labels), provided the
   grammar's side conditions [wf_block] hold (see StatPrint.v).
   _partial: 'function' EXPRESSIONS inside expressions are not in the model's
   expression type (function bodies are reached through function statements). *)
Theorem C12_parse_chunk_print_partial :
  forall b, wf_block b = true -> parse_chunk (print_chunk b) = Ok b.
Proof. exact parse_chunk_print. Qed.
Print Assumptions C12_parse_chunk_print_partial.

(* the hypothesis is satisfiable, on a chunk with nested bodies *)
Example C12_wf_example :
  wf_block (BCons (SLocal [(1%N, AConst)] [ENum 1])
           (BCons (SFunction [2%N; 3%N] (Some 4%N) [5%N] true
                     (BCons (SIf (EName 5) (BNil (Some [EEtc])) (IElse (BNil None))) (BNil None)))
           (BNil (Some [ECall (EName 2) None false []])))) = true.
Proof. reflexivity. Qed.

(* [parse_chunk] (block-nesting fuel 2*|ts|+4, expression fuel 8*|ts|+8) never runs out of fuel … *)
Theorem C12_parse_chunk_total : forall ts, parse_chunk ts <> OutOfFuel.
Proof. exact parse_chunk_total. Qed.
Print Assumptions C12_parse_chunk_total.

(* … more fuel never changes an answer … *)
Theorem C12_parse_chunk_fuel_mono : forall (n m : nat) ts, (n <= m)%nat ->
  le_res (parse_chunk_fuel n ts) (parse_chunk_fuel m ts).
Proof. exact parse_chunk_fuel_mono. Qed.
Print Assumptions C12_parse_chunk_fuel_mono.

(* … and a syntax error in a chunk is reported at a token of the chunk (or its end) *)
Theorem C12_chunk_first_error_token_line :
  forall ts rest, parse_chunk ts = Err rest -> exists pre, ts = pre ++ rest.
Proof. exact chunk_first_error_token. Qed.
Print Assumptions C12_chunk_first_error_token_line.

(* ---- what is outside the manual's grammar is rejected at the offending token (round 6: the model mirrors the
   repaired Parser.prefixExp / Field / FunctionDef); re-evaluated by the kernel on the witnesses *)
Example C12_round6_rejections :
  (* (a) = 1 : a parenthesised variable is not a variable *)
  parse_chunk [TLParen; TName 1; TRParen; TAssign; TNum 1] = Err [TAssign; TNum 1]
  (* a, (b) = 1, 2 *)
  /\ parse_chunk [TName 1; TComma; TLParen; TName 2; TRParen; TAssign; TNum 1; TComma; TNum 2]
     = Err [TAssign; TNum 1; TComma; TNum 2]
  (* (a).b = 1 is an assignment *)
  /\ parse_chunk [TLParen; TName 1; TRParen; TDot; TName 2; TAssign; TNum 1]
     = Ok (BCons (SAssign [EIndex (EName 1) (EStr 2)] [ENum 1]) (BNil None))
  (* {(a) = 1} : the key of  Name '=' exp  is a name token *)
  /\ parse [TLBrace; TLParen; TName 1; TRParen; TAssign; TNum 1; TRBrace] = Err [TAssign; TNum 1; TRBrace]
  (* function f(a,) end : a comma in a parameter list is followed by a name or '...' *)
  /\ parse_chunk [TFunction; TName 1; TLParen; TName 2; TComma; TRParen; TEnd] = Err [TRParen; TEnd].
Proof. repeat split; vm_compute; reflexivity. Qed.

(* ---- round 8: statements in context, unambiguity, statements with expression spellings *)
(* one statement printed in front of anything that may follow a statement, parsed by
   the statement parser at ANY nesting fuel >= 2*|tokens|+1: that statement, and the
   rest is left.  Covers every constructor of [stat] (';' break goto label do while
   repeat if/elseif/else numeric-for generic-for local(+attribs) assignment call
   function / method / local function).  _partial as C12_parse_chunk_print_partial:
   no 'function' EXPRESSIONS inside expressions. *)
Theorem C12_stat_print_parse_partial : forall s, wf_stat s = true -> forall n rest,
  (2 * length (pr_stat s) + 1 <= n)%nat -> follow rest ->
  r_stat (sparsers_at n) (pr_stat s ++ rest) = Ok (s, rest).
Proof. exact stat_print_parse. Qed.
Print Assumptions C12_stat_print_parse_partial.

(* a block printed in front of a block terminator (end/else/elseif/until/EOF), any fuel >= 2*|tokens|+2 *)
Theorem C12_block_print_parse_partial : forall b, wf_block b = true -> forall n rest,
  (2 * length (pr_block b) + 2 <= n)%nat -> block_stop rest ->
  r_block (sparsers_at n) (pr_block b ++ rest) = Ok (b, rest).
Proof. exact block_print_parse. Qed.
Print Assumptions C12_block_print_parse_partial.

(* the hypotheses are satisfiable: a while statement followed by 'end' *)
Example C12_stat_context_example :
  wf_stat (SWhile ETrue (BCons SBreak (BNil None))) = true /\ follow [TEnd] /\ block_stop [TEnd].
Proof. repeat split. Qed.

(* the concrete syntax is unambiguous: two well-formed chunks with the same tokens are the same chunk *)
Theorem C12_print_chunk_injective_partial : forall b1 b2, wf_block b1 = true -> wf_block b2 = true ->
  print_chunk b1 = print_chunk b2 -> b1 = b2.
Proof. exact print_chunk_injective. Qed.
Print Assumptions C12_print_chunk_injective_partial.

(* statements whose expressions carry ANY spelling (a.k, f"s", f{...}, o:m"s", redundant
   parentheses, long strings, Name= fields, ';' separators ...): the parser returns the
   chunk with every expression replaced by its denotation.  [sp_block] (StatNorm.v) keeps
   only the grammar's side conditions: assignment targets denote variables, call
   statements denote calls, both begin with a name; non-empty lists.  _partial: no
   'function' expressions inside expressions. *)
Theorem C12_parse_chunk_print_spellings_partial :
  forall b, sp_block b = true -> parse_chunk (print_chunk b) = Ok (norm_block b).
Proof. exact parse_chunk_print_norm. Qed.
Print Assumptions C12_parse_chunk_print_spellings_partial.

(* satisfiable on a chunk outside [wf_block]:  v1.k2 = v3 [[s4]] ; v3:k5 {} ; return (v1) *)
Example C12_sp_example :
  let b := BCons (SAssign [EDot (EName 1) 2] [ECall (EName 3) None true [ELStr 4]])
          (BCons (SCall (ECall (EName 3) (Some 5%N) true [ETable [] false]))
          (BNil (Some [EParen (EName 1)]))) in
  sp_block b = true /\ wf_block b = false /\ norm_block b = BCons (SAssign [EIndex (EName 1) (EStr 2)] [ECall (EName 3) None false [EStr 4]])
                (BCons (SCall (ECall (EName 3) (Some 5%N) false [ETable [] false]))
                (BNil (Some [EName 1]))).
Proof. repeat split. Qed.
