(* Properties/C12.v — statements only.  C12: the front end accepts Lua 5.4
   syntax and decodes it faithfully.
   Models: GV.Front.Token/Parse (mirror of parsing/parser.go, ops/ops.go,
   ast/binopexp.go), GV.Front.Print (printer with the parentheses the grammar
   requires; denotation of spellings). *)
From Coq Require Import NArith List.
From GV Require Import Front.Token Front.Parse Front.Print Front.Proofs.
Import ListNotations.

(* ast.NewBinOp's same-precedence list merging loses nothing: the merged node
   denotes the left-nested binary tree (what the harness compares). *)
Theorem C12_unflatten_new_binop : forall l op r,
  unflatten (new_binop l op r) = EBin op (unflatten l) (unflatten r).
Proof. exact unflatten_new_binop. Qed.
Print Assumptions C12_unflatten_new_binop.
