(* Properties/C12.v — statements only.  C12: the front end accepts Lua 5.4
   syntax and decodes it faithfully.
   Models: GV.Front.Token/Parse (mirror of parsing/parser.go Exp/ShortExp/
   PrefixExp/Args/ExpList/TableConstructor/Field, ops/ops.go, ast/binopexp.go),
   GV.Front.Print (printer inserting exactly the parentheses the precedence
   table requires; denotation [norm] of spellings), GV.Front.Lex (literal
   denotations).  "evals F R" = F f = R for every sufficiently large fuel f. *)
From Coq Require Import NArith ZArith List.
From GV Require Import Front.Token Front.Parse Front.Print Front.Proofs Front.RoundTrip Front.RoundTripMain Front.Lex Front.LexProofs.
Import ListNotations.

(* parse ∘ print: for EVERY expression tree over all 21 binary and 4 unary
   operators, calls, method calls, indexing, table constructors, with any
   redundant parentheses / alternative spellings, the parser returns the
   tree's denotation.  This is precedence and associativity of every operator
   pair in every nesting at once. *)
Theorem C12_parse_print :
  forall e, evals (fun fuel => parse_fuel fuel (print e)) (Ok (norm e)).
Proof. exact parse_print_evals. Qed.
Print Assumptions C12_parse_print.

(* with the minimal parentheses only: the tree itself comes back *)
Theorem C12_parse_print_min :
  forall e, plain e = true -> evals (fun fuel => parse_fuel fuel (print e)) (Ok e).
Proof. exact parse_print_min_evals. Qed.
Print Assumptions C12_parse_print_min.

(* the hypothesis is satisfiable, on a tree that needs parentheses *)
Example C12_plain_example :
  plain (EBin OpMul (EBin OpAdd (EName 1) (EName 2)) (EUn OpNeg (EBin OpPow (EName 3) (EUn OpNeg (EName 1))))) = true
  /\ parse (print (EBin OpMul (EBin OpAdd (EName 1) (EName 2)) (EUn OpNeg (EBin OpPow (EName 3) (EUn OpNeg (EName 1))))))
     = Ok (EBin OpMul (EBin OpAdd (EName 1) (EName 2)) (EUn OpNeg (EBin OpPow (EName 3) (EUn OpNeg (EName 1))))).
Proof. split; vm_compute; reflexivity. Qed.

(* error position: a token that cannot continue an expression, after a
   complete expression, is the token at which the error is reported *)
Theorem C12_error_at_first_extra_token :
  forall e t junk, suffix_tok t = false -> binop_of t = None ->
  evals (fun fuel => parse_fuel fuel (print e ++ t :: junk)) (Err (t :: junk)).
Proof. exact error_at_extra_token_evals. Qed.
Print Assumptions C12_error_at_first_extra_token.

(* ast.NewBinOp's same-precedence list merging loses nothing: the merged node
   denotes the left-nested binary tree (what the harness compares). *)
Theorem C12_unflatten_new_binop : forall l op r,
  unflatten (new_binop l op r) = EBin op (unflatten l) (unflatten r).
Proof. exact unflatten_new_binop. Qed.
Print Assumptions C12_unflatten_new_binop.

(* multi-valued expressions: parentheses are kept around calls … *)
Theorem C12_paren_kept_call : forall f m b args,
  norm (EParen (ECall f m b args)) = EParen (norm (ECall f m b args)).
Proof. exact paren_kept_call. Qed.
Print Assumptions C12_paren_kept_call.

(* … dropped around single-valued expressions … *)
Theorem C12_paren_dropped_single_valued : forall e,
  multi_valued (norm e) = false -> norm (EParen e) = norm e.
Proof. exact paren_dropped_single_valued. Qed.
Print Assumptions C12_paren_dropped_single_valued.

(* … and, of the code as it stands, also dropped around '...' (defect
   C12-paren-vararg; replayed on the Go code by the check) *)
Theorem C12_paren_only_truncates_multivalue_refuted :
  exists e, multi_valued (norm e) = true /\ norm (EParen e) = norm e.
Proof. exact paren_only_truncates_multivalue_refuted. Qed.
Print Assumptions C12_paren_only_truncates_multivalue_refuted.

Theorem C12_paren_only_truncates_multivalue_partial : forall e,
  norm e <> EEtc -> (norm (EParen e) = norm e <-> multi_valued (norm e) = false).
Proof. exact paren_only_truncates_multivalue_partial. Qed.
Print Assumptions C12_paren_only_truncates_multivalue_partial.

(* ---- numerals (manual §3.1 vs ast.NewNumber, integer branch) *)
(* hexadecimal integer numerals of any length wrap around modulo 2^64 *)
Theorem C12_numeral_denotation_hex : forall ds, go_hex ds = s_hex ds.
Proof. exact go_hex_correct. Qed.
Print Assumptions C12_numeral_denotation_hex.

(* decimal integer numerals: an integer if it fits, else a float — true of the
   code below 2^63 and from 2^64 on … *)
Theorem C12_numeral_denotation_dec_partial : forall ds, digits_ok 10 ds ->
  let n := digits_val 10 ds 0 in (n < 2 ^ 63 \/ 2 ^ 64 <= n)%Z -> go_dec ds = s_dec ds.
Proof. exact go_dec_partial. Qed.
Print Assumptions C12_numeral_denotation_dec_partial.

(* … and false in between (defect C12-decimal-overflow-integer, witness
   9223372036854775808; replayed on the Go code by the check) *)
Theorem C12_numeral_denotation_dec_refuted : exists ds, digits_ok 10 ds /\ go_dec ds <> s_dec ds.
Proof. exact go_dec_refuted. Qed.
Print Assumptions C12_numeral_denotation_dec_refuted.
