(* Properties/C09.v — statements only.  C09: coroutines — exact value transfer, legal status
   transitions, one thread at a time, no deadlock, no goroutine left behind.
   Model: GV.Thread.Proto (the hand-off protocol of runtime/thread.go as an interleaving
   small-step semantics over atomic actions; [reachable cf s] = s is reached from [init] by some
   sequence of actions, any number of threads, any interleaving).  [current] is the code as it
   stands (ReleaseBytes before the hand-off send since fix eafa506; end runs the pending __close
   handlers first, as an ordinary running thread with its caller detached, before the locked
   section; a termination raised by a handler is forwarded), [old_order] the code before eafa506,
   [old_handlers] the code before the handler repair (handlers run inside the locked section). *)
From Coq Require Import List Bool Arith.
From GV Require Import Thread.Proto Thread.Inv Thread.Preserve Thread.Refute Thread.Full Thread.NoDeadlock.
From GV Require Import Thread.CloseErr Thread.SpecS Thread.SpecSProofs.
From Coq Require Import ZArith.
Import ListNotations.

(* One goroutine at a time: at most one goroutine is active (not blocked in a receive, not
   terminated, not in the post-send tail of end) in every reachable state, one exists unless the
   process died, and every goroutine whose next action reads or writes shared runtime state is the
   active one: no two goroutines ever have a runtime access enabled together (race freedom of the
   modelled accesses).  Holds for every configuration that releases before the send. *)
Theorem C09_baton_unique : forall cf s, rel_after_send cf = false -> reachable cf s ->
  (forall g h, active (pc s g) = true -> active (pc s h) = true -> g = h) /\
  (exists g, active (pc s g) = true \/ pc s g = Panicked) /\
  (forall g h, accessing (pc s g) = true -> accessing (pc s h) = true -> g = h) /\
  (forall g, accessing (pc s g) = true -> active (pc s g) = true).
Proof. exact baton_unique. Qed.
Print Assumptions C09_baton_unique.

Theorem C09_baton_unique_current : forall s, reachable current s ->
  forall g h, accessing (pc s g) = true -> accessing (pc s h) = true -> g = h.
Proof. intros s R. exact (proj1 (proj2 (proj2 (baton_unique current s eq_refl R)))). Qed.
Print Assumptions C09_baton_unique_current.

(* Regression witness: with ReleaseBytes after the send (the code before eafa506) a reachable state
   has two different goroutines about to touch the runtime, one of them not the baton holder. *)
Theorem C09_baton_unique_old_order_refuted :
  exists s g h, reachable old_order s /\ g <> h /\
    accessing (pc s g) = true /\ accessing (pc s h) = true /\ active (pc s h) = false.
Proof. exact baton_unique_old_order_refuted. Qed.
Print Assumptions C09_baton_unique_old_order_refuted.

(* NO DEADLOCK on the code as it stands: in every reachable state of the interleaving semantics (any
   number of threads, any schedule, handlers of end resuming/closing/creating coroutines or trying
   to yield) some action is enabled unless the main thread has finished: control always comes back. *)
Theorem C09_no_deadlock : forall s, reachable current s -> main_done s = false ->
  exists a s', step current s a = Some s'.
Proof. exact (fun s => no_deadlock current s eq_refl). Qed.
Print Assumptions C09_no_deadlock.

(* ... for every configuration that runs the handlers before the locked section *)
Theorem C09_no_deadlock_general : forall cf s, handlers_locked cf = false -> reachable cf s ->
  main_done s = false -> exists a s', step cf s a = Some s'.
Proof. exact no_deadlock. Qed.
Print Assumptions C09_no_deadlock_general.

(* No Go panic / fatal error is reachable: every Unlock is of a held mutex, the status checks of
   Resume/Close/Yield/end never fail, nobody sends on a closed channel, end always has a caller. *)
Theorem C09_no_panic : forall s h, reachable current s -> pc s h <> Panicked.
Proof. exact (fun s h => no_panic current s h eq_refl). Qed.
Print Assumptions C09_no_panic.

(* Only a Suspended thread is ever resumed/closed: at the status write R4 the target is still
   Suspended and blocked in its receive (the test at R2 is stable), and is not the resumer itself. *)
Theorem C09_resume_only_suspended : forall s g k t v, reachable current s -> pc s g = R4 k t v ->
  status (th s t) = Suspended /\ waiting (pc s t) = true /\ t <> g.
Proof. exact (fun s g k t v => resume_only_suspended current s g k t v eq_refl). Qed.
Print Assumptions C09_resume_only_suspended.

(* A mutex is held exactly by the goroutine whose pc says so: by the active goroutine, or by a
   goroutine in the (non-blocking) tail of end. *)
Theorem C09_mutex_table : forall s u h, reachable current s ->
  (mux (th s u) = Some h <-> holds2 (pc s h) h u = true).
Proof. exact (fun s u h => mutex_table current s u h eq_refl). Qed.
Print Assumptions C09_mutex_table.

(* Regression witness: with the handlers run inside the locked section of end (the code before the
   handler repair) a reachable state has main not finished, nobody panicked and no action at all
   enabled (the handler resumes a coroutine while end holds the mutex Resume needs). *)
Theorem C09_no_deadlock_old_handlers_refuted :
  exists s, reachable old_handlers s /\ main_done s = false /\ (forall h, pc s h <> Panicked) /\
    forall a, step old_handlers s a = None.
Proof. exact no_deadlock_old_handlers_refuted. Qed.
Print Assumptions C09_no_deadlock_old_handlers_refuted.

(* A dead coroutine's goroutine is past the status write of end — in the remaining straight-line
   section of end or terminated — and never again blocked waiting for a resume. *)
Theorem C09_no_goroutine_left : forall cf s h, reachable cf s -> status (th s h) = Dead ->
  in_end (pc s h) = true /\ waiting (pc s h) = false.
Proof. exact no_goroutine_left. Qed.
Print Assumptions C09_no_goroutine_left.

(* Legal status transitions: one action changes a thread's status only by R4 (a resumer/closer
   makes its target OK), Y4 (the yielding thread suspends itself), E4 (the ending thread becomes
   Dead) or creation (Suspended). *)
Theorem C09_status_table : forall cf s a s' t, step cf s a = Some s' ->
  status (th s' t) = status (th s t) \/
  (exists k v, pc s (who a) = R4 k t v /\ status (th s' t) = OK) \/
  (exists c v, pc s (who a) = Y4 c v /\ t = who a /\ status (th s' t) = Suspended) \/
  (exists c m, pc s (who a) = E4 c m /\ t = who a /\ status (th s' t) = Dead) \/
  (pc s (who a) = Lua /\ t = n s /\ n s' = S (n s) /\ status (th s' t) = Suspended).
Proof. exact status_table. Qed.
Print Assumptions C09_status_table.

(* Only a Suspended thread can be resumed or closed; for self/normal/dead targets the operation
   returns to Lua (with an error) and changes no status, caller or channel. *)
Theorem C09_resume_guard : forall cf s g l s' k t v, pc s g = R2 k t v -> step cf s (mkAct g l) = Some s' ->
  (status (th s t) = Suspended /\ pc s' g = R3 k t v /\ th s' = th s) \/
  (status (th s t) <> Suspended /\ (pc s' g = Lua \/ pc s' g = Panicked) /\
   forall h, status (th s' h) = status (th s h) /\ caller (th s' h) = caller (th s h) /\
             closed (th s' h) = closed (th s h)).
Proof. exact resume_guard. Qed.
Print Assumptions C09_resume_guard.

(* Exact transfer: a rendezvous delivers the sender's message unchanged to exactly the thread the
   operation names, which was blocked in its receive; nobody else moves; no thread field changes. *)
Theorem C09_values_transferred_exactly : forall cf s g s', step cf s (mkAct g LRdv) = Some s' ->
  pc s' g <> Panicked ->
  exists r, (sends_to (pc s g) = Some (inr r) \/ exists m, sends_to (pc s g) = Some (inl (r, m))) /\
    r <> g /\ waiting (pc s r) = true /\ waiting (pc s' r) = false /\
    (forall m, sends_to (pc s g) = Some (inl (r, m)) ->
       pc s' r = match m with MTerm => after_recv r MTerm | _ => Lua end) /\
    (sends_to (pc s g) = Some (inr r) -> pc s' r = E0 (MVal 0)) /\
    (forall h, h <> g -> h <> r -> pc s' h = pc s h) /\ th s' = th s.
Proof. exact values_transferred_exactly. Qed.
Print Assumptions C09_values_transferred_exactly.

(* ---- the state a DEAD coroutine keeps (what a later coroutine.close reports) *)

(* protocol: the error recorded by end (closeErr) is, at the hand-off send, the error status of the very
   message being delivered — it is recorded after the handler phase, not before *)
Theorem C09_closeErr_is_delivered : forall cf s h c m, reachable cf s -> pc s h = E7 c m ->
  closeErr (th s h) = is_err m.
Proof. exact closeErr_is_delivered. Qed.
Print Assumptions C09_closeErr_is_delivered.

(* ... it is written only by the thread's own goroutine at E6, and frozen from then on *)
Theorem C09_closeErr_written_once : forall cf s a s' h, step cf s a = Some s' -> h < n s ->
  closeErr (th s' h) <> closeErr (th s h) -> h = who a /\ exists c m, pc s h = E6 c m.
Proof. exact closeErr_written_once. Qed.
Print Assumptions C09_closeErr_written_once.

Theorem C09_closeErr_frozen : forall cf s a s' h, step cf s a = Some s' -> h < n s ->
  past_record (pc s h) = true ->
  past_record (pc s' h) = true /\ closeErr (th s' h) = closeErr (th s h).
Proof. exact closeErr_frozen. Qed.
Print Assumptions C09_closeErr_frozen.

(* sequential semantics S (the oracle of the script correspondence): the error delivered when a
   coroutine dies is the error it keeps; a failing to-be-closed handler's error replaces the body's;
   close on a dead coroutine reports the kept error and is idempotent; resume of a dead coroutine fails *)
Theorem C09_S_die_keeps_delivered_error : forall s id e s' e', id < length (cos s) ->
  die s id e = (s', e') -> cs (get_co s' id) = CDead e'.
Proof. exact die_keeps_delivered_error. Qed.
Print Assumptions C09_S_die_keeps_delivered_error.

Theorem C09_S_die_final_error : forall s id e,
  snd (die s id e) =
  if has_tbc s && started (get_co s id) && handler_fails s id then Some (handler_err id) else e.
Proof. exact die_final_error. Qed.
Print Assumptions C09_S_die_final_error.

Theorem C09_S_close_dead_idempotent : forall s k1 k2 i id e s1,
  slot_of s i = Some id -> has_handle (get_co s id) = true -> cs (get_co s id) = CDead e ->
  do_close s k1 i = Going s1 ->
  slot_of s1 i = Some id /\ has_handle (get_co s1 id) = true /\ cs (get_co s1 id) = CDead e /\
  exists ev, do_close s1 k2 i = Going (emitev s1 ev) /\
             tl (tl ev) = tl (tl (hd [] (evs s1))).
Proof. exact close_dead_idempotent. Qed.
Print Assumptions C09_S_close_dead_idempotent.

Theorem C09_S_resume_dead_fails : forall s k prot i id e vs,
  slot_of s i = Some id -> cs (get_co s id) = CDead e ->
  do_resume s k prot i vs = fail_resume s (mk_how prot (ck (get_co s id)) k) (VMsg 0).
Proof. exact resume_dead_fails. Qed.
Print Assumptions C09_S_resume_dead_fails.

(* Non-vacuity / acceptor sanity: a full resume-return cycle is a behaviour of [current] and not of
   [old_order]; the old-order cycle is rejected by [current]. *)
Theorem C09_acceptor_examples :
  accepts current fixed_trace = true /\ accepts old_order fixed_trace = false /\
  accepts current race_trace = false /\ accepts current deadlock_trace = false /\
  accepts old_handlers deadlock_trace = true /\ accepts current handler_resume_trace = true.
Proof. vm_compute. repeat split. Qed.
Print Assumptions C09_acceptor_examples.

(* ================= Round 8: the full invariant over whole runs (Thread/Runs.v) ================= *)
From GV Require Import Thread.Runs.

(* The full invariant (baton + Inv2 of Thread/Full.v: bounds, main OK, mutex-holder table, caller links,
   handler phase, per-pc assertions) is preserved by every action of the code as it stands ... *)
Theorem C09_inv_step : forall s a s', Baton s /\ Inv2 s -> step current s a = Some s' -> Baton s' /\ Inv2 s'.
Proof. exact (fun s a s' => fullinv_step current s a s' eq_refl). Qed.
Print Assumptions C09_inv_step.

(* ... hence by every schedule, from any state satisfying it ... *)
Theorem C09_inv_run : forall tr s s', Baton s /\ Inv2 s -> run current s tr = Some s' -> Baton s' /\ Inv2 s'.
Proof. exact (fun tr s s' => fullinv_run current tr s s' eq_refl). Qed.
Print Assumptions C09_inv_run.

(* ... and it holds in every reachable state (induction over schedules from [init]). *)
Theorem C09_inv_reachable : forall s, reachable current s -> Baton s /\ Inv2 s.
Proof. exact (fun s => fullinv_reachable current s eq_refl). Qed.
Print Assumptions C09_inv_reachable.

(* The round-1 invariant [Inv] of Thread/Inv.v (old order of end: caller attached while locking) is NOT
   an invariant of the code as it stands — which is why the proofs are about [Inv2]. *)
Theorem C09_inv_round1_refuted_current : exists s, reachable current s /\ ~ Inv s.
Proof. exact inv_round1_refuted_current. Qed.
Print Assumptions C09_inv_round1_refuted_current.

(* LEGAL STATUS TRANSITIONS over whole runs (strengthens C09_status_table from one step to reachable
   states): the status of an existing thread changes only Suspended -> OK (by another goroutine at the
   status write R4 of Resume/Close, the target being blocked in its receive), OK -> Suspended (by the
   thread itself, Yield at Y4) or OK -> Dead (by the thread itself, end at E4). *)
Theorem C09_status_transitions_legal : forall s a s' t,
  reachable current s -> step current s a = Some s' -> t < n s -> status (th s' t) <> status (th s t) ->
  (status (th s t) = Suspended /\ status (th s' t) = OK /\ t <> who a /\ waiting (pc s t) = true /\
     exists k v, pc s (who a) = R4 k t v) \/
  (status (th s t) = OK /\ status (th s' t) = Suspended /\ t = who a /\ exists c v, pc s t = Y4 c v) \/
  (status (th s t) = OK /\ status (th s' t) = Dead /\ t = who a /\ exists c m, pc s t = E4 c m).
Proof. exact (fun s a s' t => status_transitions_legal current s a s' t eq_refl). Qed.
Print Assumptions C09_status_transitions_legal.

(* Dead is final along every run. *)
Theorem C09_dead_forever : forall tr s s' t, reachable current s -> t < n s -> status (th s t) = Dead ->
  run current s tr = Some s' -> status (th s' t) = Dead /\ t < n s'.
Proof. exact (fun tr s s' t => dead_forever current tr s s' t eq_refl). Qed.
Print Assumptions C09_dead_forever.

(* Stability of the Resume/Close guard from the status test to the handover: between the test and the
   status write the target stays Suspended, blocked in its receive, channel open; from the write to the
   send it stays OK with the resumer as its caller, still blocked in its receive, channel open. *)
Theorem C09_resume_target_stable : forall s g, reachable current s ->
  (forall k t v, pc s g = R3 k t v \/ pc s g = R4 k t v ->
     status (th s t) = Suspended /\ waiting (pc s t) = true /\ t <> g /\ closed (th s t) = false) /\
  (forall k t v, pc s g = R5 k t v \/ pc s g = R6 k t v \/ pc s g = R7 k t v ->
     status (th s t) = OK /\ caller (th s t) = Some g /\ waiting (pc s t) = true /\ t <> g /\
     closed (th s t) = false).
Proof. exact (fun s g => resume_target_stable current s g eq_refl). Qed.
Print Assumptions C09_resume_target_stable.

(* A hand-off send (Resume/Close R7, Yield Y7, end E7) never blocks and never panics: in every reachable
   state the rendezvous is enabled. *)
Theorem C09_sends_never_block : forall s g, reachable current s -> sends_to (pc s g) <> None ->
  exists s', step current s (mkAct g LRdv) = Some s' /\ pc s' g <> Panicked.
Proof. exact (fun s g => sends_never_block current s g eq_refl). Qed.
Print Assumptions C09_sends_never_block.

(* No deadlock on schedules: an accepted schedule that has not finished main can always be extended. *)
Theorem C09_run_extensible : forall tr s, run current init tr = Some s -> main_done s = false ->
  exists a s', run current init (tr ++ [a]) = Some s'.
Proof. exact (fun tr s => run_extensible current tr s eq_refl). Qed.
Print Assumptions C09_run_extensible.

(* non-vacuity of the hypotheses of the two previous theorems *)
Theorem C09_round8_nonvacuous :
  exists s, reachable current s /\ pc s 0 = R7 Res 1 5 /\ status (th s 1) = OK /\ caller (th s 1) = Some 0 /\
            sends_to (pc s 0) <> None.
Proof. exact resume_target_stable_nonvacuous. Qed.
Print Assumptions C09_round8_nonvacuous.
