(* Properties/C09.v — statements only (C09: coroutines). *)
From Coq Require Import List Bool Arith.
From GV Require Import Thread.Proto Thread.Inv.
Import ListNotations.

Theorem C09_reachable_induction : forall cf (P : state -> Prop),
  P init -> (forall s a s', reachable cf s -> P s -> step cf s a = Some s' -> P s') ->
  forall s, reachable cf s -> P s.
Proof. exact reachable_ind'. Qed.
Print Assumptions C09_reachable_induction.
