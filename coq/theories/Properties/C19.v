(* Properties/C19.v — statements only.  C19: the non-pattern string functions
   and the table functions compute what the manual defines.
   Models: GV.StrLib.Str (IM of lib/stringlib/stringlib.go, luastrings/misc.go,
   plain find of lib/stringlib/matching.go), GV.StrLib.StrSpec (manual). *)
From Coq Require Import ZArith List.
From GV Require Import StrLib.Str StrLib.StrSpec StrLib.StrProofs.
Import ListNotations.
Open Scope Z_scope.

(* string.sub: for every string and all int64 positions (j optional) the Go
   algorithm returns exactly the manual's substring and never panics. *)
Theorem C19_sub_spec :
  forall s i j, str_ok s -> in64 i -> oin64 j -> sub_im s i j = Ok (sub_spec s i j).
Proof. exact sub_correct. Qed.
Print Assumptions C19_sub_spec.

Theorem C19_len_spec : forall s, len_im s = Ok (len_spec s).
Proof. exact len_correct. Qed.
Print Assumptions C19_len_spec.
