(* Properties/C19.v — statements only.  C19: the non-pattern string functions
   and the table functions compute what the manual defines.
   Models: GV.StrLib.Str (IM of lib/stringlib/stringlib.go, luastrings/misc.go,
   plain find of lib/stringlib/matching.go), GV.StrLib.StrSpec (manual §6.4);
   GV.StrLib.Tab (IM of lib/tablelib/tablelib.go as programs over
   Len/Get/Set), GV.StrLib.TabSpec (manual §6.6); GV.StrLib.Sort.
   str_ok s  = "len s < maxint" (representation invariant of a Go string);
   in64/oin64 = the (optional) argument is an int64.  No other bounds. *)
From Coq Require Import ZArith List Permutation.
From GV Require Import StrLib.Str StrLib.StrSpec StrLib.StrProofs StrLib.Tab StrLib.TabSpec StrLib.TabProofs StrLib.Sort.
Import ListNotations.
Open Scope Z_scope.

(* string.sub: for every string and all int64 positions (j optional) the Go
   algorithm returns exactly the manual's substring and never panics. *)
Theorem C19_sub_spec :
  forall s i j, str_ok s -> in64 i -> oin64 j -> sub_im s i j = Ok (sub_spec s i j).
Proof. exact sub_correct. Qed.
Print Assumptions C19_sub_spec.

Theorem C19_byte_spec :
  forall s i j, str_ok s -> oin64 i -> oin64 j -> byte_im s i j = Ok (byte_spec s i j).
Proof. exact byte_correct. Qed.
Print Assumptions C19_byte_spec.

Theorem C19_len_spec : forall s, len_im s = Ok (len_spec s).
Proof. exact len_correct. Qed.
Print Assumptions C19_len_spec.

Theorem C19_char_spec :
  forall vals, match char_spec vals with
               | Some b => char_im vals = Ok b
               | None => exists n, char_im vals = Err (ERange n)
               end.
Proof. exact char_correct. Qed.
Print Assumptions C19_char_spec.

(* string.rep, counts n >= 0: the manual's result whenever it fits a string,
   the overflow error exactly when it does not (the three wrapped products and
   the sum are tested exactly). *)
Theorem C19_rep_spec_partial :
  forall s n sep, str_ok s -> osep_ok sep -> in64 n -> 0 <= n ->
  (rep_len s n sep < 2^63 -> rep_im s n sep = Ok (rep_spec s n sep)) /\
  (2^63 <= rep_len s n sep -> rep_im s n sep = Err EOverflow).
Proof. exact rep_correct_nonneg. Qed.
Print Assumptions C19_rep_spec_partial.

(* …and the code as it stands is wrong for n < 0 *)
Theorem C19_rep_spec_refuted :
  exists s n, in64 n /\ str_ok s /\ rep_im s n None = Err (ERange 2) /\ rep_spec s n None = [].
Proof. exact rep_refuted. Qed.
Print Assumptions C19_rep_spec_refuted.

Theorem C19_find_plain_spec_refuted :
  exists s p init, str_ok s /\ in64 init /\
    find_plain_im s p (Some init) = Ok (Some (3, 3)) /\ find_spec s p (Some init) = Some (6, 6).
Proof. exact find_plain_refuted. Qed.
Print Assumptions C19_find_plain_spec_refuted.

(* upper/lower are byte-wise and length preserving on ASCII strings, for any
   unicode.ToUpper/ToLower … *)
Theorem C19_upper_lower_bytewise :
  forall um s, is_ascii s = true ->
  upper_im um s = Ok (upper_spec s) /\ lower_im um s = Ok (lower_spec s) /\
  length (upper_spec s) = length s /\ length (lower_spec s) = length s.
Proof. exact upper_lower_bytewise. Qed.
Print Assumptions C19_upper_lower_bytewise.

(* … and not outside ASCII *)
Theorem C19_upper_spec_refuted :
  forall um, um rune_error = rune_error ->
  exists s, upper_im um s <> Ok (upper_spec s) /\
            (forall r, upper_im um s = Ok r -> length r = 3%nat) /\ length s = 1%nat.
Proof. exact upper_refuted. Qed.
Print Assumptions C19_upper_spec_refuted.

(* table.insert for every table state, every reported length 0 <= L < maxint
   and every int64 position (or none) *)
Theorem C19_insert_spec :
  forall pos v st, 0 <= len1 st < 2^63 - 1 -> oin64 pos ->
  let L := len1 st in
  let p := match pos with Some p => p | None => L + 1 end in
  if insert_pos_ok L p
  then exists st', run (insert_im pos v) st = (ORet tt, st') /\ keeps2 st st' /\
                   forall k, m1 st' k = insert_spec (m1 st) L p v k
  else run (insert_im pos v) st = (OFail TERange2, st).
Proof. exact insert_correct. Qed.
Print Assumptions C19_insert_spec.

Theorem C19_remove_spec :
  forall pos st, 0 <= len1 st < 2^63 - 1 -> oin64 pos ->
  let L := len1 st in
  let p := match pos with Some p => p | None => L end in
  if remove_pos_ok L p
  then exists st', run (remove_im pos) st = (ORet (m1 st p), st') /\ keeps2 st st' /\
                   forall k, m1 st' k = remove_spec (m1 st) L p k
  else run (remove_im pos) st = (OFail TERange2, st).
Proof. exact remove_correct. Qed.
Print Assumptions C19_remove_spec.

(* table.move for ALL int64 f, e, t, onto the same table (overlap in either
   direction) or another one: the simultaneous assignment, or an error that
   changes nothing exactly when count / last index are not representable *)
Theorem C19_move_spec :
  forall f e t d st, in64 f -> in64 e -> in64 t ->
  if move_ok (tid_eqb d T1) f e t
  then exists st', run (move_im f e t d) st = (ORet tt, st') /\ lens_kept st st' /\ other_kept st st' d /\
                   forall k, dst_of st' d k = move_spec (m1 st) (dst_of st d) f e t k
  else exists err, run (move_im f e t d) st = (OFail err, st).
Proof. exact move_correct. Qed.
Print Assumptions C19_move_spec.

(* table.sort: any terminating procedure that only calls Less/Swap in range,
   any comparison (inconsistent, changing, failing): a permutation, nothing
   outside 1..n touched *)
Theorem C19_sort_is_permutation :
  forall algo, (forall n, in_range n (algo n)) ->
  forall n cmp m,
  Permutation (elems (fst (sort_im algo n cmp m)) n) (elems m n) /\
  forall k, (k < 1 \/ Z.of_nat n < k) -> fst (sort_im algo n cmp m) k = m k.
Proof. exact sort_is_permutation. Qed.
Print Assumptions C19_sort_is_permutation.
