(* Properties/C19.v — statements only.  C19: the non-pattern string functions
   and the table functions compute what the manual defines.
   Models: GV.StrLib.Str (IM of lib/stringlib/stringlib.go, luastrings/misc.go,
   plain find of lib/stringlib/matching.go), GV.StrLib.StrSpec (manual §6.4);
   GV.StrLib.Tab (IM of lib/tablelib/tablelib.go as programs over
   Len/Get/Set), GV.StrLib.TabSpec (manual §6.6); GV.StrLib.Sort.
   str_ok s  = "len s < maxint" (representation invariant of a Go string);
   in64/oin64 = the (optional) argument is an int64.  No other bounds. *)
From Coq Require Import ZArith List Bool Permutation.
From GV Require Import StrLib.Str StrLib.StrSpec StrLib.StrProofs StrLib.StrProofs2 StrLib.Tab StrLib.TabSpec StrLib.TabProofs StrLib.TabProofs2 StrLib.Sort StrLib.SortOrder StrLib.SortExample.
Import ListNotations.
Open Scope Z_scope.

(* string.sub: for every string and all int64 positions (j optional) the Go
   algorithm returns exactly the manual's substring and never panics. *)
Theorem C19_sub_spec :
  forall s i j, str_ok s -> in64 i -> oin64 j -> sub_im s i j = Ok (sub_spec s i j).
Proof. exact sub_correct. Qed.
Print Assumptions C19_sub_spec.

Theorem C19_byte_spec :
  forall s i j, str_ok s -> oin64 i -> oin64 j -> byte_im s i j = Ok (byte_spec s i j).
Proof. exact byte_correct. Qed.
Print Assumptions C19_byte_spec.

Theorem C19_len_spec : forall s, len_im s = Ok (len_spec s).
Proof. exact len_correct. Qed.
Print Assumptions C19_len_spec.

Theorem C19_char_spec :
  forall vals, match char_spec vals with
               | Some b => char_im vals = Ok b
               | None => exists n, char_im vals = Err (ERange n)
               end.
Proof. exact char_correct. Qed.
Print Assumptions C19_char_spec.

(* string.rep, counts n >= 0 (maxRepSize = 2^40, the largest result rep agrees
   to build): the manual's result whenever its length is within the bound (or
   n = 1: s itself), "resulting string too large" between the bound and 2^63,
   the overflow error from 2^63 on — the three wrapped products and the sum
   are tested exactly, so no size reaches a Go allocation that cannot succeed *)
Theorem C19_rep_spec_partial :
  forall s n sep, str_ok s -> osep_ok sep -> in64 n -> 0 <= n ->
  (n = 1 \/ rep_len s n sep <= maxRepSize -> rep_im s n sep = Ok (rep_spec s n sep)) /\
  (2 <= n -> maxRepSize < rep_len s n sep < 2^63 -> rep_im s n sep = Err ETooLarge) /\
  (2^63 <= rep_len s n sep -> rep_im s n sep = Err EOverflow).
Proof. exact rep_correct_nonneg. Qed.
Print Assumptions C19_rep_spec_partial.

(* …and for n < 0 the code raises (golua's own test suite expects this error,
   so the defect is left open) *)
Theorem C19_rep_spec_refuted :
  exists s n, in64 n /\ str_ok s /\ rep_im s n None = Err (ERange 2) /\ rep_spec s n None = [].
Proof. exact rep_refuted. Qed.
Print Assumptions C19_rep_spec_refuted.

(* plain find (and find with an empty pattern): the leftmost occurrence at or
   after the normalised init, for all strings and all int64 init (or none) *)
Theorem C19_find_plain_spec :
  forall s p init, str_ok s -> oin64 init -> find_plain_im s p init = Ok (find_spec s p init).
Proof. exact find_plain_correct. Qed.
Print Assumptions C19_find_plain_spec.

Theorem C19_reverse_spec : forall s, reverse_im s = Ok (reverse_spec s).
Proof. exact reverse_correct. Qed.
Print Assumptions C19_reverse_spec.

(* upper/lower are byte-wise (ASCII letters only) and length preserving for
   ALL byte strings *)
Theorem C19_upper_lower_bytewise :
  forall s,
  upper_im s = Ok (upper_spec s) /\ lower_im s = Ok (lower_spec s) /\
  length (upper_spec s) = length s /\ length (lower_spec s) = length s.
Proof. exact upper_lower_bytewise. Qed.
Print Assumptions C19_upper_lower_bytewise.

(* no Go run-time panic (slice bounds, index) in any modelled string function *)
Theorem C19_str_no_panic :
  forall s, str_ok s ->
  (forall i j, in64 i -> oin64 j -> sub_im s i j <> Panic) /\
  (forall i j, oin64 i -> oin64 j -> byte_im s i j <> Panic) /\
  (forall vals, char_im vals <> Panic) /\
  len_im s <> Panic /\ reverse_im s <> Panic /\ upper_im s <> Panic /\ lower_im s <> Panic /\
  (forall n sep, osep_ok sep -> in64 n -> rep_im s n sep <> Panic) /\
  (forall p init, oin64 init -> find_plain_im s p init <> Panic).
Proof. exact str_no_panic. Qed.
Print Assumptions C19_str_no_panic.

(* table.insert for every table state, every reported length 0 <= L <= maxint
   (L = maxint: error, nothing changed) and every int64 position (or none) *)
Theorem C19_insert_spec :
  forall pos v st, 0 <= len1 st <= 2^63 - 1 -> oin64 pos ->
  let L := len1 st in
  let p := match pos with Some p => p | None => L + 1 end in
  if insert_pos_ok L p
  then exists st', run (insert_im pos v) st = (ORet tt, st') /\ keeps2 st st' /\
                   forall k, m1 st' k = insert_spec (m1 st) L p v k
  else exists err, run (insert_im pos v) st = (OFail err, st).
Proof. exact insert_correct. Qed.
Print Assumptions C19_insert_spec.

Theorem C19_remove_spec :
  forall pos st, 0 <= len1 st <= 2^63 - 1 -> oin64 pos ->
  let L := len1 st in
  let p := match pos with Some p => p | None => L end in
  if remove_pos_ok L p
  then exists st', run (remove_im pos) st = (ORet (m1 st p), st') /\ keeps2 st st' /\
                   forall k, m1 st' k = remove_spec (m1 st) L p k
  else run (remove_im pos) st = (OFail TERange2, st).
Proof. exact remove_correct. Qed.
Print Assumptions C19_remove_spec.

(* table.move for ALL int64 f, e, t, onto the same table (overlap in either
   direction) or another one: the simultaneous assignment, or an error that
   changes nothing exactly when count / last index are not representable *)
Theorem C19_move_spec :
  forall f e t d st, in64 f -> in64 e -> in64 t ->
  if move_ok f e t
  then exists st', run (move_im f e t d) st = (ORet tt, st') /\ lens_kept st st' /\ other_kept st st' d /\
                   forall k, dst_of st' d k = move_spec (m1 st) (dst_of st d) f e t k
  else exists err, run (move_im f e t d) st = (OFail err, st).
Proof. exact move_correct. Qed.
Print Assumptions C19_move_spec.

(* table.sort: any terminating procedure that only calls Less/Swap in range,
   any comparison (inconsistent, changing, failing): a permutation, nothing
   outside 1..n touched *)
Theorem C19_sort_is_permutation :
  forall algo, (forall n, in_range n (algo n)) ->
  forall n cmp m,
  Permutation (elems (fst (sort_im algo n cmp m)) n) (elems m n) /\
  forall k, (k < 1 \/ Z.of_nat n < k) -> fst (sort_im algo n cmp m) k = m k.
Proof. exact sort_is_permutation. Qed.
Print Assumptions C19_sort_is_permutation.

(* table.unpack: list[i..j] for all int64 i, j (defaults 1, #list); the only
   other outcome is the implementation's result limit, raised exactly when
   j - i >= 256, with nothing read or changed *)
Theorem C19_unpack_spec :
  forall i j st, oin64 i -> oin64 j -> in64 (len1 st) ->
  let i0 := match i with Some i => i | None => 1 end in
  let j0 := match j with Some j => j | None => len1 st end in
  if 256 <=? j0 - i0
  then run (unpack_im i j) st = (OFail TETooMany, st)
  else run (unpack_im i j) st = (ORet (unpack_spec (m1 st) i0 j0), st).
Proof. exact unpack_correct. Qed.
Print Assumptions C19_unpack_spec.

Theorem C19_pack_spec :
  forall vs st, (forall k, m1 st k = VNil) ->
  exists st', run (pack_im vs) st = (ORet (snd (pack_spec vs)), st') /\
              forall k, m1 st' k = fst (pack_spec vs) k.
Proof. exact pack_correct. Qed.
Print Assumptions C19_pack_spec.

(* table.concat for all int64 i, j, any separator, any table: the manual's
   string or the error at the first element that is not a string/number;
   never OutOfFuel once fuel exceeds j - i *)
Theorem C19_concat_spec :
  forall fuel sep i j st, oin64 i -> oin64 j -> in64 (len1 st) ->
  let i0 := match i with Some i => i | None => 1 end in
  let j0 := match j with Some j => j | None => len1 st end in
  let sep0 := match sep with Some s => s | None => [] end in
  (Z.to_nat (j0 - i0) < fuel)%nat ->
  run (concat_im fuel sep i j) st =
  match concat_spec (m1 st) sep0 i0 j0 with
  | inl b => (ORet b, st)
  | inr k => (OFail (TEInvalid k), st)
  end.
Proof. exact concat_correct. Qed.
Print Assumptions C19_concat_spec.

(* what sortf does through Index/SetIndex is the abstract run of the sort
   procedure on the list t[1..n] (no assumption on the procedure but
   in-range indices) *)
Theorem C19_sort_refines_list :
  forall n lt s c m, in_range n s ->
  elems (fst (run_sort s (fun _ x y => Some (lt x y)) c m)) n = run_list s lt (elems m n).
Proof. exact sort_refines_list. Qed.
Print Assumptions C19_sort_refines_list.

(* hence: if sort.Sort is a correct comparison sort, a consistent comparison
   leaves the table ordered ("not comp(t[j], t[i]) for i < j") *)
Theorem C19_sort_sorted_if_consistent :
  forall algo n, in_range n (algo n) ->
  (forall lt l, length l = n -> consistent lt -> sorted lt (run_list (algo n) lt l)) ->
  forall lt m, consistent lt ->
  sorted lt (elems (fst (sort_im algo n (fun _ x y => Some (lt x y)) m)) n).
Proof. exact sort_sorted_if_consistent. Qed.
Print Assumptions C19_sort_sorted_if_consistent.

(* its hypotheses are satisfiable by a real procedure (bubble sort; lengths 2
   and 3, every consistent comparison, every list) *)
Theorem C19_sort_hypotheses_satisfiable :
  exists algo, (forall n, in_range n (algo n)) /\
    (forall lt l, length l = 2%nat -> consistent lt -> sorted lt (run_list (algo 2%nat) lt l)) /\
    (forall lt l, length l = 3%nat -> consistent lt -> sorted lt (run_list (algo 3%nat) lt l)).
Proof. exact sort_order_hypotheses_satisfiable. Qed.
Print Assumptions C19_sort_hypotheses_satisfiable.
