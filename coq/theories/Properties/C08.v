(* Properties/C08.v — statements only.  C08: compliance flags gate every Go
   function; iosafe means no access to the outside.
   Hand-written models: GV.Flags.Gate (GoCont.RunInThread's gate,
   CheckRequiredFlags, safeio), GV.Flags.Nesting (gate over C07's context
   manager model), GV.Flags.Reach (graph reachability checker).
   Regenerated from /repo's source on every run by /verif/translate/flags:
   GV.Flags.Generated (registry of Go functions + declared flags, call graph,
   sinks); GV.Flags.Check holds the vm_compute proofs over it.
   Axioms: none. *)
From Coq Require Import ZArith NArith List String Arith Bool.
From GV Require Import Ctx.Model Ctx.Proofs Flags.Gate Flags.Nesting Flags.Reach Flags.Generated Flags.Check.
Import ListNotations.

(* A function that has not declared every required flag fails at the gate with
   an ordinary Lua error naming the missing flags; context, Lua state and the
   world are unchanged (for any manager, any body). *)
Theorem C08_gate_blocks :
  forall (ctx : Type) (flags : ctx -> N) (term : Type) (requireCPU : Z -> Z -> ctx -> r1 ctx term)
         (Lua World : Type) now depth (f : gofunction ctx term Lua World) c l w,
  missing (flags c) (declared _ _ _ _ f) <> 0%N ->
  run_in_thread ctx flags term requireCPU Lua World now depth f c l w =
    (LuaError term (missing_msg (missing (flags c) (declared _ _ _ _ f))), c, l, w).
Proof. exact gate_blocks. Qed.
Print Assumptions C08_gate_blocks.

Theorem C08_gate_blocks_subset :
  forall (ctx : Type) (flags : ctx -> N) (term : Type) (requireCPU : Z -> Z -> ctx -> r1 ctx term)
         (Lua World : Type) now depth (f : gofunction ctx term Lua World) c l w i,
  N.testbit (flags c) i = true -> N.testbit (declared _ _ _ _ f) i = false ->
  exists msg, run_in_thread ctx flags term requireCPU Lua World now depth f c l w = (LuaError term msg, c, l, w).
Proof. exact gate_blocks_subset. Qed.
Print Assumptions C08_gate_blocks_subset.

(* the error is raised only then: a compliant function passes the gate *)
Theorem C08_gate_passes :
  forall (ctx : Type) (flags : ctx -> N) (term : Type) (requireCPU : Z -> Z -> ctx -> r1 ctx term)
         (Lua World : Type) now depth (f : gofunction ctx term Lua World) c l w,
  missing (flags c) (declared _ _ _ _ f) = 0%N ->
  run_in_thread ctx flags term requireCPU Lua World now depth f c l w =
    match requireCPU now 1%Z c with
    | RTerm _ _ c1 t => (Terminated term t, c1, l, w)
    | RPanic _ _ c1 => (GoPanic term, c1, l, w)
    | ROk _ _ c1 => if (maxGoFunctionCallDepth <? depth + 1)%Z then (LuaError term "stack overflow", c1, l, w)
                    else body _ _ _ _ f c1 l w
    end.
Proof. exact gate_passes. Qed.
Print Assumptions C08_gate_passes.

(* the context keeps running after a blocked call *)
Theorem C08_blocked_call_is_invisible :
  forall (ctx : Type) (flags : ctx -> N) (term : Type) (requireCPU : Z -> Z -> ctx -> r1 ctx term)
         (Lua World : Type) now depth (f g : gofunction ctx term Lua World) c l w,
  missing (flags c) (declared _ _ _ _ f) <> 0%N ->
  let '(_, c1, l1, w1) := run_in_thread ctx flags term requireCPU Lua World now depth f c l w in
  run_in_thread ctx flags term requireCPU Lua World now depth g c1 l1 w1 =
  run_in_thread ctx flags term requireCPU Lua World now depth g c l w.
Proof. exact blocked_call_is_invisible. Qed.
Print Assumptions C08_blocked_call_is_invisible.

(* any sequence of rejected calls, however long, leaves context, Lua state, world AND the thread's
   Go call depth exactly as they were *)
Theorem C08_rejected_calls_change_nothing :
  forall (ctx : Type) (flags : ctx -> N) (term : Type) (requireCPU : Z -> Z -> ctx -> r1 ctx term)
         (Lua World : Type) now (fs : list (gofunction ctx term Lua World)) depth c l w,
  Forall (fun f => missing (flags c) (declared _ _ _ _ f) <> 0%N) fs ->
  run_many ctx flags term requireCPU Lua World now depth fs c l w = (c, l, w, depth).
Proof. exact rejected_calls_change_nothing. Qed.
Print Assumptions C08_rejected_calls_change_nothing.

Theorem C08_call_depth_balanced :
  forall (ctx : Type) (flags : ctx -> N) (term : Type) (requireCPU : Z -> Z -> ctx -> r1 ctx term)
         (Lua World : Type) now depth (f : gofunction ctx term Lua World) c l w,
  snd (run_in_thread_depth ctx flags term requireCPU Lua World now depth f c l w) = depth /\
  fst (run_in_thread_depth ctx flags term requireCPU Lua World now depth f c l w) =
    run_in_thread ctx flags term requireCPU Lua World now depth f c l w.
Proof. exact call_depth_balanced. Qed.
Print Assumptions C08_call_depth_balanced.

(* safeio refuses under iosafe and leaves the world untouched *)
Theorem C08_safeio_refuses :
  forall (ctx : Type) (flags : ctx -> N) (World A : Type) (c : ctx) (prim : World -> A * World) (w : World),
  N.testbit (flags c) 2 = true -> safeio ctx flags World A c prim w = (NotAllowed A, w).
Proof. exact safeio_refuses. Qed.
Print Assumptions C08_safeio_refuses.

(* requirements only grow under nesting: every history of the context manager *)
Theorem C08_gate_monotone_under_nesting :
  forall os k i, hist_ok os -> In k (parents (run init os)) ->
  N.testbit (flags k) i = true -> N.testbit (flags (cur (run init os))) i = true.
Proof. exact gate_monotone_under_nesting. Qed.
Print Assumptions C08_gate_monotone_under_nesting.

Theorem C08_iosafe_everywhere_below :
  forall (Lua World : Type) os k now depth (f : gofun Lua World) l w,
  hist_ok os -> In k (parents (run init os)) -> N.testbit (flags k) 2 = true ->
  N.testbit (declared _ _ _ _ f) 2 = false ->
  let c := cur (run init os) in
  (exists msg, run_go Lua World now depth f c l w = (LuaError term msg, c, l, w)) /\
  (forall A prim, safe_io World A c prim w = (NotAllowed A, w)).
Proof. exact iosafe_everywhere_below. Qed.
Print Assumptions C08_iosafe_everywhere_below.

(* the reachability checker is sound for every graph *)
Theorem C08_reach_sound :
  forall g roots sinks, no_path_b g roots sinks = true ->
  forall r s, In r roots -> In s sinks -> ~ path g r s.
Proof. exact no_path_sound. Qed.
Print Assumptions C08_reach_sound.

(* ---- over the table regenerated from the source on this run ---- *)

Theorem C08_translator_resolved_everything : unresolved = [].
Proof. exact resolved_ok. Qed.
Print Assumptions C08_translator_resolved_everything.

(* every function declared iosafe reaches no sink in the call graph (no exceptions) *)
Theorem C08_iosafe_functions_reach_no_sink :
  forall go lua root fl, In (go, lua, root, fl) registry ->
  N.testbit fl 2 = true ->
  forall s, In s sinks -> ~ path graph root s.
Proof. exact iosafe_functions_reach_no_sink. Qed.
Print Assumptions C08_iosafe_functions_reach_no_sink.

(* ... and that is not vacuous on this run's table *)
Theorem C08_table_nonvacuous :
  (0 <? List.length checked_roots)%nat && (0 <? List.length sinks)%nat && (0 <? List.length graph)%nat = true.
Proof. exact table_nonvacuous. Qed.
Print Assumptions C08_table_nonvacuous.
