(* Properties/C01.v — statements only.  C01: compiled programs behave as the
   Lua 5.4 manual prescribes.
   The forall-programs statement "golua = LuaCore" is NOT a theorem here (no
   verified compiler); it is checked program by program (translation
   validation, lib/props/C01.py).  The theorems below are about LuaCore, the
   specification side (GV.Lua.Machine), and guard against a wrong oracle. *)
From Coq Require Import ZArith List.
From GV Require Import Lua.Syntax Lua.Value Lua.Machine Lua.Meta.
Import ListNotations.

Theorem C01_paren_one_value : forall c vs k,
  ctl c = CRet vs -> stk c = KFirst :: k ->
  step c = inl (mkCfg (CRet [first vs]) k (sto c) (trace c) (cline c)).
Proof. exact paren_one_value. Qed.
Print Assumptions C01_paren_one_value.

Theorem C01_list_middle_one_value : forall c vs acc e rest ρ lk k,
  ctl c = CRet vs -> stk c = KList acc (e :: rest) ρ lk :: k ->
  step c = inl (mkCfg (CExp e ρ) (KList (acc ++ [first vs]) rest ρ lk :: k) (sto c) (trace c) (cline c)).
Proof. exact list_middle_one_value. Qed.
Print Assumptions C01_list_middle_one_value.

Theorem C01_list_last_all_values : forall c vs acc ρ lk k,
  ctl c = CRet vs -> stk c = KList acc [] ρ lk :: k ->
  step c = finish_list c (acc ++ vs) ρ lk k.
Proof. exact list_last_all_values. Qed.
Print Assumptions C01_list_last_all_values.
