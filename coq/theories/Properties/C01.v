(* Properties/C01.v — statements only.  C01: compiled programs behave as the
   Lua 5.4 manual prescribes.
   The forall-programs statement "golua = LuaCore" is NOT a theorem here (no
   verified compiler); it is checked program by program (translation
   validation, lib/props/C01.py).  The theorems below are about LuaCore, the
   specification side (GV.Lua.Machine, written from the manual), and guard
   against a wrong oracle.  All are quantified over every configuration /
   stack / store / number of steps.  Axioms: only those of the real-number
   library that Flocq (binary64 floats) depends on. *)
From Coq Require Import ZArith List Bool FMapPositive.
From GV Require Import Base.W64 Lua.Syntax Lua.Value Lua.Machine Lua.Meta Lua.Wf.
Import ListNotations.
Open Scope Z_scope.

(* adjustment of multiple results (manual 3.4.12) *)
Theorem C01_paren_one_value : forall c vs k,
  ctl c = CRet vs -> stk c = KFirst :: k ->
  step c = inl (mkCfg (CRet [first vs]) k (sto c) (trace c) (cline c) (cot c)).
Proof. exact paren_one_value. Qed.
Print Assumptions C01_paren_one_value.

Theorem C01_list_middle_one_value : forall c vs acc e rest ρ lk k,
  ctl c = CRet vs -> stk c = KList acc (e :: rest) ρ lk :: k ->
  step c = inl (mkCfg (CExp e ρ) (KList (acc ++ [first vs]) rest ρ lk :: k) (sto c) (trace c) (cline c) (cot c)).
Proof. exact list_middle_one_value. Qed.
Print Assumptions C01_list_middle_one_value.

Theorem C01_list_last_all_values : forall c vs acc ρ lk k,
  ctl c = CRet vs -> stk c = KList acc [] ρ lk :: k ->
  step c = finish_list c (acc ++ vs) ρ lk k.
Proof. exact list_last_all_values. Qed.
Print Assumptions C01_list_last_all_values.

(* multiple assignment evaluates every right-hand side before assigning (3.3.3):
   `a, b = b, a` swaps, for all stores, stacks and cells *)
Theorem C01_assign_rhs_first : forall ca cb rest va' k σ tr ln ln0 cs,
  let ρ := mkEnv ((nb, cb) :: (na, ca) :: rest) va' in
  steps 8 (mkCfg (CStat ln (SAssign [EVar na; EVar nb] [EVar nb; EVar na]) ρ) k σ tr ln0 cs) =
  inl (mkCfg CDone k (cell_set (cell_set σ ca (cell_get σ cb)) cb (cell_get σ ca)) tr ln0 cs).
Proof. exact assign_rhs_first_swap. Qed.
Print Assumptions C01_assign_rhs_first.

(* fresh variables per loop iteration and per execution of `local` (3.5) *)
Theorem C01_fresh_cell_per_iteration_fornum : forall x cur lim st b ρ ln k σ tr ln0 cs,
  ((if 0 <? st then cur + st <=? lim else lim <=? cur + st) && in64b (cur + st))%bool = true ->
  step (mkCfg CDone (KForNumI x cur lim st b ρ ln :: k) σ tr ln0 cs) =
  inl (mkCfg (CBlock b (mkEnv ((x, ncell σ) :: vars ρ) (va ρ)) [])
             (KForNumI x (cur + st) lim st b ρ ln :: k)
             (snd (cell_alloc σ (VInt (cur + st)))) tr ln0 cs)
  /\ ncell (snd (cell_alloc σ (VInt (cur + st)))) = Pos.succ (ncell σ).
Proof. exact fresh_cell_per_iteration_fornum. Qed.
Print Assumptions C01_fresh_cell_per_iteration_fornum.

Theorem C01_fresh_cells_per_iteration_forin : forall xs f s b ρ ln k σ tr ln0 cs v vs,
  v <> VNil ->
  step (mkCfg (CRet (v :: vs)) (KForInC xs f s b ρ ln :: k) σ tr ln0 cs) =
  inl (let '(ρv, s', _) := bind_names xs (v :: vs) (vars ρ) σ in
       mkCfg (CBlock b (mkEnv ρv (va ρ)) []) (KForIn xs f s v b ρ ln :: k) s' tr ln0 cs).
Proof. exact fresh_cells_per_iteration_forin. Qed.
Print Assumptions C01_fresh_cells_per_iteration_forin.

Theorem C01_local_binds_fresh : forall xs rest seen acc ρ k σ tr ln cs vs,
  has_close xs = false ->
  step (mkCfg (CRet vs) (KList acc [] ρ (LLocal xs rest seen) :: k) σ tr ln cs) =
  inl (let '(ρv, s, _) := bind_names (map fst xs) (acc ++ vs) (vars ρ) σ in
       mkCfg (CBlock rest (mkEnv ρv (va ρ)) seen) k s tr ln cs).
Proof. exact local_binds_fresh. Qed.
Print Assumptions C01_local_binds_fresh.

Theorem C01_cell_alloc_fresh : forall s v,
  cells_below s -> PositiveMap.find (fst (cell_alloc s v)) (cells s) = None.
Proof. exact cell_alloc_fresh. Qed.
Print Assumptions C01_cell_alloc_fresh.

(* invariant of every run of any length: allocation counters only grow, so a cell,
   table or closure identity is never handed out twice ... *)
Theorem C01_identities_never_reused : forall n c c',
  steps n c = inl c' -> mono (sto c) (sto c').
Proof. exact steps_mono. Qed.
Print Assumptions C01_identities_never_reused.

(* ... hence the variable bound by one loop iteration differs from every variable
   bound later in the run (closures of different iterations do not share it) *)
Theorem C01_later_cells_differ : forall n σ v c ct k tr ln cs,
  steps n (mkCfg ct k (snd (cell_alloc σ v)) tr ln cs) = inl c ->
  (ncell σ < ncell (sto c))%positive.
Proof. exact later_cells_differ. Qed.
Print Assumptions C01_later_cells_differ.

Theorem C01_steps_compose : forall n m c,
  steps (n + m) c = match steps n c with inl c' => steps m c' | inr f => inr f end.
Proof. exact steps_plus. Qed.
Print Assumptions C01_steps_compose.

(* wf_cfg: every variable occurring anywhere in a configuration (control, frames, label
   tables, closures, saved coroutine stacks) denotes an allocated cell.  Preserved by
   every step; holds for every configuration reachable from the start of any program. *)
Theorem C01_wf_preserved_by_step : forall c, wf c -> res_wf (step c).
Proof. exact step_wf. Qed.
Print Assumptions C01_wf_preserved_by_step.

Theorem C01_wf_preserved_by_steps : forall m c c', wf c -> steps m c = inl c' -> wf c'.
Proof. exact steps_wf. Qed.
Print Assumptions C01_wf_preserved_by_steps.

Theorem C01_reachable_configurations_wf : forall body args m c,
  steps m (init_cfg body args) = inl c -> wf c.
Proof. exact reachable_wf. Qed.
Print Assumptions C01_reachable_configurations_wf.

(* generic for (manual 3.3.5): the loop ends exactly when the first value is nil; false
   is an ordinary control value *)
Theorem C01_forin_ends_on_nil : forall xs f s b ρ ln k σ tr ln0 cs vs,
  first vs = VNil ->
  step (mkCfg (CRet vs) (KForInC xs f s b ρ ln :: k) σ tr ln0 cs) = inl (mkCfg CDone k σ tr ln0 cs).
Proof. exact forin_ends_on_nil. Qed.
Print Assumptions C01_forin_ends_on_nil.

Theorem C01_forin_continues_on_false : forall xs f s b ρ ln k σ tr ln0 cs bb vs,
  step (mkCfg (CRet (VBool bb :: vs)) (KForInC xs f s b ρ ln :: k) σ tr ln0 cs) =
  inl (let '(ρv, s', _) := bind_names xs (VBool bb :: vs) (vars ρ) σ in
       mkCfg (CBlock b (mkEnv ρv (va ρ)) []) (KForIn xs f s (VBool bb) b ρ ln :: k) s' tr ln0 cs).
Proof. exact forin_continues_on_false. Qed.
Print Assumptions C01_forin_continues_on_false.
