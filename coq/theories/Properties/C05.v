(* Properties/C05.v — statements only.  C05: a CPU limit is a hard, exact and
   uninterceptable bound.  Model: GV.Ctx.Model / GV.Ctx.NestModel. *)
From Coq Require Import ZArith List.
From GV Require Import Ctx.Model Ctx.Proofs Ctx.NestModel Ctx.Nest.
Import ListNotations.
Open Scope Z_scope.

(* For every history of manager operations, a live context with a CPU limit
   has used strictly less than the limit: it is stopped BEFORE the counter
   reaches L. *)
Theorem C05_used_lt_limit :
  forall os c, hist_ok os -> In c (cur (run init os) :: parents (run init os)) -> st c = Live ->
  0 < cpu (hard c) -> cpu (used c) < cpu (hard c).
Proof. intros os c H1 H2 H3. exact (proj1 (used_lt_kill os c H1 H2 H3)). Qed.
Print Assumptions C05_used_lt_limit.

(* A granted request never takes a live limited context to or past its limit
   (no wrap-around side condition stated). *)
Theorem C05_grant_below_limit :
  forall now amt c c', ctx_ok c -> st c = Live -> 0 < cpu (hard c) -> 0 <= amt ->
  cpu (used c) + amt < W ->
  requireCPU now amt c = ROk c' -> cpu (used c) + amt < cpu (hard c) /\ cpu (used c') = cpu (used c) + amt.
Proof. exact requireCPU_grant_bound. Qed.
Print Assumptions C05_grant_below_limit.

(* CallContext is a boundary: a termination inside it ends exactly that
   context; control returns to the parent, whose frame and parent chain are
   unchanged, with the returned context reporting 'killed'. *)
Theorem C05_termination_returns_to_parent_killed :
  forall d body err m, Inv m -> calm m -> def_ok d -> notime d -> acts_ok body ->
  let '(m', r, ctxo) := call m d body err in
  (r = Normal \/ r = Panicked) /\ parents m' = parents m /\ calm m' /\
  exists c, ctxo = Some c /\
    st c = (match snd (exec (mres_mgr (push 0 d m)) body) with
            | Terminated => Killed
            | Normal => if err then Err else Done
            | Panicked => Done end) /\
    (r = Panicked <-> snd (exec (mres_mgr (push 0 d m)) body) = Panicked) /\
    within c.
Proof. exact call_status_truthful. Qed.
Print Assumptions C05_termination_returns_to_parent_killed.
