(* Properties/C05.v — statements only.  C05: a CPU limit is a hard, exact and
   uninterceptable bound.  Model: GV.Ctx.Model / GV.Ctx.NestModel. *)
From Coq Require Import ZArith List.
From GV Require Import Ctx.Model Ctx.Proofs Ctx.NestModel Ctx.Nest.
Import ListNotations.
Open Scope Z_scope.

(* For every history of manager operations, a live context with a CPU limit
   has used strictly less than the limit: it is stopped BEFORE the counter
   reaches L. *)
Theorem C05_used_lt_limit :
  forall os c, hist_ok os -> In c (cur (run init os) :: parents (run init os)) -> st c = Live ->
  0 < cpu (hard c) -> cpu (used c) < cpu (hard c).
Proof. intros os c H1 H2 H3. exact (proj1 (used_lt_kill os c H1 H2 H3)). Qed.
Print Assumptions C05_used_lt_limit.

(* A granted request never takes a live limited context to or past its limit
   (no wrap-around side condition stated). *)
Theorem C05_grant_below_limit :
  forall now amt c c', ctx_ok c -> st c = Live -> 0 < cpu (hard c) -> 0 <= amt ->
  cpu (used c) + amt < W ->
  requireCPU now amt c = ROk c' -> cpu (used c) + amt < cpu (hard c) /\ cpu (used c') = cpu (used c) + amt.
Proof. exact requireCPU_grant_bound. Qed.
Print Assumptions C05_grant_below_limit.

(* CallContext is a boundary: a termination inside it ends exactly that
   context; control returns to the parent, whose frame and parent chain are
   unchanged, with the returned context reporting 'killed'. *)
Theorem C05_termination_returns_to_parent_killed :
  forall d body err m, Inv m -> calm m -> def_ok d -> notime d -> acts_ok body ->
  let '(m', r, ctxo) := call m d body err in
  (r = Normal \/ r = Panicked) /\ parents m' = parents m /\ calm m' /\
  exists c, ctxo = Some c /\
    st c = (match snd (exec (mres_mgr (push 0 d m)) body) with
            | Terminated => Killed
            | Normal => if err then Err else Done
            | Panicked => Done end) /\
    (r = Panicked <-> snd (exec (mres_mgr (push 0 d m)) body) = Panicked) /\
    within c.
Proof. exact call_status_truthful. Qed.
Print Assumptions C05_termination_returns_to_parent_killed.

(* ---- exact, deterministic, monotone (Ctx/Exact.v) ---- *)
From GV Require Import Ctx.Exact.

(* The same abstract program (any tree of CPU/memory requests, releases and
   nested CallContext calls with their own limits) run under limits L1 <= L2:
   if under L2 it comes back having used less than L1, then under L1 it comes
   back the same way, with the same usage and status.  A limit above the usage
   never changes behaviour, accounting does not depend on the limit, and
   completing is monotone in the limit. *)
Theorem C05_limit_above_usage_same_behaviour :
  forall L1 L2 l, 0 < L1 <= L2 -> L2 < SMALL -> acts_ok2 l ->
  let '(m2', r2) := exec (limited L2) l in
  cpu (used (cur m2')) < L1 ->
  let '(m1', r1) := exec (limited L1) l in
  r1 = r2 /\ used (cur m1') = used (cur m2') /\ st (cur m1') = st (cur m2').
Proof. exact limit_above_usage_same_behaviour. Qed.
Print Assumptions C05_limit_above_usage_same_behaviour.

(* Total consumption never decreases along an execution (what makes "usage"
   a well-defined number). *)
Theorem C05_accounting_monotone :
  forall l m, Inv m -> calm m -> lim_top m -> acts_ok2 l -> tot m <= tot (fst (exec m l)).
Proof. exact (proj2 tot_mono). Qed.
Print Assumptions C05_accounting_monotone.

(* Without nested boundaries: killed exactly for the limits L <= usage. *)
Theorem C05_flat_kill_exact :
  forall L xs, 0 < L < SMALL -> Forall (fun x => 0 <= x) xs -> usage xs < SMALL ->
  let '(m', r) := exec (limited L) (flat xs) in
  (r = Terminated <-> L <= usage xs) /\
  (usage xs < L -> r = Normal /\ cpu (used (cur m')) = usage xs /\ st (cur m') = Live) /\
  (r = Terminated -> cpu (used (cur m')) < L /\ st (cur m') = Killed).
Proof. exact flat_kill_exact. Qed.
Print Assumptions C05_flat_kill_exact.

(* "Killed exactly for L <= u" does NOT hold through a nested boundary, on
   the model as on the code (known finding C05-termination-returned-to-lua):
   the nested context is killed, the outer one carries on. *)
Theorem C05_nested_kill_is_intercepted_refuted :
  (let '(m, r) := exec (limited 100000) intercept_witness in r = Normal /\ cpu (used (cur m)) = 1015) /\
  (let '(m, r) := exec (limited 100) intercept_witness in r = Normal /\ cpu (used (cur m)) = 15 /\ st (cur m) = Live).
Proof. exact nested_kill_is_intercepted_refuted. Qed.
Print Assumptions C05_nested_kill_is_intercepted_refuted.
