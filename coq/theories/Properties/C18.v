(* Properties/C18.v — statements only.  C18: finalisers and resource release
   run exactly once, in order, inside their context.
   Model: GV.GC.ClonePool (mirror of runtime/internal/luagc/clonepool.go and of
   the call sequences of runtime.go / thread.go / runtimecontextmanager.go,
   inside an environment with the events Drop / GoGC (enabled only for values
   that are unreachable, not held by a running finaliser, and armed) /
   Resurrect).  Every theorem quantifies over all histories [es] accepted by
   [wrun] (no bound on length, keys or flags).
   finc k t / relc k t = number of __gc / ReleaseResources calls on k since k
   was last marked; wantsF / wantsR = the flags of that last marking. *)
From Coq Require Import NArith List Sorted Permutation.
From GV Require Import GC.ClonePool GC.Lemmas GC.Proofs GC.Theorems GC.Order GC.Stack GC.StackProofs.
Import ListNotations.
Open Scope N_scope.

Theorem C18_finalize_at_most_once :
  forall es w k, wrun world0 es = Some w -> (finc k (tr w) <= 1)%nat.
Proof. exact finalize_at_most_once. Qed.
Print Assumptions C18_finalize_at_most_once.

Theorem C18_release_at_most_once :
  forall es w k, wrun world0 es = Some w ->
  (relc k (tr w) <= 1)%nat /\ finAfterRel k (epoch k (tr w)) = false.
Proof. exact release_at_most_once. Qed.
Print Assumptions C18_release_at_most_once.

(* exactly once by close (the code after the repair of ExtractAllMarkedFinalize: values whose Go
   finaliser already fired are returned too) — unconditional *)
Theorem C18_finalize_exactly_once_by_close :
  forall es w w' k,
  wrun world0 es = Some w -> wstep w ECloseF = Some w' ->
  wantsF k (tr w') = true -> finc k (tr w') = 1%nat.
Proof. exact finalize_exactly_once_by_close. Qed.
Print Assumptions C18_finalize_exactly_once_by_close.

Theorem C18_release_exactly_once_after_finalize :
  forall es w w' k,
  wrun world0 es = Some w -> wstep w EPop = Some w' ->
  wantsR k (tr w') = true ->
  relc k (tr w') = 1%nat /\ finAfterRel k (epoch k (tr w')) = false.
Proof. exact release_exactly_once_after_finalize. Qed.
Print Assumptions C18_release_exactly_once_after_finalize.

(* ... also when a finaliser of the current batch of pending work terminates the context (event ERunPFKill j:
   the (j+1)-th finaliser of the batch raises a context termination; the panic unwinds to PopContext) *)
Theorem C18_release_exactly_once_when_finalizer_kills :
  forall es w w' j k,
  wrun world0 es = Some w -> wstep w (ERunPFKill j) = Some w' ->
  wantsR k (tr w') = true ->
  relc k (tr w') = 1%nat /\ finAfterRel k (epoch k (tr w')) = false.
Proof. exact release_exactly_once_when_finalizer_kills. Qed.
Print Assumptions C18_release_exactly_once_when_finalizer_kills.

Theorem C18_close_order_reverse_mark :
  forall os,
  let p := fold_left (fun q o => fst (step q o)) os pool0 in
  let sel := pendF p ++ filter notFin (regList p) in
  StronglySorted desc (sort_desc sel) /\ Permutation (sort_desc sel) sel /\
  (forall k fl r, reg p = Some r -> fl <> 0 ->
     let p' := fst (mark p k fl) in
     exists c, lookup k (regList p') = Some c /\
               forall e, In e (regList p ++ pendF p ++ pendR p) -> eOrd e < eOrd c) /\
  (NoDup (map eOrd sel) -> forall l, StronglySorted sdesc l -> Permutation l sel -> l = sort_desc sel).
Proof. exact close_order_reverse_mark. Qed.
Print Assumptions C18_close_order_reverse_mark.

(* unconditional: for every sequence of pool calls, each extraction sorts pairwise distinct mark
   orders; its result is strictly descending and is the only such arrangement *)
Theorem C18_extraction_order_unique :
  forall os,
  let p := fold_left (fun q o => fst (step q o)) os pool0 in
  forall sel, In sel [pendF p ++ filter notFin (regList p); pendF p; pendR p ++ filter notRel (regList p); pendR p] ->
  StronglySorted sdesc (sort_desc sel) /\
  forall l, StronglySorted sdesc l -> Permutation l sel -> l = sort_desc sel.
Proof. exact extraction_order_unique. Qed.
Print Assumptions C18_extraction_order_unique.

Theorem C18_never_finalized_while_reachable :
  forall es w k, wrun world0 es = Some w ->
  In k (oVals (snd (extPF (pl w)))) ->
  mem k (dropped w) = true /\ mem k (held w) = false.
Proof. exact never_finalized_while_reachable. Qed.
Print Assumptions C18_never_finalized_while_reachable.

Theorem C18_killed_context_skips_finalizers_not_releases :
  forall p, fst (exit_killed p) = [] /\ snd (exit_killed p) = snd (exit_normal p).
Proof. exact killed_context_skips_finalizers_not_releases. Qed.
Print Assumptions C18_killed_context_skips_finalizers_not_releases.

Theorem C18_killed_context_releases_exactly_once :
  forall es w k,
  wrun world0 es = Some w -> closed (pl w) = false ->
  wantsR k (tr w) = true -> relc k (tr w) = 0%nat ->
  occ k (snd (exit_killed (pl w))) = 1%nat.
Proof. exact killed_context_releases_exactly_once. Qed.
Print Assumptions C18_killed_context_releases_exactly_once.

(* the stack of per-context pools (GC/Stack.v: PushContext/PopContext switching pools, ClonePool.Mark
   handing a value to the enclosing pool that already tracks it): for every history of pushes, normal and
   killed exits, markings, collector callbacks on any pool, runPendingFinalizers and Close, every __gc
   call and every release happens while the context whose pool registered the value — since that
   context was entered — is the current one (so it is metered by, and charged to, that context) *)
Theorem C18_finalizer_runs_in_owning_context :
  forall os, ownerOK (strace (srun s0 os)) = true.
Proof. exact finalizer_runs_in_owning_context. Qed.
Print Assumptions C18_finalizer_runs_in_owning_context.
