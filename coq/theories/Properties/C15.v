(* Properties/C15.v — statements only.  C15: Lua pattern matching follows the
   manual for every pattern and subject.
   Models: GV.Pattern.Build (builder.go), GV.Pattern.Machine (matcher.go,
   pattern.go), GV.Pattern.Spec (manual 6.4.1 as a structurally recursive
   backtracking matcher), GV.Pattern.Drivers (matching.go / lstrlib drivers).
   No axioms: every Print Assumptions below must say "Closed under the global context". *)
From Coq Require Import ZArith NArith List Bool.
From GV Require Import Pattern.Common Pattern.Build Pattern.Machine Pattern.Spec Pattern.Drivers
  Pattern.Proofs Pattern.Equiv Pattern.Refuted.
Import ListNotations.
Open Scope Z_scope.

(* The literal bit masks of byteset.go denote the character classes of the
   manual (%a %c %d %g %l %p %s %u %w %x and their complements) on every byte. *)
Theorem C15_masks_correct :
  forall k c lo up, In k class_letters -> 0 <= c < 256 ->
  named k = Some lo -> named (k - 32) = Some up ->
  bs_mem lo c = class_spec k c /\ bs_mem up c = negb (class_spec k c).
Proof. exact masks_correct. Qed.
Print Assumptions C15_masks_correct.

(* machine_equiv_spec, PARTIAL: for every item list made of single-class items
   with any repetition suffix (none * + - ?) and (position) captures — no
   back-references, no %b, no %f —, every subject, start position, end-anchor
   setting and initial capture array, the trackback machine (budget 0 = none)
   started as matchToEnd does halts for every fuel above some bound, never
   panics, and answers "match ending at e" exactly when the manual-level
   matcher Spec.M matches ending at e, "no match" exactly when Spec.M fails.
   Missing for the full statement: %n, %b, %f items; equality of the capture
   values (only the span is related); the find() loop over start positions;
   the explicit fuel bound; budgets > 0. *)
Theorem C15_machine_equiv_spec_partial :
  forall items ea s init c0, simple items = true -> 0 <= init <= slen s ->
  exists fuel, forall f, (fuel <= f)%nat ->
    match M ea s items init caps0 with
    | Some (e, _) => exists c', fst (run items ea s f 0 0 (start_state init c0)) = OMatch e c'
    | None => exists c', fst (run items ea s f 0 0 (start_state init c0)) = ONoMatch c'
    end.
Proof. exact machine_equiv_spec_partial. Qed.
Print Assumptions C15_machine_equiv_spec_partial.

(* the hypothesis is satisfiable by patterns using every repetition kind and captures *)
Theorem C15_simple_example :
  simple [ICapStart 1; ISingle Star 5%N; ISingle Lazy 6%N; ICapEnd 1; ICapStart 2;
          ISingle Plus 2%N; ISingle Opt 3%N; ISingle Once 1%N] = true.
Proof. exact simple_example. Qed.
Print Assumptions C15_simple_example.

(* Spec sanity — leftmost: what Spec.find_at returns is a match of Spec.M at
   the first start position that has one. *)
Theorem C15_spec_find_leftmost :
  forall ea s items n i st e c,
  find_at ea s items n i = Some (st, e, c) ->
  M ea s items st caps0 = Some (e, c) /\ i <= st < i + Z.of_nat n /\
  forall j, i <= j < st -> M ea s items j caps0 = None.
Proof. exact spec_find_leftmost. Qed.
Print Assumptions C15_spec_find_leftmost.

(* Spec sanity — greedy maximality / lazy minimality of a final repetition *)
Theorem C15_spec_star_last_maximal :
  forall s cls i c,
  M false s [ISingle Star cls] i c = Some (i + Z.of_nat (span cls (suffix s i)), c).
Proof. exact spec_star_last_maximal. Qed.
Print Assumptions C15_spec_star_last_maximal.

Theorem C15_spec_lazy_last_minimal :
  forall s cls i c, M false s [ISingle Lazy cls] i c = Some (i, c).
Proof. exact spec_lazy_last_minimal. Qed.
Print Assumptions C15_spec_lazy_last_minimal.

(* ---- refuted on the code as it stands (faithful IM; witnesses replayed on Go) *)

(* no_panic of the machine is false: %1 naming a position capture slices s[start:-1] *)
Theorem C15_machine_no_panic_refuted :
  exists items ea s st fuel, fst (run items ea s fuel 0 0 st) = OPanic.
Proof. exact machine_no_panic_refuted. Qed.
Print Assumptions C15_machine_no_panic_refuted.

Theorem C15_backref_position_capture_panics :
  exists ptn s, exists p, build ptn = Ok p /\ a_panicked (api false p 1000 s 0 0) = true.
Proof. exact backref_position_capture_panics. Qed.
Print Assumptions C15_backref_position_capture_panics.

(* gsub of matching.go differs from the manual: anchor ignored, count, empty result *)
Theorem C15_gsub_ignores_anchor_refuted :
  exists ptn s repl p, build ptn = Ok p /\
    fst (fst (gsub_im p 1000 s 0 repl (-1))) = DVals [CStr [120; 120; 120]; CPos 3] /\
    gsub_s p s repl (-1) = DVals [CStr [120; 97; 97]; CPos 1].
Proof. exact gsub_ignores_anchor_refuted. Qed.
Print Assumptions C15_gsub_ignores_anchor_refuted.

Theorem C15_gsub_count_refuted :
  exists ptn s repl p, build ptn = Ok p /\
    fst (fst (gsub_im p 1000 s 0 repl (-1))) = DVals [CStr [120]; CPos 2] /\
    gsub_s p s repl (-1) = DVals [CStr [120]; CPos 1].
Proof. exact gsub_count_refuted. Qed.
Print Assumptions C15_gsub_count_refuted.

Theorem C15_gsub_empty_result_refuted :
  exists ptn s p, build ptn = Ok p /\
    fst (fst (gsub_im p 1000 s 0 [] (-1))) = DVals [CStr s; CPos 1] /\
    gsub_s p s [] (-1) = DVals [CStr []; CPos 1].
Proof. exact gsub_empty_result_refuted. Qed.
Print Assumptions C15_gsub_empty_result_refuted.

(* string.match with init beyond the end and a ^ pattern: Go slice panic, manual nil *)
Theorem C15_match_beyond_end_refuted :
  exists ptn s p, build ptn = Ok p /\
    fst (match_im p 1000 s 0 4) = DPanic /\ match_s p s 4 = DNil.
Proof. exact match_beyond_end_refuted. Qed.
Print Assumptions C15_match_beyond_end_refuted.
