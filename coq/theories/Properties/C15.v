(* Properties/C15.v — statements only.  C15: Lua pattern matching follows the
   manual for every pattern and subject.
   Models: GV.Pattern.Build (builder.go), GV.Pattern.Machine (matcher.go,
   pattern.go), GV.Pattern.Spec (manual 6.4.1 as a structurally recursive
   backtracking matcher), GV.Pattern.Drivers (matching.go / lstrlib drivers).
   No axioms: every Print Assumptions below must say "Closed under the global context". *)
From Coq Require Import ZArith NArith List Bool.
From GV Require Import Pattern.Common Pattern.Build Pattern.Machine Pattern.Spec Pattern.Drivers
  Pattern.Top Pattern.Proofs Pattern.BuildProofs Pattern.Equiv Pattern.Full Pattern.Terminate Pattern.BuildWf Pattern.Main Pattern.Charges Pattern.DriverProofs Pattern.Refuted.
Import ListNotations.
Open Scope Z_scope.

(* The literal bit masks of byteset.go denote the character classes of the
   manual (%a %c %d %g %l %p %s %u %w %x and their complements) on every byte. *)
Theorem C15_masks_correct :
  forall k c lo up, In k class_letters -> 0 <= c < 256 ->
  named k = Some lo -> named (k - 32) = Some up ->
  bs_mem lo c = class_spec k c /\ bs_mem up c = negb (class_spec k c).
Proof. exact masks_correct. Qed.
Print Assumptions C15_masks_correct.

(* A range x-y inside a set denotes exactly the bytes c with x <= c <= y;
   a reversed range (x > y) denotes the empty set, as in reference Lua. *)
Theorem C15_range_spec :
  forall a b c, 0 <= a -> 0 <= b -> 0 <= c -> bs_mem (bs_range a b) c = (a <=? c) && (c <=? b).
Proof. exact bs_range_spec. Qed.
Print Assumptions C15_range_spec.

(* machine_equiv_spec, PARTIAL: for every item list made of single-class items
   with any repetition suffix (none * + - ?) and (position) captures — no
   back-references, no %b, no %f —, every subject, start position, end-anchor
   setting and initial capture array, the trackback machine (budget 0 = none)
   started as matchToEnd does halts for every fuel above some bound, never
   panics, and answers "match ending at e" exactly when the manual-level
   matcher Spec.M matches ending at e, "no match" exactly when Spec.M fails.
   Missing for the full statement: %n, %b, %f items; equality of the capture
   values (only the span is related); the find() loop over start positions;
   the explicit fuel bound; budgets > 0. *)
Theorem C15_machine_equiv_spec_partial :
  forall items ea s init c0, simple items = true -> 0 <= init <= slen s ->
  exists fuel, forall f, (fuel <= f)%nat ->
    match M ea s items init caps0 with
    | Some (e, _) => exists c', fst (run items ea s f 0 0 (start_state init c0)) = OMatch e c'
    | None => exists c', fst (run items ea s f 0 0 (start_state init c0)) = ONoMatch c'
    end.
Proof. exact machine_equiv_spec_partial. Qed.
Print Assumptions C15_machine_equiv_spec_partial.

(* the hypothesis is satisfiable by patterns using every repetition kind and captures *)
Theorem C15_simple_example :
  simple [ICapStart 1; ISingle Star 5%N; ISingle Lazy 6%N; ICapEnd 1; ICapStart 2;
          ISingle Plus 2%N; ISingle Opt 3%N; ISingle Once 1%N] = true.
Proof. exact simple_example. Qed.
Print Assumptions C15_simple_example.

(* Spec sanity — leftmost: what Spec.find_at returns is a match of Spec.M at
   the first start position that has one. *)
Theorem C15_spec_find_leftmost :
  forall ea s items n i st e c,
  find_at ea s items n i = Some (st, e, c) ->
  M ea s items st caps0 = Some (e, c) /\ i <= st < i + Z.of_nat n /\
  forall j, i <= j < st -> M ea s items j caps0 = None.
Proof. exact spec_find_leftmost. Qed.
Print Assumptions C15_spec_find_leftmost.

(* Spec sanity — greedy maximality / lazy minimality of a final repetition *)
Theorem C15_spec_star_last_maximal :
  forall s cls i c,
  M false s [ISingle Star cls] i c = Some (i + Z.of_nat (span cls (suffix s i)), c).
Proof. exact spec_star_last_maximal. Qed.
Print Assumptions C15_spec_star_last_maximal.

Theorem C15_spec_lazy_last_minimal :
  forall s cls i c, M false s [ISingle Lazy cls] i c = Some (i, c).
Proof. exact spec_lazy_last_minimal. Qed.
Print Assumptions C15_spec_lazy_last_minimal.

(* ---- machine_equiv_spec, full (round 2): every item kind, capture values, find() loop.

   Hypothesis: the compiled item list is well formed (Top.wfb: capture indices
   in 0..9, each capture index opened once, a back-reference names a capture
   opened before it and not closed after it).  The check evaluates
   Top.wf_pattern on every pattern the builder accepts (all true). *)

(* matchToEnd at one start position: the trackback machine (budget 0, any
   initial capture array) halts for all large fuel, never panics, matches
   ending at e with the captures of Spec.M on every opened slot exactly when
   Spec.M matches, and reports no match exactly when Spec.M fails. *)
Theorem C15_machine_equiv_spec_at :
  forall items ea s, wfb [] items = true -> forall init c0, 0 <= init <= slen s ->
  match M ea s items init caps0 with
  | Some (e, cS') =>
    exists c', Equiv.halts items ea s (start_state init c0) (OMatch e c') /\ caps_eq_on items c' cS'
  | None => exists c', Equiv.halts items ea s (start_state init c0) (ONoMatch c')
  end.
Proof. exact machine_equiv_spec_at. Qed.
Print Assumptions C15_machine_equiv_spec_at.

(* find(): the loop over start positions yields the leftmost match of the
   specification (Spec.find_at, see C15_spec_find_leftmost), same span, same captures. *)
Theorem C15_machine_equiv_spec_find :
  forall items ea s, wfb [] items = true -> forall n init c0,
  0 <= init -> init + Z.of_nat n <= slen s + 1 ->
  exists N, forall f, (N <= f)%nat -> forall u,
    match find_at ea s items n init with
    | Some (st, e, cS') =>
      exists c' u', findLoop items ea s n f 0 u init c0 = (OMatch e c', u', st) /\ caps_eq_on items c' cS'
    | None =>
      exists c' u', findLoop items ea s n f 0 u init c0 = (ONoMatch c', u', init + Z.of_nat n)
    end.
Proof. exact machine_equiv_spec_find. Qed.
Print Assumptions C15_machine_equiv_spec_find.

(* Pattern.Match / Pattern.MatchFromStart (incl. anchor handling and the
   recover()) return exactly the capture list of the specification, charge
   nothing when there is no budget, and never panic (no_panic of the machine). *)
Theorem C15_api_equiv_spec :
  forall fromStart p s init, wf_pattern p = true -> 0 <= init <= slen s ->
  exists N, forall f, (N <= f)%nat ->
    api fromStart p f s init 0 =
    mkApi (match spec_find_list p (fromStart && p_sanchor p) s init with
           | Some l => MCaps l | None => MNil end) 0 false.
Proof. exact api_equiv_spec. Qed.
Print Assumptions C15_api_equiv_spec.

(* the hypotheses are satisfiable by an item list using every item kind *)
Theorem C15_wf_example :
  wf_pattern (mkPattern [ICapStart 1; ISingle Star 5%N; ICapStart 2; ISingle Once 7%N; ICapEnd 2;
                         ICapEnd 1; IBackref 2; IFrontier 9%N; IBalanced 120 121; ICapStart 3;
                         ISingle Lazy 3%N; ISingle Plus 3%N; ISingle Opt 3%N] 3 true true) = true.
Proof. reflexivity. Qed.
Print Assumptions C15_wf_example.

(* with a budget B > 0 the machine either stops with the budget panic — and
   then at least B ticks were charged — or behaves exactly as without budget *)
Theorem C15_run_budget :
  forall items ea s f B u st,
  fst (run items ea s f B u st) = OBudget \/ run items ea s f B u st = run items ea s f 0 u st.
Proof. exact run_budget. Qed.
Print Assumptions C15_run_budget.

Theorem C15_run_budget_kill :
  forall items ea s f B u st, 0 < B -> u < B ->
  fst (run items ea s f B u st) = OBudget -> B <= snd (run items ea s f B u st).
Proof. exact run_budget_kill. Qed.
Print Assumptions C15_run_budget_kill.

(* start position beyond the end of the subject: no match, no panic (was
   C15_match_beyond_end_refuted before the repair of findFromStart) *)
Theorem C15_api_beyond_end :
  forall fromStart p f s init B, slen s < init ->
  a_res (api fromStart p f s init B) = MNil /\ a_panicked (api fromStart p f s init B) = false.
Proof. exact api_beyond_end. Qed.
Print Assumptions C15_api_beyond_end.

(* machine_terminates, explicit bound.  For EVERY item list (well formed or
   not), subject, state and budget: fuel >= mu st (a weight computed from the
   state) suffices; from a start state mu <= cost |s| items, where
     cost [] = 2;  cost (x* | x+ :: r) = 1 + (|s|+2) * cost r;  cost (x? :: r) = 1 + 3 * cost r;
     cost (x- :: r) = (|s|+1) * (1 + cost r);  cost (other :: r) = 1 + cost r. *)
Theorem C15_machine_terminates :
  forall items ea s fuel B u st,
  mu items s st <= Z.of_nat fuel -> fst (run items ea s fuel B u st) <> OOutOfFuel.
Proof. exact machine_terminates. Qed.
Print Assumptions C15_machine_terminates.

Theorem C15_mu_start : forall items s init c, mu items s (start_state init c) <= cost s items.
Proof. exact mu_start. Qed.
Print Assumptions C15_mu_start.

(* the extracted Match / MatchFromStart never answer "out of fuel" when run
   with fuel_bound s items = cost |s| items (the oracle reports whether its
   fixed fuel is above this bound for each case) *)
Theorem C15_api_terminates :
  forall fromStart p s init B fuel,
  (fuel_bound s (p_items p) <= fuel)%nat -> a_res (api fromStart p fuel s init B) <> MFuel.
Proof. exact api_terminates. Qed.
Print Assumptions C15_api_terminates.

(* the pattern compiler (model of builder.go) never raises a Go index panic,
   for every byte string given as a pattern *)
Theorem C15_build_no_panic : forall ptn, build ptn <> BPanic.
Proof. exact build_no_panic. Qed.
Print Assumptions C15_build_no_panic.

(* ---- round 3 *)

(* build_wf: every pattern string the compiler model accepts satisfies the
   well-formedness hypothesis of the simulation theorems *)
Theorem C15_build_wf : forall ptn p, build ptn = Ok p -> wf_pattern p = true.
Proof. exact build_wf. Qed.
Print Assumptions C15_build_wf.

(* the main statement, hypothesis-free and with explicit fuel: for every
   pattern string accepted by the compiler, every subject and start position,
   Pattern.Match / MatchFromStart (trackback machine + find loop + recover),
   run with fuel >= cost |s| items, return exactly the leftmost match and the
   captures of the manual-level matcher; no panic, no fuel exhaustion *)
Theorem C15_match_follows_manual :
  forall ptn p fromStart s init f,
  build ptn = Ok p -> 0 <= init <= slen s -> (fuel_bound s (p_items p) <= f)%nat ->
  api fromStart p f s init 0 =
  mkApi (match spec_find_list p (fromStart && p_sanchor p) s init with
         | Some l => MCaps l | None => MNil end) 0 false.
Proof. exact match_follows_manual. Qed.
Print Assumptions C15_match_follows_manual.

(* budget_charges ("matching work is charged"): steps <= Phi st + 2(|items|+2) * ticks,
   Phi (start state) <= |items| + 2, for every item list, subject and state *)
Theorem C15_budget_charges :
  forall items ea s f u st o u' n,
  runs items ea s f u st = (o, u', n) ->
  Z.of_nat n <= Phi items st + 2 * (Z.of_nat (length items) + 2) * (u' - u) /\ u <= u'.
Proof. exact budget_charges. Qed.
Print Assumptions C15_budget_charges.

Theorem C15_runs_is_run :
  forall items ea s f u st, fst (runs items ea s f u st) = run items ea s f 0 u st.
Proof. exact runs_run. Qed.
Print Assumptions C15_runs_is_run.

Theorem C15_Phi_start :
  forall items init c, Phi items (start_state init c) <= Z.of_nat (length items) + 2.
Proof. exact Phi_start. Qed.
Print Assumptions C15_Phi_start.

(* Spec: a match lies inside the subject and does not end before it starts *)
Theorem C15_spec_match_range :
  forall ea s items i c e c', 0 <= i <= slen s -> M ea s items i c = Some (e, c') -> i <= e <= slen s.
Proof. exact M_range. Qed.
Print Assumptions C15_spec_match_range.

(* gsub_progress: each iteration of the gsub loop / gmatch iterator moves the
   search position strictly forward and keeps it <= |s|+1, for every accepted
   pattern — empty matches included *)
Theorem C15_gsub_iteration_progress :
  forall fromStart ptn p s si f st en rest,
  build ptn = Ok p -> 0 <= si <= slen s -> (fuel_bound s (p_items p) <= f)%nat ->
  a_res (api fromStart p f s si 0) = MCaps ((st, en) :: rest) ->
  si < (if en <=? st then st + 1 else en) /\ (if en <=? st then st + 1 else en) <= slen s + 1.
Proof. exact gsub_iteration_progress. Qed.
Print Assumptions C15_gsub_iteration_progress.

(* gsub's 4th argument: a non-positive maximum means no replacement at all — in
   the specification and in the model of matching.go (negative n clamped to 0) *)
Theorem C15_gsub_s_nonpositive :
  forall p s repl n, n <= 0 -> gsub_s p s repl (Some n) = DVals [CStr s; CPos 0].
Proof. exact gsub_s_nonpositive. Qed.
Print Assumptions C15_gsub_s_nonpositive.

Theorem C15_gsub_im_nonpositive :
  forall p f s B repl n, n <= 0 -> gsub_im p f s B repl (Some n) = (DVals [CStr s; CPos 0], false).
Proof. exact gsub_im_nonpositive. Qed.
Print Assumptions C15_gsub_im_nonpositive.

(* ---- round 6 *)

(* %bxy: the closing delimiter is tested first, so %bxx matches x...x up to the next x *)
Theorem C15_balanced_close_first : forall x r c0, bal x x (x :: r) 1 c0 = (true, c0 + 1).
Proof. exact balanced_close_first. Qed.
Print Assumptions C15_balanced_close_first.

Theorem C15_balanced_same_delims_spec :
  forall ea s x i c rest, (exists r, suffix s i = x :: x :: r) ->
  M ea s (IBalanced x x :: rest) i c = M ea s rest (i + 2) c.
Proof. exact balanced_same_delims_spec. Qed.
Print Assumptions C15_balanced_same_delims_spec.

(* matching work is charged: steps + bytes looked at <= Phi + (2(|items|+2)+1) * ticks
   (a back-reference comparison now charges its length) *)
Theorem C15_work_charged :
  forall items ea s f u st o u' n,
  runs items ea s f u st = (o, u', n) ->
  Z.of_nat n + (u' - u) <= Phi items st + (2 * (Z.of_nat (length items) + 2) + 1) * (u' - u).
Proof. exact work_charged. Qed.
Print Assumptions C15_work_charged.

(* ---- refuted on the code as it stands (faithful IM; witness replayed on Go) *)

(* gsub of matching.go counts an empty match that it skips (pinned by the suite) *)
Theorem C15_gsub_count_refuted :
  exists ptn s repl p, build ptn = Ok p /\
    fst (gsub_im p 1000 s 0 repl None) = DVals [CStr [120]; CPos 2] /\
    gsub_s p s repl None = DVals [CStr [120]; CPos 1].
Proof. exact gsub_count_refuted. Qed.
Print Assumptions C15_gsub_count_refuted.
