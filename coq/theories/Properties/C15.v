(* Properties/C15.v — statements only.  C15: Lua pattern matching follows the
   manual for every pattern and subject.
   Models: GV.Pattern.Build (builder.go), GV.Pattern.Machine (matcher.go,
   pattern.go), GV.Pattern.Spec (manual 6.4.1 as a recursive matcher). *)
From Coq Require Import ZArith NArith List Bool.
From GV Require Import Pattern.Common Pattern.Build Pattern.Machine Pattern.Spec Pattern.Proofs.
Import ListNotations.
Open Scope Z_scope.

(* The literal bit masks of byteset.go denote the character classes of the
   manual (%a %c %d %g %l %p %s %u %w %x and their complements) on every byte. *)
Theorem C15_masks_correct :
  forall k c lo up, In k class_letters -> 0 <= c < 256 ->
  named k = Some lo -> named (k - 32) = Some up ->
  bs_mem lo c = class_spec k c /\ bs_mem up c = negb (class_spec k c).
Proof. exact masks_correct. Qed.
Print Assumptions C15_masks_correct.
