(* Properties/C07.v — statements only.  C07: nested execution contexts
   conserve budgets and report status truthfully.
   Model: GV.Ctx.Model (mirror of runtime/runtimecontextmanager.go,
   runtime/runtimecontext.go).  Every theorem quantifies over all histories of
   push/pop/require/release/stop operations with arbitrary 64-bit arguments. *)
From Coq Require Import ZArith List.
From GV Require Import Ctx.Model Ctx.Proofs Ctx.NestModel Ctx.Nest.
Import ListNotations.
Open Scope Z_scope.

(* The invariant (ranges, used < kill while live, soft <= hard, flags and
   budgets along the context stack) holds after every history. *)
Theorem C07_invariant_every_history :
  forall os, hist_ok os -> Inv (run init os).
Proof. exact reachable_inv. Qed.
Print Assumptions C07_invariant_every_history.

(* A child never has more hard budget than its parent has left; its soft
   limits never exceed its hard limits; its flags include the parent's. *)
Theorem C07_child_budget :
  forall now d os, hist_ok os -> def_ok d ->
  let p := cur (run init os) in
  let c := pushCtx now d p in
  (st p = Live -> 0 < cpu (hard p) -> 0 < cpu (hard c) /\ cpu (hard c) <= cpu (hard p) - cpu (used p)) /\
  (st p = Live -> 0 < mem (hard p) -> 0 < mem (hard c) /\ mem (hard c) <= mem (hard p) - mem (used p)) /\
  (st p = Live -> 0 < ms (hard p) -> ms (used p) < ms (hard p) ->
     0 < ms (hard c) /\ ms (hard c) <= ms (hard p) - ms (used p)) /\
  lim_le (cpu (hard c)) (cpu (dHard d)) /\ lim_le (mem (hard c)) (mem (dHard d)) /\
  lim_le (ms (hard c)) (ms (dHard d)) /\
  lim_le (cpu (soft c)) (cpu (hard c)) /\ lim_le (mem (soft c)) (mem (hard c)) /\
  lim_le (ms (soft c)) (ms (hard c)) /\
  N.ldiff (flags p) (flags c) = 0%N /\ N.ldiff (dFlags d) (flags c) = 0%N /\
  (0 < cpu (dHard d) -> N.testbit (flags c) 1 = true) /\
  (0 < mem (dHard d) -> N.testbit (flags c) 0 = true) /\
  (0 < ms (dHard d) -> N.testbit (flags c) 3 = true).
Proof. exact child_budget. Qed.
Print Assumptions C07_child_budget.

Theorem C07_used_lt_kill :
  forall os c, hist_ok os -> In c (cur (run init os) :: parents (run init os)) -> st c = Live ->
  (0 < cpu (hard c) -> cpu (used c) < cpu (hard c)) /\
  (0 < mem (hard c) -> mem (used c) < mem (hard c)).
Proof. exact used_lt_kill. Qed.
Print Assumptions C07_used_lt_kill.

Theorem C07_flags_monotone :
  forall os, hist_ok os ->
  let m := run init os in
  forall above c p below, cur m :: parents m = above ++ c :: p :: below ->
  N.ldiff (flags p) (flags c) = 0%N.
Proof. exact flags_monotone. Qed.
Print Assumptions C07_flags_monotone.

(* Conservation: whatever nesting, the consumption of a limited context and
   of everything nested inside it is below its hard limit. *)
Theorem C07_conservation_cpu :
  forall m above k below, Inv m -> all_live m -> cur m :: parents m = above ++ k :: below ->
  0 < cpu (hard k) -> sum_cpu (above ++ [k]) < cpu (hard k).
Proof. exact conservation_cpu. Qed.
Print Assumptions C07_conservation_cpu.

Theorem C07_conservation_mem :
  forall m above k below, Inv m -> all_live m -> cur m :: parents m = above ++ k :: below ->
  0 < mem (hard k) -> sum_mem (above ++ [k]) < mem (hard k).
Proof. exact conservation_mem. Qed.
Print Assumptions C07_conservation_mem.

(* Ending a child charges the parent with exactly what the child used and, in
   a state where no code ran in a dead context, cannot terminate the parent. *)
Theorem C07_pop_charges_parent :
  forall now c p rest,
  Inv (mkMgr c (p :: rest)) -> st c = Live -> st p = Live ->
  hard_stop p = false -> trackTime p = false ->
  exists p',
    pop now (mkMgr c (p :: rest)) = MOk (mkMgr p' rest) (Some (set_st c Done)) /\
    st p' = Live /\ same_frame p p' /\
    cpu (used p') = (if trackCpu p then u64 (cpu (used p) + cpu (used c)) else cpu (used p)) /\
    mem (used p') = (if trackMem p then u64 (mem (used p) + mem (used c)) else mem (used p)) /\
    (0 < cpu (hard p) -> cpu (used p') = cpu (used p) + cpu (used c)) /\
    (0 < mem (hard p) -> mem (used p') = mem (used p) + mem (used c)).
Proof. exact pop_charges_parent. Qed.
Print Assumptions C07_pop_charges_parent.

(* ... and the stack is popped on EVERY path of PopContext, including the ones where charging the parent terminates
   it (its time limit ran out while the child was running, or a stop was requested): the parent is current again
   when the termination unwinds, so the frame of the parent ends the parent's own context. *)
Theorem C07_pop_always_pops :
  forall now c p rest, parents (mres_mgr (pop now (mkMgr c (p :: rest)))) = rest.
Proof. exact pop_always_pops. Qed.
Print Assumptions C07_pop_always_pops.

(* Time limits are enforced promptly in a child too: a new context starts with its CPU counter AND its clock-check
   threshold at 0, so the first request of a context that tracks time reads the clock, and from then on the clock is
   read at least every 10000 ticks. *)
Theorem C07_child_clock_read_at_first_request :
  forall now0 d p now amt c',
  let c := pushCtx now0 d p in
  trackTime c = true -> 0 <= amt ->
  requireCPU now amt c = ROk c' ->
  ms (used c') = u64 (now - now0) /\ thr_ok c'.
Proof. exact child_clock_read_at_first_request. Qed.
Print Assumptions C07_child_clock_read_at_first_request.

Theorem C07_clock_read_every_10000_ticks :
  forall now amt c c',
  trackTime c = true -> thr_ok c -> 0 <= amt -> 0 <= cpu (used c) -> cpu (used c) + amt < W ->
  requireCPU now amt c = ROk c' -> thr_ok c'.
Proof. exact thr_ok_step. Qed.
Print Assumptions C07_clock_read_every_10000_ticks.

(* "when it ends, everything it consumed is charged to the parent" also when the charge itself terminates the parent
   by its time limit: the CPU of a request is recorded before the clock is looked at, and PopContext charges the memory
   before the CPU. *)
Theorem C07_time_kill_keeps_cpu :
  forall now amt c c' l, requireCPU now amt c = RTerm c' (TTime l) ->
  cpu (used c') = u64 (cpu (used c) + amt) /\ mem (used c') = mem (used c).
Proof. exact requireCPU_time_kill_keeps_cpu. Qed.
Print Assumptions C07_time_kill_keeps_cpu.

Theorem C07_pop_time_kill_keeps_charge :
  forall now c p rest p' l,
  pop now (mkMgr c (p :: rest)) = MTerm (mkMgr p' rest) (TTime l) ->
  (exists p1, requireMem (mem (used c)) p = ROk p1 /\
     ((cpu (used p') = u64 (cpu (used p1) + cpu (used c)) /\ mem (used p') = mem (used p1)) \/
      (exists p2, requireCPU now (cpu (used c)) p1 = ROk p2 /\ cpu (used p') = cpu (used p2) /\ mem (used p') = mem (used p2)))).
Proof. exact pop_time_kill_keeps_charge. Qed.
Print Assumptions C07_pop_time_kill_keeps_charge.

Theorem C07_due_iff :
  forall c, due c = true <->
  (soft_stop c = true \/ atLimit (cpu (used c)) (cpu (soft c)) = true
   \/ atLimit (mem (used c)) (mem (soft c)) = true \/ atLimit (ms (used c)) (ms (soft c)) = true).
Proof. exact due_iff. Qed.
Print Assumptions C07_due_iff.

(* CallContext level (Ctx/NestModel.v mirrors Thread.CallContext, on which
   pcall, xpcall and runtime.callcontext are built): for every tree of nested
   calls and every stream of requests, the context stack is balanced and the
   current frame unchanged when control comes back. *)
Theorem C07_callcontext_balanced :
  forall l m, Inv m -> calm m -> acts_ok l ->
  let '(m', r) := exec m l in
  Inv m' /\ parents m' = parents m /\ same_frame (cur m) (cur m') /\
  (r = Normal -> calm m') /\ (r = Terminated -> st (cur m') = Killed).
Proof. exact exec_balanced. Qed.
Print Assumptions C07_callcontext_balanced.

(* ... and the context object returned says how the call really ended:
   killed iff the body was terminated, error iff it returned an error, done
   otherwise; used is below kill. *)
Theorem C07_status_truthful :
  forall d body err m, Inv m -> calm m -> def_ok d -> notime d -> acts_ok body ->
  let '(m', r, ctxo) := call m d body err in
  (r = Normal \/ r = Panicked) /\ parents m' = parents m /\ calm m' /\
  exists c, ctxo = Some c /\
    st c = (match snd (exec (mres_mgr (push 0 d m)) body) with
            | Terminated => Killed
            | Normal => if err then Err else Done
            | Panicked => Done end) /\
    (r = Panicked <-> snd (exec (mres_mgr (push 0 d m)) body) = Panicked) /\
    within c.
Proof. exact call_status_truthful. Qed.
Print Assumptions C07_status_truthful.

(* Not a theorem of the code as it stands: the addition in requireCPU /
   requireMem is modulo 2^64, so a single request of 2^64-1 units is granted
   (see Proofs.requireCPU_wraps_refuted); without wrap-around the grant bound
   holds. *)
Theorem C07_grant_bound_nowrap :
  forall now amt c c', ctx_ok c -> st c = Live -> 0 < cpu (hard c) -> 0 <= amt ->
  cpu (used c) + amt < W ->
  requireCPU now amt c = ROk c' -> cpu (used c) + amt < cpu (hard c) /\ cpu (used c') = cpu (used c) + amt.
Proof. exact requireCPU_grant_bound. Qed.
Print Assumptions C07_grant_bound_nowrap.

(* ---- coroutines x contexts (Ctx/CoroModel.v mirrors the ONE context stack per runtime that all coroutines
   share, and the per-coroutine Go stacks of CallContext frames).  "No arrangement of nested callcontext, pcall or
   coroutine calls": if no coroutine is ever suspended inside an open CallContext frame, every frame ends exactly
   the context it created and the flags its open frames require are always in force ... *)
From GV Require Ctx.CoroModel Ctx.Coro.

Theorem C07_coroutines_disciplined_contexts_sound :
  forall l s o, CoroModel.run CoroModel.init l = Some (s, o) -> CoroModel.disciplined CoroModel.init l = true ->
  CoroModel.all_ok o = true /\ map CoroModel.eid (CoroModel.stack s) = map CoroModel.fr_id (Coro.frs s).
Proof. exact Coro.coro_disciplined_sound. Qed.
Print Assumptions C07_coroutines_disciplined_contexts_sound.

(* ... but golua lets a coroutine yield inside pcall, xpcall and runtime.callcontext, and then neither holds: a
   frame pops another thread's context (the object it returns describes the wrong context) and the body of a
   context requiring iosafe runs without iosafe in force.  Known finding context-stack-shared-by-coroutines;
   the witnesses are replayed on the implementation by lib/props/C07.py (and C08.py). *)
Theorem C07_coroutine_exit_pops_own_refuted :
  exists l s o, CoroModel.run CoroModel.init l = Some (s, o) /\ CoroModel.all_ok o = false /\
  exists own en, In (CoroModel.OExit own (Some en)) o /\ CoroModel.eid en <> own.
Proof. exact Coro.coro_exit_pops_own_refuted. Qed.
Print Assumptions C07_coroutine_exit_pops_own_refuted.

Theorem C07_coroutine_flags_in_force_refuted :
  exists l s o, CoroModel.run CoroModel.init l = Some (s, o) /\ In (CoroModel.OFlags 4 0) o.
Proof. exact Coro.coro_flags_in_force_refuted. Qed.
Print Assumptions C07_coroutine_flags_in_force_refuted.
