(* Properties/C03.v — statements only.  C03: tables behave as a map with
   normalised keys, a valid border and safe traversal.
   Model: GV.Table.Model (mirror of runtime/hashtable.go, runtime/table.go),
   GV.Table.ModelValue (Value.Equals, ToIntNoString), spec GV.Table.Spec.
   The hash function is universally quantified in every theorem. *)
From Coq Require Import ZArith NArith List Bool.
From GV Require Import Table.ModelValue Table.Model Table.Spec Table.ValueProofs.
Import ListNotations.

Theorem C03_norm_idempotent : forall v, norm (norm v) = norm v.
Proof. exact norm_idempotent. Qed.
Print Assumptions C03_norm_idempotent.
