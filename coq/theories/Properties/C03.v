(* Properties/C03.v — statements only.  C03: tables behave as a map with
   normalised keys, a valid border and safe traversal.
   Model: GV.Table.Model (mirror of runtime/hashtable.go, runtime/table.go),
   GV.Table.ModelValue (Value.Equals, ToIntNoString), spec GV.Table.Spec.
   The hash function is universally quantified in every theorem (Section variable);
   no theorem bounds sizes or history lengths.  The full refinement
   (get_refines / inv_preserved for the large-mode chains, len_is_border,
   traversal_exact) is NOT proved — see notes/C03.md; what is proved is listed
   here, and the faithful model REFUTES the traversal / key-identity / __newindex
   clauses of C03 on five witnesses (…_refuted), each replayed on the Go code. *)
From Coq Require Import ZArith NArith List Bool.
From GV Require Import Table.ModelValue Table.Model Table.Spec Table.ValueProofs Table.Proofs.
Import ListNotations.

(* --- key identity --- *)
(* Value.Equals = structural equality on all constructor-built values (short, long and empty
   strings through the packed scalar; ints through the 2^64 wrap; floats with NaN and +-0) *)
Theorem C03_equals_agrees : forall v w, wf v = true -> wf w = true -> equals v w = raw_eq v w.
Proof. exact equals_agrees. Qed.
Print Assumptions C03_equals_agrees.

Theorem C03_raw_eq_equivalence :
  (forall v, is_nan v = false -> raw_eq v v = true) /\
  (forall v w, raw_eq v w = raw_eq w v) /\
  (forall a b c, raw_eq a b = true -> raw_eq b c = true -> raw_eq a c = true).
Proof. exact (conj raw_eq_refl (conj raw_eq_sym raw_eq_trans)). Qed.
Print Assumptions C03_raw_eq_equivalence.

(* Lua equality = equality of the normalised keys; partial: the float/float case is not closed *)
Theorem C03_key_normalisation_partial : forall v w,
  (forall a b, v = VFlt a -> w = VFlt b -> False) -> raw_eq (norm v) (norm w) = lua_eq v w.
Proof. exact key_normalisation_partial. Qed.
Print Assumptions C03_key_normalisation_partial.

Theorem C03_norm_idempotent : forall v, norm (norm v) = norm v.
Proof. exact norm_idempotent. Qed.
Print Assumptions C03_norm_idempotent.

Theorem C03_stored_key_never_integral_float : forall v b, norm v = VFlt b -> float_to_int b = None.
Proof. exact norm_not_integral_float. Qed.
Print Assumptions C03_stored_key_never_integral_float.

(* --- lookups (any hash function, ANY state, no invariant) --- *)
(* half of get_refines: the hash part never returns the value of a key that is not Equals to the one asked for *)
Theorem C03_get_sound_partial : forall hash h k v, hfind hash h k = Ok v -> v <> VNil ->
  exists t s, h = Some t /\ In s (slots t) /\ equals (skey s) k = true /\ sval s = v.
Proof. exact hfind_sound. Qed.
Print Assumptions C03_get_sound_partial.

(* --- traversal stability (any hash function, any state) --- *)
(* assignment to an existing field through Table.Reset, and every clear, leaves the hash part's
   slot order, keys, links, flags, nextFree and base untouched, and the array size unchanged *)
Theorem C03_reset_keeps_shape : forall hash t k v t' b,
  treset hash t k v = Ok (t', b) ->
  hshape (hpart t') = hshape (hpart t) /\ asize (apart t') = asize (apart t).
Proof. intros. split; [eapply treset_hash_shape|eapply treset_array_size]; eassumption. Qed.
Print Assumptions C03_reset_keeps_shape.

(* non-vacuity of the model: all three insertion cases, a migration, a cleanup, every key retrievable *)
Theorem C03_demo_history :
  exists t, run hmod16 empty_table demo = Ok t /\
    forallb (fun i => match mget hmod16 t (VInt i) with Ok (VInt v) => Z.eqb v (i + 1000) | _ => false end)
            [100; 132; 101; 117; 20; 36; 52; 53; 37; 1; 2; 3; 4; 200; 216; 232; 5; 6; 7; 8]%Z = true /\
    mget hmod16 t (VInt 116) = Ok VNil.
Proof. exact demo_history_ok. Qed.
Print Assumptions C03_demo_history.
