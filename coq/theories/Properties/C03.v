(* Properties/C03.v — statements only.  C03: tables behave as a map with
   normalised keys, a valid border and safe traversal.
   Model: GV.Table.Model (mirror of runtime/hashtable.go, runtime/table.go),
   GV.Table.ModelValue (Value.Equals, ToIntNoString), spec GV.Table.Spec.
   The hash function is universally quantified in every theorem (Section variable);
   no theorem bounds sizes or history lengths.  Proved: key identity, lookup refinement
   (sound and complete under Inv), Reset/clear refinement with Inv preservation, insertion of a
   new key (map effect for all three cases; full Inv in small mode), len_is_border, shape
   preservation, and (round 3) the large-mode chain invariant: implies complete lookups, preserved by
   the three cases of insertNewKeyValue and by value updates, re-established by grow/cleanup.
   NOT proved: mixedTable.grow's array migration and therefore mixedTable.insert as a whole, the
   fold over whole histories (table_is_map), traversal_exact —
   see notes/C03.md. *)
From Coq Require Import ZArith NArith List Bool.
From GV Require Import Table.ModelValue Table.Model Table.Spec Table.ValueProofs Table.Proofs Table.Inv Table.Refine Table.RefineIns Table.RefineTable Table.Chains Table.ChainsIns Table.ChainsInv Table.TableInv Table.KeyCongruence Table.KeyTable.
Import ListNotations.

(* --- key identity --- *)
(* Value.Equals = structural equality on all constructor-built values (short, long and empty
   strings through the packed scalar; ints through the 2^64 wrap; floats with NaN and +-0) *)
Theorem C03_equals_agrees : forall v w, wf v = true -> wf w = true -> equals v w = raw_eq v w.
Proof. exact equals_agrees. Qed.
Print Assumptions C03_equals_agrees.

Theorem C03_raw_eq_equivalence :
  (forall v, is_nan v = false -> raw_eq v v = true) /\
  (forall v w, raw_eq v w = raw_eq w v) /\
  (forall a b c, raw_eq a b = true -> raw_eq b c = true -> raw_eq a c = true).
Proof. exact (conj raw_eq_refl (conj raw_eq_sym raw_eq_trans)). Qed.
Print Assumptions C03_raw_eq_equivalence.

(* Lua equality = equality of the normalised keys; partial: the float/float case is not closed *)
Theorem C03_key_normalisation_partial : forall v w,
  (forall a b, v = VFlt a -> w = VFlt b -> False) -> raw_eq (norm v) (norm w) = lua_eq v w.
Proof. exact key_normalisation_partial. Qed.
Print Assumptions C03_key_normalisation_partial.

Theorem C03_norm_idempotent : forall v, norm (norm v) = norm v.
Proof. exact norm_idempotent. Qed.
Print Assumptions C03_norm_idempotent.

Theorem C03_stored_key_never_integral_float : forall v b, norm v = VFlt b -> float_to_int b = None.
Proof. exact norm_not_integral_float. Qed.
Print Assumptions C03_stored_key_never_integral_float.

(* --- lookups (any hash function, ANY state, no invariant) --- *)
(* half of get_refines: the hash part never returns the value of a key that is not Equals to the one asked for *)
Theorem C03_get_sound_partial : forall hash h k v, hfind hash h k = Ok v -> v <> VNil ->
  exists t s, h = Some t /\ In s (slots t) /\ equals (skey s) k = true /\ sval s = v.
Proof. exact hfind_sound. Qed.
Print Assumptions C03_get_sound_partial.

(* --- traversal stability (any hash function, any state) --- *)
(* assignment to an existing field through Table.Reset, and every clear, leaves the hash part's
   slot order, keys, links, flags, nextFree and base untouched, and the array size unchanged *)
Theorem C03_reset_keeps_shape : forall hash t k v t' b,
  treset hash t k v = Ok (t', b) ->
  hshape (hpart t') = hshape (hpart t) /\ asize (apart t') = asize (apart t).
Proof. intros. split; [eapply treset_hash_shape|eapply treset_array_size]; eassumption. Qed.
Print Assumptions C03_reset_keeps_shape.

(* --- refinement of the abstract map (round 2).  Inv = array part (len is the index of the last non-nil)
   + hash part (HInv: size 2^base, cells well-formed/normalised/no duplicate key, nextFree = highest empty
   slot, lookups terminate and are complete).  abs t = the abstract map on normalised keys. --- *)

(* in the small-table mode lookups are complete whatever the state *)
Theorem C03_find_complete_small : forall hash sl mask, mask < smallHashTableSize -> length sl = S mask -> HFind hash sl mask.
Proof. exact HFind_small. Qed.
Print Assumptions C03_find_complete_small.

(* Get computes the abstract map (soundness AND completeness), any hash function, any size *)
Theorem C03_get_refines : forall hash t k, Inv hash t -> gkey (norm k) -> mget hash t k = Ok (abs t (norm k)).
Proof. exact mget_refines. Qed.
Print Assumptions C03_get_refines.

(* Reset (what t[k]=v uses for an existing field) and clears: invariant preserved, reports presence,
   and the abstract map is updated at exactly the keys Equals to the normalised key *)
Theorem C03_reset_refines : forall hash t k v t' b, Inv hash t -> gkey (norm k) ->
  treset hash t k v = Ok (t', b) ->
  Inv hash t' /\ b = negb (is_nil (abs t (norm k))) /\
  forall k', gkey k' -> abs t' k' = if b && equals (norm k) k' then v else abs t k'.
Proof. exact treset_refines. Qed.
Print Assumptions C03_reset_refines.

(* insertion of a NEW key into the hash part (small mode and all three cases of insertNewKeyValue,
   any hash function): no duplicate keys, nextFree right again, the abstract map gains exactly k => v;
   the whole invariant is re-established in the small-table mode.  _partial: completeness of lookups
   after a LARGE-mode insertion (chains I1-I3) is not proved, hence also not grow/cleanup. *)
Theorem C03_insert_new_key_partial : forall hash t k v t', HInv hash t -> gkey k -> kabsent (kvs (slots t)) k ->
  hinsertNew hash (Some t) k v = Ok t' ->
  length (slots t') = 2 ^ hbase t' /\ hbase t' = hbase t /\ KBase (kvs (slots t')) /\ nf_ok (slots t') (nextFree t') /\
  (forall k', gkey k' -> klook (kvs (slots t')) k' = if equals k k' then v else klook (kvs (slots t)) k') /\
  (hmask t < smallHashTableSize -> HInv hash t').
Proof. exact hinsertNew_spec. Qed.
Print Assumptions C03_insert_new_key_partial.

(* the length operator returns a border of the abstract map *)
Theorem C03_len_is_border : forall hash t l, Inv hash t -> mlen hash t = Ok l -> (Z.of_nat l + 1 < 9223372036854775808)%Z ->
  (l = 0 \/ abs t (VInt (Z.of_nat l)) <> VNil) /\ abs t (VInt (Z.of_nat l + 1)) = VNil.
Proof. exact len_is_border. Qed.
Print Assumptions C03_len_is_border.

(* --- round 3: the large-mode chain invariant (hashtable.go l.192-229, DESIGN Appendix D.1).
   Good sl mask R: R p is the rest of the chain whose head is slot p; (I1) p :: R p has no repetition and is a
   linked path ending without hasNext, (I2) every member's key has primary slot p, (I3) the head is not chained
   and sits in its primary slot, members are chained and occupied, every chained slot belongs to the chain of its
   primary slot whose head exists, empty slots carry no flags.
   hash_compat : Equals-equal (well-formed) values have equal hashes — true of Value.Hash after repair 3. --- *)

(* the chain invariant makes lookups terminate and complete (large mode) *)
Theorem C03_chains_give_complete_lookup : forall hash,
  (forall a b, wf a = true -> wf b = true -> equals a b = true -> hash a = hash b) ->
  forall sl b R, length sl = 2 ^ b -> smallHashTableSize <= 2 ^ b - 1 ->
  KBase (kvs sl) -> Good hash sl (2 ^ b - 1) R -> HFind hash sl (2 ^ b - 1).
Proof. exact Good_HFind. Qed.
Print Assumptions C03_chains_give_complete_lookup.

(* insertNewKeyValue — all three cases — preserves the chain invariant *)
Theorem C03_insert_preserves_chains : forall hash sl mask R k v nf sl' b,
  smallHashTableSize <= mask -> Good hash sl mask R -> nf_ok sl nf -> is_nil k = false ->
  insertNew hash sl mask k v nf = Ok (sl', b) -> exists R', Good hash sl' mask R'.
Proof. exact insertNew_Good. Qed.
Print Assumptions C03_insert_preserves_chains.

(* value updates (Reset, clears/tombstones, setExisting) do not touch the chain invariant: it depends on the shape only *)
Theorem C03_chains_depend_on_shape : forall hash sl sl' mask R,
  map shape sl = map shape sl' -> Good hash sl mask R -> Good hash sl' mask R.
Proof. exact Good_shape. Qed.
Print Assumptions C03_chains_depend_on_shape.

(* HInvG = size 2^base, unique normalised keys, nextFree, empty slots hold nothing, chains in large mode.
   It implies HInv (hence C03_get_refines applies) ... *)
Theorem C03_inv_gives_complete_lookup : forall hash,
  (forall a b, wf a = true -> wf b = true -> equals a b = true -> hash a = hash b) ->
  forall t, HInvG hash t -> HInv hash t.
Proof. exact HInvG_HInv. Qed.
Print Assumptions C03_inv_gives_complete_lookup.

(* ... and it is preserved by hashTable.insertNew in EVERY mode, the abstract map gaining exactly k => v
   (this closes the _partial of C03_insert_new_key_partial) *)
Theorem C03_inv_preserved_insert : forall hash,
  (forall a b, wf a = true -> wf b = true -> equals a b = true -> hash a = hash b) ->
  forall t k v t', HInvG hash t -> gkey k -> kabsent (kvs (slots t)) k ->
  hinsertNew hash (Some t) k v = Ok t' ->
  HInvG hash t' /\ hbase t' = hbase t /\
  (forall k', gkey k' -> klook (kvs (slots t')) k' = if equals k k' then v else klook (kvs (slots t)) k') /\
  (forall k2, kabsent (kvs (slots t)) k2 -> equals k k2 = false -> kabsent (kvs (slots t')) k2).
Proof. exact hinsertNew_G. Qed.
Print Assumptions C03_inv_preserved_insert.

(* grow and cleanup (copyItems = a fold of insertions into an empty table) re-establish the invariant,
   keep the abstract map (tombstones vanish) and introduce no key *)
Theorem C03_inv_preserved_grow : forall hash,
  (forall a b, wf a = true -> wf b = true -> equals a b = true -> hash a = hash b) ->
  forall h t', HInvGO hash h -> hgrow hash h = Ok t' ->
  HInvG hash t' /\ (forall k', gkey k' -> klook (kvs (slots t')) k' = habs h k') /\
  (forall k2, is_nil k2 = false -> (forall t, h = Some t -> kabsent (kvs (slots t)) k2) -> kabsent (kvs (slots t')) k2).
Proof. exact hgrow_G. Qed.
Print Assumptions C03_inv_preserved_grow.

Theorem C03_inv_preserved_cleanup : forall hash,
  (forall a b, wf a = true -> wf b = true -> equals a b = true -> hash a = hash b) ->
  forall t t', HInvG hash t -> hcleanup hash t = Ok t' ->
  HInvG hash t' /\ hbase t' = hbase t /\ (forall k', gkey k' -> klook (kvs (slots t')) k' = klook (kvs (slots t)) k') /\
  (forall k2, is_nil k2 = false -> kabsent (kvs (slots t)) k2 -> kabsent (kvs (slots t')) k2).
Proof. exact hcleanup_G. Qed.
Print Assumptions C03_inv_preserved_cleanup.

(* whole-table invariant InvG (array part + HInvG + no live array-range integer key in the hash part) is preserved
   by Table.Reset and every clear (with C03_reset_refines for the effect on the abstract map) *)
Theorem C03_inv_preserved_reset : forall hash,
  (forall a b, wf a = true -> wf b = true -> equals a b = true -> hash a = hash b) ->
  forall t k v t' b, InvG hash t -> gkey (norm k) -> treset hash t k v = Ok (t', b) -> InvG hash t'.
Proof. exact treset_G. Qed.
Print Assumptions C03_inv_preserved_reset.

(* traversal (partial): for a key held by slot i — live or tombstone — hashTable.next continues with the first
   live slot after position i; and positions never change under value updates (C03_reset_keeps_shape,
   C03_chains_depend_on_shape, findSlot depends on the shape only).  _partial: the statement "every key present
   throughout is visited exactly once" over a whole interleaved traversal (traversal_exact) is not proved. *)
Theorem C03_traversal_next_position_partial : forall hash,
  (forall a b, wf a = true -> wf b = true -> equals a b = true -> hash a = hash b) ->
  forall t k i s, HInvG hash t -> gkey k ->
  nth_error (slots t) i = Some s -> equals (skey s) k = true ->
  hnext hash (Some t) k = Ok (hnextFrom (slots t) (S i)).
Proof. exact hnext_position. Qed.
Print Assumptions C03_traversal_next_position_partial.

Theorem C03_position_stable : forall hash sl sl' mask k, map shape sl = map shape sl' ->
  findSlot hash sl mask k = findSlot hash sl' mask k.
Proof. exact position_stable. Qed.
Print Assumptions C03_position_stable.

(* --- round 6: key normalisation is a congruence for raw equality (value equality = table-key identity) --- *)
(* Lua equality of two values = structural equality of their normalised keys, ALL cases (closes C03_key_normalisation_partial:
   the float/float case uses the injectivity of the binary64 decoding on integral values, up to the sign of zero) *)
Theorem C03_key_normalisation : forall v w, wf v = true -> wf w = true -> raw_eq (norm v) (norm w) = lua_eq v w.
Proof. exact key_normalisation. Qed.
Print Assumptions C03_key_normalisation.

(* two values denote the same table key (their normalised keys are Equals) iff they are raw-equal *)
Theorem C03_same_key_iff_raw_equal : forall a b, wf a = true -> wf b = true -> equals (norm a) (norm b) = lua_eq a b.
Proof. exact same_key_iff_raw_equal. Qed.
Print Assumptions C03_same_key_iff_raw_equal.

(* RawEqual (rawequal, and == when no __eq is involved) computes the manual's equality, hence agrees with key identity *)
Theorem C03_rawequal_is_lua_equality : forall a b, wf a = true -> wf b = true ->
  raw_equal_go a b = lua_eq a b /\ raw_equal_go a b = equals (norm a) (norm b).
Proof. intros. split; [apply raw_equal_go_agrees|apply rawequal_iff_same_key]; auto. Qed.
Print Assumptions C03_rawequal_is_lua_equality.

(* raw-equal keys read the same entry of every table that satisfies the invariant *)
Theorem C03_get_respects_raw_equality : forall hash t a b, Inv hash t -> wf a = true -> wf b = true ->
  gkey (norm a) -> gkey (norm b) -> lua_eq a b = true -> mget hash t a = mget hash t b.
Proof. exact get_respects_raw_equality. Qed.
Print Assumptions C03_get_respects_raw_equality.

(* the hypotheses are satisfiable *)
Theorem C03_inv_nonvacuous : forall hash, Inv hash empty_table /\ HInv hash (mkH [empty_slot] (Some 0) 0).
Proof. intros. split; [apply Inv_empty|apply HInv_fresh]. Qed.
Print Assumptions C03_inv_nonvacuous.

(* the witnesses of the five repaired defects, on the positive side *)
Theorem C03_repaired_witnesses :
  (exists t t' b, run_ops (ints 8) = Ok t /\ treset hid t (VInt 8) VNil = Ok (t', b) /\ mnext hid t' (VInt 8) = Ok (VNil, VNil, true)) /\
  (exists t t', run_ops strs4 = Ok t /\ hfull (hpart t) = true /\ tset hid t (VStr [97%N]) (VInt 101) = Ok t' /\ hshape (hpart t') = hshape (hpart t)) /\
  (exists t, run_ops [OSet (VInt 1) (VInt 10); OSet (VInt 2) (VInt 20); OSet (VInt 0) (VInt 5)] = Ok t /\
     mnext hid t (VInt 2) = Ok (VInt 0, VInt 5, true) /\ mnext hid t (VInt 0) = Ok (VNil, VNil, true)) /\
  (exists t t', run_ops [OSet (VInt 6) (VInt 1)] = Ok t /\ treset hid t (VFlt 4618441417868443648) (VInt 3) = Ok (t', true) /\
     mget hid t' (VInt 6) = Ok (VInt 3)).
Proof. exact (conj witness_clear_last_array_slot (conj witness_set_existing_when_full (conj witness_next_zero witness_reset_float))). Qed.
Print Assumptions C03_repaired_witnesses.

(* non-vacuity of the model: all three insertion cases, a migration, a cleanup, every key retrievable *)
Theorem C03_demo_history :
  exists t, run hmod16 empty_table demo = Ok t /\
    forallb (fun i => match mget hmod16 t (VInt i) with Ok (VInt v) => Z.eqb v (i + 1000) | _ => false end)
            [100; 132; 101; 117; 20; 36; 52; 53; 37; 1; 2; 3; 4; 200; 216; 232; 5; 6; 7; 8]%Z = true /\
    mget hmod16 t (VInt 116) = Ok VNil.
Proof. exact demo_history_ok. Qed.
Print Assumptions C03_demo_history.

(* ---------- Round 8: mixedTable.grow ---------- *)
From GV Require Import Table.Migrate Table.MigrateGrow.

(* the migration loop of mixedTable.grow, for ANY slot list and array: the array keeps its size; slot i becomes the same slot
   with its value nil'd iff it is live with an integer key in 1..size (movedb), otherwise it is untouched; cell m of the new
   array holds the value of a moved slot of key m+1, or its old content when no moved slot has that key; the array invariant
   (len = last non-nil) is preserved *)
Theorem C03_migrate_spec : forall sl arr sl' arr', migrate sl arr = (sl', arr') ->
  let n := length (avalues arr) in
  length (avalues arr') = n /\
  (forall i s, nth_error sl i = Some s -> nth_error sl' i = Some (if movedb n s then set_val s VNil else s)) /\
  length sl' = length sl /\
  (forall m, (exists s, In s sl /\ movedb n s = true /\ skey s = VInt (Z.of_nat (S m)) /\ nth m (avalues arr') VNil = sval s)
     \/ ((forall s, In s sl -> movedb n s = true -> skey s <> VInt (Z.of_nat (S m))) /\
         nth m (avalues arr') VNil = nth m (avalues arr) VNil)) /\
  (AInv (Some arr) -> AInv (Some arr')).
Proof. exact migrate_spec. Qed.
Print Assumptions C03_migrate_spec.

(* mixedTable.grow as a whole (hash growth with / without integer keys, and array growth + migration + cleanup):
   the whole-table invariant InvG is preserved, the abstract map is unchanged on every good key, a hash part exists
   afterwards, the array part does not shrink, and a key absent from the hash part stays absent from it.
   (InvG is satisfiable: InvG_empty; a migration is exercised by C03_demo_history.) *)
Theorem C03_grow_preserves_inv_and_map : forall hash,
  (forall a b, wf a = true -> wf b = true -> equals a b = true -> hash a = hash b) ->
  forall t t', InvG hash t -> mgrow hash t = Ok t' ->
  InvG hash t' /\ (forall k', gkey k' -> abs t' k' = abs t k') /\
  (exists h', hpart t' = Some h') /\ asize (apart t) <= asize (apart t') /\
  (forall k2, is_nil k2 = false -> (forall h, hpart t = Some h -> kabsent (kvs (slots h)) k2) ->
     forall h', hpart t' = Some h' -> kabsent (kvs (slots h')) k2).
Proof. exact mgrow_G. Qed.
Print Assumptions C03_grow_preserves_inv_and_map.
