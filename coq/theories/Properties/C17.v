(* Properties/C17.v — statements only.  C17: value serialisation round trips
   (string.pack/unpack/packsize, %q + load, tostring/tonumber).
   Models: GV.Pack.Model (packformatreader.go, packer.go, unpacker.go, packsize.go),
   GV.Pack.QuoteModel (strconv.Quote as used by format.go's quote(); Lua string
   literals per manual 3.1), GV.Pack.NumStrModel. *)
From Coq Require Import ZArith List.
From GV Require Import Pack.NumStrModel Pack.NumStrProofs Pack.Model Pack.Bytes Pack.IntRound Pack.Lockstep Pack.Total
  Pack.QuoteModel Pack.QuoteProofs Pack.QuoteRound Pack.SizeAgree Pack.FmtModel Pack.FmtProofs.
Import ListNotations.
Open Scope Z_scope.

(* binary.Read after binary.Write, either byte order, any width *)
Theorem C17_dec_enc : forall lt k v, dec lt (enc lt k v) = v mod 256 ^ Z.of_nat k.
Proof. exact dec_enc. Qed.
Print Assumptions C17_dec_enc.

(* Integer core of unpack∘pack: for every width k = 1..16, both byte orders, every int64 v that
   packInt (resp. packUint) accepts, what is written is read back by readVarInt (readVarUint)
   as exactly v, consuming exactly the bytes written, whatever follows. *)
Theorem C17_int_roundtrip : forall (k : nat) v s s',
  (1 <= k <= 16)%nat -> - H <= v < H ->
  packInt (Z.of_nat k) v s = PCont s' ->
  exists bs, s' = p_write s bs /\
    forall us t kont, little (u_rd us) = little (p_rd s) -> u_rest us = bs ++ t ->
      readVarInt (Z.of_nat k) us kont = kont v (u_adv us (len bs)).
Proof. exact int_roundtrip. Qed.
Print Assumptions C17_int_roundtrip.

Theorem C17_uint_roundtrip : forall (k : nat) v s s',
  (1 <= k <= 16)%nat -> - H <= v < H ->
  packUint (Z.of_nat k) v s = PCont s' ->
  exists bs, s' = p_write s bs /\
    forall us t kont, little (u_rd us) = little (p_rd s) -> u_rest us = bs ++ t ->
      readVarUint (Z.of_nat k) us kont = kont v (u_adv us (len bs)).
Proof. exact uint_roundtrip. Qed.
Print Assumptions C17_uint_roundtrip.

(* string.unpack(fmt, string.pack(fmt, v...)) returns v... and the next position: every format
   string (every option: < > = ![n] b B h H l L j J T i[n] I[n] f d n s[n] z c[n] x X and spaces,
   alignment and padding included) and every tuple of values that pack accepts.  [packed] is
   the list of values as pack converted them (integers as int64, floats as bit patterns, c[n]
   strings padded); val_ok only says that integers are int64, floats 64-bit patterns and
   strings shorter than 2^63. *)
Theorem C17_unpack_pack : forall fmt vs out packed,
  Forall val_ok vs ->
  pack fmt vs = POk out packed ->
  unpack fmt out 0 = UOk packed (len out).
Proof. exact unpack_pack. Qed.
Print Assumptions C17_unpack_pack.

(* no_panic / termination of the reader, packer, unpacker, packsize: all inputs *)
Theorem C17_pack_total : forall fmt vs, pack fmt vs <> POutOfFuel.
Proof. exact pack_total. Qed.
Print Assumptions C17_pack_total.

Theorem C17_unpack_no_panic : forall fmt data j,
  unpack fmt data j <> UPanic /\ unpack fmt data j <> UOutOfFuel.
Proof. exact unpack_no_panic. Qed.
Print Assumptions C17_unpack_no_panic.

Theorem C17_packsize_total : forall fmt, packsize fmt <> SOutOfFuel.
Proof. exact packsize_total. Qed.
Print Assumptions C17_packsize_total.

(* a format containing a character that is neither an option nor a digit is an error *)
Theorem C17_malformed_format_is_error : forall fmt vs x,
  In x fmt -> ~ In x supported -> is_digit x = false -> exists e, pack fmt vs = PErr e.
Proof. exact malformed_format_is_error. Qed.
Print Assumptions C17_malformed_format_is_error.

(* load('return ' .. string.format('%q', s))() == s for EVERY byte string; unicode.IsPrint is
   arbitrary except that it rejects LF and CR (it is 0x20..0x7e on ASCII in Go). *)
Theorem C17_quote_load_string : forall is_print : Z -> bool,
  is_print 10 = false -> is_print 13 = false ->
  forall s, QuoteRound.bytes_ok s -> lua_string_literal (quote is_print s) = Some s.
Proof. exact quote_load_string. Qed.
Print Assumptions C17_quote_load_string.

(* %q of an integer read back by the manual's rules for integer literals, every int64 incl. mininteger *)
Theorem C17_quote_load_int : forall n, minint <= n <= maxint -> lit_int (quote_int n) = Some n.
Proof. exact quote_load_int. Qed.
Print Assumptions C17_quote_load_int.

(* tonumber(tostring(n)) == n for every int64 (strconv.ParseInt after strconv.FormatInt) *)
Theorem C17_tonumber_tostring_int : forall n, minint <= n <= maxint -> parse_int (format_int n) = Some n.
Proof. exact tonumber_tostring_int. Qed.
Print Assumptions C17_tonumber_tostring_int.

(* digit generation of %d %x %X %o %u: the digits printed in any base 2..36 denote the number *)
Theorem C17_digits_denote : forall b up n, 2 <= b <= 36 -> 0 <= n -> parse_digits b (digits up b n) 0 = Some n.
Proof. intros; now apply parse_digits_digits. Qed.
Print Assumptions C17_digits_denote.

(* string.packsize(fmt) = #string.pack(fmt, ...) whenever both succeed (fixed-size formats) *)
Theorem C17_packsize_agrees : forall fmt vs out packed n,
  pack fmt vs = POk out packed -> packsize fmt = SOk n -> n = Model.len out.
Proof. exact packsize_agrees. Qed.
Print Assumptions C17_packsize_agrees.

(* %d %i %u %x %X %o with flags, width and precision: format.go (translation to Go verbs, Go's
   fmtInteger/pad, and the C-style rendering added for '#' and for an explicit sign with precision 0
   and value 0) against ISO C printf (c_fmt), for every flag combination C defines (c_defined),
   every width, every precision and every integer argument. *)
Theorem C17_format_int_directives : forall c sp n,
  c_defined c sp = true -> go_fmt c sp n = c_fmt c sp n.
Proof. exact format_int_directives. Qed.
Print Assumptions C17_format_int_directives.

Theorem C17_format_c_directive : forall sp n, go_fmt_c sp n = c_fmt_c sp n.
Proof. exact format_c_directive. Qed.
Print Assumptions C17_format_c_directive.

(* %s with '-', width and precision: bytes, not runes *)
Theorem C17_format_s_directive : forall sp s,
  (match prec sp with Some p => 0 <= p | None => True end) -> go_fmt_s sp s = c_fmt_s sp s.
Proof. exact format_s_directive. Qed.
Print Assumptions C17_format_s_directive.
