(* Properties/C17.v — statements only.  C17: value serialisation round trips
   (string.pack/unpack/packsize, %q + load, tostring/tonumber).
   Models: GV.Pack.Model (packformatreader.go, packer.go, unpacker.go, packsize.go),
   GV.Pack.QuoteModel (strconv.Quote as used by format.go's quote(); Lua string
   literals per manual 3.1), GV.Pack.NumStrModel. *)
From Coq Require Import ZArith List.
From GV Require Import Pack.NumStrModel Pack.Model Pack.Bytes Pack.IntRound Pack.Lockstep Pack.QuoteModel Pack.QuoteProofs.
Import ListNotations.
Open Scope Z_scope.

(* binary.Read after binary.Write, either byte order, any width *)
Theorem C17_dec_enc : forall lt k v, dec lt (enc lt k v) = v mod 256 ^ Z.of_nat k.
Proof. exact dec_enc. Qed.
Print Assumptions C17_dec_enc.

(* Integer core of unpack∘pack: for every width k = 1..16, both byte orders, every int64 v that
   packInt (resp. packUint) accepts, what is written is read back by readVarInt (readVarUint)
   as exactly v, consuming exactly the bytes written, whatever follows. *)
Theorem C17_int_roundtrip : forall (k : nat) v s s',
  (1 <= k <= 16)%nat -> - H <= v < H ->
  packInt (Z.of_nat k) v s = PCont s' ->
  exists bs, s' = p_write s bs /\
    forall us t kont, little (u_rd us) = little (p_rd s) -> u_rest us = bs ++ t ->
      readVarInt (Z.of_nat k) us kont = kont v (u_adv us (len bs)).
Proof. exact int_roundtrip. Qed.
Print Assumptions C17_int_roundtrip.

Theorem C17_uint_roundtrip : forall (k : nat) v s s',
  (1 <= k <= 16)%nat -> - H <= v < H ->
  packUint (Z.of_nat k) v s = PCont s' ->
  exists bs, s' = p_write s bs /\
    forall us t kont, little (u_rd us) = little (p_rd s) -> u_rest us = bs ++ t ->
      readVarUint (Z.of_nat k) us kont = kont v (u_adv us (len bs)).
Proof. exact uint_roundtrip. Qed.
Print Assumptions C17_uint_roundtrip.

(* Whole-format round trip over the option loop (lockstep of PackValues and UnpackString):
   for every format string and every tuple of int64 / 64-bit-float values that pack accepts,
   unpack of the packed string returns the packed values and the position after the last byte.
   _partial: every option character the packer dispatches on must be one of
   < > = ! b B h H l j L J T i I d n x X or space (all widths, alignment, X included);
   the string options s z c and the float32 option f are not yet covered. *)
Theorem C17_unpack_pack_partial : forall fmt vs out packed,
  Forall val_ok vs ->
  dispatched_ok (S (length fmt)) (mkP rd0 fmt vs [] []) ->
  pack fmt vs = POk out packed ->
  unpack fmt out 0 = UOk packed (len out).
Proof. exact unpack_pack_partial. Qed.
Print Assumptions C17_unpack_pack_partial.

(* The round-1 witness against load(%q s) = s (U+200B) round-trips on the repaired quoting,
   whatever unicode.IsPrint answers for it.  (The universal quote_load_string is not proved yet.) *)
Theorem C17_quote_load_former_witness :
  forall is_print, lua_string_literal (quote is_print [226; 128; 139]) = Some [226; 128; 139].
Proof. exact quote_load_u200b. Qed.
Print Assumptions C17_quote_load_former_witness.
