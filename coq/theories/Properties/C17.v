(* Properties/C17.v — statements only.  C17: value serialisation round trips. *)
From Coq Require Import ZArith List.
From GV Require Import Pack.NumStrModel Pack.Model Pack.Bytes.
Import ListNotations.
Open Scope Z_scope.

Theorem C17_dec_enc : forall lt k v, dec lt (enc lt k v) = v mod 256 ^ Z.of_nat k.
Proof. exact dec_enc. Qed.
Print Assumptions C17_dec_enc.
