(* Properties/C17.v — statements only.  C17: value serialisation round trips
   (string.pack/unpack/packsize, %q + load, tostring/tonumber).
   Models: GV.Pack.Model (packformatreader.go, packer.go, unpacker.go, packsize.go),
   GV.Pack.QuoteModel (strconv.Quote as used by format.go's quote(); Lua string
   literals per manual 3.1), GV.Pack.NumStrModel. *)
From Coq Require Import ZArith List.
From GV Require Import Pack.NumStrModel Pack.Model Pack.Bytes Pack.IntRound Pack.QuoteModel Pack.QuoteProofs.
Import ListNotations.
Open Scope Z_scope.

(* binary.Read after binary.Write, either byte order, any width *)
Theorem C17_dec_enc : forall lt k v, dec lt (enc lt k v) = v mod 256 ^ Z.of_nat k.
Proof. exact dec_enc. Qed.
Print Assumptions C17_dec_enc.

(* Integer core of unpack∘pack: for every width k = 1..16, both byte orders, every int64 v
   that packInt accepts (i[k]; b h l j are the k = 1, 2, 8 instances), with any bytes
   written before and any bytes following, readVarInt at the position where packInt
   started returns exactly v and stops exactly where packInt stopped. *)
Theorem C17_unpack_pack_int_partial : forall (k : nat) v s s' t us kont,
  (1 <= k <= 16)%nat -> - H <= v < H ->
  packInt (Z.of_nat k) v s = PCont s' ->
  little (u_rd us) = little (p_rd s) -> u_j us = len (p_w s) ->
  readVarInt (p_w s' ++ t) (Z.of_nat k) us kont = kont v (u_set_j us (len (p_w s'))).
Proof. exact int_roundtrip. Qed.
Print Assumptions C17_unpack_pack_int_partial.

(* load(%q s) = s is false of the code as it stands (any IsPrint that rejects U+200B) *)
Theorem C17_quote_load_string_refuted :
  forall is_print, is_print 8203 = false ->
  exists s, lua_string_literal (quote is_print s) <> Some s.
Proof. exact quote_load_string_refuted. Qed.
Print Assumptions C17_quote_load_string_refuted.
