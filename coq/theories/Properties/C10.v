(* Properties/C10.v — statements only.  C10: to-be-closed variables are closed
   exactly once, in reverse order, on every exit, with the in-flight error;
   handler errors replace it and the rest still run; a pending close disables
   tail calls.
   Models: GV.Close.Skel (skeleton language, structural reference semantics,
   trace predicates brackets/errflow), GV.Close.Compile (mirror of
   ir/context.go, ir/builder.go, the scope cases of astcomp/compstat.go),
   GV.Close.VMclose (mirror of the run-time close stack: runtime/thread.go,
   runtime/luacont.go, lib/base/pcall.go).
   Every theorem about the reference semantics quantifies over ALL skeleton
   programs (blocks, locals, <close>, loops, break, goto/labels, calls, pcall,
   coroutines closed while suspended, raise, return), all decision streams and
   all amounts of fuel; `Done` = the run terminated within the fuel.
   No axioms. *)
From Coq Require Import List Arith.
From GV Require Import Close.Skel Close.Compile Close.VMclose Close.CompileProofs Close.RefProofs Close.SimProofs Close.NoClosed Close.FragL Close.FragA Close.SimA Close.Boundary.
Import ListNotations.

(* exactly once: every closable value is closed as often as it was created *)
Theorem C10_close_exactly_once : forall fuel b d ev o id,
  run_ref fuel b d = Done (ev, o) -> count_close id ev = count_open id ev.
Proof. exact close_exactly_once. Qed.
Print Assumptions C10_close_exactly_once.

(* reverse order: closes are well bracketed with the creations (each close is
   that of the innermost pending variable) and nothing is pending at the end *)
Theorem C10_close_reverse_order : forall fuel b d ev o,
  run_ref fuel b d = Done (ev, o) -> brackets [] ev = Some [].
Proof. exact close_reverse_order. Qed.
Print Assumptions C10_close_reverse_order.

(* before the receiver: the trace of every statement / scope / loop — for
   every exit kind — is balanced on its own, so nothing it declared is still
   pending when the code that receives control emits its first event *)
Theorem C10_close_before_receiver : forall fuel,
  (forall t s ev o s', run_stmt fuel t s = Done (ev, o, s') -> forall p, brackets p ev = Some p) /\
  (forall endc b s ev o s', run_scope fuel endc b b s = Done (ev, o, s') -> forall p, brackets p ev = Some p) /\
  (forall rep b s ev o s', run_loop fuel rep b s = Done (ev, o, s') -> forall p, brackets p ev = Some p).
Proof. exact close_before_receiver. Qed.
Print Assumptions C10_close_before_receiver.

(* in-flight error: every handler gets the error in flight (nil on normal
   exits), ordinary code never runs while an error is in flight, pcall and the
   coroutine boundary report it *)
Theorem C10_close_gets_inflight_error : forall fuel b d ev o,
  run_ref fuel b d = Done (ev, o) -> errflow None ev = Some (err_of o).
Proof. exact close_gets_inflight_error. Qed.
Print Assumptions C10_close_gets_inflight_error.

(* a handler's error replaces the error in flight (the next handler gets it)
   and the remaining handlers still run (the trace stays complete) *)
Theorem C10_handler_error_replaces_and_rest_still_run :
  forall fuel b d ev o pre id a h mid id' a' post,
  run_ref fuel b d = Done (ev, o) ->
  ev = pre ++ EvClose id a :: EvRaise h :: mid ++ EvClose id' a' :: post ->
  (forall e, In e mid -> match e with EvOpen _ | EvClose _ _ => True | _ => False end) ->
  brackets [] ev = Some [] /\ (mid = [] -> a' = Some h).
Proof. exact handler_error_replaces_and_rest_still_run. Qed.
Print Assumptions C10_handler_error_replaces_and_rest_still_run.

Theorem C10_non_closable_value_is_error : forall fuel endc id rest s,
  run_block (S fuel) endc (BCons (SLocal (VBad id)) rest) s = Done ([EvRaise EMissing], OError EMissing, s).
Proof. exact non_closable_value_is_error. Qed.
Print Assumptions C10_non_closable_value_is_error.

(* A pending close action disables the tail call (and only that does). *)
Theorem C10_tailcall_disabled_with_pending_close :
  forall cx n tl fb ec body c n',
    0 < top_height cx ->
    compile_stats cx n tl fb ec (BRet (RCall body)) = Some (c, n') ->
    exists c', compile_fun body = Some c' /\ c = [ICall c'; IRet].
Proof. exact tailcall_disabled_with_pending_close. Qed.
Print Assumptions C10_tailcall_disabled_with_pending_close.

Theorem C10_tailcall_when_nothing_pending :
  forall cx n tl fb ec body c n',
    top_height cx = 0 ->
    compile_stats cx n tl fb ec (BRet (RCall body)) = Some (c, n') ->
    exists c', compile_fun body = Some c' /\ c = [ITailCall c'].
Proof. exact tailcall_when_nothing_pending. Qed.
Print Assumptions C10_tailcall_when_nothing_pending.

(* A whole program always ends normally at its protected call: outside a
   coroutine nothing is ever "closed" (the premise the stage-2 theorem needed). *)
Theorem C10_run_ref_normal : forall fuel b d ev o, run_ref fuel b d = Done (ev, o) -> o = ONormal.
Proof. exact run_ref_normal. Qed.
Print Assumptions C10_run_ref_normal.

(* compile_correct : run_vm (compile p) = run_ref p — the compiler-correctness
   theorem of the close-stack slice for the WHOLE skeleton language, without any
   restriction on the program: blocks, locals of all kinds, `local <close>`,
   while / repeat (condition evaluated before the body's closes) / generic for
   (with its closing value), break, goto and labels anywhere (labels declared per
   scope by getLabels — every local statement opens a nested scope —, back labels
   by getBackLabels, restart at a label, the VM's eager truncation on a jump to a
   back label against the reference semantics' lazy closing), if, calls,
   `return f()` with and without pending closes, nested pcall, coroutines closed
   while suspended, yield, raise, return, at any nesting depth.  For every
   program, decision stream and fuel on which the reference semantics
   terminates: if the program compiles (goto targets visible, labels unique, break
   inside a loop), the close-stack VM run on the compiled code terminates with
   exactly the reference semantics' events and outcome.
   (Invariants H1/H2 of DESIGN Appendix D.4; proof in Close/SimA.v: one induction
   on the reference semantics' fuel; Close/FragA.v: getLabels/getBackLabels
   specification, "a visible name is never a label of a nested scope", the code
   behind a back label; no fuel, size or depth bound anywhere.) *)
Theorem C10_compile_correct : forall b fuel d ev o c,
  run_ref fuel b d = Done (ev, o) -> compile b = Some c ->
  exists fuel', run_vm fuel' c d = Done (ev, vout_of o).
Proof. exact compile_correct. Qed.
Print Assumptions C10_compile_correct.

(* The former refutation witness (coroutine.close of a coroutine suspended
   inside pcall): with Thread.CallContext repaired, the VM model agrees with the
   reference semantics on it. *)
Theorem C10_coroutine_close_through_pcall_closes :
  exists c, compile coclose_witness = Some c /\
    run_ref 50 coclose_witness [] = Done ([EvOpen 1; EvClose 1 None; EvCo None; EvPcall None], ONormal) /\
    run_vm 50 c [] = Done ([EvOpen 1; EvClose 1 None; EvCo None; EvPcall None], VReturn).
Proof. exact coroutine_close_through_pcall_closes. Qed.
Print Assumptions C10_coroutine_close_through_pcall_closes.

(* The invariant at a Go boundary.  Every place where Go code runs Lua code and
   may get an error back — pcall's CallContext, but also load with a reader
   function, a debug hook, a __gc finaliser, a sort comparator, a gsub
   replacement function, a metamethod called by a library function — must leave
   the close stack as it found it: when the Go code receives the error, the
   to-be-closed variables of the abandoned run have been closed with it.
   In golua: Thread.RunContinuation + closePending to the height before the
   run; in the model: exec of the callee from base = height before the call,
   then cleanup to that height.
   exec_frame: a continuation never touches the close-stack entries below its
   base and leaves nothing above it when it returns. *)
Theorem C10_close_stack_frame_discipline : forall fuel whole rest base s ev o s1 up low,
  exec fuel whole rest base s = Done (ev, o, s1) -> stack s = up ++ low -> length low = base -> o <> VPanic ->
  exists up', stack s1 = up' ++ low /\ (o = VReturn -> up' = []).
Proof. exact exec_frame. Qed.
Print Assumptions C10_close_stack_frame_discipline.

Theorem C10_go_boundary_restores_close_stack : forall fuel c s ev o s1,
  exec fuel c c (length (stack s)) s = Done (ev, o, s1) ->
  (o = VReturn \/ exists x, o = VError x) ->
  snd (fst (cleanup (stack s1) (length (stack s)) (match o with VError x => Some x | _ => None end))) = stack s
  /\ (o = VReturn -> stack s1 = stack s).
Proof. exact go_boundary_restores_close_stack. Qed.
Print Assumptions C10_go_boundary_restores_close_stack.
