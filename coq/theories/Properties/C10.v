(* Properties/C10.v — statements only.  C10: to-be-closed variables are closed
   exactly once, in reverse order, on every exit, with the in-flight error.
   Models: GV.Close.Skel (skeleton language + structural reference semantics),
   GV.Close.Compile (mirror of ir/context.go, ir/builder.go, the scope cases of
   astcomp/compstat.go), GV.Close.VMclose (mirror of the run-time close stack). *)
From Coq Require Import List Arith.
From GV Require Import Close.Skel Close.Compile Close.VMclose Close.CompileProofs.
Import ListNotations.

(* A pending close action disables the tail call. *)
Theorem C10_tailcall_disabled_with_pending_close :
  forall cx n tl fb ec body c n',
    0 < top_height cx ->
    compile_stats cx n tl fb ec (BRet (RCall body)) = Some (c, n') ->
    exists c', compile_fun body = Some c' /\ c = [ICall c'; IRet].
Proof. exact tailcall_disabled_with_pending_close. Qed.
Print Assumptions C10_tailcall_disabled_with_pending_close.
