(* Properties/C06.v — statements only.  C06: a memory limit bounds accounted
   allocation; releasing never underflows or crashes.  Model: GV.Ctx.Model. *)
From Coq Require Import ZArith List.
From GV Require Import Ctx.Model Ctx.Proofs.
Import ListNotations.
Open Scope Z_scope.

(* For every history, a live context with a memory limit has accounted
   strictly less than the limit. *)
Theorem C06_mem_lt_limit :
  forall os c, hist_ok os -> In c (cur (run init os) :: parents (run init os)) -> st c = Live ->
  0 < mem (hard c) -> mem (used c) < mem (hard c).
Proof. intros os c H1 H2 H3. exact (proj2 (used_lt_kill os c H1 H2 H3)). Qed.
Print Assumptions C06_mem_lt_limit.

(* Whatever is accounted inside any nesting of contexts under a limited one
   stays below that limit. *)
Theorem C06_conservation_mem :
  forall m above k below, Inv m -> all_live m -> cur m :: parents m = above ++ k :: below ->
  0 < mem (hard k) -> sum_mem (above ++ [k]) < mem (hard k).
Proof. exact conservation_mem. Qed.
Print Assumptions C06_conservation_mem.

(* Releasing memory always succeeds (no panic), never drives the counter
   below zero and never increases it. *)
Theorem C06_release_total :
  forall amt c, 0 <= amt -> 0 <= mem (used c) ->
  exists c', releaseMem amt c = ROk c' /\ 0 <= mem (used c') <= mem (used c).
Proof. exact releaseMem_total. Qed.
Print Assumptions C06_release_total.
