(* Properties/C06.v — statements only.  C06: a memory limit bounds accounted
   allocation; releasing never underflows or crashes.  Model: GV.Ctx.Model. *)
From Coq Require Import ZArith List.
From GV Require Import Ctx.Model Ctx.Proofs Ctx.NestModel Ctx.Nest Ctx.Exact Ctx.MemExact.
Import ListNotations.
Open Scope Z_scope.

(* For every history, a live context with a memory limit has accounted
   strictly less than the limit. *)
Theorem C06_mem_lt_limit :
  forall os c, hist_ok os -> In c (cur (run init os) :: parents (run init os)) -> st c = Live ->
  0 < mem (hard c) -> mem (used c) < mem (hard c).
Proof. intros os c H1 H2 H3. exact (proj2 (used_lt_kill os c H1 H2 H3)). Qed.
Print Assumptions C06_mem_lt_limit.

(* Whatever is accounted inside any nesting of contexts under a limited one
   stays below that limit. *)
Theorem C06_conservation_mem :
  forall m above k below, Inv m -> all_live m -> cur m :: parents m = above ++ k :: below ->
  0 < mem (hard k) -> sum_mem (above ++ [k]) < mem (hard k).
Proof. exact conservation_mem. Qed.
Print Assumptions C06_conservation_mem.

(* Releasing memory always succeeds (no panic), never drives the counter
   below zero and never increases it. *)
Theorem C06_release_total :
  forall amt c, 0 <= amt -> 0 <= mem (used c) ->
  exists c', releaseMem amt c = ROk c' /\ 0 <= mem (used c') <= mem (used c).
Proof. exact releaseMem_total. Qed.
Print Assumptions C06_release_total.

(* Exactness of a hard memory limit on a program without nested boundary:
   the IM (requireMem / ReleaseMem through the CallContext skeleton) equals
   the running-balance specification [mspec] for EVERY list of requests and
   releases and EVERY limit: killed at the first request that takes the
   balance to or past L (nothing after it runs, the counter stays below L),
   otherwise completes with exactly the final balance; a release larger than
   the balance saturates at 0. *)
Theorem C06_flat_mem_exact :
  forall L os, 0 < L < SMALL -> Forall mop_ok os ->
  let '(m', r) := exec (mlimited L) (mflat os) in
  match mspec L 0 os with
  | None => r = Terminated /\ st (cur m') = Killed /\ 0 <= mem (used (cur m')) < L
  | Some b => r = Normal /\ st (cur m') = Live /\ mem (used (cur m')) = b /\ 0 <= b < L
  end.
Proof. exact flat_mem_exact. Qed.
Print Assumptions C06_flat_mem_exact.

(* ... i.e. killed if and only if some balance the program goes through
   reaches the limit (the peak, not the total and not the final value). *)
Theorem C06_flat_mem_kill_iff_peak :
  forall L os, 0 < L < SMALL -> Forall mop_ok os ->
  let '(m', r) := exec (mlimited L) (mflat os) in
  (r = Terminated <-> Exists (fun b => L <= b) (balances 0 os)) /\
  (r = Normal \/ r = Terminated).
Proof. exact flat_mem_kill_iff_peak. Qed.
Print Assumptions C06_flat_mem_kill_iff_peak.

(* The specification completes exactly when every balance stays below L. *)
Theorem C06_mspec_completes_iff_below :
  forall L os, Forall mop_ok os -> forall u, 0 <= u < L ->
  (exists b, mspec L u os = Some b) <-> Forall (fun b => b < L) (balances u os).
Proof. exact mspec_some_iff. Qed.
Print Assumptions C06_mspec_completes_iff_below.

(* A memory limit above the peak never changes behaviour or accounting. *)
Theorem C06_limit_above_peak_same :
  forall L1 L2 os, 0 < L1 <= L2 -> L2 < SMALL -> Forall mop_ok os ->
  Forall (fun b => b < L1) (balances 0 os) ->
  let '(m1, r1) := exec (mlimited L1) (mflat os) in
  let '(m2, r2) := exec (mlimited L2) (mflat os) in
  r1 = Normal /\ r2 = Normal /\ mem (used (cur m1)) = mem (used (cur m2)) /\
  st (cur m1) = Live /\ st (cur m2) = Live.
Proof. exact flat_mem_limit_above_peak_same. Qed.
Print Assumptions C06_limit_above_peak_same.

(* Non-vacuity / saturating release at work. *)
Theorem C06_mem_exact_applies :
  (let '(m, r) := exec (mlimited 100) (mflat [MA 30; MR 50; MA 90]) in
     r = Normal /\ mem (used (cur m)) = 90) /\
  (let '(m, r) := exec (mlimited 100) (mflat [MA 30; MR 20; MA 90; MA 1]) in
     r = Terminated /\ mem (used (cur m)) = 10 /\ st (cur m) = Killed) /\
  balances 0 [MA 30; MR 20; MA 90; MA 1] = [30; 10; 100; 101].
Proof. exact mem_exact_applies. Qed.
Print Assumptions C06_mem_exact_applies.
