(* Properties/C14.v — statements only.  C14: performance build options never
   change behaviour.  Models: GV.Pool.RegPool (runtime/regpool.go valuePool /
   cellPool), GV.Pool.ContPool (luacontpool.go / gocontpool.go), and the
   context manager model GV.Ctx.Model for the noquotas stub.  The decisive
   part of C14 is the cross-configuration comparison of six real builds
   (lib/props/C14.py); these theorems explain why it must come out equal. *)
From Coq Require Import NArith ZArith List.
From GV Require Import Pool.RegPool Pool.ContPool Pool.Proofs Pool.NoQuotas Ctx.Model Pool.HeapModel Pool.HeapProofs.
Import ListNotations.

(* every register set a pool hands out has exactly the requested size and is all zero *)
Theorem C14_pool_get_zeroed_right_size :
  forall p sz c, Zeroed p -> contents (snd (get p sz)) = Some c -> c = repeat 0%N sz.
Proof. exact get_zeroed_right_size. Qed.
Print Assumptions C14_pool_get_zeroed_right_size.

(* the pool is observationally make([]Value, sz) for every sequence of gets and
   releases, from any fresh pool, as long as the client never writes to a
   register set after releasing it (no OScribble) *)
Theorem C14_pool_refines_fresh :
  forall size age os, forallb disciplined os = true ->
  Forall2 agrees os (RegPool.run (mkValuePool size age) os).
Proof. exact pool_refines_fresh_from_new. Qed.
Print Assumptions C14_pool_refines_fresh.

(* the same with aliasing made explicit (Pool/HeapModel.v): register sets live in one heap, the pool
   keeps identities of released sets, the client uses handles.  For every client program and every
   pool policy (which pooled set of the right length a get reuses, whether a release keeps the set,
   which pooled set it evicts — regpool.go is one such policy): either the client touches a set it
   has released (both runs stop at that operation, None) or the observations — lengths seen at
   get, every value read — are identical with the pool and with plain allocation. *)
Theorem C14_heap_pool_refines_fresh :
  forall os chs, prun p0 os chs = frun f0 os.
Proof. exact heap_pool_refines_fresh_from_new. Qed.
Print Assumptions C14_heap_pool_refines_fresh.

(* after the repair of regpool.go (loops run to the pool's own length): no index panic for any pool size *)
Theorem C14_pool_no_panic :
  forall os p,
  Forall (fun r => r <> RGet GPanic /\ r <> RRel RegPool.RPanic) (RegPool.run p os).
Proof. exact pool_no_panic. Qed.
Print Assumptions C14_pool_no_panic.

(* every continuation object handed out has all fields zero, like new(LuaCont);
   the stack never outgrows its array *)
Theorem C14_contpool_refines_new :
  forall os sz,
  Forall (fun r => match r with Some g => cfields g = 0%N | None => True end) (crun (mkContPool sz) os) /\
  (length (conts (cfinal (mkContPool sz) os)) <= size (cfinal (mkContPool sz) os))%nat.
Proof. intros os sz. apply contpool_refines_new, CZero_mk. Qed.
Print Assumptions C14_contpool_refines_new.

(* noquotas: a context that tracks nothing is a no-op manager *)
Theorem C14_unlimited_manager_is_noop :
  forall now amt c,
  trackCpu c = false -> trackMem c = false -> mem (hard c) = 0%Z ->
  requireCPU now amt c = ROk c /\ requireMem amt c = ROk c /\ releaseMem amt c = ROk c.
Proof. exact unlimited_manager_is_noop. Qed.
Print Assumptions C14_unlimited_manager_is_noop.
