(* Properties/C11.v — statements only.  C11: errors reach exactly the nearest
   protected call, with their value intact.
   Model: LuaCore (GV.Lua.Machine): an error is the outcome `COut (OError v)`;
   `pcall`/`xpcall` push the barrier frame `KPcall h`; `CRaise v` is the point
   of the error (where a message handler runs).  Every theorem quantifies
   over all stacks (of any depth), values, stores and traces.  The model is
   tied to golua by the correspondence check lib/props/C11.py (raise-site x
   catch-site x value matrix, golua vs extracted LuaCore). *)
From Coq Require Import ZArith List Bool.
From GV Require Import Lua.Syntax Lua.Value Lua.Machine Lua.Meta Lua.Wf.
Import ListNotations.
Open Scope Z_scope.

(* nearest_barrier_only + error_value_intact + pcall's `false, v`: the error unwinds
   the frames k1 above the nearest barrier and the barrier itself; the frames further
   out (k2), the store and the trace are untouched (the state after the catch is the
   caller's state: state_consistent_after_catch); the value delivered is the value raised. *)
Theorem C11_error_reaches_nearest_barrier : forall k1 h k2 v σ tr ln cs,
  forallb passes_error k1 = true ->
  steps (length k1 + 1) (mkCfg (COut (OError v)) (k1 ++ KPcall h :: k2) σ tr ln cs) =
  inl (mkCfg (CRet [VBool false; v]) k2 σ tr (unwind_line k1 ln) cs).
Proof. exact error_reaches_nearest_barrier. Qed.
Print Assumptions C11_error_reaches_nearest_barrier.

Theorem C11_error_reaches_host_intact : forall k1 v σ tr ln cs,
  forallb passes_error k1 = true ->
  steps (length k1 + 1) (mkCfg (COut (OError v)) k1 σ tr ln cs) = inr (FError v).
Proof. exact error_reaches_host. Qed.
Print Assumptions C11_error_reaches_host_intact.

Theorem C11_pcall_returns_true_and_all : forall vs h k σ tr ln cs,
  step (mkCfg (CRet vs) (KPcall h :: k) σ tr ln cs) = inl (mkCfg (CRet (VBool true :: vs)) k σ tr ln cs).
Proof. exact pcall_returns_true_and_all. Qed.
Print Assumptions C11_pcall_returns_true_and_all.

(* nothing further out sees the error: under a plain pcall no handler runs, whatever
   xpcall barriers k2 contains *)
Theorem C11_raise_under_pcall_no_outer_handler : forall k1 k2 v σ tr ln cs,
  forallb plain_frame k1 = true ->
  steps (S (length k1 + 1)) (mkCfg (CRaise v) (k1 ++ KPcall None :: k2) σ tr ln cs) =
  inl (mkCfg (CRet [VBool false; v]) k2 σ tr (unwind_line k1 ln) cs).
Proof. exact raise_under_pcall_no_outer_handler. Qed.
Print Assumptions C11_raise_under_pcall_no_outer_handler.

(* xpcall_handler_once_at_raise_point *)
Theorem C11_handler_called_at_raise_point : forall k1 h k2 v σ tr ln cs,
  forallb plain_frame k1 = true ->
  step (mkCfg (CRaise v) (k1 ++ KPcall (Some h) :: k2) σ tr ln cs) =
  inl (mkCfg (CCall h [v] false) (KHandler :: k1 ++ KPcall (Some h) :: k2) σ tr ln cs).
Proof. exact raise_calls_handler_at_raise_point. Qed.
Print Assumptions C11_handler_called_at_raise_point.

Theorem C11_handler_result_replaces_error : forall k1 h k2 vs σ tr ln cs,
  forallb passes_error k1 = true ->
  steps (S (length k1 + 1)) (mkCfg (CRet vs) (KHandler :: k1 ++ KPcall (Some h) :: k2) σ tr ln cs) =
  inl (mkCfg (CRet [VBool false; first vs]) k2 σ tr (unwind_line k1 ln) cs).
Proof. exact handler_result_replaces_error. Qed.
Print Assumptions C11_handler_result_replaces_error.

Theorem C11_no_handler_inside_handler : forall k1 k v σ tr ln cs,
  forallb plain_frame k1 = true ->
  step (mkCfg (CRaise v) (k1 ++ KHandler :: k) σ tr ln cs) =
  inl (mkCfg (COut (OError v)) (k1 ++ KHandler :: k) σ tr ln cs).
Proof. exact no_handler_inside_handler. Qed.
Print Assumptions C11_no_handler_inside_handler.

(* error(v): any non-string value is raised as it is; a string gets the position of
   the call at level 1 and stays as it is at level 0 *)
Theorem C11_error_raises_value_itself : forall v k σ tr ln cs,
  (forall s, v <> VStr s) ->
  step (mkCfg (CCall (VBuiltin BError) [v] true) k σ tr ln cs) = inl (mkCfg (CRaise v) k σ tr ln cs).
Proof. exact error_builtin_raises_value. Qed.
Print Assumptions C11_error_raises_value_itself.

Theorem C11_error_level1_position : forall s k σ tr ln cs,
  step (mkCfg (CCall (VBuiltin BError) [VStr s] true) k σ tr ln cs) =
  inl (mkCfg (CRaise (VStr (position_at ln ++ s))) k σ tr ln cs).
Proof. exact error_builtin_level1_position. Qed.
Print Assumptions C11_error_level1_position.

Theorem C11_error_level0_intact : forall s k σ tr ln cs,
  step (mkCfg (CCall (VBuiltin BError) [VStr s; VInt 0] true) k σ tr ln cs) =
  inl (mkCfg (CRaise (VStr s)) k σ tr ln cs).
Proof. exact error_builtin_level0_intact. Qed.
Print Assumptions C11_error_level0_intact.

(* after a catch the run continues by the ordinary rules with identities that were
   never handed out before (no dangling / reused cells, tables, closures) *)
Theorem C11_state_after_catch_monotone : forall n c c',
  steps n c = inl c' -> mono (sto c) (sto c').
Proof. exact steps_mono. Qed.
Print Assumptions C11_state_after_catch_monotone.

(* coroutine.resume is a boundary too: the error stops at the coroutine's bottom frame,
   the resumer's state is untouched, the coroutine is dead ... *)
Theorem C11_error_stops_at_coroutine_boundary : forall k1 id saved k2 v σ tr ln cs,
  forallb passes_error k1 = true ->
  steps (length k1 + 1) (mkCfg (COut (OError v)) (k1 ++ KCoBottom id saved :: k2) σ tr ln cs) =
  inl (mkCfg (CRet [VBool false; v]) k2 σ tr saved
             (mkCot (FMapPositive.PositiveMap.add id CoDead (cos cs)) (nco cs))).
Proof. exact error_stops_at_coroutine_boundary. Qed.
Print Assumptions C11_error_stops_at_coroutine_boundary.

(* ... and no message handler of an xpcall further out runs for it (golua violates this:
   known finding C11-xpcall-handler-sees-coroutine-error) *)
Theorem C11_raise_in_coroutine_no_outer_handler : forall k1 id saved k2 v σ tr ln cs,
  forallb plain_frame k1 = true ->
  steps (S (length k1 + 1)) (mkCfg (CRaise v) (k1 ++ KCoBottom id saved :: k2) σ tr ln cs) =
  inl (mkCfg (CRet [VBool false; v]) k2 σ tr saved
             (mkCot (FMapPositive.PositiveMap.add id CoDead (cos cs)) (nco cs))).
Proof. exact raise_in_coroutine_no_outer_handler. Qed.
Print Assumptions C11_raise_in_coroutine_no_outer_handler.

(* to-be-closed scopes on the way: the closing method sees the error in flight, and the
   same error is in flight again when it returns *)
Theorem C11_scope_exit_by_error_calls_close : forall v e h k σ tr ln cs,
  metamethod σ v ev_close = h -> h <> VNil ->
  step (mkCfg (COut (OError e)) (KScope v :: k) σ tr ln cs) =
  inl (mkCfg (CCall h [v; e] true) (KClosing (POut (OError e)) :: k) σ tr ln cs).
Proof. exact scope_exit_by_error_calls_close. Qed.
Print Assumptions C11_scope_exit_by_error_calls_close.

Theorem C11_closing_done_resumes_exit : forall vs o k σ tr ln cs,
  step (mkCfg (CRet vs) (KClosing (POut o) :: k) σ tr ln cs) = inl (mkCfg (COut o) k σ tr ln cs).
Proof. exact closing_done_resumes_exit. Qed.
Print Assumptions C11_closing_done_resumes_exit.

(* multi-step unwinding through to-be-closed scopes: if every closing method on the way
   returns normally (`closers_return`), the closing frames run and then the nearest barrier
   receives `false` and the value raised, intact; frames further out are untouched *)
Theorem C11_error_reaches_barrier_through_scopes : forall k1 h k2 v,
  closers_return v k1 (KPcall h :: k2) ->
  forall σ tr ln cs, exists σ' tr' ln' cs',
  reaches (mkCfg (COut (OError v)) (k1 ++ KPcall h :: k2) σ tr ln cs)
          (mkCfg (CRet [VBool false; v]) k2 σ' tr' ln' cs').
Proof. exact error_reaches_barrier_through_scopes. Qed.
Print Assumptions C11_error_reaches_barrier_through_scopes.

(* state_consistent_after_catch: well-formedness (every variable of every frame, closure
   and suspended coroutine denotes an allocated cell) is an invariant of every step, so it
   holds in the state after a catch and in everything that runs afterwards *)
Theorem C11_state_consistent_after_catch : forall m c c', wf c -> steps m c = inl c' -> wf c'.
Proof. exact steps_wf. Qed.
Print Assumptions C11_state_consistent_after_catch.
