(* Properties/C16.v — statements only.  C16: numeric for loops iterate exactly
   the manual's sequence and always terminate.
   Model: GV.Num.ForLoop — IM = prepfor/advfor (runtime/luacont.go Type7
   opcodes) driven by the compiled loop shape; S = for_s (manual §3.3.5:
   arithmetic progression, count computed in Z, float limit clipped).
   The IM mirrors the code after the round-2 repair of prepfor/advfor (integer loop: limit clipped by
   forLimit; float loop: all three values floats, runs while value <= limit).
   fuel bounds only how much of the (possibly 2^64-long) run is unfolded: every
   statement holds for every fuel.  No axioms. *)
From Coq Require Import ZArith List Bool.
From GV Require Import Base.W64 Base.F64 Num.Model Num.Spec Num.ForLoop Num.ForProofs Num.ForClip Num.ForMachine.
Import ListNotations.
Open Scope Z_scope.

(* An integer loop (integer start, limit, step <> 0) shows the body exactly
   start, start+step, ... : the first min(fuel, count) terms of the progression,
   and has finished iff count <= fuel. *)
Theorem C16_int_loop_sequence : forall fuel s l st, in64 s -> in64 l -> in64 st -> st <> 0 ->
  for_im fuel (NInt s) (NInt l) (NInt st) =
  FRun (map NInt (prog (Nat.min fuel (Z.to_nat (s_count s l st))) s st)) (s_count s l st <=? Z.of_nat fuel).
Proof. exact int_loop_sequence_explicit.
Qed.
Print Assumptions C16_int_loop_sequence.

Theorem C16_progression_nth : forall k s st i, (i < k)%nat -> nth i (prog k s st) 0 = s + Z.of_nat i * st.
Proof. exact prog_nth. Qed.
Print Assumptions C16_progression_nth.

(* It terminates within the iteration count the manual implies,
   count = floor((limit-start)/step)+1 (0 if start is already past the limit). *)
Theorem C16_int_loop_terminates_within_count : forall fuel s l st, in64 s -> in64 l -> in64 st -> st <> 0 ->
  s_count s l st <= Z.of_nat fuel ->
  exists vs, for_im fuel (NInt s) (NInt l) (NInt st) = FRun vs true /\ Z.of_nat (length vs) = s_count s l st.
Proof. exact int_loop_terminates_within_count. Qed.
Print Assumptions C16_int_loop_terminates_within_count.

(* It never wraps around: every value is the exact integer start + i*step, inside int64, between start and limit. *)
Theorem C16_int_loop_never_wraps : forall s l st i, in64 s -> in64 l -> in64 st -> st <> 0 ->
  0 <= i < s_count s l st ->
  let v := s + i * st in
  in64 v /\ (0 < st -> s <= v <= l) /\ (st < 0 -> l <= v <= s).
Proof. exact int_loop_never_wraps. Qed.
Print Assumptions C16_int_loop_never_wraps.

Theorem C16_zero_step_error : forall fuel start limit,
  for_im fuel start limit (NInt 0) = FErrZero /\ for_im fuel start limit (NFlt (fzero false)) = FErrZero /\
  for_im fuel start limit (NFlt (fzero true)) = FErrZero.
Proof. exact zero_step_error. Qed.
Print Assumptions C16_zero_step_error.

(* The clipping of a float limit (floor / ceil of the exact value, max/mininteger or no loop beyond the
   int64 range, no loop for NaN) is the manual's, for every binary64 limit. *)
Theorem C16_forlimit_spec : forall lim st, st <> 0 ->
  match s_forlimit lim st with
  | Some l => forLimit lim st = (l, false)
  | None => snd (forLimit lim st) = true
  end.
Proof. exact forlimit_spec. Qed.
Print Assumptions C16_forlimit_spec.

(* An integer loop with ANY limit - integer, float, infinite, NaN - is the manual's loop. *)
Theorem C16_int_loop_any_limit : forall fuel s lim st, in64 s -> in64 st -> st <> 0 ->
  match lim with NInt l => in64 l | NFlt _ => True end ->
  for_im fuel (NInt s) lim (NInt st) = for_s fuel (NInt s) lim (NInt st).
Proof. exact int_loop_any_limit. Qed.
Print Assumptions C16_int_loop_any_limit.

(* A float loop (start or step is a float) is iterated float addition while value <= limit
   (>= for a non-positive step) after converting all three values to floats. *)
Theorem C16_float_loop_definition : forall fuel start limit step,
  match step with NInt n => in64 n | NFlt _ => True end -> is_float_loop start step = true ->
  for_im fuel start limit step = for_s fuel start limit step.
Proof. exact float_loop_definition. Qed.
Print Assumptions C16_float_loop_definition.

Theorem C16_nan_limit_float_loop_skips : forall fuel start limit step,
  match step with NInt n => in64 n | NFlt _ => True end -> is_float_loop start step = true ->
  limit = NFlt fnan -> for_im fuel start limit step = FRun [] true \/ for_im fuel start limit step = FErrZero.
Proof. exact nan_limit_float_loop_skips. Qed.
Print Assumptions C16_nan_limit_float_loop_skips.

(* A control value that is not a number is an error naming its role (initial value, limit, step in this order). *)
Theorem C16_non_number_error : forall fuel start limit step,
  (fv_num start = None -> for_im_val fuel start limit step = FVErrInit) /\
  (fv_num start <> None -> fv_num limit = None -> for_im_val fuel start limit step = FVErrLimit) /\
  (fv_num start <> None -> fv_num limit <> None -> fv_num step = None -> for_im_val fuel start limit step = FVErrStep) /\
  (forall a b c, fv_num start = Some a -> fv_num limit = Some b -> fv_num step = Some c ->
     for_im_val fuel start limit step = FVRes (for_im_gen (fv_is_str start || fv_is_str step) fuel a b c)).
Proof. exact non_number_error. Qed.
Print Assumptions C16_non_number_error.

(* ---- the compiled shape (prepfor; jumpifnot; copy; body; advfor; jumpif) as an abstract machine
   (Num/ForMachine.v), for arbitrary effectful control expressions e1 e2 e3 and an arbitrary body
   (which may assign to the loop variable) over any user state U ---- *)
Theorem C16_expressions_evaluated_once : forall (U : Type) (e1 e2 e3 : U -> num * U) body u k,
  let s := run U e1 e2 e3 body k (init U u) in
  (ev1 U s <= 1 /\ ev2 U s <= 1 /\ ev3 U s <= 1 /\ (3 <= pc U s -> ev1 U s = 1 /\ ev2 U s = 1 /\ ev3 U s = 1))%nat.
Proof. exact expressions_evaluated_once. Qed.
Print Assumptions C16_expressions_evaluated_once.

(* hidden registers, control flow, evaluation counts and the values handed to the body are the same for
   any two bodies: assigning to the loop variable does not disturb the iteration *)
Theorem C16_body_assignment_harmless : forall (U : Type) (e1 e2 e3 : U -> num * U) body1 body2 u k,
  agree U (run U e1 e2 e3 body1 k (init U u)) (run U e1 e2 e3 body2 k (init U u)).
Proof. exact body_assignment_harmless. Qed.
Print Assumptions C16_body_assignment_harmless.

(* The control values are private copies: the user state U (where the variables the control expressions
   were read from live) is written by the body only — prepfor's normalised limit/step, advfor and the jumps
   never write back to it: at every point of the loop it is the state after the three evaluations with the
   bodies applied in order to the values handed to them. *)
Theorem C16_control_registers_private : forall (U : Type) (e1 e2 e3 : U -> num * U) body u k,
  let '(_, u1) := e1 u in let '(_, u2) := e2 u1 in let '(_, u3) := e3 u2 in
  let s := run U e1 e2 e3 body k (init U u) in
  (3 <= pc U s)%nat -> us U s = apply_bodies U body (seen U s) u3.
Proof. exact control_registers_private. Qed.
Print Assumptions C16_control_registers_private.

(* and those values are exactly the ones of for_im (hence, by the theorems above, the manual's) *)
Theorem C16_machine_runs_for_im : forall (U : Type) (e1 e2 e3 : U -> num * U) body u m,
  let '(a, u1) := e1 u in let '(b, u2) := e2 u1 in let '(c, u3) := e3 u2 in
  let t := run U e1 e2 e3 body (5 + 4 * m) (init U u) in
  match for_im m a b c with
  | FErrZero => err U t = true /\ seen U t = []
  | FRun vs fin => err U t = false /\ seen U t = vs /\ (fin = true -> pc U t = 9%nat)
  end.
Proof. exact machine_runs_for_im. Qed.
Print Assumptions C16_machine_runs_for_im.

(* every loop on numbers (integer loop with any limit, float loop) is the manual's loop *)
Theorem C16_for_im_is_manual : forall fuel a b c, num_ok a -> num_ok b -> num_ok c ->
  for_im fuel a b c = for_s fuel a b c.
Proof. exact for_im_is_manual. Qed.
Print Assumptions C16_for_im_is_manual.

(* Numeric strings as control values (full theorem since the repair of prepfor: a string start or step makes
   a float loop, a string limit is just its number; witness for i="1",2 now in corpus/C16/strfor.txt). *)
Theorem C16_string_operand : forall fuel start limit step, fv_ok start -> fv_ok limit -> fv_ok step ->
  for_im_val fuel start limit step = for_s_val fuel start limit step.
Proof. exact string_operand. Qed.
Print Assumptions C16_string_operand.

(* the code before that repair (loop type taken after ToNumberValue only) was not the manual's *)
Theorem C16_string_operand_old_code_refuted :
  exists fuel a b c, for_im fuel a b c <> for_s fuel (NFlt (tofloat a)) b (NFlt (tofloat c)).
Proof. exact string_operand_old_code_refuted. Qed.
Print Assumptions C16_string_operand_old_code_refuted.

(* ---- Round 8 ---- *)
From GV Require Import Num.ForReal Num.ForBody.

(* Integer loop with ANY limit (integer, finite float, +-inf, NaN), stated against the real-valued limit,
   no clipping function in the statement: the values are the progression s, s+st, ... cut at c; an index
   i is below c exactly when s + i*st is an int64 value that has not passed the limit (not_past: the
   limit as an exact real / infinity; never for NaN); c <= 2^64. *)
Theorem C16_int_loop_real_limit : forall fuel s lim st, in64 s -> in64 st -> st <> 0 -> num_ok lim ->
  let c := clip_count s lim st in
  for_im fuel (NInt s) lim (NInt st) =
    FRun (map NInt (prog (Nat.min fuel (Z.to_nat c)) s st)) (c <=? Z.of_nat fuel) /\
  (forall i, 0 <= i -> (i < c <-> in64 (s + i * st) /\ not_past lim st (s + i * st))) /\
  0 <= c <= 2 ^ 64.
Proof. exact int_loop_real_limit. Qed.
Print Assumptions C16_int_loop_real_limit.

Theorem C16_int_loop_any_limit_terminates : forall s lim st, in64 s -> in64 st -> st <> 0 -> num_ok lim ->
  exists fuel vs, for_im fuel (NInt s) lim (NInt st) = FRun vs true /\
                  Z.of_nat (length vs) = clip_count s lim st.
Proof. exact int_loop_any_limit_terminates. Qed.
Print Assumptions C16_int_loop_any_limit_terminates.

(* Float loop, absorbing case: if x + st == x (IEEE addition) and x has not passed the limit, the loop
   hands the body x for ever (for every fuel: fuel copies of x, still running). *)
Theorem C16_float_loop_absorbing : forall fuel x l st,
  fadd x st = x -> (if flt fzero0 st then fle x l else fle l x) = true ->
  run_loop fuel (NFlt x) (NFlt l) (NFlt st) = (repeat (NFlt x) fuel, false).
Proof. exact float_loop_absorbing. Qed.
Print Assumptions C16_float_loop_absorbing.

Theorem C16_float_loop_absorbing_from_start : forall fuel start limit step,
  match step with NInt n => in64 n | NFlt _ => True end -> is_float_loop start step = true ->
  isZero step = false ->
  fadd (tofloat start) (tofloat step) = tofloat start ->
  (if flt fzero0 (tofloat step) then fle (tofloat start) (tofloat limit) else fle (tofloat limit) (tofloat start)) = true ->
  for_im fuel start limit step = FRun (repeat (NFlt (tofloat start)) fuel) false /\
  for_s fuel start limit step = FRun (repeat (NFlt (tofloat start)) fuel) false.
Proof. exact float_loop_absorbing_from_start. Qed.
Print Assumptions C16_float_loop_absorbing_from_start.

(* "every numeric for loop terminates" does NOT hold for float loops (code and manual's definition alike):
   for i = 2^53, 2^53+2, 1.0 never ends. *)
Theorem C16_float_loop_terminates_refuted :
  exists start limit step, isZero step = false /\
    forall fuel, for_im fuel start limit step = FRun (repeat start fuel) false /\
                 for_s fuel start limit step = FRun (repeat start fuel) false.
Proof. exact float_loop_terminates_refuted. Qed.
Print Assumptions C16_float_loop_terminates_refuted.

(* a float loop that has finished met no absorbing point: consecutive values differ *)
Theorem C16_float_loop_finished_progress : forall fuel x l st vs,
  s_float_loop fuel x l st = (vs, true) ->
  forall i, (S i < length vs)%nat -> nth i vs (NInt 0) <> nth (S i) vs (NInt 0).
Proof. exact s_float_loop_finished_progress. Qed.
Print Assumptions C16_float_loop_finished_progress.

(* arbitrary body that may replace the loop variable in every iteration: the values handed to the body
   are the progression cut at the real-valued limit, and the machine halts *)
Theorem C16_body_assignment_int_sequence : forall (U : Type) (body : num -> U -> num * U) (u : U) (m : nat) s lim st,
  in64 s -> in64 st -> st <> 0 -> num_ok lim ->
  let c := clip_count s lim st in
  let t := run U (fun u => (NInt s, u)) (fun u => (lim, u)) (fun u => (NInt st, u)) body (5 + 4 * m) (init U u) in
  err U t = false /\
  seen U t = map NInt (prog (Nat.min m (Z.to_nat c)) s st) /\
  (c <= Z.of_nat m -> pc U t = 9%nat).
Proof. exact body_assignment_int_sequence. Qed.
Print Assumptions C16_body_assignment_int_sequence.

Theorem C16_non_number_no_iteration : forall fuel a b c,
  fv_num a = None \/ fv_num b = None \/ fv_num c = None ->
  (for_im_val fuel a b c = FVErrInit \/ for_im_val fuel a b c = FVErrLimit \/ for_im_val fuel a b c = FVErrStep) /\
  forall r, for_im_val fuel a b c <> FVRes r.
Proof. exact non_number_no_iteration. Qed.
Print Assumptions C16_non_number_no_iteration.
