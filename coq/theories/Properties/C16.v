(* Properties/C16.v — statements only.  C16: numeric for loops iterate exactly
   the manual's sequence and always terminate.
   Model: GV.Num.ForLoop — IM = prepfor/advfor (runtime/luacont.go Type7
   opcodes) driven by the compiled loop shape; S = for_s (manual §3.3.5:
   arithmetic progression, count computed in Z, float limit clipped).
   fuel bounds only how much of the (possibly 2^64-long) run is unfolded: every
   statement holds for every fuel.  No axioms. *)
From Coq Require Import ZArith List Bool.
From GV Require Import Base.W64 Base.F64 Num.Model Num.Spec Num.ForLoop Num.ForProofs.
Import ListNotations.
Open Scope Z_scope.

(* An integer loop (integer start, limit, step <> 0) shows the body exactly
   start, start+step, ... : the first min(fuel, count) terms of the progression,
   and has finished iff count <= fuel. *)
Theorem C16_int_loop_sequence : forall fuel s l st, in64 s -> in64 l -> in64 st -> st <> 0 ->
  for_im fuel (NInt s) (NInt l) (NInt st) =
  FRun (map NInt (prog (Nat.min fuel (Z.to_nat (s_count s l st))) s st)) (s_count s l st <=? Z.of_nat fuel).
Proof. exact int_loop_sequence_explicit.
Qed.
Print Assumptions C16_int_loop_sequence.

Theorem C16_progression_nth : forall k s st i, (i < k)%nat -> nth i (prog k s st) 0 = s + Z.of_nat i * st.
Proof. exact prog_nth. Qed.
Print Assumptions C16_progression_nth.

(* It terminates within the iteration count the manual implies,
   count = floor((limit-start)/step)+1 (0 if start is already past the limit). *)
Theorem C16_int_loop_terminates_within_count : forall fuel s l st, in64 s -> in64 l -> in64 st -> st <> 0 ->
  s_count s l st <= Z.of_nat fuel ->
  exists vs, for_im fuel (NInt s) (NInt l) (NInt st) = FRun vs true /\ Z.of_nat (length vs) = s_count s l st.
Proof. exact int_loop_terminates_within_count. Qed.
Print Assumptions C16_int_loop_terminates_within_count.

(* It never wraps around: every value is the exact integer start + i*step, inside int64, between start and limit. *)
Theorem C16_int_loop_never_wraps : forall s l st i, in64 s -> in64 l -> in64 st -> st <> 0 ->
  0 <= i < s_count s l st ->
  let v := s + i * st in
  in64 v /\ (0 < st -> s <= v <= l) /\ (st < 0 -> l <= v <= s).
Proof. exact int_loop_never_wraps. Qed.
Print Assumptions C16_int_loop_never_wraps.

Theorem C16_zero_step_error : forall fuel start limit,
  for_im fuel start limit (NInt 0) = FErrZero /\ for_im fuel start limit (NFlt (fzero false)) = FErrZero /\
  for_im fuel start limit (NFlt (fzero true)) = FErrZero.
Proof. exact zero_step_error. Qed.
Print Assumptions C16_zero_step_error.
