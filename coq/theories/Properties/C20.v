(* Properties/C20.v — statements only.  C20: independent runtimes are isolated.
   Hand-written: GV.Iso.Noninterf.  Regenerated from /repo's source on every
   run by /verif/translate/globals: GV.Iso.Generated (package-level variables
   and the functions that write them outside package initialisers);
   GV.Iso.Check holds the vm_compute proofs over it.  Axioms: none. *)
From Coq Require Import List String.
From GV Require Import Iso.Noninterf Iso.Generated Iso.Check.
Import ListNotations.

(* If no step writes the shared component, every runtime's private state after
   ANY interleaving equals its state after running alone (any number of
   runtimes, any schedule). *)
Theorem C20_noninterference :
  forall (I St G : Type) (I_eq_dec : forall a b : I, {a = b} + {a <> b}) (step : I -> St -> G -> St * G),
  no_shared_write I St G step ->
  forall sched s g i,
    fst (run_interleaved I St G I_eq_dec step sched s g) i =
      fst (run_solo I St G step i (steps_of I I_eq_dec i sched) (s i) g) /\
    snd (run_interleaved I St G I_eq_dec step sched s g) = g.
Proof. exact noninterference. Qed.
Print Assumptions C20_noninterference.

Theorem C20_schedule_independent :
  forall (I St G : Type) (I_eq_dec : forall a b : I, {a = b} + {a <> b}) (step : I -> St -> G -> St * G),
  no_shared_write I St G step ->
  forall sched1 sched2 s g i, steps_of I I_eq_dec i sched1 = steps_of I I_eq_dec i sched2 ->
    fst (run_interleaved I St G I_eq_dec step sched1 s g) i =
    fst (run_interleaved I St G I_eq_dec step sched2 s g) i.
Proof. exact schedule_independent. Qed.
Print Assumptions C20_schedule_independent.

(* the hypothesis is necessary: a shared generator makes traces depend on the partner *)
Theorem C20_interference_possible :
  exists sched (i : bool),
    fst (run_interleaved bool nat nat Bool.bool_dec draw sched (fun _ => 0) 0) i <>
    fst (run_solo bool nat nat draw i (steps_of bool Bool.bool_dec i sched) 0 0).
Proof. exact interference_possible. Qed.
Print Assumptions C20_interference_possible.

(* ---- over the table regenerated from the source on this run ---- *)

(* no package-level variable is assigned outside package initialisers, and none
   is written through except allow-listed ones (known findings excepted; with
   known_vars = [] this is the full statement) *)
Theorem C20_no_shared_writers_partial :
  forall v direct indirect, In (v, direct, indirect) shared_writes ->
  ~ In v known_vars ->
  direct = [] /\ (~ In v allowed_vars -> indirect = []).
Proof. exact no_shared_writers_partial. Qed.
Print Assumptions C20_no_shared_writers_partial.

(* each recorded finding is a variable that does have a writer outside init *)
Theorem C20_known_shared_writers_refuted :
  forall v, In v known_vars ->
  exists direct indirect, In (v, direct, indirect) shared_writes /\ (direct <> [] \/ indirect <> []).
Proof. exact known_shared_writers_refuted. Qed.
Print Assumptions C20_known_shared_writers_refuted.

(* the regenerated table has a row for every package-level variable of every loaded package *)
Theorem C20_all_vars_classified :
  (forall p vs v, In (p, vs) all_vars -> In v vs ->
     exists direct indirect, In (v, direct, indirect) shared_writes) /\
  List.length scope_vars = var_count /\ List.length all_vars = package_count /\ (0 < var_count)%nat.
Proof. exact all_vars_classified. Qed.
Print Assumptions C20_all_vars_classified.
