(* Properties/C13.v — statements only.  C13: string.dump followed by load
   reproduces the function; dumping is deterministic and stable.

   Models (hand-written, executable, extracted for the correspondence check):
     GV.Marshal.Model          runtime/marshal.go (bwriter, breader, MarshalConst,
                               UnmarshalConst) and the binary branch of
                               runtime/lib.go LoadFromSourceOrCode + NewClosure
     GV.Marshal.ModelRefactor  runtime/loadunit.go RefactorCodeConsts (on codes owning
                               their constants, and on a compiled unit whose codes share
                               one vector), lib/stringlib/dump.go
   lim is the size in bytes one Go allocation can get; wf lim k says that k holds
   what Go values of these types can hold and that each of its slices fits in lim.
   No axioms. *)
From Coq Require Import ZArith List.
From GV Require Import Marshal.Model Marshal.ModelRefactor Marshal.Proofs Marshal.RefactorProofs.
Import ListNotations.
Open Scope Z_scope.

(* UnmarshalConst undoes MarshalConst: every well-formed constant, codes nested to any
   depth, whatever follows in the stream, with an unlimited (0) or sufficient budget; the
   budget left is the budget minus the number of bytes of the encoding. *)
Theorem C13_unmarshal_marshal :
  forall lim k rest b, 0 <= lim <= maxAlloc -> wf lim k -> enough b (cost k) ->
  unmarshal lim b (marshal k ++ rest) = UOk k rest (after b (cost k)).
Proof. exact unmarshal_marshal. Qed.
Print Assumptions C13_unmarshal_marshal.

(* the hypotheses are satisfiable *)
Theorem C13_wf_example : wf 1048576 ex_code.
Proof. exact ex_code_wf. Qed.
Print Assumptions C13_wf_example.

Theorem C13_marshal_injective :
  forall lim k1 k2, 0 <= lim <= maxAlloc -> wf lim k1 -> wf lim k2 -> marshal k1 = marshal k2 -> k1 = k2.
Proof. exact marshal_injective. Qed.
Print Assumptions C13_marshal_injective.

Theorem C13_marshal_prefix_free :
  forall lim k1 k2 r1 r2, 0 <= lim <= maxAlloc -> wf lim k1 -> wf lim k2 ->
  marshal k1 ++ r1 = marshal k2 ++ r2 -> k1 = k2 /\ r1 = r2.
Proof. exact marshal_prefix_free. Qed.
Print Assumptions C13_marshal_prefix_free.

(* load of a dump gives the code back, with UpvalueCount upvalue cells *)
Theorem C13_load_marshal :
  forall lim h ks, 0 <= lim <= maxAlloc -> wf lim (KCode h ks) -> 0 <= upvalueCount h ->
  load_binary lim 0 (marshal (KCode h ks)) = LFun (KCode h ks) (upvalueCount h).
Proof. exact load_marshal. Qed.
Print Assumptions C13_load_marshal.

(* RefactorCodeConsts: every opcode keeps its non-index bits; an opcode that loads a
   constant loads the same constant before and after, or, for a nested function, its
   refactoring (to which this theorem applies again). *)
Theorem C13_refactor_preserves_lookup :
  forall h ks k', refactor_cst (KCode h ks) = ROk k' ->
  exists o a, k' = KCode (set_ops h o) a /\ zlen a <= 65536 /\
    Forall2 (fun op op' =>
      if loadsK op
      then hi op' = hi op /\
           exists c', nth_error a (Z.to_nat (kidx op')) = Some c' /\
             (nth_error ks (Z.to_nat (kidx op)) = Some c' \/
              exists c, nth_error ks (Z.to_nat (kidx op)) = Some c /\ refactor_cst c = ROk c')
      else op' = op) (ops h) o.
Proof. exact refactor_preserves_lookup. Qed.
Print Assumptions C13_refactor_preserves_lookup.

(* the same for a freshly compiled closure, whose unit shares one constant vector *)
Theorem C13_refactor_unit_preserves_lookup :
  forall f u n k', refactor_unit (S f) u n = ROk k' ->
  exists h o a, nth_error u (Z.to_nat n) = Some (UCode h) /\ k' = KCode (set_ops h o) a /\
    Forall2 (fun op op' =>
      if loadsK op
      then hi op' = hi op /\
           exists c', nth_error a (Z.to_nat (kidx op')) = Some c' /\
             (getk_u u (kidx op) = ROk c' \/ refactor_unit f u (kidx op) = ROk c')
      else op' = op) (ops h) o.
Proof. exact refactor_unit_preserves_lookup. Qed.
Print Assumptions C13_refactor_unit_preserves_lookup.

Theorem C13_refactor_idempotent :
  forall k k', refactor_cst k = ROk k' -> refactor_cst k' = ROk k'.
Proof. exact refactor_idempotent. Qed.
Print Assumptions C13_refactor_idempotent.

(* what string.dump marshals for a compiled closure is a fixed point of the refactoring *)
Theorem C13_compiled_dump_is_fixed_point :
  forall fuel u n k, refactor_unit fuel u n = ROk k -> refactor_cst k = ROk k.
Proof. exact refactor_unit_fixed_point. Qed.
Print Assumptions C13_compiled_dump_is_fixed_point.

(* the refactoring model is not vacuous: constants renumbered 2,0,2,3 -> 0,1,0,2, the unused one dropped *)
Theorem C13_refactor_example :
  refactor_cst ex_r_code =
  ROk (KCode (set_ops ex_r_head [1627389952; 1627389953; 1627389952; 1644167170; 42])
         [KStr [104; 105]; KInt 70000; KCode (mkHead [99] [] [1627389952] [5] 0 1 0 []) [KStr [1; 2; 3]]]).
Proof. exact ex_refactor. Qed.
Print Assumptions C13_refactor_example.

(* dump, load, dump: load(dump f) is the refactored code of f and dumping it gives the
   same bytes.  (wf of the refactored code is a hypothesis: that the refactoring keeps
   field ranges is not proved here.) *)
Theorem C13_dump_load_dump_stable :
  forall lim k h' ks' bs, 0 <= lim <= maxAlloc ->
  dump k = ROk bs ->
  refactor_cst k = ROk (KCode h' ks') -> wf lim (KCode h' ks') -> 0 <= upvalueCount h' ->
  load_binary lim 0 bs = LFun (KCode h' ks') (upvalueCount h') /\ dump (KCode h' ks') = ROk bs.
Proof. exact dump_load_dump_stable. Qed.
Print Assumptions C13_dump_load_dump_stable.

Theorem C13_dump_unit_load_dump_stable :
  forall lim u n h' ks' bs, 0 <= lim <= maxAlloc ->
  dump_unit u n = ROk bs ->
  refactor_unit (S (length u)) u n = ROk (KCode h' ks') -> wf lim (KCode h' ks') -> 0 <= upvalueCount h' ->
  load_binary lim 0 bs = LFun (KCode h' ks') (upvalueCount h') /\ dump (KCode h' ks') = ROk bs.
Proof. exact dump_unit_load_dump_stable. Qed.
Print Assumptions C13_dump_unit_load_dump_stable.

(* dumping is deterministic (a function) and two dumps are equal only for equal refactored codes *)
Theorem C13_dump_deterministic_injective :
  forall lim k1 k2 k1' k2', 0 <= lim <= maxAlloc ->
  refactor_cst k1 = ROk k1' -> refactor_cst k2 = ROk k2' -> wf lim k1' -> wf lim k2' ->
  (dump k1 = dump k2 <-> k1' = k2').
Proof. exact dump_deterministic_injective. Qed.
Print Assumptions C13_dump_deterministic_injective.

(* REFUTED on the code as it stands: "no input makes UnmarshalConst / load take the process
   down".  A 28-byte stream requests a 4 TiB allocation before any check, with or without
   a budget; the witness is replayed on the Go code by every run of the check. *)
Theorem C13_unmarshal_total_no_panic_refuted :
  exists inp, length inp = 28%nat /\
    go_unmarshal (2 ^ 32) 0 inp = GCrash (2 ^ 42) /\
    go_unmarshal (2 ^ 32) 1000 inp = GCrash (2 ^ 42) /\
    load_binary (2 ^ 32) 1000 inp = LCrash (2 ^ 42).
Proof. exact unmarshal_total_no_panic_refuted. Qed.
Print Assumptions C13_unmarshal_total_no_panic_refuted.

(* REFUTED: "load never raises a Go panic": a decodable code with UpvalueCount = -1. *)
Theorem C13_load_no_panic_refuted :
  exists inp, length inp = 58%nat /\ load_binary (2 ^ 32) 0 inp = LPanic.
Proof. exact load_no_panic_refuted. Qed.
Print Assumptions C13_load_no_panic_refuted.

(* a negative length is a Go panic that UnmarshalConst's recover() turns into (nil, 0, nil) *)
Theorem C13_unmarshal_swallows_panic :
  exists inp, go_unmarshal (2 ^ 32) 0 inp = GNil 0.
Proof. exact unmarshal_swallows_panic. Qed.
Print Assumptions C13_unmarshal_swallows_panic.
