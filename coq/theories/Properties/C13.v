(* Properties/C13.v — statements only.  C13: string.dump followed by load
   reproduces the function; dumping is deterministic and stable.
   Models: GV.Marshal.Model (runtime/marshal.go), GV.Marshal.ModelRefactor
   (runtime/loadunit.go RefactorCodeConsts, lib/stringlib/dump.go). *)
From Coq Require Import ZArith List.
From GV Require Import Marshal.Model Marshal.ModelRefactor Marshal.Proofs.
Import ListNotations.
Open Scope Z_scope.

Theorem C13_le_field_roundtrip :
  forall n v, le_dec (le_enc n v) = v mod 256 ^ Z.of_nat n.
Proof. exact le_dec_enc. Qed.
Print Assumptions C13_le_field_roundtrip.
