(* Properties/C13.v — statements only.  C13: string.dump followed by load
   reproduces the function; dumping is deterministic and stable.

   Models (hand-written, executable, extracted for the correspondence check):
     GV.Marshal.Model          runtime/marshal.go (bwriter, breader, MarshalConst,
                               UnmarshalConst) and the binary branch of
                               runtime/lib.go LoadFromSourceOrCode + NewClosure
     GV.Marshal.ModelRefactor  runtime/loadunit.go RefactorCodeConsts (on codes owning
                               their constants, and on a compiled unit whose codes share
                               one vector), lib/stringlib/dump.go
   The reader modelled is the REPAIRED one (fix: lengths validated and budget consumed
   before allocating; negative counts rejected; budget 0 only means unlimited at the start).
   lim is the size in bytes one Go allocation can get; every allocation of the reader is a
   step of the model.  wf k says that k holds what Go values of these types can hold.
   No axioms. *)
From Coq Require Import ZArith List.
From GV Require Import Marshal.Model Marshal.ModelRefactor Marshal.Proofs Marshal.RefactorProofs Marshal.BudgetProofs Marshal.ModelAlloc Marshal.AllocProofs.
From GV Require Import Marshal.SuffixProofs Marshal.ChunkProofs Marshal.ChunkReader.
Import ListNotations.
Open Scope Z_scope.

(* UnmarshalConst undoes MarshalConst: every well-formed constant, codes nested to any
   depth, whatever follows in the stream, with no budget (0) or a budget of at least the
   encoded length; the budget left is the budget minus the number of bytes read. *)
Theorem C13_unmarshal_marshal :
  forall lim k rest b, wf k -> 48 * cost k + 66048 <= lim <= maxAlloc -> suffices b (cost k) ->
  unmarshal lim b (marshal k ++ rest) = UOk k rest (left_after b (cost k)).
Proof. exact unmarshal_marshal. Qed.
Print Assumptions C13_unmarshal_marshal.

(* NO SIZE HYPOTHESIS: the round trip holds for every well-formed constant whose encoding fits
   in one Go allocation (fits k: 48 * encoded bytes + 66048 <= 2^48, the allocator's own limit).
   No bound on opcodes, lines, constants, nested functions, depth or string lengths, and nothing
   depends on maxEagerRead: the proof covers both branches of readBytes (eager make + ReadFull
   up to 64 KiB, io.CopyN beyond). *)
Theorem C13_unmarshal_marshal_any_size :
  forall k rest, wf k -> fits k -> unmarshal maxAlloc 0 (marshal k ++ rest) = UOk k rest 0.
Proof. exact unmarshal_marshal_any_size. Qed.
Print Assumptions C13_unmarshal_marshal_any_size.

(* an instance beyond every size threshold: 16385 opcodes and lines (65540 bytes each), a
   65537-byte string constant, 201 sibling functions *)
Theorem C13_big_instance :
  unmarshal maxAlloc 0 (marshal ex_big ++ [1; 2; 3]) = UOk ex_big [1; 2; 3] 0.
Proof. exact ex_big_roundtrip. Qed.
Print Assumptions C13_big_instance.

(* the hypotheses are satisfiable *)
Theorem C13_wf_example : wf ex_code /\ fits ex_code.
Proof. exact ex_code_wf. Qed.
Print Assumptions C13_wf_example.

Theorem C13_marshal_injective :
  forall k1 k2, wf k1 -> wf k2 -> fits k1 -> marshal k1 = marshal k2 -> k1 = k2.
Proof. exact marshal_injective. Qed.
Print Assumptions C13_marshal_injective.

Theorem C13_marshal_prefix_free :
  forall k1 k2 r1 r2, wf k1 -> wf k2 -> fits k1 -> fits k2 ->
  marshal k1 ++ r1 = marshal k2 ++ r2 -> k1 = k2 /\ r1 = r2.
Proof. exact marshal_prefix_free. Qed.
Print Assumptions C13_marshal_prefix_free.

(* load of a dump gives the code back, with UpvalueCount upvalue cells *)
Theorem C13_load_marshal :
  forall lim h ks, wf (KCode h ks) -> 48 * cost (KCode h ks) + 66048 <= lim <= maxAlloc ->
  load_binary lim 0 (marshal (KCode h ks)) = LFun (KCode h ks) (upvalueCount h).
Proof. exact load_marshal. Qed.
Print Assumptions C13_load_marshal.

(* TOTAL, for ALL byte strings and ALL budgets (was refuted before the repair): UnmarshalConst
   returns a value, an error, or stops on the budget.  It never raises a Go panic, never needs
   one allocation above 48 bytes per input byte + 66048, never runs out of model fuel. *)
Theorem C13_unmarshal_total_no_panic :
  forall lim budget inp, 48 * zlen inp + 66048 <= lim <= maxAlloc ->
  match unmarshal lim budget inp with
  | UOk _ _ _ | UErr _ _ | UBudget => True
  | UPanic | UFatal _ | UOutOfFuel => False
  end.
Proof. exact unmarshal_total_no_panic. Qed.
Print Assumptions C13_unmarshal_total_no_panic.

(* what the caller of UnmarshalConst sees: "nil, no error" only for an exhausted budget *)
Theorem C13_go_unmarshal_never_crashes :
  forall lim budget inp, 48 * zlen inp + 66048 <= lim <= maxAlloc ->
  match go_unmarshal lim budget inp with
  | GVal _ _ | GErr _ _ => True
  | GNil u => u = budget
  | GCrash _ | GOutOfFuel => False
  end.
Proof. exact go_unmarshal_never_crashes. Qed.
Print Assumptions C13_go_unmarshal_never_crashes.

(* load(s, name, "b") on ALL byte strings (was refuted before the repair): a function whose
   upvalue-cell count is the code's non-negative UpvalueCount, or an ordinary error. *)
Theorem C13_load_no_panic :
  forall lim budget inp, 48 * zlen inp + 66048 <= lim <= maxAlloc ->
  match load_binary lim budget inp with
  | LFun (KCode h _) nup => nup = upvalueCount h /\ 0 <= nup
  | LFun _ _ => False
  | LNotFunction | LErr _ => True
  | LPanic | LCrash _ | LOutOfFuel => False
  end.
Proof. exact load_no_panic. Qed.
Print Assumptions C13_load_no_panic.

(* under a budget, on ANY byte string: when UnmarshalConst returns a value, the budget it reports
   as used is exactly the number of bytes it read after the prefix (memory follows bytes charged) *)
Theorem C13_unmarshal_used_is_bytes_read :
  forall lim budget inp k rest b', budget <> 0 -> unmarshal lim budget inp = UOk k rest b' ->
  budget - b' = zlen inp - 3 - zlen rest.
Proof. exact unmarshal_used_is_bytes_read. Qed.
Print Assumptions C13_unmarshal_used_is_bytes_read.

(* "loading code charges before allocating" (C06 clause): with the allocations of the reader
   accumulated (Marshal/ModelAlloc.v), for ANY byte string and ANY non-zero budget, on EVERY path —
   value, error, budget stop — the bytes allocated by one UnmarshalConst call are at most
   48 * (budget spent) + 163. *)
Theorem C13_unmarshal_alloc_bounded :
  forall lim budget inp, 0 < budget ->
  match unmarshal lim budget inp with
  | UOk _ _ b' | UErr _ b' => al_unmarshal lim budget inp <= 48 * (budget - b') + 163
  | UBudget => al_unmarshal lim budget inp <= 48 * budget + 163
  | UPanic | UFatal _ | UOutOfFuel => True
  end.
Proof. exact unmarshal_alloc_bounded. Qed.
Print Assumptions C13_unmarshal_alloc_bounded.

(* the same in terms of the `used` UnmarshalConst returns (the excluded outcomes cannot happen) *)
Theorem C13_go_unmarshal_alloc_bounded :
  forall lim budget inp, 0 < budget -> 48 * zlen inp + 66048 <= lim <= maxAlloc ->
  match go_unmarshal lim budget inp with
  | GVal _ used | GErr _ used | GNil used => al_unmarshal lim budget inp <= 48 * used + 163
  | GCrash _ | GOutOfFuel => False
  end.
Proof. exact go_unmarshal_alloc_bounded. Qed.
Print Assumptions C13_go_unmarshal_alloc_bounded.

(* the former witnesses are ordinary errors now (replayed on Go from corpus/C13 on every run) *)
Theorem C13_former_witnesses :
  go_unmarshal 1048576 0 crash_witness = GErr EEof 0 /\
  go_unmarshal 1048576 100000 crash_witness = GNil 100000 /\
  load_binary 1048576 0 upvalue_witness = LErr EInvalidCode.
Proof. exact crash_witness_now_error. Qed.
Print Assumptions C13_former_witnesses.

(* MarshalConst's budget: every byte written is charged except the opcode and line arrays *)
Theorem C13_marshal_charge : forall k, mcharge k + 4 * words k = cost k.
Proof. exact marshal_charge. Qed.
Print Assumptions C13_marshal_charge.

(* RefactorCodeConsts: every opcode keeps its non-index bits; an opcode that loads a
   constant loads the same constant before and after, or, for a nested function, its
   refactoring (to which this theorem applies again). *)
Theorem C13_refactor_preserves_lookup :
  forall h ks k', refactor_cst (KCode h ks) = ROk k' ->
  exists o a, k' = KCode (set_ops h o) a /\ zlen a <= 65536 /\
    Forall2 (fun op op' =>
      if loadsK op
      then hi op' = hi op /\
           exists c', nth_error a (Z.to_nat (kidx op')) = Some c' /\
             (nth_error ks (Z.to_nat (kidx op)) = Some c' \/
              exists c, nth_error ks (Z.to_nat (kidx op)) = Some c /\ refactor_cst c = ROk c')
      else op' = op) (ops h) o.
Proof. exact refactor_preserves_lookup. Qed.
Print Assumptions C13_refactor_preserves_lookup.

(* the same for a freshly compiled closure, whose unit shares one constant vector *)
Theorem C13_refactor_unit_preserves_lookup :
  forall f u n k', refactor_unit (S f) u n = ROk k' ->
  exists h o a, nth_error u (Z.to_nat n) = Some (UCode h) /\ k' = KCode (set_ops h o) a /\
    Forall2 (fun op op' =>
      if loadsK op
      then hi op' = hi op /\
           exists c', nth_error a (Z.to_nat (kidx op')) = Some c' /\
             (getk_u u (kidx op) = ROk c' \/ refactor_unit f u (kidx op) = ROk c')
      else op' = op) (ops h) o.
Proof. exact refactor_unit_preserves_lookup. Qed.
Print Assumptions C13_refactor_unit_preserves_lookup.

Theorem C13_refactor_idempotent :
  forall k k', refactor_cst k = ROk k' -> refactor_cst k' = ROk k'.
Proof. exact refactor_idempotent. Qed.
Print Assumptions C13_refactor_idempotent.

(* the refactoring keeps every field in the range of its Go type *)
Theorem C13_refactor_wf : forall k k', wf k -> refactor_cst k = ROk k' -> wf k'.
Proof. exact refactor_wf. Qed.
Print Assumptions C13_refactor_wf.

Theorem C13_refactor_unit_wf :
  forall fuel u n k, (forall c, In c u -> wf_ucst c) -> refactor_unit fuel u n = ROk k -> wf k.
Proof. exact refactor_unit_wf. Qed.
Print Assumptions C13_refactor_unit_wf.

(* what string.dump marshals for a compiled closure is a fixed point of the refactoring *)
Theorem C13_compiled_dump_is_fixed_point :
  forall fuel u n k, refactor_unit fuel u n = ROk k -> refactor_cst k = ROk k.
Proof. exact refactor_unit_fixed_point. Qed.
Print Assumptions C13_compiled_dump_is_fixed_point.

(* the refactoring model is not vacuous: constants renumbered 2,0,2,3 -> 0,1,0,2, the unused one dropped *)
Theorem C13_refactor_example :
  refactor_cst ex_r_code =
  ROk (KCode (set_ops ex_r_head [1627389952; 1627389953; 1627389952; 1644167170; 42])
         [KStr [104; 105]; KInt 70000; KCode (mkHead [99] [] [1627389952] [5] 0 1 0 []) [KStr [1; 2; 3]]]).
Proof. exact ex_refactor. Qed.
Print Assumptions C13_refactor_example.

(* dump, load, dump: for every well-formed code, load(dump f) is the refactored code of f and
   dumping it gives the same bytes; the only other hypothesis is that the bytes fit in memory. *)
Theorem C13_dump_load_dump_stable :
  forall lim k h' ks' bs, wf k -> dump k = ROk bs -> refactor_cst k = ROk (KCode h' ks') ->
  48 * zlen bs + 66048 <= lim <= maxAlloc ->
  load_binary lim 0 bs = LFun (KCode h' ks') (upvalueCount h') /\ dump (KCode h' ks') = ROk bs.
Proof. exact dump_load_dump_stable. Qed.
Print Assumptions C13_dump_load_dump_stable.

Theorem C13_dump_unit_load_dump_stable :
  forall lim u n h' ks' bs, (forall c, In c u -> wf_ucst c) ->
  dump_unit u n = ROk bs -> refactor_unit (S (length u)) u n = ROk (KCode h' ks') ->
  48 * zlen bs + 66048 <= lim <= maxAlloc ->
  load_binary lim 0 bs = LFun (KCode h' ks') (upvalueCount h') /\ dump (KCode h' ks') = ROk bs.
Proof. exact dump_unit_load_dump_stable. Qed.
Print Assumptions C13_dump_unit_load_dump_stable.

(* dumping is deterministic (a function) and two dumps are equal only for equal refactored codes *)
Theorem C13_dump_deterministic_injective :
  forall k1 k2 k1' k2', wf k1 -> wf k2 -> refactor_cst k1 = ROk k1' -> refactor_cst k2 = ROk k2' -> fits k1' ->
  (dump k1 = dump k2 <-> k1' = k2').
Proof. exact dump_deterministic_injective. Qed.
Print Assumptions C13_dump_deterministic_injective.

(* ---- Round 8 ---- *)

(* ANY byte string, ANY budget, ANY allocation limit: when UnmarshalConst returns a value, the
   input was the prefix 06 00 04, then what was consumed, then exactly the unread input it
   hands back: the reader never goes beyond (or skips within) its input. *)
Theorem C13_unmarshal_consumes_prefix :
  forall lim budget inp k rest b', unmarshal lim budget inp = UOk k rest b' ->
  exists consumed, inp = marshalPrefix ++ consumed ++ rest.
Proof. exact unmarshal_consumes_prefix. Qed.
Print Assumptions C13_unmarshal_consumes_prefix.

(* totality on ARBITRARY bytes and containment in the input, in one statement *)
Theorem C13_unmarshal_total_within_input :
  forall lim budget inp, 48 * zlen inp + 66048 <= lim <= maxAlloc ->
  match unmarshal lim budget inp with
  | UOk _ rest _ => exists consumed, inp = marshalPrefix ++ consumed ++ rest
  | UErr _ _ | UBudget => True
  | UPanic | UFatal _ | UOutOfFuel => False
  end.
Proof. exact unmarshal_total_within_input. Qed.
Print Assumptions C13_unmarshal_total_within_input.

(* readBytes: the eager path (make + io.ReadFull) and the chunked path (io.CopyN into a growing
   buffer) give the same outcome — bytes, unread input, budget left, error — for EVERY length n
   (negative and overflowing ones included), item size, input and budget, as soon as one
   allocation can get the announced total (eager) and 2*|input|+512 bytes (chunked). *)
Theorem C13_read_paths_agree :
  forall lim unl n item inp b, n * item <= lim -> 2 * zlen inp + 512 <= lim <= maxAlloc ->
  rd_bytes_eager lim unl n item inp b = rd_bytes_chunked lim unl n item inp b.
Proof. exact rd_bytes_paths_agree. Qed.
Print Assumptions C13_read_paths_agree.

(* with NO size hypothesis at all: for every threshold T the outcome of readBytes is the
   threshold-free "delivered data" function or an allocation stop; rd_bytes_T maxEagerRead is
   the model's rd_bytes *)
Theorem C13_read_any_threshold_data :
  forall T lim unl n item inp b,
  rd_bytes_T T lim unl n item inp b = rd_bytes_data unl n item inp b \/
  alloc_stop (rd_bytes_T T lim unl n item inp b).
Proof. exact rd_bytes_any_threshold_data. Qed.
Print Assumptions C13_read_any_threshold_data.

Theorem C13_read_threshold_is_model :
  forall lim unl n item inp b,
  rd_bytes_T maxEagerRead lim unl n item inp b = rd_bytes lim unl n item inp b.
Proof. exact rd_bytes_T_model. Qed.
Print Assumptions C13_read_threshold_is_model.

(* INDEPENDENCE OF maxEagerRead for the whole of UnmarshalConst: ANY byte string, ANY budget,
   EVERY threshold T that one allocation can get (T <= lim; negative T = everything chunked):
   the reader with threshold T is the model's reader (value, unread input, budget, errors). *)
Theorem C13_unmarshal_threshold_independent :
  forall T lim budget inp, T <= lim -> 65536 <= lim -> 2 * zlen inp + 512 <= lim <= maxAlloc ->
  unmarshal_T T lim budget inp = unmarshal lim budget inp.
Proof. exact unmarshal_threshold_independent. Qed.
Print Assumptions C13_unmarshal_threshold_independent.

(* unmarshal_T at the source's threshold IS the model's unmarshal (no hypothesis) *)
Theorem C13_unmarshal_T_is_model :
  forall lim budget inp, unmarshal_T maxEagerRead lim budget inp = unmarshal lim budget inp.
Proof. exact unmarshal_T_model. Qed.
Print Assumptions C13_unmarshal_T_is_model.

(* hypotheses satisfiable; threshold 0 sends every array through the chunked path *)
Theorem C13_unmarshal_T_example :
  unmarshal_T 0 1048576 0 (marshal ex_code) = UOk ex_code [] 0 /\
  unmarshal_T maxEagerRead 1048576 0 (marshal ex_code) = UOk ex_code [] 0.
Proof. exact unmarshal_T_example. Qed.
Print Assumptions C13_unmarshal_T_example.
