(* Properties/C02.v — statements only.  C02: numbers — arithmetic,
   comparison, bitwise operations and conversions are exact.
   Models: GV.Num.Model (IM: mirror of runtime/arith.go, comp.go, bitwise.go,
   numconv.go, lib/mathlib), GV.Num.Spec (S: the manual's definitions over Z
   and over the exact value (±m·2^e) of a float).  int64 = Z in [-2^63,2^63)
   (in64), float64 = Flocq binary64 with one NaN.
   Axioms: none of our own.  The theorems that mention real numbers depend on
   the Coq standard library's classical reals (Classical_Prop.classic,
   ClassicalDedekindReals.sig_not_dec, sig_forall_dec,
   FunctionalExtensionality.functional_extensionality_dep) through Flocq. *)
From Coq Require Import ZArith Reals List Bool.
From Flocq Require Import Core.Core IEEE754.BinarySingleNaN.
From GV Require Import Base.W64 Base.F64 Num.Model Num.Spec Num.IntProofs Num.MixedCmp Num.CmpOrder Num.ConvProofs Num.StrSpec Num.StrModel Num.StrProofs Num.ModProofs Num.BitStr Num.BitProofs Num.ModRows.
Open Scope Z_scope.

(* ---- integer arithmetic wraps around modulo 2^64 ---- *)
Theorem C02_add_int_spec : forall a b,
  exists r, add (NInt a) (NInt b) = NInt r /\ in64 r /\ r mod 2 ^ 64 = (a + b) mod 2 ^ 64 /\ r = s_add_int a b.
Proof. exact add_int_spec. Qed.
Print Assumptions C02_add_int_spec.

Theorem C02_sub_int_spec : forall a b,
  exists r, sub (NInt a) (NInt b) = NInt r /\ in64 r /\ r mod 2 ^ 64 = (a - b) mod 2 ^ 64 /\ r = s_sub_int a b.
Proof. exact sub_int_spec. Qed.
Print Assumptions C02_sub_int_spec.

Theorem C02_mul_int_spec : forall a b,
  exists r, mul (NInt a) (NInt b) = NInt r /\ in64 r /\ r mod 2 ^ 64 = (a * b) mod 2 ^ 64 /\ r = s_mul_int a b.
Proof. exact mul_int_spec. Qed.
Print Assumptions C02_mul_int_spec.

Theorem C02_unm_int_spec : forall a,
  exists r, unm (NInt a) = NInt r /\ in64 r /\ r mod 2 ^ 64 = (- a) mod 2 ^ 64 /\ r = s_unm_int a.
Proof. exact unm_int_spec. Qed.
Print Assumptions C02_unm_int_spec.

(* ---- floor division and modulo (Z's / and mod are floor division and its remainder) ---- *)
Theorem C02_floordiv_int_spec : forall a b, in64 a -> in64 b -> b <> 0 ->
  floordivInt a b = wrap64 (a / b).
Proof. exact floordiv_int_spec. Qed.
Print Assumptions C02_floordiv_int_spec.

Theorem C02_floordiv_int_floor : forall a b, in64 a -> in64 b -> b <> 0 -> ~ (a = minint /\ b = -1) ->
  floordivInt a b = a / b.
Proof. exact floordiv_int_floor. Qed.
Print Assumptions C02_floordiv_int_floor.

Theorem C02_mod_int_spec : forall a b, in64 a -> in64 b -> b <> 0 -> modInt a b = a mod b.
Proof. exact mod_int_spec. Qed.
Print Assumptions C02_mod_int_spec.

(* the result of % has the sign of the divisor, is smaller in magnitude, and a = b*(a//b) + a%b *)
Theorem C02_mod_int_props : forall a b, in64 a -> in64 b -> b <> 0 ->
  let r := modInt a b in
  in64 r /\ (0 < b -> 0 <= r < b) /\ (b < 0 -> b < r <= 0) /\ a = b * (a / b) + r.
Proof. exact mod_int_props. Qed.
Print Assumptions C02_mod_int_props.

Theorem C02_div_by_zero_is_error : forall x,
  idiv (NInt x) (NInt 0) = RErr EDivZero /\ mod_ (NInt x) (NInt 0) = RErr EModZero.
Proof. exact div_by_zero_is_error. Qed.
Print Assumptions C02_div_by_zero_is_error.

(* ---- shifts: logical, >= 64 gives 0, negative displacement shifts the other way ---- *)
Theorem C02_shl_spec : forall a n, in64 a -> in64 n -> shl64 a n = s_shl a n.
Proof. exact shl_int_spec. Qed.
Print Assumptions C02_shl_spec.

Theorem C02_shr_spec : forall a n, in64 a -> in64 n -> shr64 a n = s_shr a n.
Proof. exact shr_int_spec. Qed.
Print Assumptions C02_shr_spec.

Theorem C02_shift_props : forall a n, in64 a -> in64 n ->
  (64 <= Z.abs n -> shl64 a n = 0 /\ shr64 a n = 0) /\
  (n = 0 -> shl64 a n = a /\ shr64 a n = a) /\
  (n <> minint -> shl64 a n = shr64 a (neg64 n)).
Proof. exact shift_props. Qed.
Print Assumptions C02_shift_props.

(* ---- mixed integer/float comparison against the order of the reals ---- *)
Theorem C02_lt_float_int_exact : forall n f, in64 n -> is_finite f = true ->
  (ltFloatAndInt f n = true <-> (B2R f < IZR n)%R).
Proof. exact ltFloatAndInt_exact. Qed.
Print Assumptions C02_lt_float_int_exact.

Theorem C02_le_int_float_exact : forall n f, in64 n -> is_finite f = true ->
  (leIntAndFloat n f = true <-> (IZR n <= B2R f)%R).
Proof. exact leIntAndFloat_exact. Qed.
Print Assumptions C02_le_int_float_exact.

Theorem C02_eq_mixed_exact : forall n f, in64 n -> is_finite f = true ->
  (equalIntAndFloat n f = true <-> IZR n = B2R f).
Proof. exact equalIntAndFloat_exact. Qed.
Print Assumptions C02_eq_mixed_exact.

(* Full theorems since the repair of runtime/comp.go (range test f >= 2^63 before int64(f));
   before it they failed for f = 2^63, n >= 2^63-512 (witness n = maxinteger now in corpus/C02). *)
Theorem C02_lt_mixed_exact : forall n f, in64 n -> is_finite f = true ->
  (ltIntAndFloat n f = true <-> (IZR n < B2R f)%R).
Proof. exact ltIntAndFloat_exact. Qed.
Print Assumptions C02_lt_mixed_exact.

Theorem C02_le_mixed_exact : forall n f, in64 n -> is_finite f = true ->
  (leFloatAndInt f n = true <-> (B2R f <= IZR n)%R).
Proof. exact leFloatAndInt_exact. Qed.
Print Assumptions C02_le_mixed_exact.

(* the range test is necessary: the comparison without it (the code before the repair) is wrong at 2^63 *)
Theorem C02_range_test_needed :
  exists n f, in64 n /\ is_finite f = true /\ (IZR n < B2R f)%R /\
    ltIntAndFloat_core n f = false /\ leFloatAndInt_core f n = true.
Proof. exact core_alone_refuted. Qed.
Print Assumptions C02_range_test_needed.

(* infinities and NaN rows *)
Theorem C02_cmp_nonfinite : forall n, in64 n ->
  ltIntAndFloat n (finf false) = true /\ leIntAndFloat n (finf false) = true /\
  ltFloatAndInt (finf false) n = false /\ leFloatAndInt (finf false) n = false /\
  equalIntAndFloat n (finf false) = false /\
  ltIntAndFloat n (finf true) = false /\ leIntAndFloat n (finf true) = false /\
  ltFloatAndInt (finf true) n = true /\ leFloatAndInt (finf true) n = true /\
  equalIntAndFloat n (finf true) = false /\
  ltIntAndFloat n fnan = false /\ leIntAndFloat n fnan = false /\
  ltFloatAndInt fnan n = false /\ leFloatAndInt fnan n = false /\
  equalIntAndFloat n fnan = false.
Proof. exact cmp_nonfinite. Qed.
Print Assumptions C02_cmp_nonfinite.

(* S (the executable spec used by the oracle) is the order of the reals *)
Theorem C02_spec_cmp_is_real_order : forall n f, is_finite f = true ->
  s_cmp_int_float n f = Some (Rcompare (IZR n) (B2R f)).
Proof. exact s_cmp_int_float_correct. Qed.
Print Assumptions C02_spec_cmp_is_real_order.

(* golua's < <= == on any two numbers coincide with S *)
Theorem C02_cmp_im_is_spec : forall x y, num_wf x -> num_wf y ->
  num_lt x y = s_lt x y /\ num_le x y = s_le x y /\ num_eq x y = s_eq x y.
Proof. exact cmp_im_is_spec. Qed.
Print Assumptions C02_cmp_im_is_spec.

(* ---- comparison is a consistent order ---- *)
Theorem C02_compare_total : forall x y, num_wf x -> num_wf y ->
  num_is_nan x = false -> num_is_nan y = false ->
  exactly_one (num_lt x y) (num_eq x y) (num_lt y x).
Proof. exact compare_total. Qed.
Print Assumptions C02_compare_total.

Theorem C02_le_iff_lt_or_eq : forall x y, num_wf x -> num_wf y ->
  num_le x y = num_lt x y || num_eq x y.
Proof. exact le_iff_lt_or_eq. Qed.
Print Assumptions C02_le_iff_lt_or_eq.

Theorem C02_cmp_nan : forall x y, num_wf x -> num_wf y -> num_is_nan x = true \/ num_is_nan y = true ->
  num_lt x y = false /\ num_le x y = false /\ num_eq x y = false.
Proof. exact cmp_nan. Qed.
Print Assumptions C02_cmp_nan.

(* ---- float -> integer conversion: exactly the floats with an integer value in range ---- *)
Theorem C02_float_to_int_spec : forall f z,
  FloatToInt f = Some z <-> (is_finite f = true /\ in64 z /\ IZR z = B2R f).
Proof. exact float_to_int_exact. Qed.
Print Assumptions C02_float_to_int_spec.

Theorem C02_float_to_int_is_S : forall f, FloatToInt f = s_float_to_int f.
Proof. exact float_to_int_spec. Qed.
Print Assumptions C02_float_to_int_is_S.

Theorem C02_bitwise_requires_int : forall f x y, bitop f x y = s_bitop f x y.
Proof. exact bitwise_requires_int. Qed.
Print Assumptions C02_bitwise_requires_int.

Theorem C02_mixed_arith_converts : forall a g, in64 a ->
  add (NInt a) (NFlt g) = NFlt (fadd (of_int a) g) /\
  sub (NInt a) (NFlt g) = NFlt (fsub (of_int a) g) /\
  mul (NInt a) (NFlt g) = NFlt (fmul (of_int a) g) /\
  div (NInt a) (NFlt g) = NFlt (fdiv (of_int a) g) /\
  div (NInt a) (NInt a) = NFlt (fdiv (of_int a) (of_int a)) /\
  B2R (of_int a) = round radix2 fexp64 ZnearestE (IZR a) /\
  (Z.abs a <= 2 ^ 53 -> B2R (of_int a) = IZR a).
Proof. exact mixed_arith_converts. Qed.
Print Assumptions C02_mixed_arith_converts.

(* & | ~ and unary ~ keep int64 operands inside int64 *)
Theorem C02_bitwise_closed : forall a b, in64 a -> in64 b ->
  in64 (and64 a b) /\ in64 (or64 a b) /\ in64 (xor64 a b) /\ in64 (not64 a).
Proof. exact bitwise_closed. Qed.
Print Assumptions C02_bitwise_closed.

(* ---- string -> number: StringToNumber (runtime/numconv.go after the repair) accepts exactly the manual's
   numeral syntax (ASCII white space, one sign, decimal/hex integers and floats) and returns the value the
   manual defines, for EVERY byte string, provided Go's strconv functions are correct on the syntactically
   valid texts they are handed (ParseInt_ok, ParseUint16_ok, ParseFloat_dec_ok, ParseFloat_hex_ok: Section
   hypotheses, trusted base, sampled by the correspondence check). ---- *)
Theorem C02_to_number_string_spec : forall ParseInt ParseUint16 ParseFloat,
  ParseInt_ok ParseInt -> ParseUint16_ok ParseUint16 -> ParseFloat_dec_ok ParseFloat -> ParseFloat_hex_ok ParseFloat ->
  forall s, StringToNumber ParseInt ParseUint16 ParseFloat s = s_str2number s.
Proof. exact to_number_string_spec. Qed.
Print Assumptions C02_to_number_string_spec.

(* numeric literals: ast.NewNumber on a numeral token denotes the same number *)
Theorem C02_literal_spec : forall ParseInt ParseUint16 ParseFloat,
  ParseInt_ok ParseInt -> ParseUint16_ok ParseUint16 -> ParseFloat_dec_ok ParseFloat -> ParseFloat_hex_ok ParseFloat ->
  forall tok, numeral_token tok -> NewNumber ParseInt ParseUint16 ParseFloat tok = s_str2number tok.
Proof. exact literal_spec. Qed.
Print Assumptions C02_literal_spec.

(* math.fmod after the repair: truncated remainder on integers (zero divisor is an error), C fmod on floats *)
Theorem C02_math_fmod_spec : forall x y, math_fmod x y = s_math_fmod x y.
Proof. exact math_fmod_spec. Qed.
Print Assumptions C02_math_fmod_spec.

Theorem C02_math_fmod_int_props : forall a b, b <> 0 ->
  exists r, math_fmod (NInt a) (NInt b) = ROk (NInt r) /\ a = b * Z.quot a b + r /\ Z.abs r < Z.abs b /\ 0 <= r * a.
Proof. exact math_fmod_int_props. Qed.
Print Assumptions C02_math_fmod_int_props.

(* the decimal text of every integer (optional '-', digits, no leading zero) converts back to that integer *)
Theorem C02_tostring_tonumber_int : forall n, in64 n -> s_str2number (int_to_dec n) = Some (NInt n).
Proof. exact tostring_tonumber_int. Qed.
Print Assumptions C02_tostring_tonumber_int.

(* ---- float modulo: golua's math.Mod-then-adjust (modFloat) is, for ALL binary64 operands and bit for bit
   (sign of zero included), the manual's a - floor(a/b)*b computed exactly and rounded once ---- *)
Theorem C02_mod_float_spec : forall x y, modFloat x y = s_mod_float x y.
Proof. exact mod_float_spec. Qed.
Print Assumptions C02_mod_float_spec.

Theorem C02_fmod_floor_value : forall sx mx ex Bx sy my ey By,
  let a := B754_finite sx mx ex Bx : f64 in let b := B754_finite sy my ey By : f64 in
  B2R (fmod_floor_exact a b) =
    round radix2 fexp64 ZnearestE (B2R a - IZR (Zfloor (B2R a / B2R b)) * B2R b) /\
  is_finite (fmod_floor_exact a b) = true.
Proof. exact fmod_floor_value. Qed.
Print Assumptions C02_fmod_floor_value.

(* the strconv hypotheses are satisfiable: ParseInt and ParseUint by reference implementations for all inputs *)
Theorem C02_ParseInt_ok_sat : ParseInt_ok ParseInt_ref.
Proof. exact ParseInt_ok_sat. Qed.
Print Assumptions C02_ParseInt_ok_sat.

(* ---- bitwise operators on string operands.  NOT a theorem of the code as it stands: golua never converts
   a string operand (ToIntNoString) and raises "attempt to perform bitwise ... on a string value"; the manual
   converts a numeric string to a number and then to an integer ('3' | 0 = 3).  Open finding
   C02-bitwise-string-operands (golua's test runtime/lua/bitwise.lua pins the error, so not repaired).
   bitstr_defect a b = some operand is a string that is a numeral. ---- *)
Theorem C02_bitop_val_refuted : exists f a b, bitop_val_im f a b <> bitop_val_s f a b.
Proof. exact bitop_val_refuted. Qed.
Print Assumptions C02_bitop_val_refuted.

Theorem C02_bitop_val_partial : forall f a b, bitstr_defect a b = false -> bitop_val_im f a b = bitop_val_s f a b.
Proof. exact bitop_val_partial. Qed.
Print Assumptions C02_bitop_val_partial.

(* ---- round 8: bitwise operators against the manual's "operate on the 64-bit two's-complement patterns".
   pat_and/or/xor/not/shl/shr (Num/BitProofs.v) are written on the unsigned pattern u64 a = a mod 2^64 and
   converted back with wrap64; the IM uses Z.land/... on the signed value and Go's uint64 shifts. ---- *)
Theorem C02_bitwise_is_pattern : forall a b, in64 a -> in64 b ->
  and64 a b = pat_and a b /\ or64 a b = pat_or a b /\ xor64 a b = pat_xor a b /\ not64 a = pat_not a.
Proof. exact bitwise_is_pattern. Qed.
Print Assumptions C02_bitwise_is_pattern.

Theorem C02_bitwise_bits : forall a b i, 0 <= i < 64 ->
  Z.testbit (and64 a b) i = Z.testbit a i && Z.testbit b i /\
  Z.testbit (or64 a b) i = Z.testbit a i || Z.testbit b i /\
  Z.testbit (xor64 a b) i = xorb (Z.testbit a i) (Z.testbit b i) /\
  Z.testbit (not64 a) i = negb (Z.testbit a i).
Proof. exact bitwise_bits. Qed.
Print Assumptions C02_bitwise_bits.

(* an int64 is determined by its bits 0..63, so C02_bitwise_bits / C02_shl_bits / C02_shr_bits fix the results *)
Theorem C02_in64_eq_bits : forall x y, in64 x -> in64 y ->
  (forall i, 0 <= i < 64 -> Z.testbit x i = Z.testbit y i) -> x = y.
Proof. exact in64_eq_bits. Qed.
Print Assumptions C02_in64_eq_bits.

(* << and >> return an int64 whatever the operands *)
Theorem C02_shift_closed : forall a n, in64 (shl64 a n) /\ in64 (shr64 a n).
Proof. exact shift_closed. Qed.
Print Assumptions C02_shift_closed.

(* |n| >= 64 gives 0, otherwise the logical shift of the pattern; a negative displacement shifts the other way *)
Theorem C02_shift_is_pattern : forall a n, in64 a -> in64 n ->
  shl64 a n = (if (n <=? -64) || (64 <=? n) then 0 else pat_shl a n) /\
  shr64 a n = (if (n <=? -64) || (64 <=? n) then 0 else pat_shr a n) /\
  pat_shl a n = pat_shr a (- n).
Proof. exact shift_is_pattern. Qed.
Print Assumptions C02_shift_is_pattern.

(* bit i of a << n is bit i-n of a if 0 <= i-n < 64, else 0 (every displacement, either sign, any size) *)
Theorem C02_shl_bits : forall a n i, in64 a -> in64 n -> 0 <= i < 64 ->
  Z.testbit (shl64 a n) i = (0 <=? i - n) && (i - n <? 64) && Z.testbit a (i - n).
Proof. exact shl_bits. Qed.
Print Assumptions C02_shl_bits.

(* bit i of a >> n is bit i+n of a if 0 <= i+n < 64, else 0: logical (zero-fill) right shift *)
Theorem C02_shr_bits : forall a n i, in64 a -> in64 n -> 0 <= i < 64 ->
  Z.testbit (shr64 a n) i = (0 <=? i + n) && (i + n <? 64) && Z.testbit a (i + n).
Proof. exact shr_bits. Qed.
Print Assumptions C02_shr_bits.

Theorem C02_shift_unsigned : forall a n, in64 a -> 0 <= n < 64 ->
  u64 (shl64 a n) = (u64 a * 2 ^ n) mod 2 ^ 64 /\ u64 (shr64 a n) = u64 a / 2 ^ n.
Proof. exact shift_unsigned. Qed.
Print Assumptions C02_shift_unsigned.

Theorem C02_shift_minint : forall a, in64 a -> shl64 a minint = 0 /\ shr64 a minint = 0.
Proof. exact shift_minint. Qed.
Print Assumptions C02_shift_minint.

(* ---- round 8: float modulo, the special-case rows of modFloat stated directly on the IM
   (finite % finite non-zero is C02_mod_float_spec + C02_fmod_floor_value) ---- *)
Theorem C02_mod_float_rows :
  (forall y, modFloat fnan y = fnan) /\ (forall x, modFloat x fnan = fnan) /\
  (forall s y, modFloat (finf s) y = fnan) /\
  (forall x s, modFloat x (fzero s) = fnan) /\
  (forall s sy, modFloat (fzero s) (finf sy) = fzero s) /\
  (forall s sy m e B, modFloat (fzero s) (B754_finite sy m e B) = fzero s) /\
  (forall s m e B sy, modFloat (B754_finite s m e B) (finf sy) =
                      if Bool.eqb s sy then B754_finite s m e B else finf sy).
Proof. exact mod_float_rows. Qed.
Print Assumptions C02_mod_float_rows.
