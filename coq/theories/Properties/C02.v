(* Properties/C02.v — statements only.  C02: numbers — arithmetic,
   comparison, bitwise operations and conversions are exact.
   Models: GV.Num.Model (IM: mirror of runtime/arith.go, comp.go, bitwise.go,
   numconv.go, lib/mathlib), GV.Num.Spec (S: the manual's definitions over Z
   and over the exact value of a float). *)
From Coq Require Import ZArith List Bool.
From GV Require Import Base.W64 Base.F64 Num.Model Num.Spec Num.IntProofs.
Open Scope Z_scope.

(* Integer + - * and unary minus wrap around modulo 2^64. *)
Theorem C02_add_int_spec : forall a b,
  exists r, add (NInt a) (NInt b) = NInt r /\ in64 r /\ r mod 2 ^ 64 = (a + b) mod 2 ^ 64 /\ r = s_add_int a b.
Proof. exact add_int_spec. Qed.
Print Assumptions C02_add_int_spec.
