(* Base/F64.v — Go's float64 as Flocq's binary64 with a single NaN
   (Lua cannot observe NaN payloads).  Definitions only; lemmas are in
   Base/F64Lemmas.v.

   Platform assumption (DESIGN §4): Go's int64(f) for a float64 f that is NaN,
   infinite or outside [-2^63, 2^63) yields -2^63 (amd64 CVTTSD2SI); go_f2i
   models exactly that.  The Go harness samples this assumption. *)
From Coq Require Import ZArith Bool.
From Flocq Require Import Core.Core IEEE754.BinarySingleNaN.
From GV Require Import Base.W64.
Open Scope Z_scope.

Global Instance Hprec64 : Prec_gt_0 53 := eq_refl.
Global Instance Hmax64 : Prec_lt_emax 53 1024 := eq_refl.

Definition f64 : Type := binary_float 53 1024.
Notation fexp64 := (FLT_exp (3 - 1024 - 53) 53).

Definition fnan : f64 := B754_nan.
Definition finf (s : bool) : f64 := B754_infinity s.
Definition fzero (s : bool) : f64 := B754_zero s.

(* float64(n) for an int64 n: round to nearest even *)
Definition of_int (n : Z) : f64 := binary_normalize 53 1024 Hprec64 Hmax64 mode_NE n 0 false.

(* m * 2^e rounded to nearest even (exact when representable) *)
Definition of_mant_exp (m e : Z) (szero : bool) : f64 :=
  binary_normalize 53 1024 Hprec64 Hmax64 mode_NE m e szero.

(* int64(f): truncation; NaN, infinities and out-of-range values give -2^63 *)
Definition go_f2i (f : f64) : Z :=
  if is_finite f then (let z := Btrunc f in if in64b z then z else minint) else minint.

Definition fadd (x y : f64) : f64 := Bplus mode_NE x y.
Definition fsub (x y : f64) : f64 := Bminus mode_NE x y.
Definition fmul (x y : f64) : f64 := Bmult mode_NE x y.
Definition fdiv (x y : f64) : f64 := Bdiv mode_NE x y.
Definition fneg (x : f64) : f64 := Bopp x.
Definition fabs (x : f64) : f64 := Babs x.
Definition ffloor (x : f64) : f64 := Bnearbyint mode_DN x.
Definition fceil (x : f64) : f64 := Bnearbyint mode_UP x.
Definition ftrunc (x : f64) : f64 := Bnearbyint mode_ZR x.

(* Go's ==, <, <= on float64 (false whenever a NaN is involved; -0 == +0) *)
Definition feq (x y : f64) : bool := Beqb x y.
Definition flt (x y : f64) : bool := Bltb x y.
Definition fle (x y : f64) : bool := Bleb x y.

Definition fsign (x : f64) : bool := Bsign x.
Definition fis_nan (x : f64) : bool := is_nan x.
Definition fis_zero (x : f64) : bool := match x with B754_zero _ => true | _ => false end.
(* x < 0 as Go evaluates it (false for -0 and NaN) *)
Definition fneg0 (x : f64) : bool := flt x (fzero false).
Definition fpos0 (x : f64) : bool := flt (fzero false) x.

(* math.Mod(x, y) = x - trunc(x/y)*y computed exactly, sign of x (C fmod):
   Mod(±Inf, y) = NaN, Mod(NaN, y) = NaN, Mod(x, 0) = NaN, Mod(x, ±Inf) = x,
   Mod(x, NaN) = NaN. *)
Definition fmod (x y : f64) : f64 :=
  match x, y with
  | B754_nan, _ | _, B754_nan => B754_nan
  | B754_infinity _, _ => B754_nan
  | _, B754_zero _ => B754_nan
  | _, B754_infinity _ => x
  | B754_zero _, _ => x
  | B754_finite sx mx ex _, B754_finite _ my ey _ =>
      let e := Z.min ex ey in
      let X := Zpos mx * 2 ^ (ex - e) in
      let Y := Zpos my * 2 ^ (ey - e) in
      of_mant_exp (cond_Zopp sx (X mod Y)) e sx
  end.

(* the real-number floor modulo a - floor(a/b)*b, computed exactly and then
   rounded once; sign of a zero result follows x (as fmod does) *)
Definition fmod_floor_exact (x y : f64) : f64 :=
  match x, y with
  | B754_finite sx mx ex _, B754_finite sy my ey _ =>
      let e := Z.min ex ey in
      let X := cond_Zopp sx (Zpos mx * 2 ^ (ex - e)) in
      let Y := cond_Zopp sy (Zpos my * 2 ^ (ey - e)) in
      of_mant_exp (X mod Y) e sx
  | _, _ => B754_nan
  end.

(* IEEE-754 binary64 interchange format <-> f64; every NaN maps to one value *)
Definition of_bits (b : Z) : f64 :=
  let s := Z.testbit b 63 in
  let e := (b / 2 ^ 52) mod 2 ^ 11 in
  let m := b mod 2 ^ 52 in
  if e =? 0 then of_mant_exp (cond_Zopp s m) (-1074) s
  else if e =? 2047 then (if m =? 0 then B754_infinity s else B754_nan)
  else of_mant_exp (cond_Zopp s (m + 2 ^ 52)) (e - 1075) s.

Definition nan_bits : Z := 0x7ff8000000000001.

Definition to_bits (f : f64) : Z :=
  match f with
  | B754_zero s => if s then 2 ^ 63 else 0
  | B754_infinity s => (if s then 2 ^ 63 else 0) + 2047 * 2 ^ 52
  | B754_nan => nan_bits
  | B754_finite s m e _ =>
      (if s then 2 ^ 63 else 0) +
      (if Zpos m <? 2 ^ 52 then Zpos m else (e + 1075) * 2 ^ 52 + (Zpos m - 2 ^ 52))
  end.
