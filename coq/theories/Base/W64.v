(* Base/W64.v — Go's fixed-width 64-bit integers as arithmetic on Z.
   Definitions only (executable, extracted); lemmas are in Base/W64Lemmas.v.

   An int64 is a Z in [-2^63, 2^63); a uint64 is a Z in [0, 2^64).
   wrap64 is the conversion "keep the low 64 bits, read as two's complement"
   (Go's int64(x) on an integer of any width); u64 is Go's uint64(x). *)
From Coq Require Import ZArith.
Open Scope Z_scope.

Definition W : Z := 2 ^ 64.
Definition minint : Z := - 2 ^ 63.
Definition maxint : Z := 2 ^ 63 - 1.

Definition wrap64 (z : Z) : Z := (z + 2 ^ 63) mod 2 ^ 64 - 2 ^ 63.
Definition u64 (z : Z) : Z := z mod 2 ^ 64.
Definition in64 (z : Z) : Prop := - 2 ^ 63 <= z < 2 ^ 63.
Definition in64b (z : Z) : bool := (- 2 ^ 63 <=? z) && (z <? 2 ^ 63).
Definition inu64 (z : Z) : Prop := 0 <= z < 2 ^ 64.

(* Go int64 arithmetic: wraps silently *)
Definition add64 (a b : Z) : Z := wrap64 (a + b).
Definition sub64 (a b : Z) : Z := wrap64 (a - b).
Definition mul64 (a b : Z) : Z := wrap64 (a * b).
Definition neg64 (a : Z) : Z := wrap64 (- a).

(* Go's / and % on int64: truncated division; minint / -1 wraps to minint
   (no panic in Go for that case), minint % -1 = 0.  b = 0 is a Go run-time
   panic: callers must test for it first (the models do, as the Go code does). *)
Definition quot64 (a b : Z) : Z := wrap64 (Z.quot a b).
Definition rem64 (a b : Z) : Z := Z.rem a b.

(* bitwise operations on int64: Z.land/lor/lxor/lnot are the two's-complement
   operations on unbounded integers and preserve the int64 range *)
Definition and64 (a b : Z) : Z := Z.land a b.
Definition or64 (a b : Z) : Z := Z.lor a b.
Definition xor64 (a b : Z) : Z := Z.lxor a b.
Definition not64 (a : Z) : Z := Z.lnot a.

(* Go's shifts on uint64 with a uint64 count: a count >= 64 gives 0 *)
Definition shlu64 (x n : Z) : Z := if 64 <=? n then 0 else u64 (Z.shiftl x n).
Definition shru64 (x n : Z) : Z := if 64 <=? n then 0 else Z.shiftr x n.
