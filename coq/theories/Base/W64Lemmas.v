(* Base/W64Lemmas.v — facts about 64-bit wrap-around arithmetic on Z. *)
From Coq Require Import ZArith Lia Bool.
From GV Require Import Base.W64.
Open Scope Z_scope.

Lemma two63 : 2 ^ 63 = 9223372036854775808. Proof. reflexivity. Qed.
Lemma two64 : 2 ^ 64 = 18446744073709551616. Proof. reflexivity. Qed.

Lemma wrap64_range z : in64 (wrap64 z).
Proof. unfold in64, wrap64. rewrite two63, two64. pose proof (Z.mod_pos_bound (z + 9223372036854775808) 18446744073709551616). lia. Qed.

Lemma wrap64_id z : in64 z -> wrap64 z = z.
Proof. unfold in64, wrap64. rewrite two63, two64. intros H. rewrite Z.mod_small; lia. Qed.

Lemma wrap64_congr z : exists k, wrap64 z = z + k * 2 ^ 64.
Proof.
  unfold wrap64. rewrite two63, two64.
  exists (- ((z + 9223372036854775808) / 18446744073709551616)).
  pose proof (Z.div_mod (z + 9223372036854775808) 18446744073709551616). lia.
Qed.

Lemma wrap64_unique z r k : in64 r -> r = z + k * 2 ^ 64 -> wrap64 z = r.
Proof.
  intros Hr E. destruct (wrap64_congr z) as [k' E']. pose proof (wrap64_range z) as R.
  unfold in64 in *. rewrite two63, two64 in *. nia.
Qed.

Lemma wrap64_wrap_add x y : wrap64 (wrap64 x + y) = wrap64 (x + y).
Proof.
  destruct (wrap64_congr x) as [k E]. destruct (wrap64_congr (x + y)) as [k' E'].
  apply wrap64_unique with (k := k' - k). apply wrap64_range. rewrite E. rewrite E'. ring.
Qed.

Lemma wrap64_mod z : wrap64 z mod 2 ^ 64 = z mod 2 ^ 64.
Proof. destruct (wrap64_congr z) as [k ->]. apply Z.mod_add. rewrite two64; lia. Qed.

Lemma u64_range z : inu64 (u64 z).
Proof. unfold inu64, u64. apply Z.mod_pos_bound. rewrite two64; lia. Qed.

Lemma u64_of_in64 z : in64 z -> u64 z = if z <? 0 then z + 2 ^ 64 else z.
Proof.
  unfold in64, u64. rewrite two63, two64. intros H. destruct (Z.ltb_spec z 0).
  - symmetry. apply Z.mod_unique_pos with (q := -1); lia.
  - apply Z.mod_small; lia.
Qed.

Lemma wrap64_u64 z : wrap64 (u64 z) = wrap64 z.
Proof.
  unfold u64. destruct (wrap64_congr z) as [k E].
  apply wrap64_unique with (k := k + z / 2 ^ 64). apply wrap64_range.
  rewrite E. pose proof (Z.div_mod z (2 ^ 64)). rewrite two64 in *. lia.
Qed.

Lemma in64b_true z : in64b z = true <-> in64 z.
Proof. unfold in64b, in64. rewrite andb_true_iff, Z.leb_le, Z.ltb_lt. tauto. Qed.

Lemma minint_val : minint = - 2 ^ 63. Proof. reflexivity. Qed.
Lemma in64_minint : in64 minint. Proof. unfold in64, minint. rewrite two63. lia. Qed.
