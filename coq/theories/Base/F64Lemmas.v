(* Base/F64Lemmas.v — facts about int64 <-> binary64 conversion (Flocq). *)
From Coq Require Import ZArith Reals Lia Lra Psatz Bool.
From Flocq Require Import Core.Core IEEE754.BinarySingleNaN.
From GV Require Import Base.W64 Base.W64Lemmas Base.F64.
Open Scope Z_scope.

Lemma fexp64_valid : Valid_exp fexp64.
Proof. apply FLT_exp_valid. exact Hprec64. Qed.
#[global] Existing Instance fexp64_valid.

(* 1. integers of magnitude <= 2^53 are in the format *)
Lemma small_int_format (n : Z) : Z.abs n <= 2^53 -> generic_format radix2 fexp64 (IZR n).
Proof.
  intros H.
  apply generic_format_FLT.
  destruct (Z.eq_dec (Z.abs n) (2^53)) as [E|NE].
  - exists (Float radix2 (Z.sgn n) 53).
    + unfold F2R; simpl. rewrite <- mult_IZR. f_equal.
      change (Z.pow_pos 2 53) with (2^53). rewrite <- E. rewrite Z.mul_comm. symmetry. apply Z.abs_sgn.
    + simpl. destruct n; simpl; lia.
    + simpl. lia.
  - exists (Float radix2 n 0).
    + unfold F2R; simpl. now rewrite Rmult_1_r.
    + simpl. lia.
    + simpl. lia.
Qed.

(* 2. of_int is round-to-nearest-even of the integer, finite, for |n| <= 2^63 *)
Lemma of_int_correct (n : Z) : Z.abs n <= 2^63 ->
  B2R (of_int n) = round radix2 fexp64 ZnearestE (IZR n) /\ is_finite (of_int n) = true.
Proof.
  intros H.
  generalize (binary_normalize_correct 53 1024 Hprec64 Hmax64 mode_NE n 0 false).
  cbv zeta. unfold of_int.
  replace (F2R (Float radix2 n 0)) with (IZR n) by (unfold F2R; simpl; ring).
  rewrite Rlt_bool_true.
  - intros (C1 & C2 & _). split; [exact C1|exact C2].
  - apply Rle_lt_trans with (bpow radix2 63).
    + apply abs_round_le_generic.
      * apply FLT_exp_valid. exact Hprec64.
      * apply valid_rnd_N.
      * apply generic_format_bpow. vm_compute. discriminate.
      * rewrite <- abs_IZR. change (bpow radix2 63) with (IZR (2^63)). now apply IZR_le.
    + apply bpow_lt. lia.
Qed.

Lemma in64_abs n : in64 n -> Z.abs n <= 2 ^ 63.
Proof. unfold in64. lia. Qed.

Lemma of_int_finite n : in64 n -> is_finite (of_int n) = true.
Proof. intros H. apply of_int_correct. now apply in64_abs. Qed.

(* 3. monotone *)
Lemma of_int_mono (n m : Z) : Z.abs n <= 2^63 -> Z.abs m <= 2^63 -> n <= m ->
  (B2R (of_int n) <= B2R (of_int m))%R.
Proof.
  intros Hn Hm' Hle.
  destruct (of_int_correct n Hn) as [-> _]. destruct (of_int_correct m Hm') as [-> _].
  apply round_le. apply FLT_exp_valid; exact Hprec64. apply valid_rnd_N. now apply IZR_le.
Qed.

(* 4. exact on small integers *)
Lemma of_int_exact (n : Z) : Z.abs n <= 2^53 -> B2R (of_int n) = IZR n.
Proof.
  intros H. destruct (of_int_correct n) as [-> _]. lia.
  apply round_generic. apply valid_rnd_N. now apply small_int_format.
Qed.

(* 5. exact whenever the integer is representable *)
Lemma of_int_exact_format (n : Z) : Z.abs n <= 2^63 -> generic_format radix2 fexp64 (IZR n) ->
  B2R (of_int n) = IZR n.
Proof.
  intros H G. destruct (of_int_correct n H) as [-> _]. apply round_generic; auto. apply valid_rnd_N.
Qed.

Lemma format_B2R (f : f64) : generic_format radix2 fexp64 (B2R f).
Proof. apply generic_format_B2R. Qed.

(* rounding an integer against a representable bound *)
Lemma of_int_le_bound n (x : R) : Z.abs n <= 2^63 -> generic_format radix2 fexp64 x ->
  (IZR n <= x)%R -> (B2R (of_int n) <= x)%R.
Proof.
  intros H G L. destruct (of_int_correct n H) as [-> _].
  apply round_le_generic; auto; try apply valid_rnd_N; apply fexp64_valid.
Qed.
Lemma of_int_ge_bound n (x : R) : Z.abs n <= 2^63 -> generic_format radix2 fexp64 x ->
  (x <= IZR n)%R -> (x <= B2R (of_int n))%R.
Proof.
  intros H G L. destruct (of_int_correct n H) as [-> _].
  apply round_ge_generic; auto; try apply valid_rnd_N; apply fexp64_valid.
Qed.

(* a number of the format that is not an integer has magnitude below 2^52 *)
Lemma format_nonint_small (x : R) : generic_format radix2 fexp64 x ->
  (forall z : Z, x <> IZR z) -> (Rabs x < bpow radix2 52)%R.
Proof.
  intros G NI.
  destruct (Rlt_or_le (Rabs x) (bpow radix2 52)) as [L|L]; [exact L|exfalso].
  assert (X0 : x <> 0%R) by (intro E; apply (NI 0); exact E).
  assert (Hc : 0 <= cexp radix2 fexp64 x).
  { unfold cexp, FLT_exp.
    assert (53 <= mag radix2 x).
    { apply mag_ge_bpow. simpl Z.sub. exact L. }
    lia. }
  unfold generic_format in G.
  apply (NI (Ztrunc (scaled_mantissa radix2 fexp64 x) * 2 ^ (cexp radix2 fexp64 x))).
  rewrite G at 1. unfold F2R. simpl Fnum. simpl Fexp.
  rewrite mult_IZR. f_equal.
  rewrite (IZR_Zpower radix2) by exact Hc. reflexivity.
Qed.

Lemma bpow52 : bpow radix2 52 = IZR (2 ^ 52). Proof. reflexivity. Qed.
Lemma bpow53 : bpow radix2 53 = IZR (2 ^ 53). Proof. reflexivity. Qed.
Lemma bpow63 : bpow radix2 63 = IZR (2 ^ 63). Proof. reflexivity. Qed.

Lemma format_2p63 : generic_format radix2 fexp64 (IZR (2 ^ 63)).
Proof. rewrite <- bpow63. apply generic_format_bpow. vm_compute. discriminate. Qed.
Lemma format_m2p63 : generic_format radix2 fexp64 (IZR (- 2 ^ 63)).
Proof. rewrite opp_IZR. apply generic_format_opp. apply format_2p63. Qed.

Lemma of_int_minint : B2R (of_int minint) = IZR (- 2 ^ 63).
Proof. apply of_int_exact_format. vm_compute. discriminate. apply format_m2p63. Qed.

(* --- int64(f) -------------------------------------------------------------- *)
Lemma Btrunc_Ztrunc (f : f64) : Btrunc f = Ztrunc (B2R f).
Proof.
  apply eq_IZR. rewrite Btrunc_correct.
  unfold round, F2R, scaled_mantissa, cexp, FIX_exp. simpl.
  rewrite Rmult_1_r. rewrite Rmult_1_r. reflexivity. exact Hmax64.
Qed.

(* The four situations of nf := int64(f) for a finite f:
   A. f is an integer of the int64 range, nf is that integer and float64(nf) == f;
   B. float64(nf) != f and
      B1. f is not an integer: it lies strictly between two consecutive integers of
          magnitude <= 2^52, or
      B2. f >= 2^63, or  B3. f < -2^63. *)
Inductive f2i_case (f : f64) : Prop :=
| F2I_exact : in64 (go_f2i f) -> IZR (go_f2i f) = B2R f -> feq (of_int (go_f2i f)) f = true -> f2i_case f
| F2I_frac : forall k, feq (of_int (go_f2i f)) f = false ->
    (IZR k < B2R f < IZR (k + 1))%R -> Z.abs k <= 2 ^ 52 -> Z.abs (k + 1) <= 2 ^ 52 -> f2i_case f
| F2I_big : feq (of_int (go_f2i f)) f = false -> (IZR (2 ^ 63) <= B2R f)%R -> f2i_case f
| F2I_neg : feq (of_int (go_f2i f)) f = false -> (B2R f < IZR (- 2 ^ 63))%R -> f2i_case f.

Lemma feq_finite_iff (x y : f64) : is_finite x = true -> is_finite y = true ->
  (feq x y = true <-> B2R x = B2R y).
Proof.
  intros Fx Fy. unfold feq. rewrite Beqb_correct by assumption.
  destruct (Req_bool_spec (B2R x) (B2R y)); split; auto; discriminate.
Qed.
Lemma feq_finite_false (x y : f64) : is_finite x = true -> is_finite y = true ->
  B2R x <> B2R y -> feq x y = false.
Proof.
  intros Fx Fy N. destruct (feq x y) eqn:E; auto. apply feq_finite_iff in E; auto. contradiction.
Qed.
Lemma flt_finite_iff (x y : f64) : is_finite x = true -> is_finite y = true ->
  (flt x y = true <-> (B2R x < B2R y)%R).
Proof.
  intros Fx Fy. unfold flt. rewrite Bltb_correct by assumption.
  destruct (Rlt_bool_spec (B2R x) (B2R y)); split; auto; try discriminate. lra.
Qed.
Lemma fle_finite_iff (x y : f64) : is_finite x = true -> is_finite y = true ->
  (fle x y = true <-> (B2R x <= B2R y)%R).
Proof.
  intros Fx Fy. unfold fle. rewrite Bleb_correct by assumption.
  destruct (Rle_bool_spec (B2R x) (B2R y)); split; auto; try discriminate. lra.
Qed.

Lemma Ztrunc_bounds (x : R) :
  ((0 <= x)%R -> (IZR (Ztrunc x) <= x < IZR (Ztrunc x + 1))%R) /\
  ((x <= 0)%R -> (IZR (Ztrunc x - 1) < x <= IZR (Ztrunc x))%R).
Proof.
  split; intros H.
  - rewrite Ztrunc_floor by exact H. split. apply Zfloor_lb. rewrite plus_IZR. apply Zfloor_ub.
  - rewrite Ztrunc_ceil by exact H. split.
    + rewrite minus_IZR. pose proof (Zceil_lb x). unfold Zceil in *. rewrite opp_IZR in *.
      pose proof (Zfloor_ub (- x)). lra.
    + apply Zceil_ub.
Qed.

Lemma feq_minint_false (f : f64) : is_finite f = true -> B2R f <> IZR (- 2 ^ 63) ->
  feq (of_int minint) f = false.
Proof.
  intros Ff N. apply feq_finite_false.
  - apply of_int_finite. apply in64_minint.
  - exact Ff.
  - rewrite of_int_minint. intro C. apply N. now rewrite C.
Qed.

Lemma f2i_cases (f : f64) : is_finite f = true -> f2i_case f.
Proof.
  intros Ff. unfold go_f2i in *.
  set (x := B2R f). set (z := Btrunc f).
  assert (Hz : z = Ztrunc x) by apply Btrunc_Ztrunc.
  assert (G : generic_format radix2 fexp64 x) by apply format_B2R.
  destruct (Ztrunc_bounds x) as [Bp Bn].
  destruct (Req_dec (IZR z) x) as [EX|NEX].
  - (* f is an integer *)
    destruct (in64b z) eqn:R.
    + apply F2I_exact; unfold go_f2i; rewrite Ff; fold z; rewrite R.
      * now apply in64b_true.
      * exact EX.
      * apply in64b_true in R. apply feq_finite_iff; [apply of_int_finite; exact R|exact Ff|].
        rewrite of_int_exact_format; [exact EX|now apply in64_abs|rewrite EX; exact G].
    + assert (NR : ~ in64 z) by (intro C; apply in64b_true in C; congruence).
      assert (Fm : feq (of_int minint) f = false -> feq (of_int (go_f2i f)) f = false).
      { unfold go_f2i. rewrite Ff. fold z. rewrite R. auto. }
      unfold in64 in NR.
      destruct (Z_lt_le_dec z (- 2 ^ 63)).
      * apply F2I_neg.
        -- apply Fm. apply feq_minint_false; auto. fold x. rewrite <- EX. intro C. apply eq_IZR in C. lia.
        -- fold x. rewrite <- EX. apply IZR_lt. exact l.
      * apply F2I_big.
        -- apply Fm. apply feq_minint_false; auto. fold x. rewrite <- EX. intro C. apply eq_IZR in C. lia.
        -- fold x. rewrite <- EX. apply IZR_le. lia.
  - (* f is not an integer *)
    assert (NI : forall k : Z, x <> IZR k).
    { intros k E. apply NEX. rewrite Hz. rewrite E. rewrite Ztrunc_IZR. reflexivity. }
    pose proof (format_nonint_small x G NI) as SM. rewrite bpow52 in SM.
    assert (Zb : Z.abs z <= 2 ^ 52 /\ exists k, (IZR k < x < IZR (k + 1))%R /\ Z.abs k <= 2 ^ 52 /\ Z.abs (k + 1) <= 2 ^ 52).
    { destruct (Rle_or_lt 0 x) as [P|N].
      - specialize (Bp P). rewrite <- Hz in Bp. rewrite Rabs_pos_eq in SM by exact P.
        assert (0 <= z). { apply le_IZR. rewrite Hz. rewrite Ztrunc_floor by exact P. apply IZR_le. apply Zfloor_lub. exact P. }
        assert (z < 2 ^ 52). { apply lt_IZR. lra. }
        split. lia. exists z. repeat split; try lia. destruct Bp. lra. apply Bp.
      - assert (N' : (x <= 0)%R) by lra. specialize (Bn N'). rewrite <- Hz in Bn.
        rewrite Rabs_left in SM by exact N.
        assert (z <= 0). { apply le_IZR. rewrite Hz. rewrite Ztrunc_ceil by exact N'. apply IZR_le. apply Zceil_glb. exact N'. }
        assert (- 2 ^ 52 < z). { apply lt_IZR. rewrite opp_IZR. destruct Bn. rewrite minus_IZR in *. lra. }
        split. lia. exists (z - 1). replace (z - 1 + 1) with z by ring. repeat split; try lia.
        apply Bn. destruct Bn. lra. }
    destruct Zb as (Zs & k & Hk & K1 & K2).
    assert (R : in64b z = true). { apply in64b_true. unfold in64. lia. }
    apply F2I_frac with (k := k); auto.
    unfold go_f2i. rewrite Ff. fold z. rewrite R.
    apply feq_finite_false.
    + apply of_int_finite. apply in64b_true; auto.
    + exact Ff.
    + rewrite of_int_exact by lia. exact NEX.
Qed.
