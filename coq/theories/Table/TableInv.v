(* Table/TableInv.v — the invariant of the whole table (array part, hash part with the chain invariant,
   and "the hash part holds no live integer key of the array range"), preserved by every operation
   of runtime.Table, each of which refines the abstract map.  Any hash function respecting Equals. *)
From Coq Require Import ZArith NArith List Bool Arith Lia.
From GV Require Import Table.ModelValue Table.Model Table.Spec Table.ValueProofs Table.Proofs Table.Inv Table.Refine
  Table.RefineIns Table.RefineTable Table.Chains Table.ChainsIns Table.ChainsInv.
Import ListNotations.

Lemma ainrange_eq : forall a z, ainrange a z = ((1 <=? z) && (z <=? Z.of_nat (asize a)))%Z.
Proof.
  intros [ar|] z; cbn [ainrange asize]; auto. destruct (Z.leb_spec 1 z); cbn [andb]; auto. symmetry. apply Z.leb_gt. cbn. lia.
Qed.

Section WithHash.
Variable hash : value -> N.
Hypothesis hash_compat : forall a b, wf a = true -> wf b = true -> equals a b = true -> hash a = hash b.

Definition Cross (t : table) : Prop :=
  forall z, ainrange (apart t) z = true -> gkey (VInt z) -> habs (hpart t) (VInt z) = VNil.

Definition InvG (t : table) : Prop := AInv (apart t) /\ HInvGO hash (hpart t) /\ Cross t.

Lemma InvG_Inv : forall t, InvG t -> Inv hash t.
Proof. intros t (A & H & _). split; auto. apply HInvGO_HInvO; auto. Qed.

Lemma InvG_empty : InvG empty_table.
Proof. split; [exact I|split; [exact I|]]. intros z H. discriminate. Qed.

(* ---------- hash-level value updates keep HInvG ---------- *)
Lemma hreset_G : forall h k v h' b, HInvGO hash h -> gkey k -> hreset hash h k v = Ok (h', b) -> HInvGO hash h'.
Proof.
  intros [t|] k v h' b I G H; cbn [hreset] in H; [|inversion H; subst; exact I].
  cbn in I. unfold bind, resetKeyValue, bind in H.
  destruct (findSlot_spec hash t k (HInvG_HInv hash hash_compat _ I) G) as (r & E & S). rewrite E in H.
  destruct r as [i|].
  - destruct S as (s & N & Q). rewrite (getS_nth _ _ _ N) in H.
    assert (O : isEmpty s = false) by exact (occupied_of_equals (skey s, sval s) k G Q).
    destruct (negb (is_nil (sval s))).
    + rewrite setS_ok in H by (eapply nth_error_lt; eauto). inversion H; subst. cbn. apply HInvG_setval; auto.
    + inversion H; subst. rewrite htable_eta. exact I.
  - inversion H; subst. rewrite htable_eta. exact I.
Qed.

Lemma hremove_G : forall h k h' b, HInvGO hash h -> gkey k -> hremove hash h k = Ok (h', b) -> HInvGO hash h'.
Proof.
  intros [t|] k h' b I G H; cbn [hremove] in H; [|inversion H; subst; exact I].
  cbn in I. unfold bind, removeKeySlots, bind in H.
  destruct (findSlot_spec hash t k (HInvG_HInv hash hash_compat _ I) G) as (r & E & S). rewrite E in H.
  destruct r as [i|].
  - destruct S as (s & N & Q). rewrite (getS_nth _ _ _ N) in H.
    assert (O : isEmpty s = false) by exact (occupied_of_equals (skey s, sval s) k G Q).
    rewrite setS_ok in H by (eapply nth_error_lt; eauto). inversion H; subst. cbn. apply HInvG_setval; auto.
  - inversion H; subst. rewrite htable_eta. exact I.
Qed.

(* hashTable.setExisting: Some h' iff the key has a slot; then it is a plain value update *)
Lemma hsetExisting_G : forall h k v r, HInvGO hash h -> gkey k -> hsetExisting hash h k v = Ok r ->
  match r with
  | Some t' => HInvG hash t' /\ (exists t, h = Some t /\ hbase t' = hbase t) /\
               forall k', gkey k' -> habs (Some t') k' = if equals k k' then v else habs h k'
  | None => forall t, h = Some t -> kabsent (kvs (slots t)) k
  end.
Proof.
  intros [t|] k v r I G H; cbn [hsetExisting] in H; [|inversion H; subst; intros; discriminate].
  cbn in I. unfold bind in H.
  pose proof (HInvG_HInv hash hash_compat _ I) as I0.
  destruct (findSlot_spec hash t k I0 G) as (r0 & E & S). rewrite E in H.
  destruct r0 as [i|].
  - destruct S as (s & N & Q). rewrite (getS_nth _ _ _ N) in H.
    assert (O : isEmpty s = false) by exact (occupied_of_equals (skey s, sval s) k G Q).
    rewrite setS_ok in H by (eapply nth_error_lt; eauto). inversion H; subst. split; [|split].
    + apply HInvG_setval; auto.
    + eauto.
    + intros k' G'. cbn [habs slots]. rewrite (habs_setval hash t i s v k' I0 N O G').
      pose proof (kb_wf _ (hi_base _ _ I0) _ _ (kvs_nth _ _ _ N)) as Ws. cbn in Ws.
      destruct (equals k k') eqn:EK, (equals (skey s) k') eqn:ES; auto.
      * assert (equals (skey s) k' = true) by exact (eq_trans_w (skey s) k k' Ws (proj1 G) (proj1 G') Q EK). congruence.
      * assert (equals k k' = true).
        { apply (eq_trans_w k (skey s) k' (proj1 G) Ws (proj1 G')); auto. rewrite eq_sym_w; auto. apply G. }
        congruence.
  - inversion H; subst. intros t0 E0. inversion E0; subst. exact S.
Qed.

(* ---------- Reset / clear ---------- *)
Lemma aremove_notok : forall a i ws a', aremove a i = (false, ws, a') -> ainrange a i = false /\ a' = a.
Proof.
  intros [ar|] i ws a' H; cbn [aremove] in H; [|inversion H; auto].
  destruct (ainrange (Some ar) i) eqn:R; [|inversion H; auto]. destruct (_ && _); inversion H.
Qed.

Lemma aresetValue_notok : forall a i v ws a', aresetValue a i v = (false, ws, a') -> ainrange a i = false /\ a' = a.
Proof.
  intros [ar|] i v ws a' H; cbn [aresetValue] in H; [|inversion H; auto].
  destruct (ainrange (Some ar) i) eqn:R; [|inversion H; auto]. destruct (negb _); inversion H.
Qed.

Lemma treset_cases : forall t k v t' b, treset hash t k v = Ok (t', b) ->
  hpart t' = hpart t \/
  (apart t' = apart t /\ (forall z, norm k = VInt z -> ainrange (apart t) z = false) /\
   ((v = VNil /\ hremove hash (hpart t) (norm k) = Ok (hpart t', b)) \/
    (is_nil v = false /\ hreset hash (hpart t) (norm k) v = Ok (hpart t', b)))).
Proof.
  intros t k v t' b H. unfold treset in H. unfold norm. destruct (is_nil v) eqn:NV.
  - apply nil_dec in NV. subst v. unfold mremove in H. destruct (toIntNoString k) as [i|] eqn:E.
    + destruct (aremove (apart t) i) as [[ok ws] a] eqn:AR. destruct ok.
      * inversion H; subst. left; reflexivity.
      * apply aremove_notok in AR as (R & ->). unfold bind in H.
        destruct (hremove hash (hpart t) (VInt i)) as [[h bb]| |] eqn:HR; try discriminate. inversion H; subst.
        right. cbn [apart hpart]. split; auto. split; [intros z Ez; inversion Ez; subst; auto|]. left; auto.
    + unfold bind in H. destruct (hremove hash (hpart t) k) as [[h bb]| |] eqn:HR; try discriminate. inversion H; subst.
      right. cbn [apart hpart]. split; auto. split; [intros z Ez; subst; discriminate|]. left; auto.
  - unfold mreset in H. destruct (toIntNoString k) as [i|] eqn:E.
    + destruct (aresetValue (apart t) i v) as [[ok ws] a] eqn:AR. destruct ok.
      * inversion H; subst. left; reflexivity.
      * apply aresetValue_notok in AR as (R & ->). unfold bind in H.
        destruct (hreset hash (hpart t) (VInt i) v) as [[h bb]| |] eqn:HR; try discriminate. inversion H; subst.
        right. cbn [apart hpart]. split; auto. split; [intros z Ez; inversion Ez; subst; auto|]. right; auto.
    + unfold bind in H. destruct (hreset hash (hpart t) k v) as [[h bb]| |] eqn:HR; try discriminate. inversion H; subst.
      right. cbn [apart hpart]. split; auto. split; [intros z Ez; subst; discriminate|]. right; auto.
Qed.

Lemma equals_norm_int_false : forall kk z, gkey kk -> gkey (VInt z) ->
  (forall z0, kk = VInt z0 -> z0 <> z) -> equals kk (VInt z) = false.
Proof.
  intros kk z G Gz H. destruct kk as [| |z0| | | |]; try (apply equals_tag; cbn [tag]; lia).
  rewrite (equals_int_g z0 z G Gz). apply Z.eqb_neq. apply H; auto.
Qed.

Theorem treset_G : forall t k v t' b, InvG t -> gkey (norm k) -> treset hash t k v = Ok (t', b) -> InvG t'.
Proof.
  intros t k v t' b IG G H. pose proof IG as (AI & HI & CR).
  destruct (treset_refines hash t k v t' b (InvG_Inv _ IG) G H) as ((AI' & _) & _ & _).
  pose proof (treset_array_size hash t k v t' b H) as AS.
  assert (RNG : forall z, ainrange (apart t') z = ainrange (apart t) z) by (intros; rewrite !ainrange_eq, AS; reflexivity).
  destruct (treset_cases _ _ _ _ _ H) as [HP|(AP & OUT & [(-> & HR)|(NV & HR)])].
  - split; [exact AI'|]. rewrite HP. split; [exact HI|]. intros z R Gz. rewrite HP. apply CR; auto. rewrite <- RNG; auto.
  - split; [exact AI'|]. split; [eapply hremove_G; eauto|].
    intros z R Gz. rewrite RNG in R.
    destruct (hremove_spec hash _ _ _ _ (HInvGO_HInvO hash hash_compat _ HI) G HR) as (_ & _ & L).
    rewrite (L _ Gz). destruct (equals (norm k) (VInt z)); auto.
  - split; [exact AI'|]. split; [eapply hreset_G; eauto|].
    intros z R Gz. rewrite RNG in R.
    destruct (hreset_spec hash _ _ _ _ _ (HInvGO_HInvO hash hash_compat _ HI) G HR) as (_ & _ & L).
    rewrite (L _ Gz). rewrite (equals_norm_int_false (norm k) z G Gz), andb_false_r; auto.
    intros z0 E0 ->. rewrite (OUT _ E0) in R. discriminate.
Qed.

(* ---------- traversal of the hash part: next(k) depends on the POSITION of k's slot only ---------- *)
(* for a key held by slot i (live or tombstone), hashTable.next continues with the first live slot after i;
   together with reset_keeps_shape / hsetExisting (value updates never move a slot) this is the stability
   argument of traversal: clears and assignments to existing fields leave every position unchanged *)
Theorem hnext_position : forall t k i s, HInvG hash t -> gkey k ->
  nth_error (slots t) i = Some s -> equals (skey s) k = true ->
  hnext hash (Some t) k = Ok (hnextFrom (slots t) (S i)).
Proof.
  intros t k i s I G N E. pose proof (HInvG_HInv hash hash_compat _ I) as I0.
  cbn [hnext]. destruct G as (W & NN & NL & NO). rewrite NL.
  assert (G : gkey k) by (repeat split; auto).
  destruct (findSlot_spec hash t k I0 G) as (r & F & S). unfold bind. rewrite F.
  destruct r as [i'|].
  - destruct S as (s' & N' & E').
    assert (i' = i).
    { apply (kb_nodup _ (hi_base _ _ I0) i' i (skey s', sval s') (skey s, sval s)); auto using kvs_nth.
      - exact (occupied_of_equals (skey s', sval s') k G E').
      - exact (occupied_of_equals (skey s, sval s) k G E).
      - cbn [fst]. pose proof (kb_wf _ (hi_base _ _ I0) _ _ (kvs_nth _ _ _ N)) as Ws.
        pose proof (kb_wf _ (hi_base _ _ I0) _ _ (kvs_nth _ _ _ N')) as Ws'. cbn in Ws, Ws'.
        apply (eq_trans_w (skey s') k (skey s) Ws' W Ws E'). rewrite eq_sym_w; auto. }
    subst. reflexivity.
  - pose proof (S i _ (kvs_nth _ _ _ N)) as Q. cbn [fst] in Q. congruence.
Qed.

(* the slot found for a key never changes under value updates: positions are stable *)
Theorem position_stable : forall sl sl' mask k, map shape sl = map shape sl' ->
  findSlot hash sl mask k = findSlot hash sl' mask k.
Proof. intros. apply findSlot_shape; auto. Qed.

End WithHash.
