(* Table/KeyCongruence.v — key normalisation is a congruence for raw equality: two well-formed values are
   raw-equal (Lua's primitive equality: rawequal, and == without __eq) exactly when their normalised keys are
   Equals, i.e. exactly when they denote the same table entry.  The float/float case needs the injectivity of
   the binary64 decoding on integral values, proved here on bit patterns. *)
From Coq Require Import ZArith NArith List Bool Lia.
From GV Require Import Table.ModelValue Table.Spec Table.ValueProofs.
Import ListNotations.
Local Open Scope Z_scope.

Definition fe (b : N) : Z := Z.of_N (f_exp b).
Definition fm (b : N) : Z := Z.of_N (f_man b).

Lemma fe_range : forall b, 0 <= fe b < 2048.
Proof. intros b. unfold fe. assert (f_exp b < 2048)%N by (unfold f_exp; apply N.mod_upper_bound; lia). lia. Qed.

Lemma fm_range : forall b, 0 <= fm b < 2 ^ 52.
Proof.
  intros b. unfold fm. assert (f_man b < two52)%N by (unfold f_man; apply N.mod_upper_bound; unfold two52; lia).
  change (2 ^ 52) with (Z.of_N two52). lia.
Qed.

(* the bit pattern is determined by sign, exponent and mantissa *)
Lemma bits_decompose : forall b, (b < two64)%N ->
  Z.of_N b = (if f_sign b then 2 ^ 63 else 0) + fe b * 2 ^ 52 + fm b.
Proof.
  intros b H. unfold fe, fm, f_exp, f_man, f_sign. rewrite N.testbit_eqb.
  change (2 ^ 63) with (Z.of_N two63). change (2 ^ 52) with (Z.of_N two52).
  change (2 ^ 63)%N with two63. unfold two64, two63, two52 in *.
  assert (D1 := N.div_mod b 9223372036854775808 ltac:(lia)).
  assert (U1 := N.mod_upper_bound b 9223372036854775808 ltac:(lia)).
  assert (D2 := N.div_mod b 4503599627370496 ltac:(lia)).
  assert (U2 := N.mod_upper_bound b 4503599627370496 ltac:(lia)).
  assert (D3 := N.div_mod (b / 4503599627370496) 2048 ltac:(lia)).
  assert (U3 := N.mod_upper_bound (b / 4503599627370496) 2048 ltac:(lia)).
  assert (D4 := N.div_mod (b / 9223372036854775808) 2 ltac:(lia)).
  assert (U4 := N.mod_upper_bound (b / 9223372036854775808) 2 ltac:(lia)).
  assert (Q : (b / 9223372036854775808 = b / 4503599627370496 / 2048)%N).
  { rewrite N.div_div by lia. reflexivity. }
  assert (QS : (b / 9223372036854775808 < 2)%N) by (apply N.div_lt_upper_bound; lia).
  set (q1 := (b / 9223372036854775808)%N) in *. set (q2 := (b / 4503599627370496)%N) in *.
  set (q3 := (q2 / 2048)%N) in *. set (r3 := (q2 mod 2048)%N) in *. set (r2 := (b mod 4503599627370496)%N) in *.
  set (r1 := (b mod 9223372036854775808)%N) in *. set (q4 := (q1 / 2)%N) in *. set (r4 := (q1 mod 2)%N) in *.
  clearbody q1 q2 q3 r3 r2 r1 q4 r4.
  destruct (N.eqb_spec r4 1); lia.
Qed.

(* what float_to_int b = Some z says when z <> 0: exponent at least 1023 and |z| * 2^52 = sig * 2^(e-1023) *)
Lemma fti_char : forall b z, float_to_int b = Some z -> z <> 0 ->
  1023 <= fe b <= 1086 /\ Z.abs z * 2 ^ 52 = (2 ^ 52 + fm b) * 2 ^ (fe b - 1023) /\ (f_sign b = true <-> z < 0).
Proof.
  intros b z H NZ. unfold float_to_int in H. pose proof (fe_range b) as ER. pose proof (fm_range b) as MR.
  fold (fe b) in H. 
  destruct (N.eqb_spec (f_exp b) 2047); [discriminate|].
  destruct (N.eqb_spec (f_exp b) 0).
  { destruct (N.eqb (f_man b) 0); inversion H; congruence. }
  assert (E1 : 1 <= fe b) by (unfold fe; lia).
  replace (Z.of_N (two52 + f_man b)) with (2 ^ 52 + fm b) in H by (unfold fm, two52; lia).
  change (Z.of_N two63) with (2 ^ 63) in H.
  set (sig := 2 ^ 52 + fm b) in *. assert (SR : 2 ^ 52 <= sig < 2 ^ 53) by (unfold sig; lia).
  destruct (Z.leb_spec 0 (fe b - 1075)) as [SH|SH].
  - destruct (Z.ltb_spec 11 (fe b - 1075)); [discriminate|].
    assert (P : 0 < 2 ^ (fe b - 1075)) by (apply Z.pow_pos_nonneg; lia).
    assert (EQ : 2 ^ (fe b - 1023) = 2 ^ (fe b - 1075) * 2 ^ 52).
    { rewrite <- Z.pow_add_r by lia. f_equal. lia. }
    assert (MP : 0 < sig * 2 ^ (fe b - 1075)) by nia.
    destruct (f_sign b).
    + destruct (Z.leb_spec (sig * 2 ^ (fe b - 1075)) (2 ^ 63)); inversion H; subst z.
      split; [lia|]. split; [|split; intros; [lia|reflexivity]].
      rewrite Z.abs_opp, Z.abs_eq by lia. rewrite EQ. ring.
    + destruct (Z.ltb_spec (sig * 2 ^ (fe b - 1075)) (2 ^ 63)); inversion H; subst z.
      split; [lia|]. split; [|split; intros; [discriminate|lia]].
      rewrite Z.abs_eq by lia. rewrite EQ. ring.
  - set (k := - (fe b - 1075)) in *. assert (K1 : 1 <= k) by (unfold k; lia).
    destruct (Z.ltb_spec 52 k); [discriminate|].
    assert (PK : 0 < 2 ^ k) by (apply Z.pow_pos_nonneg; lia).
    destruct (Z.eqb_spec (sig mod 2 ^ k) 0) as [DV|]; [|discriminate].
    assert (SG : sig = sig / 2 ^ k * 2 ^ k).
    { pose proof (Z.div_mod sig (2 ^ k)). lia. }
    assert (EQ : 2 ^ 52 = 2 ^ k * 2 ^ (fe b - 1023)).
    { rewrite <- Z.pow_add_r by (unfold k; lia). f_equal. unfold k. lia. }
    assert (MG : 0 < sig / 2 ^ k).
    { apply Z.div_str_pos. split; [lia|]. apply Z.le_trans with (2 ^ 52); [|lia]. apply Z.pow_le_mono_r; lia. }
    assert (AB : Z.abs z = sig / 2 ^ k) by (destruct (f_sign b); inversion H; subst z; lia).
    split; [unfold k in *; lia|]. split.
    + rewrite AB. rewrite EQ. rewrite SG at 2. ring.
    + destruct (f_sign b); inversion H; subst z; split; intros; try lia; try discriminate; reflexivity.
Qed.

Lemma fti_zero : forall b, (b < two64)%N -> float_to_int b = Some 0 -> f_iszero b = true /\ f_isnan b = false.
Proof.
  intros b W H. destruct (Z.eq_dec 0 0) as [_|]; [|lia].
  assert (E0 : f_exp b = 0%N /\ f_man b = 0%N).
  { unfold float_to_int in H.
    destruct (N.eqb_spec (f_exp b) 2047); [discriminate|].
    destruct (N.eqb_spec (f_exp b) 0).
    - destruct (N.eqb_spec (f_man b) 0); auto. discriminate.
    - exfalso.
      (* a normal number is never zero *)
      assert (NZ : forall z, float_to_int b = Some z -> z <> 0 \/ True) by auto.
      pose proof (fe_range b) as ER. pose proof (fm_range b) as MR. fold (fe b) in H.
      replace (Z.of_N (two52 + f_man b)) with (2 ^ 52 + fm b) in H by (unfold fm, two52; lia).
      change (Z.of_N two63) with (2 ^ 63) in H.
      destruct (Z.leb_spec 0 (fe b - 1075)).
      + destruct (Z.ltb_spec 11 (fe b - 1075)); [discriminate|].
        assert (0 < 2 ^ (fe b - 1075)) by (apply Z.pow_pos_nonneg; lia).
        assert (HP : 0 < (2 ^ 52 + fm b) * 2 ^ (fe b - 1075)) by nia.
        set (P := (2 ^ 52 + fm b) * 2 ^ (fe b - 1075)) in *. clearbody P.
        destruct (f_sign b); [destruct (P <=? 2 ^ 63)|destruct (P <? 2 ^ 63)]; try discriminate;
          injection H as H; lia.
      + destruct (Z.ltb_spec 52 (- (fe b - 1075))); [discriminate|].
        destruct (Z.eqb_spec ((2 ^ 52 + fm b) mod 2 ^ (- (fe b - 1075))) 0); [|discriminate].
        assert (HP : 0 < (2 ^ 52 + fm b) / 2 ^ (- (fe b - 1075))).
        { apply Z.div_str_pos. split; [apply Z.pow_pos_nonneg; lia|].
          apply Z.le_trans with (2 ^ 52); [apply Z.pow_le_mono_r; lia|lia]. }
        set (P := (2 ^ 52 + fm b) / 2 ^ (- (fe b - 1075))) in *. clearbody P.
        destruct (f_sign b); injection H as H; lia. }
  destruct E0 as (EE & EM).
  pose proof (bits_decompose b W) as D. unfold fe, fm in D. rewrite EE, EM in D. cbn in D.
  split.
  - unfold f_iszero. apply N.eqb_eq. unfold two63.
    destruct (f_sign b).
    + assert (b = 9223372036854775808%N) by lia. subst. reflexivity.
    + assert (b = 0%N) by lia. subst. reflexivity.
  - unfold f_isnan. rewrite EE. reflexivity.
Qed.

Lemma fti_not_nan : forall b z, float_to_int b = Some z -> f_isnan b = false.
Proof.
  intros b z H. unfold f_isnan. unfold float_to_int in H. destruct (N.eqb (f_exp b) 2047); [discriminate|reflexivity].
Qed.

(* injectivity of the decoding on integral values, up to the sign of zero *)
Theorem fti_inj : forall a b z, (a < two64)%N -> (b < two64)%N ->
  float_to_int a = Some z -> float_to_int b = Some z -> feq a b = true.
Proof.
  intros a b z Wa Wb Ha Hb. unfold feq. rewrite (fti_not_nan _ _ Ha), (fti_not_nan _ _ Hb). cbn [negb andb].
  destruct (Z.eq_dec z 0) as [->|NZ].
  - destruct (fti_zero a Wa Ha) as (Za & _). destruct (fti_zero b Wb Hb) as (Zb & _). rewrite Za, Zb. apply orb_true_r.
  - destruct (fti_char a z Ha NZ) as (Ea & Aa & Sa). destruct (fti_char b z Hb NZ) as (Eb & Ab & Sb).
    pose proof (fm_range a) as Ma. pose proof (fm_range b) as Mb.
    assert (EE : fe a = fe b /\ fm a = fm b).
    { rewrite Aa in Ab.
      destruct (Z.lt_trichotomy (fe a) (fe b)) as [LT|[EQ|GT]].
      - exfalso. replace (fe b - 1023) with ((fe a - 1023) + (fe b - fe a)) in Ab by lia.
        rewrite Z.pow_add_r in Ab by lia.
        assert (P : 0 < 2 ^ (fe a - 1023)) by (apply Z.pow_pos_nonneg; lia).
        assert (2 <= 2 ^ (fe b - fe a)).
        { change 2 with (2 ^ 1) at 1. apply Z.pow_le_mono_r; lia. }
        assert ((2 ^ 52 + fm a) = (2 ^ 52 + fm b) * 2 ^ (fe b - fe a)) by nia. nia.
      - split; auto. rewrite EQ in Ab.
        assert (P : 0 < 2 ^ (fe b - 1023)) by (apply Z.pow_pos_nonneg; lia). nia.
      - exfalso. replace (fe a - 1023) with ((fe b - 1023) + (fe a - fe b)) in Ab by lia.
        rewrite Z.pow_add_r in Ab by lia.
        assert (P : 0 < 2 ^ (fe b - 1023)) by (apply Z.pow_pos_nonneg; lia).
        assert (2 <= 2 ^ (fe a - fe b)).
        { change 2 with (2 ^ 1) at 1. apply Z.pow_le_mono_r; lia. }
        assert ((2 ^ 52 + fm a) * 2 ^ (fe a - fe b) = (2 ^ 52 + fm b)) by nia. nia. }
    destruct EE as (E1 & E2).
    assert (SS : f_sign a = f_sign b).
    { destruct (f_sign a), (f_sign b); auto; exfalso.
      - assert (z < 0) by (apply Sa; auto). assert (true = true -> False); [|auto]. intros _. 
        destruct Sb as (_ & Sb'). specialize (Sb' H). discriminate.
      - assert (z < 0) by (apply Sb; auto). destruct Sa as (_ & Sa'). specialize (Sa' H). discriminate. }
    pose proof (bits_decompose a Wa) as Da. pose proof (bits_decompose b Wb) as Db.
    rewrite SS, E1, E2 in Da. assert (a = b) by lia. subst. rewrite N.eqb_refl. reflexivity.
Qed.

(* the other direction: ==-equal floats have the same integer value, if any *)
Lemma feq_fti : forall a b, (a < two64)%N -> (b < two64)%N -> feq a b = true -> float_to_int a = float_to_int b.
Proof.
  intros a b Wa Wb H. unfold feq in H. apply andb_true_iff in H as (H & H2). apply andb_true_iff in H as (Na & Nb).
  apply orb_true_iff in H2 as [E|Z].
  - apply N.eqb_eq in E. subst. reflexivity.
  - apply andb_true_iff in Z as (Za & Zb). unfold f_iszero in *. apply N.eqb_eq in Za, Zb.
    assert (forall x, (x < two64)%N -> (x mod two63 = 0)%N -> float_to_int x = Some 0).
    { intros x Wx Zx. unfold two64, two63 in *.
      assert (x = 0 \/ x = 9223372036854775808)%N as [->| ->]; [|reflexivity|reflexivity].
      pose proof (N.div_mod x 9223372036854775808). 
      assert (x / 9223372036854775808 < 2)%N by (apply N.div_lt_upper_bound; lia). lia. }
    rewrite (H a), (H b); auto.
Qed.

Lemma fti_range : forall b z, float_to_int b = Some z -> - 2 ^ 63 <= z < 2 ^ 63.
Proof.
  intros b z H. destruct (Z.eq_dec z 0) as [->|NZ]; [lia|].
  destruct (fti_char b z H NZ) as (E & A & S). pose proof (fm_range b) as M.
  (* |z| * 2^52 = sig * 2^(e-1023) with e <= 1086: |z| < 2^53 * 2^63 / 2^52; exact bound from the definition *)
  unfold float_to_int in H. fold (fe b) in H.
  destruct (N.eqb (f_exp b) 2047); [discriminate|]. destruct (N.eqb (f_exp b) 0); [destruct (N.eqb (f_man b) 0); inversion H; lia|].
  replace (Z.of_N (two52 + f_man b)) with (2 ^ 52 + fm b) in H by (unfold fm, two52; lia).
  change (Z.of_N two63) with (2 ^ 63) in H.
  destruct (Z.leb_spec 0 (fe b - 1075)).
  - destruct (Z.ltb_spec 11 (fe b - 1075)); [discriminate|].
    assert (0 < 2 ^ (fe b - 1075)) by (apply Z.pow_pos_nonneg; lia).
    assert (HP : 0 < (2 ^ 52 + fm b) * 2 ^ (fe b - 1075)) by nia.
    set (P := (2 ^ 52 + fm b) * 2 ^ (fe b - 1075)) in *. clearbody P.
    destruct (f_sign b); [destruct (Z.leb_spec P (2 ^ 63))|destruct (Z.ltb_spec P (2 ^ 63))]; try discriminate;
      injection H as H; lia.
  - destruct (Z.ltb_spec 52 (- (fe b - 1075))); [discriminate|].
    destruct (Z.eqb ((2 ^ 52 + fm b) mod 2 ^ (- (fe b - 1075))) 0); [|discriminate].
    assert (0 < 2 ^ (- (fe b - 1075))) by (apply Z.pow_pos_nonneg; lia).
    assert (HP : 0 <= (2 ^ 52 + fm b) / 2 ^ (- (fe b - 1075)) <= 2 ^ 52 + fm b).
    { split; [apply Z.div_pos; lia|]. apply Z.div_le_upper_bound; [lia|]. nia. }
    set (P := (2 ^ 52 + fm b) / 2 ^ (- (fe b - 1075))) in *. clearbody P.
    destruct (f_sign b); injection H as H; lia.
Qed.

(* ---------- key normalisation, all cases ---------- *)
Theorem key_normalisation : forall v w, wf v = true -> wf w = true -> raw_eq (norm v) (norm w) = lua_eq v w.
Proof.
  intros v w Wv Ww.
  destruct v as [| | |a| | |]; try (apply key_normalisation_partial; intros; discriminate).
  destruct w as [| | |b| | |]; try (apply key_normalisation_partial; intros; discriminate).
  cbn [wf] in Wv, Ww. apply N.ltb_lt in Wv, Ww.
  unfold norm. cbn [toIntNoString lua_eq].
  destruct (float_to_int a) as [z|] eqn:Fa, (float_to_int b) as [z'|] eqn:Fb; cbn [raw_eq].
  - destruct (Z.eqb_spec z z') as [->|NE].
    + symmetry. eapply fti_inj; eauto.
    + destruct (feq a b) eqn:E; auto. pose proof (feq_fti a b Wv Ww E). congruence.
  - destruct (feq a b) eqn:E; auto. pose proof (feq_fti a b Wv Ww E). congruence.
  - destruct (feq a b) eqn:E; auto. pose proof (feq_fti a b Wv Ww E). congruence.
  - reflexivity.
Qed.

Lemma wf_norm : forall v, wf v = true -> wf (norm v) = true.
Proof.
  intros v W. unfold norm. destruct (toIntNoString v) as [z|] eqn:E; auto.
  destruct v; cbn [toIntNoString] in E; try discriminate.
  - inversion E; subst. exact W.
  - apply fti_range in E. cbn [wf]. change (Z.of_N two63) with (2 ^ 63). apply andb_true_iff. split; [apply Z.leb_le|apply Z.ltb_lt]; lia.
Qed.

(* key normalisation is a congruence for raw equality: two values denote the same table key
   (their normalised keys are Equals) exactly when they are raw-equal *)
Theorem same_key_iff_raw_equal : forall a b, wf a = true -> wf b = true ->
  equals (norm a) (norm b) = lua_eq a b.
Proof.
  intros a b Wa Wb. rewrite equals_agrees by (apply wf_norm; auto). apply key_normalisation; auto.
Qed.

(* RawEqual (what rawequal and == without __eq compute at run time) is the manual's equality *)
Theorem raw_equal_go_agrees : forall a b, wf a = true -> wf b = true -> raw_equal_go a b = lua_eq a b.
Proof.
  intros a b Wa Wb. unfold raw_equal_go. rewrite equals_agrees by auto.
  destruct a, b; cbn [raw_eq lua_eq]; try reflexivity;
    try (match goal with |- (if ?c then true else false) = ?c => destruct c; reflexivity end).
  all: try (destruct (float_to_int _); reflexivity).
Qed.

Corollary rawequal_iff_same_key : forall a b, wf a = true -> wf b = true ->
  raw_equal_go a b = equals (norm a) (norm b).
Proof. intros. rewrite raw_equal_go_agrees, same_key_iff_raw_equal; auto. Qed.
