(* Table/ModelValue.v — the part of runtime/value.go and runtime/numconv.go that
   decides table-key identity: the (scalar, iface) encoding of Value,
   Value.Equals (value.go:88), ToIntNoString / FloatToInt (numconv.go:85,116).

   No proofs in this file (executable definitions only). *)
From Coq Require Import ZArith NArith List Bool.
Import ListNotations.

(* A Lua value as the table code sees it.
   VInt z   : IntValue(z), z an int64 (range is a well-formedness condition, see [wf])
   VFlt b   : FloatValue with IEEE-754 binary64 bit pattern b (< 2^64)
   VStr s   : StringValue, bytes as N < 256
   VRef k p : a value compared by pointer identity: iface dynamic type k
              (0 = *Table, 1 = *GoFunction, 2 = *UserData, 3 = *Thread), address p
   VClo p c : *Closure at address p; c identifies (Code, upvalue cells), which is all
              that Closure.Equals (closure.go:28) looks at *)
Inductive value :=
| VNil
| VBool (b : bool)
| VInt (z : Z)
| VFlt (bits : N)
| VStr (s : list N)
| VRef (kind : N) (ptr : N)
| VClo (ptr : N) (cls : N).

Definition is_nil (v : value) : bool := match v with VNil => true | _ => false end.

(* ---- binary64 on bit patterns (no rounding is ever needed for keys) ---- *)
Definition two52 : N := 4503599627370496.
Definition two63 : N := 9223372036854775808.
Definition two64 : N := 18446744073709551616.
Definition f_sign (b : N) : bool := N.testbit b 63.
Definition f_exp (b : N) : N := N.modulo (N.div b two52) 2048.
Definition f_man (b : N) : N := N.modulo b two52.
Definition f_isnan (b : N) : bool := N.eqb (f_exp b) 2047 && negb (N.eqb (f_man b) 0).
Definition f_iszero (b : N) : bool := N.eqb (N.modulo b two63) 0.
(* Go's == on float64 *)
Definition feq (a b : N) : bool :=
  negb (f_isnan a) && negb (f_isnan b) && (N.eqb a b || (f_iszero a && f_iszero b)).

(* FloatToInt (numconv.go:116): n := int64(f); float64(n) == f.  On amd64 an
   out-of-range or NaN conversion yields -2^63, whose float is in range, so the
   test succeeds exactly when f is integral-valued and -2^63 <= f < 2^63.  The
   function below computes that directly from the bits:
   value = (-1)^s * (2^52 + m) * 2^(e - 1075) for a normal number. *)
Definition float_to_int (b : N) : option Z :=
  let e := f_exp b in
  let m := f_man b in
  if N.eqb e 2047 then None
  else if N.eqb e 0 then (if N.eqb m 0 then Some 0%Z else None)
  else
    let sig := Z.of_N (two52 + m) in
    let sh := (Z.of_N e - 1075)%Z in
    if (0 <=? sh)%Z then
      if (11 <? sh)%Z then None
      else
        let mag := (sig * 2 ^ sh)%Z in
        if f_sign b then (if (mag <=? Z.of_N two63)%Z then Some (- mag)%Z else None)
        else (if (mag <? Z.of_N two63)%Z then Some mag else None)
    else
      let k := (- sh)%Z in
      if (52 <? k)%Z then None
      else if (sig mod 2 ^ k =? 0)%Z then
        let mag := (sig / 2 ^ k)%Z in Some (if f_sign b then (- mag)%Z else mag)
      else None.

(* ToIntNoString (numconv.go:85) *)
Definition toIntNoString (v : value) : option Z :=
  match v with
  | VInt z => Some z
  | VFlt b => float_to_int b
  | _ => None
  end.

(* the key actually stored / looked up by mixedTable: k = IntValue(i) when ToIntNoString succeeds *)
Definition norm (v : value) : value :=
  match toIntNoString v with Some z => VInt z | None => v end.

Definition is_nan (v : value) : bool := match v with VFlt b => f_isnan b | _ => false end.

(* ---- the (scalar, iface) encoding ---- *)
(* iface dynamic type word *)
Definition tag (v : value) : N :=
  match v with
  | VNil => 0 | VInt _ => 1 | VFlt _ => 2 | VBool _ => 3 | VStr _ => 4 | VClo _ _ => 5
  | VRef k _ => 6 + k
  end%N.

(* little-endian packing of at most 7 bytes, length in the top byte (value.go:152) *)
Fixpoint pack_bytes (s : list N) : N :=
  match s with [] => 0 | b :: r => b + 256 * pack_bytes r end%N.
Definition two56 : N := 72057594037927936.
Definition scalar (v : value) : N :=
  match v with
  | VInt z => Z.to_N (z mod Z.of_N two64)
  | VFlt b => b
  | VBool b => if b then 1 else 0
  | VStr s => if Nat.leb (length s) 7 then pack_bytes s + two56 * N.of_nat (length s) else 0
  | _ => 0
  end%N.

Fixpoint list_eqb (a b : list N) : bool :=
  match a, b with
  | [], [] => true
  | x :: a', y :: b' => N.eqb x y && list_eqb a' b'
  | _, _ => false
  end.

(* Go's v.iface == v2.iface for two interfaces of the same dynamic type *)
Definition iface_eq (v w : value) : bool :=
  match v, w with
  | VNil, VNil => true
  | VBool _, VBool _ => true       (* every BoolValue carries the same dummyBool iface *)
  | VInt _, VInt _ => true
  | VFlt _, VFlt _ => true
  | VStr a, VStr b => list_eqb a b
  | VRef k p, VRef k' p' => N.eqb k k' && N.eqb p p'
  | VClo p _, VClo p' _ => N.eqb p p'
  | _, _ => false
  end.

(* Value.Equals, value.go:88-114, statement by statement *)
Definition equals (v w : value) : bool :=
  if negb (N.eqb (tag v) (tag w)) then false
  else match v, w with
  | VFlt a, VFlt b => feq a b
  | _, _ =>
    if negb (N.eqb (scalar v) (scalar w)) then false
    else match v with
    | VInt _ | VFlt _ => true
    | VStr _ => if negb (N.eqb (scalar v) 0) then true else iface_eq v w
    | VClo _ c => match w with VClo _ c' => N.eqb c c' | _ => false end
    | _ => iface_eq v w
    end
  end.

(* RawEqual (comp.go:7) with equalIntAndFloat (comp.go:86: nf := int64(f); float64(nf) == f && nf == n,
   i.e. f is integral, in the int64 range, and equal to n): the run-time meaning of rawequal and of ==
   when no __eq metamethod is involved *)
Definition raw_equal_go (x y : value) : bool :=
  if equals x y then true
  else match x, y with
       | VInt n, VFlt f => match float_to_int f with Some z => Z.eqb z n | None => false end
       | VFlt f, VInt n => match float_to_int f with Some z => Z.eqb z n | None => false end
       | _, _ => false
       end.

(* structural identity of model values (used to look keys up in the reported hash table) *)
Definition veqb (v w : value) : bool :=
  match v, w with
  | VNil, VNil => true
  | VBool a, VBool b => Bool.eqb a b
  | VInt a, VInt b => Z.eqb a b
  | VFlt a, VFlt b => N.eqb a b
  | VStr a, VStr b => list_eqb a b
  | VRef k p, VRef k' p' => N.eqb k k' && N.eqb p p'
  | VClo p c, VClo p' c' => N.eqb p p' && N.eqb c c'
  | _, _ => false
  end.

(* well-formed = what the constructor functions of value.go can build *)
Definition wf (v : value) : bool :=
  match v with
  | VInt z => ((- Z.of_N two63 <=? z) && (z <? Z.of_N two63))%Z
  | VFlt b => N.ltb b two64
  | VStr s => forallb (fun x => N.ltb x 256) s
  | _ => true
  end.
