(* Table/ValueProofs.v — facts about key identity (Value.Equals, ToIntNoString). *)
From Coq Require Import ZArith NArith List Bool Lia.
From GV Require Import Table.ModelValue Table.Spec.
Import ListNotations.

Lemma norm_idempotent : forall v, norm (norm v) = norm v.
Proof.
  intros v. unfold norm. destruct (toIntNoString v) eqn:E; cbn [toIntNoString]; [reflexivity|].
  rewrite E. reflexivity.
Qed.

Lemma norm_int : forall z, norm (VInt z) = VInt z.
Proof. reflexivity. Qed.

(* the key stored by the table is never an integral float *)
Lemma norm_not_integral_float : forall v b, norm v = VFlt b -> float_to_int b = None.
Proof.
  intros v b. unfold norm. destruct (toIntNoString v) eqn:E; [discriminate|].
  intros ->. exact E.
Qed.

(* ---- structural ("constructor-level") equality: what Equals is meant to compute ---- *)
Definition raw_eq (v w : value) : bool :=
  match v, w with
  | VNil, VNil => true
  | VBool a, VBool b => Bool.eqb a b
  | VInt a, VInt b => Z.eqb a b
  | VFlt a, VFlt b => feq a b
  | VStr a, VStr b => list_eqb a b
  | VRef k p, VRef k' p' => N.eqb k k' && N.eqb p p'
  | VClo _ c, VClo _ c' => N.eqb c c'
  | _, _ => false
  end.

Lemma list_eqb_eq : forall a b, list_eqb a b = true <-> a = b.
Proof.
  induction a as [|x a IH]; destruct b as [|y b]; cbn; split; try congruence; try discriminate.
  - intros H. apply andb_true_iff in H as [H1 H2]. apply N.eqb_eq in H1. apply IH in H2. congruence.
  - intros H. inversion H; subst. rewrite N.eqb_refl. cbn. apply IH. reflexivity.
Qed.

Lemma pack_bytes_bound : forall s, forallb (fun x => N.ltb x 256) s = true ->
  (pack_bytes s < 256 ^ N.of_nat (length s))%N.
Proof.
  induction s as [|b r IH]; intros H.
  - cbn. lia.
  - cbn [forallb] in H. apply andb_true_iff in H as [Hb Hr]. apply N.ltb_lt in Hb.
    specialize (IH Hr). cbn [pack_bytes length].
    rewrite Nat2N.inj_succ, N.pow_succ_r'. lia.
Qed.

Lemma pack_bytes_inj : forall s s', length s = length s' ->
  forallb (fun x => N.ltb x 256) s = true -> forallb (fun x => N.ltb x 256) s' = true ->
  pack_bytes s = pack_bytes s' -> s = s'.
Proof.
  induction s as [|b r IH]; destruct s' as [|b' r']; cbn [length]; intros HL H H' E; try discriminate; [reflexivity|].
  cbn [forallb] in H, H'. apply andb_true_iff in H as [Hb Hr]. apply andb_true_iff in H' as [Hb' Hr'].
  apply N.ltb_lt in Hb. apply N.ltb_lt in Hb'. cbn [pack_bytes] in E.
  assert (b = b' /\ pack_bytes r = pack_bytes r') as [-> E'] by lia.
  f_equal. apply IH; auto.
Qed.

Lemma pow256_7 : forall n, n <= 7 -> (256 ^ N.of_nat n <= two56)%N.
Proof.
  intros n H. change two56 with (256 ^ 7)%N. apply N.pow_le_mono_r; lia.
Qed.

Lemma str_scalar_inj : forall s s',
  forallb (fun x => N.ltb x 256) s = true -> forallb (fun x => N.ltb x 256) s' = true ->
  length s <= 7 -> length s' <= 7 ->
  (pack_bytes s + two56 * N.of_nat (length s) = pack_bytes s' + two56 * N.of_nat (length s'))%N -> s = s'.
Proof.
  intros s s' W W' L L' E.
  pose proof (pack_bytes_bound s W) as B. pose proof (pack_bytes_bound s' W') as B'.
  pose proof (pow256_7 _ L) as P. pose proof (pow256_7 _ L') as P'.
  assert (N.of_nat (length s) = N.of_nat (length s') /\ pack_bytes s = pack_bytes s') as [EL EP].
  { unfold two56 in *. nia. }
  apply pack_bytes_inj; auto. lia.
Qed.

Lemma int_scalar_inj : forall a b,
  wf (VInt a) = true -> wf (VInt b) = true ->
  Z.to_N (a mod Z.of_N two64) = Z.to_N (b mod Z.of_N two64) -> a = b.
Proof.
  intros a b Wa Wb E. cbn [wf] in Wa, Wb.
  apply andb_true_iff in Wa as [A1 A2]. apply andb_true_iff in Wb as [B1 B2].
  apply Z.leb_le in A1, B1. apply Z.ltb_lt in A2, B2.
  change (Z.of_N two63) with 9223372036854775808%Z in *.
  change (Z.of_N two64) with 18446744073709551616%Z in *.
  revert E. generalize (Z.mod_pos_bound a 18446744073709551616 eq_refl).
  generalize (Z.mod_pos_bound b 18446744073709551616 eq_refl).
  rewrite (Z.mod_eq a), (Z.mod_eq b) by lia.
  assert (Da : (a / 18446744073709551616 = 0 \/ a / 18446744073709551616 = -1)%Z).
  { destruct (Z_lt_le_dec a 0).
    - right. symmetry. apply Z.div_unique with (r := (a + 18446744073709551616)%Z); lia.
    - left. apply Z.div_small. lia. }
  assert (Db : (b / 18446744073709551616 = 0 \/ b / 18446744073709551616 = -1)%Z).
  { destruct (Z_lt_le_dec b 0).
    - right. symmetry. apply Z.div_unique with (r := (b + 18446744073709551616)%Z); lia.
    - left. apply Z.div_small. lia. }
  intros. lia.
Qed.

Lemma equals_int : forall a b, wf (VInt a) = true -> wf (VInt b) = true -> equals (VInt a) (VInt b) = Z.eqb a b.
Proof.
  intros a b Wv Ww. unfold equals. cbn [tag negb N.eqb]. cbn -[Z.modulo Z.to_N two64].
  destruct (Z.eqb_spec a b) as [->|NE].
  - rewrite N.eqb_refl. reflexivity.
  - destruct (N.eqb_spec (Z.to_N (a mod Z.of_N two64)) (Z.to_N (b mod Z.of_N two64))) as [E|_]; [|reflexivity].
    exfalso. apply NE. apply int_scalar_inj; auto.
Qed.

Lemma equals_str : forall a b, wf (VStr a) = true -> wf (VStr b) = true -> equals (VStr a) (VStr b) = list_eqb a b.
Proof.
  intros a b Wv Ww. unfold equals. cbn [tag negb N.eqb]. cbn -[pack_bytes two56 N.mul N.add Nat.leb list_eqb].
  cbn [wf] in Wv, Ww.
  destruct (list_eqb a b) eqn:EL.
  - apply list_eqb_eq in EL. subst b. rewrite N.eqb_refl. cbn [negb].
    destruct (negb _); first [reflexivity | cbn [iface_eq]; first [reflexivity | apply list_eqb_eq; reflexivity]].
  - destruct (N.eqb_spec (if Nat.leb (length a) 7 then (pack_bytes a + two56 * N.of_nat (length a))%N else 0%N)
                         (if Nat.leb (length b) 7 then (pack_bytes b + two56 * N.of_nat (length b))%N else 0%N)) as [E|_];
      [|reflexivity].
    cbn [negb].
    destruct (Nat.leb (length a) 7) eqn:La, (Nat.leb (length b) 7) eqn:Lb.
    + apply Nat.leb_le in La, Lb. apply str_scalar_inj in E; auto. subst b.
      assert (list_eqb a a = true) by (apply list_eqb_eq; reflexivity). congruence.
    + rewrite E. cbn. first [exact EL | reflexivity].
    + cbn. first [exact EL | reflexivity].
    + cbn. first [exact EL | reflexivity].
Qed.

Lemma equals_ref : forall k p k' p', equals (VRef k p) (VRef k' p') = N.eqb k k' && N.eqb p p'.
Proof.
  intros. unfold equals. cbn [tag]. cbn [scalar N.eqb negb iface_eq].
  destruct (N.eqb_spec (6 + k) (6 + k')) as [E|NE]; cbn [negb].
  - assert (k = k') by lia. subst. reflexivity.
  - destruct (N.eqb_spec k k'); [subst; lia|]. reflexivity.
Qed.

Lemma equals_tag : forall v w, tag v <> tag w -> equals v w = false.
Proof. intros v w H. unfold equals. destruct (N.eqb_spec (tag v) (tag w)); [contradiction|reflexivity]. Qed.

(* Value.Equals computes structural equality on every pair of constructor-built values
   (short / long / empty strings, ints, floats incl. NaN and +-0, booleans, pointers, closures). *)
Theorem equals_agrees : forall v w, wf v = true -> wf w = true -> equals v w = raw_eq v w.
Proof.
  intros v w Wv Ww.
  destruct v, w; cbn [raw_eq];
    try (apply equals_tag; cbn [tag]; lia);
    try (apply equals_int; assumption); try (apply equals_str; assumption); try apply equals_ref;
    try reflexivity.
  destruct b, b0; reflexivity.
Qed.

(* raw equality is an equivalence on non-NaN values *)
Lemma raw_eq_refl : forall v, is_nan v = false -> raw_eq v v = true.
Proof.
  destruct v; cbn; intros H; auto using Bool.eqb_reflx, Z.eqb_refl, N.eqb_refl.
  - unfold feq. rewrite H, N.eqb_refl. reflexivity.
  - apply list_eqb_eq. reflexivity.
  - rewrite !N.eqb_refl. reflexivity.
Qed.

Lemma feq_sym : forall a b, feq a b = feq b a.
Proof. intros. unfold feq. rewrite (N.eqb_sym a b). destruct (f_isnan a), (f_isnan b), (N.eqb b a), (f_iszero a), (f_iszero b); reflexivity. Qed.

Lemma feq_trans : forall a b c, feq a b = true -> feq b c = true -> feq a c = true.
Proof.
  unfold feq. intros a b c H1 H2.
  destruct (f_isnan a), (f_isnan b), (f_isnan c); cbn in *; try discriminate.
  apply orb_true_iff in H1. apply orb_true_iff in H2. apply orb_true_iff.
  destruct H1 as [H1|H1], H2 as [H2|H2].
  - apply N.eqb_eq in H1, H2. left. apply N.eqb_eq. congruence.
  - apply N.eqb_eq in H1. subst. right. exact H2.
  - apply N.eqb_eq in H2. subst. right. exact H1.
  - right. apply andb_true_iff in H1 as [? ?]. apply andb_true_iff in H2 as [? ?]. apply andb_true_iff. auto.
Qed.

Lemma raw_eq_sym : forall v w, raw_eq v w = raw_eq w v.
Proof.
  destruct v as [|x|x|x|x|k p|p c], w as [|y|y|y|y|k' p'|p' c']; cbn; auto using feq_sym.
  - destruct x, y; reflexivity.
  - apply Z.eqb_sym.
  - destruct (list_eqb x y) eqn:E, (list_eqb y x) eqn:E'; auto.
    + apply list_eqb_eq in E. subst. assert (list_eqb y y = true) by (apply list_eqb_eq; auto). congruence.
    + apply list_eqb_eq in E'. subst. assert (list_eqb x x = true) by (apply list_eqb_eq; auto). congruence.
  - rewrite (N.eqb_sym k k'), (N.eqb_sym p p'). reflexivity.
  - apply N.eqb_sym.
Qed.

Lemma raw_eq_trans : forall a b c, raw_eq a b = true -> raw_eq b c = true -> raw_eq a c = true.
Proof.
  destruct a as [|x|x|x|x|k p|p cl], b as [|y|y|y|y|k' p'|p' cl'], c as [|z|z|z|z|k'' p''|p'' cl'']; cbn; try discriminate; auto.
  - destruct x, y, z; auto.
  - intros H1 H2. apply Z.eqb_eq in H1, H2. apply Z.eqb_eq. congruence.
  - apply feq_trans.
  - intros H1 H2. apply list_eqb_eq in H1, H2. apply list_eqb_eq. congruence.
  - intros H1 H2. apply andb_true_iff in H1 as [A B]. apply andb_true_iff in H2 as [C D].
    apply N.eqb_eq in A, B, C, D. subst. rewrite !N.eqb_refl. reflexivity.
  - intros H1 H2. apply N.eqb_eq in H1, H2. apply N.eqb_eq. congruence.
Qed.

(* Lua equality of two values is raw equality of the normalised keys whenever at most one of
   them is a float (the float/float case needs injectivity of the binary64 decoding and is
   not closed here — see notes/C03.md) *)
Theorem key_normalisation_partial : forall v w,
  (forall a b, v = VFlt a -> w = VFlt b -> False) ->
  raw_eq (norm v) (norm w) = lua_eq v w.
Proof.
  intros v w NF.
  destruct v as [|a|a|a|a|k p|p c], w as [|b|b|b|b|k' p'|p' c']; try reflexivity;
    try (unfold norm; cbn [toIntNoString]; destruct (float_to_int _); reflexivity).
  - unfold norm, lua_eq. cbn [toIntNoString]. destruct (float_to_int b) eqn:E; cbn; [apply Z.eqb_sym|reflexivity].
  - unfold norm, lua_eq. cbn [toIntNoString]. destruct (float_to_int a) eqn:E; cbn; reflexivity.
  - exfalso. eapply NF; reflexivity.
Qed.
