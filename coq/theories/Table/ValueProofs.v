(* Table/ValueProofs.v — facts about key identity (Value.Equals, ToIntNoString). *)
From Coq Require Import ZArith NArith List Bool Lia.
From GV Require Import Table.ModelValue Table.Spec.
Import ListNotations.

Lemma norm_idempotent : forall v, norm (norm v) = norm v.
Proof.
  intros v. unfold norm. destruct (toIntNoString v) eqn:E; cbn [toIntNoString]; [reflexivity|].
  rewrite E. reflexivity.
Qed.

Lemma norm_int : forall z, norm (VInt z) = VInt z.
Proof. reflexivity. Qed.
