(* Table/Model.v — implementation model (IM) of golua's table:
   runtime/hashtable.go (mixedTable, hashTable, array — every function) and
   runtime/table.go (Table.Get/Set/Reset/Len/Next), statement by statement.
   Go's run-time panics (index out of range, nil dereference) are the explicit
   outcome [Panic]; loops that are not structurally recursive take fuel and
   return [Fuel] when it runs out (a distinct outcome, never produced on any
   state that satisfies the invariant of Table/Inv.v).

   The hash function is a Section variable: every definition and theorem holds
   for ANY [hash : value -> N].  The correspondence check instantiates it with
   the finite map of hashes that the real Value.Hash() returned.

   No proofs in this file. *)
From Coq Require Import ZArith NArith List Bool Arith.
From GV Require Import Table.ModelValue.
Import ListNotations.

Inductive res (A : Type) : Type := Ok (a : A) | Panic | Fuel.
Arguments Ok {A} a.
Arguments Panic {A}.
Arguments Fuel {A}.
Definition bind {A B} (m : res A) (f : A -> res B) : res B :=
  match m with Ok a => f a | Panic => Panic | Fuel => Fuel end.
Notation "x <- m ;; f" := (bind m (fun x => f)) (at level 61, m at next level, right associativity).
Notation "' p <- m ;; f" := (bind m (fun x => match x with p => f end))
  (at level 61, p pattern, m at next level, right associativity).

(* hashTableSlot: next = snext<<2 | chained<<1 | hasNext *)
Record slot := mkSlot { skey : value; sval : value; snext : nat; shasNext : bool; schained : bool }.
Definition empty_slot : slot := mkSlot VNil VNil 0 false false.
Definition isEmpty (s : slot) : bool := is_nil (skey s).
Definition set_val (s : slot) (v : value) : slot := mkSlot (skey s) v (snext s) (shasNext s) (schained s).

(* hashTable: nextFree = None models the sentinel noNextFree = 2^64-1 *)
Record htable := mkH { slots : list slot; nextFree : option nat; hbase : nat }.
Record array := mkA { avalues : list value; alen : nat }.
(* mixedTable: both parts are nil pointers in a fresh table *)
Record table := mkT { hpart : option htable; apart : option array }.
Definition empty_table : table := mkT None None.

Fixpoint upd {A} (l : list A) (i : nat) (x : A) : list A :=
  match l, i with
  | [], _ => []
  | _ :: t, O => x :: t
  | h :: t, S j => h :: upd t j x
  end.

Definition getS (sl : list slot) (i : nat) : res slot :=
  match nth_error sl i with Some s => Ok s | None => Panic end.
Definition setS (sl : list slot) (i : nat) (s : slot) : res (list slot) :=
  if i <? length sl then Ok (upd sl i s) else Panic.
Definition getV (vs : list value) (i : nat) : res value :=
  match nth_error vs i with Some v => Ok v | None => Panic end.

Definition smallHashTableSize : nat := 8.

Section WithHash.
Variable hash : value -> N.

(* k.Hash() & mask *)
Definition primary (mask : nat) (k : value) : nat := N.to_nat (N.land (hash k) (N.of_nat mask)).

(* ---------------- findSlot (hashtable.go:460) ---------------- *)
(* small table: for j := int(mask); j >= 0; j-- *)
Fixpoint scanDown (sl : list slot) (k : value) (j : nat) : res (option nat) :=
  it <- getS sl j ;;
  if equals (skey it) k then Ok (Some j)
  else match j with O => Ok None | S j' => scanDown sl k j' end.

(* for !it.key.Equals(k) { if !it.hasNext() {return nil}; i = it.nextIndex(); it = &slots[i] } *)
Fixpoint chainFind (fuel : nat) (sl : list slot) (k : value) (i : nat) : res (option nat) :=
  match fuel with
  | O => Fuel
  | S f =>
    it <- getS sl i ;;
    if equals (skey it) k then Ok (Some i)
    else if negb (shasNext it) then Ok None
    else chainFind f sl k (snext it)
  end.

Definition findSlot (sl : list slot) (mask : nat) (k : value) : res (option nat) :=
  if mask <? smallHashTableSize then scanDown sl k mask
  else
    let i := primary mask k in
    it <- getS sl i ;;
    if schained it then Ok None
    else chainFind (S (length sl)) sl k i.

(* ---------------- updateNextFree (hashtable.go:453) ---------------- *)
Fixpoint updNF (sl : list slot) (f : nat) : res (option nat) :=
  s <- getS sl f ;;
  if isEmpty s then Ok (Some f)
  else match f with O => Ok None (* 0-- wraps to noNextFree *) | S f' => updNF sl f' end.
Definition updateNextFree (sl : list slot) (nf : option nat) : res (option nat) :=
  match nf with None => Ok None | Some f => updNF sl f end.

(* ---------------- insertNewKeyValue (hashtable.go:414) ---------------- *)
(* for nidx := pit.nextIndex(); nidx != i; nidx = pit.nextIndex() { pidx = nidx; pit = &items[pidx] } *)
Fixpoint findPred (fuel : nat) (sl : list slot) (pidx i : nat) : res nat :=
  match fuel with
  | O => Fuel
  | S f =>
    pit <- getS sl pidx ;;
    if snext pit =? i then Ok pidx else findPred f sl (snext pit) i
  end.

Definition insertNew (sl : list slot) (mask : nat) (k v : value) (nf : option nat)
  : res (list slot * bool) :=
  let it := mkSlot k v 0 false false in
  if mask <? smallHashTableSize then
    match nf with
    | None => Panic                                 (* items[noNextFree] *)
    | Some f => sl' <- setS sl f it ;; Ok (sl', true)
    end
  else
    let i := primary mask k in
    cit <- getS sl i ;;
    if isEmpty cit then
      (* case 1 *)
      sl' <- setS sl i it ;;
      Ok (sl', match nf with Some f => i =? f | None => false end)
    else if schained cit then
      (* case 3 of the comment: colliding item is not in its primary position *)
      let pidx0 := primary mask (skey cit) in
      pidx <- findPred (S (length sl)) sl pidx0 i ;;
      match nf with
      | None => Panic
      | Some f =>
        sl1 <- setS sl f cit ;;
        sl2 <- setS sl1 i it ;;
        pit <- getS sl2 pidx ;;                      (* pit is a pointer into items *)
        sl3 <- setS sl2 pidx (mkSlot (skey pit) (sval pit) f true (schained pit)) ;;
        Ok (sl3, true)
      end
    else
      (* case 2: colliding item is in its primary position *)
      match nf with
      | None => Panic
      | Some f =>
        sl1 <- setS sl f (mkSlot (skey cit) (sval cit) (snext cit) (shasNext cit) true) ;;
        sl2 <- setS sl1 i (mkSlot k v f true false) ;;
        Ok (sl2, true)
      end.

(* ---------------- setKeyValue / resetKeyValue / removeKey ---------------- *)
Definition setKeyValue (sl : list slot) (mask : nat) (k v : value) (nf : option nat)
  : res (list slot * bool) :=
  r <- findSlot sl mask k ;;
  match r with
  | Some i => it <- getS sl i ;; sl' <- setS sl i (set_val it v) ;; Ok (sl', false)
  | None => insertNew sl mask k v nf
  end.

Definition resetKeyValue (sl : list slot) (mask : nat) (k v : value) : res (list slot * bool) :=
  r <- findSlot sl mask k ;;
  match r with
  | Some i =>
    it <- getS sl i ;;
    if negb (is_nil (sval it)) then sl' <- setS sl i (set_val it v) ;; Ok (sl', true)
    else Ok (sl, false)
  | None => Ok (sl, false)
  end.

Definition removeKeySlots (sl : list slot) (mask : nat) (k : value) : res (list slot * bool) :=
  r <- findSlot sl mask k ;;
  match r with
  | Some i =>
    it <- getS sl i ;;
    sl' <- setS sl i (set_val it VNil) ;; Ok (sl', negb (is_nil (sval it)))
  | None => Ok (sl, false)
  end.

(* ---------------- hashTable methods ---------------- *)
Definition hmask (h : htable) : nat := 2 ^ hbase h - 1.

Definition hset (h : option htable) (k v : value) : res htable :=
  match h with
  | None => Panic
  | Some t =>
    '(sl, b) <- setKeyValue (slots t) (hmask t) k v (nextFree t) ;;
    if b then nf <- updateNextFree sl (nextFree t) ;; Ok (mkH sl nf (hbase t))
    else Ok (mkH sl (nextFree t) (hbase t))
  end.

Definition hreset (h : option htable) (k v : value) : res (option htable * bool) :=
  match h with
  | None => Ok (None, false)
  | Some t => '(sl, b) <- resetKeyValue (slots t) (hmask t) k v ;; Ok (Some (mkH sl (nextFree t) (hbase t)), b)
  end.

Definition hfind (h : option htable) (k : value) : res value :=
  match h with
  | None => Ok VNil
  | Some t =>
    r <- findSlot (slots t) (hmask t) k ;;
    match r with None => Ok VNil | Some i => it <- getS (slots t) i ;; Ok (sval it) end
  end.

Definition hremove (h : option htable) (k : value) : res (option htable * bool) :=
  match h with
  | None => Ok (None, false)
  | Some t => '(sl, b) <- removeKeySlots (slots t) (hmask t) k ;; Ok (Some (mkH sl (nextFree t) (hbase t)), b)
  end.

Definition hfull (h : option htable) : bool :=
  match h with None => true | Some t => match nextFree t with None => true | Some _ => false end end.

(* copyItems (hashtable.go:386) *)
Fixpoint copyItems (items from : list slot) (mask : nat) (nf : option nat) : res (list slot * option nat) :=
  match from with
  | [] => Ok (items, nf)
  | it :: rest =>
    if is_nil (sval it) then copyItems items rest mask nf
    else
      '(items', b) <- insertNew items mask (skey it) (sval it) nf ;;
      nf' <- (if b then updateNextFree items' nf else Ok nf) ;;
      copyItems items' rest mask nf'
  end.

Definition hgrow (h : option htable) : res htable :=
  match h with
  | None => Ok (mkH [empty_slot] (Some 0) 0)
  | Some t =>
    let base := S (hbase t) in
    let sz := 2 ^ base in
    let mask := sz - 1 in
    '(items, nf) <- copyItems (repeat empty_slot sz) (slots t) mask (Some mask) ;;
    Ok (mkH items nf base)
  end.

Definition hcleanup (t : htable) : res htable :=
  let mask := length (slots t) - 1 in
  '(items, nf) <- copyItems (repeat empty_slot (length (slots t))) (slots t) mask (Some mask) ;;
  Ok (mkH items nf (hbase t)).

(* the scan loop of hashTable.next: first slot at index >= i whose value is not nil *)
Fixpoint firstLive (l : list slot) : option slot :=
  match l with
  | [] => None
  | s :: r => if is_nil (sval s) then firstLive r else Some s
  end.
Definition hnextFrom (sl : list slot) (i : nat) : value * value * bool :=
  match firstLive (skipn i sl) with
  | Some s => (skey s, sval s, true)
  | None => (VNil, VNil, true)
  end.

Definition hnext (h : option htable) (k : value) : res (value * value * bool) :=
  match h with
  | None => Ok (VNil, VNil, is_nil k)
  | Some t =>
    if is_nil k then Ok (hnextFrom (slots t) 0)
    else
      r <- findSlot (slots t) (hmask t) k ;;
      match r with
      | None => Ok (VNil, VNil, false)
      | Some i => Ok (hnextFrom (slots t) (S i))
      end
  end.

(* classifyIndices: the counters idxCountByLen[0..63] are a list of 64 nats *)
Definition bitsLen (x : Z) : nat := N.size_nat (Z.to_N x).
Definition incr (c : list nat) (i : nat) : list nat := upd c i (S (nth i c 0)).

Fixpoint hclassifySlots (sl : list slot) (c : list nat) (n : nat) : list nat * nat :=
  match sl with
  | [] => (c, n)
  | it :: r =>
    if is_nil (sval it) then hclassifySlots r c n
    else match skey it with
         | VInt i => if (0 <? i)%Z then hclassifySlots r (incr c (bitsLen (i - 1))) (S n)
                     else hclassifySlots r c n
         | _ => hclassifySlots r c n
         end
  end.
Definition hclassify (h : option htable) (c : list nat) : list nat * nat :=
  match h with None => (c, 0) | Some t => hclassifySlots (slots t) c 0 end.

(* ---------------- array ---------------- *)
Definition asize (a : option array) : nat := match a with None => 0 | Some ar => length (avalues ar) end.
Definition agetLen (a : option array) : nat := match a with None => 0 | Some ar => alen ar end.
Definition ainrange (a : option array) (i : Z) : bool :=
  match a with None => false | Some ar => ((1 <=? i) && (i <=? Z.of_nat (length (avalues ar))))%Z end.

Definition aget (a : option array) (i : Z) : option value :=
  match a with
  | Some ar => if ainrange a i then Some (nth (Z.to_nat (i - 1)) (avalues ar) VNil) else None
  | None => None
  end.

Definition asetValue (a : option array) (i : Z) (v : value) : option array :=
  match a with
  | Some ar =>
    if ainrange a i then
      Some (mkA (upd (avalues ar) (Z.to_nat (i - 1)) v)
                (if alen ar <? Z.to_nat i then Z.to_nat i else alen ar))
    else None
  | None => None
  end.

(* (ok, wasSet, a') *)
Definition aresetValue (a : option array) (i : Z) (v : value) : bool * bool * option array :=
  match a with
  | Some ar =>
    if ainrange a i then
      if negb (is_nil (nth (Z.to_nat (i - 1)) (avalues ar) VNil))
      then (true, true, Some (mkA (upd (avalues ar) (Z.to_nat (i - 1)) v) (alen ar)))
      else (true, false, a)
    else (false, false, a)
  | None => (false, false, a)
  end.

(* for l >= 1 && a.values[l-1].IsNil() { l-- } *)
Fixpoint shrinkLen (vs : list value) (l : nat) : nat :=
  match l with
  | O => O
  | S l' => if is_nil (nth l' vs VNil) then shrinkLen vs l' else l
  end.

Definition aremove (a : option array) (i : Z) : bool * bool * option array :=
  match a with
  | Some ar =>
    if ainrange a i then
      let wasSet := (i <=? Z.of_nat (alen ar))%Z && negb (is_nil (nth (Z.to_nat (i - 1)) (avalues ar) VNil)) in
      if wasSet then
        let vs := upd (avalues ar) (Z.to_nat (i - 1)) VNil in
        let l := Z.to_nat i in
        (true, true, Some (mkA vs (if alen ar =? l then shrinkLen vs l else alen ar)))
      else (true, false, a)
    else (false, false, a)
  | None => (false, false, a)
  end.

(* array.next: returns (next, v, ok) *)
Fixpoint anextLoop (fuel : nat) (vs : list value) (len i : nat) : res (nat * value) :=
  if len <=? i then Ok (0, VNil)          (* if i >= int64(a.len) { return } *)
  else match fuel with
       | O => Fuel
       | S f =>
         v <- getV vs i ;;
         if is_nil v then anextLoop f vs len (S i) else Ok (S i, v)
       end.
Definition anext (a : option array) (i : Z) : res (nat * value * bool) :=
  match a with
  | Some ar =>
    if ((0 <=? i) && (i <=? Z.of_nat (length (avalues ar))))%Z then   (* any index of the array *)
      '(j, v) <- anextLoop (S (alen ar)) (avalues ar) (alen ar) (Z.to_nat i) ;; Ok (j, v, true)
    else Ok (0, VNil, false)
  | None => Ok (0, VNil, false)
  end.

Definition agrow (a : option array) (sz : nat) : array :=
  match a with
  | None => mkA (repeat VNil sz) 0
  | Some ar => mkA (firstn sz (avalues ar ++ repeat VNil (sz - length (avalues ar)))) (alen ar)
  end.

(* for i, v := range a.values[:a.len] { if !v.IsNil() { idxCountByLen[bits.Len(uint(i))]++ } } *)
Fixpoint aclassifyVals (vs : list value) (i : nat) (c : list nat) : list nat :=
  match vs with
  | [] => c
  | v :: r => aclassifyVals r (S i) (if is_nil v then c else incr c (bitsLen (Z.of_nat i)))
  end.
Definition aclassify (a : option array) (c : list nat) : res (list nat) :=
  match a with
  | None => Ok c
  | Some ar => if alen ar <=? length (avalues ar) then Ok (aclassifyVals (firstn (alen ar) (avalues ar)) 0 c)
               else Panic   (* slice bounds out of range *)
  end.

(* calculateArraySize (hashtable.go:607); returns the base (None = -1) *)
Fixpoint calcBase (c : list nat) (l : nat) (idxCount : nat) (base : option nat) : option nat :=
  match c with
  | [] => base
  | x :: r =>
    let idxCount := idxCount + x in
    let base := if negb (x =? 0) && ((l =? 0) || (N.leb (N.pow 2 (N.of_nat (l - 1))) (N.of_nat idxCount)))
                then Some l else base in
    calcBase r (S l) idxCount base
  end.
Definition calculateArraySize (c : list nat) : nat :=
  match calcBase c 0 0 None with Some b => 2 ^ b | None => 0 end.

(* ---------------- mixedTable ---------------- *)
(* the migration loop of mixedTable.grow *)
Fixpoint migrate (sl : list slot) (arr : array) : list slot * array :=
  match sl with
  | [] => ([], arr)
  | it :: r =>
    if is_nil (sval it) then let '(r', arr') := migrate r arr in (it :: r', arr')
    else match skey it with
         | VInt j =>
           match asetValue (Some arr) j (sval it) with
           | Some arr1 => let '(r', arr') := migrate r arr1 in (set_val it VNil :: r', arr')
           | None => let '(r', arr') := migrate r arr in (it :: r', arr')
           end
         | _ => let '(r', arr') := migrate r arr in (it :: r', arr')
         end
  end.

Definition mgrow (t : table) : res table :=
  let '(c1, idxCount) := hclassify (hpart t) (repeat 0 64) in
  if idxCount =? 0 then h <- hgrow (hpart t) ;; Ok (mkT (Some h) (apart t))
  else
    c2 <- aclassify (apart t) c1 ;;
    let arrSize := calculateArraySize c2 in
    if arrSize <=? asize (apart t) then h <- hgrow (hpart t) ;; Ok (mkT (Some h) (apart t))
    else
      let arr := agrow (apart t) arrSize in
      match hpart t with
      | None => Panic
      | Some h =>
        let '(sl', arr') := migrate (slots h) arr in
        h' <- hcleanup (mkH sl' (nextFree h) (hbase h)) ;;
        Ok (mkT (Some h') (Some arr'))
      end.

Definition mget (t : table) (k : value) : res value :=
  match toIntNoString k with
  | Some i =>
    match aget (apart t) i with
    | Some v => Ok v
    | None => hfind (hpart t) (VInt i)
    end
  | None => hfind (hpart t) k
  end.

(* hashTable.setExisting / insertNew (added by the repair of mixedTable.insert) *)
Definition hsetExisting (h : option htable) (k v : value) : res (option htable) :=
  match h with
  | None => Ok None
  | Some t =>
    r <- findSlot (slots t) (hmask t) k ;;
    match r with
    | None => Ok None
    | Some i => it <- getS (slots t) i ;; sl' <- setS (slots t) i (set_val it v) ;;
                Ok (Some (mkH sl' (nextFree t) (hbase t)))
    end
  end.

Definition hinsertNew (h : option htable) (k v : value) : res htable :=
  match h with
  | None => Panic
  | Some t =>
    '(sl, b) <- insertNew (slots t) (hmask t) k v (nextFree t) ;;
    if b then nf <- updateNextFree sl (nextFree t) ;; Ok (mkH sl nf (hbase t))
    else Ok (mkH sl (nextFree t) (hbase t))
  end.

Definition minsert (t : table) (k v : value) : res table :=
  let oi := toIntNoString k in
  let try (t : table) : option table :=
    match oi with
    | Some i => match asetValue (apart t) i v with Some a => Some (mkT (hpart t) (Some a)) | None => None end
    | None => None
    end in
  match try t with
  | Some t' => Ok t'
  | None =>
    let k' := match oi with Some i => VInt i | None => k end in
    e <- hsetExisting (hpart t) k' v ;;
    match e with
    | Some h' => Ok (mkT (Some h') (apart t))       (* existing slot: nothing moves *)
    | None =>
      if hfull (hpart t) then
        t1 <- mgrow t ;;
        match try t1 with
        | Some t' => Ok t'
        | None => h <- hinsertNew (hpart t1) k' v ;; Ok (mkT (Some h) (apart t1))
        end
      else h <- hinsertNew (hpart t) k' v ;; Ok (mkT (Some h) (apart t))
    end
  end.

Definition mreset (t : table) (k v : value) : res (table * bool) :=
  match toIntNoString k with
  | Some i =>
    let '(ok, wasSet, a) := aresetValue (apart t) i v in
    if ok then Ok (mkT (hpart t) a, wasSet)
    else '(h, b) <- hreset (hpart t) (VInt i) v ;; Ok (mkT h (apart t), b)
  | None => '(h, b) <- hreset (hpart t) k v ;; Ok (mkT h (apart t), b)
  end.

Definition mremove (t : table) (k : value) : res (table * bool) :=
  match toIntNoString k with
  | Some i =>
    let '(ok, wasSet, a) := aremove (apart t) i in
    if ok then Ok (mkT (hpart t) a, wasSet)
    else '(h, b) <- hremove (hpart t) (VInt i) ;; Ok (mkT h (apart t), b)
  | None => '(h, b) <- hremove (hpart t) k ;; Ok (mkT h (apart t), b)
  end.

Fixpoint lenLoop (fuel : nat) (h : option htable) (l : nat) : res nat :=
  match fuel with
  | O => Fuel
  | S f =>
    v <- hfind h (VInt (Z.of_nat (S l))) ;;
    if is_nil v then Ok l else lenLoop f h (S l)
  end.
Definition hsize (h : option htable) : nat := match h with None => 0 | Some t => length (slots t) end.
Definition mlen (t : table) : res nat :=
  let l := agetLen (apart t) in
  if l <? asize (apart t) then Ok l
  else lenLoop (S (hsize (hpart t))) (hpart t) l.

Definition mnext (t : table) (k : value) : res (value * value * bool) :=
  let viaArray (i : Z) (kh : value) :=
    '(j, v, ok) <- anext (apart t) i ;;
    if ok then
      if 0 <? j then Ok (VInt (Z.of_nat j), v, true)
      else hnext (hpart t) VNil
    else hnext (hpart t) kh in
  if is_nil k then
    match apart t with
    | None => hnext (hpart t) k
    | Some _ => viaArray 0%Z (VInt 0)
    end
  else
    match toIntNoString k with
    | Some i => if (i <? 1)%Z then hnext (hpart t) (VInt i)   (* only positive integers are array keys *)
                else viaArray i (VInt i)
    | None => hnext (hpart t) k
    end.

(* ---------------- Table (table.go) ---------------- *)
Definition tget (t : table) (k : value) : res value := mget t k.
Definition tset (t : table) (k v : value) : res table :=
  if is_nil v then '(t', _) <- mremove t k ;; Ok t' else minsert t k v.
Definition treset (t : table) (k v : value) : res (table * bool) :=
  if is_nil v then mremove t k else mreset t k v.

(* ---------------- histories ---------------- *)
Inductive wstatus := WEnd | WInvalid | WCap.
Inductive op :=
| OSet (k v : value)              (* Table.Set  : rawset, Runtime.SetTable, SetIndex for a new key *)
| OReset (k v : value)            (* Table.Reset: what t[k]=v tries first *)
| OGet (k : value)
| ONext (k : value)
| OLen
| OWalk (m p q : nat) (fresh : Z) (cap : nat)
| OEq (a b : value).              (* probe: a.Equals(b), RawEqual(a,b), and 'same entry': tt := {}; tt[a]=true; tt[b] ~= nil *)
(* OWalk: traverse with Next from nil for at most cap steps; at step j (visited key k) with
   a = (j*p+q) mod m:  a=0 -> Reset k nil (clear) ; a=1 -> Reset k fresh+j ; a=2 -> Set k fresh+j ;
   otherwise nothing.  Only existing fields are assigned or cleared. *)
Inductive result :=
| RUnit
| RBool (b : bool)
| RVal (v : value)
| RNext (k v : value) (ok : bool)
| RLen (n : nat)
| RWalk (visited : list (value * value)) (s : wstatus)
| REq (eq raweq : bool) (same sameBig : option bool).   (* None when a cannot be a key (nil, NaN); sameBig: in a table pre-filled with 24 string keys (hashed mode) *)

Fixpoint walk (cap : nat) (t : table) (k : value) (j m p q : nat) (fresh : Z) (acc : list (value * value))
  : res (table * list (value * value) * wstatus) :=
  match cap with
  | O => Ok (t, rev acc, WCap)
  | S c =>
    '(nk, nv, ok) <- mnext t k ;;
    if negb ok then Ok (t, rev acc, WInvalid)
    else if is_nil nk then Ok (t, rev acc, WEnd)
    else
      let a := Nat.modulo (j * p + q) m in
      let nv' := VInt (fresh + Z.of_nat j) in
      t' <- (if a =? 0 then '(t1, _) <- treset t nk VNil ;; Ok t1
             else if a =? 1 then '(t1, _) <- treset t nk nv' ;; Ok t1
             else if a =? 2 then tset t nk nv'
             else Ok t) ;;
      walk c t' nk (S j) m p q fresh ((nk, nv) :: acc)
  end.

(* the probe table of OEq: 24 string keys "pf00" .. "pf23" (hash part of 32 slots: hashed mode) *)
Definition prefill_keys : list value :=
  map (fun i => VStr [112%N; 102%N; N.of_nat (48 + i / 10); N.of_nat (48 + i mod 10)]) (seq 0 24).
Fixpoint prefill (t : table) (ks : list value) : res table :=
  match ks with [] => Ok t | k :: r => t1 <- tset t k (VBool true) ;; prefill t1 r end.

Definition step (t : table) (o : op) : res (table * result) :=
  match o with
  | OSet k v => t' <- tset t k v ;; Ok (t', RUnit)
  | OReset k v => '(t', b) <- treset t k v ;; Ok (t', RBool b)
  | OGet k => v <- tget t k ;; Ok (t, RVal v)
  | ONext k => '(nk, nv, ok) <- mnext t k ;; Ok (t, RNext nk nv ok)
  | OLen => n <- mlen t ;; Ok (t, RLen n)
  | OWalk m p q fresh cap => '(t', vis, s) <- walk cap t VNil 0 m p q fresh [] ;; Ok (t', RWalk vis s)
  | OEq a b =>
    same <- (if is_nil a || is_nan a then Ok None
             else t1 <- tset empty_table a (VBool true) ;; v <- tget t1 b ;; Ok (Some (negb (is_nil v)))) ;;
    sameBig <- (if is_nil a || is_nan a then Ok None
                else t0 <- prefill empty_table prefill_keys ;;
                     t1 <- tset t0 a (VBool true) ;; v <- tget t1 b ;; Ok (Some (negb (is_nil v)))) ;;
    Ok (t, REq (equals a b) (raw_equal_go a b) same sameBig)
  end.

Fixpoint run (t : table) (os : list op) : res table :=
  match os with
  | [] => Ok t
  | o :: r => '(t', _) <- step t o ;; run t' r
  end.

End WithHash.

(* the hash function handed to the extracted model: a finite map, 0 elsewhere *)
Fixpoint hash_of_list (l : list (value * N)) (v : value) : N :=
  match l with
  | [] => 0%N
  | (k, h) :: r => if veqb k v then h else hash_of_list r v
  end.
