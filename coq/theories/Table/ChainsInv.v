(* Table/ChainsInv.v — the complete invariant of the hash part (HInvG = sizes, unique normalised keys,
   nextFree, empty slots hold nothing, and in large mode the chain invariant Good); it implies HInv
   (complete lookups) and is preserved by value updates, by hashTable.insertNew, and re-established by
   copyItems / grow / cleanup. *)
From Coq Require Import ZArith NArith List Bool Arith Lia.
From GV Require Import Table.ModelValue Table.Model Table.Spec Table.ValueProofs Table.Proofs Table.Inv Table.Refine Table.RefineIns Table.Chains Table.ChainsIns.
Import ListNotations.

Section WithHash.
Variable hash : value -> N.
Hypothesis hash_compat : forall a b, wf a = true -> wf b = true -> equals a b = true -> hash a = hash b.
Notation prim := (primary hash).

(* insertNewKeyValue in large mode preserves the chain invariant *)
Theorem insertNew_Good : forall sl mask R k v nf sl' b,
  smallHashTableSize <= mask -> Good hash sl mask R -> nf_ok sl nf -> is_nil k = false ->
  insertNew hash sl mask k v nf = Ok (sl', b) -> exists R', Good hash sl' mask R'.
Proof.
  intros sl mask R k v nf sl' b LARGE G NF NK H. unfold insertNew in H.
  apply Nat.ltb_ge in LARGE. rewrite LARGE in H. unfold bind in H.
  destruct (getS sl (prim mask k)) as [cit| |] eqn:GC; try discriminate. apply getS_Ok in GC.
  pose proof (nth_error_lt _ _ _ _ GC) as Li.
  destruct (isEmpty cit) eqn:EC.
  - rewrite setS_ok in H by auto. inversion H; subst. eexists. eapply Good_case1; eauto.
  - destruct (schained cit) eqn:CC.
    + destruct (findPred _ sl _ _) as [pidx| |] eqn:FP; try discriminate.
      destruct nf as [f|]; [|discriminate]. destruct (nf_ok_some _ _ NF) as (sf & Nf & Ef & Lf).
      rewrite setS_ok in H by auto. rewrite setS_ok in H by (rewrite upd_length; auto).
      destruct (getS _ pidx) as [pit| |] eqn:GP; try discriminate.
      destruct (setS _ pidx _) as [sl3| |] eqn:S3; try discriminate. inversion H; subst.
      eapply (Good_case3 hash sl mask R (prim mask k) f cit sf k v pidx sl'); eauto.
      unfold bind. rewrite GP. exact S3.
    + destruct nf as [f|]; [|discriminate]. destruct (nf_ok_some _ _ NF) as (sf & Nf & Ef & Lf).
      rewrite setS_ok in H by auto. rewrite setS_ok in H by (rewrite upd_length; auto).
      inversion H; subst. eexists. eapply Good_case2; eauto.
Qed.

(* ---------- the invariant of the hash part ---------- *)
Definition empties_ok (sl : list slot) : Prop :=
  forall j s, nth_error sl j = Some s -> isEmpty s = true -> sval s = VNil.

Record HInvG (t : htable) : Prop := {
  hg_len : length (slots t) = 2 ^ hbase t;
  hg_base : KBase (kvs (slots t));
  hg_nf : nf_ok (slots t) (nextFree t);
  hg_emp : empties_ok (slots t);
  hg_good : smallHashTableSize <= hmask t -> exists R, Good hash (slots t) (hmask t) R
}.

Theorem HInvG_HInv : forall t, HInvG t -> HInv hash t.
Proof.
  intros t I. split; try apply I.
  destruct (Nat.lt_ge_cases (hmask t) smallHashTableSize) as [Sm|Lg].
  - apply HFind_small; auto. rewrite (hg_len _ I). unfold hmask. pose proof (pow2_pos (hbase t)). lia.
  - destruct (hg_good _ I Lg) as (R & G). unfold hmask in *. eapply Good_HFind; eauto; apply I.
Qed.

Definition HInvGO (h : option htable) : Prop := match h with None => True | Some t => HInvG t end.

Lemma HInvGO_HInvO : forall h, HInvGO h -> HInvO hash h.
Proof. intros [t|] I; cbn in *; auto using HInvG_HInv. Qed.

(* value updates at an occupied slot *)
Lemma HInvG_setval : forall t i s v, HInvG t -> nth_error (slots t) i = Some s -> isEmpty s = false ->
  HInvG (mkH (upd (slots t) i (set_val s v)) (nextFree t) (hbase t)).
Proof.
  intros t i s v I N O. pose proof (HInv_setval hash t i s v (HInvG_HInv _ I) N) as I'.
  pose proof (setval_shape _ _ _ v N) as Sh.
  split; try apply I'.
  - cbn [slots]. intros j s' N' E'. rewrite nth_error_upd in N'. destruct (Nat.eqb_spec j i).
    + destruct (i <? _); inversion N'; subst. unfold isEmpty in *. cbn in E'. congruence.
    + eapply (hg_emp _ I); eauto.
  - cbn [slots hbase]. intros Lg. destruct (hg_good _ I Lg) as (R & G). exists R.
    eapply Good_shape; [symmetry; exact Sh|exact G].
Qed.

(* the cells after an insertion *)
Lemma empties_kvs : forall sl, empties_ok sl <-> forall j q, nth_error (kvs sl) j = Some q -> is_nil (fst q) = true -> snd q = VNil.
Proof.
  intros sl. split.
  - intros E j q N Q. apply kvs_nth_inv in N as (s & N & ->). cbn in *. eapply E; eauto.
  - intros E j s N Q. apply (E j _ (kvs_nth _ _ _ N) Q).
Qed.

Lemma ins_shape_emp : forall sl k v nf sl' b, empties_ok sl -> is_nil k = false -> ins_shape sl k v nf sl' b -> empties_ok sl'.
Proof.
  intros sl k v nf sl' b E NK IS. apply empties_kvs. rewrite empties_kvs in E.
  destruct IS as [e p0 N E0 K _|f i p0 c _ Nf Ef Ni Oc K _]; rewrite K; intros j q H Q.
  - rewrite nth_error_upd in H. destruct (j =? e); [destruct (e <? _); inversion H; subst; cbn in Q; congruence|eauto].
  - rewrite !nth_error_upd, upd_length in H. destruct (j =? i).
    + destruct (i <? _); inversion H; subst; cbn in Q; congruence.
    + destruct (j =? f); [destruct (f <? _); inversion H; subst; congruence|eauto].
Qed.

Lemma ins_shape_absent : forall sl k v nf sl' b k2, ins_shape sl k v nf sl' b ->
  kabsent (kvs sl) k2 -> equals k k2 = false -> kabsent (kvs sl') k2.
Proof.
  intros sl k v nf sl' b k2 IS A NE.
  destruct IS as [e p0 N E0 K _|f i p0 c _ Nf Ef Ni Oc K _]; rewrite K; intros j q H.
  - rewrite nth_error_upd in H. destruct (j =? e); [destruct (e <? _); inversion H; subst; auto|eauto].
  - rewrite !nth_error_upd, upd_length in H. destruct (j =? i).
    + destruct (i <? _); inversion H; subst; auto.
    + destruct (j =? f); [destruct (f <? _); inversion H; subst; eauto|eauto].
Qed.

(* ---------- hashTable.insertNew preserves the whole invariant, any mode ---------- *)
Theorem hinsertNew_G : forall t k v t', HInvG t -> gkey k -> kabsent (kvs (slots t)) k ->
  hinsertNew hash (Some t) k v = Ok t' ->
  HInvG t' /\ hbase t' = hbase t /\
  (forall k', gkey k' -> klook (kvs (slots t')) k' = if equals k k' then v else klook (kvs (slots t)) k') /\
  (forall k2, kabsent (kvs (slots t)) k2 -> equals k k2 = false -> kabsent (kvs (slots t')) k2).
Proof.
  intros t k v t' I G A H.
  destruct (hinsertNew_spec hash t k v t' (HInvG_HInv _ I) G A H) as (LEN & HB & KB & NF & LK & _).
  cbn [hinsertNew] in H. unfold bind in H.
  destruct (insertNew hash (slots t) (hmask t) k v (nextFree t)) as [[sl b]| |] eqn:IN; try discriminate.
  pose proof (insertNew_shape hash _ _ _ _ _ _ _ (hg_nf _ I) IN) as IS.
  assert (SL : slots t' = sl).
  { destruct b; [destruct (updateNextFree sl (nextFree t)); try discriminate|]; inversion H; reflexivity. }
  assert (NK : is_nil k = false) by apply G.
  split; [|split; [exact HB|split; [exact LK|]]].
  - split; auto.
    + rewrite SL. eapply ins_shape_emp; eauto. apply I.
    + intros Lg. unfold hmask in *. rewrite HB in *. destruct (hg_good _ I Lg) as (R & GD). rewrite SL.
      eapply insertNew_Good; eauto. apply I.
  - intros k2 A2 NE. rewrite SL. eapply ins_shape_absent; eauto.
Qed.

(* ---------- copyItems: a fold of insertions of the live items ---------- *)
Fixpoint cp_abs (from : list slot) (m : value -> value) (k' : value) : value :=
  match from with
  | [] => m k'
  | s :: r => if is_nil (sval s) then cp_abs r m k'
              else cp_abs r (fun x => if equals (skey s) x then sval s else m x) k'
  end.

Lemma cp_abs_ext : forall from m m' k', (forall x, gkey x -> m x = m' x) -> gkey k' -> cp_abs from m k' = cp_abs from m' k'.
Proof.
  induction from as [|s r IH]; intros m m' k' E G; cbn [cp_abs]; auto.
  destruct (is_nil (sval s)); auto. apply IH; auto. intros x Gx. rewrite E; auto.
Qed.

(* the live items of the source have good, pairwise different keys *)
Fixpoint src_ok (from : list slot) : Prop :=
  match from with
  | [] => True
  | s :: r => (is_nil (sval s) = false -> gkey (skey s) /\
                forall s2, In s2 r -> is_nil (sval s2) = false -> equals (skey s) (skey s2) = false) /\ src_ok r
  end.

Lemma copyItems_step : forall items s rest mask nf b0, is_nil (sval s) = false -> mask = 2 ^ b0 - 1 ->
  copyItems hash items (s :: rest) mask nf =
  (t1 <- hinsertNew hash (Some (mkH items nf b0)) (skey s) (sval s) ;; copyItems hash (slots t1) rest mask (nextFree t1)).
Proof.
  intros items s rest mask nf b0 LV ->. cbn [copyItems hinsertNew]. rewrite LV. unfold bind, hmask. cbn [slots nextFree hbase].
  destruct (insertNew hash items (2 ^ b0 - 1) (skey s) (sval s) nf) as [[sl b]| |]; auto.
  destruct b; auto. destruct (updateNextFree sl nf); auto.
Qed.

Theorem copyItems_G : forall from items nf b0 items' nf',
  HInvG (mkH items nf b0) -> src_ok from ->
  (forall s, In s from -> is_nil (sval s) = false -> kabsent (kvs items) (skey s)) ->
  copyItems hash items from (2 ^ b0 - 1) nf = Ok (items', nf') ->
  HInvG (mkH items' nf' b0) /\ (forall k', gkey k' -> klook (kvs items') k' = cp_abs from (klook (kvs items)) k') /\
  (forall k2, kabsent (kvs items) k2 -> (forall s, In s from -> is_nil (sval s) = false -> equals (skey s) k2 = false) ->
     kabsent (kvs items') k2).
Proof.
  induction from as [|s r IH]; intros items nf b0 items' nf' I SO AB H.
  - cbn in H. inversion H; subst. auto.
  - destruct SO as (S1 & S2). destruct (is_nil (sval s)) eqn:LV.
    + cbn [copyItems] in H. rewrite LV in H. cbn [cp_abs]. rewrite LV.
      destruct (IH items nf b0 items' nf' I S2) as (I' & LK' & AB'); auto.
      * intros s2 Hs2. apply AB. right; auto.
      * split; auto. split; auto. intros k2 A2 D2. apply AB'; auto. intros s2 Hs2. apply D2. right; auto.
    + rewrite (copyItems_step items s r _ nf b0 LV eq_refl) in H. unfold bind in H.
      destruct (hinsertNew hash (Some (mkH items nf b0)) (skey s) (sval s)) as [t1| |] eqn:HI; try discriminate.
      destruct (S1 eq_refl) as (GK & DIFF).
      assert (A0 : kabsent (kvs items) (skey s)) by (apply AB; [left; auto|auto]).
      destruct (hinsertNew_G _ _ _ _ I GK A0 HI) as (I1 & HB & LK & ABS). cbn [slots hbase] in *.
      assert (E1 : t1 = mkH (slots t1) (nextFree t1) b0) by (destruct t1; cbn in *; subst; reflexivity).
      rewrite E1 in I1.
      destruct (IH (slots t1) (nextFree t1) b0 items' nf' I1 S2) as (I' & LK' & AB'); auto.
      * intros s2 Hs2 L2. apply ABS; [apply AB; [right; auto|auto]|]. apply DIFF; auto.
      * split; auto. split.
        -- intros k' G'. rewrite LK' by auto. cbn [cp_abs]. rewrite LV. apply cp_abs_ext; auto.
        -- intros k2 A2 D2. apply AB'.
           ++ apply ABS; auto. apply D2; [left; auto|auto].
           ++ intros s2 Hs2. apply D2. right; auto.
Qed.

(* on a source with unique keys the fold computes the lookup of the source (tombstones vanish) *)
Definition lfind (from : list slot) (k' : value) : option slot :=
  find (fun s => negb (is_nil (sval s)) && equals (skey s) k') from.

Lemma cp_abs_lfind : forall from m k', src_ok from -> gkey k' ->
  (forall s, In s from -> wf (skey s) = true) ->
  cp_abs from m k' = match lfind from k' with Some s => sval s | None => m k' end.
Proof.
  induction from as [|s r IH]; intros m k' SO G W; cbn [cp_abs lfind find]; auto.
  destruct SO as (S1 & S2). destruct (is_nil (sval s)) eqn:LV; cbn [negb andb].
  - apply IH; auto. intros; apply W; right; auto.
  - rewrite IH; auto; [|intros; apply W; right; auto]. fold (lfind r k').
    destruct (equals (skey s) k') eqn:E; [|reflexivity].
    destruct (lfind r k') as [s2|] eqn:F; [|reflexivity]. exfalso.
    apply find_some in F as (I2 & Q). apply andb_true_iff in Q as (L2 & E2). apply negb_true_iff in L2.
    destruct (S1 eq_refl) as (_ & DIFF). specialize (DIFF s2 I2 L2).
    assert (equals (skey s) (skey s2) = true).
    { assert (Ws : wf (skey s) = true) by (apply W; left; auto).
      assert (Ws2 : wf (skey s2) = true) by (apply W; right; auto).
      apply (eq_trans_w (skey s) k' (skey s2) Ws (proj1 G) Ws2 E).
      rewrite eq_sym_w; [exact E2|exact (proj1 G)|exact Ws2]. }
    congruence.
Qed.

Lemma KBase_tail : forall p l, KBase (p :: l) -> KBase l.
Proof.
  intros p l B. split.
  - intros i q N. apply (kb_wf _ B (S i) q N).
  - intros i q N. apply (kb_keys _ B (S i) q N).
  - intros i j q q' N N' O O' E. assert (S i = S j) by (eapply (kb_nodup _ B (S i) (S j)); eauto). lia.
Qed.

Lemma src_ok_of_inv : forall sl, KBase (kvs sl) -> empties_ok sl -> src_ok sl.
Proof.
  induction sl as [|s r IH]; intros B E; cbn [src_ok]; auto. split.
  - intros LV. assert (O : isEmpty s = false).
    { destruct (isEmpty s) eqn:Q; auto. rewrite (E 0 s eq_refl Q) in LV. discriminate. }
    split; [exact (kb_keys _ B 0 (skey s, sval s) eq_refl O)|].
    intros s2 I2 L2. apply In_nth_error in I2 as (j & Nj).
    assert (O2 : isEmpty s2 = false).
    { destruct (isEmpty s2) eqn:Q; auto. rewrite (E (S j) s2 Nj Q) in L2. discriminate. }
    destruct (equals (skey s) (skey s2)) eqn:EQ; auto.
    assert (0 = S j); [|discriminate].
    apply (kb_nodup _ B 0 (S j) (skey s, sval s) (skey s2, sval s2)); auto. cbn. apply kvs_nth. exact Nj.
  - apply IH.
    + apply (KBase_tail (skey s, sval s)). exact B.
    + intros j s' N. apply (E (S j) s' N).
Qed.

Theorem cp_abs_klook : forall sl k', KBase (kvs sl) -> empties_ok sl -> gkey k' ->
  cp_abs sl (fun _ => VNil) k' = klook (kvs sl) k'.
Proof.
  intros sl k' B E G. rewrite cp_abs_lfind; auto using src_ok_of_inv.
  2:{ intros s I. apply In_nth_error in I as (j & N). apply (kb_wf _ B j _ (kvs_nth _ _ _ N)). }
  symmetry. apply kval_klook; auto.
  destruct (lfind sl k') as [s|] eqn:F.
  - apply find_some in F as (I & Q). apply andb_true_iff in Q as (_ & EQ). apply In_nth_error in I as (j & N).
    left. exists j, (skey s, sval s). auto using kvs_nth.
  - destruct (klook_kval (kvs sl) k') as [(j & p & Np & Ep & Vp)|(A & V)].
    + left. exists j, p. repeat split; auto. apply kvs_nth_inv in Np as (s & N & ->). cbn [fst snd] in *.
      destruct (is_nil (sval s)) eqn:LV; [destruct (sval s); auto; discriminate|]. exfalso.
      pose proof (find_none _ _ F s (nth_error_In _ _ N)) as Q. cbn in Q. rewrite LV, Ep in Q. discriminate.
    + right. auto.
Qed.

(* ---------- grow / cleanup re-establish the invariant and keep the abstract map ---------- *)
Lemma nth_error_repeat_lt : forall A (x : A) n i, i < n -> nth_error (repeat x n) i = Some x.
Proof. induction n; intros i H; [lia|]. destruct i; cbn; auto. apply IHn. lia. Qed.

Lemma kvs_repeat : forall n, kvs (repeat empty_slot n) = repeat (VNil, VNil) n.
Proof. induction n; cbn [repeat]; [reflexivity|]. unfold kvs in *. cbn [map]. rewrite IHn. reflexivity. Qed.

Lemma HInvG_empty : forall b, HInvG (mkH (repeat empty_slot (2 ^ b)) (Some (2 ^ b - 1)) b).
Proof.
  intros b. pose proof (pow2_pos b) as P. split; cbn [slots nextFree hbase].
  - apply repeat_length.
  - rewrite kvs_repeat. split.
    + intros i p N. apply nth_error_repeat in N. subst. reflexivity.
    + intros i p N O. apply nth_error_repeat in N. subst. discriminate.
    + intros i j p q N N' O. apply nth_error_repeat in N. subst. discriminate.
  - split.
    + exists empty_slot. split; auto. apply nth_error_repeat_lt. lia.
    + intros i s Hi N. apply nth_error_lt in N. rewrite repeat_length in N. lia.
  - intros j s N _. apply nth_error_repeat in N. subst. reflexivity.
  - intros _. exists (fun _ => []). apply Good_fresh.
Qed.

Lemma klook_empty : forall n k', is_nil k' = false -> klook (kvs (repeat empty_slot n)) k' = VNil.
Proof.
  intros n k' NK. rewrite kvs_repeat. unfold klook.
  destruct (find _ _) as [p|] eqn:F; auto. apply find_some in F as (I & E). apply repeat_spec in I. subst.
  cbn [fst] in E. rewrite equals_nil_l in E by auto. discriminate.
Qed.

Lemma live_occupied : forall sl j s, empties_ok sl -> nth_error sl j = Some s -> is_nil (sval s) = false -> isEmpty s = false.
Proof. intros sl j s E N LV. destruct (isEmpty s) eqn:Q; auto. rewrite (E j s N Q) in LV. discriminate. Qed.

Lemma copy_into_empty : forall t b0 items' nf', HInvG t ->
  copyItems hash (repeat empty_slot (2 ^ b0)) (slots t) (2 ^ b0 - 1) (Some (2 ^ b0 - 1)) = Ok (items', nf') ->
  HInvG (mkH items' nf' b0) /\ (forall k', gkey k' -> klook (kvs items') k' = klook (kvs (slots t)) k') /\
  (forall k2, is_nil k2 = false -> kabsent (kvs (slots t)) k2 -> kabsent (kvs items') k2).
Proof.
  intros t b0 items' nf' I H.
  destruct (copyItems_G (slots t) _ _ b0 items' nf' (HInvG_empty b0)) as (I' & LK & AB'); auto.
  - apply src_ok_of_inv; apply I.
  - intros s IN LV j p N. rewrite kvs_repeat in N. apply nth_error_repeat in N. subst. cbn [fst].
    apply equals_nil_l. apply In_nth_error in IN as (i & Ni).
    exact (live_occupied _ _ _ (hg_emp _ I) Ni LV).
  - split; auto. split.
    + intros k' G'. rewrite LK by auto.
      rewrite (cp_abs_ext _ _ (fun _ => VNil)); auto.
      * apply cp_abs_klook; auto; apply I.
      * intros x Gx. apply klook_empty. apply Gx.
    + intros k2 NK A2. apply AB'.
      * intros j p N. rewrite kvs_repeat in N. apply nth_error_repeat in N. subst. cbn [fst]. apply equals_nil_l; auto.
      * intros s IN _. apply In_nth_error in IN as (i & Ni). apply (A2 i _ (kvs_nth _ _ _ Ni)).
Qed.

Theorem hgrow_G : forall h t', HInvGO h -> hgrow hash h = Ok t' ->
  HInvG t' /\ (forall k', gkey k' -> klook (kvs (slots t')) k' = habs h k') /\
  (forall k2, is_nil k2 = false -> (forall t, h = Some t -> kabsent (kvs (slots t)) k2) -> kabsent (kvs (slots t')) k2).
Proof.
  intros [t|] t' I H; cbn [hgrow] in H.
  - unfold bind in H.
    destruct (copyItems hash _ (slots t) _ _) as [[items nf]| |] eqn:C; try discriminate. inversion H; subst.
    cbn [slots habs]. destruct (copy_into_empty t _ items nf I C) as (A & B & D). split; [exact A|split; [exact B|intros k2 NK HA; apply D; auto]].
  - inversion H; subst. split; [exact (HInvG_empty 0)|]. split.
    + intros k' G'. cbn [habs slots]. apply (klook_empty 1). apply G'.
    + intros k2 NK _ j p N. cbn [slots] in N. change [empty_slot] with (repeat empty_slot 1) in N.
      rewrite kvs_repeat in N. apply nth_error_repeat in N. subst. apply equals_nil_l; auto.
Qed.

Theorem hcleanup_G : forall t t', HInvG t -> hcleanup hash t = Ok t' ->
  HInvG t' /\ hbase t' = hbase t /\ (forall k', gkey k' -> klook (kvs (slots t')) k' = klook (kvs (slots t)) k') /\
  (forall k2, is_nil k2 = false -> kabsent (kvs (slots t)) k2 -> kabsent (kvs (slots t')) k2).
Proof.
  intros t t' I H. unfold hcleanup in H. rewrite (hg_len _ I) in H. unfold bind in H.
  destruct (copyItems hash _ (slots t) _ _) as [[items nf]| |] eqn:C; try discriminate. inversion H; subst.
  cbn [slots hbase]. destruct (copy_into_empty t (hbase t) items nf I C) as (A & B & D). auto.
Qed.

End WithHash.
