(* Table/Spec.v — the specification side (S) of C03, written from the Lua 5.4
   manual (§2.1 tables, §3.4.4 equality, §3.4.7 length/border, §6.1 next), not
   from the Go code.  A table is a finite map from keys to non-nil values where
   "any key with value nil is not considered part of the table", float keys
   with an integral value denote the integer key, and key identity is raw
   equality.

   No proofs in this file. *)
From Coq Require Import ZArith NArith List Bool.
From GV Require Import Table.ModelValue.
Import ListNotations.

(* Lua's primitive (raw) equality.  Numbers are compared by mathematical value
   whatever their subtype; strings by content; everything else by identity.
   For closures the manual allows an implementation to treat indistinguishable
   closures as equal; golua does (Closure.Equals), so the spec follows it: the
   requirement of C03 is that key identity AGREES with this equality. *)
Definition lua_eq (v w : value) : bool :=
  match v, w with
  | VNil, VNil => true
  | VBool a, VBool b => Bool.eqb a b
  | VInt a, VInt b => Z.eqb a b
  | VFlt a, VFlt b => feq a b
  | VInt a, VFlt b => match float_to_int b with Some z => Z.eqb z a | None => false end
  | VFlt a, VInt b => match float_to_int a with Some z => Z.eqb z b | None => false end
  | VStr a, VStr b => list_eqb a b
  | VRef k p, VRef k' p' => N.eqb k k' && N.eqb p p'
  | VClo _ c, VClo _ c' => N.eqb c c'
  | _, _ => false
  end.

(* the abstract map as a function (used in theorem statements) *)
Definition amap := value -> value.
Definition amap_empty : amap := fun _ => VNil.
Definition amap_upd (m : amap) (k v : value) : amap := fun k' => if lua_eq k' k then v else m k'.

(* n is a border of m *)
Definition border (m : amap) (n : nat) : Prop :=
  (n = 0 \/ m (VInt (Z.of_nat n)) <> VNil) /\ m (VInt (Z.of_nat (S n))) = VNil.

(* the executable abstract map handed to the oracle: association list, newest first *)
Definition smap := list (value * value).
Definition s_get (m : smap) (k : value) : value :=
  match find (fun p => lua_eq (fst p) k) m with Some p => snd p | None => VNil end.
Definition s_set (m : smap) (k v : value) : smap :=
  let m' := filter (fun p => negb (lua_eq (fst p) k)) m in
  if is_nil v then m' else (norm k, v) :: m'.
Definition s_borderb (m : smap) (n : Z) : bool :=
  ((Z.eqb n 0) || negb (is_nil (s_get m (VInt n)))) && is_nil (s_get m (VInt (n + 1))).
(* all borders: 0 and the positive integer keys are the only candidates *)
Definition s_borders (m : smap) : list Z :=
  filter (s_borderb m)
    (0%Z :: flat_map (fun p => match fst p with VInt z => if (0 <? z)%Z then [z] else [] | _ => [] end) m).

Inductive sop :=
| SSet (k v : value)        (* raw assignment *)
| SAssign (k v : value)     (* t[k]=v on a table with a __newindex function: returns whether the handler is consulted *)
| SReset (k v : value)      (* assignment only if present; returns presence *)
| SGet (k : value)
| SIndex (k : value)        (* t[k] with an __index function: value + whether the handler is consulted *)
| SNext (k nk : value)      (* next(t,k) returned nk: is k present? what is the value at nk? *)
| SLen
| SAll                      (* all live pairs *)
| SEq (a b : value).        (* are a and b raw-equal?  do they denote the same entry of a table? *)
Inductive sres :=
| SRUnit
| SRBool (b : bool)
| SRVal (v : value)
| SRValB (v : value) (b : bool)
| SRBorders (l : list Z)
| SRPairs (l : smap)
| SREq (raweq same : bool).

Definition s_present (m : smap) (k : value) : bool := negb (is_nil (s_get m k)).

Definition s_step (m : smap) (o : sop) : smap * sres :=
  match o with
  | SSet k v => (s_set m k v, SRUnit)
  | SAssign k v => (s_set m k v, SRBool (negb (s_present m k)))   (* consulted iff raw key absent *)
  | SReset k v => if s_present m k then (s_set m k v, SRBool true) else (m, SRBool false)
  | SGet k => (m, SRVal (s_get m k))
  | SIndex k => (m, SRValB (s_get m k) (negb (s_present m k)))
  | SNext k nk => (m, SRValB (s_get m nk) (s_present m k))
  | SLen => (m, SRBorders (s_borders m))
  | SAll => (m, SRPairs m)
  | SEq a b => (m, SREq (lua_eq a b) (negb (is_nil (s_get (s_set [] a (VBool true)) b))))
  end.
