(* Table/Chains.v — the large-mode chain invariant of hashtable.go (comment at l.192-229, DESIGN
   Appendix D.1): (I1) chains are finite simple paths, (I2) all items of a chain have the same primary
   slot, (I3) the head of a chain is in its primary slot, the hasNext/chained flags agree with the
   links, empty slots carry no flags.  It implies that lookups terminate and are complete (HFind),
   and it is preserved by the three cases of insertNewKeyValue.  Any hash function that respects
   Equals. *)
From Coq Require Import ZArith NArith List Bool Arith Lia.
From GV Require Import Table.ModelValue Table.Model Table.Spec Table.ValueProofs Table.Proofs Table.Inv Table.Refine Table.RefineIns.
Import ListNotations.

Definition link (s : slot) : option nat := if shasNext s then Some (snext s) else None.

(* c is a path of slots, each linked to the next one, the last one linked to [nxt] *)
Fixpoint linkedTo (sl : list slot) (c : list nat) (nxt : option nat) : Prop :=
  match c with
  | [] => True
  | a :: r => exists s, nth_error sl a = Some s /\
               link s = match r with [] => nxt | b :: _ => Some b end /\
               linkedTo sl r nxt
  end.

Definition hd_or (l : list nat) (nxt : option nat) : option nat :=
  match l with [] => nxt | b :: _ => Some b end.

Lemma linkedTo_app : forall sl l1 l2 nxt,
  linkedTo sl (l1 ++ l2) nxt <-> linkedTo sl l1 (hd_or l2 nxt) /\ linkedTo sl l2 nxt.
Proof.
  intros sl. induction l1 as [|a l1 IH]; intros l2 nxt; cbn [app linkedTo].
  - tauto.
  - split.
    + intros (s & N & L & R). apply IH in R as (R1 & R2). split; auto. exists s. repeat split; auto.
      destruct l1; cbn in *; auto.
    + intros ((s & N & L & R1) & R2). exists s. repeat split; auto.
      * destruct l1; cbn in *; auto.
      * apply IH. auto.
Qed.

Lemma linkedTo_frame : forall sl sl' c nxt, (forall a, In a c -> nth_error sl' a = nth_error sl a) ->
  linkedTo sl c nxt -> linkedTo sl' c nxt.
Proof.
  intros sl sl'. induction c as [|a r IH]; intros nxt F H; cbn [linkedTo] in *; auto.
  destruct H as (s & N & L & R). exists s. repeat split; auto.
  - rewrite F; auto. left; auto.
  - apply IH; auto. intros b Hb. apply F. right; auto.
Qed.

Section WithHash.
Variable hash : value -> N.
Hypothesis hash_compat : forall a b, wf a = true -> wf b = true -> equals a b = true -> hash a = hash b.

Notation prim := (primary hash).

Lemma primary_le : forall b k, primary hash (2 ^ b - 1) k < 2 ^ b.
Proof.
  intros b k. unfold primary.
  assert (E : N.of_nat (2 ^ b - 1) = N.ones (N.of_nat b)).
  { rewrite N.ones_equiv, Nat2N.inj_sub, Nat2N.inj_pow. cbn. lia. }
  rewrite E, N.land_ones.
  assert (hash k mod 2 ^ N.of_nat b < 2 ^ N.of_nat b)%N by (apply N.mod_lt; apply N.pow_nonzero; lia).
  assert (N.of_nat (2 ^ b) = (2 ^ N.of_nat b)%N) by (rewrite Nat2N.inj_pow; reflexivity).
  lia.
Qed.

(* ---- the invariant: R p = the rest of the chain whose head is slot p ---- *)
Record Good (sl : list slot) (mask : nat) (R : nat -> list nat) : Prop := {
  g_head : forall p s, nth_error sl p = Some s -> isEmpty s = false -> schained s = false ->
     prim mask (skey s) = p /\ NoDup (p :: R p) /\ linkedTo sl (p :: R p) None /\
     forall j, In j (R p) -> exists sj, nth_error sl j = Some sj /\ isEmpty sj = false /\ schained sj = true /\
                                        prim mask (skey sj) = p;
  g_chained : forall j s, nth_error sl j = Some s -> isEmpty s = false -> schained s = true ->
     In j (R (prim mask (skey s))) /\
     exists sp, nth_error sl (prim mask (skey s)) = Some sp /\ isEmpty sp = false /\ schained sp = false;
  g_empty : forall j s, nth_error sl j = Some s -> isEmpty s = true -> shasNext s = false /\ schained s = false
}.

(* chainFind along a linked path returns the first slot whose key Equals k *)
Lemma chainFind_walk : forall sl k c fuel a, linkedTo sl (a :: c) None -> length c < fuel ->
  exists r, chainFind fuel sl k a = Ok r /\
    match r with
    | Some j => In j (a :: c)
    | None => forall j s, In j (a :: c) -> nth_error sl j = Some s -> equals (skey s) k = false
    end.
Proof.
  intros sl k. induction c as [|b c IH]; intros fuel a L F; destruct fuel as [|fuel]; try lia;
    cbn [chainFind]; cbn [linkedTo] in L; destruct L as (s & N & Lk & R); unfold bind; rewrite (getS_nth _ _ _ N).
  - destruct (equals (skey s) k) eqn:E.
    + exists (Some a). split; auto. left; auto.
    + unfold link in Lk. destruct (shasNext s); [discriminate|]. cbn. exists None. split; auto.
      intros j s0 [<-|HF] N0; [congruence|destruct HF].
  - destruct (equals (skey s) k) eqn:E.
    + exists (Some a). split; auto. left; auto.
    + unfold link in Lk. destruct (shasNext s); [|discriminate]. inversion Lk as [Nx]. cbn [negb].
      cbn [length] in F. destruct (IH fuel b R) as (r & Cr & P); [lia|]. rewrite Nx. exists r. split; auto.
      destruct r as [j|].
      * right; auto.
      * intros j s0 [<-|Hj] N0; [congruence|]. eapply P; eauto.
Qed.

Lemma NoDup_bound : forall (l : list nat) n, NoDup l -> (forall x, In x l -> x < n) -> length l <= n.
Proof.
  intros l n ND B. rewrite <- (seq_length n 0). apply NoDup_incl_length; auto.
  intros x Hx. apply in_seq. specialize (B x Hx). lia.
Qed.

Lemma linkedTo_lt : forall sl c nxt a, linkedTo sl c nxt -> In a c -> a < length sl.
Proof.
  intros sl. induction c as [|b r IH]; intros nxt a L H; [destruct H|].
  cbn [linkedTo] in L. destruct L as (s & N & _ & R). destruct H as [<-|H].
  - eapply nth_error_lt; eauto.
  - eauto.
Qed.

(* ---- the chain invariant implies that lookups are complete ---- *)
Theorem Good_HFind : forall sl b R, length sl = 2 ^ b -> smallHashTableSize <= 2 ^ b - 1 ->
  KBase (kvs sl) -> Good sl (2 ^ b - 1) R -> HFind hash sl (2 ^ b - 1).
Proof.
  intros sl b R LEN LARGE KB G k GK.
  set (mask := 2 ^ b - 1) in *. set (i := prim mask k).
  assert (Li : i < length sl) by (rewrite LEN; apply primary_le).
  unfold findSlot. apply Nat.ltb_ge in LARGE. rewrite LARGE. fold i.
  destruct (nth_error sl i) as [si|] eqn:Ni; [|apply nth_error_None in Ni; lia].
  unfold bind. rewrite (getS_nth _ _ _ Ni).
  (* any slot holding a key Equals k is in the chain whose head is slot i *)
  assert (INCH : forall j s, nth_error sl j = Some s -> equals (skey s) k = true ->
             prim mask (skey s) = i /\ isEmpty s = false).
  { intros j s N E. pose proof (kb_wf _ KB _ _ (kvs_nth _ _ _ N)) as W. cbn in W.
    split.
    - unfold i, primary. rewrite (hash_compat (skey s) k); auto. apply GK.
    - exact (occupied_of_equals (skey s, sval s) k GK E). }
  destruct (isEmpty si) eqn:Ei.
  - (* primary slot empty: nothing can be in its chain *)
    destruct (g_empty _ _ _ G _ _ Ni Ei) as (HN & CH). rewrite CH.
    assert (NE : equals (skey si) k = false).
    { unfold isEmpty in Ei. destruct (skey si); try discriminate. apply equals_nil_l. apply GK. }
    cbn [chainFind]. unfold bind. rewrite (getS_nth _ _ _ Ni), NE, HN. cbn. exists None. split; auto.
    intros _ j p Np. apply kvs_nth_inv in Np as (s & N & ->). cbn [fst].
    destruct (equals (skey s) k) eqn:E; auto. exfalso.
    destruct (INCH _ _ N E) as (P & O). destruct (schained s) eqn:C.
    + destruct (g_chained _ _ _ G _ _ N O C) as (_ & sp & Np & Op & _). rewrite P in Np. congruence.
    + destruct (g_head _ _ _ G _ _ N O C) as (P' & _). rewrite P in P'. subst j. congruence.
  - destruct (schained si) eqn:Ci.
    + (* primary slot holds an item of another chain *)
      exists None. split; auto. intros _ j p Np. apply kvs_nth_inv in Np as (s & N & ->). cbn [fst].
      destruct (equals (skey s) k) eqn:E; auto. exfalso.
      destruct (INCH _ _ N E) as (P & O). destruct (schained s) eqn:C.
      * destruct (g_chained _ _ _ G _ _ N O C) as (_ & sp & Np & _ & Cp). rewrite P in Np. congruence.
      * destruct (g_head _ _ _ G _ _ N O C) as (P' & _). rewrite P in P'. subst j. congruence.
    + destruct (g_head _ _ _ G _ _ Ni Ei Ci) as (Pi & ND & LK & RS).
      assert (FU : length (R i) < S (length sl)).
      { inversion ND; subst. assert (length (R i) <= length sl); [|lia].
        apply NoDup_bound; auto. intros x Hx. eapply linkedTo_lt; eauto. right; auto. }
      destruct (chainFind_walk sl k (R i) (S (length sl)) i LK FU) as (r & Cr & P). exists r. split; auto.
      intros ->. intros j p Np. apply kvs_nth_inv in Np as (s & N & ->). cbn [fst].
      destruct (equals (skey s) k) eqn:E; auto. exfalso.
      destruct (INCH _ _ N E) as (Pj & O).
      assert (In j (i :: R i)).
      { destruct (schained s) eqn:C.
        - destruct (g_chained _ _ _ G _ _ N O C) as (IN & _). rewrite Pj in IN. right; auto.
        - destruct (g_head _ _ _ G _ _ N O C) as (P' & _). rewrite Pj in P'. left; auto. }
      rewrite (P j s H N) in E. discriminate.
Qed.

End WithHash.
