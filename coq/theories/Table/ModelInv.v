(* Table/ModelInv.v — the invariant of DESIGN Appendix D.1 as an executable
   boolean, evaluated by the oracle on every state the correspondence reaches.
   [Table/Inv.v] relates it to the propositional invariant used in proofs.
   No proofs in this file. *)
From Coq Require Import ZArith NArith List Bool Arith.
From GV Require Import Table.ModelValue Table.Model.
Import ListNotations.

Section WithHash.
Variable hash : value -> N.

Definition is_pow2 (n : nat) (b : nat) : bool := n =? 2 ^ b.

(* every occupied slot is found at its own index by findSlot *)
Definition findableb (sl : list slot) (mask : nat) : bool :=
  forallb (fun i =>
    match nth_error sl i with
    | Some s => if isEmpty s then true
                else match findSlot hash sl mask (skey s) with Ok (Some j) => j =? i | _ => false end
    | None => false
    end) (seq 0 (length sl)).

(* nextFree: None iff every slot is occupied; otherwise it is the highest empty slot *)
Definition nextfreeb (sl : list slot) (nf : option nat) : bool :=
  match nf with
  | None => forallb (fun s => negb (isEmpty s)) sl
  | Some f => match nth_error sl f with
              | Some s => isEmpty s && forallb (fun s => negb (isEmpty s)) (skipn (S f) sl)
              | None => false
              end
  end.

(* keys: normalised, never NaN; an empty slot holds nothing *)
Definition slotokb (asz : nat) (s : slot) : bool :=
  if isEmpty s then is_nil (sval s) && (snext s =? 0) && negb (shasNext s) && negb (schained s)
  else negb (is_nan (skey s)) && veqb (norm (skey s)) (skey s) && wf (skey s)
       && match skey s with
          | VInt z => is_nil (sval s) || negb ((1 <=? z) && (z <=? Z.of_nat asz))%Z
          | _ => true
          end.

Definition hinvb (asz : nat) (h : option htable) : bool :=
  match h with
  | None => true
  | Some t =>
    is_pow2 (length (slots t)) (hbase t)
    && nextfreeb (slots t) (nextFree t)
    && forallb (slotokb asz) (slots t)
    && findableb (slots t) (hmask t)
    && ((smallHashTableSize <=? hmask t) || forallb (fun s => (snext s =? 0) && negb (shasNext s) && negb (schained s)) (slots t))
  end.

Definition ainvb (a : option array) : bool :=
  match a with
  | None => true
  | Some ar =>
    (alen ar <=? length (avalues ar))
    && ((alen ar =? 0) || negb (is_nil (nth (alen ar - 1) (avalues ar) VNil)))
    && forallb is_nil (skipn (alen ar) (avalues ar))
    && existsb (fun b => N.eqb (N.of_nat (length (avalues ar))) (N.pow 2 (N.of_nat b))) (seq 0 64)
  end.

Definition invb (t : table) : bool := ainvb (apart t) && hinvb (asize (apart t)) (hpart t).
End WithHash.
