(* Table/MigrateGrow.v — mixedTable.grow as a whole (both hash-growth branches and the array-migration branch):
   the table invariant InvG is preserved and the abstract map is unchanged.  Any hash respecting Equals. *)
From Coq Require Import ZArith NArith List Bool Arith Lia.
From GV Require Import Table.ModelValue Table.Model Table.Spec Table.ValueProofs Table.Proofs Table.Inv Table.Refine
  Table.RefineIns Table.RefineTable Table.Chains Table.ChainsIns Table.ChainsInv Table.TableInv Table.Migrate.
Import ListNotations.

(* sl' is sl with the value of every moved slot nil'd *)
Definition vrel (sl sl' : list slot) (n : nat) : Prop :=
  length sl' = length sl /\
  forall i s, nth_error sl i = Some s -> nth_error sl' i = Some (if movedb n s then set_val s VNil else s).

Lemma vrel_inv : forall sl sl' n i s', vrel sl sl' n -> nth_error sl' i = Some s' ->
  exists s, nth_error sl i = Some s /\ s' = if movedb n s then set_val s VNil else s.
Proof.
  intros sl sl' n i s' (L & P) N. destruct (nth_error sl i) as [s|] eqn:E.
  - exists s. split; auto. rewrite (P _ _ E) in N. congruence.
  - apply nth_error_None in E. pose proof (nth_error_lt _ _ _ _ N). lia.
Qed.

Lemma vrel_shape : forall sl sl' n, vrel sl sl' n -> map shape sl = map shape sl'.
Proof.
  intros sl sl' n V. apply list_ext. intros j. rewrite !nth_error_map. destruct (nth_error sl j) as [s|] eqn:E.
  - rewrite (proj2 V _ _ E). cbn. destruct (movedb n s); reflexivity.
  - apply nth_error_None in E. destruct V as (L & _). rewrite <- L in E. apply nth_error_None in E. rewrite E. reflexivity.
Qed.

Lemma kvs_vrel_inv : forall sl sl' n i p, vrel sl sl' n -> nth_error (kvs sl') i = Some p ->
  exists s, nth_error sl i = Some s /\ fst p = skey s /\ snd p = (if movedb n s then VNil else sval s).
Proof.
  intros sl sl' n i p V N. apply kvs_nth_inv in N as (s' & N & ->). destruct (vrel_inv _ _ _ _ _ V N) as (s & Ns & ->).
  exists s. split; auto. destruct (movedb n s); auto.
Qed.

Lemma KBase_vrel : forall sl sl' n, vrel sl sl' n -> KBase (kvs sl) -> KBase (kvs sl').
Proof.
  intros sl sl' n V B. split.
  - intros i p N. destruct (kvs_vrel_inv _ _ _ _ _ V N) as (s & Ns & K & _). rewrite K.
    exact (kb_wf _ B _ _ (kvs_nth _ _ _ Ns)).
  - intros i p N O. destruct (kvs_vrel_inv _ _ _ _ _ V N) as (s & Ns & K & _). rewrite K in *.
    exact (kb_keys _ B _ _ (kvs_nth _ _ _ Ns) O).
  - intros i j p q N N' O O' E. destruct (kvs_vrel_inv _ _ _ _ _ V N) as (s & Ns & K & _).
    destruct (kvs_vrel_inv _ _ _ _ _ V N') as (s2 & Ns2 & K2 & _). rewrite K, K2 in *.
    exact (kb_nodup _ B _ _ _ _ (kvs_nth _ _ _ Ns) (kvs_nth _ _ _ Ns2) O O' E).
Qed.

Lemma klook_vrel : forall sl sl' n k', KBase (kvs sl) -> vrel sl sl' n -> gkey k' ->
  (exists i s, nth_error sl i = Some s /\ equals (skey s) k' = true /\ gkey (skey s) /\ klook (kvs sl) k' = sval s /\
     klook (kvs sl') k' = if movedb n s then VNil else sval s)
  \/ (klook (kvs sl) k' = VNil /\ klook (kvs sl') k' = VNil /\ kabsent (kvs sl) k').
Proof.
  intros sl sl' n k' B V G. pose proof (KBase_vrel _ _ _ V B) as B'.
  destruct (klook_kval (kvs sl) k') as [(i & p & N & E & Vp)|(A & Vn)].
  - left. apply kvs_nth_inv in N as (s & N & ->). cbn [fst snd] in *. exists i, s. split; auto. split; auto.
    split. { apply (kb_keys _ B _ _ (kvs_nth _ _ _ N)). exact (occupied_of_equals (skey s, sval s) k' G E). }
    split; auto. apply kval_klook; auto. left.
    exists i, (if movedb n s then (skey s, VNil) else (skey s, sval s)). split.
    + rewrite (kvs_nth _ _ _ (proj2 V _ _ N)). destruct (movedb n s); reflexivity.
    + destruct (movedb n s); auto.
  - right. split; auto. split; auto. apply kval_klook; auto. right. split; auto.
    intros i p N. destruct (kvs_vrel_inv _ _ _ _ _ V N) as (s & Ns & K & _). rewrite K.
    exact (A _ _ (kvs_nth _ _ _ Ns)).
Qed.

Lemma equals_int_inv : forall kk z, gkey kk -> gkey (VInt z) -> equals kk (VInt z) = true -> kk = VInt z.
Proof.
  intros kk z G Gz E. destruct (match kk with VInt z0 => Z.eqb z0 z | _ => false end) eqn:Q.
  - destruct kk; try discriminate. apply Z.eqb_eq in Q. subst; auto.
  - rewrite equals_norm_int_false in E; auto; try discriminate. intros z0 -> ->. rewrite Z.eqb_refl in Q. discriminate.
Qed.

(* ---------- array.grow ---------- *)
Definition aval (a : option array) (m : nat) : value := match a with None => VNil | Some ar => nth m (avalues ar) VNil end.

Lemma nth_repeat_nil : forall n m, nth m (repeat VNil n) VNil = VNil.
Proof. induction n; destruct m; cbn; auto. Qed.

Lemma agrow_spec : forall a sz, asize a <= sz ->
  length (avalues (agrow a sz)) = sz /\ alen (agrow a sz) = agetLen a /\ forall m, nth m (avalues (agrow a sz)) VNil = aval a m.
Proof.
  intros [ar|] sz L; cbn [agrow asize avalues alen agetLen aval] in *.
  - assert (E : length (avalues ar ++ repeat VNil (sz - length (avalues ar))) = sz) by (rewrite app_length, repeat_length; lia).
    rewrite firstn_all2 by lia. split; auto. split; auto. intros m.
    destruct (Nat.lt_ge_cases m (length (avalues ar))).
    + apply app_nth1; auto.
    + rewrite app_nth2 by auto. rewrite nth_repeat_nil. symmetry. apply nth_overflow; auto.
  - rewrite repeat_length. split; auto. split; auto. intros; apply nth_repeat_nil.
Qed.

Lemma agrow_AInv : forall a sz, asize a <= sz -> AInv a -> AInv (Some (agrow a sz)).
Proof.
  intros a sz L A. destruct (agrow_spec a sz L) as (E1 & E2 & E3). cbn [AInv]. rewrite E1, E2.
  destruct a as [ar|]; cbn [agetLen aval AInv asize] in *.
  - destruct A as (A1 & A2 & A3). split; [lia|]. split.
    + destruct A2; auto. right. rewrite E3. auto.
    + intros j Hj. rewrite E3. auto.
  - split; [lia|]. split; auto.
Qed.

Section WithHash.
Variable hash : value -> N.
Hypothesis hash_compat : forall a b, wf a = true -> wf b = true -> equals a b = true -> hash a = hash b.

Lemma HInvG_vrel : forall t sl' n, HInvG hash t -> vrel (slots t) sl' n -> HInvG hash (mkH sl' (nextFree t) (hbase t)).
Proof.
  intros t sl' n I V. pose proof (vrel_shape _ _ _ V) as Sh. split; cbn [slots nextFree hbase].
  - rewrite (proj1 V). apply (hg_len _ _ I).
  - eapply KBase_vrel; eauto. apply (hg_base _ _ I).
  - eapply nf_ok_shape; [exact Sh|]. apply (hg_nf _ _ I).
  - intros j s' N E. destruct (vrel_inv _ _ _ _ _ V N) as (s & Ns & ->).
    destruct (movedb n s); [reflexivity|]. eapply (hg_emp _ _ I); eauto.
  - intros Lg. destruct (hg_good _ _ I Lg) as (R & G). exists R. eapply Good_shape; [exact Sh|exact G].
Qed.

(* what mixedTable.grow guarantees *)
Definition grow_post (t t' : table) : Prop :=
  InvG hash t' /\ (forall k', gkey k' -> abs t' k' = abs t k') /\
  (exists h', hpart t' = Some h') /\ asize (apart t) <= asize (apart t') /\
  (forall k2, is_nil k2 = false -> (forall h, hpart t = Some h -> kabsent (kvs (slots h)) k2) ->
     forall h', hpart t' = Some h' -> kabsent (kvs (slots h')) k2).

Lemma mgrow_hash_branch : forall t h, InvG hash t -> hgrow hash (hpart t) = Ok h -> grow_post t (mkT (Some h) (apart t)).
Proof.
  intros t h (AI & HI & CR) H. destruct (hgrow_G hash hash_compat _ _ HI H) as (G1 & G2 & G3).
  split; [|split; [|split; [eexists; reflexivity|split; [cbn; lia|]]]].
  - split; [exact AI|]. split; [exact G1|]. intros z R Gz. cbn [hpart habs apart] in *. rewrite G2 by auto. apply CR; auto.
  - intros k' G. unfold abs. cbn [hpart apart habs]. rewrite G2 by auto. reflexivity.
  - intros k2 N A h' E. cbn in E. inversion E; subst. apply G3; auto.
Qed.

Lemma mgrow_array_branch : forall t h sz sl' arr' h',
  InvG hash t -> hpart t = Some h -> asize (apart t) < sz ->
  migrate (slots h) (agrow (apart t) sz) = (sl', arr') ->
  hcleanup hash (mkH sl' (nextFree h) (hbase h)) = Ok h' ->
  grow_post t (mkT (Some h') (Some arr')).
Proof.
  intros t h sz sl' arr' h' (AI & HI & CR) HP LT MG HC. rewrite HP in HI. cbn [HInvGO] in HI.
  destruct (agrow_spec (apart t) sz) as (E1 & E2 & E3); [lia|].
  pose proof (agrow_AInv (apart t) sz ltac:(lia) AI) as AI0.
  destruct (migrate_spec _ _ _ _ MG) as (M1 & M2 & M3 & M4 & M5). cbv zeta in *. rewrite E1 in *.
  assert (V : vrel (slots h) sl' sz) by (split; auto).
  pose proof (HInvG_vrel h sl' sz HI V) as HI1.
  destruct (hcleanup_G hash hash_compat _ _ HI1 HC) as (C1 & C2 & C3 & C4). cbn [slots] in C3, C4.
  pose proof (hg_base _ _ HI) as B.
  assert (RNG : forall z, ainrange (Some arr') z = ((1 <=? z) && (z <=? Z.of_nat sz))%Z) by (intros; cbn [ainrange]; rewrite M1; reflexivity).
  (* a live slot with an integer key of the old array range does not exist *)
  assert (OLD : forall s z, In s (slots h) -> movedb sz s = true -> skey s = VInt z -> ainrange (apart t) z = true -> False).
  { intros s z Is Ms Ks Rz. apply In_nth_error in Is as (i & Ns).
    unfold movedb in Ms. apply andb_true_iff in Ms as (Ms1 & Ms2). apply negb_true_iff in Ms1.
    assert (Gs : gkey (skey s)).
    { apply (kb_keys _ B _ _ (kvs_nth _ _ _ Ns)). cbn [fst]. rewrite Ks. reflexivity. }
    pose proof (CR z Rz ltac:(rewrite <- Ks; exact Gs)) as Q. rewrite HP in Q. cbn [habs] in Q.
    assert (klook (kvs (slots h)) (VInt z) = sval s).
    { apply kval_klook; auto. { rewrite <- Ks; auto. } left. exists i, (skey s, sval s). split; [apply kvs_nth; auto|].
      cbn [fst snd]. split; auto. rewrite <- Ks. apply eq_refl_g; auto. }
    rewrite Q in H. rewrite <- H in Ms1. discriminate. }
  assert (AG : forall z, ainrange (Some arr') z = true -> gkey (VInt z) ->
            nth (Z.to_nat (z - 1)) (avalues arr') VNil = abs t (VInt z) /\ klook (kvs sl') (VInt z) = VNil).
  { intros z Rz Gz. rewrite RNG in Rz. apply andb_true_iff in Rz as (Rz1 & Rz2). apply Z.leb_le in Rz1, Rz2.
    assert (ZE : Z.of_nat (S (Z.to_nat (z - 1))) = z) by lia.
    destruct (klook_vrel _ _ sz (VInt z) B V Gz) as [(i & s & Ns & Es & Gs & L0 & L1)|(L0 & L1 & Ab)].
    - (* a slot holds key z *)
      apply equals_int_inv in Es; auto.
      assert (MV : movedb sz s = negb (is_nil (sval s))).
      { unfold movedb. rewrite Es. replace (1 <=? z)%Z with true by (symmetry; apply Z.leb_le; lia).
        replace (z <=? Z.of_nat sz)%Z with true by (symmetry; apply Z.leb_le; lia). apply andb_true_r. }
      split.
      2:{ rewrite L1, MV. destruct (is_nil (sval s)) eqn:NS; cbn [negb]; auto. apply nil_dec; auto. }
      destruct (M4 (Z.to_nat (z - 1))) as [(s2 & Is2 & Ms2 & Ks2 & Vs2)|(No & Vs)].
      + rewrite ZE in Ks2. unfold abs. destruct (aget (apart t) z) as [v|] eqn:AGt.
        * exfalso. apply aget_some in AGt as (ar & _ & Rt & _). eapply OLD; eauto.
        * rewrite HP. cbn [habs]. rewrite L0, Vs2.
          apply In_nth_error in Is2 as (i2 & Ns2).
          assert (i2 = i).
          { apply (kb_nodup _ B i2 i _ _ (kvs_nth _ _ _ Ns2) (kvs_nth _ _ _ Ns)); cbn [fst]; try (rewrite ?Ks2, ?Es; reflexivity).
            rewrite Ks2, Es. apply eq_refl_g; auto. }
          subst. congruence.
      + rewrite Vs, E3. unfold abs. destruct (aget (apart t) z) as [v|] eqn:AGt.
        * apply aget_some in AGt as (ar & -> & _ & ->). reflexivity.
        * rewrite HP. cbn [habs]. rewrite L0.
          destruct (is_nil (sval s)) eqn:NS.
          -- apply nil_dec in NS. rewrite NS.
             apply aget_none in AGt. rewrite ainrange_eq in AGt.
             destruct (apart t) as [ar|]; cbn [aval]; auto. apply nth_overflow. cbn [asize] in AGt. lia.
          -- exfalso. apply (No s); [eapply nth_error_In; eauto|exact MV|rewrite ZE; auto].
    - split; auto.
      destruct (M4 (Z.to_nat (z - 1))) as [(s2 & Is2 & Ms2 & Ks2 & Vs2)|(No & Vs)].
      + exfalso. apply In_nth_error in Is2 as (i2 & Ns2). rewrite ZE in Ks2.
        pose proof (Ab _ _ (kvs_nth _ _ _ Ns2)) as Q. cbn [fst] in Q. rewrite Ks2, eq_refl_g in Q; auto. discriminate.
      + rewrite Vs, E3. unfold abs. destruct (aget (apart t) z) as [v|] eqn:AGt.
        * apply aget_some in AGt as (ar & -> & _ & ->). reflexivity.
        * rewrite HP. cbn [habs]. rewrite L0. apply aget_none in AGt. rewrite ainrange_eq in AGt.
          destruct (apart t) as [ar|]; cbn [aval]; auto. apply nth_overflow. cbn [asize] in AGt. lia. }
  (* keys outside the new array range read the hash part, where nothing relevant changed *)
  assert (OUT : forall k', gkey k' -> (forall z, k' = VInt z -> ainrange (Some arr') z = false) ->
            klook (kvs sl') k' = klook (kvs (slots h)) k').
  { intros k' G NR. destruct (klook_vrel _ _ sz k' B V G) as [(i & s & Ns & Es & Gs & L0 & L1)|(L0 & L1 & Ab)]; [|congruence].
    rewrite L0, L1. destruct (movedb sz s) eqn:Ms; auto. exfalso.
    unfold movedb in Ms. apply andb_true_iff in Ms as (_ & Ms). destruct (skey s) as [| |j| | | |] eqn:Ks; try discriminate.
    destruct k' as [| |z| | | |]; try (rewrite equals_int_other in Es; [discriminate|intros; discriminate]).
    rewrite equals_int_g in Es; auto. apply Z.eqb_eq in Es. subst j. pose proof (NR z eq_refl) as Q. rewrite RNG in Q.
    rewrite Q in Ms. discriminate. }
  split; [|split; [|split; [eexists; reflexivity|split]]].
  - split; [cbn [apart]; auto|]. split; [exact C1|].
    intros z Rz Gz. cbn [apart hpart habs] in *. rewrite C3 by auto. apply AG; auto.
  - intros k' G. destruct k' as [| |z| | | |]; try (unfold abs; cbn [hpart habs]; rewrite HP; cbn [habs]; rewrite C3 by auto; apply OUT; auto; intros; discriminate).
    unfold abs at 1. cbn [apart hpart]. destruct (aget (Some arr') z) as [v|] eqn:AGn.
    + apply aget_some in AGn as (ar & Ear & Rz & ->). inversion Ear; subst. apply AG; auto.
    + apply aget_none in AGn. cbn [habs]. rewrite C3 by auto. rewrite OUT; auto.
      * unfold abs. destruct (aget (apart t) z) as [v|] eqn:AGt; [|rewrite HP; reflexivity].
        exfalso. apply aget_some in AGt as (ar & Ea & Rt & _). rewrite RNG in AGn. rewrite ainrange_eq in Rt. lia.
      * intros z0 E0. inversion E0; subst; auto.
  - cbn [apart asize]. rewrite M1. lia.
  - intros k2 N A h0 E0. cbn in E0. inversion E0; subst. apply C4; auto.
    intros i p Np. destruct (kvs_vrel_inv _ _ _ _ _ V Np) as (s & Ns & K & _). rewrite K.
    exact (A h HP _ _ (kvs_nth _ _ _ Ns)).
Qed.

Theorem mgrow_G : forall t t', InvG hash t -> mgrow hash t = Ok t' -> grow_post t t'.
Proof.
  intros t t' IG H. unfold mgrow in H. destruct (hclassify (hpart t) (repeat 0 64)) as [c1 idx].
  destruct (idx =? 0).
  - unfold bind in H. destruct (hgrow hash (hpart t)) as [h| |] eqn:HG; try discriminate. inversion H; subst.
    apply mgrow_hash_branch; auto.
  - unfold bind in H. destruct (aclassify (apart t) c1) as [c2| |]; try discriminate.
    destruct (calculateArraySize c2 <=? asize (apart t)) eqn:LE.
    + destruct (hgrow hash (hpart t)) as [h| |] eqn:HG; try discriminate. inversion H; subst.
      apply mgrow_hash_branch; auto.
    + apply Nat.leb_gt in LE. destruct (hpart t) as [h|] eqn:HP; try discriminate.
      destruct (migrate (slots h) (agrow (apart t) (calculateArraySize c2))) as [sl' arr'] eqn:MG.
      destruct (hcleanup hash (mkH sl' (nextFree h) (hbase h))) as [h'| |] eqn:HC; try discriminate. inversion H; subst.
      eapply mgrow_array_branch; eauto.
Qed.

End WithHash.
