(* Table/RefineIns.v — insertNewKeyValue (small mode and the three cases), updateNextFree,
   hashTable.insertNew / setExisting / reset / removeKey against the abstract kv list. *)
From Coq Require Import ZArith NArith List Bool Arith Lia.
From GV Require Import Table.ModelValue Table.Model Table.Spec Table.ValueProofs Table.Proofs Table.Inv Table.Refine.
Import ListNotations.

Section WithHash.
Variable hash : value -> N.

(* what an insertion does to the content: the new pair goes into an empty cell (Put), or into the
   cell of a colliding item which moves to the free cell (Move) *)
Inductive ins_shape (sl : list slot) (k v : value) (nf : option nat) (sl' : list slot) (b : bool) : Prop :=
| IsPut (e : nat) (p0 : kv) :
    nth_error (kvs sl) e = Some p0 -> is_nil (fst p0) = true ->
    kvs sl' = upd (kvs sl) e (k, v) ->
    b = match nf with Some f => e =? f | None => false end -> ins_shape sl k v nf sl' b
| IsMove (f i : nat) (p0 c : kv) :
    nf = Some f -> nth_error (kvs sl) f = Some p0 -> is_nil (fst p0) = true ->
    nth_error (kvs sl) i = Some c -> is_nil (fst c) = false ->
    kvs sl' = upd (upd (kvs sl) f c) i (k, v) -> b = true -> ins_shape sl k v nf sl' b.

Lemma nf_ok_some : forall sl f, nf_ok sl (Some f) ->
  exists s, nth_error sl f = Some s /\ isEmpty s = true /\ f < length sl.
Proof. intros sl f ((s & N & E) & _). exists s. repeat split; auto. eapply nth_error_lt; eauto. Qed.

Lemma getS_inv : forall sl i s, getS sl i = Ok s -> nth_error sl i = Some s.
Proof. exact getS_Ok. Qed.

Theorem insertNew_shape : forall sl mask k v nf sl' b,
  nf_ok sl nf -> insertNew hash sl mask k v nf = Ok (sl', b) -> ins_shape sl k v nf sl' b.
Proof.
  intros sl mask k v nf sl' b NF H. unfold insertNew in H.
  destruct (mask <? smallHashTableSize).
  - (* small *)
    destruct nf as [f|]; [|discriminate]. destruct (nf_ok_some _ _ NF) as (s & N & E & L).
    unfold bind in H. rewrite setS_ok in H by auto. inversion H; subst.
    apply (IsPut _ _ _ _ _ _ f (skey s, sval s)); auto using kvs_nth.
    + rewrite kvs_upd. reflexivity.
    + rewrite Nat.eqb_refl. reflexivity.
  - unfold bind in H. destruct (getS sl (primary hash mask k)) as [cit| |] eqn:GC; try discriminate.
    apply getS_inv in GC. set (i := primary hash mask k) in *.
    pose proof (nth_error_lt _ _ _ _ GC) as Li.
    destruct (isEmpty cit) eqn:EC.
    + (* case 1 *)
      rewrite setS_ok in H by auto. inversion H; subst.
      apply (IsPut _ _ _ _ _ _ i (skey cit, sval cit)); auto using kvs_nth.
      rewrite kvs_upd. reflexivity.
    + destruct (schained cit).
      * (* colliding item chained *)
        destruct (findPred _ sl _ i) as [pidx| |]; try discriminate.
        destruct nf as [f|]; [|discriminate]. destruct (nf_ok_some _ _ NF) as (s & N & E & L).
        rewrite setS_ok in H by auto.
        rewrite setS_ok in H by (rewrite upd_length; auto).
        destruct (getS _ pidx) as [pit| |] eqn:GP; try discriminate. apply getS_inv in GP.
        destruct (setS _ pidx _) as [sl3| |] eqn:S3; try discriminate. apply setS_inv in S3 as (_ & ->).
        inversion H; subst.
        apply (IsMove _ _ _ _ _ _ f i (skey s, sval s) (skey cit, sval cit)); auto using kvs_nth.
        rewrite kvs_upd. cbn [skey sval]. rewrite upd_same.
        -- rewrite !kvs_upd. reflexivity.
        -- apply kvs_nth in GP. exact GP.
      * (* colliding item in primary position *)
        destruct nf as [f|]; [|discriminate]. destruct (nf_ok_some _ _ NF) as (s & N & E & L).
        rewrite setS_ok in H by auto.
        rewrite setS_ok in H by (rewrite upd_length; auto).
        inversion H; subst.
        apply (IsMove _ _ _ _ _ _ f i (skey s, sval s) (skey cit, sval cit)); auto using kvs_nth.
        rewrite !kvs_upd. reflexivity.
Qed.

Lemma isEmpty_kvs : forall sl i s, nth_error sl i = Some s ->
  exists p, nth_error (kvs sl) i = Some p /\ is_nil (fst p) = isEmpty s.
Proof. intros. exists (skey s, sval s). split; auto using kvs_nth. Qed.

Lemma nf_ok_kvs : forall sl nf,
  nf_ok sl nf <->
  match nf with
  | None => forall i p, nth_error (kvs sl) i = Some p -> is_nil (fst p) = false
  | Some f => (exists p, nth_error (kvs sl) f = Some p /\ is_nil (fst p) = true) /\
              forall i p, f < i -> nth_error (kvs sl) i = Some p -> is_nil (fst p) = false
  end.
Proof.
  intros sl nf. destruct nf as [f|]; cbn; split.
  - intros ((s & N & E) & A). split.
    + exists (skey s, sval s). auto using kvs_nth.
    + intros i p Hi N'. apply kvs_nth_inv in N' as (s' & N' & ->). cbn. eapply A; eauto.
  - intros ((p & N & E) & A). split.
    + apply kvs_nth_inv in N as (s & N & ->). eauto.
    + intros i s Hi N'. apply (A i _ Hi (kvs_nth _ _ _ N')).
  - intros A i p N'. apply kvs_nth_inv in N' as (s' & N' & ->). cbn. eapply A; eauto.
  - intros A i s N'. apply (A i _ (kvs_nth _ _ _ N')).
Qed.

(* updateNextFree finds the highest empty slot at or below f *)
Lemma updNF_spec : forall sl f r, f < length sl ->
  (forall i s, f < i -> nth_error sl i = Some s -> isEmpty s = false) ->
  updNF sl f = Ok r -> nf_ok sl r.
Proof.
  intros sl. induction f as [|f IH]; intros r L A H; cbn [updNF] in H; unfold bind in H;
    destruct (getS sl _) as [s| |] eqn:G; try discriminate; apply getS_Ok in G;
    destruct (isEmpty s) eqn:E; inversion H; subst.
  - split; eauto.
  - intros i s0 N. destruct i; [congruence|]. apply (A (S i) s0); [lia|assumption].
  - split; eauto.
  - apply IH; auto; [lia|]. intros i s0 Hi N. destruct (Nat.eq_dec i (S f)); [subst; congruence|].
    apply (A i s0); [lia|assumption].
Qed.

Lemma ins_shape_length : forall sl k v nf sl' b, ins_shape sl k v nf sl' b -> length sl' = length sl.
Proof.
  intros sl k v nf sl' b [e p0 _ _ K _|f i p0 c _ _ _ _ _ K _];
    rewrite <- (kvs_length sl'), K, ?upd_length, kvs_length; reflexivity.
Qed.

Lemma ins_shape_base : forall sl k v nf sl' b, KBase (kvs sl) -> gkey k -> kabsent (kvs sl) k ->
  ins_shape sl k v nf sl' b ->
  KBase (kvs sl') /\ forall k', gkey k' -> klook (kvs sl') k' = if equals k k' then v else klook (kvs sl) k'.
Proof.
  intros sl k v nf sl' b B G A [e p0 N E K _|f i p0 c _ Nf Ef Ni Oc K _]; rewrite K.
  - assert (B' : KBase (upd (kvs sl) e (k, v))) by (eapply KBase_put; eauto).
    split; auto. intros k' G'. apply kval_klook; auto. eapply kval_put; eauto.
  - assert (B' : KBase (upd (upd (kvs sl) f c) i (k, v))) by (eapply KBase_move; eauto).
    split; auto. intros k' G'. apply kval_klook; auto. eapply kval_move; eauto.
Qed.

(* after the insertion (and updateNextFree when asked for) nextFree is right again *)
Lemma ins_shape_nf : forall sl k v nf sl' b nf', nf_ok sl nf -> forall G0 : is_nil k = false,
  ins_shape sl k v nf sl' b ->
  (if b then updateNextFree sl' nf else Ok nf) = Ok nf' -> nf_ok sl' nf'.
Proof.
  intros sl k v nf sl' b nf' NF G0 IS H.
  pose proof (ins_shape_length _ _ _ _ _ _ IS) as LEN.
  apply nf_ok_kvs in NF.
  (* occupancy after the insertion: old occupied cells stay occupied, plus cell e *)
  assert (OCC : exists e, (forall p, nth_error (kvs sl) e = Some p -> is_nil (fst p) = true) /\ e < length sl /\
             (b = match nf with Some f => e =? f | None => false end) /\
             forall j q, nth_error (kvs sl') j = Some q ->
               is_nil (fst q) = if j =? e then false else
                 match nth_error (kvs sl) j with Some p => is_nil (fst p) | None => true end).
  { destruct IS as [e p0 N E K Hb|f i p0 c -> Nf Ef Ni Oc K Hb].
    - exists e. repeat split; auto.
      + intros p Hp. congruence.
      + apply nth_error_lt in N. rewrite kvs_length in N. auto.
      + intros j q Hq. rewrite K, nth_error_upd in Hq. destruct (j =? e).
        * destruct (e <? _); inversion Hq; subst; auto.
        * rewrite Hq. reflexivity.
    - exists f. repeat split; auto.
      + intros p Hp. congruence.
      + apply nth_error_lt in Nf. rewrite kvs_length in Nf. auto.
      + rewrite Nat.eqb_refl. auto.
      + intros j q Hq. rewrite K, !nth_error_upd, upd_length in Hq.
        destruct (Nat.eqb_spec j i), (Nat.eqb_spec j f); subst.
        * exfalso. congruence.
        * destruct (i <? _); inversion Hq; subst; cbn [fst]. rewrite Ni, Oc. apply G0.
        * destruct (f <? _); inversion Hq; subst; auto.
        * rewrite Hq. reflexivity. }
  destruct OCC as (e & Ee & Le & Hb & OCC).
  destruct nf as [f|].
  - destruct NF as ((p & Np & Ep) & Ab).
    destruct (Nat.eqb_spec e f).
    + subst e b. cbn [updateNextFree] in H. eapply updNF_spec; eauto; [lia|].
      intros j s Hj N. pose proof (OCC j _ (kvs_nth _ _ _ N)) as O. cbn [fst] in O.
      unfold isEmpty. rewrite O. destruct (Nat.eqb_spec j f); auto.
      destruct (nth_error (kvs sl) j) as [p'|] eqn:N'; [eapply Ab; eauto|].
      apply nth_error_None in N'. apply nth_error_lt in N. rewrite kvs_length in N'. lia.
    + subst b. inversion H; subst. apply nf_ok_kvs. split.
      * assert (Lf : f < length (kvs sl')) by (rewrite kvs_length, LEN; apply nth_error_lt in Np; rewrite kvs_length in Np; auto).
        destruct (nth_error (kvs sl') f) as [q|] eqn:Nq; [|apply nth_error_None in Nq; lia].
        exists q. split; auto. rewrite (OCC _ _ Nq). apply Nat.eqb_neq in n. rewrite Nat.eqb_sym, n, Np. auto.
      * intros j q Hj Nq. rewrite (OCC _ _ Nq). destruct (j =? e); auto.
        destruct (nth_error (kvs sl) j) as [p'|] eqn:N'; [eapply Ab; eauto|].
        apply nth_error_None in N'. apply nth_error_lt in Nq. rewrite kvs_length in *. lia.
  - (* every slot was occupied: there is no empty cell e *)
    exfalso. assert (Lk : e < length (kvs sl)) by (rewrite kvs_length; auto).
    destruct (nth_error (kvs sl) e) as [p|] eqn:Np; [|apply nth_error_None in Np; lia].
    specialize (Ee p eq_refl). rewrite (NF _ _ Np) in Ee. discriminate.
Qed.

(* ---------- hashTable.insertNew ---------- *)
Theorem hinsertNew_spec : forall t k v t', HInv hash t -> gkey k -> kabsent (kvs (slots t)) k ->
  hinsertNew hash (Some t) k v = Ok t' ->
  length (slots t') = 2 ^ hbase t' /\ hbase t' = hbase t /\ KBase (kvs (slots t')) /\ nf_ok (slots t') (nextFree t') /\
  (forall k', gkey k' -> klook (kvs (slots t')) k' = if equals k k' then v else klook (kvs (slots t)) k') /\
  (hmask t < smallHashTableSize -> HInv hash t').
Proof.
  intros t k v t' I G A H. cbn [hinsertNew] in H. unfold bind in H.
  destruct (insertNew hash (slots t) (hmask t) k v (nextFree t)) as [[sl b]| |] eqn:IN; try discriminate.
  pose proof (insertNew_shape _ _ _ _ _ _ _ (hi_nf _ _ I) IN) as IS.
  pose proof (ins_shape_length _ _ _ _ _ _ IS) as LEN.
  destruct (ins_shape_base _ _ _ _ _ _ (hi_base _ _ I) G A IS) as (B' & L').
  assert (NK : is_nil k = false) by apply G.
  assert (R : exists nf', (if b then updateNextFree sl (nextFree t) else Ok (nextFree t)) = Ok nf' /\ t' = mkH sl nf' (hbase t)).
  { destruct b.
    - destruct (updateNextFree sl (nextFree t)) as [nf'| |]; try discriminate. inversion H. eauto.
    - inversion H. eauto. }
  destruct R as (nf' & R & ->). cbn [slots nextFree hbase].
  pose proof (ins_shape_nf _ _ _ _ _ _ _ (hi_nf _ _ I) NK IS R) as NF'.
  assert (LL : length sl = 2 ^ hbase t) by (rewrite LEN; apply (hi_len _ _ I)).
  split; [exact LL|]. split; [reflexivity|]. split; [exact B'|]. split; [exact NF'|]. split; [exact L'|].
  intros Sm. split; cbn [slots nextFree hbase]; auto.
  apply HFind_small; auto. unfold hmask in *. cbn [hbase]. pose proof (pow2_pos (hbase t)). lia.
Qed.

End WithHash.
