(* Table/Refine.v — the hash part of the model refines the abstract map (kv list of Table/Inv.v):
   lookups, assignments to existing cells, clears, insertion of a new key (all three cases and
   the small-table mode).  Any hash function. *)
From Coq Require Import ZArith NArith List Bool Arith Lia.
From GV Require Import Table.ModelValue Table.Model Table.Spec Table.ValueProofs Table.Proofs Table.Inv.
Import ListNotations.

Definition kvs (sl : list slot) : list kv := map (fun s => (skey s, sval s)) sl.

Lemma kvs_nth : forall sl i s, nth_error sl i = Some s -> nth_error (kvs sl) i = Some (skey s, sval s).
Proof. intros. unfold kvs. erewrite map_nth_error; eauto. Qed.

Lemma kvs_nth_inv : forall sl i p, nth_error (kvs sl) i = Some p ->
  exists s, nth_error sl i = Some s /\ p = (skey s, sval s).
Proof.
  intros sl i p H. unfold kvs in H. rewrite nth_error_map in H.
  destruct (nth_error sl i) as [s|]; cbn in H; [|discriminate]. inversion H. eauto.
Qed.

Lemma map_upd : forall A B (f : A -> B) l i x, map f (upd l i x) = upd (map f l) i (f x).
Proof. induction l; destruct i; cbn; intros; f_equal; auto. Qed.

Lemma kvs_upd : forall sl i s, kvs (upd sl i s) = upd (kvs sl) i (skey s, sval s).
Proof. intros. apply map_upd. Qed.

Lemma kvs_length : forall sl, length (kvs sl) = length sl.
Proof. intros. apply map_length. Qed.

Lemma upd_same : forall A (l : list A) i x, nth_error l i = Some x -> upd l i x = l.
Proof.
  intros. apply list_ext. intros j. rewrite nth_error_upd. destruct (Nat.eqb_spec j i); [|reflexivity].
  subst. pose proof (nth_error_lt _ _ _ _ H) as L. apply Nat.ltb_lt in L. rewrite L. auto.
Qed.

Lemma getS_nth : forall sl i s, nth_error sl i = Some s -> getS sl i = Ok s.
Proof. intros. unfold getS. rewrite H. reflexivity. Qed.

Lemma setS_ok : forall sl i s, i < length sl -> setS sl i s = Ok (upd sl i s).
Proof. intros. unfold setS. apply Nat.ltb_lt in H. rewrite H. reflexivity. Qed.

Lemma setS_inv : forall sl i s sl', setS sl i s = Ok sl' -> i < length sl /\ sl' = upd sl i s.
Proof. unfold setS. intros sl i s sl'. destruct (Nat.ltb_spec i (length sl)); intros HH; inversion HH; auto. Qed.

(* nextFree: None iff every slot is occupied, otherwise the highest empty slot *)
Definition nf_ok (sl : list slot) (nf : option nat) : Prop :=
  match nf with
  | None => forall i s, nth_error sl i = Some s -> isEmpty s = false
  | Some f => (exists s, nth_error sl f = Some s /\ isEmpty s = true) /\
              forall i s, f < i -> nth_error sl i = Some s -> isEmpty s = false
  end.

Section WithHash.
Variable hash : value -> N.

(* ---------- findSlot depends on the shape only ---------- *)
Lemma shape_nth : forall sl sl' i, map shape sl = map shape sl' ->
  match nth_error sl i, nth_error sl' i with
  | Some s, Some s' => shape s = shape s'
  | None, None => True
  | _, _ => False
  end.
Proof.
  intros sl sl' i H. assert (E : nth_error (map shape sl) i = nth_error (map shape sl') i) by congruence.
  rewrite !nth_error_map in E. destruct (nth_error sl i), (nth_error sl' i); cbn in E; try discriminate; auto.
  congruence.
Qed.

Lemma shape_fields : forall s s', shape s = shape s' ->
  skey s = skey s' /\ snext s = snext s' /\ shasNext s = shasNext s' /\ schained s = schained s'.
Proof. unfold shape. intros s s' H. inversion H. auto. Qed.

Lemma scanDown_shape : forall sl sl' k j, map shape sl = map shape sl' -> scanDown sl k j = scanDown sl' k j.
Proof.
  intros sl sl' k j H. induction j as [|j IH]; cbn [scanDown]; unfold bind, getS.
  - pose proof (shape_nth sl sl' 0 H) as P.
    destruct (nth_error sl 0) as [s|], (nth_error sl' 0) as [s'|]; try contradiction; auto.
    apply shape_fields in P as (K & _). rewrite K. reflexivity.
  - pose proof (shape_nth sl sl' (S j) H) as P.
    destruct (nth_error sl (S j)) as [s|], (nth_error sl' (S j)) as [s'|]; try contradiction; auto.
    apply shape_fields in P as (K & _). rewrite K. destruct (equals (skey s') k); auto.
Qed.

Lemma chainFind_shape : forall fuel sl sl' k i, map shape sl = map shape sl' -> chainFind fuel sl k i = chainFind fuel sl' k i.
Proof.
  induction fuel as [|f IH]; intros sl sl' k i H; cbn [chainFind]; auto.
  unfold bind, getS. pose proof (shape_nth sl sl' i H) as P.
  destruct (nth_error sl i) as [s|], (nth_error sl' i) as [s'|]; try contradiction; auto.
  apply shape_fields in P as (K & Nx & Hn & _). rewrite K, Hn, Nx. destruct (equals (skey s') k); auto.
  destruct (negb (shasNext s')); auto.
Qed.

Lemma findSlot_shape : forall sl sl' mask k, map shape sl = map shape sl' ->
  findSlot hash sl mask k = findSlot hash sl' mask k.
Proof.
  intros sl sl' mask k H. unfold findSlot. destruct (mask <? smallHashTableSize).
  - apply scanDown_shape; auto.
  - unfold bind, getS. pose proof (shape_nth sl sl' (primary hash mask k) H) as P.
    destruct (nth_error sl _) as [s|], (nth_error sl' _) as [s'|]; try contradiction; auto.
    apply shape_fields in P as (_ & _ & _ & C). rewrite C. destruct (schained s'); auto.
    assert (length sl = length sl') by (rewrite <- (map_length shape sl), H, map_length; auto).
    rewrite H0. apply chainFind_shape; auto.
Qed.

Lemma shape_keys_kabsent : forall sl sl' k, map shape sl = map shape sl' -> kabsent (kvs sl) k -> kabsent (kvs sl') k.
Proof.
  intros sl sl' k H A i p N. apply kvs_nth_inv in N as (s' & N' & ->). cbn [fst].
  pose proof (shape_nth sl sl' i H) as P. rewrite N' in P. destruct (nth_error sl i) as [s|] eqn:N0; [|contradiction].
  apply shape_fields in P as (K & _). rewrite <- K. apply (A i _ (kvs_nth _ _ _ N0)).
Qed.

(* ---------- lookups terminate and are complete ---------- *)
Definition HFind (sl : list slot) (mask : nat) : Prop :=
  forall k, gkey k -> exists r, findSlot hash sl mask k = Ok r /\ (r = None -> kabsent (kvs sl) k).

Lemma HFind_shape : forall sl sl' mask, map shape sl = map shape sl' -> HFind sl mask -> HFind sl' mask.
Proof.
  intros sl sl' mask H F k G. destruct (F k G) as (r & E & A). exists r. split.
  - rewrite <- (findSlot_shape sl sl'); auto.
  - intros ->. eapply shape_keys_kabsent; eauto.
Qed.

(* in the small-table mode lookups scan every slot: complete whatever the state *)
Lemma scanDown_complete : forall sl k j, j < length sl ->
  exists r, scanDown sl k j = Ok r /\
    (r = None -> forall i s, i <= j -> nth_error sl i = Some s -> equals (skey s) k = false).
Proof.
  intros sl k. induction j as [|j IH]; intros L; cbn [scanDown]; unfold bind, getS;
    destruct (nth_error sl _) as [s|] eqn:N; try (apply nth_error_None in N; lia).
  - destruct (equals (skey s) k) eqn:E; eexists; split; eauto; try discriminate.
    intros _ i s0 Hi N0. assert (i = 0) by lia. subst. congruence.
  - destruct (equals (skey s) k) eqn:E.
    + eexists; split; eauto. discriminate.
    + destruct IH as (r & R & A); [lia|]. exists r. split; auto. intros -> i s0 Hi N0.
      destruct (Nat.eq_dec i (S j)); [subst; congruence|]. apply (A eq_refl i s0); [lia|assumption].
Qed.

Lemma HFind_small : forall sl mask, mask < smallHashTableSize -> length sl = S mask -> HFind sl mask.
Proof.
  intros sl mask Sm L k G. unfold findSlot. apply Nat.ltb_lt in Sm. rewrite Sm.
  assert (Lm : mask < length sl) by lia.
  destruct (scanDown_complete sl k mask Lm) as (r & R & A). exists r. split; auto.
  intros -> i p N. apply kvs_nth_inv in N as (s & N & ->). cbn [fst]. apply (A eq_refl i s); [|assumption].
  apply nth_error_lt in N. lia.
Qed.

(* ---------- the invariant of the hash part ---------- *)
Record HInv (t : htable) : Prop := {
  hi_len : length (slots t) = 2 ^ hbase t;
  hi_base : KBase (kvs (slots t));
  hi_nf : nf_ok (slots t) (nextFree t);
  hi_find : HFind (slots t) (hmask t)
}.

Definition habs (h : option htable) (k : value) : value :=
  match h with None => VNil | Some t => klook (kvs (slots t)) k end.

Definition HInvO (h : option htable) : Prop := match h with None => True | Some t => HInv t end.

Lemma pow2_pos : forall b, 1 <= 2 ^ b.
Proof. intros. pose proof (Nat.pow_nonzero 2 b). lia. Qed.

Lemma hmask_len : forall t, HInv t -> length (slots t) = S (hmask t).
Proof. intros t I. rewrite (hi_len _ I). unfold hmask. pose proof (pow2_pos (hbase t)). lia. Qed.

Lemma findSlot_spec : forall t k, HInv t -> gkey k ->
  exists r, findSlot hash (slots t) (hmask t) k = Ok r /\
    match r with
    | Some i => exists s, nth_error (slots t) i = Some s /\ equals (skey s) k = true
    | None => kabsent (kvs (slots t)) k
    end.
Proof.
  intros t k I G. destruct (hi_find _ I k G) as (r & E & A). exists r. split; [exact E|].
  destruct r as [i|]; [|auto]. eapply findSlot_sound; eauto.
Qed.

Theorem hfind_refines : forall h k, HInvO h -> gkey k -> hfind hash h k = Ok (habs h k).
Proof.
  intros [t|] k I G; [|reflexivity]. cbn in I. destruct (findSlot_spec t k I G) as (r & E & S).
  cbn [hfind habs]. unfold bind. rewrite E. destruct r as [i|].
  - destruct S as (s & N & Q). rewrite (getS_nth _ _ _ N). f_equal. symmetry.
    apply kval_klook; auto using (hi_base _ I). left. exists i, (skey s, sval s). auto using kvs_nth.
  - f_equal. symmetry. apply kval_klook; auto using (hi_base _ I). right. auto.
Qed.

(* ---------- assignment to / clearing of the slot of an existing key ---------- *)
Lemma setval_shape : forall sl i s v, nth_error sl i = Some s -> map shape (upd sl i (set_val s v)) = map shape sl.
Proof. intros. eapply map_upd_same; eauto. Qed.

Lemma nf_ok_shape : forall sl sl' nf, map shape sl = map shape sl' -> nf_ok sl nf -> nf_ok sl' nf.
Proof.
  intros sl sl' nf H.
  assert (K : forall i s', nth_error sl' i = Some s' -> exists s, nth_error sl i = Some s /\ isEmpty s = isEmpty s').
  { intros i s' N. pose proof (shape_nth sl sl' i H) as P. rewrite N in P.
    destruct (nth_error sl i) as [s|]; [|contradiction]. apply shape_fields in P as (K & _).
    exists s. unfold isEmpty. rewrite K. auto. }
  assert (K' : forall i s, nth_error sl i = Some s -> exists s', nth_error sl' i = Some s' /\ isEmpty s = isEmpty s').
  { intros i s N. pose proof (shape_nth sl sl' i H) as P. rewrite N in P.
    destruct (nth_error sl' i) as [s'|]; [|contradiction]. apply shape_fields in P as (K0 & _).
    exists s'. unfold isEmpty. rewrite K0. auto. }
  destruct nf as [f|]; cbn.
  - intros ((s & N & E) & A). split.
    + destruct (K' _ _ N) as (s' & N' & E'). exists s'. split; congruence.
    + intros i s' Hi N'. destruct (K _ _ N') as (s0 & N0 & E0). rewrite <- E0. eauto.
  - intros A i s' N'. destruct (K _ _ N') as (s0 & N0 & E0). rewrite <- E0. eauto.
Qed.

Lemma HInv_setval : forall t i s v, HInv t -> nth_error (slots t) i = Some s ->
  HInv (mkH (upd (slots t) i (set_val s v)) (nextFree t) (hbase t)).
Proof.
  intros t i s v I N. pose proof (setval_shape _ _ _ v N) as Sh. split; cbn [slots nextFree hbase].
  - rewrite upd_length. apply (hi_len _ I).
  - rewrite kvs_upd. cbn [set_val skey sval]. apply (KBase_setval _ i (skey s, sval s) v (hi_base _ I)). apply kvs_nth; auto.
  - eapply nf_ok_shape; [symmetry; exact Sh|]. apply (hi_nf _ I).
  - eapply HFind_shape; [symmetry; exact Sh|]. apply (hi_find _ I).
Qed.

Lemma habs_setval : forall t i s v k', HInv t -> nth_error (slots t) i = Some s -> isEmpty s = false -> gkey k' ->
  klook (kvs (upd (slots t) i (set_val s v))) k' = if equals (skey s) k' then v else klook (kvs (slots t)) k'.
Proof.
  intros t i s v k' I N O G. pose proof (HInv_setval t i s v I N) as I'.
  apply kval_klook; auto. { apply (hi_base _ I'). }
  rewrite kvs_upd. cbn [set_val skey sval].
  apply (kval_setval _ i (skey s, sval s) v k' (hi_base _ I)); auto using kvs_nth.
Qed.

End WithHash.
