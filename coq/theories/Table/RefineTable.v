(* Table/RefineTable.v — mixedTable / Table level: the invariant Inv, the abstraction function abs,
   refinement of Get, Reset (assignment to an existing field, clears), and the border theorem for Len. *)
From Coq Require Import ZArith NArith List Bool Arith Lia.
From GV Require Import Table.ModelValue Table.Model Table.Spec Table.ValueProofs Table.Proofs Table.Inv Table.Refine Table.RefineIns.
Import ListNotations.

(* array part: len is the index of the last non-nil value *)
Definition AInv (a : option array) : Prop :=
  match a with
  | None => True
  | Some ar => alen ar <= length (avalues ar) /\
               (alen ar = 0 \/ nth (alen ar - 1) (avalues ar) VNil <> VNil) /\
               forall j, alen ar <= j -> nth j (avalues ar) VNil = VNil
  end.

Lemma nth_upd : forall (l : list value) i x j, i < length l -> nth j (upd l i x) VNil = if j =? i then x else nth j l VNil.
Proof.
  intros l i x j L. pose proof (nth_error_upd _ l i x j) as E. apply Nat.ltb_lt in L.
  destruct (Nat.eqb_spec j i).
  - subst. rewrite L in E. apply nth_error_nth. exact E.
  - destruct (nth_error l j) as [y|] eqn:N.
    + rewrite (nth_error_nth _ _ _ N). apply nth_error_nth. congruence.
    + rewrite nth_overflow; [rewrite nth_overflow; auto|]. * apply nth_error_None; auto. * rewrite upd_length. apply nth_error_None; auto.
Qed.

Lemma htable_eta : forall t, mkH (slots t) (nextFree t) (hbase t) = t.
Proof. destruct t; reflexivity. Qed.

Section WithHash.
Variable hash : value -> N.

Definition Inv (t : table) : Prop := AInv (apart t) /\ HInvO hash (hpart t).

(* the abstract map of a table, on normalised keys *)
Definition abs (t : table) (k : value) : value :=
  match k with
  | VInt z => match aget (apart t) z with Some v => v | None => habs (hpart t) k end
  | _ => habs (hpart t) k
  end.

Lemma norm_cases : forall k, gkey (norm k) ->
  (exists i, toIntNoString k = Some i /\ norm k = VInt i) \/ (toIntNoString k = None /\ norm k = k /\ forall z, k <> VInt z).
Proof.
  intros k G. unfold norm in *. destruct (toIntNoString k) eqn:E; [left; eauto|right].
  repeat split; auto. intros z ->. discriminate.
Qed.

(* ---- Get ---- *)
Theorem mget_refines : forall t k, Inv t -> gkey (norm k) -> mget hash t k = Ok (abs t (norm k)).
Proof.
  intros t k (AI & HI) G. unfold mget. destruct (norm_cases k G) as [(i & E & N)|(E & N & NI)]; rewrite E, N in *.
  - cbn [abs]. destruct (aget (apart t) i); [reflexivity|]. apply hfind_refines; auto.
  - rewrite hfind_refines by auto. f_equal. destruct k; try reflexivity. exfalso. eapply NI; eauto.
Qed.

(* ---- Reset / clear at the hash level ---- *)
Lemma hreset_spec : forall h k v h' b, HInvO hash h -> gkey k ->
  hreset hash h k v = Ok (h', b) ->
  HInvO hash h' /\ b = negb (is_nil (habs h k)) /\
  forall k', gkey k' -> habs h' k' = if b && equals k k' then v else habs h k'.
Proof.
  intros [t|] k v h' b I G H; cbn [hreset] in H.
  2:{ inversion H; subst. cbn. auto. }
  cbn in I. unfold bind, resetKeyValue, bind in H.
  destruct (findSlot_spec hash t k I G) as (r & E & S). rewrite E in H.
  destruct r as [i|].
  - destruct S as (s & N & Q). rewrite (getS_nth _ _ _ N) in H.
    assert (O : isEmpty s = false) by exact (occupied_of_equals (skey s, sval s) k G Q).
    assert (LK : habs (Some t) k = sval s).
    { cbn [habs]. apply kval_klook; auto using (hi_base _ _ I). left. exists i, (skey s, sval s). auto using kvs_nth. }
    destruct (negb (is_nil (sval s))) eqn:Lv.
    + rewrite setS_ok in H by (eapply nth_error_lt; eauto). inversion H; subst. split; [|split].
      * cbn. apply HInv_setval; auto.
      * rewrite LK. auto.
      * intros k' G'. cbn [habs slots andb]. rewrite (habs_setval hash t i s v k' I N O G').
        destruct (equals k k') eqn:EK, (equals (skey s) k') eqn:ES; auto.
        -- pose proof (hi_base _ _ I) as B. pose proof (kb_wf _ B _ _ (kvs_nth _ _ _ N)) as Ws. cbn in Ws.
           assert (equals (skey s) k' = true) by exact (eq_trans_w (skey s) k k' Ws (proj1 G) (proj1 G') Q EK). congruence.
        -- pose proof (hi_base _ _ I) as B. pose proof (kb_wf _ B _ _ (kvs_nth _ _ _ N)) as Ws. cbn in Ws.
           assert (equals k k' = true).
           { apply (eq_trans_w k (skey s) k' (proj1 G) Ws (proj1 G')); auto. rewrite eq_sym_w; auto. apply G. }
           congruence.
    + inversion H; subst. rewrite htable_eta. split; [exact I|]. split; [rewrite LK; auto|]. intros. reflexivity.
  - inversion H; subst. rewrite htable_eta. split; [exact I|]. split.
    + cbn [habs]. replace (klook (kvs (slots t)) k) with VNil; auto. symmetry.
      apply kval_klook; auto using (hi_base _ _ I). right. auto.
    + intros. reflexivity.
Qed.

Lemma hremove_spec : forall h k h' b, HInvO hash h -> gkey k ->
  hremove hash h k = Ok (h', b) ->
  HInvO hash h' /\ b = negb (is_nil (habs h k)) /\
  forall k', gkey k' -> habs h' k' = if equals k k' then VNil else habs h k'.
Proof.
  intros [t|] k h' b I G H; cbn [hremove] in H.
  2:{ inversion H; subst. cbn. repeat split; auto. intros. destruct (equals k k'); auto. }
  cbn in I. unfold bind, removeKeySlots, bind in H.
  destruct (findSlot_spec hash t k I G) as (r & E & S). rewrite E in H.
  destruct r as [i|].
  - destruct S as (s & N & Q). rewrite (getS_nth _ _ _ N) in H.
    assert (O : isEmpty s = false) by exact (occupied_of_equals (skey s, sval s) k G Q).
    assert (LK : habs (Some t) k = sval s).
    { cbn [habs]. apply kval_klook; auto using (hi_base _ _ I). left. exists i, (skey s, sval s). auto using kvs_nth. }
    rewrite setS_ok in H by (eapply nth_error_lt; eauto). inversion H; subst. split; [|split].
    + cbn. apply HInv_setval; auto.
    + rewrite LK. auto.
    + intros k' G'. cbn [habs slots]. rewrite (habs_setval hash t i s VNil k' I N O G').
      pose proof (hi_base _ _ I) as B. pose proof (kb_wf _ B _ _ (kvs_nth _ _ _ N)) as Ws. cbn in Ws.
      destruct (equals k k') eqn:EK, (equals (skey s) k') eqn:ES; auto.
      * assert (equals (skey s) k' = true) by exact (eq_trans_w (skey s) k k' Ws (proj1 G) (proj1 G') Q EK). congruence.
      * assert (equals k k' = true).
        { apply (eq_trans_w k (skey s) k' (proj1 G) Ws (proj1 G')); auto. rewrite eq_sym_w; auto. apply G. }
        congruence.
  - inversion H; subst. rewrite htable_eta. split; [exact I|]. split.
    + cbn [habs]. replace (klook (kvs (slots t)) k) with VNil; auto. symmetry.
      apply kval_klook; auto using (hi_base _ _ I). right. auto.
    + intros k' G'. destruct (equals k k') eqn:EK; auto. cbn [habs].
      apply kval_klook; auto using (hi_base _ _ I). right. split; auto.
      intros j p Np. pose proof (hi_base _ _ I) as B. pose proof (kb_wf _ B _ _ Np) as Wp.
      destruct (equals (fst p) k') eqn:EP; auto.
      assert (equals (fst p) k = true).
      { apply (eq_trans_w (fst p) k' k Wp (proj1 G') (proj1 G)); auto. rewrite eq_sym_w; auto; try apply G; apply G'. }
      rewrite (S _ _ Np) in H0. discriminate.
Qed.


(* ---- array part ---- *)
Lemma shrinkLen_spec : forall vs l, let l' := shrinkLen vs l in
  l' <= l /\ (l' = 0 \/ nth (l' - 1) vs VNil <> VNil) /\ forall j, l' <= j -> j < l -> nth j vs VNil = VNil.
Proof.
  intros vs. induction l as [|l IH]; cbn [shrinkLen].
  - repeat split; auto. intros; lia.
  - destruct (is_nil (nth l vs VNil)) eqn:E.
    + destruct IH as (A & B & C). repeat split; auto. intros j H1 H2.
      destruct (Nat.eq_dec j l); [subst; destruct (nth l vs VNil); auto; discriminate|]. apply C; lia.
    + repeat split; auto.
      * right. replace (S l - 1) with l by lia. intros Q. rewrite Q in E. discriminate.
      * intros; lia.
Qed.

Lemma ainrange_idx : forall ar i, ainrange (Some ar) i = true ->
  Z.to_nat (i - 1) < length (avalues ar) /\ Z.to_nat i = S (Z.to_nat (i - 1)) /\ (1 <= i)%Z.
Proof. intros ar i H. cbn in H. apply andb_true_iff in H as [A B]. apply Z.leb_le in A, B. lia. Qed.

Lemma aget_some : forall a i v, aget a i = Some v ->
  exists ar, a = Some ar /\ ainrange a i = true /\ v = nth (Z.to_nat (i - 1)) (avalues ar) VNil.
Proof. intros [ar|] i v H; cbn [aget] in H; [|discriminate]. destruct (ainrange (Some ar) i) eqn:R; inversion H. eauto. Qed.

Lemma aget_none : forall a i, aget a i = None -> ainrange a i = false.
Proof. intros [ar|] i H; cbn [aget] in H; auto. destruct (ainrange (Some ar) i); auto; discriminate. Qed.

Lemma nil_dec : forall v, is_nil v = true <-> v = VNil.
Proof. destruct v; cbn; split; congruence. Qed.

Lemma equals_int_g : forall i z, gkey (VInt i) -> gkey (VInt z) -> equals (VInt i) (VInt z) = Z.eqb i z.
Proof. intros i z G G'. apply equals_int; [apply G|apply G']. Qed.

Lemma equals_int_other : forall i k', (forall z, k' <> VInt z) -> equals (VInt i) k' = false.
Proof. intros i k' H. apply equals_tag. destruct k'; cbn [tag]; try lia. exfalso. eapply H; eauto. Qed.

Lemma habs_equals : forall h k k', HInvO hash h -> gkey k -> gkey k' -> equals k k' = true -> habs h k' = habs h k.
Proof.
  intros [ht|] k k' HI G G' EQ; cbn [habs]; auto. cbn in HI.
  apply kval_klook; auto using (hi_base _ _ HI).
  destruct (klook_kval (kvs (slots ht)) k) as [(j & p & Np & Ep & Vp)|(Ab & Vn)].
  - left. exists j, p. repeat split; auto. pose proof (kb_wf _ (hi_base _ _ HI) _ _ Np).
    apply (eq_trans_w (fst p) k k'); auto; try apply G; apply G'.
  - right. split; auto. intros j p Np. pose proof (kb_wf _ (hi_base _ _ HI) _ _ Np) as Wp.
    destruct (equals (fst p) k') eqn:EP; auto.
    assert (equals (fst p) k = true).
    { apply (eq_trans_w (fst p) k' k); auto; try apply G; try apply G'. rewrite eq_sym_w; auto; try apply G; apply G'. }
    rewrite (Ab _ _ Np) in H. discriminate.
Qed.

(* ---- Reset (assignment to an existing field with v <> nil, or clear with v = nil) ---- *)
Theorem treset_refines : forall t k v t' b, Inv t -> gkey (norm k) ->
  treset hash t k v = Ok (t', b) ->
  Inv t' /\ b = negb (is_nil (abs t (norm k))) /\
  forall k', gkey k' -> abs t' k' = if b && equals (norm k) k' then v else abs t k'.
Proof.
  intros t k v t' b (AI & HI) G H. unfold treset in H.
  destruct (norm_cases k G) as [(i & E & N)|(E & N & NI)]; rewrite N in *.
  - (* integer key *)
    assert (HASH : forall h' bb, (if is_nil v then hremove hash (hpart t) (VInt i) else hreset hash (hpart t) (VInt i) v) = Ok (h', bb) ->
              ainrange (apart t) i = false -> t' = mkT h' (apart t) -> b = bb ->
              Inv t' /\ b = negb (is_nil (abs t (VInt i))) /\
              forall k', gkey k' -> abs t' k' = if b && equals (VInt i) k' then v else abs t k').
    { intros h' bb HH R -> ->.
      assert (AG : aget (apart t) i = None) by (destruct (apart t); cbn [aget]; auto; rewrite R; auto).
      assert (SP : HInvO hash h' /\ bb = negb (is_nil (habs (hpart t) (VInt i))) /\
                   forall k', gkey k' -> habs h' k' = if bb && equals (VInt i) k' then v else habs (hpart t) k').
      { destruct (is_nil v) eqn:NV.
        - apply nil_dec in NV. subst v. destruct (hremove_spec _ _ _ _ HI G HH) as (I' & B' & L').
          repeat split; auto. intros k' G'. rewrite (L' k' G'). destruct (equals (VInt i) k') eqn:EQ; [|rewrite andb_false_r; auto].
          rewrite andb_true_r. destruct bb; auto.
          (* the key was absent: its value was already nil *)
          symmetry in B'. apply negb_false_iff, nil_dec in B'.
          assert (habs (hpart t) k' = habs (hpart t) (VInt i)).
          { destruct (hpart t) as [ht|]; cbn [habs]; auto. cbn in HI.
            apply kval_klook; auto using (hi_base _ _ HI).
            destruct (klook_kval (kvs (slots ht)) (VInt i)) as [(j & p & Np & Ep & Vp)|(Ab & Vn)].
            - left. exists j, p. repeat split; auto. pose proof (kb_wf _ (hi_base _ _ HI) _ _ Np).
              apply (eq_trans_w (fst p) (VInt i) k'); auto; try apply G; apply G'.
            - right. split; auto. intros j p Np. pose proof (kb_wf _ (hi_base _ _ HI) _ _ Np) as Wp.
              destruct (equals (fst p) k') eqn:EP; auto.
              assert (equals (fst p) (VInt i) = true).
              { apply (eq_trans_w (fst p) k' (VInt i)); auto; try apply G; try apply G'. rewrite eq_sym_w; auto; try apply G; apply G'. }
              rewrite (Ab _ _ Np) in H0. discriminate. }
          congruence.
        - apply (hreset_spec _ _ _ _ _ HI G HH). }
      destruct SP as (I' & B' & L'). split; [split; auto|]. split.
      - cbn [abs]. rewrite AG. exact B'.
      - intros k' G'. destruct k' as [| | z | | | |]; cbn [abs apart hpart]; try apply (L' _ G').
        destruct (aget (apart t) z) eqn:AZ; [|apply (L' _ G')].
        apply aget_some in AZ as (ar & _ & RZ & _).
        rewrite (equals_int_g i z G G'). destruct (Z.eqb_spec i z); [subst; congruence|]. rewrite andb_false_r. reflexivity. }
    destruct (is_nil v) eqn:NV.
    + unfold mremove in H. rewrite E in H. destruct (apart t) as [ar|] eqn:AP.
      2:{ cbn [aremove] in H. unfold bind in H. destruct (hremove hash (hpart t) (VInt i)) as [[h' bb]| |] eqn:HR; try discriminate.
          inversion H; subst. eapply HASH; eauto. }
      cbn [aremove] in H. destruct (ainrange (Some ar) i) eqn:R.
      2:{ unfold bind in H. destruct (hremove hash (hpart t) (VInt i)) as [[h' bb]| |] eqn:HR; try discriminate.
          inversion H; subst. eapply HASH; eauto. }
      apply nil_dec in NV. subst v.
      destruct (ainrange_idx _ _ R) as (Lx & Sx & P1). set (x := Z.to_nat (i - 1)) in *.
      destruct AI as (A1 & A2 & A3).
      assert (ABS : abs t (VInt i) = nth x (avalues ar) VNil) by (cbn [abs]; rewrite AP; cbn [aget]; rewrite R; reflexivity).
      destruct ((i <=? Z.of_nat (alen ar))%Z && negb (is_nil (nth x (avalues ar) VNil))) eqn:WS.
      * apply andb_true_iff in WS as [W1 W2]. apply Z.leb_le in W1. injection H as Ht Hb; subst t' b; clear HASH. split; [split|split].
        -- cbn [apart AInv]. cbn [avalues alen]. rewrite upd_length.
           destruct (Nat.eqb_spec (alen ar) (Z.to_nat i)).
           ++ pose proof (shrinkLen_spec (upd (avalues ar) x VNil) (Z.to_nat i)) as (S1 & S2 & S3). cbv zeta in *.
              split; [lia|]. split; [exact S2|]. intros j Hj. destruct (Nat.lt_ge_cases j (Z.to_nat i)); [apply S3; auto|].
              rewrite nth_upd by auto. destruct (j =? x); auto. apply A3. lia.
           ++ split; [auto|]. split.
              ** right. destruct A2 as [Z0|NZ]; [lia|]. rewrite nth_upd by auto.
                 destruct (Nat.eqb_spec (alen ar - 1) x); [lia|auto].
              ** intros j Hj. rewrite nth_upd by auto. destruct (j =? x); auto.
        -- exact HI.
        -- rewrite ABS. rewrite W2. reflexivity.
        -- intros k' G'. cbn [andb]. destruct k' as [| | z | | | |]; cbn [abs apart hpart];
             try (rewrite equals_int_other by (intros; discriminate); reflexivity).
           rewrite (equals_int_g i z G G'). rewrite AP. cbn [aget avalues]. 
           assert (RR : ainrange (Some {| avalues := upd (avalues ar) x VNil; alen := if alen ar =? Z.to_nat i then shrinkLen (upd (avalues ar) x VNil) (Z.to_nat i) else alen ar |}) z = ainrange (Some ar) z)
             by (cbn [ainrange avalues]; rewrite upd_length; reflexivity).
           rewrite RR. destruct (ainrange (Some ar) z) eqn:RZ.
           ++ rewrite nth_upd by auto. destruct (Z.eqb_spec i z).
              ** subst. rewrite Nat.eqb_refl. reflexivity.
              ** destruct (ainrange_idx _ _ RZ) as (? & ? & ?). destruct (Nat.eqb_spec (Z.to_nat (z - 1)) x); [lia|reflexivity].
           ++ destruct (Z.eqb_spec i z); [subst; congruence|reflexivity].
      * injection H as Ht Hb; subst t' b; clear HASH. split; [split; [cbn [apart AInv]; auto|exact HI]|]. split.
        -- rewrite ABS. apply andb_false_iff in WS as [W|W].
           ++ apply Z.leb_gt in W. rewrite A3 by lia. reflexivity.
           ++ rewrite W. reflexivity.
        -- intros. unfold abs. cbn [apart hpart]. rewrite AP. reflexivity.
    + unfold mreset in H. rewrite E in H. destruct (apart t) as [ar|] eqn:AP.
      2:{ cbn [aresetValue] in H. unfold bind in H. destruct (hreset hash (hpart t) (VInt i) v) as [[h' bb]| |] eqn:HR; try discriminate.
          inversion H; subst. eapply HASH; eauto. }
      cbn [aresetValue] in H. destruct (ainrange (Some ar) i) eqn:R.
      2:{ unfold bind in H. destruct (hreset hash (hpart t) (VInt i) v) as [[h' bb]| |] eqn:HR; try discriminate.
          inversion H; subst. eapply HASH; eauto. }
      destruct (ainrange_idx _ _ R) as (Lx & Sx & P1). set (x := Z.to_nat (i - 1)) in *.
      destruct AI as (A1 & A2 & A3).
      assert (ABS : abs t (VInt i) = nth x (avalues ar) VNil) by (cbn [abs]; rewrite AP; cbn [aget]; rewrite R; reflexivity).
      destruct (negb (is_nil (nth x (avalues ar) VNil))) eqn:WS.
      * injection H as Ht Hb; subst t' b; clear HASH. 
        assert (XL : x < alen ar).
        { destruct (Nat.lt_ge_cases x (alen ar)); auto. rewrite A3 in WS by auto. discriminate. }
        split; [split|split].
        -- cbn [apart AInv avalues alen]. rewrite upd_length. split; [auto|]. split.
           ++ right. rewrite nth_upd by auto. destruct (Nat.eqb_spec (alen ar - 1) x).
              ** intros Q. apply nil_dec in Q. congruence.
              ** destruct A2; [lia|auto].
           ++ intros j Hj. rewrite nth_upd by auto. destruct (Nat.eqb_spec j x); [lia|auto].
        -- exact HI.
        -- rewrite ABS, WS. reflexivity.
        -- intros k' G'. cbn [andb]. destruct k' as [| | z | | | |]; cbn [abs apart hpart];
             try (rewrite equals_int_other by (intros; discriminate); reflexivity).
           rewrite (equals_int_g i z G G'). rewrite AP. cbn [aget avalues].
           assert (RR : ainrange (Some {| avalues := upd (avalues ar) x v; alen := alen ar |}) z = ainrange (Some ar) z)
             by (cbn [ainrange avalues]; rewrite upd_length; reflexivity).
           rewrite RR. destruct (ainrange (Some ar) z) eqn:RZ.
           ++ rewrite nth_upd by auto. destruct (Z.eqb_spec i z).
              ** subst. rewrite Nat.eqb_refl. reflexivity.
              ** destruct (ainrange_idx _ _ RZ) as (? & ? & ?). destruct (Nat.eqb_spec (Z.to_nat (z - 1)) x); [lia|reflexivity].
           ++ destruct (Z.eqb_spec i z); [subst; congruence|reflexivity].
      * injection H as Ht Hb; subst t' b; clear HASH. split; [split; [cbn [apart AInv]; auto|exact HI]|]. split.
        -- rewrite ABS, WS. reflexivity.
        -- intros. unfold abs. cbn [apart hpart]. rewrite AP. reflexivity.
  - (* not an integer key *)
    assert (AB : forall tt, abs tt k = habs (hpart tt) k) by (intros; destruct k; auto; exfalso; eapply NI; eauto).
    assert (EO : forall k', gkey k' -> forall z, k' = VInt z -> equals k k' = false).
    { intros k' G' z ->. rewrite eq_sym_w; try apply G; try apply G'. apply equals_int_other. auto. }
    assert (FIN : forall h' bb (vv : value),
              (forall k', gkey k' -> habs h' k' = if bb && equals k k' then vv else habs (hpart t) k') ->
              forall k', gkey k' -> abs (mkT h' (apart t)) k' = if bb && equals k k' then vv else abs t k').
    { intros h' bb vv L k' G'. destruct k' as [| | z | | | |]; cbn [abs apart hpart]; try apply (L _ G').
      rewrite (EO _ G' z eq_refl), andb_false_r. destruct (aget (apart t) z); auto.
      rewrite (L _ G'), (EO _ G' z eq_refl), andb_false_r. reflexivity. }
    destruct (is_nil v) eqn:NV.
    + unfold mremove in H. rewrite E in H. unfold bind in H.
      destruct (hremove hash (hpart t) k) as [[h' bb]| |] eqn:HR; try discriminate. inversion H; subst.
      apply nil_dec in NV. subst v.
      destruct (hremove_spec _ _ _ _ HI G HR) as (I' & B' & L'). split; [split; auto|]. split.
      * rewrite AB. exact B'.
      * apply FIN. intros k' G'. rewrite (L' k' G').
        destruct (equals k k') eqn:EQ; [|rewrite andb_false_r; auto]. rewrite andb_true_r. destruct b; auto.
        symmetry in B'. apply negb_false_iff, nil_dec in B'. rewrite (habs_equals _ k k'); auto.
    + unfold mreset in H. rewrite E in H. unfold bind in H.
      destruct (hreset hash (hpart t) k v) as [[h' bb]| |] eqn:HR; try discriminate. inversion H; subst.
      destruct (hreset_spec _ _ _ _ _ HI G HR) as (I' & B' & L'). split; [split; auto|]. split.
      * rewrite AB. exact B'.
      * apply FIN. exact L'.
Qed.

(* ---- Len returns a border ---- *)
Lemma gkey_int : forall z, (- 9223372036854775808 <= z < 9223372036854775808)%Z -> gkey (VInt z).
Proof.
  intros z H. repeat split; auto. cbn [wf]. change (Z.of_N two63) with 9223372036854775808%Z.
  apply andb_true_iff. split; [apply Z.leb_le|apply Z.ltb_lt]; lia.
Qed.

Lemma aget_in : forall ar n, 1 <= n <= length (avalues ar) ->
  aget (Some ar) (Z.of_nat n) = Some (nth (n - 1) (avalues ar) VNil).
Proof.
  intros ar n H. cbn [aget ainrange].
  replace ((1 <=? Z.of_nat n)%Z && (Z.of_nat n <=? Z.of_nat (length (avalues ar)))%Z) with true.
  - repeat f_equal. lia.
  - symmetry. apply andb_true_iff. split; apply Z.leb_le; lia.
Qed.

Lemma aget_out : forall a n, asize a < n -> aget a (Z.of_nat n) = None.
Proof.
  intros [ar|] n H; cbn [aget ainrange]; auto. cbn [asize] in H.
  replace ((Z.of_nat n <=? Z.of_nat (length (avalues ar)))%Z) with false; [rewrite andb_false_r; auto|].
  symmetry. apply Z.leb_gt. lia.
Qed.

Lemma lenLoop_ge : forall fuel h l0 l, lenLoop hash fuel h l0 = Ok l -> l0 <= l.
Proof.
  induction fuel as [|f IH]; intros h l0 l H; cbn [lenLoop] in H; [discriminate|].
  unfold bind in H. destruct (hfind hash h _) as [v| |]; try discriminate.
  destruct (is_nil v); [inversion H; lia|]. apply IH in H. lia.
Qed.

Lemma lenLoop_spec : forall t fuel l0 l, Inv t -> asize (apart t) <= l0 ->
  (l0 = 0 \/ abs t (VInt (Z.of_nat l0)) <> VNil) ->
  lenLoop hash fuel (hpart t) l0 = Ok l -> (Z.of_nat l + 1 < 9223372036854775808)%Z ->
  (l = 0 \/ abs t (VInt (Z.of_nat l)) <> VNil) /\ abs t (VInt (Z.of_nat l + 1)) = VNil.
Proof.
  intros t. induction fuel as [|f IH]; intros l0 l I AS B H R; cbn [lenLoop] in H; [discriminate|].
  assert (GE' : l0 <= l).
  { unfold bind in H. destruct (hfind hash (hpart t) _) as [v| |]; try discriminate.
    destruct (is_nil v); [inversion H; lia|]. apply lenLoop_ge in H. lia. }
  unfold bind in H.
  assert (G : gkey (VInt (Z.of_nat (S l0)))) by (apply gkey_int; lia).
  rewrite (hfind_refines hash (hpart t) _ (proj2 I) G) in H.
  assert (AB : abs t (VInt (Z.of_nat (S l0))) = habs (hpart t) (VInt (Z.of_nat (S l0)))).
  { cbn [abs]. rewrite aget_out by lia. reflexivity. }
  destruct (is_nil (habs (hpart t) (VInt (Z.of_nat (S l0))))) eqn:NV.
  - inversion H; subst. split; auto. replace (Z.of_nat l + 1)%Z with (Z.of_nat (S l)) by lia.
    rewrite AB. apply nil_dec. exact NV.
  - apply (IH (S l0) l); auto; try lia. right. rewrite AB. intros Q. rewrite Q in NV. discriminate.
Qed.

Theorem len_is_border : forall t l, Inv t -> mlen hash t = Ok l -> (Z.of_nat l + 1 < 9223372036854775808)%Z ->
  (l = 0 \/ abs t (VInt (Z.of_nat l)) <> VNil) /\ abs t (VInt (Z.of_nat l + 1)) = VNil.
Proof.
  intros t l I H R. unfold mlen in H. pose proof I as (AI & HI).
  destruct (apart t) as [ar|] eqn:AP; cbn [agetLen asize] in H.
  - destruct AI as (A1 & A2 & A3). destruct (Nat.ltb_spec (alen ar) (length (avalues ar))).
    + inversion H; subst. cbn [abs]. rewrite AP. split.
      * destruct (Nat.eq_dec (alen ar) 0) as [Z0|NZ0]; [left; auto|right]. destruct A2 as [?|NZ]; [lia|]. rewrite aget_in by lia. exact NZ.
      * replace (Z.of_nat (alen ar) + 1)%Z with (Z.of_nat (S (alen ar))) by lia. rewrite aget_in by lia.
        replace (S (alen ar) - 1) with (alen ar) by lia. apply A3. lia.
    + apply (lenLoop_spec t (S (hsize (hpart t))) (alen ar) l I); auto.
      * rewrite AP. cbn [asize]. lia.
      * destruct (Nat.eq_dec (alen ar) 0) as [Z0|NZ0]; [left; auto|right]. destruct A2 as [?|NZ]; [lia|]. cbn [abs]. rewrite AP. rewrite aget_in by lia. exact NZ.
  - apply (lenLoop_spec t (S (hsize (hpart t))) 0 l I); auto. rewrite AP. cbn. lia.
Qed.

(* non-vacuity: the empty table and the first hash part satisfy the invariant *)
Lemma Inv_empty : Inv empty_table.
Proof. split; cbn; auto. Qed.

Lemma HInv_fresh : HInv hash (mkH [empty_slot] (Some 0) 0).
Proof.
  split; cbn [slots nextFree hbase]; auto.
  - split.
    + intros [|[|i]] p H; cbn in H; inversion H; reflexivity.
    + intros [|[|i]] p H O; cbn in H; inversion H; subst; discriminate.
    + intros [|[|i]] [|[|j]] p q H H'; cbn in H, H'; inversion H; inversion H'; auto.
  - split.
    + exists empty_slot. auto.
    + intros [|[|i]] s Hi H; cbn in H; try lia; discriminate.
  - apply HFind_small; cbn; auto. unfold smallHashTableSize. lia.
Qed.

End WithHash.
