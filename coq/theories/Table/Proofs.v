(* Table/Proofs.v — theorems about the table model that hold for EVERY hash function and
   every state (no invariant needed): lookups are sound, value updates (Reset / clear) never
   change the shape of the table (keys, links, flags, order) — the fact traversal relies on. *)
From Coq Require Import ZArith NArith List Bool Arith Lia.
From GV Require Import Table.ModelValue Table.Model Table.Spec Table.ValueProofs.
Import ListNotations.

Section WithHash.
Variable hash : value -> N.

Lemma getS_Ok : forall sl i s, getS sl i = Ok s -> nth_error sl i = Some s.
Proof. unfold getS. intros sl i s. destruct (nth_error sl i); congruence. Qed.

(* ---- findSlot is sound: whatever it returns is a slot whose key Equals the key asked for ---- *)
Lemma scanDown_sound : forall sl k j i, scanDown sl k j = Ok (Some i) ->
  exists s, nth_error sl i = Some s /\ equals (skey s) k = true.
Proof.
  induction j as [|j IH]; intros i H; cbn [scanDown] in H; unfold bind in H;
    destruct (getS sl _) as [s| |] eqn:G; try discriminate; destruct (equals (skey s) k) eqn:E.
  - inversion H; subst. apply getS_Ok in G. eauto.
  - discriminate.
  - inversion H; subst. apply getS_Ok in G. eauto.
  - eauto.
Qed.

Lemma chainFind_sound : forall fuel sl k j i, chainFind fuel sl k j = Ok (Some i) ->
  exists s, nth_error sl i = Some s /\ equals (skey s) k = true.
Proof.
  induction fuel as [|f IH]; intros sl k j i H; cbn [chainFind] in H; [discriminate|].
  unfold bind in H. destruct (getS sl j) as [s| |] eqn:G; try discriminate.
  destruct (equals (skey s) k) eqn:E.
  - inversion H; subst. apply getS_Ok in G. eauto.
  - destruct (negb (shasNext s)); [discriminate|]. eauto.
Qed.

Theorem findSlot_sound : forall sl mask k i, findSlot hash sl mask k = Ok (Some i) ->
  exists s, nth_error sl i = Some s /\ equals (skey s) k = true.
Proof.
  intros sl mask k i H. unfold findSlot in H. destruct (mask <? smallHashTableSize).
  - eapply scanDown_sound; eauto.
  - unfold bind in H. destruct (getS sl _) as [s| |]; try discriminate.
    destruct (schained s); [discriminate|]. eapply chainFind_sound; eauto.
Qed.

(* the hash part never answers with the value of a different key *)
Theorem hfind_sound : forall h k v, hfind hash h k = Ok v -> v <> VNil ->
  exists t s, h = Some t /\ In s (slots t) /\ equals (skey s) k = true /\ sval s = v.
Proof.
  intros h k v H NV. destruct h as [t|]; cbn [hfind] in H; [|inversion H; congruence].
  unfold bind in H. destruct (findSlot hash (slots t) (hmask t) k) as [[i|]| |] eqn:F; try discriminate.
  - destruct (getS (slots t) i) as [s| |] eqn:G; try discriminate. inversion H; subst.
    apply findSlot_sound in F as (s' & N' & E). apply getS_Ok in G. rewrite G in N'. inversion N'; subst.
    exists t, s'. repeat split; auto. eapply nth_error_In; eauto.
  - inversion H; congruence.
Qed.

(* ---- value updates do not change the shape ---- *)
Definition shape (s : slot) : value * nat * bool * bool := (skey s, snext s, shasNext s, schained s).

Lemma upd_length : forall A (l : list A) i x, length (upd l i x) = length l.
Proof. induction l; destruct i; cbn; auto. Qed.

Lemma map_upd_same : forall A B (f : A -> B) (l : list A) i x y,
  nth_error l i = Some y -> f x = f y -> map f (upd l i x) = map f l.
Proof.
  induction l as [|a l IH]; destruct i; cbn; intros x y H E; try discriminate; auto.
  - inversion H; subst. congruence.
  - f_equal. eauto.
Qed.

Lemma setS_set_val_shape : forall sl i s v sl', getS sl i = Ok s -> setS sl i (set_val s v) = Ok sl' ->
  map shape sl' = map shape sl.
Proof.
  intros sl i s v sl' G S. unfold setS in S. destruct (i <? length sl); [|discriminate].
  inversion S; subst. apply getS_Ok in G. eapply map_upd_same; eauto.
Qed.

Theorem resetKeyValue_shape : forall sl mask k v sl' b,
  resetKeyValue hash sl mask k v = Ok (sl', b) -> map shape sl' = map shape sl.
Proof.
  intros sl mask k v sl' b H. unfold resetKeyValue, bind in H.
  destruct (findSlot hash sl mask k) as [[i|]| |]; try discriminate.
  - destruct (getS sl i) as [s| |] eqn:G; try discriminate.
    destruct (negb (is_nil (sval s))).
    + destruct (setS sl i (set_val s v)) as [sl1| |] eqn:S; try discriminate.
      inversion H; subst. eapply setS_set_val_shape; eauto.
    + inversion H; subst. reflexivity.
  - inversion H; subst. reflexivity.
Qed.

Theorem removeKey_shape : forall sl mask k sl' b,
  removeKeySlots hash sl mask k = Ok (sl', b) -> map shape sl' = map shape sl.
Proof.
  intros sl mask k sl' b H. unfold removeKeySlots, bind in H.
  destruct (findSlot hash sl mask k) as [[i|]| |]; try discriminate.
  - destruct (getS sl i) as [s| |] eqn:G; try discriminate.
    destruct (setS sl i (set_val s VNil)) as [sl1| |] eqn:S; try discriminate.
    inversion H; subst. eapply setS_set_val_shape; eauto.
  - inversion H; subst. reflexivity.
Qed.

Definition hshape (h : option htable) :=
  match h with None => None | Some t => Some (map shape (slots t), nextFree t, hbase t) end.

(* Table.Reset (what t[k]=v uses for an existing field, and every clear t[k]=nil) never moves a key:
   slot order, links, flags, nextFree and base of the hash part are unchanged, for every hash
   function, every state and every key/value. *)
Theorem treset_hash_shape : forall t k v t' b,
  treset hash t k v = Ok (t', b) -> hshape (hpart t') = hshape (hpart t).
Proof.
  intros t k v t' b H. unfold treset in H.
  assert (HR : forall h k v h' b, hreset hash h k v = Ok (h', b) -> hshape h' = hshape h).
  { intros h k0 v0 h' b0 HH. destruct h as [x|]; cbn [hreset] in HH; [|inversion HH; reflexivity].
    unfold bind in HH. destruct (resetKeyValue hash (slots x) (hmask x) k0 v0) as [[sl bb]| |] eqn:R; try discriminate.
    inversion HH; subst. cbn. erewrite resetKeyValue_shape; eauto. }
  assert (HM : forall h k h' b, hremove hash h k = Ok (h', b) -> hshape h' = hshape h).
  { intros h k0 h' b0 HH. destruct h as [x|]; cbn [hremove] in HH; [|inversion HH; reflexivity].
    unfold bind in HH. destruct (removeKeySlots hash (slots x) (hmask x) k0) as [[sl bb]| |] eqn:R; try discriminate.
    inversion HH; subst. cbn. erewrite removeKey_shape; eauto. }
  destruct (is_nil v).
  - unfold mremove in H. destruct (toIntNoString k) as [i|].
    + destruct (aremove (apart t) i) as [[ok ws] a]. destruct ok.
      * inversion H; subst. reflexivity.
      * unfold bind in H. destruct (hremove hash (hpart t) (VInt i)) as [[h bb]| |] eqn:R; try discriminate.
        inversion H; subst. cbn [hpart]. eauto.
    + unfold bind in H. destruct (hremove hash (hpart t) k) as [[h bb]| |] eqn:R; try discriminate.
      inversion H; subst. cbn [hpart]. eauto.
  - unfold mreset in H. destruct (toIntNoString k) as [i|].
    + destruct (aresetValue (apart t) i v) as [[ok ws] a]. destruct ok.
      * inversion H; subst. reflexivity.
      * unfold bind in H. destruct (hreset hash (hpart t) (VInt i) v) as [[h bb]| |] eqn:R; try discriminate.
        inversion H; subst. cbn [hpart]. eauto.
    + unfold bind in H. destruct (hreset hash (hpart t) k v) as [[h bb]| |] eqn:R; try discriminate.
      inversion H; subst. cbn [hpart]. eauto.
Qed.

(* ... and the array part keeps its size (its len may shrink: that is finding
   C03-clear-last-array-slot-during-traversal, see [array_clear_refuted]) *)
Theorem treset_array_size : forall t k v t' b,
  treset hash t k v = Ok (t', b) -> asize (apart t') = asize (apart t).
Proof.
  intros t k v t' b H. unfold treset in H.
  assert (AR : forall a i v ok ws a', aresetValue a i v = (ok, ws, a') -> asize a' = asize a).
  { intros a i v0 ok ws a' E. unfold aresetValue in E. destruct a as [ar|]; [|inversion E; reflexivity].
    destruct (ainrange (Some ar) i); [|inversion E; reflexivity].
    destruct (negb _); inversion E; subst; cbn; [apply upd_length|reflexivity]. }
  assert (AM : forall a i ok ws a', aremove a i = (ok, ws, a') -> asize a' = asize a).
  { intros a i ok ws a' E. unfold aremove in E. destruct a as [ar|]; [|inversion E; reflexivity].
    destruct (ainrange (Some ar) i); [|inversion E; reflexivity].
    destruct (_ && _); inversion E; subst; cbn; [apply upd_length|reflexivity]. }
  destruct (is_nil v).
  - unfold mremove in H. destruct (toIntNoString k) as [i|].
    + destruct (aremove (apart t) i) as [[ok ws] a] eqn:E. destruct ok.
      * inversion H; subst. cbn [apart]. eauto.
      * unfold bind in H. destruct (hremove hash (hpart t) (VInt i)) as [[h bb]| |]; try discriminate.
        inversion H; subst. reflexivity.
    + unfold bind in H. destruct (hremove hash (hpart t) k) as [[h bb]| |]; try discriminate.
      inversion H; subst. reflexivity.
  - unfold mreset in H. destruct (toIntNoString k) as [i|].
    + destruct (aresetValue (apart t) i v) as [[ok ws] a] eqn:E. destruct ok.
      * inversion H; subst. cbn [apart]. eauto.
      * unfold bind in H. destruct (hreset hash (hpart t) (VInt i) v) as [[h bb]| |]; try discriminate.
        inversion H; subst. reflexivity.
    + unfold bind in H. destruct (hreset hash (hpart t) k v) as [[h bb]| |]; try discriminate.
      inversion H; subst. reflexivity.
Qed.

End WithHash.

(* ================= refutations: the model, being faithful, exhibits the defects ================= *)
Definition hid (v : value) : N := match v with VInt z => Z.to_N z | VStr (b :: _) => b | _ => 0 end%N.

Ltac wit_body := repeat (split; [vm_compute; reflexivity|]); vm_compute; first [reflexivity | discriminate | congruence | (let HH := fresh in intro HH; inversion HH)].

Definition run_ops (os : list op) : res table := run hid empty_table os.
Definition ints (n : nat) : list op := map (fun i => OSet (VInt (Z.of_nat i)) (VInt (Z.of_nat (100 + i)))) (seq 1 n).

(* The five witnesses of the defects repaired in round 2 (see notes/C03.md), now on the positive side:
   the model mirrors the repaired code and the witnesses behave as the manual prescribes. *)
(* (1) {1..8}: after visiting 8 and clearing it, next(t, 8) ends the traversal *)
Example witness_clear_last_array_slot :
  exists t t' b, run_ops (ints 8) = Ok t /\
    treset hid t (VInt 8) VNil = Ok (t', b) /\
    mnext hid t' (VInt 8) = Ok (VNil, VNil, true).
Proof. eexists. eexists. eexists. wit_body. Qed.

(* (2) assigning to an existing key through Table.Set while the hash part is full moves nothing *)
Definition strs4 : list op :=
  [OSet (VStr [97%N]) (VInt 1); OSet (VStr [98%N]) (VInt 2); OSet (VStr [99%N]) (VInt 3); OSet (VStr [100%N]) (VInt 4)].
Example witness_set_existing_when_full :
  exists t t', run_ops strs4 = Ok t /\ hfull (hpart t) = true /\
    tset hid t (VStr [97%N]) (VInt 101) = Ok t' /\
    hshape (hpart t') = hshape (hpart t).
Proof. eexists. eexists. wit_body. Qed.

(* (4) {10, 20, [0]=5}: next(t, 0) ends the traversal instead of restarting the array part *)
Example witness_next_zero :
  exists t, run_ops [OSet (VInt 1) (VInt 10); OSet (VInt 2) (VInt 20); OSet (VInt 0) (VInt 5)] = Ok t /\
    mnext hid t (VInt 2) = Ok (VInt 0, VInt 5, true) /\
    mnext hid t (VInt 0) = Ok (VNil, VNil, true).
Proof. eexists. wit_body. Qed.

(* (5) Reset with the float key 6.0 finds the integer key 6 in the hash part *)
Example witness_reset_float :
  exists t t', run_ops [OSet (VInt 6) (VInt 1)] = Ok t /\
    treset hid t (VFlt 4618441417868443648) (VInt 3) = Ok (t', true) /\
    mget hid t' (VInt 6) = Ok (VInt 3).
Proof. eexists. eexists. wit_body. Qed.

(* non-vacuity: a history that exercises all three insertion cases, a migration and a cleanup,
   ends in a state satisfying the executable invariant, with every key retrievable *)
Definition hmod16 (v : value) : N := match v with VInt z => Z.to_N (z mod 16) | _ => 0 end%N.
Definition demo : list op :=
  map (fun i => OSet (VInt i) (VInt (i + 1000))) [100; 116; 132; 101; 117; 20; 36; 52; 53; 37; 1; 2; 3; 4; 200; 216; 232; 5; 6; 7; 8]%Z
  ++ [OReset (VInt 116) VNil; OSet (VInt 300) (VInt 1); OSet (VInt 301) (VInt 2); OLen].
Example demo_history_ok :
  exists t, run hmod16 empty_table demo = Ok t /\
    forallb (fun i => match mget hmod16 t (VInt i) with Ok (VInt v) => Z.eqb v (i + 1000) | _ => false end)
            [100; 132; 101; 117; 20; 36; 52; 53; 37; 1; 2; 3; 4; 200; 216; 232; 5; 6; 7; 8]%Z = true /\
    mget hmod16 t (VInt 116) = Ok VNil.
Proof. eexists. wit_body. Qed.
