(* Table/KeyTable.v — raw-equal values index the same entry of every table that satisfies the invariant. *)
From Coq Require Import ZArith NArith List Bool Lia.
From GV Require Import Table.ModelValue Table.Model Table.Spec Table.ValueProofs Table.Proofs Table.Inv Table.Refine
  Table.RefineIns Table.RefineTable Table.KeyCongruence.
Import ListNotations.

Section WithHash.
Variable hash : value -> N.

Lemma abs_equals : forall t k k', Inv hash t -> gkey k -> gkey k' -> equals k k' = true -> abs t k' = abs t k.
Proof.
  intros t k k' (AI & HI) G G' E.
  destruct k as [| |z| | | |], k' as [| |z'| | | |]; cbn [abs];
    try (apply (habs_equals hash (hpart t) _ _ HI G G' E));
    try (rewrite equals_tag in E by (cbn [tag]; lia); discriminate).
  rewrite (equals_int_g z z' G G') in E. apply Z.eqb_eq in E. subst. reflexivity.
Qed.

(* two raw-equal keys read the same entry: Get cannot tell them apart, whatever the table *)
Theorem get_respects_raw_equality : forall t a b, Inv hash t -> wf a = true -> wf b = true ->
  gkey (norm a) -> gkey (norm b) -> lua_eq a b = true ->
  mget hash t a = mget hash t b.
Proof.
  intros t a b I Wa Wb Ga Gb E.
  rewrite (mget_refines hash t a I Ga), (mget_refines hash t b I Gb). f_equal.
  symmetry. apply abs_equals; auto. rewrite same_key_iff_raw_equal; auto.
Qed.

End WithHash.
