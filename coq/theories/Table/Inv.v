(* Table/Inv.v — the invariant of the table model (DESIGN Appendix D.1) and its basic consequences:
   lookups in the hash part compute the abstract lookup.  Everything is parametrised by an arbitrary
   hash function that respects Equals. *)
From Coq Require Import ZArith NArith List Bool Arith Lia.
From GV Require Import Table.ModelValue Table.Model Table.Spec Table.ValueProofs Table.Proofs.
Import ListNotations.

(* ---------- lists ---------- *)
Lemma nth_error_upd : forall A (l : list A) i x j,
  nth_error (upd l i x) j = if j =? i then (if i <? length l then Some x else None) else nth_error l j.
Proof.
  induction l as [|a l IH]; intros i x j.
  - cbn. destruct (j =? i); destruct j; reflexivity.
  - destruct i as [|i], j as [|j]; cbn [upd nth_error length]; try reflexivity.
    rewrite IH. cbn [Nat.eqb]. destruct (j =? i); [|reflexivity].
    change (S i <? S (length l)) with (i <? length l). reflexivity.
Qed.

Lemma nth_error_upd_same : forall A (l : list A) i x, i < length l -> nth_error (upd l i x) i = Some x.
Proof. intros. rewrite nth_error_upd, Nat.eqb_refl. apply Nat.ltb_lt in H. rewrite H. reflexivity. Qed.

Lemma nth_error_upd_other : forall A (l : list A) i x j, j <> i -> nth_error (upd l i x) j = nth_error l j.
Proof. intros. rewrite nth_error_upd. apply Nat.eqb_neq in H. rewrite H. reflexivity. Qed.

Lemma nth_error_lt : forall A (l : list A) i x, nth_error l i = Some x -> i < length l.
Proof. intros. apply nth_error_Some. congruence. Qed.

Lemma list_ext : forall A (l l' : list A), (forall j, nth_error l j = nth_error l' j) -> l = l'.
Proof.
  induction l as [|a l IH]; destruct l' as [|b l']; intros H; auto.
  - specialize (H 0). discriminate.
  - specialize (H 0). discriminate.
  - f_equal. + specialize (H 0). cbn in H. congruence. + apply IH. intros j. apply (H (S j)).
Qed.

(* ---------- good keys ---------- *)
Definition gkey (k : value) : Prop :=
  wf k = true /\ is_nan k = false /\ is_nil k = false /\ norm k = k.

Lemma equals_nil_l : forall k, is_nil k = false -> equals VNil k = false.
Proof.
  intros k H. apply equals_tag. destruct k; cbn [tag is_nil] in *; try discriminate; lia.
Qed.

Lemma eq_refl_g : forall k, gkey k -> equals k k = true.
Proof. intros k (W & N & _). rewrite equals_agrees by auto. apply raw_eq_refl; auto. Qed.

Lemma eq_sym_w : forall a b, wf a = true -> wf b = true -> equals a b = equals b a.
Proof. intros. rewrite !equals_agrees by auto. apply raw_eq_sym. Qed.

Lemma eq_trans_w : forall a b c, wf a = true -> wf b = true -> wf c = true ->
  equals a b = true -> equals b c = true -> equals a c = true.
Proof. intros a b c ? ? ?. rewrite !equals_agrees by auto. apply raw_eq_trans. Qed.

(* ---------- the content of the hash part as a list of (key, value) cells; nil key = empty cell ---------- *)
Definition kv : Type := (value * value)%type.
Definition kabsent (l : list kv) (k : value) : Prop :=
  forall i p, nth_error l i = Some p -> equals (fst p) k = false.
Definition kmaps (l : list kv) (k v : value) : Prop :=
  exists i p, nth_error l i = Some p /\ equals (fst p) k = true /\ snd p = v.
(* the value the abstract map gives to k *)
Definition kval (l : list kv) (k v : value) : Prop := kmaps l k v \/ (kabsent l k /\ v = VNil).

Record KBase (l : list kv) : Prop := {
  kb_wf : forall i p, nth_error l i = Some p -> wf (fst p) = true;
  kb_keys : forall i p, nth_error l i = Some p -> is_nil (fst p) = false -> gkey (fst p);
  kb_nodup : forall i j p q, nth_error l i = Some p -> nth_error l j = Some q ->
     is_nil (fst p) = false -> is_nil (fst q) = false -> equals (fst p) (fst q) = true -> i = j
}.

Lemma occupied_of_equals : forall (p : kv) k, gkey k -> equals (fst p) k = true -> is_nil (fst p) = false.
Proof.
  intros p k (_ & _ & NN & _) E. destruct (fst p) eqn:K; try reflexivity.
  rewrite equals_nil_l in E by auto. discriminate.
Qed.

Lemma kval_fun : forall l k v v', KBase l -> gkey k -> kval l k v -> kval l k v' -> v = v'.
Proof.
  intros l k v v' B G [(i & s & N & E & V)|(A & V)] [(i' & s' & N' & E' & V')|(A' & V')]; subst.
  - assert (i = i').
    { pose proof (kb_wf _ B _ _ N). pose proof (kb_wf _ B _ _ N'). destruct G as (W & G').
      assert (GG : gkey k) by (split; auto).
      apply (kb_nodup _ B i i' s s' N N').
      - eapply occupied_of_equals; eauto.
      - eapply occupied_of_equals; eauto.
      - eapply eq_trans_w with (b := k); eauto. rewrite eq_sym_w; auto. }
    subst. congruence.
  - rewrite (A' _ _ N) in E. discriminate.
  - rewrite (A _ _ N') in E'. discriminate.
  - reflexivity.
Qed.

(* find-first lookup: the executable abstraction *)
Definition klook (l : list kv) (k : value) : value :=
  match find (fun p => equals (fst p) k) l with Some p => snd p | None => VNil end.

Lemma klook_kval : forall l k, kval l k (klook l k).
Proof.
  intros l k. unfold klook. destruct (find (fun p => equals (fst p) k) l) as [s|] eqn:F.
  - left. apply find_some in F as [I E]. apply In_nth_error in I as [i N]. exists i, s. auto.
  - right. split; [|reflexivity]. intros i s N.
    apply (find_none _ _ F). eapply nth_error_In; eauto.
Qed.

Lemma kval_klook : forall l k v, KBase l -> gkey k -> kval l k v -> klook l k = v.
Proof. intros. eapply kval_fun; eauto using klook_kval. Qed.

(* -- assignment to the cell of an existing key -- *)
Lemma KBase_setval : forall l i p v, KBase l -> nth_error l i = Some p -> KBase (upd l i (fst p, v)).
Proof.
  intros l i p v B N. pose proof (nth_error_lt _ _ _ _ N) as L.
  assert (K : forall j q, nth_error (upd l i (fst p, v)) j = Some q -> exists q0, nth_error l j = Some q0 /\ fst q0 = fst q).
  { intros j q H. rewrite nth_error_upd in H. destruct (Nat.eqb_spec j i).
    - subst. apply Nat.ltb_lt in L. rewrite L in H. inversion H; subst. eauto.
    - eauto. }
  split.
  - intros j q H. destruct (K _ _ H) as (q0 & N0 & E). rewrite <- E. eapply kb_wf; eauto.
  - intros j q H. destruct (K _ _ H) as (q0 & N0 & E). rewrite <- E. eapply kb_keys; eauto.
  - intros j j' q q' H H'. destruct (K _ _ H) as (q0 & N0 & E). destruct (K _ _ H') as (q0' & N0' & E').
    rewrite <- E, <- E'. eapply kb_nodup; eauto.
Qed.

Lemma kval_setval : forall l i p v k', KBase l -> nth_error l i = Some p -> is_nil (fst p) = false -> gkey k' ->
  kval (upd l i (fst p, v)) k' (if equals (fst p) k' then v else klook l k').
Proof.
  intros l i p v k' B N O G. pose proof (nth_error_lt _ _ _ _ N) as L.
  destruct (equals (fst p) k') eqn:E.
  - left. exists i, (fst p, v). rewrite nth_error_upd_same by auto. auto.
  - destruct (klook_kval l k') as [(j & q & Nq & Eq & Vq)|(A & V)].
    + left. exists j, q. rewrite nth_error_upd_other; auto. intros ->. congruence.
    + right. split; auto. intros j q H. rewrite nth_error_upd in H. destruct (Nat.eqb_spec j i).
      * subst. apply Nat.ltb_lt in L. rewrite L in H. inversion H; subst. exact E.
      * eauto.
Qed.

(* -- a new key put into an empty cell -- *)
Lemma KBase_put : forall l e p0 k v, KBase l -> nth_error l e = Some p0 -> is_nil (fst p0) = true ->
  gkey k -> kabsent l k -> KBase (upd l e (k, v)).
Proof.
  intros l e p0 k v B N0 E0 G A. pose proof (nth_error_lt _ _ _ _ N0) as L. apply Nat.ltb_lt in L.
  assert (W : wf k = true) by apply G.
  split.
  - intros j q H. rewrite nth_error_upd in H. destruct (Nat.eqb_spec j e).
    + rewrite L in H. inversion H; subst. exact W.
    + eapply kb_wf; eauto.
  - intros j q H. rewrite nth_error_upd in H. destruct (Nat.eqb_spec j e).
    + rewrite L in H. inversion H; subst. auto.
    + eapply kb_keys; eauto.
  - intros j j' q q' H H' O O' EQ. rewrite nth_error_upd in H, H'.
    destruct (Nat.eqb_spec j e), (Nat.eqb_spec j' e); subst; auto.
    + rewrite L in H. inversion H; subst. cbn [fst] in *.
      rewrite eq_sym_w in EQ; [|auto|eapply kb_wf; eauto]. rewrite (A _ _ H') in EQ. discriminate.
    + rewrite L in H'. inversion H'; subst. cbn [fst] in *. rewrite (A _ _ H) in EQ. discriminate.
    + eapply kb_nodup; eauto.
Qed.

Lemma kval_put : forall l e p0 k v k', KBase l -> nth_error l e = Some p0 -> is_nil (fst p0) = true ->
  gkey k -> kabsent l k -> gkey k' ->
  kval (upd l e (k, v)) k' (if equals k k' then v else klook l k').
Proof.
  intros l e p0 k v k' B N0 E0 G A G'. pose proof (nth_error_lt _ _ _ _ N0) as L.
  destruct (equals k k') eqn:E.
  - left. exists e, (k, v). rewrite nth_error_upd_same by auto. auto.
  - destruct (klook_kval l k') as [(j & q & Nq & Eq & Vq)|(A' & V)].
    + left. exists j, q. rewrite nth_error_upd_other; auto. intros ->.
      assert (q = p0) by congruence. subst.
      pose proof (occupied_of_equals _ _ G' Eq). congruence.
    + right. split; auto. intros j q H. rewrite nth_error_upd in H. destruct (Nat.eqb_spec j e).
      * apply Nat.ltb_lt in L. rewrite L in H. inversion H; subst. exact E.
      * eauto.
Qed.

(* -- a new key put into cell i whose occupant c moves to the empty cell f -- *)
Lemma KBase_move : forall l f i p0 c k v, KBase l -> nth_error l f = Some p0 -> is_nil (fst p0) = true ->
  nth_error l i = Some c -> is_nil (fst c) = false -> gkey k -> kabsent l k ->
  KBase (upd (upd l f c) i (k, v)).
Proof.
  intros l f i p0 c k v B Nf Ef Ni Oc G A.
  assert (f <> i) by (intros ->; congruence).
  assert (Lf : f < length l) by (eapply nth_error_lt; eauto).
  assert (Li : i < length l) by (eapply nth_error_lt; eauto).
  (* first move c over the empty cell: as a kv list this is "put (fst c, snd c)" except that the key is
     not absent; do it by hand through an intermediate list where cell i is emptied *)
  set (l1 := upd l i (VNil, VNil)).
  assert (B1 : KBase l1).
  { split.
    - intros j q H0. unfold l1 in H0. rewrite nth_error_upd in H0. destruct (Nat.eqb_spec j i).
      + apply Nat.ltb_lt in Li. rewrite Li in H0. inversion H0; reflexivity.
      + eapply kb_wf; eauto.
    - intros j q H0 O. unfold l1 in H0. rewrite nth_error_upd in H0. destruct (Nat.eqb_spec j i).
      + apply Nat.ltb_lt in Li. rewrite Li in H0. inversion H0; subst. discriminate.
      + eapply kb_keys; eauto.
    - intros j j' q q' H0 H0' O O' EQ. unfold l1 in H0, H0'. rewrite nth_error_upd in H0, H0'.
      assert (Li' := Li). apply Nat.ltb_lt in Li'.
      destruct (Nat.eqb_spec j i), (Nat.eqb_spec j' i); subst; auto.
      + rewrite Li' in H0. inversion H0; subst. discriminate.
      + rewrite Li' in H0'. inversion H0'; subst. discriminate.
      + eapply kb_nodup; eauto. }
  assert (A1 : kabsent l1 (fst c)).
  { intros j q H0. unfold l1 in H0. rewrite nth_error_upd in H0. destruct (Nat.eqb_spec j i).
    - apply Nat.ltb_lt in Li. rewrite Li in H0. inversion H0; subst. cbn [fst]. apply equals_nil_l. exact Oc.
    - destruct (is_nil (fst q)) eqn:Oq.
      + destruct (fst q); try discriminate. apply equals_nil_l. exact Oc.
      + destruct (equals (fst q) (fst c)) eqn:EQ; [|reflexivity]. exfalso. apply n.
        exact (kb_nodup _ B j i q c H0 Ni Oq Oc EQ). }
  assert (Nf1 : nth_error l1 f = Some p0) by (unfold l1; rewrite nth_error_upd_other; auto).
  assert (Gc : gkey (fst c)) by exact (kb_keys _ B _ _ Ni Oc).
  pose proof (KBase_put l1 f p0 (fst c) (snd c) B1 Nf1 Ef Gc A1) as B2.
  replace (fst c, snd c) with c in B2 by (destruct c; reflexivity).
  assert (E2 : upd (upd l f c) i (k, v) = upd (upd l1 f c) i (k, v)).
  { apply list_ext. intros j. rewrite !nth_error_upd. unfold l1. rewrite !upd_length, !nth_error_upd.
    destruct (j =? i); [reflexivity|]. destruct (j =? f); reflexivity. }
  rewrite E2.
  assert (Ni2 : nth_error (upd l1 f c) i = Some (VNil, VNil)).
  { rewrite nth_error_upd_other by auto. unfold l1. apply nth_error_upd_same. auto. }
  eapply KBase_put; eauto.
  intros j q H0. rewrite nth_error_upd in H0. destruct (Nat.eqb_spec j f).
  - unfold l1 in H0. rewrite upd_length in H0. apply Nat.ltb_lt in Lf. rewrite Lf in H0. inversion H0; subst. eauto.
  - unfold l1 in H0. rewrite nth_error_upd in H0. destruct (Nat.eqb_spec j i).
    + apply Nat.ltb_lt in Li. rewrite Li in H0. inversion H0; subst. apply equals_nil_l. apply G.
    + eauto.
Qed.

Lemma kval_move : forall l f i p0 c k v k', KBase l -> nth_error l f = Some p0 -> is_nil (fst p0) = true ->
  nth_error l i = Some c -> is_nil (fst c) = false -> gkey k -> kabsent l k -> gkey k' ->
  kval (upd (upd l f c) i (k, v)) k' (if equals k k' then v else klook l k').
Proof.
  intros l f i p0 c k v k' B Nf Ef Ni Oc G A G'.
  assert (f <> i) by (intros ->; congruence).
  assert (Lf : f < length l) by (eapply nth_error_lt; eauto).
  assert (Li : i < length l) by (eapply nth_error_lt; eauto).
  destruct (equals k k') eqn:E.
  - left. exists i, (k, v). rewrite nth_error_upd_same by (rewrite upd_length; auto). auto.
  - destruct (klook_kval l k') as [(j & q & Nq & Eq & Vq)|(A' & V)].
    + left. destruct (Nat.eq_dec j i).
      * subst j. assert (q = c) by congruence. subst q.
        exists f, c. rewrite nth_error_upd_other by auto. rewrite nth_error_upd_same by auto. auto.
      * exists j, q. rewrite nth_error_upd_other by auto. rewrite nth_error_upd_other; auto.
        intros ->. assert (q = p0) by congruence. subst.
        pose proof (occupied_of_equals _ _ G' Eq). congruence.
    + right. split; auto. intros j q H0. rewrite nth_error_upd in H0. destruct (Nat.eqb_spec j i).
      * rewrite upd_length in H0. apply Nat.ltb_lt in Li. rewrite Li in H0. inversion H0; subst. exact E.
      * rewrite nth_error_upd in H0. destruct (Nat.eqb_spec j f).
        -- apply Nat.ltb_lt in Lf. rewrite Lf in H0. inversion H0; subst. eauto.
        -- eauto.
Qed.

