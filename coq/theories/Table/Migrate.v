(* Table/Migrate.v — the array-migration loop of mixedTable.grow (`migrate`): what it does to the slots and
   to the new array (migrate_spec), then mixedTable.grow as a whole: InvG preserved, abstract map unchanged. *)
From Coq Require Import ZArith NArith List Bool Arith Lia.
From GV Require Import Table.ModelValue Table.Model Table.Spec Table.ValueProofs Table.Proofs Table.Inv Table.Refine
  Table.RefineIns Table.RefineTable Table.Chains Table.ChainsIns Table.ChainsInv Table.TableInv.
Import ListNotations.

(* slot s is moved to an array of n values: live, integer key in 1..n *)
Definition movedb (n : nat) (s : slot) : bool :=
  negb (is_nil (sval s)) && match skey s with VInt j => ((1 <=? j) && (j <=? Z.of_nat n))%Z | _ => false end.

Lemma asetValue_vals : forall ar j v a', asetValue (Some ar) j v = Some a' ->
  ainrange (Some ar) j = true /\ length (avalues a') = length (avalues ar) /\
  forall m, nth m (avalues a') VNil = if m =? Z.to_nat (j - 1) then v else nth m (avalues ar) VNil.
Proof.
  intros ar j v a' H. cbn [asetValue] in H. destruct (ainrange (Some ar) j) eqn:R; [|discriminate].
  inversion H; subst; clear H. destruct (ainrange_idx _ _ R) as (I1 & I2 & I3).
  split; auto. cbn [avalues]. split; [apply upd_length|]. intros m. apply nth_upd; auto.
Qed.

Lemma asetValue_AInv : forall ar j v a', AInv (Some ar) -> v <> VNil -> asetValue (Some ar) j v = Some a' -> AInv (Some a').
Proof.
  intros ar j v a' (L & LN & B) NV H. destruct (asetValue_vals _ _ _ _ H) as (R & LE & NU).
  destruct (ainrange_idx _ _ R) as (I1 & I2 & I3).
  cbn [asetValue] in H. rewrite R in H. inversion H; subst; clear H.
  cbn [AInv avalues alen] in *. rewrite upd_length.
  destruct (Nat.ltb_spec (alen ar) (Z.to_nat j)).
  - split; [lia|]. split.
    + right. rewrite NU. replace (Z.to_nat j - 1) with (Z.to_nat (j - 1)) by lia. rewrite Nat.eqb_refl. auto.
    + intros m Hm. rewrite NU. destruct (Nat.eqb_spec m (Z.to_nat (j - 1))); [lia|]. apply B. lia.
  - split; [lia|]. split.
    + destruct LN as [Z0|NZ]; [left; auto|]. right. rewrite NU. destruct (Nat.eqb_spec (alen ar - 1) (Z.to_nat (j - 1))); auto.
    + intros m Hm. rewrite NU. destruct (Nat.eqb_spec m (Z.to_nat (j - 1))); [lia|]. apply B; auto.
Qed.

Lemma migrate_cons_moved : forall it r arr j, movedb (length (avalues arr)) it = true -> skey it = VInt j ->
  exists arr1, asetValue (Some arr) j (sval it) = Some arr1 /\
    migrate (it :: r) arr = let '(r', arr') := migrate r arr1 in (set_val it VNil :: r', arr').
Proof.
  intros it r arr j M K. unfold movedb in M. rewrite K in M. apply andb_true_iff in M as (M1 & M2).
  cbn [migrate]. apply negb_true_iff in M1. rewrite M1, K. cbn [asetValue ainrange]. rewrite M2. eexists. split; reflexivity.
Qed.

Lemma migrate_cons_unmoved : forall it r arr, movedb (length (avalues arr)) it = false ->
  migrate (it :: r) arr = let '(r', arr') := migrate r arr in (it :: r', arr').
Proof.
  intros it r arr M. unfold movedb in M. cbn [migrate]. destruct (is_nil (sval it)); [reflexivity|].
  cbn [negb andb] in M. destruct (skey it); try reflexivity. cbn [asetValue ainrange]. rewrite M. reflexivity.
Qed.

(* migrate_spec: the loop `for i := range t.hashTable.items` of mixedTable.grow *)
Theorem migrate_spec : forall sl arr sl' arr', migrate sl arr = (sl', arr') ->
  let n := length (avalues arr) in
  length (avalues arr') = n /\
  (forall i s, nth_error sl i = Some s -> nth_error sl' i = Some (if movedb n s then set_val s VNil else s)) /\
  length sl' = length sl /\
  (forall m, (exists s, In s sl /\ movedb n s = true /\ skey s = VInt (Z.of_nat (S m)) /\ nth m (avalues arr') VNil = sval s)
     \/ ((forall s, In s sl -> movedb n s = true -> skey s <> VInt (Z.of_nat (S m))) /\
         nth m (avalues arr') VNil = nth m (avalues arr) VNil)) /\
  (AInv (Some arr) -> AInv (Some arr')).
Proof.
  induction sl as [|it r IH]; intros arr sl' arr' H n.
  - cbn in H. inversion H; subst. split; [reflexivity|]. split; [|split; [reflexivity|split; [|auto]]].
    + intros i s N. destruct i; discriminate.
    + intros m. right. split; auto.
  - destruct (movedb n it) eqn:M.
    + assert (exists j, skey it = VInt j) as (j & K).
      { unfold movedb in M. destruct (skey it); try (rewrite andb_false_r in M; discriminate). eauto. }
      destruct (migrate_cons_moved it r arr j M K) as (arr1 & A1 & E). rewrite E in H.
      destruct (migrate r arr1) as [r' arr2] eqn:MR. inversion H; subst; clear H.
      assert (NV : sval it <> VNil).
      { unfold movedb in M. apply andb_true_iff in M as (M1 & _). apply negb_true_iff in M1. intros Q. rewrite Q in M1. discriminate. }
      destruct (asetValue_vals _ _ _ _ A1) as (R1 & L1 & N1). destruct (ainrange_idx _ _ R1) as (J1 & J2 & J3).
      specialize (IH arr1 r' arr' MR). cbv zeta in IH. rewrite L1 in IH. fold n in IH. destruct IH as (I1 & I2 & I3 & I4 & I5).
      split; [auto|]. split; [|split; [cbn [length]; lia|split]].
      * intros [|i] s N; cbn [nth_error] in N |- *; [|auto]. inversion N; subst. rewrite M. reflexivity.
      * intros m. destruct (I4 m) as [(s & Is & Ms & Ks & Vs)|(No & Vs)].
        -- left. exists s. split; [right; auto|auto].
        -- rewrite N1 in Vs. destruct (Nat.eqb_spec m (Z.to_nat (j - 1))).
           ++ left. exists it. split; [left; auto|]. split; auto. split; [rewrite K; f_equal; lia|auto].
           ++ right. split; auto. intros s [<-|Is] Ms; auto. rewrite K. intros Q. inversion Q. lia.
      * intros A. apply I5. eapply asetValue_AInv; eauto.
    + rewrite migrate_cons_unmoved in H by auto. destruct (migrate r arr) as [r' arr2] eqn:MR. inversion H; subst; clear H.
      specialize (IH arr r' arr' MR). cbv zeta in IH. fold n in IH. destruct IH as (I1 & I2 & I3 & I4 & I5).
      split; [auto|]. split; [|split; [cbn [length]; lia|split; auto]].
      * intros [|i] s N; cbn [nth_error] in N |- *; [|auto]. inversion N; subst. rewrite M. reflexivity.
      * intros m. destruct (I4 m) as [(s & Is & Ms & Ks & Vs)|(No & Vs)].
        -- left. exists s. split; [right; auto|auto].
        -- right. split; auto. intros s [<-|Is] Ms; [congruence|auto].
Qed.
