(* Table/ChainsIns.v — the chain invariant [Good] is preserved by value updates (it depends on the
   shape only), holds of an empty table, and is preserved by the three cases of insertNewKeyValue. *)
From Coq Require Import ZArith NArith List Bool Arith Lia.
From GV Require Import Table.ModelValue Table.Model Table.Spec Table.ValueProofs Table.Proofs Table.Inv Table.Refine Table.RefineIns Table.Chains.
Import ListNotations.

Section WithHash.
Variable hash : value -> N.
Notation prim := (primary hash).

(* ---------- Good depends on the shape only ---------- *)
Lemma shape_nth_r : forall sl sl' j s', map shape sl = map shape sl' -> nth_error sl' j = Some s' ->
  exists s, nth_error sl j = Some s /\ skey s = skey s' /\ snext s = snext s' /\ shasNext s = shasNext s' /\ schained s = schained s'.
Proof.
  intros sl sl' j s' H N. pose proof (shape_nth sl sl' j H) as P. rewrite N in P.
  destruct (nth_error sl j) as [s|]; [|contradiction]. exists s. split; auto. apply shape_fields; auto.
Qed.

Lemma linkedTo_shape : forall sl sl' c nxt, map shape sl = map shape sl' -> linkedTo sl c nxt -> linkedTo sl' c nxt.
Proof.
  intros sl sl' c nxt H. induction c as [|a r IH]; cbn [linkedTo]; auto.
  intros (s & N & L & Rr). pose proof (shape_nth sl sl' a H) as P. rewrite N in P.
  destruct (nth_error sl' a) as [s'|] eqn:N'; cbn in P; [|contradiction]. apply shape_fields in P as (_ & Nx & Hn & _).
  exists s'. repeat split; auto. unfold link in *. rewrite <- Hn, <- Nx. exact L.
Qed.

Lemma Good_shape : forall sl sl' mask R, map shape sl = map shape sl' -> Good hash sl mask R -> Good hash sl' mask R.
Proof.
  intros sl sl' mask R H G. split.
  - intros p s' N' O C. destruct (shape_nth_r _ _ _ _ H N') as (s & N & K & _ & _ & Ch).
    destruct (g_head _ _ _ _ G p s N) as (P & ND & L & RS); [unfold isEmpty in *; congruence|congruence|].
    rewrite <- K. repeat split; auto.
    + eapply linkedTo_shape; eauto.
    + intros j Hj. destruct (RS j Hj) as (sj & Nj & Oj & Cj & Pj).
      pose proof (shape_nth sl sl' j H) as Q. rewrite Nj in Q. destruct (nth_error sl' j) as [sj'|]; cbn in Q; [|contradiction].
      apply shape_fields in Q as (Kj & _ & _ & Chj). exists sj'. unfold isEmpty in *. rewrite <- Kj, <- Chj. auto.
  - intros j s' N' O C. destruct (shape_nth_r _ _ _ _ H N') as (s & N & K & _ & _ & Ch).
    destruct (g_chained _ _ _ _ G j s N) as (I & sp & Np & Op & Cp); [unfold isEmpty in *; congruence|congruence|].
    rewrite <- K. split; auto.
    pose proof (shape_nth sl sl' (prim mask (skey s)) H) as Q. rewrite Np in Q.
    destruct (nth_error sl' (prim mask (skey s))) as [sp'|]; cbn in Q; [|contradiction]. apply shape_fields in Q as (Kp & _ & _ & Chp).
    exists sp'. unfold isEmpty in *. rewrite <- Kp, <- Chp. auto.
  - intros j s' N' E. destruct (shape_nth_r _ _ _ _ H N') as (s & N & K & _ & Hn & Ch).
    rewrite <- Hn, <- Ch. apply (g_empty _ _ _ _ G j s N). unfold isEmpty in *. congruence.
Qed.

(* ---------- an empty table ---------- *)
Lemma nth_error_repeat : forall A (x : A) n j y, nth_error (repeat x n) j = Some y -> y = x.
Proof. intros. apply nth_error_In in H. apply repeat_spec in H. auto. Qed.

Lemma Good_fresh : forall n mask, Good hash (repeat empty_slot n) mask (fun _ => []).
Proof.
  intros n mask. split.
  - intros p s N O. apply nth_error_repeat in N. subst. discriminate.
  - intros p s N O. apply nth_error_repeat in N. subst. discriminate.
  - intros p s N O. apply nth_error_repeat in N. subst. auto.
Qed.

(* ---------- case 1: the primary slot is empty ---------- *)
Lemma Good_case1 : forall sl mask R i cit k v,
  Good hash sl mask R -> nth_error sl i = Some cit -> isEmpty cit = true -> is_nil k = false -> prim mask k = i ->
  Good hash (upd sl i (mkSlot k v 0 false false)) mask (fun p => if p =? i then [] else R p).
Proof.
  intros sl mask R i cit k v G Ni Ei NK Pk. pose proof (nth_error_lt _ _ _ _ Ni) as Li.
  set (sl' := upd sl i (mkSlot k v 0 false false)).
  assert (SAME : forall j, j <> i -> nth_error sl' j = nth_error sl j) by (intros; apply nth_error_upd_other; auto).
  assert (ATI : nth_error sl' i = Some (mkSlot k v 0 false false)) by (apply nth_error_upd_same; auto).
  assert (OCCNE : forall j s, nth_error sl j = Some s -> isEmpty s = false -> j <> i) by (intros j s N O ->; congruence).
  split.
  - intros p s N O C. destruct (Nat.eqb_spec p i).
    + subst p. rewrite ATI in N. inversion N; subst. cbn [skey]. repeat split; auto.
      * constructor; [intros []|constructor].
      * cbn. eexists. repeat split; eauto.
      * intros j [].
    + rewrite SAME in N by auto. destruct (g_head _ _ _ _ G p s N O C) as (P & ND & L & RS). repeat split; auto.
      * eapply linkedTo_frame; [|exact L]. intros a [<-|Ha]; [apply SAME; auto|].
        destruct (RS a Ha) as (sa & Na & Oa & _). apply SAME. eauto.
      * intros j Hj. destruct (RS j Hj) as (sj & Nj & Oj & Cj & Pj). exists sj. rewrite SAME; eauto.
  - intros j s N O C. destruct (Nat.eqb_spec j i).
    + subst j. rewrite ATI in N. inversion N; subst. discriminate.
    + rewrite SAME in N by auto. destruct (g_chained _ _ _ _ G j s N O C) as (I & sp & Np & Op & Cp).
      assert (prim mask (skey s) <> i) by eauto.
      destruct (Nat.eqb_spec (prim mask (skey s)) i); [contradiction|]. split; auto.
      exists sp. rewrite SAME; auto.
  - intros j s N E. destruct (Nat.eqb_spec j i).
    + subst j. rewrite ATI in N. inversion N; subst. unfold isEmpty in E. cbn in E. congruence.
    + rewrite SAME in N by auto. eapply g_empty; eauto.
Qed.

(* ---------- case 2: the colliding item is in its primary position ---------- *)
Lemma Good_case2 : forall sl mask R i f cit sf k v,
  Good hash sl mask R -> nth_error sl i = Some cit -> isEmpty cit = false -> schained cit = false ->
  nth_error sl f = Some sf -> isEmpty sf = true -> is_nil k = false -> prim mask k = i ->
  Good hash (upd (upd sl f (mkSlot (skey cit) (sval cit) (snext cit) (shasNext cit) true)) i (mkSlot k v f true false))
       mask (fun p => if p =? i then f :: R i else R p).
Proof.
  intros sl mask R i f cit sf k v G Ni Oi Ci Nf Ef NK Pk.
  pose proof (nth_error_lt _ _ _ _ Ni) as Li. pose proof (nth_error_lt _ _ _ _ Nf) as Lf.
  assert (FI : f <> i) by (intros ->; congruence).
  set (cit' := mkSlot (skey cit) (sval cit) (snext cit) (shasNext cit) true).
  set (it' := mkSlot k v f true false).
  set (sl' := upd (upd sl f cit') i it').
  assert (SAME : forall j, j <> i -> j <> f -> nth_error sl' j = nth_error sl j).
  { intros. unfold sl'. rewrite !nth_error_upd_other; auto. }
  assert (ATI : nth_error sl' i = Some it') by (apply nth_error_upd_same; rewrite upd_length; auto).
  assert (ATF : nth_error sl' f = Some cit') by (unfold sl'; rewrite nth_error_upd_other by auto; apply nth_error_upd_same; auto).
  assert (OCCNF : forall j s, nth_error sl j = Some s -> isEmpty s = false -> j <> f) by (intros j s N O ->; congruence).
  destruct (g_head _ _ _ _ G i cit Ni Oi Ci) as (Pc & NDi & Li' & RSi).
  assert (CHNI : forall j s, nth_error sl j = Some s -> schained s = true -> j <> i) by (intros j s N C ->; congruence).
  assert (RNE : forall p a, In a (R p) -> (exists s, nth_error sl p = Some s /\ isEmpty s = false /\ schained s = false) -> a <> i /\ a <> f).
  { intros p a Ha (s & N & O & C). destruct (g_head _ _ _ _ G p s N O C) as (_ & _ & _ & RS).
    destruct (RS a Ha) as (sa & Na & Oa & Ca & _). split; eauto. }
  split.
  - intros p s N O C. destruct (Nat.eqb_spec p i).
    + subst p. rewrite ATI in N. inversion N; subst s. cbn [skey]. split; auto. split; [|split].
      * inversion NDi as [|? ? NI ND']; subst. constructor.
        -- intros [E|Hi]; [congruence|contradiction].
        -- constructor; auto. intros Hf. destruct (RSi f Hf) as (s0 & N0 & O0 & _). congruence.
      * cbn [linkedTo]. exists it'. split; auto. split; [reflexivity|].
        cbn [linkedTo] in Li'. destruct Li' as (s0 & N0 & L0 & Rr). rewrite Ni in N0. inversion N0; subst s0.
        exists cit'. split; auto. split; [exact L0|].
        eapply linkedTo_frame; [|exact Rr]. intros a Ha. destruct (RNE i a Ha) as (A1 & A2); eauto.
      * intros j [<-|Hj].
        -- exists cit'. repeat split; auto.
        -- destruct (RSi j Hj) as (sj & Nj & Oj & Cj & Pj). exists sj. rewrite SAME; eauto.
    + destruct (Nat.eqb_spec p f).
      * subst p. rewrite ATF in N. inversion N; subst s. discriminate.
      * rewrite SAME in N by auto. destruct (g_head _ _ _ _ G p s N O C) as (P & ND & L & RS). repeat split; auto.
        -- eapply linkedTo_frame; [|exact L]. intros a [<-|Ha]; [apply SAME; auto|].
           destruct (RNE p a Ha) as (A1 & A2); eauto.
        -- intros j Hj. destruct (RS j Hj) as (sj & Nj & Oj & Cj & Pj). exists sj.
           destruct (RNE p j Hj) as (A1 & A2); eauto. rewrite SAME; auto.
  - intros j s N O C. destruct (Nat.eqb_spec j i).
    + subst j. rewrite ATI in N. inversion N; subst s. discriminate.
    + destruct (Nat.eqb_spec j f).
      * subst j. rewrite ATF in N. inversion N; subst s. unfold cit'. cbn [skey]. rewrite Pc, Nat.eqb_refl. split; [left; auto|].
        exists it'. auto.
      * rewrite SAME in N by auto. destruct (g_chained _ _ _ _ G j s N O C) as (I & sp & Np & Op & Cp). split.
        -- destruct (Nat.eqb_spec (prim mask (skey s)) i) as [E|]; auto. right. rewrite <- E. auto.
        -- destruct (Nat.eqb_spec (prim mask (skey s)) i) as [E|NE].
           ++ rewrite E. exists it'. auto.
           ++ exists sp. rewrite SAME; eauto.
  - intros j s N E. destruct (Nat.eqb_spec j i).
    + subst j. rewrite ATI in N. inversion N; subst s. unfold isEmpty in E. cbn in E. congruence.
    + destruct (Nat.eqb_spec j f).
      * subst j. rewrite ATF in N. inversion N; subst s. unfold isEmpty in *. cbn in E. congruence.
      * rewrite SAME in N by auto. eapply g_empty; eauto.
Qed.

(* ---------- case 3: the colliding item is chained (it belongs to another chain) ---------- *)
Lemma last_default : forall (l : list nat) x d d', last (x :: l) d = last (x :: l) d'.
Proof. induction l as [|y l IH]; intros; [reflexivity|]. change (last (y :: l) d = last (y :: l) d'). apply IH. Qed.

Lemma findPred_walk : forall sl i c a fuel, linkedTo sl (a :: c) (Some i) -> ~ In i (a :: c) -> length c < fuel ->
  findPred fuel sl a i = Ok (last (a :: c) a).
Proof.
  intros sl i. induction c as [|b c IH]; intros a fuel L NI F; destruct fuel as [|fuel]; try lia;
    cbn [findPred]; cbn [linkedTo] in L; destruct L as (s & N & Lk & Rr); unfold bind; rewrite (getS_nth _ _ _ N);
    unfold link in Lk; destruct (shasNext s); try discriminate; inversion Lk as [Nx]; rewrite Nx.
  - rewrite Nat.eqb_refl. reflexivity.
  - destruct (Nat.eqb_spec b i) as [->|NE]; [exfalso; apply NI; right; left; auto|].
    cbn [length] in F. rewrite (IH b fuel Rr); [|intros H; apply NI; right; auto|lia].
    f_equal. change (last (a :: b :: c) a) with (last (b :: c) a). apply last_default.
Qed.

Lemma NoDup_replace : forall (l1 l2 : list nat) x y, NoDup (l1 ++ x :: l2) -> ~ In y (l1 ++ x :: l2) -> NoDup (l1 ++ y :: l2).
Proof.
  induction l1 as [|a l1 IH]; intros l2 x y ND NI; cbn [app] in *.
  - inversion ND; subst. constructor; auto. intros H. apply NI. right; auto.
  - inversion ND as [|? ? NA ND']; subst. constructor.
    + intros H. apply in_app_or in H as [H|[H|H]].
      * apply NA. apply in_or_app; auto.
      * subst. apply NI. left; auto.
      * apply NA. apply in_or_app. right. right. auto.
    + eapply IH; eauto. intros H. apply NI. right; auto.
Qed.

Lemma Good_case3 : forall sl mask R i f cit sf k v pidx sl3,
  Good hash sl mask R -> nth_error sl i = Some cit -> isEmpty cit = false -> schained cit = true ->
  nth_error sl f = Some sf -> isEmpty sf = true -> is_nil k = false -> prim mask k = i ->
  findPred (S (length sl)) sl (prim mask (skey cit)) i = Ok pidx ->
  (pit <- getS (upd (upd sl f cit) i (mkSlot k v 0 false false)) pidx ;;
   setS (upd (upd sl f cit) i (mkSlot k v 0 false false)) pidx (mkSlot (skey pit) (sval pit) f true (schained pit))) = Ok sl3 ->
  exists R', Good hash sl3 mask R'.
Proof.
  intros sl mask R i f cit sf k v pidx sl3 G Ni Oi Ci Nf Ef NK Pk FP ST.
  pose proof (nth_error_lt _ _ _ _ Ni) as Li. pose proof (nth_error_lt _ _ _ _ Nf) as Lf.
  assert (FI : f <> i) by (intros ->; congruence).
  set (p0 := prim mask (skey cit)) in *.
  destruct (g_chained _ _ _ _ G i cit Ni Oi Ci) as (INi & sp & Np & Op & Cp). fold p0 in INi, Np.
  destruct (g_head _ _ _ _ G p0 sp Np Op Cp) as (Pp & ND0 & L0 & RS0).
  apply in_split in INi as (pre & post & ER).
  assert (P0I : p0 <> i) by (intros E; rewrite E in Np; congruence).
  destruct (exists_last (l := p0 :: pre)) as (c & pred & EC); [discriminate|].
  (* split the old chain *)
  assert (L0' : linkedTo sl ((c ++ [pred]) ++ i :: post) None).
  { rewrite <- EC. cbn [app]. rewrite <- ER. exact L0. }
  apply linkedTo_app in L0' as (LA & LB). cbn [hd_or] in LA.
  pose proof LA as LA'. apply linkedTo_app in LA' as (LC & LP). cbn [hd_or] in LC.
  cbn [linkedTo] in LP. destruct LP as (spd & Npd & Lpd & _).
  assert (ND0' : NoDup ((c ++ [pred]) ++ i :: post)) by (rewrite <- EC; cbn [app]; rewrite <- ER; exact ND0).
  assert (NIN : ~ In i (p0 :: pre)).
  { rewrite EC. apply NoDup_remove_2 in ND0'. intros H. apply ND0'. apply in_or_app. left; auto. }
  (* every member of the old chain is occupied and has primary slot p0 *)
  assert (MEM : forall a, In a (p0 :: R p0) -> exists sa, nth_error sl a = Some sa /\ isEmpty sa = false /\ prim mask (skey sa) = p0 /\
                 (a <> p0 -> schained sa = true)).
  { intros a [<-|Ha]; [exists sp; repeat split; auto; intros; congruence|].
    destruct (RS0 a Ha) as (sa & Na & Oa & Ca & Pa). exists sa. auto. }
  assert (INPRE : forall a, In a (p0 :: pre) -> In a (p0 :: R p0)).
  { intros a [<-|Ha]; [left; auto|right]. rewrite ER. apply in_or_app; auto. }
  assert (INPOST : forall a, In a post -> In a (p0 :: R p0)).
  { intros a Ha. right. rewrite ER. apply in_or_app. right. right. auto. }
  assert (PREDIN : In pred (p0 :: pre)) by (rewrite EC; apply in_or_app; right; left; auto).
  assert (PI : pred <> i) by (intros ->; contradiction).
  destruct (MEM pred (INPRE _ PREDIN)) as (spd' & Npd' & Opd & Ppd & Cpd). rewrite Npd in Npd'. inversion Npd'; subst spd'. clear Npd'.
  assert (PF : pred <> f) by (intros ->; congruence).
  (* findPred returns pred *)
  assert (FPE : pidx = pred).
  { rewrite (findPred_walk sl i pre p0 (S (length sl))) in FP.
    - injection FP as <-. change (last (p0 :: pre) p0 = pred). rewrite EC. apply last_last.
    - rewrite EC. exact LA.
    - exact NIN.
    - inversion ND0 as [|? ? _ NDR]; subst. assert (length (R p0) <= length sl).
      { apply NoDup_bound; auto. intros x Hx. eapply linkedTo_lt; [exact L0|right; auto]. }
      rewrite ER, app_length in H. cbn [length] in H. lia. }
  subst pidx.
  set (it := mkSlot k v 0 false false) in *.
  set (sl2 := upd (upd sl f cit) i it) in *.
  assert (N2 : nth_error sl2 pred = Some spd).
  { unfold sl2. rewrite !nth_error_upd_other; auto. }
  unfold bind in ST. rewrite (getS_nth _ _ _ N2) in ST. apply setS_inv in ST as (L2 & ->).
  set (pit' := mkSlot (skey spd) (sval spd) f true (schained spd)).
  set (sl3 := upd sl2 pred pit').
  assert (ATP : nth_error sl3 pred = Some pit') by (apply nth_error_upd_same; auto).
  assert (ATI : nth_error sl3 i = Some it).
  { unfold sl3. rewrite nth_error_upd_other by auto. unfold sl2. apply nth_error_upd_same. rewrite upd_length; auto. }
  assert (ATF : nth_error sl3 f = Some cit).
  { unfold sl3. rewrite nth_error_upd_other by auto. unfold sl2. rewrite nth_error_upd_other by auto. apply nth_error_upd_same; auto. }
  assert (SAME : forall j, j <> i -> j <> f -> j <> pred -> nth_error sl3 j = nth_error sl j).
  { intros. unfold sl3, sl2. rewrite !nth_error_upd_other; auto. }
  assert (Lci : link cit = hd_or post None).
  { cbn [linkedTo] in LB. destruct LB as (s0 & N0 & Lk & _). rewrite Ni in N0. inversion N0; subst. exact Lk. }
  assert (LBpost : linkedTo sl post None) by (cbn [linkedTo] in LB; destruct LB as (_ & _ & _ & Q); exact Q).
  (* members of the old chain other than i, pred keep their slot *)
  assert (OLDNE : forall a, In a (p0 :: R p0) -> a <> f).
  { intros a Ha ->. destruct (MEM f Ha) as (sa & Na & Oa & _). congruence. }
  assert (NDc : NoDup (c ++ pred :: i :: post)).
  { pose proof ND0' as Q. rewrite <- app_assoc in Q. exact Q. }
  assert (CNE : forall a, In a c -> a <> pred /\ a <> i).
  { intros a Ha. split.
    - intros ->. apply NoDup_remove_2 in NDc. apply NDc. apply in_or_app; auto.
    - intros ->. apply NIN. rewrite EC. apply in_or_app; auto. }
  assert (POSTNE : forall a, In a post -> a <> pred /\ a <> i).
  { intros a Ha. split.
    - intros ->. apply NoDup_remove_2 in NDc. apply NDc. apply in_or_app. right. right. auto.
    - intros ->. apply NoDup_remove_2 in ND0'. apply ND0'. apply in_or_app. right. auto. }
  set (R' := fun p => if p =? p0 then pre ++ f :: post else if p =? i then [] else R p).
  assert (HEAD3 : exists s3, nth_error sl3 p0 = Some s3 /\ isEmpty s3 = false /\ schained s3 = false /\ skey s3 = skey sp).
  { destruct (Nat.eq_dec p0 pred) as [E|NE].
    - rewrite E. exists pit'. rewrite E in Np. rewrite Npd in Np. inversion Np; subst sp. repeat split; auto.
    - exists sp. rewrite SAME; auto. intros ->. congruence. }
  exists R'. split.
  - intros p s N O C. unfold R'. destruct (Nat.eqb_spec p p0) as [->|NP0].
    + destruct HEAD3 as (s3 & N3 & O3 & C3 & K3). rewrite N in N3. inversion N3; subst s3. rewrite K3. split; auto.
      split; [|split].
      * change (p0 :: pre ++ f :: post) with ((p0 :: pre) ++ f :: post).
        apply NoDup_replace with (x := i).
        -- cbn [app]. rewrite <- ER. exact ND0.
        -- intros H. apply (OLDNE f); auto. cbn [app] in H. rewrite <- ER in H. exact H.
      * change (p0 :: pre ++ f :: post) with ((p0 :: pre) ++ f :: post). rewrite EC.
        apply linkedTo_app. cbn [hd_or]. split.
        -- apply linkedTo_app. cbn [hd_or]. split.
           ++ eapply linkedTo_frame; [|exact LC]. intros a Ha. destruct (CNE a Ha). apply SAME; auto.
              apply OLDNE. apply INPRE. rewrite EC. apply in_or_app; auto.
           ++ cbn [linkedTo]. exists pit'. repeat split; auto.
        -- cbn [linkedTo]. exists cit. split; auto. split; [exact Lci|].
           eapply linkedTo_frame; [|exact LBpost]. intros a Ha. destruct (POSTNE a Ha). apply SAME; auto.
      * intros j Hj. apply in_app_or in Hj as [Hj|[<-|Hj]].
        -- destruct (MEM j (INPRE j (or_intror Hj))) as (sj & Nj & Oj & Pj & Cj).
           assert (JP0 : j <> p0). { intros ->. inversion ND0; subst. apply H1. rewrite ER. apply in_or_app; auto. }
           destruct (Nat.eq_dec j pred) as [->|NJ].
           ++ exists pit'. rewrite Npd in Nj. inversion Nj; subst sj. repeat split; auto; cbn [schained pit']; auto.
           ++ assert (j <> i) by (intros ->; apply NIN; right; auto).
              assert (j <> f) by (apply OLDNE; apply INPRE; right; auto).
              exists sj. rewrite SAME by auto. repeat split; auto.
        -- exists cit. repeat split; auto.
        -- destruct (MEM j (INPOST j Hj)) as (sj & Nj & Oj & Pj & Cj). destruct (POSTNE j Hj).
           assert (JP0 : j <> p0). { intros ->. inversion ND0; subst. apply H3. rewrite ER. apply in_or_app. right. right. auto. }
           assert (j <> f) by (apply OLDNE; apply INPOST; auto).
           exists sj. rewrite SAME by auto. repeat split; auto.
    + destruct (Nat.eqb_spec p i) as [->|NPI].
      * rewrite ATI in N. inversion N; subst s. cbn [skey]. repeat split; auto.
        -- constructor; [intros []|constructor].
        -- cbn. eexists. repeat split; eauto.
        -- intros j [].
      * destruct (Nat.eq_dec p f) as [->|NPF]; [rewrite ATF in N; inversion N; subst s; congruence|].
        destruct (Nat.eq_dec p pred) as [->|NPP].
        { rewrite ATP in N. inversion N; subst s. cbn [schained pit'] in C. exfalso. apply NP0. 
          destruct PREDIN as [E|Hp]; [auto|]. destruct (MEM pred (INPRE _ (or_intror Hp))) as (s0 & N0 & _ & _ & C0).
          rewrite Npd in N0. inversion N0; subst s0. destruct (Nat.eq_dec pred p0); auto. rewrite C0 in C; auto. discriminate. }
        rewrite SAME in N by auto. destruct (g_head _ _ _ _ G p s N O C) as (P & ND & L & RS).
        assert (RNE : forall a, In a (R p) -> a <> i /\ a <> f /\ a <> pred).
        { intros a Ha. destruct (RS a Ha) as (sa & Na & Oa & Ca & Pa). repeat split.
          - intros ->. rewrite Ni in Na. inversion Na; subst sa. fold p0 in Pa. congruence.
          - intros ->. congruence.
          - intros ->. rewrite Npd in Na. inversion Na; subst sa. congruence. }
        repeat split; auto.
        -- eapply linkedTo_frame; [|exact L]. intros a [<-|Ha]; [apply SAME; auto|]. destruct (RNE a Ha) as (? & ? & ?). apply SAME; auto.
        -- intros j Hj. destruct (RS j Hj) as (sj & Nj & Oj & Cj & Pj). destruct (RNE j Hj) as (? & ? & ?).
           exists sj. rewrite SAME; auto.
  - intros j s N O C. unfold R'.
    destruct (Nat.eq_dec j i) as [->|NJI]; [rewrite ATI in N; inversion N; subst s; discriminate|].
    destruct (Nat.eq_dec j f) as [->|NJF].
    { rewrite ATF in N. inversion N; subst s. fold p0. rewrite Nat.eqb_refl. split.
      - apply in_or_app. right. left. auto.
      - destruct HEAD3 as (s3 & N3 & O3 & C3 & _). eauto. }
    destruct (Nat.eq_dec j pred) as [->|NJP].
    { rewrite ATP in N. inversion N; subst s. cbn [skey pit' schained] in *. rewrite Ppd, Nat.eqb_refl. split.
      - destruct PREDIN as [E|Hp]; [|apply in_or_app; auto].
        exfalso. rewrite <- E in Npd. rewrite Np in Npd. inversion Npd; subst. congruence.
      - destruct HEAD3 as (s3 & N3 & O3 & C3 & _). eauto. }
    rewrite SAME in N by auto. destruct (g_chained _ _ _ _ G j s N O C) as (I & sq & Nq & Oq & Cq).
    set (q := prim mask (skey s)) in *.
    destruct (Nat.eqb_spec q p0) as [EQ|NQ].
    + split.
      * rewrite EQ, ER in I. apply in_app_or in I as [I|[I|I]]; [apply in_or_app; auto|congruence|apply in_or_app; right; right; auto].
      * rewrite EQ. destruct HEAD3 as (s3 & N3 & O3 & C3 & _). eauto.
    + assert (QI : q <> i) by (intros E; rewrite E in Nq; congruence).
      destruct (Nat.eqb_spec q i); [contradiction|]. split; auto.
      assert (QF : q <> f) by (intros E; rewrite E in Nq; congruence).
      destruct (Nat.eq_dec q pred) as [EP|NEP].
      * rewrite EP. exists pit'. rewrite EP in Nq. rewrite Npd in Nq. inversion Nq; subst sq. auto.
      * exists sq. rewrite SAME; auto.
  - intros j s N E.
    destruct (Nat.eq_dec j i) as [->|NJI]; [rewrite ATI in N; inversion N; subst s; unfold isEmpty in E; cbn in E; congruence|].
    destruct (Nat.eq_dec j f) as [->|NJF]; [rewrite ATF in N; inversion N; subst s; congruence|].
    destruct (Nat.eq_dec j pred) as [->|NJP]; [rewrite ATP in N; inversion N; subst s; unfold isEmpty in *; cbn in E; congruence|].
    rewrite SAME in N by auto. eapply g_empty; eauto.
Qed.

End WithHash.
