(* Iso/Check.v — theorems over the REGENERATED table Iso/Generated.v: which
   package-level variables are written outside package initialisers. *)
From Coq Require Import List String Bool Arith.
From GV Require Import Iso.Generated.
Import ListNotations.
Open Scope string_scope.

Definition row := (string * list string * list string)%type.
Definition row_var (r : row) : string := fst (fst r).
Definition row_direct (r : row) : list string := snd (fst r).
Definition row_indirect (r : row) : list string := snd r.

Definition mem_str (x : string) (l : list string) : bool := existsb (String.eqb x) l.
Definition nil_b (l : list string) : bool := match l with [] => true | _ => false end.

(* a row is fine when nobody assigns the variable and nobody writes through it,
   the latter unless the variable is on the allow list; known findings excepted *)
Definition row_ok (r : row) : bool :=
  mem_str (row_var r) known_vars ||
  (nil_b (row_direct r) && (nil_b (row_indirect r) || mem_str (row_var r) allowed_vars)).

Lemma table_ok : forallb row_ok shared_writes = true.
Proof. vm_compute. reflexivity. Qed.

Lemma known_ok :
  forallb (fun v => existsb (fun r => String.eqb (row_var r) v &&
                                      negb (nil_b (row_direct r) && nil_b (row_indirect r))) shared_writes)
          known_vars = true.
Proof. vm_compute. reflexivity. Qed.

Lemma mem_str_In : forall x l, mem_str x l = true <-> In x l.
Proof.
  intros x l; unfold mem_str; rewrite existsb_exists; split.
  - intros (y & Hy & E). apply String.eqb_eq in E. now subst.
  - intros H; exists x; split; [exact H|apply String.eqb_refl].
Qed.

Theorem no_shared_writers_partial :
  forall v direct indirect, In (v, direct, indirect) shared_writes ->
  ~ In v known_vars ->
  direct = [] /\ (~ In v allowed_vars -> indirect = []).
Proof.
  intros v direct indirect Hin Hk. pose proof table_ok as H. rewrite forallb_forall in H.
  specialize (H _ Hin). unfold row_ok, row_var, row_direct, row_indirect in H; cbn [fst snd] in H.
  apply orb_true_iff in H. destruct H as [H|H]; [apply mem_str_In in H; contradiction|].
  apply andb_true_iff in H. destruct H as [H1 H2]. split.
  - destruct direct; [reflexivity|discriminate].
  - intros Ha. apply orb_true_iff in H2. destruct H2 as [H2|H2].
    + destruct indirect; [reflexivity|discriminate].
    + apply mem_str_In in H2; contradiction.
Qed.

Theorem known_shared_writers_refuted :
  forall v, In v known_vars ->
  exists direct indirect, In (v, direct, indirect) shared_writes /\ (direct <> [] \/ indirect <> []).
Proof.
  intros v Hv. pose proof known_ok as H. rewrite forallb_forall in H. specialize (H v Hv).
  apply existsb_exists in H. destruct H as ([[v' d] i] & Hin & E).
  unfold row_var, row_direct, row_indirect in E; cbn [fst snd] in E.
  apply andb_true_iff in E. destruct E as [E1 E2]. apply String.eqb_eq in E1. subst v'.
  exists d, i. split; [exact Hin|].
  destruct d; [|left; discriminate]. destruct i; [discriminate|right; discriminate].
Qed.

(* ---- the table covers every package-level variable of every loaded package ---- *)

Definition scope_vars : list string := List.concat (map snd all_vars).
Definition table_vars : list string := map row_var shared_writes.

Lemma coverage_ok :
  forallb (fun v => mem_str v table_vars) scope_vars &&
  Nat.eqb (List.length scope_vars) var_count && Nat.eqb (List.length all_vars) package_count &&
  Nat.ltb 0 var_count = true.
Proof. vm_compute. reflexivity. Qed.

(* every variable the type checker sees in the scope of a loaded module package has a row
   in [shared_writes] (so it is classified by [no_shared_writers_partial]); the counts are
   the ones the translator reports, and the table is not empty *)
Theorem all_vars_classified :
  (forall p vs v, In (p, vs) all_vars -> In v vs ->
     exists direct indirect, In (v, direct, indirect) shared_writes) /\
  List.length scope_vars = var_count /\ List.length all_vars = package_count /\ (0 < var_count)%nat.
Proof.
  pose proof coverage_ok as H.
  apply andb_true_iff in H; destruct H as [H H4]. apply andb_true_iff in H; destruct H as [H H3].
  apply andb_true_iff in H; destruct H as [H1 H2].
  split; [|split; [|split]].
  - intros p vs v Hp Hv. rewrite forallb_forall in H1.
    assert (Hs : In v scope_vars).
    { unfold scope_vars. apply in_concat. exists vs. split; [|exact Hv].
      apply in_map_iff. exists (p, vs). split; [reflexivity|exact Hp]. }
    specialize (H1 v Hs). apply mem_str_In in H1. unfold table_vars in H1.
    apply in_map_iff in H1. destruct H1 as ([[v' d] i] & E & Hin). unfold row_var in E; cbn in E. subst v'.
    now exists d, i.
  - apply Nat.eqb_eq; exact H2.
  - apply Nat.eqb_eq; exact H3.
  - apply Nat.ltb_lt; exact H4.
Qed.
