(* Iso/Noninterf.v — noninterference between independent runtimes.

   A system of runtimes indexed by [I]; each is a deterministic state machine
   over its private state [St] (global environment, registry, metatables,
   pools, context manager, output trace — everything hanging off a Runtime value)
   plus one shared component [G] (the package-level variables of the Go
   program).  A step of runtime [i] reads its private state and [G] and may
   write both.  A schedule is any finite sequence of runtime indices (every
   interleaving of the runtimes' steps, for any number of runtimes).

   [noninterference]: if no step writes [G], then for EVERY schedule the
   private state (hence the trace) of each runtime after the interleaved run
   equals its state after running alone for the same number of its own steps.
   [interference_possible]: the hypothesis is necessary — with a shared
   counter (the model of the global math/rand source) the traces differ. *)
From Coq Require Import List Arith Lia.
Import ListNotations.

Section Noninterference.
  Variables (I St G : Type).
  Variable I_eq_dec : forall a b : I, {a = b} + {a <> b}.
  Variable step : I -> St -> G -> St * G.

  Definition upd (s : I -> St) (i : I) (x : St) : I -> St :=
    fun j => if I_eq_dec j i then x else s j.

  Fixpoint run_interleaved (sched : list I) (s : I -> St) (g : G) : (I -> St) * G :=
    match sched with
    | [] => (s, g)
    | i :: rest => let '(x, g') := step i (s i) g in run_interleaved rest (upd s i x) g'
    end.

  Fixpoint run_solo (i : I) (k : nat) (x : St) (g : G) : St * G :=
    match k with
    | O => (x, g)
    | S k' => let '(x', g') := step i x g in run_solo i k' x' g'
    end.

  Fixpoint steps_of (i : I) (sched : list I) : nat :=
    match sched with
    | [] => 0
    | j :: rest => if I_eq_dec j i then S (steps_of i rest) else steps_of i rest
    end.

  (* no step of any runtime writes the shared component *)
  Definition no_shared_write : Prop := forall i x g, snd (step i x g) = g.

  Theorem noninterference :
    no_shared_write ->
    forall sched s g i,
      fst (run_interleaved sched s g) i = fst (run_solo i (steps_of i sched) (s i) g) /\
      snd (run_interleaved sched s g) = g.
  Proof.
    intros NW. induction sched as [|j rest IH]; intros s g i; cbn [run_interleaved steps_of].
    - split; reflexivity.
    - destruct (step j (s j) g) as [x g'] eqn:E.
      assert (g' = g) by (pose proof (NW j (s j) g) as H; rewrite E in H; exact H). subst g'.
      destruct (IH (upd s j x) g i) as [A B]. split; [|exact B].
      rewrite A. unfold upd. destruct (I_eq_dec j i) as [->|Hne].
      + destruct (I_eq_dec i i) as [_|C]; [|contradiction]. cbn [run_solo]. rewrite E. reflexivity.
      + destruct (I_eq_dec i j) as [C|_]; [symmetry in C; contradiction|]. reflexivity.
  Qed.

  (* in particular the order of the other runtimes' steps is irrelevant: two
     schedules with the same number of i-steps leave runtime i in the same state *)
  Corollary schedule_independent :
    no_shared_write ->
    forall sched1 sched2 s g i, steps_of i sched1 = steps_of i sched2 ->
      fst (run_interleaved sched1 s g) i = fst (run_interleaved sched2 s g) i.
  Proof.
    intros NW sched1 sched2 s g i H.
    rewrite (proj1 (noninterference NW sched1 s g i)), (proj1 (noninterference NW sched2 s g i)), H.
    reflexivity.
  Qed.
End Noninterference.

(* The hypothesis is satisfiable ... *)
Example no_shared_write_example :
  no_shared_write bool nat nat (fun _ x g => (x + g, g)).
Proof. intros i x g. reflexivity. Qed.

(* ... and necessary: two runtimes drawing from one shared generator (private
   state = last number drawn, shared state = the generator's counter). *)
Definition draw (_ : bool) (x g : nat) : nat * nat := (g, S g).

Theorem interference_possible :
  exists sched (i : bool),
    fst (run_interleaved bool nat nat Bool.bool_dec draw sched (fun _ => 0) 0) i <>
    fst (run_solo bool nat nat draw i (steps_of bool Bool.bool_dec i sched) 0 0).
Proof. exists [false; true], true. vm_compute. discriminate. Qed.
