(* GC/Lemmas.v — list, sorting and trace lemmas used by GC/Proofs.v *)
From Coq Require Import NArith List Bool Lia Permutation Sorted Arith.
From GV Require Import GC.ClonePool.
Import ListNotations.
Open Scope N_scope.

Definition occ (k : N) (l : list N) : nat := count_occ N.eq_dec l k.
Arguments occ : simpl never.

Lemma occ_cons k x l : occ k (x :: l) = ((if N.eqb x k then 1 else 0) + occ k l)%nat.
Proof.
  unfold occ. simpl. destruct (N.eq_dec x k) as [E|E].
  - subst. rewrite N.eqb_refl. reflexivity.
  - apply N.eqb_neq in E. rewrite E. reflexivity.
Qed.

Lemma occ_app k l1 l2 : occ k (l1 ++ l2) = (occ k l1 + occ k l2)%nat.
Proof. apply count_occ_app. Qed.

Lemma occ_nil k : occ k [] = 0%nat. Proof. reflexivity. Qed.

Lemma mem_occ k l : mem k l = negb (Nat.eqb (occ k l) 0).
Proof.
  induction l as [|x l IH]; [reflexivity|].
  rewrite occ_cons. change (mem k (x :: l)) with ((k =? x) || mem k l). rewrite IH, (N.eqb_sym k x).
  destruct (x =? k); reflexivity.
Qed.

Lemma mem_false_occ k l : mem k l = false <-> occ k l = 0%nat.
Proof. rewrite mem_occ. destruct (occ k l); simpl; split; intros; try reflexivity; try discriminate. Qed.

Lemma mem_true_occ k l : mem k l = true <-> occ k l <> 0%nat.
Proof. rewrite mem_occ. destruct (occ k l); simpl; split; intros; try discriminate; try congruence; auto. Qed.

Lemma mem_cons k x l : mem k (x :: l) = (k =? x) || mem k l.
Proof. reflexivity. Qed.

Lemma mem_app k l1 l2 : mem k (l1 ++ l2) = mem k l1 || mem k l2.
Proof. unfold mem. apply existsb_app. Qed.

Lemma mem_rm_same k l : mem k (rm k l) = false.
Proof.
  induction l as [|x l IH]; simpl; [reflexivity|].
  destruct (x =? k) eqn:E; simpl; [exact IH|].
  rewrite N.eqb_sym, E. exact IH.
Qed.

Lemma mem_rm_other k k0 l : k0 <> k -> mem k (rm k0 l) = mem k l.
Proof.
  intros H. induction l as [|x l IH]; simpl; [reflexivity|].
  destruct (x =? k0) eqn:E; simpl.
  - apply N.eqb_eq in E. subst x. assert (k =? k0 = false) as -> by (apply N.eqb_neq; congruence). exact IH.
  - rewrite IH. reflexivity.
Qed.

(* ---- association list ---- *)

Lemma lookup_key k r c : lookup k r = Some c -> eKey c = k.
Proof. unfold lookup. intros H. apply find_some in H. destruct H as [_ H]. unfold hasKey in H. now apply N.eqb_eq in H. Qed.

Lemma lookup_in k r c : lookup k r = Some c -> In c r.
Proof. unfold lookup. intros H. apply find_some in H. tauto. Qed.

Lemma lookup_delete k k0 r : lookup k (delete k0 r) = if k0 =? k then None else lookup k r.
Proof.
  induction r as [|x r IH].
  - simpl. destruct (k0 =? k); reflexivity.
  - unfold delete, lookup in *. simpl. unfold hasKey in *.
    destruct (eKey x =? k0) eqn:E; simpl.
    + rewrite IH. apply N.eqb_eq in E. subst k0. destruct (eKey x =? k); reflexivity.
    + destruct (eKey x =? k) eqn:E2.
      * apply N.eqb_eq in E2. subst k. rewrite N.eqb_sym, E. reflexivity.
      * exact IH.
Qed.

Lemma lookup_store k c r : lookup k (store c r) = if eKey c =? k then Some c else lookup k r.
Proof.
  unfold store. simpl. unfold hasKey at 1. destruct (eKey c =? k) eqn:E; [reflexivity|].
  fold (lookup k (delete (eKey c) r)). rewrite lookup_delete, E. reflexivity.
Qed.

Lemma lookup_none k r : ~ In k (keys r) -> lookup k r = None.
Proof.
  induction r as [|x r IH]; simpl; intros H; [reflexivity|].
  unfold hasKey at 1. destruct (eKey x =? k) eqn:E.
  - apply N.eqb_eq in E. tauto.
  - apply IH. tauto.
Qed.

Lemma keys_filter_in f r k : In k (keys (filter f r)) -> In k (keys r).
Proof.
  unfold keys. rewrite !in_map_iff. intros (c & H1 & H2). apply filter_In in H2. exists c. tauto.
Qed.

Lemma nodup_keys_filter f r : NoDup (keys r) -> NoDup (keys (filter f r)).
Proof.
  induction r as [|x r IH]; simpl; intros H; [constructor|].
  inversion H; subst. destruct (f x); simpl; auto.
  constructor; auto. intros Hin. apply keys_filter_in in Hin. tauto.
Qed.

Lemma nodup_keys_store c r : NoDup (keys r) -> NoDup (keys (store c r)).
Proof.
  intros H. unfold store. simpl. constructor.
  - unfold delete, keys. rewrite in_map_iff. intros (x & H1 & H2). apply filter_In in H2.
    destruct H2 as [_ H2]. unfold hasKey in H2. rewrite H1, N.eqb_refl in H2. discriminate.
  - apply nodup_keys_filter. exact H.
Qed.

Lemma keys_map_same (g : entry -> entry) r : (forall c, eKey (g c) = eKey c) -> keys (map g r) = keys r.
Proof. intros H. unfold keys. rewrite map_map. apply map_ext. exact H. Qed.

Lemma lookup_map (g : entry -> entry) k r :
  (forall c, eKey (g c) = eKey c) -> lookup k (map g r) = option_map g (lookup k r).
Proof.
  intros H. induction r as [|x r IH]; [reflexivity|].
  unfold lookup in *. simpl. unfold hasKey in *. rewrite H. destruct (eKey x =? k); [reflexivity|exact IH].
Qed.

Lemma occ_keys_filter f k r : NoDup (keys r) ->
  occ k (keys (filter f r)) = match lookup k r with Some c => if f c then 1%nat else 0%nat | None => 0%nat end.
Proof.
  induction r as [|x r IH]; intros H; [reflexivity|].
  simpl in H. inversion H; subst.
  change (lookup k (x :: r)) with (if hasKey k x then Some x else lookup k r). unfold hasKey.
  destruct (eKey x =? k) eqn:E.
  - apply N.eqb_eq in E. subst k.
    assert (Z : occ (eKey x) (keys (filter f r)) = 0%nat).
    { rewrite IH by assumption. rewrite lookup_none by assumption. reflexivity. }
    simpl. destruct (f x); [|exact Z]. simpl. rewrite occ_cons, N.eqb_refl, Z. reflexivity.
  - simpl. destruct (f x); simpl; [rewrite occ_cons, E; simpl|]; apply IH; assumption.
Qed.

Lemma occ_keys_app k l1 l2 : occ k (keys (l1 ++ l2)) = (occ k (keys l1) + occ k (keys l2))%nat.
Proof. unfold keys. rewrite map_app. apply occ_app. Qed.

Lemma occ_keys_snoc k l c : occ k (keys (l ++ [c])) = (occ k (keys l) + (if N.eqb (eKey c) k then 1 else 0))%nat.
Proof. rewrite occ_keys_app. simpl. rewrite occ_cons, occ_nil. lia. Qed.

Lemma occ_keys_lookup_none k r : NoDup (keys r) -> lookup k r = None -> occ k (keys r) = 0%nat.
Proof.
  intros H L.
  assert (filter (fun _ : entry => true) r = r) as E.
  { clear. induction r; simpl; congruence. }
  rewrite <- E. rewrite occ_keys_filter by assumption. rewrite L. reflexivity.
Qed.

(* ---- sorting ---- *)

Lemma insert_desc_perm e l : Permutation (insert_desc e l) (e :: l).
Proof.
  induction l as [|x l IH]; simpl; [reflexivity|].
  destruct (eOrd x <? eOrd e); [reflexivity|].
  rewrite IH. apply perm_swap.
Qed.

Lemma sort_desc_perm l : Permutation (sort_desc l) l.
Proof.
  induction l as [|x l IH]; simpl; [reflexivity|].
  rewrite insert_desc_perm. constructor. exact IH.
Qed.

Lemma occ_keys_sort k l : occ k (keys (sort_desc l)) = occ k (keys l).
Proof.
  unfold occ. apply Permutation_count_occ. unfold keys. apply Permutation_map. apply sort_desc_perm.
Qed.

Definition desc (a b : entry) : Prop := eOrd b <= eOrd a.
Definition sdesc (a b : entry) : Prop := eOrd b < eOrd a.

Lemma insert_desc_sorted e l : StronglySorted desc l -> StronglySorted desc (insert_desc e l).
Proof.
  induction l as [|x l IH]; simpl; intros H.
  - constructor; constructor.
  - inversion H; subst. destruct (eOrd x <? eOrd e) eqn:E.
    + apply N.ltb_lt in E. constructor; [exact H|].
      constructor; [unfold desc; lia|].
      rewrite Forall_forall in *. intros y Hy. specialize (H3 y Hy). unfold desc in *. lia.
    + apply N.ltb_ge in E. constructor; [apply IH; assumption|].
      rewrite Forall_forall in *. intros y Hy.
      apply (Permutation_in _ (insert_desc_perm e l)) in Hy. destruct Hy as [<-|Hy].
      * unfold desc. lia.
      * apply H3. exact Hy.
Qed.

Lemma sort_desc_sorted l : StronglySorted desc (sort_desc l).
Proof.
  induction l as [|x l IH]; simpl; [constructor|]. apply insert_desc_sorted. exact IH.
Qed.

(* with pairwise distinct orders the sorted list is strictly descending ... *)
Lemma sorted_strict l : StronglySorted desc l -> NoDup (map eOrd l) -> StronglySorted sdesc l.
Proof.
  induction l as [|x t IH]; intros S ND; [constructor|].
  inversion S; subst. simpl in ND. inversion ND; subst. constructor; [apply IH; assumption|].
  rewrite Forall_forall in *. intros y Hy. specialize (H2 y Hy). unfold desc in H2. unfold sdesc.
  assert (eOrd y <> eOrd x). { intros E. apply H3. rewrite <- E. apply in_map. exact Hy. }
  lia.
Qed.

Lemma sort_desc_strict l : NoDup (map eOrd l) -> StronglySorted sdesc (sort_desc l).
Proof.
  intros ND. apply sorted_strict; [apply sort_desc_sorted|].
  eapply Permutation_NoDup; [|exact ND]. apply Permutation_map. symmetry. apply sort_desc_perm.
Qed.

(* ... and any two strictly descending lists with the same elements are equal:
   the result of Go's (unstable) sort.Sort is determined *)
Lemma sdesc_perm_unique l1 : forall l2,
  StronglySorted sdesc l1 -> StronglySorted sdesc l2 -> Permutation l1 l2 -> l1 = l2.
Proof.
  induction l1 as [|x t IH]; intros l2 S1 S2 P.
  - apply Permutation_nil in P. congruence.
  - destruct l2 as [|y u]; [symmetry in P; apply Permutation_nil in P; discriminate|].
    inversion S1; subst. inversion S2; subst.
    assert (x = y).
    { assert (Hx : In x (y :: u)) by (eapply Permutation_in; [exact P|left; reflexivity]).
      assert (Hy : In y (x :: t)) by (eapply Permutation_in; [symmetry; exact P|left; reflexivity]).
      destruct Hx as [->|Hx]; [reflexivity|]. destruct Hy as [->|Hy]; [reflexivity|].
      rewrite Forall_forall in *. specialize (H2 y Hy). specialize (H4 x Hx). unfold sdesc in *. lia. }
    subst y. f_equal. apply IH; try assumption. eapply Permutation_cons_inv. exact P.
Qed.

(* ---- traces ---- *)

Definition nomark (o : obs) : bool := match o with Marked _ _ => false | _ => true end.

Lemma epoch_app_nomark k l t : forallb nomark l = true -> epoch k (l ++ t) = l ++ epoch k t.
Proof.
  induction l as [|o l IH]; simpl; intros H; [reflexivity|].
  apply andb_true_iff in H. destruct H as [H1 H2]. destruct o; simpl in *; try discriminate; rewrite IH; auto.
Qed.

Lemma nomark_emit_fin ks : forallb nomark (rev (map Fin ks)) = true.
Proof. apply forallb_forall. intros x Hx. apply in_rev in Hx. apply in_map_iff in Hx. destruct Hx as (k & <- & _). reflexivity. Qed.
Lemma nomark_emit_rel ks : forallb nomark (rev (map Rel ks)) = true.
Proof. apply forallb_forall. intros x Hx. apply in_rev in Hx. apply in_map_iff in Hx. destruct Hx as (k & <- & _). reflexivity. Qed.

Lemma cnt_app f l t : cnt f (l ++ t) = (cnt f l + cnt f t)%nat.
Proof. unfold cnt. rewrite filter_app, app_length. reflexivity. Qed.

Lemma cnt_rev f l : cnt f (rev l) = cnt f l.
Proof.
  induction l as [|x l IH]; simpl; [reflexivity|]. rewrite cnt_app, IH. unfold cnt. simpl.
  destruct (f x); simpl; lia.
Qed.

Lemma cnt_fin_fin k ks : cnt (isFin k) (map Fin ks) = occ k ks.
Proof. induction ks as [|x ks IH]; [reflexivity|]. rewrite occ_cons, <- IH. unfold cnt. simpl. destruct (x =? k); reflexivity. Qed.
Lemma cnt_rel_rel k ks : cnt (isRel k) (map Rel ks) = occ k ks.
Proof. induction ks as [|x ks IH]; [reflexivity|]. rewrite occ_cons, <- IH. unfold cnt. simpl. destruct (x =? k); reflexivity. Qed.
Lemma cnt_fin_rel k ks : cnt (isFin k) (map Rel ks) = 0%nat.
Proof. induction ks as [|x ks IH]; [reflexivity|]. unfold cnt in *. simpl. exact IH. Qed.
Lemma cnt_rel_fin k ks : cnt (isRel k) (map Fin ks) = 0%nat.
Proof. induction ks as [|x ks IH]; [reflexivity|]. unfold cnt in *. simpl. exact IH. Qed.

Lemma finc_emit_fin k ks t : finc k (emit Fin ks t) = (occ k ks + finc k t)%nat.
Proof. unfold finc, emit. rewrite epoch_app_nomark by apply nomark_emit_fin. rewrite cnt_app, cnt_rev, cnt_fin_fin. reflexivity. Qed.
Lemma finc_emit_rel k ks t : finc k (emit Rel ks t) = finc k t.
Proof. unfold finc, emit. rewrite epoch_app_nomark by apply nomark_emit_rel. rewrite cnt_app, cnt_rev, cnt_fin_rel. reflexivity. Qed.
Lemma relc_emit_rel k ks t : relc k (emit Rel ks t) = (occ k ks + relc k t)%nat.
Proof. unfold relc, emit. rewrite epoch_app_nomark by apply nomark_emit_rel. rewrite cnt_app, cnt_rev, cnt_rel_rel. reflexivity. Qed.
Lemma relc_emit_fin k ks t : relc k (emit Fin ks t) = relc k t.
Proof. unfold relc, emit. rewrite epoch_app_nomark by apply nomark_emit_fin. rewrite cnt_app, cnt_rev, cnt_rel_fin. reflexivity. Qed.

Lemma finc_marked k k' fl t : finc k (Marked k' fl :: t) = if k' =? k then 0%nat else finc k t.
Proof. unfold finc. simpl. destruct (k' =? k); reflexivity. Qed.
Lemma relc_marked k k' fl t : relc k (Marked k' fl :: t) = if k' =? k then 0%nat else relc k t.
Proof. unfold relc. simpl. destruct (k' =? k); reflexivity. Qed.

Lemma lastFlags_app_nomark k l t : forallb nomark l = true -> lastFlags k (l ++ t) = lastFlags k t.
Proof.
  induction l as [|o l IH]; simpl; intros H; [reflexivity|].
  apply andb_true_iff in H. destruct H as [H1 H2]. destruct o; simpl in *; try discriminate; auto.
Qed.
Lemma lastFlags_emit_fin k ks t : lastFlags k (emit Fin ks t) = lastFlags k t.
Proof. apply lastFlags_app_nomark, nomark_emit_fin. Qed.
Lemma lastFlags_emit_rel k ks t : lastFlags k (emit Rel ks t) = lastFlags k t.
Proof. apply lastFlags_app_nomark, nomark_emit_rel. Qed.

Lemma far_app_norel_fin k l e :
  (forall o, In o l -> isFin k o = false) -> finAfterRel k (l ++ e) = finAfterRel k e.
Proof.
  induction l as [|o l IH]; simpl; intros H; [reflexivity|].
  rewrite (H o) by (left; reflexivity). simpl. apply IH. intros; apply H; right; assumption.
Qed.

Lemma far_app_fin_norel k l e :
  (forall o, In o l -> isRel k o = false) -> cnt (isRel k) e = 0%nat ->
  finAfterRel k (l ++ e) = finAfterRel k e.
Proof.
  induction l as [|o l IH]; simpl; intros H Z; [reflexivity|].
  assert (cnt (isRel k) (l ++ e) = 0%nat) as ->.
  { rewrite cnt_app, Z. assert (cnt (isRel k) l = 0%nat) as ->; [|reflexivity].
    clear -H. induction l as [|x l IH]; [reflexivity|]. unfold cnt in *. simpl.
    rewrite (H x) by (right; left; reflexivity). apply IH. intros o' [E|Hin]; apply H; [left|right; right]; assumption. }
  simpl. rewrite andb_false_r. simpl. apply IH; [|exact Z]. intros; apply H; right; assumption.
Qed.

Lemma far_emit_rel k ks t : finAfterRel k (epoch k (emit Rel ks t)) = finAfterRel k (epoch k t).
Proof.
  unfold emit. rewrite epoch_app_nomark by apply nomark_emit_rel. apply far_app_norel_fin.
  intros o Ho. apply in_rev in Ho. apply in_map_iff in Ho. destruct Ho as (x & <- & _). reflexivity.
Qed.

Lemma far_emit_fin k ks t : occ k ks = 0%nat \/ relc k t = 0%nat ->
  finAfterRel k (epoch k (emit Fin ks t)) = finAfterRel k (epoch k t).
Proof.
  intros [H|H]; unfold emit; rewrite epoch_app_nomark by apply nomark_emit_fin.
  - apply far_app_norel_fin. intros o Ho. apply in_rev in Ho. apply in_map_iff in Ho.
    destruct Ho as (x & <- & Hx). simpl. destruct (x =? k) eqn:E; [|reflexivity].
    apply N.eqb_eq in E. subst x. exfalso. unfold occ in H. apply count_occ_not_In in H. tauto.
  - apply far_app_fin_norel; [|exact H].
    intros o Ho. apply in_rev in Ho. apply in_map_iff in Ho. destruct Ho as (x & <- & _). reflexivity.
Qed.

Lemma far_marked_other k k' fl t : k' <> k -> finAfterRel k (epoch k (Marked k' fl :: t)) = finAfterRel k (epoch k t).
Proof. intros H. simpl. apply N.eqb_neq in H. rewrite H. reflexivity. Qed.
