(* GC/Proofs.v — invariants of the finaliser pool in its environment.

   For every key k the world is projected to a small "view" (k's register
   entry, how often k sits in the two pending lists, k's reachability, and
   the counts read off the trace); every event acts on the view of every key
   in a simple way, and the per-key invariant KInvV is preserved. *)
From Coq Require Import NArith List Bool Lia Permutation Sorted Arith.
From GV Require Import GC.ClonePool GC.Lemmas.
Import ListNotations.
Open Scope N_scope.

Record kview := mkView {
  vLook : option entry;  (* k's entry in the register *)
  vNF : nat;             (* occurrences of k in pendingFinalize *)
  vNR : nat;             (* occurrences of k in pendingRelease *)
  vClosed : bool;
  vDrop : bool; vHeld : bool; vArmed : bool;
  vFinc : nat; vRelc : nat; vFar : bool;
  vWF : bool; vWR : bool; vLost : bool
}.

Definition look (w : world) (k : N) := lookup k (regList (pl w)).
Definition nF (w : world) (k : N) := occ k (keys (pendF (pl w))).
Definition nR (w : world) (k : N) := occ k (keys (pendR (pl w))).

Definition view (w : world) (k : N) : kview :=
  mkView (look w k) (nF w k) (nR w k) (closed (pl w))
         (mem k (dropped w)) (mem k (held w)) (mem k (armed w))
         (finc k (tr w)) (relc k (tr w)) (finAfterRel k (epoch k (tr w)))
         (wantsF k (tr w)) (wantsR k (tr w)) (mem k (lost w)).

Definition deadV (v : kview) : Prop :=
  vDrop v = true /\ vHeld v = false /\ vArmed v = false /\ vLook v = None /\ vNF v = 0%nat.

Definition owesFV (v : kview) : Prop := exists c, vLook v = Some c /\ eFin c = false.
Definition owesRV (v : kview) : Prop := exists c, vLook v = Some c /\ eRel c = false.

Record KInvV (v : kview) : Prop := {
  k_nF : (vNF v <= 1)%nat;
  k_pF : vNF v = 1%nat ->
         vDrop v = true /\ vHeld v = false /\ vArmed v = false /\ vFinc v = 0%nat /\
         (forall c, vLook v = Some c -> eFin c = true) /\ vNR v = 0%nat;
  k_oF : forall c, vLook v = Some c -> eFin c = false -> vFinc v = 0%nat;
  k_f1 : (vFinc v <= 1)%nat;
  k_nR : (vNR v <= 1)%nat;
  k_pR : vNR v = 1%nat -> deadV v /\ vRelc v = 0%nat;
  k_oR : forall c, vLook v = Some c -> eRel c = false -> vRelc v = 0%nat;
  k_r1 : (vRelc v <= 1)%nat;
  k_rd : vRelc v = 1%nat -> vClosed v = true \/ (deadV v /\ vNR v = 0%nat);
  k_far : vFar v = false;
  k_cl : vClosed v = true -> vLook v = None /\ vNF v = 0%nat /\ vNR v = 0%nat;
  k_wR : vWR v = true -> vRelc v = 1%nat \/ (vClosed v = false /\ (owesRV v \/ vNR v = 1%nat));
  k_wF : vWF v = true -> vFinc v = 1%nat \/ (vClosed v = false /\ (owesFV v \/ vNF v = 1%nat)) \/ vLost v = true;
  k_lc : vClosed v = false -> vLost v = false
}.

Definition GInv (w : world) : Prop := NoDup (keys (regList (pl w))).
Definition Inv (w : world) : Prop := GInv w /\ forall k, KInvV (view w k).

Ltac keq k0 k :=
  let E := fresh "E" in let NE := fresh "NE" in
  destruct (N.eq_dec k0 k) as [E|NE];
  [ rewrite ?E in *; clear E; rewrite ?N.eqb_refl in * | rewrite ?(proj2 (N.eqb_neq _ _) NE) in * ].

Lemma Inv0 : Inv world0.
Proof.
  split; [constructor|]. intros k. constructor; simpl; unfold deadV, owesRV, owesFV; simpl; try lia; try discriminate; auto;
  intros; try discriminate; try lia.
Qed.

(* ------------------------------------------------------------------ Mark *)

Lemma mark_pool p k0 fl r : reg p = Some r -> NoDup (keys r) ->
  let p' := fst (mark p k0 fl) in
  let c' := mkEntry k0 (last p + 1) (negb (N.testbit fl 0)) (negb (N.testbit fl 1)) in
  (forall k, lookup k (regList p') =
             if k0 =? k then (match lookup k0 r with
                              | Some _ => Some c'
                              | None => if fl =? 0 then None else Some c' end)
             else lookup k r) /\
  pendF p' = pendF p /\ pendR p' = pendR p /\ closed p' = false /\ NoDup (keys (regList p')).
Proof.
  intros Hr ND. unfold mark. rewrite Hr.
  destruct (lookup k0 r) as [c|] eqn:L; [|destruct (fl =? 0) eqn:Z]; cbn [fst regList reg pendF pendR closed].
  - repeat split; auto. + intros k. rewrite lookup_store. reflexivity. + apply nodup_keys_store; exact ND.
  - unfold regList, closed. rewrite Hr. repeat split; auto.
    intros k. keq k0 k; [exact L|reflexivity].
  - repeat split; auto. + intros k. rewrite lookup_store. reflexivity. + apply nodup_keys_store; exact ND.
Qed.

Lemma step_mark w w' k0 fl : Inv w -> wstep w (EMark k0 fl) = Some w' -> Inv w'.
Proof.
  intros [G K] H. unfold wstep in H.
  destruct (closed (pl w)) eqn:C; [discriminate|]. cbn [orb] in H.
  destruct (mem k0 (dropped w) && negb (mem k0 (held w))) eqn:EN; [discriminate|].
  destruct (mark (pl w) k0 fl) as [p' x] eqn:M. inversion H; subst w'; clear H.
  unfold closed in C. destruct (reg (pl w)) as [r|] eqn:Hr; [|discriminate].
  assert (G' : NoDup (keys r)) by (unfold GInv, regList in G; rewrite Hr in G; exact G).
  generalize (mark_pool (pl w) k0 fl r Hr G'). rewrite M. cbn [fst].
  intros (HL & HF & HR & HC & HN).
  split; [exact HN|]. intros k. specialize (K k).
  assert (LK : look w k = lookup k r) by (unfold look, regList; rewrite Hr; reflexivity).
  keq k0 k.
  - (* the marked key *)
    destruct K. unfold view in *. cbn [vLook vNF vNR vClosed vDrop vHeld vArmed vFinc vRelc vFar vWF vWR vLost] in *.
    unfold look, nF, nR in *. cbn [pl dropped held armed tr lost] in *.
    assert (NF0 : occ k (keys (pendF (pl w))) = 0%nat).
    { destruct (Nat.eq_dec (occ k (keys (pendF (pl w)))) 1) as [E1|E1]; [|lia].
      destruct (k_pF0 E1) as (D & Hh & _). rewrite D, Hh in EN. discriminate. }
    assert (NR0 : occ k (keys (pendR (pl w))) = 0%nat).
    { destruct (Nat.eq_dec (occ k (keys (pendR (pl w)))) 1) as [E1|E1]; [|lia].
      destruct (k_pR0 E1) as ((D & Hh & _) & _). cbn in D, Hh. rewrite D, Hh in EN. discriminate. }
    specialize (HL k). rewrite N.eqb_refl in HL.
    set (c' := mkEntry k (last (pl w) + 1) (negb (N.testbit fl 0)) (negb (N.testbit fl 1))) in *.
    assert (CASES : (lookup k (regList p') = None /\ fl = 0) \/ lookup k (regList p') = Some c').
    { destruct (lookup k r); [right; exact HL|]. destruct (fl =? 0) eqn:Z; [left; split; [exact HL|apply N.eqb_eq; exact Z]|right; exact HL]. }
    destruct CASES as [[HLk Z0]|HLk].
    + (* flags 0 on a value the pool does not know: nothing happens *)
      subst fl.
      constructor; cbn [vLook vNF vNR vClosed vDrop vHeld vArmed vFinc vRelc vFar vWF vWR vLost];
        rewrite ?HF, ?HR, ?HC, ?HLk, ?finc_marked, ?relc_marked, ?N.eqb_refl; try lia; try discriminate.
      * simpl. rewrite N.eqb_refl. reflexivity.
      * unfold wantsR. simpl. rewrite N.eqb_refl. discriminate.
      * unfold wantsF. simpl. rewrite N.eqb_refl. discriminate.
      * intros _. apply mem_rm_same.
    + constructor; cbn [vLook vNF vNR vClosed vDrop vHeld vArmed vFinc vRelc vFar vWF vWR vLost];
        rewrite ?HF, ?HR, ?HC, ?HLk, ?finc_marked, ?relc_marked, ?N.eqb_refl; try lia; try discriminate.
      * simpl. rewrite N.eqb_refl. reflexivity.
      * unfold wantsR. simpl. rewrite N.eqb_refl. intros WR. right. split; [reflexivity|]. left.
        exists c'. split; [reflexivity|]. simpl. rewrite WR. reflexivity.
      * unfold wantsF. simpl. rewrite N.eqb_refl. intros WF. right. left. split; [reflexivity|]. left.
        exists c'. split; [reflexivity|]. simpl. rewrite WF. reflexivity.
      * intros _. apply mem_rm_same.
  - (* another key *)
    assert (AR : mem k (match oCalls x with
                        | [] => armed w
                        | [(_, false)] => rm k0 (armed w)
                        | _ => k0 :: armed w end) = mem k (armed w)).
    { assert (C1 : mem k (k0 :: armed w) = mem k (armed w)).
      { rewrite mem_cons. assert (k =? k0 = false) as -> by (apply N.eqb_neq; congruence). reflexivity. }
      destruct (oCalls x) as [|[a b] [|? ?]]; try reflexivity; destruct b; try exact C1.
      apply mem_rm_other; exact NE. }
    assert (V : view (mkWorld p' (dropped w) (held w)
                 (match oCalls x with | [] => armed w | [(_, false)] => rm k0 (armed w) | _ => k0 :: armed w end)
                 (rm k0 (lost w)) (Marked k0 fl :: tr w)) k = view w k).
    { unfold view, look, nF, nR, wantsF, wantsR. cbn [pl dropped held armed tr lost].
      rewrite HL, HF, HR, HC, AR, finc_marked, relc_marked, far_marked_other, mem_rm_other by exact NE.
      cbn [lastFlags]. rewrite (proj2 (N.eqb_neq _ _) NE).
      fold (look w k). rewrite <- LK. f_equal. unfold closed. rewrite Hr. reflexivity. }
    rewrite V. exact K.
Qed.

(* ------------------------------------------- events that only touch the environment *)

Lemma KInvV_env v d h a :
  KInvV v ->
  (vDrop v = true -> vHeld v = false -> d = true) ->
  (vHeld v = false -> h = false) ->
  (vDrop v = true -> vHeld v = false -> vArmed v = false -> a = false) ->
  KInvV (mkView (vLook v) (vNF v) (vNR v) (vClosed v) d h a (vFinc v) (vRelc v) (vFar v) (vWF v) (vWR v) (vLost v)).
Proof.
  intros [A1 A2 A3 A4 A5 A6 A7 A8 A9 A10 A11 A12 A13 A14] Hd Hh Ha.
  unfold deadV, owesRV, owesFV in *.
  constructor; unfold deadV, owesRV, owesFV; cbn [vLook vNF vNR vClosed vDrop vHeld vArmed vFinc vRelc vFar vWF vWR vLost]; auto.
  - intros E. destruct (A2 E) as (D & H & A & R). repeat split; auto; tauto.
  - intros E. destruct (A6 E) as ((D & H & A & R) & R2). repeat split; auto; tauto.
  - intros E. destruct (A9 E) as [C|((D & H & A & R) & R2)]; [left; exact C|right]. repeat split; auto; tauto.
Qed.

Lemma view_env p d h a l t k :
  view (mkWorld p d h a l t) k =
  mkView (lookup k (regList p)) (occ k (keys (pendF p))) (occ k (keys (pendR p))) (closed p)
         (mem k d) (mem k h) (mem k a) (finc k t) (relc k t) (finAfterRel k (epoch k t))
         (wantsF k t) (wantsR k t) (mem k l).
Proof. reflexivity. Qed.

Lemma Kenv w d h a k : KInvV (view w k) ->
  (mem k (dropped w) = true -> mem k (held w) = false -> mem k d = true) ->
  (mem k (held w) = false -> mem k h = false) ->
  (mem k (dropped w) = true -> mem k (held w) = false -> mem k (armed w) = false -> mem k a = false) ->
  KInvV (view (mkWorld (pl w) d h a (lost w) (tr w)) k).
Proof. intros. apply (KInvV_env (view w k) (mem k d) (mem k h) (mem k a)); assumption. Qed.

Lemma step_drop w w' k0 : Inv w -> wstep w (EDrop k0) = Some w' -> Inv w'.
Proof.
  intros [G K] H. inversion H; subst; clear H. split; [exact G|]. intros k.
  apply Kenv; auto. intros D _. rewrite mem_cons, D. apply orb_true_r.
Qed.

Lemma step_res w w' k0 : Inv w -> wstep w (EResurrect k0) = Some w' -> Inv w'.
Proof.
  intros [G K] H. unfold wstep in H. destruct (mem k0 (held w)) eqn:Hh; [|discriminate].
  inversion H; subst; clear H. split; [exact G|]. intros k.
  apply Kenv; auto. intros D Hk. keq k0 k; [congruence|]. rewrite mem_rm_other by exact NE. exact D.
Qed.

Lemma step_finret w w' : Inv w -> wstep w EFinReturn = Some w' -> Inv w'.
Proof.
  intros [G K] H. inversion H; subst; clear H. split; [exact G|]. intros k.
  apply Kenv; auto.
Qed.

(* ------------------------------------------------------------------ GoGC *)

Lemma step_gogc w w' k0 : Inv w -> wstep w (EGoGC k0) = Some w' -> Inv w'.
Proof.
  intros [G K] H. unfold wstep in H.
  destruct (mem k0 (dropped w) && negb (mem k0 (held w)) && mem k0 (armed w)) eqn:EN; [|discriminate].
  apply andb_true_iff in EN. destruct EN as [EN Ha]. apply andb_true_iff in EN. destruct EN as [Hd Hh].
  apply negb_true_iff in Hh.
  inversion H; subst w'; clear H.
  unfold goFinalizer. destruct (reg (pl w)) as [r|] eqn:Hr.
  2:{ (* closed pool: nothing happens *)
    split; [exact G|]. intros k.
    apply Kenv; auto.
    intros _ _ A. keq k0 k; [apply mem_rm_same|rewrite mem_rm_other by exact NE; exact A]. }
  assert (G' : NoDup (keys r)) by (unfold GInv, regList in G; rewrite Hr in G; exact G).
  assert (LKr : forall k, look w k = lookup k r) by (intros; unfold look, regList; rewrite Hr; reflexivity).
  assert (CL : closed (pl w) = false) by (unfold closed; rewrite Hr; reflexivity).
  destruct (lookup k0 r) as [c|] eqn:L.
  2:{ split; [exact G|]. intros k.
    apply Kenv; auto.
    intros _ _ A. keq k0 k; [apply mem_rm_same|rewrite mem_rm_other by exact NE; exact A]. }
  assert (Kc : eKey c = k0) by (eapply lookup_key; exact L).
  pose proof (K k0) as K0. destruct K0 as [A1 A2 A3 A4 A5 A6 A7 A8 A9 A10 A11 A12 A13 A14].
  unfold deadV, owesRV, owesFV in *. cbn [view vLook vNF vNR vClosed vDrop vHeld vArmed vFinc vRelc vFar vWF vWR vLost] in *.
  rewrite LKr, L in *.
  assert (NF0 : nF w k0 = 0%nat).
  { destruct (Nat.eq_dec (nF w k0) 1) as [E1|E1]; [|lia]. destruct (A2 E1) as (_ & _ & A & _). congruence. }
  assert (NR0 : nR w k0 = 0%nat).
  { destruct (Nat.eq_dec (nR w k0) 1) as [E1|E1]; [|lia]. destruct (A6 E1) as ((_ & _ & A & _) & _). congruence. }
  assert (RC : relc k0 (tr w) <> 1%nat).
  { intros E1. destruct (A9 E1) as [C|((_ & _ & A & _) & _)]; congruence. }
  destruct (eFin c) eqn:EF; cbn [negb].
  - (* second collection: the entry leaves the register, possibly to pendingRelease *)
    split.
    { unfold GInv. cbn [pl regList reg]. apply nodup_keys_filter. exact G'. }
    intros k. rewrite view_env. cbn [regList reg pendF pendR closed]. rewrite lookup_delete.
    keq k0 k.
    + rewrite mem_rm_same, Hd, Hh. fold (nF w k). rewrite NF0.
      replace (occ k (keys (if negb (eRel c) then pendR (pl w) ++ [c] else pendR (pl w))))
        with (if eRel c then 0%nat else 1%nat).
      2:{ destruct (eRel c); cbn [negb]; [symmetry; exact NR0|].
          rewrite occ_keys_snoc, Kc, N.eqb_refl. fold (nR w k). lia. }
      constructor; unfold deadV, owesRV, owesFV; cbn [vLook vNF vNR vClosed vDrop vHeld vArmed vFinc vRelc vFar vWF vWR vLost];
        try lia; try discriminate; auto.
      * destruct (eRel c); lia.
      * destruct (eRel c) eqn:ER; [discriminate|]. intros _. repeat split; auto. apply (A7 c); auto.
      * intros WR. destruct (A12 WR) as [E1|(_ & [(c' & Hc & ER)|E1])]; [congruence| |lia].
        inversion Hc; subst c'. rewrite ER. right. split; [reflexivity|]. right. reflexivity.
      * intros WF. destruct (A13 WF) as [E1|[(_ & [(c' & Hc & EF')|E1])|E1]]; [left; exact E1| |lia|right; right; exact E1].
        inversion Hc; subst c'. congruence.
    + assert (V : mkView (lookup k r)
                  (occ k (keys (pendF (pl w))))
                  (occ k (keys (if negb (eRel c) then pendR (pl w) ++ [c] else pendR (pl w))))
                  false (mem k (dropped w)) (mem k (held w)) (mem k (rm k0 (armed w)))
                  (finc k (tr w)) (relc k (tr w)) (finAfterRel k (epoch k (tr w))) (wantsF k (tr w)) (wantsR k (tr w)) (mem k (lost w))
                = view w k).
      { unfold view. rewrite LKr, CL, mem_rm_other by exact NE. unfold nF, nR. f_equal.
        destruct (eRel c); cbn [negb]; [reflexivity|]. rewrite occ_keys_snoc, Kc.
        rewrite (proj2 (N.eqb_neq _ _) NE). lia. }
      rewrite V. apply K.
  - (* first collection: pending finalize *)
    split.
    { unfold GInv. cbn [pl regList reg]. apply nodup_keys_store. exact G'. }
    intros k. rewrite view_env. cbn [regList reg pendF pendR closed]. rewrite lookup_store.
    cbn [setFin eKey]. rewrite Kc.
    keq k0 k.
    + rewrite mem_rm_same, Hd, Hh. rewrite occ_keys_snoc, Kc, N.eqb_refl. fold (nF w k) (nR w k). rewrite NF0, NR0.
      constructor; unfold deadV, owesRV, owesFV; cbn [vLook vNF vNR vClosed vDrop vHeld vArmed vFinc vRelc vFar vWF vWR vLost];
        try lia; try discriminate; auto.
      * intros _. repeat split; auto. { apply (A3 c); auto. } intros c' Hc. inversion Hc. reflexivity.
      * intros c' Hc. inversion Hc. cbn. discriminate.
      * intros WR. destruct (A12 WR) as [E1|(_ & [(c' & Hc & ER)|E1])]; [congruence| |lia].
        inversion Hc; subst c'. right. split; [reflexivity|]. left. eexists. split; [reflexivity|]. exact ER.
    + assert (V : mkView (lookup k r)
                  (occ k (keys (pendF (pl w) ++ [c]))) (occ k (keys (pendR (pl w))))
                  false (mem k (dropped w)) (mem k (held w)) (mem k (rm k0 (armed w)))
                  (finc k (tr w)) (relc k (tr w)) (finAfterRel k (epoch k (tr w))) (wantsF k (tr w)) (wantsR k (tr w)) (mem k (lost w))
                = view w k).
      { unfold view. rewrite LKr, CL, mem_rm_other by exact NE. unfold nF, nR. f_equal.
        rewrite occ_keys_snoc, Kc. rewrite (proj2 (N.eqb_neq _ _) NE). lia. }
      rewrite V. apply K.
Qed.

(* ------------------------------------------------------------ extractions *)

Lemma regList_same p l f q : regList (mkPool (reg p) l f q) = regList p.
Proof. reflexivity. Qed.
Lemma closed_same p l f q : closed (mkPool (reg p) l f q) = closed p.
Proof. reflexivity. Qed.

Lemma mem_keys_occ k ks l : mem k (ks ++ l) = negb (Nat.eqb (occ k ks) 0) || mem k l.
Proof. rewrite mem_app, mem_occ. reflexivity. Qed.

Lemma step_runpf w w' : Inv w -> wstep w ERunPF = Some w' -> Inv w'.
Proof.
  intros [G K] H. unfold wstep in H. destruct (closed (pl w)) eqn:C; [discriminate|].
  unfold extPF in H. inversion H; subst w'; clear H. cbn [oVals].
  split; [exact G|]. intros k. specialize (K k). rewrite view_env. cbn [pendF pendR].
  rewrite !mem_keys_occ, finc_emit_fin, relc_emit_fin, occ_keys_sort.
  unfold wantsF, wantsR. rewrite lastFlags_emit_fin. fold (wantsF k (tr w)) (wantsR k (tr w)).
  rewrite regList_same, closed_same. fold (look w k) (nF w k) (nR w k). change (occ k (keys [])) with 0%nat.
  rewrite C.
  destruct K as [A1 A2 A3 A4 A5 A6 A7 A8 A9 A10 A11 A12 A13 A14].
  unfold deadV, owesRV, owesFV in *. cbn [view vLook vNF vNR vClosed vDrop vHeld vArmed vFinc vRelc vFar vWF vWR vLost] in *.
  rewrite C in *.
  assert (FAR : finAfterRel k (epoch k (emit Fin (keys (sort_desc (pendF (pl w)))) (tr w))) = false).
  { rewrite far_emit_fin; [exact A10|]. rewrite occ_keys_sort. fold (nF w k).
    destruct (Nat.eq_dec (relc k (tr w)) 1) as [E1|E1]; [|right; lia].
    destruct (A9 E1) as [?|((_ & _ & _ & _ & Z) & _)]; [discriminate|left; exact Z]. }
  rewrite FAR.
  destruct (Nat.eq_dec (nF w k) 1) as [E1|E1].
  - destruct (A2 E1) as (D & Hh & Ha & F0 & Lc & R0). rewrite E1. cbn [Nat.eqb negb orb].
    constructor; unfold deadV, owesRV, owesFV; cbn [vLook vNF vNR vClosed vDrop vHeld vArmed vFinc vRelc vFar vWF vWR vLost];
      try lia; try discriminate; auto.
    + intros c Hc EF. rewrite (Lc c Hc) in EF. discriminate.
  - assert (Z : nF w k = 0%nat) by lia. rewrite Z. cbn [Nat.eqb negb orb plus].
    constructor; unfold deadV, owesRV, owesFV; cbn [vLook vNF vNR vClosed vDrop vHeld vArmed vFinc vRelc vFar vWF vWR vLost];
      try lia; try discriminate; auto.
    + intros E2. destruct (A6 E2) as ((? & ? & ? & ? & ?) & ?). repeat split; auto.
    + intros E2. destruct (A9 E2) as [?|((? & ? & ? & ? & ?) & ?)]; [discriminate|]. right. repeat split; auto.
    + intros WF. destruct (A13 WF) as [?|[(_ & [?|?])|?]]; [left; assumption|right; left; split; auto|lia|right; right; assumption].
Qed.

Lemma step_runpr w w' : Inv w -> wstep w ERunPR = Some w' -> Inv w'.
Proof.
  intros [G K] H. unfold wstep in H. destruct (closed (pl w)) eqn:C; [discriminate|].
  unfold extPR in H. inversion H; subst w'; clear H. cbn [oVals].
  split; [exact G|]. intros k. specialize (K k). rewrite view_env. cbn [pendF pendR].
  rewrite finc_emit_rel, relc_emit_rel, occ_keys_sort, far_emit_rel.
  unfold wantsF, wantsR. rewrite lastFlags_emit_rel. fold (wantsF k (tr w)) (wantsR k (tr w)).
  rewrite regList_same, closed_same. fold (look w k) (nF w k) (nR w k). change (occ k (keys [])) with 0%nat.
  rewrite C.
  destruct K as [A1 A2 A3 A4 A5 A6 A7 A8 A9 A10 A11 A12 A13 A14].
  unfold deadV, owesRV, owesFV in *. cbn [view vLook vNF vNR vClosed vDrop vHeld vArmed vFinc vRelc vFar vWF vWR vLost] in *.
  rewrite C in *.
  destruct (Nat.eq_dec (nR w k) 1) as [E1|E1].
  - destruct (A6 E1) as ((D & Hh & Ha & Lk & F0) & R0). rewrite E1, R0.
    constructor; unfold deadV, owesRV, owesFV; cbn [vLook vNF vNR vClosed vDrop vHeld vArmed vFinc vRelc vFar vWF vWR vLost];
      try lia; try discriminate; auto.
    + intros c Hc. congruence.
    + intros _. right. repeat split; auto.
  - assert (Z : nR w k = 0%nat) by lia. rewrite Z. cbn [plus].
    constructor; unfold deadV, owesRV, owesFV; cbn [vLook vNF vNR vClosed vDrop vHeld vArmed vFinc vRelc vFar vWF vWR vLost];
      try lia; try discriminate; auto.
    + intros E2. destruct (A2 E2) as (? & ? & ? & ? & ? & ?). repeat split; auto.
    + intros E2. destruct (A9 E2) as [?|(? & ?)]; [discriminate|]. right. split; auto.
    + intros WR. destruct (A12 WR) as [?|(_ & [?|?])]; [left; assumption|right; split; auto|lia].
Qed.

Definition finAll (c : entry) : entry := if notFin c then setFin c else c.
Lemma finAll_key c : eKey (finAll c) = eKey c. Proof. unfold finAll. destruct (notFin c); reflexivity. Qed.
Lemma finAll_fin c : eFin (finAll c) = true.
Proof. unfold finAll, notFin. destruct (eFin c) eqn:E; simpl; auto. Qed.
Lemma finAll_rel c : eRel (finAll c) = eRel c. Proof. unfold finAll. destruct (notFin c); reflexivity. Qed.

Lemma step_closef w w' : Inv w -> wstep w ECloseF = Some w' -> Inv w'.
Proof.
  intros [G K] H. unfold wstep in H. destruct (closed (pl w)) eqn:C; [discriminate|].
  unfold extAF in H. unfold closed in C. destruct (reg (pl w)) as [r|] eqn:Hr; [|discriminate].
  inversion H; subst w'; clear H. cbn [oVals].
  assert (G' : NoDup (keys r)) by (unfold GInv, regList in G; rewrite Hr in G; exact G).
  fold finAll.
  split. { unfold GInv. cbn [pl regList reg]. rewrite keys_map_same by apply finAll_key. exact G'. }
  intros k. specialize (K k). rewrite view_env. cbn [regList reg pendF pendR closed].
  assert (OCC : occ k (keys (sort_desc (pendF (pl w) ++ filter notFin r))) =
                (nF w k + match lookup k r with Some c => if notFin c then 1 else 0 | None => 0 end)%nat).
  { rewrite occ_keys_sort, occ_keys_app, occ_keys_filter by exact G'. reflexivity. }
  rewrite !mem_keys_occ, finc_emit_fin, relc_emit_fin, OCC.
  unfold wantsF, wantsR. rewrite lastFlags_emit_fin. fold (wantsF k (tr w)) (wantsR k (tr w)).
  rewrite lookup_map by apply finAll_key.
  fold (nR w k). change (occ k (keys [])) with 0%nat.
  assert (LK : look w k = lookup k r) by (unfold look, regList; rewrite Hr; reflexivity).
  assert (CL : closed (pl w) = false) by (unfold closed; rewrite Hr; reflexivity).
  destruct K as [A1 A2 A3 A4 A5 A6 A7 A8 A9 A10 A11 A12 A13 A14].
  unfold deadV, owesRV, owesFV in *. cbn [view vLook vNF vNR vClosed vDrop vHeld vArmed vFinc vRelc vFar vWF vWR vLost] in *.
  rewrite LK, CL in *. specialize (A14 eq_refl).
  assert (FAR : finAfterRel k (epoch k (emit Fin (keys (sort_desc (pendF (pl w) ++ filter notFin r))) (tr w))) = false).
  { rewrite far_emit_fin; [exact A10|]. rewrite OCC.
    destruct (Nat.eq_dec (relc k (tr w)) 1) as [E1|E1]; [|right; lia].
    destruct (A9 E1) as [?|((_ & _ & _ & Z & Z2) & _)]; [discriminate|left; rewrite Z, Z2; reflexivity]. }
  rewrite FAR.
  destruct (lookup k r) as [c|] eqn:L; cbn [option_map].
  - assert (NR0 : nR w k = 0%nat).
    { destruct (Nat.eq_dec (nR w k) 1) as [E1|E1]; [|lia]. destruct (A6 E1) as ((_ & _ & _ & ? & _) & _). discriminate. }
    assert (RC : relc k (tr w) <> 1%nat).
    { intros E1. destruct (A9 E1) as [?|((_ & _ & _ & ? & _) & _)]; discriminate. }
    (* the number of finaliser calls emitted for k now, and what it adds up to *)
    assert (EM : (nF w k + (if notFin c then 1 else 0) + finc k (tr w) <= 1)%nat /\
                 (wantsF k (tr w) = true -> (nF w k + (if notFin c then 1 else 0) + finc k (tr w) = 1)%nat)).
    { unfold notFin. destruct (Nat.eq_dec (nF w k) 1) as [E1|E1].
      - destruct (A2 E1) as (_ & _ & _ & F0 & Lc & _). rewrite (Lc c eq_refl). cbn [negb]. split; [lia|intros _; lia].
      - assert (Z : nF w k = 0%nat) by lia. rewrite Z. destruct (eFin c) eqn:EF; cbn [negb].
        + split; [lia|]. intros WF. destruct (A13 WF) as [E2|[(_ & [(c' & Hc & EF')|E2])|E2]]; [lia| |lia|congruence].
          inversion Hc; subst c'. congruence.
        + rewrite (A3 c eq_refl EF). split; [lia|intros _; lia]. }
    destruct EM as [EM1 EM2].
    constructor; unfold deadV, owesRV, owesFV; cbn [vLook vNF vNR vClosed vDrop vHeld vArmed vFinc vRelc vFar vWF vWR vLost];
      try lia; try discriminate; auto.
    + intros c' Hc EF. inversion Hc; subst c'. rewrite finAll_fin in EF. discriminate.
    + intros WR. destruct (A12 WR) as [?|(_ & [(c' & Hc & ER)|?])]; [lia| |lia].
      inversion Hc; subst c'. right. split; [reflexivity|]. left. exists (finAll c). rewrite finAll_rel. auto.
  - rewrite Nat.add_0_r.
    assert (EM : (nF w k + finc k (tr w) <= 1)%nat /\ (wantsF k (tr w) = true -> (nF w k + finc k (tr w) = 1)%nat)).
    { destruct (Nat.eq_dec (nF w k) 1) as [E1|E1].
      - destruct (A2 E1) as (_ & _ & _ & F0 & _). split; [lia|intros _; lia].
      - assert (Z : nF w k = 0%nat) by lia. rewrite Z. split; [lia|].
        intros WF. destruct (A13 WF) as [E2|[(_ & [(c' & Hc & EF')|E2])|E2]]; [lia|discriminate|lia|congruence]. }
    destruct EM as [EM1 EM2].
    constructor; unfold deadV, owesRV, owesFV; cbn [vLook vNF vNR vClosed vDrop vHeld vArmed vFinc vRelc vFar vWF vWR vLost];
      try lia; try discriminate; auto.
    + intros E2. destruct (A6 E2) as ((? & ? & ? & ? & Z) & ?). rewrite Z. repeat split; auto.
    + intros E2. destruct (A9 E2) as [?|((? & ? & ? & ? & Z) & ?)]; [discriminate|]. right. rewrite Z. repeat split; auto.
Qed.

Lemma step_pop w w' : Inv w -> wstep w EPop = Some w' -> Inv w'.
Proof.
  intros [G K] H. unfold wstep in H. destruct (closed (pl w)) eqn:C; [discriminate|].
  unfold extAF in H. unfold closed in C. destruct (reg (pl w)) as [r|] eqn:Hr; [|discriminate].
  unfold extAR in H. cbn [reg pendR pendF last] in H.
  inversion H; subst w'; clear H. cbn [oVals].
  assert (G' : NoDup (keys r)) by (unfold GInv, regList in G; rewrite Hr in G; exact G).
  fold finAll.
  split. { unfold GInv. cbn [pl regList reg]. constructor. }
  intros k. specialize (K k). rewrite view_env. cbn [regList reg pendF pendR closed lookup find].
  rewrite finc_emit_rel, relc_emit_rel, occ_keys_sort, far_emit_rel, occ_keys_app.
  unfold wantsF, wantsR. rewrite lastFlags_emit_rel. fold (wantsF k (tr w)) (wantsR k (tr w)).
  rewrite occ_keys_filter by (rewrite keys_map_same by apply finAll_key; exact G').
  rewrite lookup_map by apply finAll_key.
  rewrite !mem_keys_occ, occ_keys_sort, occ_keys_app, (occ_keys_filter notFin k r G').
  fold (nR w k) (nF w k). change (occ k (keys [])) with 0%nat.
  assert (LK : look w k = lookup k r) by (unfold look, regList; rewrite Hr; reflexivity).
  assert (CL : closed (pl w) = false) by (unfold closed; rewrite Hr; reflexivity).
  destruct K as [A1 A2 A3 A4 A5 A6 A7 A8 A9 A10 A11 A12 A13 A14].
  unfold deadV, owesRV, owesFV in *. cbn [view vLook vNF vNR vClosed vDrop vHeld vArmed vFinc vRelc vFar vWF vWR vLost] in *.
  rewrite LK, CL in *.
  destruct (lookup k r) as [c|] eqn:L; cbn [option_map].
  - assert (NR0 : nR w k = 0%nat).
    { destruct (Nat.eq_dec (nR w k) 1) as [E1|E1]; [|lia]. destruct (A6 E1) as ((_ & _ & _ & ? & _) & _). discriminate. }
    assert (RC : relc k (tr w) <> 1%nat).
    { intros E1. destruct (A9 E1) as [?|((_ & _ & _ & ? & _) & _)]; discriminate. }
    rewrite NR0. unfold notRel. rewrite finAll_rel.
    constructor; unfold deadV, owesRV, owesFV; cbn [vLook vNF vNR vClosed vDrop vHeld vArmed vFinc vRelc vFar vWF vWR vLost];
      try lia; try discriminate; auto.
    + destruct (eRel c) eqn:ER; cbn [negb]; [lia|]. rewrite (A7 c eq_refl ER). lia.
    + intros WR. left. destruct (A12 WR) as [?|(_ & [(c' & Hc & ER)|?])]; [lia| |lia].
      inversion Hc; subst c'. rewrite ER. cbn [negb]. rewrite (A7 c eq_refl ER). lia.
    + intros WF. destruct (A13 WF) as [E1|[(_ & [(c' & Hc & EF')|E1])|E1]]; [left; exact E1| | |].
      * inversion Hc; subst c'. right. right. unfold notFin. rewrite EF'. cbn [negb].
        assert (Nat.eqb (nF w k + 1) 0 = false) as -> by (apply Nat.eqb_neq; lia). reflexivity.
      * right. right. rewrite E1. reflexivity.
      * right. right. rewrite E1. apply orb_true_r.
  - constructor; unfold deadV, owesRV, owesFV; cbn [vLook vNF vNR vClosed vDrop vHeld vArmed vFinc vRelc vFar vWF vWR vLost];
      try lia; try discriminate; auto.
    + intros WR. left. destruct (A12 WR) as [?|(_ & [(c' & Hc & ER)|?])]; [|discriminate|].
      * destruct (Nat.eq_dec (nR w k) 1) as [E1|E1]; [|lia]. destruct (A6 E1) as (_ & Z). lia.
      * destruct (A6 H) as (_ & Z). lia.
    + intros WF. destruct (A13 WF) as [E1|[(_ & [(c' & Hc & EF')|E1])|E1]]; [left; exact E1|discriminate| |].
      * right. right. rewrite E1. reflexivity.
      * right. right. rewrite E1. apply orb_true_r.
Qed.

Lemma occ_firstn_skipn k n l : (occ k (firstn n l) + occ k (skipn n l))%nat = occ k l.
Proof. rewrite <- occ_app, firstn_skipn. reflexivity. Qed.

(* a finaliser of the batch terminates its context: the rest of the batch is dropped, the releases are made by PopContext *)
Lemma step_runpfkill w w' j : Inv w -> wstep w (ERunPFKill j) = Some w' -> Inv w'.
Proof.
  intros [G K] H. unfold wstep in H. remember (S j) as n eqn:En in H. clear En.
  destruct (closed (pl w)) eqn:C; [discriminate|].
  unfold extPF, extAF in H. cbn [reg pendF pendR last oVals] in H.
  unfold closed in C. destruct (reg (pl w)) as [r|] eqn:Hr; [|discriminate].
  unfold extAR in H. cbn [reg pendR pendF last oVals] in H.
  inversion H; subst w'; clear H.
  assert (G' : NoDup (keys r)) by (unfold GInv, regList in G; rewrite Hr in G; exact G).
  fold finAll.
  split. { unfold GInv. cbn [pl regList reg]. constructor. }
  intros k. specialize (K k). rewrite view_env. cbn [regList reg pendF pendR closed lookup find].
  set (vs := keys (sort_desc (pendF (pl w)))).
  pose proof (occ_firstn_skipn k n vs) as FS.
  assert (OV : occ k vs = nF w k) by (unfold vs; rewrite occ_keys_sort; reflexivity).
  set (a := occ k (firstn n vs)) in *. set (b := occ k (skipn n vs)) in *.
  rewrite finc_emit_rel, relc_emit_rel, finc_emit_fin, relc_emit_fin, occ_keys_sort, far_emit_rel, occ_keys_app.
  unfold wantsF, wantsR. rewrite lastFlags_emit_rel, lastFlags_emit_fin. fold (wantsF k (tr w)) (wantsR k (tr w)).
  rewrite occ_keys_filter by (rewrite keys_map_same by apply finAll_key; exact G').
  rewrite lookup_map by apply finAll_key.
  rewrite !mem_keys_occ, occ_keys_sort. cbn [app]. rewrite (occ_keys_filter notFin k r G').
  fold a b. rewrite OV.
  fold (nR w k). change (occ k (keys [])) with 0%nat.
  assert (LK : look w k = lookup k r) by (unfold look, regList; rewrite Hr; reflexivity).
  assert (CL : closed (pl w) = false) by (unfold closed; rewrite Hr; reflexivity).
  destruct K as [A1 A2 A3 A4 A5 A6 A7 A8 A9 A10 A11 A12 A13 A14].
  unfold deadV, owesRV, owesFV in *. cbn [view vLook vNF vNR vClosed vDrop vHeld vArmed vFinc vRelc vFar vWF vWR vLost] in *.
  rewrite LK, CL in *.
  assert (FAR : finAfterRel k (epoch k (emit Fin (firstn n vs) (tr w))) = false).
  { rewrite far_emit_fin; [exact A10|]. fold a.
    destruct (Nat.eq_dec (relc k (tr w)) 1) as [E1|E1]; [|right; lia].
    destruct (A9 E1) as [?|((_ & _ & _ & _ & Z) & _)]; [discriminate|left; lia]. }
  rewrite FAR.
  assert (FC : (a + finc k (tr w) <= 1)%nat).
  { destruct (Nat.eq_dec (nF w k) 1) as [E1|E1]; [destruct (A2 E1) as (_ & _ & _ & F0 & _); lia|lia]. }
  destruct (lookup k r) as [c|] eqn:L; cbn [option_map].
  - assert (NR0 : nR w k = 0%nat).
    { destruct (Nat.eq_dec (nR w k) 1) as [E1|E1]; [|lia]. destruct (A6 E1) as ((_ & _ & _ & ? & _) & _). discriminate. }
    assert (RC : relc k (tr w) <> 1%nat).
    { intros E1. destruct (A9 E1) as [?|((_ & _ & _ & ? & _) & _)]; discriminate. }
    rewrite NR0. unfold notRel. rewrite finAll_rel.
    constructor; unfold deadV, owesRV, owesFV; cbn [vLook vNF vNR vClosed vDrop vHeld vArmed vFinc vRelc vFar vWF vWR vLost];
      try lia; try discriminate; auto.
    + destruct (eRel c) eqn:ER; cbn [negb]; [lia|]. rewrite (A7 c eq_refl ER). lia.
    + intros WR. left. destruct (A12 WR) as [?|(_ & [(c' & Hc & ER)|?])]; [lia| |lia].
      inversion Hc; subst c'. rewrite ER. cbn [negb]. rewrite (A7 c eq_refl ER). lia.
    + intros WF. destruct (A13 WF) as [E1|[(_ & [(c' & Hc & EF')|E1])|E1]].
      * left. lia.
      * inversion Hc; subst c'. right. right. unfold notFin. rewrite EF'. cbn [negb Nat.eqb].
        rewrite orb_true_r. reflexivity.
      * destruct (Nat.eq_dec a 1) as [Ea|Ea].
        -- left. destruct (A2 E1) as (_ & _ & _ & F0 & _). lia.
        -- right. right. assert (b = 1%nat) by lia. rewrite H. reflexivity.
      * right. right. rewrite E1. rewrite !orb_true_r. reflexivity.
  - constructor; unfold deadV, owesRV, owesFV; cbn [vLook vNF vNR vClosed vDrop vHeld vArmed vFinc vRelc vFar vWF vWR vLost];
      try lia; try discriminate; auto.
    + intros WR. left. destruct (A12 WR) as [?|(_ & [(c' & Hc & ER)|?])]; [|discriminate|].
      * destruct (Nat.eq_dec (nR w k) 1) as [E1|E1]; [|lia]. destruct (A6 E1) as (_ & Z). lia.
      * destruct (A6 H) as (_ & Z). lia.
    + intros WF. destruct (A13 WF) as [E1|[(_ & [(c' & Hc & EF')|E1])|E1]]; [left; lia|discriminate| |].
      * destruct (Nat.eq_dec a 1) as [Ea|Ea].
        -- left. destruct (A2 E1) as (_ & _ & _ & F0 & _). lia.
        -- right. right. assert (b = 1%nat) by lia. rewrite H. reflexivity.
      * right. right. rewrite E1. rewrite !orb_true_r. reflexivity.
Qed.

Lemma step_inv w w' e : Inv w -> wstep w e = Some w' -> Inv w'.
Proof.
  destruct e.
  - apply step_mark. - apply step_drop. - apply step_gogc. - apply step_res. - apply step_finret.
  - apply step_runpf. - apply step_runpr. - apply step_closef. - apply step_runpfkill. - apply step_pop.
Qed.

Lemma wrun_inv es : forall w w', Inv w -> wrun w es = Some w' -> Inv w'.
Proof.
  induction es as [|e es IH]; simpl; intros w w' I H.
  - inversion H; subst; exact I.
  - destruct (wstep w e) as [w1|] eqn:S; [|discriminate]. eapply IH; [|exact H]. eapply step_inv; eauto.
Qed.

Theorem reachable_inv es w : wrun world0 es = Some w -> Inv w.
Proof. apply wrun_inv. exact Inv0. Qed.
