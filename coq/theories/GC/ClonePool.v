(* GC/ClonePool.v — implementation model (IM) of golua's finaliser pool
   runtime/internal/luagc/clonepool.go (ClonePool: Mark, goFinalizer,
   ExtractPendingFinalize/Release, ExtractAllMarkedFinalize/Release, the sort
   by descending markOrder) plus the environment ("world") in which the pool
   lives: which values the program can reach, which values are held by a
   running finaliser, which values have a Go finaliser armed, and the
   sequences of pool calls made by runtime.go (runPendingFinalizers,
   runFinalizers/Close) and runtimecontextmanager.go/thread.go
   (CallContext exit, PopContext).

   Values are identified by their luagc.Key (an N here); a value and its
   clones share the key, and the pool only ever looks at keys, mark orders and
   the two status flags.

   No proofs in this file (it must keep extracting/running when a proof
   elsewhere breaks). *)
From Coq Require Import NArith List Bool.
Import ListNotations.
Open Scope N_scope.

(* ------------------------------------------------------------------ pool *)

(* cloneEntry: value (its key), markOrder, flags wrFinalized / wrReleased *)
Record entry := mkEntry { eKey : N; eOrd : N; eFin : bool; eRel : bool }.

(* ClonePool.  [reg = None] is the nil map left by ExtractAllMarkedRelease.
   The Go map is unordered; the model keeps an association list without
   duplicate keys whose order is never observable (every output is sorted). *)
Record pool := mkPool {
  reg : option (list entry);   (* cloneRegister *)
  last : N;                    (* lastMarkOrder *)
  pendF : list entry;          (* pendingFinalize, in append order *)
  pendR : list entry           (* pendingRelease, in append order *)
}.

Definition pool0 : pool := mkPool (Some []) 0 [] [].   (* NewClonePool *)

Definition hasKey (k : N) (e : entry) : bool := eKey e =? k.
Definition lookup (k : N) (r : list entry) : option entry := find (hasKey k) r.
Definition delete (k : N) (r : list entry) : list entry := filter (fun e => negb (hasKey k e)) r.
Definition store (c : entry) (r : list entry) : list entry := c :: delete (eKey c) r.
Definition keys (l : list entry) : list N := map eKey l.

(* sort.Sort(sortablePendingClones): Less i j = markOrder i > markOrder j.
   sort.Sort is not stable; the model uses insertion sort and Proofs.v shows
   that mark orders inside every sorted list are pairwise distinct, so any
   correct sort gives the same list. *)
Fixpoint insert_desc (e : entry) (l : list entry) : list entry :=
  match l with
  | [] => [e]
  | x :: t => if eOrd x <? eOrd e then e :: x :: t else x :: insert_desc e t
  end.
Definition sort_desc (l : list entry) : list entry := fold_right insert_desc [] l.

(* calls of runtime.SetFinalizer made by an operation: (key, true) = set to
   p.goFinalizer, (key, false) = cleared *)
Definition fincall := (N * bool)%type.

Inductive op :=
| OMark (k : N) (fl : N)     (* Mark(v, flags): Finalize = bit 0, Release = bit 1 *)
| OGoFin (k : N)             (* goFinalizer(v) — the Go collector's callback *)
| OExtPF                     (* ExtractPendingFinalize *)
| OExtPR                     (* ExtractPendingRelease *)
| OExtAF                     (* ExtractAllMarkedFinalize *)
| OExtAR.                    (* ExtractAllMarkedRelease *)

(* result: returned values (keys, in order), SetFinalizer calls (in order),
   and whether the Go code panicked (assignment to entry in nil map) *)
Record out := mkOut { oVals : list N; oCalls : list fincall; oPanic : bool }.
Definition out_nil : out := mkOut [] [] false.

Definition mark (p : pool) (k fl : N) : pool * out :=
  match reg p with
  | None =>
      (* lookup in a nil map gives !ok *)
      if fl =? 0 then (p, out_nil)
      else (* setFinalizer(v, nil); setFinalizer(v, goFinalizer); lastMarkOrder++; then the store panics *)
        (mkPool None (last p + 1) (pendF p) (pendR p), mkOut [] [(k, false); (k, true)] true)
  | Some r =>
      match lookup k r with
      | Some c =>
          (* also for flags = 0: nothing is owed any more (both status flags set) but the pool keeps tracking
             the value — it still owns its Go finaliser and the value still belongs to this pool's context *)
          let c' := mkEntry k (last p + 1) (negb (N.testbit fl 0)) (negb (N.testbit fl 1)) in
          (mkPool (Some (store c' r)) (last p + 1) (pendF p) (pendR p), out_nil)
      | None =>
          if fl =? 0 then (p, out_nil)
          else
            let c' := mkEntry k (last p + 1) (negb (N.testbit fl 0)) (negb (N.testbit fl 1)) in
            (* a stale finaliser of a discarded pool is cleared before the new one is set *)
            (mkPool (Some (store c' r)) (last p + 1) (pendF p) (pendR p), mkOut [] [(k, false); (k, true)] false)
      end
  end.

Definition setFin (c : entry) : entry := mkEntry (eKey c) (eOrd c) true (eRel c).

Definition goFinalizer (p : pool) (k : N) : pool :=
  match reg p with
  | None => p
  | Some r =>
      match lookup k r with
      | None => p      (* too late: ExtractAllMarkedRelease has run, or never marked *)
      | Some c =>
          if negb (eFin c) then
            mkPool (Some (store (setFin c) r)) (last p) (pendF p ++ [c]) (pendR p)
          else
            mkPool (Some (delete k r)) (last p) (pendF p)
                   (if negb (eRel c) then pendR p ++ [c] else pendR p)
      end
  end.

Definition extPF (p : pool) : pool * out :=
  (mkPool (reg p) (last p) [] (pendR p),
   mkOut (keys (sort_desc (pendF p))) (map (fun c => (eKey c, true)) (pendF p)) false).

Definition extPR (p : pool) : pool * out :=
  (mkPool (reg p) (last p) (pendF p) [], mkOut (keys (sort_desc (pendR p))) [] false).

Definition notFin (c : entry) : bool := negb (eFin c).
Definition notRel (c : entry) : bool := negb (eRel c).

(* marked := pendingFinalize (values whose Go finaliser fired, __gc still owed), then every register
   entry not yet flagged finalized *)
Definition extAF (p : pool) : pool * out :=
  match reg p with
  | None => (mkPool None (last p) [] (pendR p), mkOut (keys (sort_desc (pendF p))) [] false)
  | Some r =>
      (mkPool (Some (map (fun c => if notFin c then setFin c else c) r)) (last p) [] (pendR p),
       mkOut (keys (sort_desc (pendF p ++ filter notFin r))) [] false)
  end.

Definition extAR (p : pool) : pool * out :=
  let r := match reg p with None => [] | Some r => r end in
  (mkPool None (last p) (pendF p) [],
   mkOut (keys (sort_desc (pendR p ++ filter notRel r))) [] false).

Definition step (p : pool) (o : op) : pool * out :=
  match o with
  | OMark k fl => mark p k fl
  | OGoFin k => (goFinalizer p k, out_nil)
  | OExtPF => extPF p
  | OExtPR => extPR p
  | OExtAF => extAF p
  | OExtAR => extAR p
  end.

(* run a whole history, collecting the outputs (what the correspondence check compares) *)
Fixpoint run_ops (p : pool) (os : list op) : list out :=
  match os with
  | [] => []
  | o :: t => let '(p', x) := step p o in x :: run_ops p' t
  end.

(* a summary of the internal state after a history, also compared with Go *)
Definition closed (p : pool) : bool := match reg p with None => true | Some _ => false end.
Definition regList (p : pool) : list entry := match reg p with None => [] | Some r => r end.

(* ----------------------------------------------------------------- world *)

(* What the runtime does with the values an extraction returns: *)
Inductive obs :=
| Marked (k : N) (fl : N)   (* SetRawMetatable / NewUserDataValue marked k *)
| Fin (k : N)               (* the __gc metamethod was called on k *)
| Rel (k : N).              (* ReleaseResources was called on k *)

Record world := mkWorld {
  pl : pool;
  dropped : list N;   (* keys the program can no longer reach (everything else is reachable) *)
  held : list N;      (* keys held by the runtime while their finaliser runs *)
  armed : list N;     (* keys that currently have a Go finaliser set *)
  lost : list N;      (* ghost: keys whose owed finaliser call was discarded (PopContext drops the
                         result of ExtractAllMarkedFinalize: the killed-context path) *)
  tr : list obs       (* what happened so far, newest first *)
}.

Definition world0 : world := mkWorld pool0 [] [] [] [] [].

Definition mem (k : N) (l : list N) : bool := existsb (N.eqb k) l.
Definition rm (k : N) (l : list N) : list N := filter (fun x => negb (x =? k)) l.

Inductive ev :=
| EMark (k : N) (fl : N)  (* the program (or a running finaliser) sets a metatable with __gc / creates a releasable userdata *)
| EDrop (k : N)           (* the program loses its last reference to k *)
| EGoGC (k : N)           (* Go's collector runs k's finaliser: only when unreachable, not held, armed *)
| EResurrect (k : N)      (* a running finaliser stores its argument somewhere reachable *)
| EFinReturn              (* the running finalisers have returned *)
| ERunPF                  (* runPendingFinalizers, first half: run __gc on ExtractPendingFinalize() *)
| ERunPR                  (* runPendingFinalizers, second half: release ExtractPendingRelease() *)
| ECloseF                 (* Close / normal CallContext exit: run __gc on ExtractAllMarkedFinalize() *)
| ERunPFKill (j : nat)    (* runPendingFinalizers in which the finaliser of the (j+1)-th extracted value terminates the
                             context (out of CPU/memory, killcontext, ...): the finalisers before it have run, it has been
                             called, the rest of the batch is dropped, ExtractPendingRelease is NOT reached; the panic
                             unwinds to CallContext's deferred PopContext (= EPop) *)
| EPop.                   (* PopContext of an isolating context / end of Close:
                             ExtractAllMarkedFinalize() discarded, release ExtractAllMarkedRelease() *)

Definition emit (f : N -> obs) (ks : list N) (t : list obs) : list obs := rev (map f ks) ++ t.

Definition wstep (w : world) (e : ev) : option world :=
  let p := pl w in
  match e with
  | EMark k fl =>
      if closed p || (mem k (dropped w) && negb (mem k (held w))) then None
      else
        let '(p', x) := mark p k fl in
        let armed' := match oCalls x with
                      | [] => armed w
                      | [(_, false)] => rm k (armed w)
                      | _ => k :: armed w
                      end in
        Some (mkWorld p' (dropped w) (held w) armed' (rm k (lost w)) (Marked k fl :: tr w))
  | EDrop k => Some (mkWorld p (k :: dropped w) (held w) (armed w) (lost w) (tr w))
  | EGoGC k =>
      if mem k (dropped w) && negb (mem k (held w)) && mem k (armed w)
      then Some (mkWorld (goFinalizer p k) (dropped w) (held w) (rm k (armed w)) (lost w) (tr w))
      else None
  | EResurrect k =>
      if mem k (held w) then Some (mkWorld p (rm k (dropped w)) (held w) (armed w) (lost w) (tr w)) else None
  | EFinReturn => Some (mkWorld p (dropped w) [] (armed w) (lost w) (tr w))
  | ERunPF =>
      if closed p then None else
      let '(p', x) := extPF p in
      Some (mkWorld p' (dropped w) (oVals x ++ held w) (oVals x ++ armed w) (lost w) (emit Fin (oVals x) (tr w)))
  | ERunPR =>
      if closed p then None else
      let '(p', x) := extPR p in
      Some (mkWorld p' (dropped w) (held w) (armed w) (lost w) (emit Rel (oVals x) (tr w)))
  | ECloseF =>
      if closed p then None else
      let '(p', x) := extAF p in
      Some (mkWorld p' (dropped w) (oVals x ++ held w) (armed w) (lost w) (emit Fin (oVals x) (tr w)))
  | ERunPFKill j =>
      if closed p then None else
      let '(p0, x) := extPF p in
      let ran := firstn (S j) (oVals x) in
      let '(p1, f) := extAF p0 in
      let '(p2, y) := extAR p1 in
      Some (mkWorld p2 (dropped w) (ran ++ held w) (oVals x ++ armed w)
                    (skipn (S j) (oVals x) ++ oVals f ++ lost w)
                    (emit Rel (oVals y) (emit Fin ran (tr w))))
  | EPop =>
      if closed p then None else
      let '(p1, f) := extAF p in
      let '(p2, x) := extAR p1 in
      Some (mkWorld p2 (dropped w) (held w) (armed w) (oVals f ++ lost w) (emit Rel (oVals x) (tr w)))
  end.

Fixpoint wrun (w : world) (es : list ev) : option world :=
  match es with
  | [] => Some w
  | e :: t => match wstep w e with None => None | Some w' => wrun w' t end
  end.

(* --- reading the trace (newest first) --- *)

(* the part of the trace since k was last marked *)
Fixpoint epoch (k : N) (t : list obs) : list obs :=
  match t with
  | [] => []
  | Marked k' fl :: t' => if k' =? k then [] else Marked k' fl :: epoch k t'
  | o :: t' => o :: epoch k t'
  end.

Definition isFin (k : N) (o : obs) : bool := match o with Fin k' => k' =? k | _ => false end.
Definition isRel (k : N) (o : obs) : bool := match o with Rel k' => k' =? k | _ => false end.
Definition cnt (f : obs -> bool) (t : list obs) : nat := length (filter f t).

(* how often k was finalised / released since its last marking *)
Definition finc (k : N) (t : list obs) : nat := cnt (isFin k) (epoch k t).
Definition relc (k : N) (t : list obs) : nat := cnt (isRel k) (epoch k t).

(* flags of k's last marking (0 if never marked) *)
Fixpoint lastFlags (k : N) (t : list obs) : N :=
  match t with
  | [] => 0
  | Marked k' fl :: t' => if k' =? k then fl else lastFlags k t'
  | _ :: t' => lastFlags k t'
  end.
Definition wantsF (k : N) (t : list obs) : bool := N.testbit (lastFlags k t) 0.
Definition wantsR (k : N) (t : list obs) : bool := N.testbit (lastFlags k t) 1.

(* "a finaliser call on k happened after a release of k" within the current
   epoch (newest first: the Fin is nearer the head than a Rel) *)
Fixpoint finAfterRel (k : N) (t : list obs) : bool :=
  match t with
  | [] => false
  | o :: t' => (isFin k o && negb (Nat.eqb (cnt (isRel k) t') 0)) || finAfterRel k t'
  end.

(* ------------------------------------------------ context exit sequences *)

(* Thread.CallContext on an isolating context, f() returned (normally or with
   a Lua error): runFinalizers(ExtractAllMarkedFinalize()); then PopContext:
   ExtractAllMarkedFinalize() (discarded), releaseResources(ExtractAllMarkedRelease()).
   Returns (finalised keys in order, released keys in order). *)
Definition exit_normal (p : pool) : list N * list N :=
  let '(p1, f) := extAF p in
  let '(p2, _) := extAF p1 in
  let '(_, r) := extAR p2 in
  (oVals f, oVals r).

(* the context was killed: the panic skips runFinalizers, the deferred
   PopContext still runs *)
Definition exit_killed (p : pool) : list N * list N :=
  let '(p2, _) := extAF p in
  let '(_, r) := extAR p2 in
  ([], oVals r).
