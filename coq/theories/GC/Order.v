(* GC/Order.v — mark orders inside the pool are pairwise distinct, for every
   sequence of pool calls; hence every extraction returns the unique strictly
   descending arrangement (Go's unstable sort.Sort cannot return another). *)
From Coq Require Import NArith List Bool Lia Permutation Sorted Arith.
From GV Require Import GC.ClonePool GC.Lemmas GC.Proofs GC.Theorems.
Import ListNotations.
Open Scope N_scope.

Definition ords (l : list entry) : list N := map eOrd l.

Record OInv (p : pool) : Prop := {
  o_le : OLe p;
  o_keys : NoDup (keys (regList p));
  o_reg : NoDup (ords (pendR p ++ regList p));
  o_pf : NoDup (ords (pendF p));
  o_pfreg : forall e c, In e (pendF p) -> In c (regList p) -> eOrd e = eOrd c -> eFin c = true
}.

Lemma lookup_perm k r c : NoDup (keys r) -> lookup k r = Some c -> Permutation r (c :: delete k r).
Proof.
  induction r as [|x r IH]; intros ND L; [discriminate|].
  simpl in ND. inversion ND; subst.
  unfold lookup in L. simpl in L. unfold delete. simpl. unfold hasKey in *.
  destruct (eKey x =? k) eqn:E.
  - inversion L; subst x. simpl. constructor.
    (* nothing else has key k *)
    apply N.eqb_eq in E. subst k.
    assert (F : filter (fun e => negb (eKey e =? eKey c)) r = r).
    { clear -H1. induction r as [|y r IH]; [reflexivity|]. simpl.
      destruct (eKey y =? eKey c) eqn:E.
      - apply N.eqb_eq in E. exfalso. apply H1. simpl. left. exact E.
      - simpl. f_equal. apply IH. intros Hin. apply H1. simpl. right. exact Hin. }
    rewrite F. reflexivity.
  - simpl. rewrite perm_swap. constructor. apply IH; assumption.
Qed.

Lemma nodup_ords_filter f l : NoDup (ords l) -> NoDup (ords (filter f l)).
Proof.
  induction l as [|x l IH]; simpl; intros H; [constructor|]. inversion H; subst.
  destruct (f x); simpl; auto. constructor; auto. intros Hin. apply H2.
  unfold ords in *. apply in_map_iff in Hin. destruct Hin as (y & E & Hy). apply filter_In in Hy.
  rewrite <- E. apply in_map. tauto.
Qed.

Lemma nodup_ords_app_filter f a l : NoDup (ords (a ++ l)) -> NoDup (ords (a ++ filter f l)).
Proof.
  induction a as [|x a IH]; simpl; intros H; [apply nodup_ords_filter; exact H|].
  inversion H; subst. constructor; auto. intros Hin. apply H2.
  unfold ords in *. rewrite map_app, in_app_iff in *. destruct Hin as [Hin|Hin]; [left; exact Hin|right].
  apply in_map_iff in Hin. destruct Hin as (y & E & Hy). apply filter_In in Hy. rewrite <- E. apply in_map. tauto.
Qed.

Lemma nodup_ords_same_order (r : list entry) c c0 :
  NoDup (ords r) -> In c r -> In c0 r -> eOrd c0 = eOrd c -> c0 = c.
Proof.
  induction r as [|y r IH]; intros ND Ic Ic0 E; [destruct Ic|].
  simpl in ND. inversion ND; subst.
  destruct Ic as [->|Ic]; destruct Ic0 as [->|Ic0]; auto.
  - exfalso. apply H1. rewrite <- E. apply in_map. exact Ic0.
  - exfalso. apply H1. rewrite E. apply in_map. exact Ic.
Qed.

Lemma nodup_app_r {A} (a b : list A) : NoDup (a ++ b) -> NoDup b.
Proof. induction a; simpl; intros H; [exact H|]. inversion H; auto. Qed.
Lemma nodup_app_l {A} (a b : list A) : NoDup (a ++ b) -> NoDup a.
Proof.
  induction a; simpl; intros H; [constructor|]. inversion H; subst. constructor; auto.
  intros Hin. apply H2. apply in_or_app. left. exact Hin.
Qed.

Lemma NoDup_app_intro {A} (a b : list A) : NoDup a -> NoDup b -> (forall x, In x a -> In x b -> False) -> NoDup (a ++ b).
Proof.
  induction a as [|y a IH]; simpl; intros Ha Hb D; [exact Hb|]. inversion Ha; subst. constructor.
  - intros Hin. apply in_app_or in Hin. destruct Hin as [Hin|Hin]; [tauto|]. apply (D y); [left; reflexivity|exact Hin].
  - apply IH; auto. intros x Hx1 Hx2. apply (D x); [right; exact Hx1|exact Hx2].
Qed.

Lemma OInv0 : OInv pool0.
Proof.
  constructor; simpl.
  - apply OLe0.
  - constructor.
  - constructor.
  - constructor.
  - intros e c [].
Qed.

Lemma OInv_step p o : OInv p -> OInv (fst (step p o)).
Proof.
  intros I. pose proof (OLe_step p o (o_le _ I)) as LE'. destruct I as [L K R F FR].
  destruct o as [k fl| k | | | | ]; cbn [step fst] in *.
  - (* Mark *)
    unfold mark in *. destruct (reg p) as [r|] eqn:Hr.
    2:{ destruct (fl =? 0); cbn [fst] in *; constructor; unfold regList in *; rewrite ?Hr in *; cbn [reg last pendF pendR] in *; auto. }
    unfold regList in K, R, FR. rewrite Hr in K, R, FR.
    assert (DEL : OInv (mkPool (Some (delete k r)) (last p) (pendF p) (pendR p)) \/ True) by (right; exact I).
    assert (Ldel : forall e, In e (delete k r) -> In e r).
    { intros e He. unfold delete in He. apply filter_In in He. tauto. }
    assert (STO : forall c', eKey c' = k -> eOrd c' = last p + 1 ->
              NoDup (keys (store c' r)) /\ NoDup (ords (pendR p ++ store c' r)) /\
              (forall e c, In e (pendF p) -> In c (store c' r) -> eOrd e = eOrd c -> eFin c = true)).
    { intros c' Kc Oc. split; [apply nodup_keys_store; exact K|]. split.
      - unfold store. rewrite Kc. unfold ords. rewrite map_app. simpl.
        apply NoDup_Add with (a := eOrd c') (l := map eOrd (pendR p) ++ map eOrd (delete k r)); [apply Add_app|].
        split.
        + rewrite <- map_app. apply (nodup_ords_app_filter _ (pendR p) r). exact R.
        + rewrite <- map_app. intros Hin. apply in_map_iff in Hin. destruct Hin as (y & E & Hy).
          assert (eOrd y <= last p).
          { apply L. unfold regList. rewrite Hr. rewrite !in_app_iff in *. destruct Hy as [Hy|Hy]; [tauto|left; apply Ldel; exact Hy]. }
          lia.
      - intros e c He Hc E. unfold store in Hc. rewrite Kc in Hc. destruct Hc as [<-|Hc].
        + assert (eOrd e <= last p) by (apply L; unfold regList; rewrite Hr; rewrite !in_app_iff; tauto). lia.
        + eapply FR; eauto. }
    destruct (lookup k r) as [c|] eqn:Lk; [|destruct (fl =? 0) eqn:Z]; cbn [fst] in *.
    + destruct (STO (mkEntry k (last p + 1) (negb (N.testbit fl 0)) (negb (N.testbit fl 1))) eq_refl eq_refl) as (A & B & C).
      constructor; unfold regList; cbn [reg last pendF pendR]; auto.
    + constructor; unfold regList; rewrite ?Hr; auto.
    + destruct (STO (mkEntry k (last p + 1) (negb (N.testbit fl 0)) (negb (N.testbit fl 1))) eq_refl eq_refl) as (A & B & C).
      constructor; unfold regList; cbn [reg last pendF pendR]; auto.
  - (* goFinalizer *)
    unfold goFinalizer in *. destruct (reg p) as [r|] eqn:Hr; [|constructor; assumption].
    destruct (lookup k r) as [c|] eqn:Lk; [|constructor; assumption].
    unfold regList in K, R, FR. rewrite Hr in K, R, FR.
    assert (Kc : eKey c = k) by (eapply lookup_key; exact Lk).
    assert (Ic : In c r) by (eapply lookup_in; exact Lk).
    pose proof (lookup_perm k r c K Lk) as P.
    assert (Ldel : forall e, In e (delete k r) -> In e r).
    { intros e He. unfold delete in He. apply filter_In in He. tauto. }
    assert (R1 : NoDup (ords r)).
    { unfold ords in *. rewrite map_app in R. apply nodup_app_r in R. exact R. }
    destruct (eFin c) eqn:EF; cbn [negb] in *.
    + constructor; unfold regList; cbn [reg last pendF pendR]; auto.
      * apply nodup_keys_filter. exact K.
      * destruct (negb (eRel c)).
        -- unfold ords in *. eapply Permutation_NoDup; [|exact R]. apply Permutation_map.
           rewrite <- app_assoc. simpl. apply Permutation_app_head. exact P.
        -- apply (nodup_ords_app_filter _ (pendR p) r). exact R.
      * intros e c0 He Hc. apply FR; auto.
    + constructor; unfold regList; cbn [reg last pendF pendR]; auto.
      * apply nodup_keys_store. exact K.
      * unfold store. cbn [setFin eKey]. rewrite Kc.
        assert (E : ords (pendR p ++ setFin c :: delete k r) = ords (pendR p ++ c :: delete k r)).
        { unfold ords. rewrite !map_app. reflexivity. }
        fold (setFin c). rewrite E.
        unfold ords in *. eapply Permutation_NoDup; [|exact R]. apply Permutation_map.
        apply Permutation_app_head. exact P.
      * unfold ords in *. rewrite map_app. simpl.
        apply NoDup_Add with (a := eOrd c) (l := map eOrd (pendF p)).
        -- rewrite <- (app_nil_r (map eOrd (pendF p))) at 1. apply Add_app.
        -- split; [exact F|]. intros Hin. apply in_map_iff in Hin. destruct Hin as (e & Ee & He).
           rewrite (FR e c He Ic Ee) in EF. discriminate.
      * intros e c0 He Hc E. rewrite in_app_iff in He. unfold store in Hc. cbn [setFin eKey] in Hc. rewrite Kc in Hc.
        destruct Hc as [<-|Hc]; [reflexivity|].
        destruct He as [He|[<-|[]]].
        -- apply (FR e c0 He); [apply Ldel; exact Hc|exact E].
        -- exfalso. assert (c0 = c) by (apply (nodup_ords_same_order r); auto).
           subst c0. unfold delete in Hc. apply filter_In in Hc. destruct Hc as [_ Hk]. unfold hasKey in Hk.
           rewrite Kc, N.eqb_refl in Hk. discriminate.
  - (* ExtractPendingFinalize *)
    unfold extPF in *. cbn [fst] in *. constructor; unfold regList in *; cbn [reg last pendF pendR] in *; auto;
      try constructor; try (intros ? ? []).
  - unfold extPR in *. cbn [fst] in *. constructor; unfold regList in *; cbn [reg last pendF pendR] in *; auto.
    simpl. unfold ords in R. rewrite map_app in R. apply nodup_app_r in R. exact R.
  - (* ExtractAllMarkedFinalize *)
    unfold extAF in *. destruct (reg p) as [r|] eqn:Hr; cbn [fst] in *.
    + unfold regList in K, R, FR. rewrite Hr in K, R, FR. fold finAll in *.
      assert (OE : forall l, map eOrd (map finAll l) = map eOrd l).
      { intros l. rewrite map_map. apply map_ext. intros c. unfold finAll. destruct (notFin c); reflexivity. }
      constructor; unfold regList; cbn [reg last pendF pendR]; auto; try constructor; try (intros ? ? []).
      * rewrite keys_map_same by apply finAll_key. exact K.
      * unfold ords in *. rewrite map_app in *. rewrite OE. exact R.
    + unfold regList in K, R, FR. rewrite Hr in K, R, FR.
      constructor; unfold regList; cbn [reg last pendF pendR]; auto; try constructor; try (intros ? ? []).
  - (* ExtractAllMarkedRelease *)
    unfold extAR in *. cbn [fst] in *. constructor; unfold regList; cbn [reg last pendF pendR]; auto;
      try constructor; try (intros ? ? ? []).
Qed.

Lemma OInv_run os : forall p, OInv p -> OInv (fold_left (fun q o => fst (step q o)) os p).
Proof. induction os as [|o os IH]; simpl; intros p H; [exact H|]. apply IH. apply OInv_step. exact H. Qed.

(* unconditional version of the order theorem: for every sequence of pool calls, each of the four
   extractions sorts a list with pairwise distinct mark orders, so what it returns is strictly
   descending and is the only strictly descending arrangement of the selected entries *)
Theorem extraction_order_unique os :
  let p := fold_left (fun q o => fst (step q o)) os pool0 in
  forall sel, In sel [pendF p ++ filter notFin (regList p); pendF p; pendR p ++ filter notRel (regList p); pendR p] ->
  StronglySorted sdesc (sort_desc sel) /\
  forall l, StronglySorted sdesc l -> Permutation l sel -> l = sort_desc sel.
Proof.
  intros p sel Hin. assert (O : OInv p) by (apply OInv_run, OInv0). destruct O as [L K R F FR].
  assert (ND : NoDup (map eOrd sel)).
  { simpl in Hin. destruct Hin as [<-|[<-|[<-|[<-|[]]]]].
    - (* pending entries and not-yet-finalised register entries have different orders (o_pfreg) *)
      assert (R1 : NoDup (ords (regList p))) by (unfold ords in *; rewrite map_app in R; apply nodup_app_r in R; exact R).
      unfold ords. rewrite map_app. apply NoDup_app_intro.
      + exact F.
      + apply (nodup_ords_filter notFin _ R1).
      + intros x H1 H2. apply in_map_iff in H1. destruct H1 as (e & <- & He).
        apply in_map_iff in H2. destruct H2 as (c & Ec & Hc). apply filter_In in Hc. destruct Hc as [Hc NF].
        unfold notFin in NF. rewrite (FR e c He Hc (eq_sym Ec)) in NF. discriminate.
    - exact F.
    - apply nodup_ords_app_filter. exact R.
    - unfold ords in R. rewrite map_app in R. apply nodup_app_l in R. exact R. }
  split; [apply sort_desc_strict; exact ND|].
  intros l S P. apply sdesc_perm_unique; [exact S|apply sort_desc_strict; exact ND|].
  rewrite P. symmetry. apply sort_desc_perm.
Qed.
