(* GC/Stack.v — the stack of per-context finaliser pools (model, no proofs).

   runtime/runtimecontextmanager.go PushContext gives every isolating context
   (GCPolicy = Isolate, or any hard limit) a new ClonePool whose parent is the
   enclosing context's pool (SetParent); a sharing context keeps using its
   parent's pool.  PopContext of an isolating context discards its pool
   (ExtractAllMarkedFinalize dropped, ExtractAllMarkedRelease released) and the
   parent's pool becomes current again.  Everything the runtime does with
   finalisers goes through the CURRENT pool: addFinalizer -> Mark,
   runPendingFinalizers, the CallContext exit and Close.  ClonePool.Mark itself
   hands a value that an enclosing context's pool already tracks to that pool
   (the outermost one that tracks it).

   Frames are innermost first; a frame's height (its position counted from the
   root = 1) identifies the context that owns the pool while it is alive. *)
From Coq Require Import NArith List Bool.
From GV Require Import GC.ClonePool.
Import ListNotations.
Open Scope N_scope.

Record frame := mkFrame { fpool : pool; fshare : nat (* sharing contexts stacked on this one *) }.

Inductive sop :=
| SPush (iso : bool)          (* PushContext *)
| SMark (k fl : N)            (* SetRawMetatable / NewUserDataValue in the current context *)
| SGoFin (d : nat) (k : N)    (* Go's collector runs k's finaliser registered with the pool at depth d (0 = current) *)
| SRunPending                 (* runPendingFinalizers *)
| SExit (killed : bool)       (* the current context ends through CallContext (f returned / context killed) *)
| SClose.                     (* Runtime.Close *)

Inductive sobs :=
| SPushed (h : nat)                 (* an isolating context of height h was entered: fresh pool *)
| SMarked (h : nat) (k fl : N)      (* the pool of the context of height h registered the marking *)
| SFin (h : nat) (k : N)            (* __gc(k) was run while the context of height h was current, from its pool *)
| SRel (h : nat) (k : N).

Record sst := mkS { frames : list frame; strace : list sobs (* newest first *) }.
Definition s0 : sst := mkS [mkFrame pool0 0] [].

Definition tracks (p : pool) (k : N) : bool :=
  match lookup k (regList p) with Some _ => true | None => false end.

Definition markFrame (f : frame) (k fl : N) : frame := mkFrame (fst (mark (fpool f) k fl)) (fshare f).

(* the outermost enclosing pool that already tracks k takes the marking *)
Fixpoint markAnc (fs : list frame) (k fl : N) : option (list frame * nat) :=
  match fs with
  | [] => None
  | f :: t =>
      match markAnc t k fl with
      | Some (t', h) => Some (f :: t', h)
      | None => if tracks (fpool f) k then Some (markFrame f k fl :: t, length fs) else None
      end
  end.

Fixpoint updAt (d : nat) (g : frame -> frame) (fs : list frame) : list frame :=
  match fs, d with
  | [], _ => []
  | f :: t, O => g f :: t
  | f :: t, S d' => f :: updAt d' g t
  end.

Definition emitS (f : N -> sobs) (ks : list N) (t : list sobs) : list sobs := rev (map f ks) ++ t.

(* the calls made when the isolating context on top of the stack ends *)
Definition exitFrame (h : nat) (p : pool) (killed : bool) (t : list sobs) : list sobs :=
  let '(fin, rel) := if killed then exit_killed p else exit_normal p in
  emitS (SRel h) rel (emitS (SFin h) fin t).

(* Close: at every context level runFinalizers(ExtractAllMarkedFinalize()) on the current pool, then PopContext *)
Fixpoint closeAll (fs : list frame) (t : list sobs) : list sobs :=
  match fs with
  | [] => t
  | f :: rest => closeAll rest (exitFrame (length fs) (fpool f) false t)
  end.

Definition sstep (s : sst) (o : sop) : sst :=
  match frames s with
  | [] => s                                   (* the runtime has been closed *)
  | f :: rest =>
      let h := length (frames s) in
      match o with
      | SPush true => mkS (mkFrame pool0 0 :: frames s) (SPushed (S h) :: strace s)
      | SPush false => mkS (mkFrame (fpool f) (S (fshare f)) :: rest) (strace s)
      | SMark k fl =>
          match markAnc rest k fl with
          | Some (rest', h') => mkS (f :: rest') (SMarked h' k fl :: strace s)
          | None => mkS (markFrame f k fl :: rest) (SMarked h k fl :: strace s)
          end
      | SGoFin d k => mkS (updAt d (fun g => mkFrame (goFinalizer (fpool g) k) (fshare g)) (frames s)) (strace s)
      | SRunPending =>
          let '(p1, x) := extPF (fpool f) in
          let '(p2, y) := extPR p1 in
          mkS (mkFrame p2 (fshare f) :: rest) (emitS (SRel h) (oVals y) (emitS (SFin h) (oVals x) (strace s)))
      | SExit killed =>
          match fshare f with
          | S n => mkS (mkFrame (fpool f) n :: rest) (strace s)     (* a sharing context ends: nothing happens to the pool *)
          | O =>
              match rest with
              | [] => s                                              (* the root context cannot be popped *)
              | _ => mkS rest (exitFrame h (fpool f) killed (strace s))
              end
          end
      | SClose => mkS [] (closeAll (frames s) (strace s))
      end
  end.

Definition srun (s : sst) (os : list sop) : sst := fold_left sstep os s.

(* reading the trace: k was marked in the pool of context h since that context was (last) entered *)
Fixpoint markedIn (h : nat) (k : N) (t : list sobs) : bool :=
  match t with
  | [] => false
  | SPushed h' :: t' => if Nat.eqb h' h then false else markedIn h k t'
  | SMarked h' k' _ :: t' => (Nat.eqb h' h && (k' =? k)) || markedIn h k t'
  | _ :: t' => markedIn h k t'
  end.

(* every finaliser call (and every release) of the trace was made by the context whose pool had registered the value *)
Fixpoint ownerOK (t : list sobs) : bool :=
  match t with
  | [] => true
  | SFin h k :: t' => markedIn h k t' && ownerOK t'
  | SRel h k :: t' => markedIn h k t' && ownerOK t'
  | _ :: t' => ownerOK t'
  end.
