(* GC/StackProofs.v — finalisers (and releases) run in the context whose pool registered the value. *)
From Coq Require Import NArith List Bool Lia Permutation Arith.
From GV Require Import GC.ClonePool GC.Lemmas GC.Proofs GC.Stack.
Import ListNotations.
Open Scope N_scope.

Definition allkeys (p : pool) : list N := keys (regList p ++ pendF p ++ pendR p).

Lemma in_keys_app x a b : In x (keys (a ++ b)) <-> In x (keys a) \/ In x (keys b).
Proof. unfold keys. rewrite map_app, in_app_iff. tauto. Qed.

Lemma in_allkeys x p : In x (allkeys p) <-> In x (keys (regList p)) \/ In x (keys (pendF p)) \/ In x (keys (pendR p)).
Proof. unfold allkeys. rewrite !in_keys_app. tauto. Qed.

Lemma in_keys_sort x l : In x (keys (sort_desc l)) <-> In x (keys l).
Proof.
  unfold keys. split; intros H; eapply Permutation_in; try exact H; apply Permutation_map;
    [apply sort_desc_perm|symmetry; apply sort_desc_perm].
Qed.

Lemma in_keys_filter x f l : In x (keys (filter f l)) -> In x (keys l).
Proof. apply keys_filter_in. Qed.

Lemma in_keys_store x c r : In x (keys (store c r)) -> x = eKey c \/ In x (keys r).
Proof. unfold store. simpl. intros [<-|H]; [left; reflexivity|right; eapply in_keys_filter; exact H]. Qed.

Lemma in_keys_snoc x l c : In x (keys (l ++ [c])) -> In x (keys l) \/ x = eKey c.
Proof. rewrite in_keys_app. simpl. intros [H|[ <- |[]]]; auto. Qed.

Lemma mark_keys p k fl x : In x (allkeys (fst (mark p k fl))) -> x = k \/ In x (allkeys p).
Proof.
  unfold mark. destruct (reg p) as [r|] eqn:Hr.
  - destruct (lookup k r); [|destruct (fl =? 0)]; cbn [fst]; rewrite !in_allkeys; unfold regList; cbn [reg pendF pendR]; rewrite ?Hr;
      intros [H|H]; try tauto.
    + apply in_keys_store in H. cbn [eKey] in H. tauto.
    + apply in_keys_store in H. cbn [eKey] in H. tauto.
  - destruct (fl =? 0); cbn [fst]; rewrite !in_allkeys; unfold regList; cbn [reg pendF pendR]; rewrite ?Hr; tauto.
Qed.

Lemma gofin_keys p k x : In x (allkeys (goFinalizer p k)) -> In x (allkeys p).
Proof.
  unfold goFinalizer. destruct (reg p) as [r|] eqn:Hr; [|tauto].
  destruct (lookup k r) as [c|] eqn:L; [|tauto].
  assert (Kc : eKey c = k) by (eapply lookup_key; exact L).
  assert (Ic : In k (keys r)). { rewrite <- Kc. unfold keys. apply in_map. eapply lookup_in. exact L. }
  rewrite !in_allkeys. unfold regList. rewrite Hr.
  destruct (negb (eFin c)); cbn [reg pendF pendR].
  - intros [H|[H|H]]; try tauto.
    + apply in_keys_store in H. cbn [setFin eKey] in H. rewrite Kc in H. destruct H as [ -> |H]; tauto.
    + apply in_keys_snoc in H. rewrite Kc in H. destruct H as [H| -> ]; tauto.
  - intros [H|[H|H]]; try tauto.
    + left. eapply in_keys_filter. exact H.
    + destruct (negb (eRel c)); [|tauto]. apply in_keys_snoc in H. rewrite Kc in H. destruct H as [H| -> ]; tauto.
Qed.

Lemma extPF_keys p x : (In x (allkeys (fst (extPF p))) -> In x (allkeys p)) /\ (In x (oVals (snd (extPF p))) -> In x (allkeys p)).
Proof.
  unfold extPF. cbn [fst snd oVals]. rewrite !in_allkeys. unfold regList. cbn [reg pendF pendR]. split.
  - simpl. tauto.
  - rewrite in_keys_sort. tauto.
Qed.

Lemma extPR_keys p x : (In x (allkeys (fst (extPR p))) -> In x (allkeys p)) /\ (In x (oVals (snd (extPR p))) -> In x (allkeys p)).
Proof.
  unfold extPR. cbn [fst snd oVals]. rewrite !in_allkeys. unfold regList. cbn [reg pendF pendR]. split.
  - simpl. tauto.
  - rewrite in_keys_sort. tauto.
Qed.

Lemma extAF_keys p x : (In x (allkeys (fst (extAF p))) -> In x (allkeys p)) /\ (In x (oVals (snd (extAF p))) -> In x (allkeys p)).
Proof.
  unfold extAF. destruct (reg p) as [r|] eqn:Hr; cbn [fst snd oVals]; rewrite !in_allkeys; unfold regList; cbn [reg pendF pendR]; rewrite ?Hr; split.
  - rewrite keys_map_same by (intros c; destruct (notFin c); reflexivity). simpl. tauto.
  - rewrite in_keys_sort, in_keys_app. intros [H|H]; [tauto|left; eapply in_keys_filter; exact H].
  - simpl. tauto.
  - rewrite in_keys_sort. tauto.
Qed.

Lemma extAR_keys p x : In x (oVals (snd (extAR p))) -> In x (allkeys p).
Proof.
  unfold extAR. cbn [snd oVals]. rewrite in_keys_sort, in_keys_app, in_allkeys. unfold regList.
  intros [H|H]; [tauto|]. left. eapply in_keys_filter. exact H.
Qed.

Lemma exit_keys (p : pool) (killed : bool) (x : N) :
  let '(fin, rel) := if killed then exit_killed p else exit_normal p in
  (In x fin -> In x (allkeys p)) /\ (In x rel -> In x (allkeys p)).
Proof.
  destruct killed; unfold exit_killed, exit_normal.
  - pose proof (extAF_keys p x) as [A1 A2]. destruct (extAF p) as [p2 f]. cbn [fst snd] in *.
    pose proof (extAR_keys p2 x) as B. destruct (extAR p2) as [p3 r]. cbn [snd] in *. split; [intros []|auto].
  - pose proof (extAF_keys p x) as [A1 A2]. destruct (extAF p) as [p1 f]. cbn [fst snd] in *.
    pose proof (extAF_keys p1 x) as [B1 B2]. destruct (extAF p1) as [p2 f2]. cbn [fst snd] in *.
    pose proof (extAR_keys p2 x) as C. destruct (extAR p2) as [p3 r]. cbn [snd] in *. split; auto.
Qed.

(* ---- trace lemmas ---- *)

Definition notPush (h : nat) (o : sobs) : bool := match o with SPushed h' => negb (Nat.eqb h' h) | _ => true end.

Lemma markedIn_cons h k o t : notPush h o = true -> markedIn h k t = true -> markedIn h k (o :: t) = true.
Proof.
  intros N M. destruct o; simpl in *; auto.
  - apply negb_true_iff in N. rewrite N. exact M.
  - rewrite M. apply orb_true_r.
Qed.

Lemma markedIn_app h k l t : forallb (notPush h) l = true -> markedIn h k t = true -> markedIn h k (l ++ t) = true.
Proof.
  induction l as [|o l IH]; simpl; intros N M; [exact M|]. apply andb_true_iff in N. destruct N as [N1 N2].
  apply markedIn_cons; auto.
Qed.

Lemma notPush_emit h (f : N -> sobs) ks : (forall x, notPush h (f x) = true) -> forallb (notPush h) (rev (map f ks)) = true.
Proof. intros H. apply forallb_forall. intros o Ho. apply in_rev in Ho. apply in_map_iff in Ho. destruct Ho as (x & <- & _). apply H. Qed.

Lemma markedIn_emit_fin h k h' ks t : markedIn h k t = true -> markedIn h k (emitS (SFin h') ks t) = true.
Proof. intros M. unfold emitS. apply markedIn_app; [apply notPush_emit; reflexivity|exact M]. Qed.
Lemma markedIn_emit_rel h k h' ks t : markedIn h k t = true -> markedIn h k (emitS (SRel h') ks t) = true.
Proof. intros M. unfold emitS. apply markedIn_app; [apply notPush_emit; reflexivity|exact M]. Qed.

Lemma ownerOK_app h l t :
  (forall o, In o l -> exists k, (o = SFin h k \/ o = SRel h k) /\ markedIn h k t = true) ->
  ownerOK t = true -> ownerOK (l ++ t) = true.
Proof.
  induction l as [|o l IH]; simpl; intros H O; [exact O|].
  assert (NP : forallb (notPush h) l = true).
  { apply forallb_forall. intros o' Ho'. destruct (H o' (or_intror Ho')) as (k & [->| ->] & _); reflexivity. }
  assert (R : ownerOK (l ++ t) = true) by (apply IH; [intros o' Ho'; apply H; right; exact Ho'|exact O]).
  destruct (H o (or_introl eq_refl)) as (k & [->| ->] & M); simpl; rewrite R, (markedIn_app h k l t NP M); reflexivity.
Qed.

Lemma ownerOK_emit_fin h ks t : ownerOK t = true -> (forall k, In k ks -> markedIn h k t = true) -> ownerOK (emitS (SFin h) ks t) = true.
Proof.
  intros O M. unfold emitS. apply (ownerOK_app h); [|exact O].
  intros o Ho. apply in_rev in Ho. apply in_map_iff in Ho. destruct Ho as (k & <- & Hk). exists k. split; [left; reflexivity|apply M; exact Hk].
Qed.
Lemma ownerOK_emit_rel h ks t : ownerOK t = true -> (forall k, In k ks -> markedIn h k t = true) -> ownerOK (emitS (SRel h) ks t) = true.
Proof.
  intros O M. unfold emitS. apply (ownerOK_app h); [|exact O].
  intros o Ho. apply in_rev in Ho. apply in_map_iff in Ho. destruct Ho as (k & <- & Hk). exists k. split; [right; reflexivity|apply M; exact Hk].
Qed.

(* ---- the invariant ---- *)

(* every key a pool knows about was marked in that pool since its context was entered *)
Fixpoint FramesOK (fs : list frame) (t : list sobs) : Prop :=
  match fs with
  | [] => True
  | f :: rest => (forall k, In k (allkeys (fpool f)) -> markedIn (length fs) k t = true) /\ FramesOK rest t
  end.

Lemma FramesOK_mono fs t l : FramesOK fs t -> (forall h, (h <= length fs)%nat -> forallb (notPush h) l = true) -> FramesOK fs (l ++ t).
Proof.
  induction fs as [|f rest IH]; simpl; intros F N; [exact I|]. destruct F as [F1 F2]. split.
  - intros k Hk. apply markedIn_app; [apply N; lia|apply F1; exact Hk].
  - apply IH; [exact F2|]. intros h Hh. apply N. lia.
Qed.

Lemma FramesOK_cons fs t o : FramesOK fs t -> (forall h, (h <= length fs)%nat -> notPush h o = true) -> FramesOK fs (o :: t).
Proof.
  intros F N. apply (FramesOK_mono fs t [o] F). intros h Hh. simpl. rewrite (N h Hh). reflexivity.
Qed.

Lemma FramesOK_emit fs t f ks : FramesOK fs t -> (forall h x, notPush h (f x) = true) -> FramesOK fs (emitS f ks t).
Proof. intros F N. unfold emitS. apply FramesOK_mono; [exact F|]. intros h _. apply notPush_emit. apply N. Qed.

Definition SInv (s : sst) : Prop := FramesOK (frames s) (strace s) /\ ownerOK (strace s) = true.

Lemma markAnc_ok fs k fl fs' h t :
  markAnc fs k fl = Some (fs', h) -> FramesOK fs t ->
  length fs' = length fs /\ (h <= length fs)%nat /\ FramesOK fs' (SMarked h k fl :: t).
Proof.
  revert fs' h. induction fs as [|f rest IH]; intros fs' h M F; [discriminate|].
  simpl in M. destruct F as [F1 F2].
  destruct (markAnc rest k fl) as [[t' h']|] eqn:R.
  - inversion M; subst. destruct (IH t' h eq_refl F2) as (L & Hh & F'). simpl. repeat split; [lia|lia| |exact F'].
    intros x Hx. rewrite L. simpl in F1. rewrite (F1 x Hx). apply orb_true_r.
  - destruct (tracks (fpool f) k); [|discriminate]. inversion M; subst. simpl. repeat split; [lia| |].
    + intros x Hx. unfold markFrame in Hx. cbn [fpool] in Hx. apply mark_keys in Hx. simpl.
      destruct Hx as [ -> |Hx]; [rewrite Nat.eqb_refl, N.eqb_refl; reflexivity|].
      simpl in F1. rewrite (F1 x Hx). apply orb_true_r.
    + apply FramesOK_cons; [exact F2|reflexivity].
Qed.

Lemma exitFrame_ok h p killed t :
  (forall k, In k (allkeys p) -> markedIn h k t = true) -> ownerOK t = true ->
  ownerOK (exitFrame h p killed t) = true.
Proof.
  intros M O. unfold exitFrame. pose proof (fun x => exit_keys p killed x) as K.
  destruct (if killed then exit_killed p else exit_normal p) as [fin rel].
  apply ownerOK_emit_rel.
  - apply ownerOK_emit_fin; [exact O|]. intros k Hk. apply M. apply (proj1 (K k)). exact Hk.
  - intros k Hk. apply markedIn_emit_fin. apply M. apply (proj2 (K k)). exact Hk.
Qed.

Lemma exitFrame_frames fs h p killed t : FramesOK fs t -> FramesOK fs (exitFrame h p killed t).
Proof.
  intros F. unfold exitFrame. destruct (if killed then exit_killed p else exit_normal p) as [fin rel].
  apply FramesOK_emit; [|reflexivity]. apply FramesOK_emit; [exact F|reflexivity].
Qed.

Lemma closeAll_ok fs : forall t, FramesOK fs t -> ownerOK t = true -> ownerOK (closeAll fs t) = true.
Proof.
  induction fs as [|f rest IH]; intros t F O; simpl; [exact O|]. destruct F as [F1 F2].
  apply IH; [apply exitFrame_frames; exact F2|apply exitFrame_ok; assumption].
Qed.

Lemma updAt_ok d k fs t : FramesOK fs t -> FramesOK (updAt d (fun g => mkFrame (goFinalizer (fpool g) k) (fshare g)) fs) t.
Proof.
  revert d. induction fs as [|f rest IH]; intros d F; [destruct d; exact I|].
  destruct F as [F1 F2]. destruct d; simpl.
  - split; [|exact F2]. intros x Hx. apply F1. eapply gofin_keys. exact Hx.
  - split.
    + assert (L : length (updAt d (fun g => mkFrame (goFinalizer (fpool g) k) (fshare g)) rest) = length rest).
      { clear. revert d. induction rest as [|y r IHr]; intros d; destruct d; simpl; auto. }
      rewrite L. exact F1.
    + apply IH. exact F2.
Qed.

Lemma sstep_inv s o : SInv s -> SInv (sstep s o).
Proof.
  intros [F O]. unfold sstep. destruct (frames s) as [|f rest] eqn:E; [split; rewrite ?E; assumption|].
  destruct F as [F1 F2]. destruct o as [iso|k fl|d k| |killed| ].
  - (* push *)
    destruct iso; split; cbn [frames strace].
    + split; [intros k []|].
      apply (FramesOK_cons (f :: rest)); [split; assumption|].
      intros h Hh. unfold notPush. apply negb_true_iff. apply Nat.eqb_neq. simpl in Hh. simpl. lia.
    + simpl. exact O.
    + simpl. split; [exact F1|exact F2].
    + exact O.
  - (* mark *)
    destruct (markAnc rest k fl) as [[rest' h']|] eqn:M.
    + destruct (markAnc_ok rest k fl rest' h' (strace s) M F2) as (L & Hh & F'). split; cbn [frames strace]; [|exact O].
      simpl. split; [|exact F']. intros x Hx. rewrite L. simpl in F1. rewrite (F1 x Hx). apply orb_true_r.
    + split; cbn [frames strace]; [|exact O]. simpl. split.
      * intros x Hx. unfold markFrame in Hx. cbn [fpool] in Hx. apply mark_keys in Hx.
        destruct Hx as [ -> |Hx]; [rewrite Nat.eqb_refl, N.eqb_refl; reflexivity|]. simpl in F1. rewrite (F1 x Hx). apply orb_true_r.
      * apply FramesOK_cons; [exact F2|reflexivity].
  - (* Go finaliser *)
    split; cbn [frames strace]; [|exact O]. rewrite <- E. apply updAt_ok. rewrite E. split; assumption.
  - (* runPendingFinalizers *)
    pose proof (fun x => extPF_keys (fpool f) x) as KF. destruct (extPF (fpool f)) as [p1 x] eqn:E1. cbn [fst snd] in KF.
    pose proof (fun y => extPR_keys p1 y) as KR. destruct (extPR p1) as [p2 y] eqn:E2. cbn [fst snd] in KR.
    split; cbn [frames strace].
    + simpl. split.
      * intros z Hz. apply markedIn_emit_rel, markedIn_emit_fin. apply F1. apply (proj1 (KF z)). apply (proj1 (KR z)). exact Hz.
      * apply FramesOK_emit; [|reflexivity]. apply FramesOK_emit; [exact F2|reflexivity].
    + apply ownerOK_emit_rel.
      * apply ownerOK_emit_fin; [exact O|]. intros z Hz. apply F1. apply (proj2 (KF z)). exact Hz.
      * intros z Hz. apply markedIn_emit_fin. apply F1. apply (proj1 (KF z)). apply (proj2 (KR z)). exact Hz.
  - (* a context ends *)
    destruct (fshare f) as [|n] eqn:SH.
    + destruct rest as [|g rest'] eqn:ER; [split; rewrite ?E; [split; assumption|exact O]|].
      split; cbn [frames strace].
      * apply exitFrame_frames. exact F2.
      * apply exitFrame_ok; [exact F1|exact O].
    + split; cbn [frames strace]; [|exact O]. simpl. split; [exact F1|exact F2].
  - (* Close *)
    split; cbn [frames strace]; [exact I|]. apply closeAll_ok; [simpl; split; assumption|exact O].
Qed.

Lemma SInv0 : SInv s0.
Proof. split; simpl; [split; [intros k []|exact I]|reflexivity]. Qed.

(* For every history of context pushes/exits (normal or killed), markings, collector callbacks on any
   pool of the stack, runPendingFinalizers and Close: every __gc call and every release was made while
   the context whose pool registered the value (since that context was entered) was the current one. *)
Theorem finalizer_runs_in_owning_context os : ownerOK (strace (srun s0 os)) = true.
Proof.
  assert (H : forall os s, SInv s -> SInv (srun s os)).
  { induction os0 as [|o os0 IH]; intros s I; simpl; [exact I|]. apply IH. apply sstep_inv. exact I. }
  apply (H os s0 SInv0).
Qed.

(* not vacuous: a value of the root re-marked inside a nested limited context is finalised by the root at Close,
   a value created inside is finalised when its context ends *)
Example owning_context_example :
  strace (srun s0 [SMark 1 1; SPush true; SMark 1 1; SMark 2 3; SExit false; SClose])
  = [SFin 1 1; SRel 2 2; SFin 2 2; SMarked 2 2 3; SMarked 1 1 1; SPushed 2; SMarked 1 1 1].
Proof. vm_compute. reflexivity. Qed.
