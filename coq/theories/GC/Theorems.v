(* GC/Theorems.v — the C18 statements, derived from the invariant of GC/Proofs.v *)
From Coq Require Import NArith List Bool Lia Permutation Sorted Arith.
From GV Require Import GC.ClonePool GC.Lemmas GC.Proofs.
Import ListNotations.
Open Scope N_scope.

(* a value is finalised at most once per marking, whatever the history *)
Theorem finalize_at_most_once es w k :
  wrun world0 es = Some w -> (finc k (tr w) <= 1)%nat.
Proof. intros H. destruct (reachable_inv es w H) as [_ K]. apply (k_f1 _ (K k)). Qed.

(* ... and released at most once, and never finalised after its release *)
Theorem release_at_most_once es w k :
  wrun world0 es = Some w -> (relc k (tr w) <= 1)%nat /\ finAfterRel k (epoch k (tr w)) = false.
Proof. intros H. destruct (reachable_inv es w H) as [_ K]. split; [apply (k_r1 _ (K k))|apply (k_far _ (K k))]. Qed.

Lemma pop_closed w w' : wstep w EPop = Some w' -> closed (pl w') = true.
Proof.
  unfold wstep. destruct (closed (pl w)); [discriminate|].
  destruct (extAF (pl w)) as [p1 f]. unfold extAR. intros H. inversion H. reflexivity.
Qed.

(* when the owning context (or the runtime) is closed, every value whose last
   marking asked for a release has been released exactly once since, and not
   before a finaliser call in the same marking epoch *)
Theorem release_exactly_once_after_finalize es w w' k :
  wrun world0 es = Some w -> wstep w EPop = Some w' ->
  wantsR k (tr w') = true ->
  relc k (tr w') = 1%nat /\ finAfterRel k (epoch k (tr w')) = false.
Proof.
  intros H S WR.
  assert (I : Inv w') by (eapply step_inv; [eapply reachable_inv; exact H|exact S]).
  destruct I as [_ K]. specialize (K k). split; [|apply (k_far _ K)].
  destruct (k_wR _ K WR) as [E|(C & _)]; [exact E|].
  cbn [view vClosed] in C. rewrite (pop_closed _ _ S) in C. discriminate.
Qed.

Lemma runpfkill_closed w w' j : wstep w (ERunPFKill j) = Some w' -> closed (pl w') = true.
Proof.
  unfold wstep. destruct (closed (pl w)); [discriminate|].
  destruct (extPF (pl w)) as [p0 x]. destruct (extAF p0) as [p1 f]. unfold extAR. intros H. inversion H. reflexivity.
Qed.

(* releases happen exactly once on the path where a finaliser of the current batch of pending work terminates
   its context: whatever was awaiting release (already collected, in pendingRelease) or still registered is
   released by the PopContext that follows — ExtractPendingRelease must not have taken it out before *)
Theorem release_exactly_once_when_finalizer_kills es w w' j k :
  wrun world0 es = Some w -> wstep w (ERunPFKill j) = Some w' ->
  wantsR k (tr w') = true ->
  relc k (tr w') = 1%nat /\ finAfterRel k (epoch k (tr w')) = false.
Proof.
  intros H S WR.
  assert (I : Inv w') by (eapply step_inv; [eapply reachable_inv; exact H|exact S]).
  destruct I as [_ K]. specialize (K k). split; [|apply (k_far _ K)].
  destruct (k_wR _ K WR) as [E|(C & _)]; [exact E|].
  cbn [view vClosed] in C. rewrite (runpfkill_closed _ _ _ S) in C. discriminate.
Qed.

(* one batch holding a collected release-only value (1), a collected value whose finaliser kills the context (3)
   and a finaliser that would have run after it (2): 3 is called, 2 is dropped, 1 is released once *)
Example finalizer_kills_example :
  exists w, wrun world0 [EMark 1 2; EMark 2 1; EMark 3 1; EDrop 1; EDrop 2; EDrop 3; EGoGC 1; EGoGC 2; EGoGC 3; ERunPFKill 0] = Some w /\
            tr w = [Rel 1; Fin 3; Marked 3 1; Marked 2 1; Marked 1 2] /\ relc 1 (tr w) = 1%nat /\ finc 2 (tr w) = 0%nat.
Proof. eexists. vm_compute. repeat split; reflexivity. Qed.

(* the pending-finaliser path only ever returns values that the program could
   not reach and that no running finaliser held when the Go collector queued them *)
Theorem never_finalized_while_reachable es w k :
  wrun world0 es = Some w ->
  In k (oVals (snd (extPF (pl w)))) ->
  mem k (dropped w) = true /\ mem k (held w) = false.
Proof.
  intros H Hin. destruct (reachable_inv es w H) as [_ K]. specialize (K k).
  cbn [extPF snd oVals] in Hin.
  assert (N1 : nF w k = 1%nat).
  { assert (occ k (keys (sort_desc (pendF (pl w)))) <> 0%nat).
    { unfold occ. intros Z. apply count_occ_not_In in Z. tauto. }
    rewrite occ_keys_sort in H0. pose proof (k_nF _ K) as L. cbn [view vNF] in L. unfold nF in *. lia. }
  destruct (k_pF _ K N1) as (D & Hh & _). split; assumption.
Qed.

Lemma closef_facts w w' k : wstep w ECloseF = Some w' ->
  closed (pl w') = false /\ nF w' k = 0%nat /\ (forall c, look w' k = Some c -> eFin c = true).
Proof.
  unfold wstep. destruct (closed (pl w)) eqn:C; [discriminate|].
  unfold extAF. unfold closed in C. destruct (reg (pl w)) as [r|] eqn:Hr; [|discriminate].
  intros H. inversion H; subst w'; clear H. cbn [pl lost]. repeat split.
  intros c. unfold look. cbn [pl regList reg]. fold finAll. rewrite lookup_map by apply finAll_key.
  destruct (lookup k r); [|discriminate]. cbn. intros E. inversion E. apply finAll_fin.
Qed.

(* Close / normal context exit (repaired code): every value whose last marking asked for
   finalisation has had its finaliser called exactly once since that marking — whether or not
   the Go collector had already queued it *)
Theorem finalize_exactly_once_by_close es w w' k :
  wrun world0 es = Some w -> wstep w ECloseF = Some w' ->
  wantsF k (tr w') = true -> finc k (tr w') = 1%nat.
Proof.
  intros H S WF.
  assert (I : Inv w') by (eapply step_inv; [eapply reachable_inv; exact H|exact S]).
  destruct I as [_ K]. specialize (K k).
  destruct (closef_facts w w' k S) as (C & N0 & AF).
  pose proof (k_lc _ K) as LC. cbn [view vClosed vLost] in LC. specialize (LC C).
  destruct (k_wF _ K WF) as [E|[(_ & [(c & Hc & EF)|E])|E]]; cbn [view vFinc vLook vNF vLost] in *.
  - exact E.
  - rewrite (AF c Hc) in EF. discriminate.
  - rewrite N0 in E. discriminate.
  - congruence.
Qed.

(* the history that refuted the statement before the repair (a pending finaliser at close) *)
Definition pending_at_close_history : list ev := [EMark 1 1; EMark 2 1; EDrop 1; EGoGC 1; ECloseF; EFinReturn; EPop].
Example pending_at_close_now_finalised :
  exists w, wrun world0 pending_at_close_history = Some w /\ closed (pl w) = true /\
            finc 1 (tr w) = 1%nat /\ finc 2 (tr w) = 1%nat /\
            tr w = [Fin 1; Fin 2; Marked 2 1; Marked 1 1].
Proof. eexists. vm_compute. repeat split; reflexivity. Qed.

Example finalize_exactly_once_example :
  exists w w', wrun world0 [EMark 1 1; EMark 2 3; EDrop 1; EGoGC 1; ERunPF; EFinReturn] = Some w /\
    wstep w ECloseF = Some w' /\ wantsF 2 (tr w') = true /\ finc 2 (tr w') = 1%nat /\ finc 1 (tr w') = 1%nat.
Proof. eexists. eexists. vm_compute. repeat split; reflexivity. Qed.

(* ---- order ---- *)

(* every list handed to the runtime is the key list of a permutation of the
   selected entries sorted by descending mark order *)
Theorem extraction_sorted l :
  StronglySorted desc (sort_desc l) /\ Permutation (sort_desc l) l.
Proof. split; [apply sort_desc_sorted|apply sort_desc_perm]. Qed.

(* order invariant: every mark order the pool knows about is bounded by lastMarkOrder *)
Definition OLe (p : pool) : Prop :=
  forall e, In e (regList p ++ pendF p ++ pendR p) -> eOrd e <= last p.

Lemma in_delete e k r : In e (delete k r) -> In e r.
Proof. unfold delete. intros H. apply filter_In in H. tauto. Qed.

Lemma OLe0 : OLe pool0.
Proof. intros e []. Qed.

Lemma OLe_step p o : OLe p -> OLe (fst (step p o)).
Proof.
  intros L. destruct o as [k fl| k | | | | ]; cbn [step fst].
  - unfold mark. destruct (reg p) as [r|] eqn:Hr.
    2:{ destruct (fl =? 0); cbn [fst]; [exact L|].
        intros e He. unfold OLe, regList in *. rewrite Hr in L. cbn [reg last pendF pendR] in *. specialize (L e He). lia. }
    unfold OLe, regList in *. rewrite Hr in L.
    destruct (lookup k r) as [c|] eqn:Lk; [|destruct (fl =? 0)]; cbn [fst reg last pendF pendR];
      try rewrite Hr; intros e He; rewrite !in_app_iff in *; simpl in He.
    + destruct He as [[<-|He]|He]; [cbn; lia| |].
      * assert (eOrd e <= last p) by (apply L; rewrite !in_app_iff; left; eapply in_delete; exact He). lia.
      * assert (eOrd e <= last p) by (apply L; rewrite !in_app_iff; tauto). lia.
    + apply L. rewrite !in_app_iff. tauto.
    + destruct He as [[<-|He]|He]; [cbn; lia| |].
      * assert (eOrd e <= last p) by (apply L; rewrite !in_app_iff; left; eapply in_delete; exact He). lia.
      * assert (eOrd e <= last p) by (apply L; rewrite !in_app_iff; tauto). lia.
  - unfold goFinalizer. destruct (reg p) as [r|] eqn:Hr; [|exact L].
    destruct (lookup k r) as [c|] eqn:Lk; [|exact L].
    assert (Ic : In c r) by (eapply lookup_in; exact Lk).
    unfold OLe, regList in *. rewrite Hr in L.
    assert (Lc : eOrd c <= last p) by (apply L; rewrite !in_app_iff; tauto).
    destruct (eFin c); cbn [negb reg last pendF pendR]; intros e He; rewrite !in_app_iff in He.
    + destruct He as [He|[He|He]].
      * apply L. rewrite !in_app_iff. left. eapply in_delete. exact He.
      * apply L. rewrite !in_app_iff. tauto.
      * destruct (negb (eRel c)); [|apply L; rewrite !in_app_iff; tauto].
        rewrite in_app_iff in He. destruct He as [He|[<-|[]]]; [apply L; rewrite !in_app_iff; tauto|exact Lc].
    + simpl in He. destruct He as [[<-|He]|[[He|[<-|[]]]|He]]; try exact Lc.
      * apply L. rewrite !in_app_iff. left. eapply in_delete. exact He.
      * apply L. rewrite !in_app_iff. tauto.
      * apply L. rewrite !in_app_iff. tauto.
  - unfold extPF, OLe, regList in *. cbn [fst reg last pendF pendR]. intros e He. apply L.
    rewrite !in_app_iff in *. simpl in He. tauto.
  - unfold extPR, OLe, regList in *. cbn [fst reg last pendF pendR]. intros e He. apply L.
    rewrite !in_app_iff in *. simpl in He. tauto.
  - unfold extAF, OLe, regList in *. destruct (reg p) as [r|] eqn:Hr; cbn [fst reg last pendF pendR]; intros e He;
      rewrite !in_app_iff in He; simpl in He.
    + destruct He as [He|[[]|He]]; [|apply L; rewrite !in_app_iff; tauto].
      apply in_map_iff in He. destruct He as (c & <- & Hc).
      assert (eOrd (if notFin c then setFin c else c) = eOrd c) as -> by (destruct (notFin c); reflexivity).
      apply L. rewrite !in_app_iff. tauto.
    + apply L. rewrite !in_app_iff. simpl. tauto.
  - unfold extAR, OLe, regList in *. cbn [fst reg last pendF pendR]. intros e He. apply L.
    rewrite !in_app_iff in *. simpl in He. tauto.
Qed.

Lemma OLe_run os : forall p, OLe p -> OLe (fold_left (fun q o => fst (step q o)) os p).
Proof. induction os as [|o os IH]; simpl; intros p H; [exact H|]. apply IH. apply OLe_step. exact H. Qed.

(* for every history of pool calls (any at all):
   - what ExtractAllMarkedFinalize hands back is a permutation of the entries
     still owed a finaliser, sorted by descending mark order;
   - a marking made now gets an order strictly above every entry the pool
     knows (so "descending mark order" is "reverse order of marking");
   - if the mark orders are pairwise distinct, the sorted list is the only
     strictly descending arrangement (Go's sort.Sort, which is not stable,
     cannot return anything else) *)
Theorem close_order_reverse_mark os :
  let p := fold_left (fun q o => fst (step q o)) os pool0 in
  let sel := pendF p ++ filter notFin (regList p) in
  StronglySorted desc (sort_desc sel) /\ Permutation (sort_desc sel) sel /\
  (forall k fl r, reg p = Some r -> fl <> 0 ->
     let p' := fst (mark p k fl) in
     exists c, lookup k (regList p') = Some c /\
               forall e, In e (regList p ++ pendF p ++ pendR p) -> eOrd e < eOrd c) /\
  (NoDup (map eOrd sel) -> forall l, StronglySorted sdesc l -> Permutation l sel -> l = sort_desc sel).
Proof.
  intros p sel. assert (O : OLe p) by (apply OLe_run, OLe0).
  split; [apply sort_desc_sorted|]. split; [apply sort_desc_perm|]. split.
  - intros k fl r Hr Hfl p'. subst p'. unfold mark. rewrite Hr.
    apply N.eqb_neq in Hfl. rewrite Hfl.
    destruct (lookup k r); cbn [fst regList reg]; rewrite lookup_store; cbn [eKey]; rewrite N.eqb_refl;
      eexists; (split; [reflexivity|]); intros e' He; specialize (O e' He); cbn [eOrd]; lia.
  - intros ND l S P. apply sdesc_perm_unique; [exact S|apply sort_desc_strict; exact ND|].
    rewrite P. symmetry. apply sort_desc_perm.
Qed.

(* ---- killed contexts ---- *)

Lemma finAll_idem c : finAll (finAll c) = finAll c.
Proof. unfold finAll at 1. unfold notFin. rewrite finAll_fin. reflexivity. Qed.

(* a killed context skips every finaliser but performs exactly the releases
   that a normal exit performs *)
Theorem killed_context_skips_finalizers_not_releases p :
  fst (exit_killed p) = [] /\ snd (exit_killed p) = snd (exit_normal p).
Proof.
  unfold exit_killed, exit_normal, extAF, extAR. destruct (reg p) as [r|]; cbn [fst snd reg pendR pendF last oVals].
  - split; [reflexivity|]. fold finAll. rewrite map_map.
    rewrite (map_ext (fun x => finAll (finAll x)) finAll) by apply finAll_idem. reflexivity.
  - split; reflexivity.
Qed.

(* ... and those releases are, for every reachable state, exactly one call
   for every value whose last marking asked for one and that was not released yet *)
Theorem killed_context_releases_exactly_once es w k :
  wrun world0 es = Some w -> closed (pl w) = false ->
  wantsR k (tr w) = true -> relc k (tr w) = 0%nat ->
  occ k (snd (exit_killed (pl w))) = 1%nat.
Proof.
  intros H C WR R0.
  destruct (wstep w EPop) as [w'|] eqn:S.
  2:{ unfold wstep in S. rewrite C in S. destruct (extAF (pl w)). destruct (extAR p). discriminate. }
  assert (WR' : wantsR k (tr w') = true /\ relc k (tr w') = (occ k (snd (exit_killed (pl w))) + relc k (tr w))%nat).
  { unfold wstep in S. rewrite C in S. unfold exit_killed.
    destruct (extAF (pl w)) as [p1 f]. destruct (extAR p1) as [p2 x]. inversion S; subst w'. cbn [tr snd].
    split; [unfold wantsR in *; rewrite lastFlags_emit_rel; exact WR|apply relc_emit_rel]. }
  destruct WR' as [WR' E].
  destruct (release_exactly_once_after_finalize es w w' k H S WR') as [E1 _]. lia.
Qed.
