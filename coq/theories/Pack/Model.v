(* Pack/Model.v — implementation model (IM) of golua's string.pack /
   string.unpack / string.packsize.  Mirrors, option by option,
     lib/stringlib/packformatreader.go  (getOptSize, smallOptSize, mustGetOptSize)
     lib/stringlib/packer.go            (PackValues, align, packInt, packUint, writeStr, fill)
     lib/stringlib/unpacker.go          (UnpackString, align, read, readStr, readVarInt,
                                         readVarUint, readSignExt, skip, skip0)
     lib/stringlib/packsize.go          (PackSize)
   Bytes are Z in 0..255, integers are Z, uint/uint64 arithmetic is [mod 2^64],
   Go's run-time panic (makeslice in readStr) is the explicit outcome UPanic.
   The `a && b && c` chains of the Go code are written in continuation style:
   [p_align n s (fun s => p_next_int s (fun v s => ...))].

   Deliberate simplifications (all documented in notes/C17.md):
   * the memory budget (LinearUnused) is 0 = unbounded, as in an unlimited runtime;
   * an option-size numeral that overflows uint is reported at once as
     EOverflow (the Go code lets the chain run on and then fails on the
     unconsumed digit or keeps errOverflow: always an error, class may differ);
   * values that need string->number or float->string coercion give the
     outcome EUnmodelled, which is not a Go outcome.
   * the unpacker keeps (pack, j) in Go; the model keeps j (needed for alignment)
     and the unread suffix pack[j:] ([u_rest]), which is the same information.
   Ghost output of [pack] (not in the Go code): the list of values as the
   unpacker is expected to return them.
   The model mirrors the code AFTER the round-2 repairs (notes/C17.md): readStr
   checks the announced length first, unsigned 8-byte options accept any integer,
   NaN passes checkFloatSize, 'X' must be followed by an alignable option in
   pack, unpack and packsize alike, 'x' aligns in unpack, c0 is a real limit.

   No proofs in this file. *)
From Coq Require Import ZArith List Bool.
From GV Require Import Pack.NumStrModel.
Import ListNotations.
Open Scope Z_scope.

Definition W : Z := 18446744073709551616.          (* 2^64 *)
Definition H : Z := 9223372036854775808.           (* 2^63 *)
Definition maxDecuplable : Z := 1844674407370955161. (* MaxUint / 10 *)
Definition maxAlloc : Z := 281474976710656.        (* 2^48: runtime.maxAlloc on linux/amd64 *)

Definition to_i64 (u : Z) : Z := let m := u mod W in if m <? H then m else m - W.
Definition len (l : list Z) : Z := Z.of_nat (length l).

Inductive perr :=
| EBadOptionArg | EMissingSize | EBadType | EOutOfBounds | EExpectedOption
| EBadAlignment | EUnexpectedPackEnd | EDoesNotFit | EStringLongerThanFormat
| EStringDoesNotFit | EVariableLength | EOverflow | EStringContainsZeros
| EBadFormat (c : Z) | ENotEnoughValues | EEOF | EUnmodelled | EResultTooLarge.

Inductive value := VInt (n : Z) | VFlt (bits : Z) | VStr (s : list Z) | VNil.

(* ---------------------------------------------------------------- bytes *)
Fixpoint le_bytes (k : nat) (v : Z) : list Z :=
  match k with O => [] | S k' => (v mod 256) :: le_bytes k' (v / 256) end.
Fixpoint le_val (bs : list Z) : Z :=
  match bs with [] => 0 | b :: r => b + 256 * le_val r end.
(* binary.Write / binary.Read with the current byte order *)
Definition enc (little : bool) (k : nat) (v : Z) : list Z :=
  if little then le_bytes k v else rev (le_bytes k v).
Definition dec (little : bool) (bs : list Z) : Z :=
  if little then le_val bs else le_val (rev bs).
(* reinterpret an unsigned k-byte quantity as signed *)
Definition sgn (k : nat) (u : Z) : Z :=
  if u <? 2 ^ (8 * Z.of_nat k - 1) then u else u - 2 ^ (8 * Z.of_nat k).
Definition zeros (n : Z) : list Z := repeat 0 (Z.to_nat n).

(* ---------------------------------------------------------------- floats as bit patterns *)
Definition P52 : Z := 4503599627370496.  (* 2^52 *)
(* runtime.FloatToInt: int64(f) then float64(n) == f *)
Definition float_to_int (bits : Z) : option Z :=
  let s := bits / H in
  let e := (bits / P52) mod 2048 in
  let m := bits mod P52 in
  if e =? 2047 then None
  else if e =? 0 then (if m =? 0 then Some 0 else None)
  else
    let M := P52 + m in
    let sh := e - 1075 in
    let mag := if 0 <=? sh then Some (M * 2 ^ sh)
               else if M mod 2 ^ (- sh) =? 0 then Some (M / 2 ^ (- sh)) else None in
    match mag with
    | None => None
    | Some a => let v := if s =? 1 then - a else a in
                if (- H <=? v) && (v <? H) then Some v else None
    end.
(* float64(int64): round to nearest, ties to even *)
Definition int_to_f64 (n : Z) : Z :=
  if n =? 0 then 0 else
  let s := if n <? 0 then H else 0 in
  let a := Z.abs n in
  let k := Z.log2 a in
  if k <=? 52 then s + (k + 1023) * P52 + (a * 2 ^ (52 - k) - P52)
  else
    let sh := k - 52 in
    let q := a / 2 ^ sh in
    let r := a mod 2 ^ sh in
    let half := 2 ^ (sh - 1) in
    let q' := if (half <? r) || ((r =? half) && Z.odd q) then q + 1 else q in
    s + (k + 1023) * P52 + (q' - P52).

(* float32(float64) and back, on bit patterns (round to nearest even, overflow to
   infinity, denormals, NaN quietened as the amd64 CVTSD2SS instruction does) *)
Definition f64_to_f32 (bits : Z) : Z :=
  let s := (bits / H) * 2147483648 in
  let e := (bits / P52) mod 2048 in
  let m := bits mod P52 in
  if e =? 2047 then
    (if m =? 0 then s + 2139095040 else s + 2139095040 + 4194304 + (m / 536870912) mod 4194304)
  else
    (* value = M * 2^(e0 - 1075) with M the 53-bit significand (or denormal) *)
    let M := if e =? 0 then m else P52 + m in
    let e0 := if e =? 0 then 1 else e in
    if M =? 0 then s else
    let k := Z.log2 M in                      (* M in [2^k, 2^(k+1)) *)
    let ex := k + e0 - 1075 in                (* unbiased exponent of the value *)
    (* target: 24-bit significand if ex >= -126, else denormal with lsb 2^-149 *)
    let lsb := if -126 <=? ex then ex - 23 else -149 in     (* exponent of the result's last bit *)
    let sh := lsb - (e0 - 1075) in            (* drop sh low bits of M (sh may be <= 0) *)
    let q := if 0 <? sh then M / 2 ^ sh else M * 2 ^ (- sh) in
    let r := if 0 <? sh then M mod 2 ^ sh else 0 in
    let half := if 0 <? sh then 2 ^ (sh - 1) else 1 in
    let q' := if (0 <? sh) && ((half <? r) || ((r =? half) && Z.odd q)) then q + 1 else q in
    (* q' * 2^lsb ; encode: biased exponent field be = lsb + 23 + 127 when normal *)
    if -126 <=? ex then
      let be := ex + 127 in
      let enc := be * 8388608 + (q' - 8388608) in      (* carry of q' = 2^24 bumps the exponent *)
      if 2139095040 <=? enc then s + 2139095040 else s + enc
    else s + q'.
Definition f32_to_f64 (b : Z) : Z :=
  let s := (b / 2147483648) * H in
  let e := (b / 8388608) mod 256 in
  let m := b mod 8388608 in
  if e =? 255 then (if m =? 0 then s + 2047 * P52 else s + 2047 * P52 + 2251799813685248 + (m mod 4194304) * 536870912)
  else if e =? 0 then
    (if m =? 0 then s else
     let k := Z.log2 m in                      (* value = m * 2^-149 = 2^(k-149) * (m / 2^k) *)
     s + (k - 149 + 1023) * P52 + (m * 2 ^ (52 - k) - P52))
  else s + (e - 127 + 1023) * P52 + m * 536870912.
(* checkFloatSize(math.MaxFloat32): |f| <= MaxFloat32 or f infinite (NaN fails) *)
Definition maxf32_bits : Z := 5183643170566569984. (* 0x47efffffe0000000 *)
Definition check_float_size (bits : Z) : bool :=
  let a := bits mod H in
  (a <=? maxf32_bits) || (2047 * P52 <=? a).   (* finite within range, or infinite, or NaN *)

(* ---------------------------------------------------------------- value coercions *)
Inductive conv (A : Type) := CvOk (a : A) | CvBad | CvUnmodelled.
Arguments CvOk {A} a.  Arguments CvBad {A}.  Arguments CvUnmodelled {A}.
Definition to_int (v : value) : conv Z :=
  match v with
  | VInt n => CvOk n
  | VFlt b => match float_to_int b with Some n => CvOk n | None => CvBad end
  | VStr _ => CvUnmodelled
  | VNil => CvBad
  end.
Definition to_float (v : value) : conv Z :=
  match v with
  | VInt n => CvOk (int_to_f64 n mod W)      (* a float64 is 64 bits: [mod W] is the identity on int_to_f64's range *)
  | VFlt b => CvOk b
  | VStr _ => CvUnmodelled
  | VNil => CvBad
  end.
Definition to_str (v : value) : conv (list Z) :=
  match v with
  | VStr s => CvOk s
  | VInt n => CvOk (format_int n)
  | VFlt _ => CvUnmodelled
  | VNil => CvBad
  end.

(* ---------------------------------------------------------------- format reader *)
Record rd := mkRd { little : bool; maxAl : Z; alignOnly : bool }.
Definition rd0 : rd := mkRd true 1 false.   (* nativeEndian = little on amd64; defaultMaxAlignement = 1 *)

Definition is_digit (c : Z) : bool := (48 <=? c) && (c <=? 57).

(* getOptSize: (error | (found a digit, value)), rest of the format *)
Fixpoint getOptSize_go (fmt : list Z) (n : Z) (ok : bool) : (option perr * bool * Z) * list Z :=
  match fmt with
  | c :: rest =>
    if is_digit c then
      if maxDecuplable <? n then ((Some EOverflow, false, n), fmt)
      else
        let cc := c - 48 in
        let n' := (n * 10 + cc) mod W in
        if n' <? cc then ((Some EOverflow, false, n), fmt)
        else getOptSize_go rest n' true
    else ((None, ok, n), fmt)
  | [] => ((None, ok, n), [])
  end.
Definition getOptSize (fmt : list Z) := getOptSize_go fmt 0 false.

(* smallOptSize(default): error | size, rest *)
Definition smallOptSize (dflt : Z) (fmt : list Z) : (perr + Z) * list Z :=
  match getOptSize fmt with
  | ((Some e, _, _), rest) => (inl e, rest)
  | ((None, true, n), rest) => if (1 <=? n) && (n <=? 16) then (inr n, rest) else (inl EBadOptionArg, rest)
  | ((None, false, _), rest) => if dflt =? 0 then (inl EMissingSize, rest) else (inr dflt, rest)
  end.
Definition mustGetOptSize (fmt : list Z) : (perr + Z) * list Z :=
  match getOptSize fmt with
  | ((Some e, _, _), rest) => (inl e, rest)
  | ((None, true, n), rest) => (inr n, rest)
  | ((None, false, _), rest) => (inl EMissingSize, rest)
  end.

(* alignableOption *)
Definition alignable (c : Z) : bool :=
  existsb (fun x => x =? c) [98; 66; 104; 72; 108; 76; 106; 74; 84; 105; 73; 102; 100; 110; 115; 120].

(* ---------------------------------------------------------------- packer *)

Record pst := mkP {
  p_rd : rd; p_fmt : list Z; p_vals : list value;
  p_w : list Z;                 (* bytes written so far *)
  p_packed : list value         (* ghost: values as the unpacker should return them *)
}.
Inductive pres := PCont (s : pst) | PFail (e : perr).

Definition p_set_rd (s : pst) (r : rd) := mkP r (p_fmt s) (p_vals s) (p_w s) (p_packed s).
Definition p_set_fmt (s : pst) (f : list Z) := mkP (p_rd s) f (p_vals s) (p_w s) (p_packed s).
Definition p_write (s : pst) (bs : list Z) := mkP (p_rd s) (p_fmt s) (p_vals s) (p_w s ++ bs) (p_packed s).
Definition p_emit (s : pst) (v : value) := mkP (p_rd s) (p_fmt s) (p_vals s) (p_w s) (p_packed s ++ [v]).
Definition p_pop (s : pst) (vs : list value) := mkP (p_rd s) (p_fmt s) vs (p_w s) (p_packed s).

Definition clear_ao (r : rd) := mkRd (little r) (maxAl r) false.
Definition set_ao (r : rd) := mkRd (little r) (maxAl r) true.

Definition is_pow2 (n : Z) : bool := Z.land (n - 1) n =? 0.
Definition pad_to (n pos : Z) : Z := let r := pos mod n in if r =? 0 then 0 else n - r.

(* packer.align *)
Definition p_align (n : Z) (s : pst) (k : pst -> pres) : pres :=
  let r := p_rd s in
  let go (s1 : pst) := if alignOnly r then PCont (p_set_rd s1 (clear_ao r)) else k s1 in
  if n =? 0 then go s
  else
    let n' := if maxAl r <? n then maxAl r else n in
    if negb (is_pow2 n') then PFail EBadAlignment
    else go (p_write s (zeros (pad_to n' (len (p_w s))))).

Definition p_next (s : pst) (k : value -> pst -> pres) : pres :=
  match p_vals s with
  | v :: vs => k v (p_pop s vs)
  | [] => PFail ENotEnoughValues
  end.
Definition p_next_int (s : pst) (k : Z -> pst -> pres) : pres :=
  p_next s (fun v s => match to_int v with
                       | CvOk n => k n s | CvBad => PFail EBadType | CvUnmodelled => PFail EUnmodelled end).
Definition p_next_float (s : pst) (k : Z -> pst -> pres) : pres :=
  p_next s (fun v s => match to_float v with
                       | CvOk n => k n s | CvBad => PFail EBadType | CvUnmodelled => PFail EUnmodelled end).
Definition p_next_str (s : pst) (k : list Z -> pst -> pres) : pres :=
  p_next s (fun v s => match to_str v with
                       | CvOk n => k n s | CvBad => PFail EBadType | CvUnmodelled => PFail EUnmodelled end).

Definition p_bounds (lo hi v : Z) (k : pres) : pres :=
  if (lo <=? v) && (v <=? hi) then k else PFail EOutOfBounds.

(* write(k bytes of v in the current byte order) + ghost value *)
Definition p_put_int (k : nat) (v : Z) (s : pst) : pst := p_write s (enc (little (p_rd s)) k v).

(* packInt / packUint; [n] is the option size 1..16, [v] the int64 value *)
Definition packInt (n : Z) (v : Z) (s : pst) : pres :=
  let lt := little (p_rd s) in
  if n =? 4 then p_bounds (-2147483648) 2147483647 v (PCont (p_put_int 4 v s))
  else if n =? 8 then PCont (p_put_int 8 v s)
  else if 8 <=? n then
    let fill := repeat (if v <? 0 then 255 else 0) (Z.to_nat (n - 8)) in
    PCont (p_write s (if lt then enc lt 8 v ++ fill else fill ++ enc lt 8 v))
  else
    let mx := 2 ^ (8 * n - 1) in
    p_bounds (- mx) (mx - 1) v
      (PCont (p_write s (if lt then firstn (Z.to_nat n) (enc lt 8 v)
                         else skipn (Z.to_nat (8 - n)) (enc lt 8 v)))).
Definition packUint (n : Z) (v : Z) (s : pst) : pres :=
  let lt := little (p_rd s) in
  if n =? 4 then p_bounds 0 4294967295 v (PCont (p_put_int 4 v s))
  else if n =? 8 then PCont (p_put_int 8 v s)
  else if 8 <? n then
    let fill := repeat 0 (Z.to_nat (n - 8)) in
    PCont (p_write s (if lt then enc lt 8 v ++ fill else fill ++ enc lt 8 v))
  else
    let mx := 2 ^ (8 * n) in
    p_bounds 0 (mx - 1) v
      (PCont (p_write s (if lt then firstn (Z.to_nat n) (enc lt 8 v)
                         else skipn (Z.to_nat (8 - n)) (enc lt 8 v)))).

(* writeStr(maxLen, fixedLen): int(maxLen) wraps for maxLen >= 2^63 *)
Definition p_write_str (maxLen : Z) (fixedLen : bool) (str : list Z) (s : pst) : perr + (pst * list Z) :=
  if fixedLen && (maxint <? maxLen) then inl EResultTooLarge else
  let diff := if fixedLen then to_i64 maxLen - len str else 0 in
  if diff <? 0 then inl EStringLongerThanFormat
  else let out := str ++ zeros diff in inr (p_write s out, out).

Definition has_zero (str : list Z) : bool := existsb (fun b => b =? 0) str.

Definition pack_opt (c : Z) (s : pst) : pres :=
  let r := p_rd s in
  let fixed_int (al : Z) (k : nat) (lo hi : Z) (chk : bool) :=
    p_align al s (fun s => p_next_int s (fun v s =>
      let body := PCont (p_emit (p_put_int k v s) (VInt v)) in
      if chk then p_bounds lo hi v body else body)) in
  if c =? 60 then PCont (p_set_rd s (mkRd true (maxAl r) (alignOnly r)))
  else if c =? 62 then PCont (p_set_rd s (mkRd false (maxAl r) (alignOnly r)))
  else if c =? 61 then PCont (p_set_rd s (mkRd true (maxAl r) (alignOnly r)))
  else if c =? 33 then
    match smallOptSize 1 (p_fmt s) with
    | (inl e, _) => PFail e
    | (inr n, rest) => PCont (p_set_fmt (p_set_rd s (mkRd (little r) n (alignOnly r))) rest)
    end
  else if c =? 98 then fixed_int 0 1%nat (-128) 127 true
  else if c =? 66 then fixed_int 0 1%nat 0 255 true
  else if c =? 104 then fixed_int 2 2%nat (-32768) 32767 true
  else if c =? 72 then fixed_int 2 2%nat 0 65535 true
  else if (c =? 108) || (c =? 106) then fixed_int 8 8%nat 0 0 false
  else if (c =? 76) || (c =? 74) || (c =? 84) then fixed_int 8 8%nat 0 0 false
  else if (c =? 105) || (c =? 73) then
    match smallOptSize 8 (p_fmt s) with
    | (inl e, _) => PFail e
    | (inr n, rest) =>
      p_align n (p_set_fmt s rest) (fun s => p_next_int s (fun v s =>
        match (if c =? 105 then packInt n v s else packUint n v s) with
        | PCont s' => PCont (p_emit s' (VInt v))
        | PFail e => PFail e
        end))
    end
  else if c =? 102 then
    p_align 4 s (fun s => p_next_float s (fun f s =>
      if check_float_size f then
        let b := f64_to_f32 f mod 4294967296 in   (* a float32 is 32 bits: identity on f64_to_f32's range *)
        PCont (p_emit (p_put_int 4 b s) (VFlt (f32_to_f64 b)))
      else PFail EOutOfBounds))
  else if (c =? 100) || (c =? 110) then
    p_align 8 s (fun s => p_next_float s (fun f s => PCont (p_emit (p_put_int 8 f s) (VFlt f))))
  else if c =? 99 then
    p_align 0 s (fun s =>
      match mustGetOptSize (p_fmt s) with
      | (inl e, _) => PFail e
      | (inr n, rest) =>
        p_next_str (p_set_fmt s rest) (fun str s =>
          match p_write_str n true str s with
          | inl e => PFail e
          | inr (s', out) => PCont (p_emit s' (VStr out))
          end)
      end)
  else if c =? 122 then
    p_align 0 s (fun s => p_next_str s (fun str s =>
      if has_zero str then PFail EStringContainsZeros
      else PCont (p_emit (p_write s (str ++ [0])) (VStr str))))
  else if c =? 115 then
    match smallOptSize 8 (p_fmt s) with
    | (inl e, _) => PFail e
    | (inr n, rest) =>
      p_align n (p_set_fmt s rest) (fun s => p_next_str s (fun str s =>
        match packUint n (len str) s with
        | PCont s' => PCont (p_emit (p_write s' str) (VStr str))
        | PFail EOutOfBounds => PFail EStringDoesNotFit
        | PFail e => PFail e
        end))
    end
  else if c =? 120 then p_align 0 s (fun s => PCont (p_write s [0]))
  else if c =? 88 then PCont (p_set_rd s (set_ao r))
  else if c =? 32 then PCont s
  else PFail (EBadFormat c).

Inductive pout :=
| POk (out : list Z) (packed : list value)
| PErr (e : perr)
| POutOfFuel.

Fixpoint pack_go (fuel : nat) (s : pst) : pout :=
  match fuel with
  | O => POutOfFuel
  | S f =>
    match p_fmt s with
    | [] => if alignOnly (p_rd s) then PErr EExpectedOption else POk (p_w s) (p_packed s)
    | c :: rest =>
      if alignOnly (p_rd s) && negb (alignable c) then PErr EExpectedOption else
      match pack_opt c (p_set_fmt s rest) with
      | PFail e => PErr e
      | PCont s' => pack_go f s'
      end
    end
  end.
Definition pack (fmt : list Z) (vs : list value) : pout :=
  pack_go (S (length fmt)) (mkP rd0 fmt vs [] []).

(* ---------------------------------------------------------------- unpacker *)
(* u_rest = pack[j:] *)
Record ust := mkU { u_rd : rd; u_fmt : list Z; u_j : Z; u_rest : list Z; u_vals : list value }.
Inductive ures := UCont (s : ust) | UFail (e : perr) | UPanicked.

Definition u_set_rd (s : ust) (r : rd) := mkU r (u_fmt s) (u_j s) (u_rest s) (u_vals s).
Definition u_set_fmt (s : ust) (f : list Z) := mkU (u_rd s) f (u_j s) (u_rest s) (u_vals s).
Definition u_adv (s : ust) (n : Z) :=
  mkU (u_rd s) (u_fmt s) (u_j s + n) (skipn (Z.to_nat n) (u_rest s)) (u_vals s).
Definition u_add (s : ust) (v : value) := mkU (u_rd s) (u_fmt s) (u_j s) (u_rest s) (u_vals s ++ [v]).
Definition take (n : Z) (l : list Z) : list Z := firstn (Z.to_nat n) l.

(* skip(n): u.j += n; u.j <= len(u.pack) *)
Definition u_skip (n : Z) (s : ust) (k : ust -> ures) : ures :=
  if n <=? len (u_rest s) then k (u_adv s n) else UFail EUnexpectedPackEnd.

(* unpacker.align (round 6: the same power-of-2 test as pack and packsize) *)
Definition u_align (n : Z) (s : ust) (k : ust -> ures) : ures :=
  let r := u_rd s in
  let go (s1 : ust) := if alignOnly r then UCont (u_set_rd s1 (clear_ao r)) else k s1 in
  if n =? 0 then go s
  else
    let n' := if maxAl r <? n then maxAl r else n in
    if negb (is_pow2 n') then UFail EBadAlignment
    else
      let p := pad_to n' (u_j s) in
      if p =? 0 then go s else u_skip p s go.

(* binary.Read of n bytes through io.ReadFull: EOF when nothing is left,
   ErrUnexpectedEOF (-> errUnexpectedPackEnd) when some but not enough *)
Definition u_read (n : Z) (s : ust) (k : list Z -> ust -> ures) : ures :=
  let avail := len (u_rest s) in
  if n <=? avail then k (take n (u_rest s)) (u_adv s n)
  else if avail <=? 0 then UFail EEOF else UFail EUnexpectedPackEnd.
(* direct u.Read(b[:n]) followed by the rn < n test *)
Definition u_read_short (n : Z) (s : ust) (k : list Z -> ust -> ures) : ures :=
  if n <=? len (u_rest s) then k (take n (u_rest s)) (u_adv s n)
  else UFail EUnexpectedPackEnd.

(* readStr(n): the announced length is checked against what is left, then
   make([]byte, n) (which panics for n < 0; n <= len(pack) cannot exceed maxAlloc) *)
Definition u_read_str (n : Z) (s : ust) (k : list Z -> ust -> ures) : ures :=
  if (n <? 0) || (len (u_rest s) <? n) then UFail EUnexpectedPackEnd
  else if n <? 0 then UPanicked
  else u_read n s k.

(* skip0(n): n bytes that must all be zero *)
Definition u_skip0 (n : Z) (s : ust) (k : ust -> ures) : ures :=
  if n <=? len (u_rest s) then
    if forallb (fun b => b =? 0) (take n (u_rest s)) then k (u_adv s n) else UFail EDoesNotFit
  else UFail EUnexpectedPackEnd.

(* readSignExt(n): n > 0 bytes all 0 or all 0xff *)
Definition u_sign_ext (n : Z) (s : ust) (k : Z -> ust -> ures) : ures :=
  if (0 <? n) && (n <=? len (u_rest s)) then
    match take n (u_rest s) with
    | b0 :: r =>
      if ((b0 =? 0) || (b0 =? 255)) && forallb (fun b => b =? b0) r then k b0 (u_adv s n)
      else UFail EDoesNotFit
    | [] => UFail EDoesNotFit
    end
  else UFail EUnexpectedPackEnd.

Definition readVarUint (n : Z) (s : ust) (k : Z -> ust -> ures) : ures :=
  let lt := little (u_rd s) in
  if n =? 4 then u_read 4 s (fun bs s => k (dec lt bs) s)
  else if n =? 8 then u_read 8 s (fun bs s => k (to_i64 (dec lt bs)) s)
  else if 8 <? n then
    if lt then u_read 8 s (fun bs s => u_skip0 (n - 8) s (fun s => k (to_i64 (dec lt bs)) s))
    else u_skip0 (n - 8) s (fun s => u_read 8 s (fun bs s => k (to_i64 (dec lt bs)) s))
  else
    u_read_short n s (fun bs s =>
      let b8 := if lt then bs ++ zeros (8 - n) else zeros (8 - n) ++ bs in
      k (to_i64 (dec lt b8)) s).

Definition readVarInt (n : Z) (s : ust) (k : Z -> ust -> ures) : ures :=
  let lt := little (u_rd s) in
  if n =? 4 then u_read 4 s (fun bs s => k (sgn 4 (dec lt bs)) s)
  else if n =? 8 then u_read 8 s (fun bs s => k (sgn 8 (dec lt bs)) s)
  else if 8 <? n then
    let fin (x ext : Z) (s : ust) :=
      if ext =? 0 then (if x <=? maxint then k x s else UFail EDoesNotFit)
      else (if maxint <? x then k (x - W) s else UFail EDoesNotFit) in
    if lt then u_read 8 s (fun bs s => u_sign_ext (n - 8) s (fun ext s => fin (dec lt bs) ext s))
    else u_sign_ext (n - 8) s (fun ext s => u_read 8 s (fun bs s => fin (dec lt bs) ext s))
  else
    u_read_short n s (fun bs s =>
      let top := if lt then nth (Z.to_nat (n - 1)) bs 0 else nth 0 bs 0 in
      let ext := repeat (if 128 <=? top then 255 else 0) (Z.to_nat (8 - n)) in
      let b8 := if lt then bs ++ ext else ext ++ bs in
      k (sgn 8 (dec lt b8)) s).

(* offset of the first zero byte, if any *)
Fixpoint find_zero (l : list Z) (i : Z) : option Z :=
  match l with
  | [] => None
  | b :: r => if b =? 0 then Some i else find_zero r (i + 1)
  end.

Definition unpack_opt (c : Z) (s : ust) : ures :=
  let r := u_rd s in
  let fixed (al : Z) (k : nat) (signed : bool) :=
    u_align al s (fun s => u_read (Z.of_nat k) s (fun bs s =>
      let u := dec (little (u_rd s)) bs in
      UCont (u_add s (VInt (if signed then sgn k u else to_i64 u))))) in
  if c =? 60 then UCont (u_set_rd s (mkRd true (maxAl r) (alignOnly r)))
  else if c =? 62 then UCont (u_set_rd s (mkRd false (maxAl r) (alignOnly r)))
  else if c =? 61 then UCont (u_set_rd s (mkRd true (maxAl r) (alignOnly r)))
  else if c =? 33 then
    match smallOptSize 1 (u_fmt s) with
    | (inl e, _) => UFail e
    | (inr n, rest) => UCont (u_set_fmt (u_set_rd s (mkRd (little r) n (alignOnly r))) rest)
    end
  else if c =? 98 then fixed 0 1%nat true
  else if c =? 66 then fixed 0 1%nat false
  else if c =? 104 then fixed 2 2%nat true
  else if c =? 72 then fixed 2 2%nat false
  else if (c =? 108) || (c =? 106) then fixed 8 8%nat true
  else if (c =? 76) || (c =? 74) || (c =? 84) then fixed 8 8%nat false
  else if (c =? 105) || (c =? 73) then
    match smallOptSize 8 (u_fmt s) with
    | (inl e, _) => UFail e
    | (inr n, rest) =>
      u_align n (u_set_fmt s rest) (fun s =>
        (if c =? 105 then readVarInt else readVarUint) n s (fun v s => UCont (u_add s (VInt v))))
    end
  else if c =? 102 then
    u_align 4 s (fun s => u_read 4 s (fun bs s =>
      UCont (u_add s (VFlt (f32_to_f64 (dec (little (u_rd s)) bs))))))
  else if (c =? 100) || (c =? 110) then
    u_align 8 s (fun s => u_read 8 s (fun bs s => UCont (u_add s (VFlt (dec (little (u_rd s)) bs)))))
  else if c =? 99 then
    u_align 0 s (fun s =>
      match mustGetOptSize (u_fmt s) with
      | (inl e, _) => UFail e
      | (inr n, rest) =>
        u_read_str (to_i64 n) (u_set_fmt s rest) (fun bs s => UCont (u_add s (VStr bs)))
      end)
  else if c =? 122 then
    if alignOnly r then UFail EExpectedOption
    else
      match find_zero (u_rest s) 0 with
      | None => UFail EUnexpectedPackEnd
      | Some zi => u_read zi s (fun bs s => u_skip 1 (u_add s (VStr bs)) (fun s => UCont s))
      end
  else if c =? 115 then
    match smallOptSize 8 (u_fmt s) with
    | (inl e, _) => UFail e
    | (inr n, rest) =>
      u_align n (u_set_fmt s rest) (fun s =>
        readVarUint n s (fun l s => u_read_str l s (fun bs s => UCont (u_add s (VStr bs)))))
    end
  else if c =? 120 then u_align 0 s (fun s => u_skip 1 s (fun s => UCont s))
  else if c =? 88 then
    if alignOnly r then UFail EExpectedOption else UCont (u_set_rd s (set_ao r))
  else if c =? 32 then
    if alignOnly r then UFail EExpectedOption else UCont s
  else UFail (EBadFormat c).

Inductive uout :=
| UOk (vals : list value) (next : Z)
| UErr (e : perr)
| UPanic
| UOutOfFuel.

Fixpoint unpack_go (fuel : nat) (s : ust) : uout :=
  match fuel with
  | O => UOutOfFuel
  | S f =>
    match u_fmt s with
    | [] => if alignOnly (u_rd s) then UErr EExpectedOption else UOk (u_vals s) (u_j s)
    | c :: rest =>
      if alignOnly (u_rd s) && negb (alignable c) then UErr EExpectedOption else
      match unpack_opt c (u_set_fmt s rest) with
      | UFail e => UErr e
      | UPanicked => UPanic
      | UCont s' => unpack_go f s'
      end
    end
  end.

(* [j] is the 0-based start offset (string.unpack's third argument minus one) *)
Definition unpack (fmt : list Z) (data : list Z) (j : Z) : uout :=
  unpack_go (S (length fmt)) (mkU rd0 fmt j (skipn (Z.to_nat j) data) []).

(* ---------------------------------------------------------------- packsize *)
Record sst := mkS { s_rd : rd; s_fmt : list Z; s_size : Z }.
Inductive sres := SCont (s : sst) | SFail (e : perr).

(* inc (round 6): the result must be a Lua integer, otherwise "format result too large";
   so the size never wraps *)
Definition s_inc (n : Z) (s : sst) : sres :=
  if maxint - s_size s <? n then SFail EResultTooLarge
  else SCont (mkS (s_rd s) (s_fmt s) (s_size s + n)).
Definition s_align (n : Z) (s : sst) (k : sst -> sres) : sres :=
  let r := s_rd s in
  let go (s1 : sst) := if alignOnly r then SCont (mkS (clear_ao r) (s_fmt s1) (s_size s1)) else k s1 in
  if n =? 0 then go s
  else
    let n' := if maxAl r <? n then maxAl r else n in
    if negb (is_pow2 n') then SFail EBadAlignment
    else
      let p := pad_to n' (s_size s) in
      if p =? 0 then go s
      else match s_inc p s with SCont s1 => go s1 | SFail e => SFail e end.

Definition size_opt (c : Z) (s : sst) : sres :=
  let r := s_rd s in
  if (c =? 60) || (c =? 62) || (c =? 61) || (c =? 32) then SCont s
  else if c =? 33 then
    match smallOptSize 1 (s_fmt s) with
    | (inl e, _) => SFail e
    | (inr n, rest) => SCont (mkS (mkRd (little r) n (alignOnly r)) rest (s_size s))
    end
  else if (c =? 98) || (c =? 66) then s_align 0 s (s_inc 1)
  else if (c =? 104) || (c =? 72) then s_align 2 s (s_inc 2)
  else if (c =? 108) || (c =? 106) || (c =? 76) || (c =? 74) || (c =? 84) || (c =? 100) || (c =? 110)
    then s_align 8 s (s_inc 8)
  else if c =? 102 then s_align 4 s (s_inc 4)
  else if (c =? 105) || (c =? 73) then
    match smallOptSize 8 (s_fmt s) with
    | (inl e, _) => SFail e
    | (inr n, rest) => s_align n (mkS r rest (s_size s)) (s_inc n)
    end
  else if c =? 99 then
    s_align 0 s (fun s =>
      match mustGetOptSize (s_fmt s) with
      | (inl e, _) => SFail e
      | (inr n, rest) => s_inc n (mkS (s_rd s) rest (s_size s))
      end)
  else if c =? 120 then s_align 0 s (s_inc 1)
  else if c =? 88 then SCont (mkS (set_ao r) (s_fmt s) (s_size s))
  else if c =? 115 then
    (* round 6: after X, s[n] only lends its alignment *)
    if alignOnly r then
      match smallOptSize 8 (s_fmt s) with
      | (inl e, _) => SFail e
      | (inr n, rest) => s_align n (mkS r rest (s_size s)) (fun _ => SFail EVariableLength)
      end
    else SFail EVariableLength
  else if c =? 122 then SFail EVariableLength
  else SFail (EBadFormat c).

Inductive sout := SOk (size : Z) | SErr (e : perr) | SOutOfFuel.
Fixpoint size_go (fuel : nat) (s : sst) : sout :=
  match fuel with
  | O => SOutOfFuel
  | S f =>
    match s_fmt s with
    | [] => if alignOnly (s_rd s) then SErr EExpectedOption else SOk (s_size s)
    | c :: rest =>
      if alignOnly (s_rd s) && negb (alignable c) then SErr EExpectedOption else
      match size_opt c (mkS (s_rd s) rest (s_size s)) with
      | SFail e => SErr e
      | SCont s' => size_go f s'
      end
    end
  end.
Definition packsize (fmt : list Z) : sout := size_go (S (length fmt)) (mkS rd0 fmt 0).
