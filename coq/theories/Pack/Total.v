(* Pack/Total.v — the reader, packer, unpacker and packsize never run out of fuel and the
   unpacker never reaches a Go panic; malformed formats are errors (proofs). *)
From Coq Require Import ZArith List Bool Lia.
From GV Require Import Pack.NumStrModel Pack.Model Pack.Lockstep.
Import ListNotations.
Open Scope Z_scope.

Lemma getOptSize_go_len fmt : forall n ok r rest, getOptSize_go fmt n ok = (r, rest) -> (length rest <= length fmt)%nat.
Proof.
  induction fmt as [|c f IH]; intros n ok r rest E; cbn [getOptSize_go] in E.
  - injection E as _ <-. auto.
  - destruct (is_digit c).
    + destruct (maxDecuplable <? n); [injection E as _ <-; auto|].
      destruct ((n * 10 + (c - 48)) mod W <? c - 48); [injection E as _ <-; auto|].
      apply IH in E. cbn [length]. lia.
    + injection E as _ <-. auto.
Qed.

Lemma smallOptSize_len d fmt r rest : smallOptSize d fmt = (r, rest) -> (length rest <= length fmt)%nat.
Proof.
  unfold smallOptSize, getOptSize. destruct (getOptSize_go fmt 0 false) as [[[e ok] m] rs] eqn:E.
  apply getOptSize_go_len in E. destruct e; [intros H; injection H as _ <-; exact E|].
  destruct ok; [destruct ((1 <=? m) && (m <=? 16))|destruct (d =? 0)]; intros H; injection H as _ <-; exact E.
Qed.

Lemma mustGetOptSize_len fmt r rest : mustGetOptSize fmt = (r, rest) -> (length rest <= length fmt)%nat.
Proof.
  unfold mustGetOptSize, getOptSize. destruct (getOptSize_go fmt 0 false) as [[[e ok] m] rs] eqn:E.
  apply getOptSize_go_len in E. destruct e; [intros H; injection H as _ <-; exact E|].
  destruct ok; intros H; injection H as _ <-; exact E.
Qed.

Ltac sizes :=
  repeat match goal with
  | H : smallOptSize _ _ = (_, _) |- _ => apply smallOptSize_len in H
  | H : mustGetOptSize _ = (_, _) |- _ => apply mustGetOptSize_len in H
  end.

Ltac crush H :=
  repeat match type of H with
  | context [match ?x with _ => _ end] => destruct x eqn:?; try discriminate H
  end.

Lemma packInt_fmt n v s s' : packInt n v s = PCont s' -> p_fmt s' = p_fmt s.
Proof. unfold packInt, p_bounds. intros E. crush E; injection E as <-; reflexivity. Qed.
Lemma packUint_fmt n v s s' : packUint n v s = PCont s' -> p_fmt s' = p_fmt s.
Proof. unfold packUint, p_bounds. intros E. crush E; injection E as <-; reflexivity. Qed.

Ltac intfmt :=
  repeat match goal with
  | H : packInt _ _ _ = PCont _ |- _ => apply packInt_fmt in H
  | H : packUint _ _ _ = PCont _ |- _ => apply packUint_fmt in H
  end.

Lemma pack_opt_fmt c s s' : pack_opt c s = PCont s' -> (length (p_fmt s') <= length (p_fmt s))%nat.
Proof.
  intros E. destruct (in_dec Z.eq_dec c supported) as [Hin|n]; [|rewrite pack_opt_unsupported in E by exact n; discriminate].
  unfold supported in Hin. cbn [In] in Hin.
  repeat (destruct Hin as [<- | Hin]); try contradiction.
  all: unfold pack_opt in E; cbn [Z.eqb Pos.eqb orb] in E.
  all: unfold p_align, p_next_int, p_next_float, p_next_str, p_next, p_bounds, p_write_str, p_bounds in E.
  all: crush E; injection E as <-; sizes; intfmt; cbn in *; try lia.
  all: repeat match goal with H : p_fmt _ = _ |- _ => rewrite H; clear H end; cbn; try lia.
  repeat match goal with H : (if ?c then _ else _) = inr _ |- _ => destruct c; [discriminate H|] end.
  match goal with H : inr _ = inr _ |- _ => injection H as <- <- end.
  cbn. lia.
Qed.

Lemma pack_go_fuel : forall fuel s, (length (p_fmt s) < fuel)%nat -> pack_go fuel s <> POutOfFuel.
Proof.
  induction fuel as [|f IH]; intros s Hl; [lia|]. cbn [pack_go].
  destruct (p_fmt s) as [|c rest] eqn:EF.
  - destruct (alignOnly (p_rd s)); discriminate.
  - destruct (alignOnly (p_rd s) && negb (alignable c)); [discriminate|].
    destruct (pack_opt c (p_set_fmt s rest)) as [s'|e] eqn:EP; [|discriminate].
    apply IH. apply pack_opt_fmt in EP. cbn [p_set_fmt p_fmt length] in *. lia.
Qed.

Theorem pack_total fmt vs : pack fmt vs <> POutOfFuel.
Proof. unfold pack. apply pack_go_fuel. cbn. lia. Qed.

(* ------------------------------------------------------------ unpacker *)
Lemma unpack_opt_unsupported c s : ~ In c supported -> unpack_opt c s = UFail (EBadFormat c).
Proof.
  intros NI. unfold unpack_opt.
  repeat match goal with
  | |- context [c =? ?k] =>
    rewrite (proj2 (Z.eqb_neq c k)) by (intros ->; apply NI; unfold supported; cbn [In]; tauto)
  end.
  reflexivity.
Qed.

Ltac crushu H :=
  repeat match type of H with
  | context [match ?x with _ => _ end] => destruct x eqn:?; try discriminate H
  end.

Lemma unpack_opt_ok c s : unpack_opt c s <> UPanicked /\
  forall s', unpack_opt c s = UCont s' -> (length (u_fmt s') <= length (u_fmt s))%nat.
Proof.
  destruct (in_dec Z.eq_dec c supported) as [Hin|n];
    [|rewrite unpack_opt_unsupported by exact n; split; [discriminate|intros; discriminate]].
  unfold supported in Hin. cbn [In] in Hin.
  repeat (destruct Hin as [<- | Hin]); try contradiction.
  all: split; [intros E|intros s' E].
  all: unfold unpack_opt in E; cbn [Z.eqb Pos.eqb orb] in E.
  all: unfold u_align, readVarInt, readVarUint, u_read_str, u_read, u_read_short, u_skip0, u_sign_ext, u_skip in E.
  all: crushu E; try discriminate E.
  all: try (injection E as <-; sizes; cbn in *; lia).
  all: cbn [orb] in *; congruence.
Qed.

Lemma unpack_go_total : forall fuel s, (length (u_fmt s) < fuel)%nat ->
  unpack_go fuel s <> UOutOfFuel /\ unpack_go fuel s <> UPanic.
Proof.
  induction fuel as [|f IH]; intros s Hl; [lia|]. cbn [unpack_go].
  destruct (u_fmt s) as [|c rest] eqn:EF.
  - destruct (alignOnly (u_rd s)); split; discriminate.
  - destruct (alignOnly (u_rd s) && negb (alignable c)); [split; discriminate|].
    destruct (unpack_opt_ok c (u_set_fmt s rest)) as [NP FL].
    destruct (unpack_opt c (u_set_fmt s rest)) as [s'|e|] eqn:EP; [|split; discriminate|congruence].
    apply IH. specialize (FL s' eq_refl). cbn [u_set_fmt u_fmt length] in *. lia.
Qed.

(* string.unpack never panics the Go runtime and always terminates: every format, every data
   string, every start offset *)
Theorem unpack_no_panic fmt data j : unpack fmt data j <> UPanic /\ unpack fmt data j <> UOutOfFuel.
Proof. unfold unpack. destruct (unpack_go_total (S (length fmt)) (mkU rd0 fmt j (skipn (Z.to_nat j) data) [])); [cbn; lia|auto]. Qed.

(* ------------------------------------------------------------ packsize *)
Lemma s_inc_fmt n s s' : s_inc n s = SCont s' -> s_fmt s' = s_fmt s.
Proof. unfold s_inc. intros E. crush E. injection E as <-. reflexivity. Qed.

Lemma s_align_fmt n s k s' : s_align n s k = SCont s' ->
  s_fmt s' = s_fmt s \/ exists s1, s_fmt s1 = s_fmt s /\ k s1 = SCont s'.
Proof.
  unfold s_align. intros E.
  destruct (n =? 0).
  - destruct (alignOnly (s_rd s)); [injection E as <-; left; reflexivity|right; eauto].
  - destruct (negb _); [discriminate|].
    destruct (_ =? 0).
    + destruct (alignOnly (s_rd s)); [injection E as <-; left; reflexivity|right; eauto].
    + destruct (s_inc _ s) as [s1|] eqn:EI; [|discriminate]. apply s_inc_fmt in EI.
      destruct (alignOnly (s_rd s)); [injection E as <-; left; exact EI|right; eauto].
Qed.

Lemma size_opt_fmt c s s' : size_opt c s = SCont s' -> (length (s_fmt s') <= length (s_fmt s))%nat.
Proof.
  intros E. unfold size_opt in E.
  crush E; try (injection E as <-); sizes; cbn in *; try lia.
  all: try (apply s_align_fmt in E; destruct E as [E|(s1 & F & E)]; cbn in *; [rewrite E; lia|]).
  all: crush E; try discriminate; try (injection E as <-); try (apply s_inc_fmt in E); sizes; cbn in *;
       try rewrite E; try rewrite F in *; try lia.
  all: match goal with H : s_inc _ _ = SCont _ |- _ => apply s_inc_fmt in H; rewrite H; cbn; lia end.
Qed.

Lemma size_go_fuel : forall fuel s, (length (s_fmt s) < fuel)%nat -> size_go fuel s <> SOutOfFuel.
Proof.
  induction fuel as [|f IH]; intros s Hl; [lia|]. cbn [size_go].
  destruct (s_fmt s) as [|c rest] eqn:EF.
  - destruct (alignOnly (s_rd s)); discriminate.
  - destruct (alignOnly (s_rd s) && negb (alignable c)); [discriminate|].
    destruct (size_opt c (mkS (s_rd s) rest (s_size s))) as [s'|e] eqn:EP; [|discriminate].
    apply IH. apply size_opt_fmt in EP. cbn [s_fmt length] in *. lia.
Qed.

Theorem packsize_total fmt : packsize fmt <> SOutOfFuel.
Proof. unfold packsize. apply size_go_fuel. cbn. lia. Qed.

(* ------------------------------------------------------------ malformed formats *)
Lemma getOptSize_go_keeps fmt : forall n ok r rest x, getOptSize_go fmt n ok = (r, rest) ->
  is_digit x = false -> In x fmt -> In x rest.
Proof.
  induction fmt as [|c f IH]; intros n ok r rest x E Hx Hin; cbn [getOptSize_go] in E.
  - destruct Hin.
  - destruct (is_digit c) eqn:Dc.
    + destruct (maxDecuplable <? n); [injection E as _ <-; auto|].
      destruct ((n * 10 + (c - 48)) mod W <? c - 48); [injection E as _ <-; auto|].
      destruct Hin as [->|Hin]; [congruence|]. eapply IH; eauto.
    + injection E as _ <-. auto.
Qed.

Lemma smallOptSize_keeps d fmt r rest x : smallOptSize d fmt = (r, rest) -> is_digit x = false -> In x fmt -> In x rest.
Proof.
  unfold smallOptSize, getOptSize. destruct (getOptSize_go fmt 0 false) as [[[e ok] m] rs] eqn:E.
  intros H Hx Hin. pose proof (getOptSize_go_keeps _ _ _ _ _ x E Hx Hin) as K.
  destruct e; [injection H as _ <-; exact K|].
  destruct ok; [destruct ((1 <=? m) && (m <=? 16))|destruct (d =? 0)]; injection H as _ <-; exact K.
Qed.

Lemma mustGetOptSize_keeps fmt r rest x : mustGetOptSize fmt = (r, rest) -> is_digit x = false -> In x fmt -> In x rest.
Proof.
  unfold mustGetOptSize, getOptSize. destruct (getOptSize_go fmt 0 false) as [[[e ok] m] rs] eqn:E.
  intros H Hx Hin. pose proof (getOptSize_go_keeps _ _ _ _ _ x E Hx Hin) as K.
  destruct e; [injection H as _ <-; exact K|].
  destruct ok; injection H as _ <-; exact K.
Qed.

Lemma pack_opt_keeps c s s' x : pack_opt c s = PCont s' -> is_digit x = false -> In x (p_fmt s) -> In x (p_fmt s').
Proof.
  intros E Hx Hin. destruct (in_dec Z.eq_dec c supported) as [Hs|n]; [|rewrite pack_opt_unsupported in E by exact n; discriminate].
  unfold supported in Hs. cbn [In] in Hs.
  repeat (destruct Hs as [<- | Hs]); try contradiction.
  all: unfold pack_opt in E; cbn [Z.eqb Pos.eqb orb] in E.
  all: unfold p_align, p_next_int, p_next_float, p_next_str, p_next, p_bounds, p_write_str, p_bounds in E.
  all: crush E; try (injection E as <-); intfmt; cbn in *;
       repeat match goal with H : p_fmt _ = _ |- _ => rewrite H; clear H end; cbn; try assumption.
  all: try (eapply smallOptSize_keeps; eauto; fail).
  all: try (eapply mustGetOptSize_keeps; eauto; fail).
  all: try discriminate.
  all: repeat match goal with H : (if ?c then _ else _) = inr _ |- _ => destruct c; [discriminate H|] end.
  all: match goal with H : inr _ = inr _ |- _ => injection H as <- <- end.
  all: cbn; eapply mustGetOptSize_keeps; eauto.
Qed.

Lemma pack_go_malformed x : ~ In x supported -> is_digit x = false ->
  forall fuel s, In x (p_fmt s) -> (length (p_fmt s) < fuel)%nat -> exists e, pack_go fuel s = PErr e.
Proof.
  intros NS Hx. induction fuel as [|f IH]; intros s Hin Hl; [lia|]. cbn [pack_go].
  destruct (p_fmt s) as [|c rest] eqn:EF; [destruct Hin|].
  destruct (alignOnly (p_rd s) && negb (alignable c)); [eauto|].
  destruct (pack_opt c (p_set_fmt s rest)) as [s'|e] eqn:EP; [|eauto].
  destruct (Z.eq_dec x c) as [->|NE].
  - rewrite pack_opt_unsupported in EP by exact NS. discriminate.
  - destruct Hin as [->|Hin]; [congruence|].
    apply IH.
    + eapply pack_opt_keeps; eauto.
    + apply pack_opt_fmt in EP. cbn [p_set_fmt p_fmt length] in *. lia.
Qed.

(* a format containing a character that is neither an option nor a digit is always an error *)
Theorem malformed_format_is_error fmt vs x :
  In x fmt -> ~ In x supported -> is_digit x = false -> exists e, pack fmt vs = PErr e.
Proof.
  intros Hin NS Hx. unfold pack. apply (pack_go_malformed x NS Hx); [exact Hin|cbn; lia].
Qed.
