(* Pack/NumStrModel.v — integer <-> text, executable definitions only.
   Mirrors strconv.FormatInt / FormatUint (used by Value.ToString, quote(),
   and fmt's %d %x %X %o for integers) and the decimal-integer path of
   runtime.StringToNumber (strconv.ParseInt(s, 10, 64)).  Digits are bytes
   (Z in 0..255).  No proofs here. *)
From Coq Require Import ZArith List Bool.
Import ListNotations.
Open Scope Z_scope.

(* digit value -> character, lower or upper case for values >= 10 *)
Definition digit_char (upper : bool) (d : Z) : Z :=
  if d <? 10 then 48 + d else (if upper then 55 else 87) + d.

(* digits of n >= 0 in base b >= 2, most significant first (at least one digit) *)
Fixpoint digits_go (fuel : nat) (upper : bool) (b n : Z) (acc : list Z) : list Z :=
  let acc' := digit_char upper (n mod b) :: acc in
  match fuel with
  | O => acc'
  | S f => if n / b =? 0 then acc' else digits_go f upper b (n / b) acc'
  end.
Definition digits (upper : bool) (b n : Z) : list Z :=
  digits_go (Z.to_nat (Z.log2 n)) upper b n [].

(* character -> digit value (as in base/tonumber.go and strconv) *)
Definition char_digit (c : Z) : option Z :=
  if (48 <=? c) && (c <=? 57) then Some (c - 48)
  else if (97 <=? c) && (c <=? 122) then Some (c - 87)
  else if (65 <=? c) && (c <=? 90) then Some (c - 55)
  else None.

Fixpoint parse_digits (b : Z) (cs : list Z) (acc : Z) : option Z :=
  match cs with
  | [] => Some acc
  | c :: r => match char_digit c with
              | Some d => if d <? b then parse_digits b r (acc * b + d) else None
              | None => None
              end
  end.

(* strconv.FormatInt(n, 10): Value.ToString of an integer, quote() of an integer, %d *)
Definition format_int (n : Z) : list Z :=
  if n <? 0 then 45 :: digits false 10 (- n) else digits false 10 n.

(* strconv.ParseInt(s, 10, 64) restricted to what it accepts: optional sign,
   at least one decimal digit, value within int64; None = not an int64 numeral
   (golua then tries a float or answers nil). *)
Definition minint : Z := -9223372036854775808.
Definition maxint : Z := 9223372036854775807.
Definition parse_int (s : list Z) : option Z :=
  let '(neg, ds) := match s with
                    | 45 :: r => (true, r)
                    | 43 :: r => (false, r)
                    | _ => (false, s)
                    end in
  match ds with
  | [] => None
  | _ => match parse_digits 10 ds 0 with
         | Some v => let v' := if neg then - v else v in
                     if (minint <=? v') && (v' <=? maxint) then Some v' else None
         | None => None
         end
  end.

(* %x %X %o %u of string.format: the argument is converted to uint64 for x, X, u
   (format.go) but stays int64 for o and d; fmt then prints sign + magnitude. *)
Definition W64 : Z := 18446744073709551616.
Definition fmt_unsigned (upper : bool) (b n : Z) : list Z := digits upper b (n mod W64).
Definition fmt_signed (b n : Z) : list Z :=
  if n <? 0 then 45 :: digits false b (- n) else digits false b n.
(* C printf reference for %o %x %X %u: two's complement, no sign *)
Definition c_unsigned (upper : bool) (b n : Z) : list Z := digits upper b (n mod W64).

(* format.go quote() of an integer: decimal, except mininteger, written in hexadecimal
   because the decimal literal 9223372036854775808 does not fit an integer (manual 3.1). *)
Definition minint_hex : list Z := [48; 120; 56; 48; 48; 48; 48; 48; 48; 48; 48; 48; 48; 48; 48; 48; 48; 48].
Definition quote_int (n : Z) : list Z := if n =? minint then minint_hex else format_int n.

(* The Lua reader on such a literal (manual 3.1): a decimal integer numeral denotes an integer
   if it fits, otherwise a float (None here); a hexadecimal one wraps around modulo 2^64;
   a leading '-' is the unary minus applied to the numeral that follows. *)
Definition is_hex_prefix (s : list Z) : bool :=
  match s with
  | a :: b :: _ :: _ => (a =? 48) && ((b =? 120) || (b =? 88))
  | _ => false
  end.
Definition lit_nat (s : list Z) : option Z :=
  if is_hex_prefix s then
    match parse_digits 16 (skipn 2 s) 0 with
    | Some v => let m := v mod W64 in Some (if m <=? maxint then m else m - W64)
    | None => None
    end
  else
    match s with
    | [] => None
    | _ => match parse_digits 10 s 0 with
           | Some v => if v <=? maxint then Some v else None
           | None => None
           end
    end.
Definition is_minus (s : list Z) : bool := match s with c :: _ => c =? 45 | [] => false end.
Definition lit_int (s : list Z) : option Z :=
  if is_minus s then
    match lit_nat (skipn 1 s) with
    | Some v => Some (if v =? minint then minint else - v)   (* two's complement negation *)
    | None => None
    end
  else lit_nat s.
