(* Pack/Bytes.v — lemmas on little/big-endian byte encodings (proofs). *)
From Coq Require Import ZArith List Bool Lia.
From GV Require Import Pack.Model.
Import ListNotations.
Open Scope Z_scope.

Definition bytes_ok (bs : list Z) : Prop := Forall (fun b => 0 <= b < 256) bs.

Lemma le_bytes_length k v : length (le_bytes k v) = k.
Proof. revert v; induction k; intros; cbn [le_bytes length]; auto. Qed.

Lemma le_bytes_ok k v : bytes_ok (le_bytes k v).
Proof.
  revert v; induction k; intros; cbn [le_bytes]; constructor.
  - apply Z.mod_pos_bound; lia.
  - apply IHk.
Qed.

Lemma pow256_S k : 256 ^ Z.of_nat (S k) = 256 * 256 ^ Z.of_nat k.
Proof. rewrite Nat2Z.inj_succ, Z.pow_succ_r by lia. reflexivity. Qed.

Lemma le_val_le_bytes k v : le_val (le_bytes k v) = v mod 256 ^ Z.of_nat k.
Proof.
  revert v; induction k; intros.
  - cbn. now rewrite Z.mod_1_r.
  - cbn [le_bytes le_val]. rewrite IHk, pow256_S.
    rewrite Z.rem_mul_r by lia. lia.
Qed.

Lemma le_val_range bs : bytes_ok bs -> 0 <= le_val bs < 256 ^ Z.of_nat (length bs).
Proof.
  induction 1.
  - cbn. lia.
  - cbn [le_val length]. rewrite pow256_S. lia.
Qed.

Lemma le_bytes_le_val bs : bytes_ok bs -> le_bytes (length bs) (le_val bs) = bs.
Proof.
  induction 1.
  - reflexivity.
  - cbn [length le_bytes le_val]. f_equal.
    + replace (x + 256 * le_val l) with (x + le_val l * 256) by lia.
      rewrite Z.mod_add by lia. apply Z.mod_small; lia.
    + replace (x + 256 * le_val l) with (x + le_val l * 256) by lia.
      rewrite Z.div_add by lia. rewrite Z.div_small by lia. cbn. apply IHForall.
Qed.

Lemma le_val_app a b : le_val (a ++ b) = le_val a + 256 ^ Z.of_nat (length a) * le_val b.
Proof.
  induction a.
  - cbn [app le_val length]. change (Z.of_nat 0) with 0. rewrite Z.pow_0_r. lia.
  - cbn [app le_val length]. rewrite IHa, pow256_S. lia.
Qed.

Lemma le_bytes_app n m v : le_bytes (n + m) v = le_bytes n v ++ le_bytes m (v / 256 ^ Z.of_nat n).
Proof.
  revert v; induction n; intros.
  - cbn. now rewrite Z.div_1_r.
  - cbn [Nat.add le_bytes app]. f_equal. rewrite IHn. f_equal. f_equal.
    rewrite pow256_S, Z.div_div by lia. reflexivity.
Qed.

Lemma le_val_repeat0 n : le_val (repeat 0 n) = 0.
Proof. induction n; cbn [repeat le_val]; lia. Qed.

Lemma le_val_repeat255 n : le_val (repeat 255 n) = 256 ^ Z.of_nat n - 1.
Proof. induction n. reflexivity. cbn [repeat le_val]. rewrite IHn, pow256_S. lia. Qed.

Lemma dec_enc lt k v : dec lt (enc lt k v) = v mod 256 ^ Z.of_nat k.
Proof.
  unfold dec, enc. destruct lt.
  - apply le_val_le_bytes.
  - rewrite rev_involutive. apply le_val_le_bytes.
Qed.

Lemma enc_length lt k v : length (enc lt k v) = k.
Proof. unfold enc. destruct lt; [|rewrite rev_length]; apply le_bytes_length. Qed.

Lemma pow8 k : 2 ^ (8 * Z.of_nat k) = 256 ^ Z.of_nat k.
Proof. rewrite Z.pow_mul_r by lia. reflexivity. Qed.

(* signed reinterpretation undoes reduction modulo 256^k on the signed range *)
Lemma sgn_mod k v : (0 < k)%nat ->
  - 2 ^ (8 * Z.of_nat k - 1) <= v < 2 ^ (8 * Z.of_nat k - 1) ->
  sgn k (v mod 256 ^ Z.of_nat k) = v.
Proof.
  intros Hk Hv. unfold sgn. rewrite pow8.
  assert (E : 256 ^ Z.of_nat k = 2 * 2 ^ (8 * Z.of_nat k - 1)).
  { rewrite <- pow8. rewrite <- Z.pow_succ_r by lia. f_equal. lia. }
  set (h := 2 ^ (8 * Z.of_nat k - 1)) in *.
  assert (0 < h) by (apply Z.pow_pos_nonneg; lia).
  destruct (Z.ltb_spec (v mod 256 ^ Z.of_nat k) h) as [L|L].
  - destruct (Z_lt_le_dec v 0).
    + rewrite <- (Z.mod_add v 1) in L by lia.
      rewrite Z.mod_small in L by lia. lia.
    + apply Z.mod_small. lia.
  - destruct (Z_lt_le_dec v 0).
    + rewrite <- (Z.mod_add v 1) by lia. rewrite Z.mod_small by lia. lia.
    + rewrite Z.mod_small in L by lia. lia.
Qed.

Lemma to_i64_small v : - H <= v < H -> to_i64 v = v.
Proof.
  intros Hv. unfold to_i64, W, H in *.
  destruct (Z_lt_le_dec v 0).
  - assert (E : v mod 18446744073709551616 = v + 18446744073709551616).
    { rewrite <- (Z.mod_add v 1) by lia. apply Z.mod_small. lia. }
    rewrite E. destruct (Z.ltb_spec (v + 18446744073709551616) 9223372036854775808); lia.
  - rewrite Z.mod_small by lia.
    destruct (Z.ltb_spec v 9223372036854775808); lia.
Qed.
