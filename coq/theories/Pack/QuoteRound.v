(* Pack/QuoteRound.v — load(%q s) = s for ALL byte strings, on the repaired quoting (proofs).
   unicode.IsPrint is a Section variable; the only facts used about it are that it rejects
   line feed and carriage return. *)
From Coq Require Import ZArith List Bool Lia.
From GV Require Import Pack.NumStrModel Pack.NumStrProofs Pack.QuoteModel.
Import ListNotations.
Open Scope Z_scope.

Definition bytes_ok (bs : list Z) : Prop := Forall (fun b => 0 <= b < 256) bs.

Lemma hexval_hexdigit d : 0 <= d < 16 -> hexval (hexdigit d) = Some d.
Proof.
  intros Hd. unfold hexdigit, hexval. destruct (Z.ltb_spec d 10).
  - destruct (Z.leb_spec 48 (48 + d)), (Z.leb_spec (48 + d) 57); try lia. cbn [andb]. f_equal; lia.
  - destruct (Z.leb_spec 48 (87 + d)), (Z.leb_spec (87 + d) 57); try lia; cbn [andb];
    destruct (Z.leb_spec 97 (87 + d)), (Z.leb_spec (87 + d) 102); try lia; cbn [andb]; f_equal; lia.
Qed.

Lemma digit_char_hexdigit d : digit_char false d = hexdigit d.
Proof. reflexivity. Qed.

(* [Estep k esc bs]: reading the k-step escape/raw sequence [esc] appends [bs] *)
Definition Estep (k : nat) (esc bs : list Z) : Prop :=
  forall rest acc f, unescape_go (k + f) (esc ++ rest) acc = unescape_go f rest (acc ++ bs).

Lemma step_raw1 b : b <> 34 -> b <> 10 -> b <> 13 -> b <> 92 -> Estep 1 [b] [b].
Proof.
  intros N1 N2 N3 N4 rest acc f. cbn [Nat.add app unescape_go].
  destruct (Z.eqb_spec b 34); [lia|]. destruct (Z.eqb_spec b 10); [lia|]. destruct (Z.eqb_spec b 13); [lia|].
  destruct (Z.eqb_spec b 92); [lia|]. reflexivity.
Qed.

Lemma step_rawn bs : Forall (fun b => 128 <= b) bs -> Estep (length bs) bs bs.
Proof.
  induction 1 as [|b r Hb Hr IH]; intros rest acc f.
  - cbn. now rewrite app_nil_r.
  - pose proof (step_raw1 b ltac:(lia) ltac:(lia) ltac:(lia) ltac:(lia) (r ++ rest) acc (length r + f)%nat) as S1.
    cbn [length app Nat.add] in *. rewrite S1, IH. now rewrite <- app_assoc.
Qed.

Lemma step_esc (tail bs : list Z) :
  (forall rest, unescape1 (tail ++ rest) = Some (bs, rest)) -> Estep 1 (92 :: tail) bs.
Proof.
  intros HU rest acc f. cbn [Nat.add app unescape_go Z.eqb Pos.eqb orb]. rewrite HU. reflexivity.
Qed.

Lemma step_x b : 0 <= b < 256 -> Estep 1 [92; 120; hexdigit (b / 16); hexdigit (b mod 16)] [b].
Proof.
  intros Hb. apply (step_esc [120; hexdigit (b / 16); hexdigit (b mod 16)]). intros rest.
  cbn [app unescape1 Z.eqb Pos.eqb orb].
  rewrite (hexval_hexdigit (b / 16)) by (split; [apply Z.div_pos; lia|apply Z.div_lt_upper_bound; lia]).
  rewrite (hexval_hexdigit (b mod 16)) by (apply Z.mod_pos_bound; lia).
  pose proof (Z.div_mod b 16 ltac:(lia)). do 3 f_equal. lia.
Qed.

Lemma step_simple c code : In (c, code) [(97, 7); (98, 8); (102, 12); (110, 10); (114, 13); (116, 9); (118, 11); (92, 92); (34, 34)] ->
  Estep 1 [92; c] [code].
Proof.
  intros Hin. apply (step_esc [c]). intros rest. cbn [In] in Hin.
  repeat (destruct Hin as [E|Hin]; [injection E as <- <-; reflexivity|]). destruct Hin.
Qed.

(* \u{XXX} *)
Lemma read_hex_step d tail a sn : 0 <= d < 16 -> a * 16 + d < 2147483648 ->
  read_hex_braced (hexdigit d :: tail) a sn = read_hex_braced tail (a * 16 + d) true.
Proof.
  intros Hd Ha. cbn [read_hex_braced].
  assert (hexdigit d <> 125) by (unfold hexdigit; destruct (d <? 10); lia).
  destruct (Z.eqb_spec (hexdigit d) 125); [lia|]. rewrite hexval_hexdigit by lia.
  destruct (Z.leb_spec 2147483648 (a * 16 + d)); [lia|reflexivity].
Qed.

Lemma read_hex_digits_go : forall fuel n tail sn, 0 <= n < 16 ^ Z.of_nat (S fuel) -> n < 2147483648 ->
  read_hex_braced (digits_go fuel false 16 n tail) 0 sn = read_hex_braced tail n true.
Proof.
  induction fuel as [|f IH]; intros n tail sn Hn Hb.
  - cbn [digits_go]. change (Z.of_nat 1) with 1 in Hn. rewrite Z.pow_1_r in Hn.
    rewrite Z.mod_small by lia. rewrite digit_char_hexdigit, read_hex_step by lia. f_equal.
  - cbn [digits_go]. pose proof (Z.mod_pos_bound n 16 ltac:(lia)). rewrite digit_char_hexdigit.
    assert (DM : n = 16 * (n / 16) + n mod 16) by (apply Z.div_mod; lia).
    destruct (Z.eqb_spec (n / 16) 0) as [E|NE].
    + rewrite read_hex_step by lia. f_equal. lia.
    + assert (0 <= n / 16) by (apply Z.div_pos; lia).
      rewrite IH.
      * rewrite read_hex_step by lia. f_equal. lia.
      * split; [lia|]. apply Z.div_lt_upper_bound; [lia|].
        rewrite Nat2Z.inj_succ, Z.pow_succ_r in Hn by lia. lia.
      * lia.
Qed.

Lemma digits_go_acc : forall fuel up b n acc, digits_go fuel up b n acc = digits_go fuel up b n [] ++ acc.
Proof.
  induction fuel as [|f IH]; intros up b n acc; cbn [digits_go]; [reflexivity|].
  destruct (n / b =? 0); [reflexivity|].
  rewrite IH, (IH up b (n / b) [digit_char up (n mod b)]), <- app_assoc. reflexivity.
Qed.

Lemma step_u rn piece : 0 <= rn < 2147483648 -> utf8_ext rn = piece ->
  Estep 1 (92 :: 117 :: 123 :: digits false 16 rn ++ [125]) piece.
Proof.
  intros Hr Hp. apply (step_esc (117 :: 123 :: digits false 16 rn ++ [125])). intros rest.
  cbn [app unescape1 Z.eqb Pos.eqb orb]. rewrite <- app_assoc. cbn [app].
  unfold digits. rewrite <- digits_go_acc. rewrite read_hex_digits_go by (try lia; split; [lia|apply fuel_enough; lia]).
  cbn [read_hex_braced Z.eqb Pos.eqb]. rewrite Hp. reflexivity.
Qed.
