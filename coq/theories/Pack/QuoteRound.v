(* Pack/QuoteRound.v — load(%q s) = s for ALL byte strings, on the repaired quoting (proofs).
   unicode.IsPrint is a Section variable; the only facts used about it are that it rejects
   line feed and carriage return. *)
From Coq Require Import ZArith List Bool Lia.
From GV Require Import Pack.NumStrModel Pack.NumStrProofs Pack.QuoteModel.
Import ListNotations.
Open Scope Z_scope.

Definition bytes_ok (bs : list Z) : Prop := Forall (fun b => 0 <= b < 256) bs.

Lemma hexval_hexdigit d : 0 <= d < 16 -> hexval (hexdigit d) = Some d.
Proof.
  intros Hd. unfold hexdigit, hexval. destruct (Z.ltb_spec d 10).
  - destruct (Z.leb_spec 48 (48 + d)), (Z.leb_spec (48 + d) 57); try lia. cbn [andb]. f_equal; lia.
  - destruct (Z.leb_spec 48 (87 + d)), (Z.leb_spec (87 + d) 57); try lia; cbn [andb];
    destruct (Z.leb_spec 97 (87 + d)), (Z.leb_spec (87 + d) 102); try lia; cbn [andb]; f_equal; lia.
Qed.

Lemma digit_char_hexdigit d : digit_char false d = hexdigit d.
Proof. reflexivity. Qed.

(* [Estep k esc bs]: reading the k-step escape/raw sequence [esc] appends [bs] *)
Definition Estep (k : nat) (esc bs : list Z) : Prop :=
  forall rest acc f, unescape_go (k + f) (esc ++ rest) acc = unescape_go f rest (acc ++ bs).

Lemma step_raw1 b : b <> 34 -> b <> 10 -> b <> 13 -> b <> 92 -> Estep 1 [b] [b].
Proof.
  intros N1 N2 N3 N4 rest acc f. cbn [Nat.add app unescape_go].
  destruct (Z.eqb_spec b 34); [lia|]. destruct (Z.eqb_spec b 10); [lia|]. destruct (Z.eqb_spec b 13); [lia|].
  destruct (Z.eqb_spec b 92); [lia|]. reflexivity.
Qed.

Lemma step_rawn bs : Forall (fun b => 128 <= b) bs -> Estep (length bs) bs bs.
Proof.
  induction 1 as [|b r Hb Hr IH]; intros rest acc f.
  - cbn. now rewrite app_nil_r.
  - pose proof (step_raw1 b ltac:(lia) ltac:(lia) ltac:(lia) ltac:(lia) (r ++ rest) acc (length r + f)%nat) as S1.
    cbn [length app Nat.add] in *. rewrite S1, IH. now rewrite <- app_assoc.
Qed.

Lemma step_esc (tail bs : list Z) :
  (forall rest, unescape1 (tail ++ rest) = Some (bs, rest)) -> Estep 1 (92 :: tail) bs.
Proof.
  intros HU rest acc f. cbn [Nat.add app unescape_go Z.eqb Pos.eqb orb]. rewrite HU. reflexivity.
Qed.

Lemma step_x b : 0 <= b < 256 -> Estep 1 [92; 120; hexdigit (b / 16); hexdigit (b mod 16)] [b].
Proof.
  intros Hb. apply (step_esc [120; hexdigit (b / 16); hexdigit (b mod 16)]). intros rest.
  cbn [app unescape1 Z.eqb Pos.eqb orb].
  rewrite (hexval_hexdigit (b / 16)) by (split; [apply Z.div_pos; lia|apply Z.div_lt_upper_bound; lia]).
  rewrite (hexval_hexdigit (b mod 16)) by (apply Z.mod_pos_bound; lia).
  pose proof (Z.div_mod b 16 ltac:(lia)). do 3 f_equal. lia.
Qed.

Lemma step_simple c code : In (c, code) [(97, 7); (98, 8); (102, 12); (110, 10); (114, 13); (116, 9); (118, 11); (92, 92); (34, 34)] ->
  Estep 1 [92; c] [code].
Proof.
  intros Hin. apply (step_esc [c]). intros rest. cbn [In] in Hin.
  repeat (destruct Hin as [E|Hin]; [injection E as <- <-; reflexivity|]). destruct Hin.
Qed.

(* \u{XXX} *)
Lemma read_hex_step d tail a sn : 0 <= d < 16 -> a * 16 + d < 2147483648 ->
  read_hex_braced (hexdigit d :: tail) a sn = read_hex_braced tail (a * 16 + d) true.
Proof.
  intros Hd Ha. cbn [read_hex_braced].
  assert (hexdigit d <> 125) by (unfold hexdigit; destruct (d <? 10); lia).
  destruct (Z.eqb_spec (hexdigit d) 125); [lia|]. rewrite hexval_hexdigit by lia.
  destruct (Z.leb_spec 2147483648 (a * 16 + d)); [lia|reflexivity].
Qed.

Lemma read_hex_digits_go : forall fuel n tail sn, 0 <= n < 16 ^ Z.of_nat (S fuel) -> n < 2147483648 ->
  read_hex_braced (digits_go fuel false 16 n tail) 0 sn = read_hex_braced tail n true.
Proof.
  induction fuel as [|f IH]; intros n tail sn Hn Hb.
  - cbn [digits_go]. change (Z.of_nat 1) with 1 in Hn. rewrite Z.pow_1_r in Hn.
    rewrite Z.mod_small by lia. rewrite digit_char_hexdigit, read_hex_step by lia. f_equal.
  - cbn [digits_go]. pose proof (Z.mod_pos_bound n 16 ltac:(lia)). rewrite digit_char_hexdigit.
    assert (DM : n = 16 * (n / 16) + n mod 16) by (apply Z.div_mod; lia).
    destruct (Z.eqb_spec (n / 16) 0) as [E|NE].
    + rewrite read_hex_step by lia. f_equal. lia.
    + assert (0 <= n / 16) by (apply Z.div_pos; lia).
      rewrite IH.
      * rewrite read_hex_step by lia. f_equal. lia.
      * split; [lia|]. apply Z.div_lt_upper_bound; [lia|].
        rewrite Nat2Z.inj_succ, Z.pow_succ_r in Hn by lia. lia.
      * lia.
Qed.

Lemma digits_go_acc : forall fuel up b n acc, digits_go fuel up b n acc = digits_go fuel up b n [] ++ acc.
Proof.
  induction fuel as [|f IH]; intros up b n acc; cbn [digits_go]; [reflexivity|].
  destruct (n / b =? 0); [reflexivity|].
  rewrite IH, (IH up b (n / b) [digit_char up (n mod b)]), <- app_assoc. reflexivity.
Qed.

Lemma step_u rn piece : 0 <= rn < 2147483648 -> utf8_ext rn = piece ->
  Estep 1 (92 :: 117 :: 123 :: digits false 16 rn ++ [125]) piece.
Proof.
  intros Hr Hp. apply (step_esc (117 :: 123 :: digits false 16 rn ++ [125])). intros rest.
  cbn [app unescape1 Z.eqb Pos.eqb orb]. rewrite <- app_assoc. cbn [app].
  unfold digits. rewrite <- digits_go_acc. rewrite read_hex_digits_go; [ | split; [lia|apply fuel_enough; lia] | lia ].
  cbn [read_hex_braced Z.eqb Pos.eqb]. rewrite Hp. reflexivity.
Qed.

Section Round.
Variable is_print : Z -> bool.
Hypothesis print_lf : is_print 10 = false.
Hypothesis print_cr : is_print 13 = false.

Definition good (esc piece : list Z) : Prop := exists k, (1 <= k <= length esc)%nat /\ Estep k esc piece.

Lemma esc_ascii rn : 0 <= rn < 128 -> good (escape_rune is_print rn [rn]) [rn].
Proof.
  intros Hr. unfold escape_rune.
  destruct (Z.eqb_spec rn 34) as [->|N34]; [exists 1%nat; split; [cbn; lia|apply step_simple; cbn; tauto]|].
  destruct (Z.eqb_spec rn 92) as [->|N92]; [exists 1%nat; split; [cbn; lia|apply step_simple; cbn; tauto]|].
  cbn [orb]. destruct (is_print rn) eqn:IP.
  { exists 1%nat. split; [cbn; lia|]. apply step_raw1; try assumption; intros ->; congruence. }
  destruct (Z.eqb_spec rn 7) as [->|]; [exists 1%nat; split; [cbn; lia|apply step_simple; cbn; tauto]|].
  destruct (Z.eqb_spec rn 8) as [->|]; [exists 1%nat; split; [cbn; lia|apply step_simple; cbn; tauto]|].
  destruct (Z.eqb_spec rn 12) as [->|]; [exists 1%nat; split; [cbn; lia|apply step_simple; cbn; tauto]|].
  destruct (Z.eqb_spec rn 10) as [->|]; [exists 1%nat; split; [cbn; lia|apply step_simple; cbn; tauto]|].
  destruct (Z.eqb_spec rn 13) as [->|]; [exists 1%nat; split; [cbn; lia|apply step_simple; cbn; tauto]|].
  destruct (Z.eqb_spec rn 9) as [->|]; [exists 1%nat; split; [cbn; lia|apply step_simple; cbn; tauto]|].
  destruct (Z.eqb_spec rn 11) as [->|]; [exists 1%nat; split; [cbn; lia|apply step_simple; cbn; tauto]|].
  destruct ((rn <? 32) || (rn =? 127)).
  { exists 1%nat. split; [cbn; lia|]. apply step_x. lia. }
  exists 1%nat. split; [cbn; lia|]. apply step_u; [lia|].
  unfold utf8_ext. destruct (Z.ltb_spec rn 128); [reflexivity|lia].
Qed.

Lemma esc_multi rn raw : 128 <= rn < 2147483648 -> Forall (fun b => 128 <= b) raw -> raw <> [] -> utf8_ext rn = raw ->
  good (escape_rune is_print rn raw) raw.
Proof.
  intros Hr Hraw Hne Hu. unfold escape_rune.
  destruct (Z.eqb_spec rn 34); [lia|]. destruct (Z.eqb_spec rn 92); [lia|]. cbn [orb].
  destruct (is_print rn).
  { exists (length raw). split; [destruct raw; [congruence|cbn; lia]|apply step_rawn; exact Hraw]. }
  destruct (Z.eqb_spec rn 7); [lia|]. destruct (Z.eqb_spec rn 8); [lia|]. destruct (Z.eqb_spec rn 12); [lia|].
  destruct (Z.eqb_spec rn 10); [lia|]. destruct (Z.eqb_spec rn 13); [lia|]. destruct (Z.eqb_spec rn 9); [lia|].
  destruct (Z.eqb_spec rn 11); [lia|].
  destruct (Z.ltb_spec rn 32); [lia|]. destruct (Z.eqb_spec rn 127); [lia|]. cbn [orb].
  exists 1%nat. split; [cbn; lia|]. apply step_u; [lia|exact Hu].
Qed.

Ltac Zify.zify_post_hook ::= Z.div_mod_to_equations.

(* one step of quote_go: the first rune's bytes [piece] are replaced by [esc], which reads back as [piece] *)
Lemma quote_step b0 r f : bytes_ok (b0 :: r) ->
  exists esc piece rest', b0 :: r = piece ++ rest' /\ (0 < length piece)%nat /\
    quote_go is_print (S f) (b0 :: r) = esc ++ quote_go is_print f rest' /\ good esc piece.
Proof.
  intros Hok. inversion Hok as [|? ? Hb0 Hr]; subst.
  assert (INV : 128 <= b0 -> decode_rune (b0 :: r) = (65533, 1%nat) ->
          exists esc piece rest', b0 :: r = piece ++ rest' /\ (0 < length piece)%nat /\
            quote_go is_print (S f) (b0 :: r) = esc ++ quote_go is_print f rest' /\ good esc piece).
  { intros H128 E. cbn [quote_go]. rewrite E. cbn [Nat.eqb Z.eqb Pos.eqb andb].
    destruct (Z.leb_spec 128 b0); [|lia].
    exists [92; 120; hexdigit (b0 / 16); hexdigit (b0 mod 16)], [b0], r.
    split; [reflexivity|]. split; [cbn; lia|]. split; [reflexivity|].
    exists 1%nat. split; [cbn; lia|apply step_x; lia]. }
  assert (VAL : forall rn w, decode_rune (b0 :: r) = (rn, w) -> (0 < w)%nat -> (w <= length (b0 :: r))%nat ->
          (w = 1%nat -> rn = 65533 -> b0 < 128) ->
          good (escape_rune is_print rn (firstn w (b0 :: r))) (firstn w (b0 :: r)) ->
          exists esc piece rest', b0 :: r = piece ++ rest' /\ (0 < length piece)%nat /\
            quote_go is_print (S f) (b0 :: r) = esc ++ quote_go is_print f rest' /\ good esc piece).
  { intros rn w E Hw Hwl Hne G. cbn [quote_go]. rewrite E.
    assert (T : Nat.eqb w 1 && (rn =? 65533) && (128 <=? b0) = false).
    { destruct (Nat.eqb_spec w 1); [|reflexivity]. destruct (Z.eqb_spec rn 65533); [|reflexivity].
      destruct (Z.leb_spec 128 b0); [|reflexivity]. specialize (Hne e e0). lia. }
    rewrite T.
    exists (escape_rune is_print rn (firstn w (b0 :: r))), (firstn w (b0 :: r)), (skipn w (b0 :: r)).
    split; [symmetry; apply firstn_skipn|]. split; [rewrite firstn_length; lia|]. split; [reflexivity|exact G]. }
  unfold decode_rune in INV, VAL.
  destruct (Z.ltb_spec b0 128).
  { (* ASCII *) apply (VAL b0 1%nat eq_refl); [lia|cbn; lia|lia|]. cbn [firstn]. apply esc_ascii. lia. }
  destruct ((194 <=? b0) && (b0 <=? 223)) eqn:C2.
  { apply andb_prop in C2. destruct C2 as [A1 A2]. apply Z.leb_le in A1, A2.
    destruct r as [|b1 r1]; [apply INV; [lia|reflexivity]|].
    inversion Hr as [|? ? Hb1 Hr1]; subst. unfold cont in *.
    destruct ((128 <=? b1) && (b1 <=? 191)) eqn:C; [|apply INV; [lia|reflexivity]].
    apply andb_prop in C. destruct C as [B1 B2]. apply Z.leb_le in B1, B2.
    apply (VAL _ 2%nat eq_refl); [lia|cbn; lia|lia|]. cbn [firstn].
    apply esc_multi; [lia|repeat constructor; lia|discriminate|].
    unfold utf8_ext. set (rn := (b0 - 192) * 64 + (b1 - 128)).
    destruct (Z.ltb_spec rn 128); [subst rn; lia|]. destruct (Z.ltb_spec rn 2048); [|subst rn; lia].
    subst rn. f_equal; [lia|f_equal; lia]. }
  destruct ((224 <=? b0) && (b0 <=? 239)) eqn:C3.
  { apply andb_prop in C3. destruct C3 as [A1 A2]. apply Z.leb_le in A1, A2.
    destruct r as [|b1 [|b2 r2]]; try (apply INV; [lia|reflexivity]).
    inversion Hr as [|? ? Hb1 Hr1]; subst. inversion Hr1 as [|? ? Hb2 Hr2]; subst. unfold cont in *.
    match type of INV with context [if ?c then (_, 3%nat) else _] => destruct c eqn:C end; [|apply INV; [lia|reflexivity]].
    apply andb_prop in C. destruct C as [C C2']. apply andb_prop in C. destruct C as [B1 B2].
    apply andb_prop in C2'. destruct C2' as [D1 D2].
    apply Z.leb_le in B1, B2, D1, D2.
    assert (LO : (if b0 =? 224 then 160 else 128) <= b1) by exact B1.
    assert (HI : b1 <= (if b0 =? 237 then 159 else 191)) by exact B2.
    assert (128 <= b1 <= 191) by (destruct (b0 =? 224), (b0 =? 237); lia).
    apply (VAL _ 3%nat eq_refl); [lia|cbn; lia|lia|]. cbn [firstn].
    set (rn := (b0 - 224) * 4096 + (b1 - 128) * 64 + (b2 - 128)).
    assert (2048 <= rn < 65536).
    { subst rn. destruct (Z.eqb_spec b0 224); lia. }
    apply esc_multi; [lia|repeat constructor; lia|discriminate|].
    unfold utf8_ext.
    destruct (Z.ltb_spec rn 128); [lia|]. destruct (Z.ltb_spec rn 2048); [lia|]. destruct (Z.ltb_spec rn 65536); [|lia].
    subst rn. f_equal; [lia|f_equal; [lia|f_equal; lia]]. }
  destruct ((240 <=? b0) && (b0 <=? 244)) eqn:C4; [|apply INV; [lia|reflexivity]].
  apply andb_prop in C4. destruct C4 as [A1 A2]. apply Z.leb_le in A1, A2.
  destruct r as [|b1 [|b2 [|b3 r3]]]; try (apply INV; [lia|reflexivity]).
  inversion Hr as [|? ? Hb1 Hr1]; subst. inversion Hr1 as [|? ? Hb2 Hr2]; subst. inversion Hr2 as [|? ? Hb3 Hr3]; subst.
  unfold cont in *.
  match type of INV with context [if ?c then (_, 4%nat) else _] => destruct c eqn:C end; [|apply INV; [lia|reflexivity]].
  apply andb_prop in C. destruct C as [C E3]. apply andb_prop in C. destruct C as [C E2]. apply andb_prop in C. destruct C as [B1 B2].
  apply andb_prop in E2. destruct E2 as [D1 D2]. apply andb_prop in E3. destruct E3 as [F1 F2].
  apply Z.leb_le in B1, B2, D1, D2, F1, F2.
  assert (LO : (if b0 =? 240 then 144 else 128) <= b1) by exact B1.
  assert (HI : b1 <= (if b0 =? 244 then 143 else 191)) by exact B2.
  assert (128 <= b1 <= 191) by (destruct (b0 =? 240), (b0 =? 244); lia).
  apply (VAL _ 4%nat eq_refl); [lia|cbn; lia|lia|]. cbn [firstn].
  set (rn := (b0 - 240) * 262144 + (b1 - 128) * 4096 + (b2 - 128) * 64 + (b3 - 128)).
  assert (65536 <= rn < 2097152).
  { subst rn. destruct (Z.eqb_spec b0 240), (Z.eqb_spec b0 244); lia. }
  apply esc_multi; [lia|repeat constructor; lia|discriminate|].
  unfold utf8_ext.
  destruct (Z.ltb_spec rn 128); [lia|]. destruct (Z.ltb_spec rn 2048); [lia|]. destruct (Z.ltb_spec rn 65536); [lia|].
  destruct (Z.ltb_spec rn 2097152); [|lia].
  subst rn. f_equal; [lia|f_equal; [lia|f_equal; [lia|f_equal; lia]]].
Qed.

Lemma quote_go_round : forall n s acc fuel, (length s <= n)%nat -> bytes_ok s ->
  (length (quote_go is_print n s) + 1 <= fuel)%nat ->
  unescape_go fuel (quote_go is_print n s ++ [34]) acc = Some (acc ++ s).
Proof.
  induction n as [|n IH]; intros s acc fuel Hl Hok Hf.
  - destruct s; [|cbn in Hl; lia]. cbn [quote_go app] in *. destruct fuel; [lia|]. cbn. now rewrite app_nil_r.
  - destruct s as [|b0 r].
    { cbn [quote_go app] in *. destruct fuel; [lia|]. cbn. now rewrite app_nil_r. }
    destruct (quote_step b0 r n Hok) as (esc & piece & rest' & Es & Hp & Eq & (k & Hk & HE)).
    rewrite Eq in *. rewrite app_length in Hf.
    replace fuel with (k + (fuel - k))%nat by lia.
    rewrite <- app_assoc, HE.
    assert (Hok' : bytes_ok rest').
    { unfold bytes_ok in *. rewrite Es in Hok. apply Forall_app in Hok. tauto. }
    assert (Hl' : (length rest' <= n)%nat).
    { apply (f_equal (@length Z)) in Es. rewrite app_length in Es. cbn [length] in *. lia. }
    rewrite IH by (auto; lia). rewrite <- app_assoc, <- Es. reflexivity.
Qed.

(* load('return ' .. string.format('%q', s))() == s for every byte string *)
Theorem quote_load_string : forall s, bytes_ok s -> lua_string_literal (quote is_print s) = Some s.
Proof.
  intros s Hok. unfold quote, lua_string_literal. cbn [Z.eqb Pos.eqb].
  rewrite quote_go_round; [reflexivity|lia|exact Hok|]. rewrite app_length. cbn [length]. lia.
Qed.
End Round.
