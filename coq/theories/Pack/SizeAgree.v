(* Pack/SizeAgree.v — string.packsize agrees with the length of what string.pack writes:
   second lockstep, PackValues vs PackSize (proofs). *)
From Coq Require Import ZArith Znumtheory List Bool Lia.
From GV Require Import Pack.NumStrModel Pack.Model Pack.Bytes Pack.IntRound Pack.Lockstep Pack.Total.
Import ListNotations.
Open Scope Z_scope.

Definition Rs (s : pst) (ss : sst) : Prop :=
  maxAl (p_rd s) = maxAl (s_rd ss) /\ alignOnly (p_rd s) = alignOnly (s_rd ss) /\
  p_fmt s = s_fmt ss /\ s_size ss = len (p_w s) /\ 0 < maxAl (p_rd s) <= 16.

Definition SimS (kp : pst -> pres) (ks : sst -> sres) : Prop :=
  forall s s1 ss ss1, Rs s ss -> kp s = PCont s1 -> ks ss = SCont ss1 -> Rs s1 ss1.

Lemma pow2_div n : 0 < n <= 16 -> is_pow2 n = true -> W mod n = 0.
Proof.
  intros Hn HP.
  assert (C : n = 1 \/ n = 2 \/ n = 3 \/ n = 4 \/ n = 5 \/ n = 6 \/ n = 7 \/ n = 8 \/ n = 9 \/ n = 10 \/ n = 11 \/
              n = 12 \/ n = 13 \/ n = 14 \/ n = 15 \/ n = 16) by lia.
  repeat (destruct C as [-> | C]; [vm_compute in HP; try discriminate HP; reflexivity|]).
  subst. reflexivity.
Qed.

Lemma mod_mod_div a n : 0 < n -> W mod n = 0 -> (a mod W) mod n = a mod n.
Proof.
  intros Hn HD. symmetry. apply Zmod_div_mod; [lia|unfold W; lia|].
  apply Z.mod_divide; [lia|exact HD].
Qed.

Lemma add_mod_l a b : (a mod W + b) mod W = (a + b) mod W.
Proof. apply Zplus_mod_idemp_l. Qed.

Lemma s_inc_inv k ss ss1 : s_inc k ss = SCont ss1 ->
  ss1 = mkS (s_rd ss) (s_fmt ss) (s_size ss + k) /\ k <= maxint - s_size ss.
Proof.
  unfold s_inc. destruct (Z.ltb_spec (maxint - s_size ss) k); [discriminate|]. intros E; injection E as <-. auto.
Qed.

Lemma simS_leaf (bsf : pst -> list Z) v k :
  (forall s, len (bsf s) = k) ->
  SimS (fun s => PCont (p_emit (p_write s (bsf s)) v)) (s_inc k).
Proof.
  intros HL s s1 ss ss1 (A & B & C & D & E) EP ES. injection EP as <-. apply s_inc_inv in ES. destruct ES as [-> _].
  unfold Rs. cbn [p_emit p_write p_rd p_fmt p_w s_rd s_fmt s_size].
  rewrite D, len_app, HL. auto.
Qed.

Lemma simS_leaf_w (bs : list Z) k : len bs = k ->
  SimS (fun s => PCont (p_write s bs)) (s_inc k).
Proof.
  intros HL s s1 ss ss1 (A & B & C & D & E) EP ES. injection EP as <-. apply s_inc_inv in ES. destruct ES as [-> _].
  unfold Rs. cbn [p_write p_rd p_fmt p_w s_rd s_fmt s_size].
  rewrite D, len_app, HL. auto.
Qed.

Lemma simS_align n kp ks : 0 <= n -> SimS kp ks ->
  SimS (fun s => p_align n s kp) (fun ss => s_align n ss ks).
Proof.
  intros Hn HS s s1 ss ss1 HR EP ES. pose proof HR as (A & B & C & D & E).
  unfold p_align in EP. unfold s_align in ES. rewrite <- B, <- A in ES.
  assert (GO : forall s0 ss0, Rs s0 ss0 -> p_rd s0 = p_rd s -> s_rd ss0 = s_rd ss ->
     (if alignOnly (p_rd s) then PCont (p_set_rd s0 (clear_ao (p_rd s))) else kp s0) = PCont s1 ->
     (if alignOnly (p_rd s) then SCont (mkS (clear_ao (s_rd ss)) (s_fmt ss0) (s_size ss0)) else ks ss0) = SCont ss1 ->
     Rs s1 ss1).
  { intros s0 ss0 HR0 E1 E2 P1 P2. destruct (alignOnly (p_rd s)).
    - injection P1 as <-. injection P2 as <-. destruct HR0 as (A0 & B0 & C0 & D0 & E0).
      unfold Rs. cbn. rewrite <- A. rewrite E1 in *. auto.
    - eapply HS; eauto. }
  destruct (Z.eqb_spec n 0).
  - eapply GO; eauto.
  - set (n' := if maxAl (p_rd s) <? n then maxAl (p_rd s) else n) in *.
    destruct (is_pow2 n') eqn:PW; cbn [negb] in *; [|discriminate].
    assert (Hn' : 0 < n' <= 16) by (subst n'; destruct (Z.ltb_spec (maxAl (p_rd s)) n); lia).
    set (p := pad_to n' (len (p_w s))) in *.
    replace (pad_to n' (s_size ss)) with p in ES by (subst p; now rewrite D).
    pose proof (pad_to_range n' (len (p_w s)) ltac:(lia)) as Hp0. fold p in Hp0.
    destruct (Z.eqb_spec p 0) as [P0|PN].
    + eapply GO; [| | |exact EP|exact ES]; try reflexivity.
      unfold Rs. cbn [p_write p_rd p_fmt p_w]. rewrite P0. cbn [zeros Z.to_nat repeat]. rewrite app_nil_r. auto.
    + destruct (s_inc p ss) as [ss0|] eqn:EI; [|discriminate]. apply s_inc_inv in EI. destruct EI as [-> _].
      eapply GO; [| | |exact EP|exact ES]; try reflexivity.
      unfold Rs. cbn [p_write p_rd p_fmt p_w s_rd s_fmt s_size].
      rewrite D, len_app, len_zeros by lia. auto.
Qed.

Lemma getOptSize_go_nonneg fmt : forall n ok e ok' m rest, 0 <= n ->
  getOptSize_go fmt n ok = ((e, ok', m), rest) -> 0 <= m.
Proof.
  induction fmt as [|c f IH]; intros n ok e ok' m rest Hn E; cbn [getOptSize_go] in E.
  - injection E as _ _ <- _. exact Hn.
  - destruct (is_digit c).
    + destruct (maxDecuplable <? n); [injection E as _ _ <- _; exact Hn|].
      destruct ((n * 10 + (c - 48)) mod W <? c - 48); [injection E as _ _ <- _; exact Hn|].
      eapply IH; [|exact E]. apply Z.mod_pos_bound. unfold W; lia.
    + injection E as _ _ <- _. exact Hn.
Qed.

Lemma mustGetOptSize_nonneg fmt n rest : mustGetOptSize fmt = (inr n, rest) -> 0 <= n.
Proof.
  unfold mustGetOptSize, getOptSize. destruct (getOptSize_go fmt 0 false) as [[[e ok] m] rs] eqn:E.
  apply getOptSize_go_nonneg in E; [|lia]. destruct e; [discriminate|]. destruct ok; [|discriminate].
  intros H; injection H as <- _. exact E.
Qed.

Lemma Rs_pop s ss vs : Rs s ss -> Rs (p_pop s vs) ss.
Proof. intros H. exact H. Qed.

Lemma simS_next (A : Type) (cv : value -> conv A) (kp : A -> pst -> pres) ks :
  (forall a, SimS (kp a) ks) ->
  SimS (fun s => p_next s (fun v s => match cv v with
                                      | CvOk n => kp n s | CvBad => PFail EBadType | CvUnmodelled => PFail EUnmodelled end)) ks.
Proof.
  intros HS s s1 ss ss1 HR EP ES. unfold p_next in EP.
  destruct (p_vals s) as [|v vs]; [discriminate|]. destruct (cv v) as [a| |]; try discriminate.
  exact (HS a (p_pop s vs) s1 ss ss1 (Rs_pop _ _ _ HR) EP ES).
Qed.

Lemma simS_bounds lo hi v kp ks : SimS kp ks -> SimS (fun s => p_bounds lo hi v (kp s)) ks.
Proof.
  intros HS s s1 ss ss1 HR EP ES. apply p_bounds_inv in EP. destruct EP as [_ EP]. eapply HS; eauto.
Qed.

Lemma simS_if (c : bool) e kp ks : SimS kp ks -> SimS (fun s => if c then kp s else PFail e) ks.
Proof. intros HS s s1 ss ss1 HR EP ES. destruct c; [|discriminate]. eapply HS; eauto. Qed.

Ltac lens n v s E :=
  set (lt := little (p_rd s)) in *;
  remember (enc lt 4 v) as e4 eqn:He4; remember (enc lt 8 v) as e8 eqn:He8;
  remember (Z.to_nat (8 - n)) as a8 eqn:Ha; remember (Z.to_nat (n - 8)) as b8 eqn:Hb; remember (Z.to_nat n) as c8 eqn:Hc;
  assert (L4 : length e4 = 4%nat) by (subst e4; apply enc_length);
  assert (L8 : length e8 = 8%nat) by (subst e8; apply enc_length);
  clear He4 He8;
  repeat match type of E with context [if ?c then _ else _] => destruct c eqn:? ; try discriminate E end;
  injection E as <-; eexists; (split; [reflexivity|]);
  repeat match goal with H : (_ =? _) = true |- _ => apply Z.eqb_eq in H | H : (_ =? _) = false |- _ => apply Z.eqb_neq in H
                         | H : (_ <=? _) = true |- _ => apply Z.leb_le in H | H : (_ <=? _) = false |- _ => apply Z.leb_gt in H
                         | H : (_ <? _) = true |- _ => apply Z.ltb_lt in H | H : (_ <? _) = false |- _ => apply Z.ltb_ge in H end;
  unfold len; rewrite ?app_length, ?firstn_length, ?skipn_length, ?repeat_length, ?L4, ?L8; lia.

Lemma packInt_len n v s s' : 1 <= n <= 16 -> packInt n v s = PCont s' -> exists bs, s' = p_write s bs /\ len bs = n.
Proof. intros Hn E. unfold packInt, p_bounds, p_put_int in E. lens n v s E. Qed.

Lemma packUint_len n v s s' : 1 <= n <= 16 -> packUint n v s = PCont s' -> exists bs, s' = p_write s bs /\ len bs = n.
Proof. intros Hn E. unfold packUint, p_bounds, p_put_int in E. lens n v s E. Qed.

Lemma simS_var (pk : Z -> Z -> pst -> pres) n v :
  (forall s s', pk n v s = PCont s' -> exists bs, s' = p_write s bs /\ len bs = n) ->
  SimS (fun s => match pk n v s with PCont s' => PCont (p_emit s' (VInt v)) | PFail e => PFail e end) (s_inc n).
Proof.
  intros HL s s1 ss ss1 HR EP ES. destruct (pk n v s) as [s'|] eqn:E; [|discriminate]. injection EP as <-.
  destruct (HL s s' E) as (bs & -> & L).
  exact (simS_leaf (fun _ => bs) (VInt v) n (fun _ => L) s _ ss ss1 HR eq_refl ES).
Qed.

Ltac open_s := unfold pack_opt, size_opt; cbn [Z.eqb Pos.eqb orb].

Definition szsupported : list Z :=
  [60; 62; 61; 33; 98; 66; 104; 72; 108; 106; 76; 74; 84; 105; 73; 102; 100; 110; 99; 120; 88; 32].

Lemma opt_simS c : SimS (pack_opt c) (size_opt c).
Proof.
  destruct (in_dec Z.eq_dec c supported) as [Hin|n].
  2:{ intros s s1 ss ss1 _ EP. rewrite pack_opt_unsupported in EP by exact n. discriminate. }
  unfold supported in Hin. cbn [In] in Hin.
  repeat (destruct Hin as [<- | Hin]); try contradiction; open_s.
  - (* < *) intros s s1 ss ss1 (A & B & C & D & E) EP ES. injection EP as <-. injection ES as <-. unfold Rs; cbn; auto.
  - intros s s1 ss ss1 (A & B & C & D & E) EP ES. injection EP as <-. injection ES as <-. unfold Rs; cbn; auto.
  - intros s s1 ss ss1 (A & B & C & D & E) EP ES. injection EP as <-. injection ES as <-. unfold Rs; cbn; auto.
  - (* ! *) intros s s1 ss ss1 (A & B & C & D & E) EP ES. rewrite <- C in ES.
    destruct (smallOptSize 1 (p_fmt s)) as [[e|n] rest] eqn:SS; [discriminate|].
    injection EP as <-. injection ES as <-.
    destruct (smallOptSize_pos 1 _ _ _ ltac:(lia) SS) as [Hn Hn']. unfold Rs; cbn. repeat split; auto; lia.
  - (* b *) apply simS_align; [lia|]. unfold p_next_int. apply simS_next. intros v. apply simS_bounds.
    apply (simS_leaf (fun s => enc (little (p_rd s)) 1 v)). intros; apply len_enc.
  - apply simS_align; [lia|]. unfold p_next_int. apply simS_next. intros v. apply simS_bounds.
    apply (simS_leaf (fun s => enc (little (p_rd s)) 1 v)). intros; apply len_enc.
  - apply simS_align; [lia|]. unfold p_next_int. apply simS_next. intros v. apply simS_bounds.
    apply (simS_leaf (fun s => enc (little (p_rd s)) 2 v)). intros; apply len_enc.
  - apply simS_align; [lia|]. unfold p_next_int. apply simS_next. intros v. apply simS_bounds.
    apply (simS_leaf (fun s => enc (little (p_rd s)) 2 v)). intros; apply len_enc.
  - apply simS_align; [lia|]. unfold p_next_int. apply simS_next. intros v.
    apply (simS_leaf (fun s => enc (little (p_rd s)) 8 v)). intros; apply len_enc.
  - apply simS_align; [lia|]. unfold p_next_int. apply simS_next. intros v.
    apply (simS_leaf (fun s => enc (little (p_rd s)) 8 v)). intros; apply len_enc.
  - apply simS_align; [lia|]. unfold p_next_int. apply simS_next. intros v.
    apply (simS_leaf (fun s => enc (little (p_rd s)) 8 v)). intros; apply len_enc.
  - apply simS_align; [lia|]. unfold p_next_int. apply simS_next. intros v.
    apply (simS_leaf (fun s => enc (little (p_rd s)) 8 v)). intros; apply len_enc.
  - apply simS_align; [lia|]. unfold p_next_int. apply simS_next. intros v.
    apply (simS_leaf (fun s => enc (little (p_rd s)) 8 v)). intros; apply len_enc.
  - (* i *) intros s s1 ss ss1 HR EP ES. pose proof HR as (A & B & C & D & E). rewrite <- C in ES.
    destruct (smallOptSize 8 (p_fmt s)) as [[e|n] rest] eqn:SS; [discriminate|].
    destruct (smallOptSize_pos 8 _ _ _ ltac:(lia) SS) as [Hn Hn'].
    assert (HR' : Rs (p_set_fmt s rest) (mkS (s_rd ss) rest (s_size ss))) by (unfold Rs; cbn; auto).
    revert HR' EP ES. apply (simS_align n _ (s_inc n) ltac:(lia)).
    unfold p_next_int. apply simS_next. intros v.
    apply (simS_var packInt n v). intros; eapply packInt_len; eauto; lia.
  - (* I *) intros s s1 ss ss1 HR EP ES. pose proof HR as (A & B & C & D & E). rewrite <- C in ES.
    destruct (smallOptSize 8 (p_fmt s)) as [[e|n] rest] eqn:SS; [discriminate|].
    destruct (smallOptSize_pos 8 _ _ _ ltac:(lia) SS) as [Hn Hn'].
    assert (HR' : Rs (p_set_fmt s rest) (mkS (s_rd ss) rest (s_size ss))) by (unfold Rs; cbn; auto).
    revert HR' EP ES. apply (simS_align n _ (s_inc n) ltac:(lia)).
    unfold p_next_int. apply simS_next. intros v.
    apply (simS_var packUint n v). intros; eapply packUint_len; eauto; lia.
  - (* f *) apply simS_align; [lia|]. unfold p_next_float. apply simS_next. intros f. apply simS_if. unfold p_put_int.
    apply (simS_leaf (fun s => enc (little (p_rd s)) 4 _)). intros; apply len_enc.
  - apply simS_align; [lia|]. unfold p_next_float. apply simS_next. intros f. unfold p_put_int.
    apply (simS_leaf (fun s => enc (little (p_rd s)) 8 f)). intros; apply len_enc.
  - apply simS_align; [lia|]. unfold p_next_float. apply simS_next. intros f. unfold p_put_int.
    apply (simS_leaf (fun s => enc (little (p_rd s)) 8 f)). intros; apply len_enc.
  - (* c *) apply simS_align; [lia|]. intros s s1 ss ss1 HR EP ES. pose proof HR as (A & B & C & D & E). rewrite <- C in ES.
    destruct (mustGetOptSize (p_fmt s)) as [[e|n] rest] eqn:SS; [discriminate|].
    unfold p_next_str, p_next in EP. cbn [p_set_fmt p_vals] in EP.
    destruct (p_vals s) as [|v vs]; [discriminate|]. destruct (to_str v) as [str| |]; try discriminate.
    unfold p_write_str in EP. cbn [andb] in EP.
    match type of EP with match (if ?c then _ else _) with _ => _ end = _ => destruct c eqn:EG; [discriminate|] end.
    match type of EP with match (if ?c then _ else _) with _ => _ end = _ => destruct c eqn:ED; [discriminate|] end.
    injection EP as <-. apply s_inc_inv in ES. destruct ES as [-> LE]. apply Z.ltb_ge in ED.
    unfold Rs. cbn [p_emit p_write p_pop p_set_fmt p_rd p_fmt p_w s_rd s_fmt s_size].
    split; [exact A|split; [exact B|split; [reflexivity|split; [|exact E]]]].
    rewrite D, !len_app, len_zeros by lia.
    assert (N0 : 0 <= n) by (eapply mustGetOptSize_nonneg; eauto).
    pose proof (len_nonneg (p_w s)). cbn [s_size] in LE. rewrite D in LE.
    rewrite (to_i64_small n) by (unfold maxint, Model.H in *; lia). lia.
  - (* z *) intros s s1 ss ss1 _ _ ES. discriminate.
  - (* s: after X only the alignment is used *)
    intros s s1 ss ss1 HR EP ES. pose proof HR as (A & B & C & D & E). rewrite <- C, <- B in ES.
    destruct (alignOnly (p_rd s)) eqn:AO; [|discriminate].
    destruct (smallOptSize 8 (p_fmt s)) as [[e|n] rest] eqn:SS; [discriminate|].
    destruct (smallOptSize_pos 8 _ _ _ ltac:(lia) SS) as [Hn Hn'].
    assert (HR' : Rs (p_set_fmt s rest) (mkS (s_rd ss) rest (s_size ss))) by (unfold Rs; cbn; repeat split; auto; try congruence; lia).
    revert HR' EP ES. apply (simS_align n _ (fun _ => SFail EVariableLength) ltac:(lia)).
    intros ? ? ? ? _ _ F. discriminate F.
  - (* x *) apply simS_align; [lia|]. apply (simS_leaf_w [0] 1). reflexivity.
  - (* X *) intros s s1 ss ss1 (A & B & C & D & E) EP ES. injection EP as <-. injection ES as <-. unfold Rs; cbn; auto.
  - (* space *) intros s s1 ss ss1 (A & B & C & D & E) EP ES. injection EP as <-. injection ES as <-. unfold Rs; cbn; auto.
Qed.

Lemma loop_size : forall fuel s ss out packed n,
  Rs s ss -> pack_go fuel s = POk out packed -> size_go fuel ss = SOk n -> n = len out.
Proof.
  induction fuel as [|f IH]; intros s ss out packed n HR EP ES; [discriminate|].
  cbn [pack_go size_go] in *. pose proof HR as (A & B & C & D & E). rewrite <- C, <- B in ES.
  destruct (p_fmt s) as [|c rest] eqn:EF.
  - destruct (alignOnly (p_rd s)); [discriminate|]. injection EP as <- <-. injection ES as <-. exact D.
  - destruct (alignOnly (p_rd s) && negb (alignable c)); [discriminate|].
    destruct (pack_opt c (p_set_fmt s rest)) as [s'|] eqn:E1; [|discriminate].
    destruct (size_opt c (mkS (s_rd ss) rest (s_size ss))) as [ss'|] eqn:E2; [|discriminate].
    assert (HR0 : Rs (p_set_fmt s rest) (mkS (s_rd ss) rest (s_size ss))) by (unfold Rs; cbn; auto).
    exact (IH s' ss' out packed n (opt_simS c _ _ _ _ HR0 E1 E2) EP ES).
Qed.

(* string.packsize(fmt) is the length of string.pack(fmt, ...) whenever both succeed — i.e. for
   fixed-size formats (round 6: PackSize raises "format result too large" instead of wrapping) *)
Theorem packsize_agrees : forall fmt vs out packed n,
  pack fmt vs = POk out packed -> packsize fmt = SOk n -> n = len out.
Proof.
  intros fmt vs out packed n EP ES. unfold pack in EP. unfold packsize in ES.
  refine (loop_size _ _ _ out packed n _ EP ES). unfold Rs. cbn. repeat split; auto; lia.
Qed.
