(* Pack/QuoteModel.v — %q of a string: lib/stringlib/format.go's quoteString (round-2
   repair: strconv.Quote piece by piece, except that a valid non-printable rune >= 0x80 is
   written \u{XXX}); strconv.Quote transcribed from strconv/quote.go (appendQuotedWith, appendEscapedRune)
   and unicode/utf8 (DecodeRuneInString), and the reader of Lua string literals written
   from the Lua 5.4 manual §3.1.  unicode.IsPrint is a parameter.  No proofs here. *)
From Coq Require Import ZArith List Bool.
From GV Require Import Pack.NumStrModel.
Import ListNotations.
Open Scope Z_scope.

Definition hexdigit (d : Z) : Z := if d <? 10 then 48 + d else 87 + d.
Definition cont (b : Z) : bool := (128 <=? b) && (b <=? 191).

(* utf8.DecodeRuneInString: (rune, width); (65533, 1) for invalid input *)
Definition decode_rune (s : list Z) : Z * nat :=
  match s with
  | [] => (65533, 0%nat)
  | b0 :: r =>
    if b0 <? 128 then (b0, 1%nat)
    else if (194 <=? b0) && (b0 <=? 223) then
      match r with
      | b1 :: _ => if cont b1 then ((b0 - 192) * 64 + (b1 - 128), 2%nat) else (65533, 1%nat)
      | _ => (65533, 1%nat)
      end
    else if (224 <=? b0) && (b0 <=? 239) then
      match r with
      | b1 :: b2 :: _ =>
        let lo := if b0 =? 224 then 160 else 128 in
        let hi := if b0 =? 237 then 159 else 191 in
        if (lo <=? b1) && (b1 <=? hi) && cont b2
        then ((b0 - 224) * 4096 + (b1 - 128) * 64 + (b2 - 128), 3%nat) else (65533, 1%nat)
      | _ => (65533, 1%nat)
      end
    else if (240 <=? b0) && (b0 <=? 244) then
      match r with
      | b1 :: b2 :: b3 :: _ =>
        let lo := if b0 =? 240 then 144 else 128 in
        let hi := if b0 =? 244 then 143 else 191 in
        if (lo <=? b1) && (b1 <=? hi) && cont b2 && cont b3
        then ((b0 - 240) * 262144 + (b1 - 128) * 4096 + (b2 - 128) * 64 + (b3 - 128), 4%nat)
        else (65533, 1%nat)
      | _ => (65533, 1%nat)
      end
    else (65533, 1%nat)
  end.

Section Quote.
Variable is_print : Z -> bool.   (* unicode.IsPrint *)

Definition hex_run (r : Z) (n : nat) : list Z :=
  (fix go (i : nat) := match i with O => [] | S j => hexdigit ((r / 16 ^ Z.of_nat j) mod 16) :: go j end) n.

(* appendEscapedRune with quote = double quote, ASCIIonly = graphicOnly = false; [raw] = the
   bytes of the rune as they stood in the input (utf8.AppendRune of a decoded valid rune) *)
Definition escape_rune (r : Z) (raw : list Z) : list Z :=
  if (r =? 34) || (r =? 92) then [92; r]
  else if is_print r then raw
  else if r =? 7 then [92; 97] else if r =? 8 then [92; 98] else if r =? 12 then [92; 102]
  else if r =? 10 then [92; 110] else if r =? 13 then [92; 114] else if r =? 9 then [92; 116]
  else if r =? 11 then [92; 118]
  else if (r <? 32) || (r =? 127) then [92; 120; hexdigit (r / 16); hexdigit (r mod 16)]
  else 92 :: 117 :: 123 :: digits false 16 r ++ [125].      (* fmt.Fprintf(&b, "\\u{%x}", r) *)

Fixpoint quote_go (fuel : nat) (s : list Z) : list Z :=
  match fuel with
  | O => []
  | S f =>
    match s with
    | [] => []
    | b0 :: _ =>
      let '(r, w) := decode_rune s in
      if (Nat.eqb w 1) && (r =? 65533) && (128 <=? b0)
      then 92 :: 120 :: hexdigit (b0 / 16) :: hexdigit (b0 mod 16) :: quote_go f (skipn 1 s)
      else escape_rune r (firstn w s) ++ quote_go f (skipn w s)
    end
  end.
Definition quote (s : list Z) : list Z := 34 :: quote_go (length s) s ++ [34].
End Quote.

(* ------------------------------------------------------------ Lua string literal (manual 3.1) *)
Definition hexval (c : Z) : option Z :=
  if (48 <=? c) && (c <=? 57) then Some (c - 48)
  else if (97 <=? c) && (c <=? 102) then Some (c - 87)
  else if (65 <=? c) && (c <=? 70) then Some (c - 55)
  else None.
Definition is_dec (c : Z) : bool := (48 <=? c) && (c <=? 57).
Definition is_space (c : Z) : bool := (c =? 32) || ((9 <=? c) && (c <=? 13)).

(* UTF-8 encoding as extended by Lua for \u{XXX} (up to 2^31) *)
Definition utf8_ext (cp : Z) : list Z :=
  if cp <? 128 then [cp]
  else if cp <? 2048 then [192 + cp / 64; 128 + cp mod 64]
  else if cp <? 65536 then [224 + cp / 4096; 128 + (cp / 64) mod 64; 128 + cp mod 64]
  else if cp <? 2097152 then [240 + cp / 262144; 128 + (cp / 4096) mod 64; 128 + (cp / 64) mod 64; 128 + cp mod 64]
  else if cp <? 67108864 then [248 + cp / 16777216; 128 + (cp / 262144) mod 64; 128 + (cp / 4096) mod 64; 128 + (cp / 64) mod 64; 128 + cp mod 64]
  else [252 + cp / 1073741824; 128 + (cp / 16777216) mod 64; 128 + (cp / 262144) mod 64; 128 + (cp / 4096) mod 64; 128 + (cp / 64) mod 64; 128 + cp mod 64].

Fixpoint read_hex_braced (s : list Z) (acc : Z) (seen : bool) : option (Z * list Z) :=
  match s with
  | [] => None
  | c :: r => if c =? 125 then (if seen then Some (acc, r) else None)
              else match hexval c with
                   | Some d => let a := acc * 16 + d in if 2147483648 <=? a then None else read_hex_braced r a true
                   | None => None
                   end
  end.

Fixpoint skip_space (l : list Z) : list Z :=
  match l with x :: t => if is_space x then skip_space t else l | [] => [] end.

(* one escape sequence: [r] is what follows the backslash; result: bytes denoted, rest *)
Definition unescape1 (r : list Z) : option (list Z * list Z) :=
  match r with
  | [] => None
  | c :: r1 =>
    if c =? 97 then Some ([7], r1) else if c =? 98 then Some ([8], r1)
    else if c =? 102 then Some ([12], r1) else if c =? 110 then Some ([10], r1)
    else if c =? 114 then Some ([13], r1) else if c =? 116 then Some ([9], r1)
    else if c =? 118 then Some ([11], r1)
    else if (c =? 92) || (c =? 34) || (c =? 39) then Some ([c], r1)
    else if (c =? 10) || (c =? 13) then Some ([10], r1)
    else if c =? 120 then
      match r1 with
      | h1 :: h2 :: r2 => match hexval h1, hexval h2 with
                          | Some a, Some b => Some ([a * 16 + b], r2)
                          | _, _ => None
                          end
      | _ => None
      end
    else if c =? 122 then Some ([], skip_space r1)
    else if c =? 117 then
      match r1 with
      | x :: r2 => if x =? 123 then
                     match read_hex_braced r2 0 false with
                     | Some (cp, r3) => Some (utf8_ext cp, r3)
                     | None => None
                     end
                   else None
      | [] => None
      end
    else if is_dec c then
      match r1 with
      | d2 :: r2 =>
        if is_dec d2 then
          match r2 with
          | d3 :: r3 =>
            if is_dec d3 then
              let v := (c - 48) * 100 + (d2 - 48) * 10 + (d3 - 48) in
              if v <=? 255 then Some ([v], r3) else None
            else Some ([(c - 48) * 10 + (d2 - 48)], r2)
          | [] => Some ([(c - 48) * 10 + (d2 - 48)], r2)
          end
        else Some ([c - 48], r1)
      | [] => Some ([c - 48], r1)
      end
    else None
  end.

(* body of a double-quoted literal (after the opening quote); result: the denoted
   bytes when the literal is well formed and ends exactly at the closing quote *)
Fixpoint unescape_go (fuel : nat) (s : list Z) (acc : list Z) : option (list Z) :=
  match fuel with
  | O => None
  | S f =>
    match s with
    | [] => None                                  (* unfinished string *)
    | b :: r =>
      if b =? 34 then match r with [] => Some acc | _ => None end
      else if (b =? 10) || (b =? 13) then None    (* raw line break *)
      else if b =? 92 then
        match unescape1 r with
        | Some (bytes, r') => unescape_go f r' (acc ++ bytes)
        | None => None
        end
      else unescape_go f r (acc ++ [b])
    end
  end.
Definition lua_string_literal (lit : list Z) : option (list Z) :=
  match lit with
  | q :: body => if q =? 34 then unescape_go (S (length body)) body [] else None
  | [] => None
  end.

(* ASCII part of unicode.IsPrint (used when the oracle is given a finite table of printable runes) *)
Definition is_print_tab (tab : list Z) (r : Z) : bool :=
  if r <? 128 then (32 <=? r) && (r <? 127) else existsb (fun x => x =? r) tab.
