(* Pack/FmtModel.v — the integer directives of string.format, executable definitions only.
   IM: lib/stringlib/format.go (Format: %i,%u -> Go %d; %u %x %X %o get uint64(n); %d %i int64(n);
   %c -> Go %s of a one-byte string; flags, width and precision are passed through unchanged)
   composed with Go's fmt (print.go flag parsing; format.go fmtInteger, pad, writePadding).
   S: ISO C printf (7.21.6.1) for d i u x X o c, on the combinations C defines. *)
From Coq Require Import ZArith List Bool.
From GV Require Import Pack.NumStrModel.
Import ListNotations.
Open Scope Z_scope.

Inductive conv := CD | CI | CU | Cx | CX | Co.
Record spec := mkSpec { minus : bool; plus : bool; space : bool; sharp : bool; zero : bool;
                        wid : option Z; prec : option Z }.

Definition len (l : list Z) : Z := Z.of_nat (length l).
Definition rep (c n : Z) : list Z := repeat c (Z.to_nat n).
Definition padl (w : Z) (l : list Z) : list Z := rep 32 (w - len l) ++ l.
Definition padr (w : Z) (l : list Z) : list Z := l ++ rep 32 (w - len l).

Definition is_signed (c : conv) : bool := match c with CD | CI => true | _ => false end.
Definition base_of (c : conv) : Z := match c with Cx | CX => 16 | Co => 8 | _ => 10 end.
Definition upper_of (c : conv) : bool := match c with CX => true | _ => false end.
Definition width_of (sp : spec) : Z := match wid sp with Some w => w | None => 0 end.
Definition wid_present (sp : spec) : bool := match wid sp with Some _ => true | None => false end.
Definition head_is (c : Z) (l : list Z) : bool := match l with x :: _ => x =? c | [] => false end.
(* the magnitude that is printed: |n| for d, i; n mod 2^64 for u, x, X, o *)
Definition magnitude (c : conv) (n : Z) : Z := if is_signed c then Z.abs n else n mod W64.

(* ---------------------------------------------------------------- IM: golua + Go fmt *)
(* the path through fmt.Sprintf: Go's fmtInteger and pad *)
Definition go_fmt_sprintf (c : conv) (sp : spec) (n : Z) : list Z :=
  let negative := is_signed c && (n <? 0) in
  let u := magnitude c n in
  let w := width_of sp in
  (* print.go: '0' sets zero = !minus; '-' clears zero *)
  let zero' := zero sp && negb (minus sp) in
  (* "Precision of 0 and value of 0 means print nothing but padding" *)
  if (match prec sp with Some p => p =? 0 | None => false end) && (u =? 0) then rep 32 w
  else
    let hasSign := negative || plus sp || space sp in
    let p := match prec sp with
             | Some p => p
             | None => if zero' && wid_present sp then w - (if hasSign then 1 else 0) else 0
             end in
    let ds := digits (upper_of c) (base_of c) u in
    let ds1 := rep 48 (p - len ds) ++ ds in
    let ds2 := if sharp sp then (match c with Co => if head_is 48 ds1 then ds1 else 48 :: ds1
                                            | Cx => 48 :: 120 :: ds1 | CX => 48 :: 88 :: ds1 | _ => ds1 end) else ds1 in
    let out := (if negative then [45] else if plus sp then [43] else if space sp then [32] else []) ++ ds2 in
    if minus sp then padr w out else padl w out.

(* %s and %c after round 6: (intSpec).formatString — at most prec BYTES (Go's %.Ns counts runes),
   padded with spaces to width BYTES, only '-' has a meaning; for %c the precision is dropped *)
Definition go_fmt_s (sp : spec) (s : list Z) : list Z :=
  let s := match prec sp with Some p => if p <? len s then firstn (Z.to_nat p) s else s | None => s end in
  let w := width_of sp in
  if minus sp then padr w s else padl w s.
Definition go_fmt_c (sp : spec) (n : Z) : list Z :=
  go_fmt_s (mkSpec (minus sp) (plus sp) (space sp) (sharp sp) (zero sp) (wid sp) None) [n mod 256].

(* ---------------------------------------------------------------- S: ISO C printf *)
Definition c_fmt (c : conv) (sp : spec) (n : Z) : list Z :=
  let negative := is_signed c && (n <? 0) in
  let u := magnitude c n in
  let w := width_of sp in
  let p := match prec sp with Some p => p | None => 1 end in
  (* "the result of converting a zero value with a precision of zero is no characters" *)
  let ds0 := if (p =? 0) && (u =? 0) then [] else digits (upper_of c) (base_of c) u in
  let ds := rep 48 (p - len ds0) ++ ds0 in
  (* '#': o — increase the precision so that the first digit is 0; x, X — nonzero result gets 0x / 0X *)
  let ds := if sharp sp then (match c with Co => if head_is 48 ds then ds else 48 :: ds | _ => ds end) else ds in
  let pre := (if negative then [45] else if is_signed c && plus sp then [43] else if is_signed c && space sp then [32] else [])
             ++ (if sharp sp && negb (u =? 0) then (match c with Cx => [48; 120] | CX => [48; 88] | _ => [] end) else []) in
  (* '0': leading zeros (following any sign or base) pad to the field width; ignored with '-' or a precision *)
  if zero sp && negb (minus sp) && wid_present sp && (match prec sp with None => true | Some _ => false end)
  then pre ++ rep 48 (w - (len pre + len ds)) ++ ds
  else if minus sp then padr w (pre ++ ds) else padl w (pre ++ ds).

(* %c: the int argument converted to unsigned char; only '-' and a width are defined *)
Definition c_fmt_c (sp : spec) (n : Z) : list Z :=
  if minus sp then padr (width_of sp) [n mod 256] else padl (width_of sp) [n mod 256].
(* %s: "characters from the array are written up to (but not including) the terminating null
   character; if the precision is specified, no more than that many bytes are written" *)
Definition c_fmt_s (sp : spec) (s : list Z) : list Z :=
  let s := match prec sp with Some p => firstn (Z.to_nat p) s | None => s end in
  if minus sp then padr (width_of sp) s else padl (width_of sp) s.

(* the combinations for which C defines the behaviour and that golua passes through *)
Definition c_defined (c : conv) (sp : spec) : bool :=
  (match wid sp with Some w => 0 <=? w | None => true end) &&
  (match prec sp with Some p => 0 <=? p | None => true end) &&
  (is_signed c || (negb (plus sp) && negb (space sp))) &&          (* + and space: signed conversions only *)
  (negb (sharp sp) || (match c with Cx | CX | Co => true | _ => false end)).   (* #: o x X only *)

(* format.go after the round-5 repairs: (intSpec).format renders the directive the C way
   (its code follows c_fmt step by step: digits, precision, '#', sign/prefix, padding) when
   - the '#' flag is used with x, X or o, or
   - precision and value are 0 and an explicit sign is asked for (d, i);
   everything else still goes through fmt.Sprintf. *)
Definition use_c (c : conv) (sp : spec) (n : Z) : bool :=
  match c with
  | Cx | CX | Co => sharp sp
  | CD | CI => (match prec sp with Some p => p =? 0 | None => false end) && (n =? 0) && (plus sp || space sp)
  | CU => false
  end.
Definition go_fmt (c : conv) (sp : spec) (n : Z) : list Z :=
  if use_c c sp n then c_fmt c sp n else go_fmt_sprintf c sp n.

(* the defect classes of fmt.Sprintf's path (what the repairs route around) *)
Definition defect_class_src (c : conv) (sp : spec) (n : Z) : bool :=
  sharp sp ||
  ((match prec sp with Some p => p =? 0 | None => false end) && (magnitude c n =? 0) && (plus sp || space sp)).
