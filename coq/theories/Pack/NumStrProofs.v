(* Pack/NumStrProofs.v — integer printing and parsing are inverse (proofs). *)
From Coq Require Import ZArith List Bool Lia.
From GV Require Import Pack.NumStrModel.
Import ListNotations.
Open Scope Z_scope.

Lemma char_digit_digit_char up d : 0 <= d < 36 -> char_digit (digit_char up d) = Some d.
Proof.
  intros Hd. unfold digit_char, char_digit.
  destruct (Z.ltb_spec d 10).
  - destruct (Z.leb_spec 48 (48 + d)), (Z.leb_spec (48 + d) 57); try lia. cbn [andb]. f_equal. lia.
  - destruct up.
    + destruct (Z.leb_spec 48 (55 + d)), (Z.leb_spec (55 + d) 57); try lia; cbn [andb];
      destruct (Z.leb_spec 97 (55 + d)), (Z.leb_spec (55 + d) 122); try lia; cbn [andb];
      destruct (Z.leb_spec 65 (55 + d)), (Z.leb_spec (55 + d) 90); try lia; cbn [andb]; f_equal; lia.
    + destruct (Z.leb_spec 48 (87 + d)), (Z.leb_spec (87 + d) 57); try lia; cbn [andb];
      destruct (Z.leb_spec 97 (87 + d)), (Z.leb_spec (87 + d) 122); try lia; cbn [andb]; f_equal; lia.
Qed.

Lemma parse_step b up d r acc : 2 <= b <= 36 -> 0 <= d < b ->
  parse_digits b (digit_char up d :: r) acc = parse_digits b r (acc * b + d).
Proof.
  intros Hb Hd. cbn [parse_digits]. rewrite char_digit_digit_char by lia.
  destruct (Z.ltb_spec d b); [reflexivity|lia].
Qed.

(* reading back, from accumulator 0, the digits that digits_go puts in front of [tail] *)
Lemma parse_digits_go b up : 2 <= b <= 36 ->
  forall fuel n tail, 0 <= n < b ^ Z.of_nat (S fuel) ->
  parse_digits b (digits_go fuel up b n tail) 0 = parse_digits b tail n.
Proof.
  intros Hb. induction fuel as [|f IH]; intros n tail Hn.
  - cbn [digits_go]. change (Z.of_nat 1) with 1 in Hn. rewrite Z.pow_1_r in Hn.
    rewrite Z.mod_small by lia. rewrite parse_step by lia. f_equal.
  - cbn [digits_go]. pose proof (Z.mod_pos_bound n b ltac:(lia)).
    destruct (Z.eqb_spec (n / b) 0) as [E|NE].
    + rewrite parse_step by lia. f_equal.
      rewrite (Z.div_mod n b) at 2 by lia. rewrite E. lia.
    + rewrite IH.
      * rewrite parse_step by lia. f_equal. rewrite (Z.div_mod n b) at 3 by lia. lia.
      * split; [apply Z.div_pos; lia|].
        apply Z.div_lt_upper_bound; [lia|].
        rewrite Nat2Z.inj_succ, Z.pow_succ_r in Hn by lia. lia.
Qed.

Lemma fuel_enough b n : 2 <= b -> 0 <= n -> n < b ^ Z.of_nat (S (Z.to_nat (Z.log2 n))).
Proof.
  intros Hb Hn. rewrite Nat2Z.inj_succ, Z2Nat.id by apply Z.log2_nonneg.
  destruct (Z.eq_dec n 0) as [->|NZ].
  - cbn. lia.
  - pose proof (Z.log2_spec n ltac:(lia)) as [_ L].
    apply Z.lt_le_trans with (2 ^ Z.succ (Z.log2 n)); [exact L|].
    apply Z.pow_le_mono_l. lia.
Qed.

Lemma parse_digits_digits b up n : 2 <= b <= 36 -> 0 <= n ->
  parse_digits b (digits up b n) 0 = Some n.
Proof.
  intros Hb Hn. unfold digits. rewrite parse_digits_go; [reflexivity|exact Hb|].
  split; [lia|apply fuel_enough; lia].
Qed.

Lemma digits_go_nonempty fuel up b n acc : digits_go fuel up b n acc <> [].
Proof.
  revert n acc; induction fuel; intros n acc; cbn [digits_go]; [discriminate|].
  destruct (n / b =? 0); [discriminate|apply IHfuel].
Qed.

Lemma digits_go_length fuel up b n acc : (length (digits_go fuel up b n acc) <= S fuel + length acc)%nat.
Proof.
  revert n acc; induction fuel; intros n acc; cbn [digits_go]; [cbn; lia|].
  destruct (n / b =? 0); [cbn; lia|]. specialize (IHfuel (n / b) (digit_char up (n mod b) :: acc)). cbn [length] in IHfuel. lia.
Qed.

(* tonumber(tostring(n)) = n, every int64: strconv.ParseInt after strconv.FormatInt *)
Theorem tonumber_tostring_int n : minint <= n <= maxint -> parse_int (format_int n) = Some n.
Proof.
  intros Hn. unfold format_int.
  assert (ND : forall m, 0 <= m -> forall c r, digits false 10 m = c :: r -> c <> 45 /\ c <> 43).
  { intros m Hm c r E. pose proof (parse_digits_digits 10 false m ltac:(lia) Hm) as P. rewrite E in P.
    split; intros ->; cbn in P; discriminate. }
  destruct (Z.ltb_spec n 0).
  - unfold parse_int. pose proof (parse_digits_digits 10 false (- n) ltac:(lia) ltac:(lia)) as P.
    destruct (digits false 10 (- n)) as [|c r] eqn:E.
    { exfalso. unfold digits in E. eapply digits_go_nonempty; eauto. }
    rewrite P. replace (- - n) with n by lia.
    unfold minint, maxint in *.
    destruct (Z.leb_spec (-9223372036854775808) n), (Z.leb_spec n 9223372036854775807); try lia. reflexivity.
  - pose proof (parse_digits_digits 10 false n ltac:(lia) ltac:(lia)) as P.
    destruct (digits false 10 n) as [|c r] eqn:E.
    { exfalso. unfold digits in E. eapply digits_go_nonempty; eauto. }
    destruct (ND n ltac:(lia) c r E) as [N1 N2].
    unfold parse_int.
    assert (SH : match c :: r with 45 :: r0 => (true, r0) | 43 :: r0 => (false, r0) | _ => (false, c :: r) end = (false, c :: r)).
    { destruct c as [|p|p]; try reflexivity.
      do 7 (try (destruct p as [p|p|]; try reflexivity)); exfalso; (apply N1; reflexivity) || (apply N2; reflexivity). }
    rewrite SH, P. unfold minint, maxint in *.
    destruct (Z.leb_spec (-9223372036854775808) n), (Z.leb_spec n 9223372036854775807); try lia. reflexivity.
Qed.

Lemma format_int_length n : minint <= n <= maxint -> (length (format_int n) <= 66)%nat.
Proof.
  intros Hn. unfold format_int, digits.
  assert (L : forall m, 0 <= m <= 9223372036854775808 -> (Z.to_nat (Z.log2 m) <= 63)%nat).
  { intros m Hm. destruct (Z.eq_dec m 0) as [->|]; [cbn; lia|].
    assert (Z.log2 m <= 63); [|lia].
    apply Z.le_trans with (Z.log2 9223372036854775808); [apply Z.log2_le_mono; lia|]. vm_compute. discriminate. }
  unfold minint, maxint in Hn.
  destruct (Z.ltb_spec n 0); cbn [length].
  - pose proof (digits_go_length (Z.to_nat (Z.log2 (- n))) false 10 (- n) []). pose proof (L (- n) ltac:(lia)). cbn [length] in *. lia.
  - pose proof (digits_go_length (Z.to_nat (Z.log2 n)) false 10 n []). pose proof (L n ltac:(lia)). cbn [length] in *. lia.
Qed.

(* the first two characters of a decimal numeral are not a sign / a hex prefix *)
Lemma digits10_shape n : 0 <= n ->
  is_minus (digits false 10 n) = false /\ is_hex_prefix (digits false 10 n) = false /\ digits false 10 n <> [].
Proof.
  intros Hn. pose proof (parse_digits_digits 10 false n ltac:(lia) Hn) as P.
  destruct (digits false 10 n) as [|c r] eqn:E.
  { exfalso. unfold digits in E. eapply digits_go_nonempty; eauto. }
  split; [|split; [|discriminate]].
  - cbn [is_minus]. destruct (Z.eqb_spec c 45) as [->|]; [cbn in P; discriminate|reflexivity].
  - destruct r as [|c2 [|c3 r3]]; try reflexivity. cbn [is_hex_prefix].
    destruct (Z.eqb_spec c 48) as [->|]; [|reflexivity]. cbn [andb].
    destruct (Z.eqb_spec c2 120) as [->|]; [cbn in P; discriminate|].
    destruct (Z.eqb_spec c2 88) as [->|]; [cbn in P; discriminate|reflexivity].
Qed.

(* %q of an integer, read back as a Lua integer literal (manual 3.1), every int64 incl. mininteger *)
Theorem quote_load_int n : minint <= n <= maxint -> lit_int (quote_int n) = Some n.
Proof.
  intros Hn. unfold quote_int. destruct (Z.eqb_spec n minint) as [->|NE].
  - vm_compute. reflexivity.
  - unfold format_int. unfold minint, maxint in *. destruct (Z.ltb_spec n 0).
    + destruct (digits10_shape (- n) ltac:(lia)) as (M & X & NN).
      pose proof (parse_digits_digits 10 false (- n) ltac:(lia) ltac:(lia)) as P.
      unfold lit_int. cbn [is_minus Z.eqb Pos.eqb skipn]. unfold lit_nat. rewrite X.
      destruct (digits false 10 (- n)) as [|c r] eqn:E; [congruence|]. rewrite P.
      unfold maxint. destruct (Z.leb_spec (- n) 9223372036854775807); [|lia].
      unfold minint. destruct (Z.eqb_spec (- n) (-9223372036854775808)); [lia|]. f_equal. lia.
    + destruct (digits10_shape n ltac:(lia)) as (M & X & NN).
      pose proof (parse_digits_digits 10 false n ltac:(lia) ltac:(lia)) as P.
      unfold lit_int. rewrite M. unfold lit_nat. rewrite X.
      destruct (digits false 10 n) as [|c r] eqn:E; [congruence|]. rewrite P.
      unfold maxint. destruct (Z.leb_spec n 9223372036854775807); [reflexivity|lia].
Qed.
