(* Pack/FmtProofs.v — string.format's integer directives against C printf (proofs). *)
From Coq Require Import ZArith List Bool Lia.
From GV Require Import Pack.NumStrModel Pack.NumStrProofs Pack.FmtModel.
Import ListNotations.
Open Scope Z_scope.

Lemma rep_nil c n : n <= 0 -> rep c n = [].
Proof. intros. unfold rep. replace (Z.to_nat n) with 0%nat by lia. reflexivity. Qed.
Lemma len_rep c n : len (rep c n) = Z.max 0 n.
Proof. unfold len, rep. rewrite repeat_length. lia. Qed.
Lemma len_app a b : len (a ++ b) = len a + len b.
Proof. unfold len. rewrite app_length. lia. Qed.
Lemma len_digits up b n : 1 <= len (digits up b n).
Proof.
  unfold len, digits. pose proof (digits_go_nonempty (Z.to_nat (Z.log2 n)) up b n []).
  destruct (digits_go _ up b n []); [congruence|cbn [length]; lia].
Qed.

(* ------------------------------------------------------------ the round-4 witnesses: fmt.Sprintf's path differs
   from C there; the repaired format.go (go_fmt) agrees *)
Example sharp_x_zero :      (* string.format("%#x", 0): was "0x0", C: "0" *)
  go_fmt_sprintf Cx (mkSpec false false false true false None None) 0 = [48; 120; 48] /\
  go_fmt Cx (mkSpec false false false true false None None) 0 = [48] /\
  c_fmt Cx (mkSpec false false false true false None None) 0 = [48].
Proof. vm_compute. auto. Qed.
Example sharp_zero_width :  (* string.format("%#06x", 255): was "0x0000ff", C: "0x00ff" *)
  go_fmt_sprintf Cx (mkSpec false false false true true (Some 6) None) 255 = [48; 120; 48; 48; 48; 48; 102; 102] /\
  go_fmt Cx (mkSpec false false false true true (Some 6) None) 255 = [48; 120; 48; 48; 102; 102] /\
  c_fmt Cx (mkSpec false false false true true (Some 6) None) 255 = [48; 120; 48; 48; 102; 102].
Proof. vm_compute. auto. Qed.
Example plus_prec0_zero :   (* string.format("%+.0d", 0): was "", C: "+" *)
  go_fmt_sprintf CD (mkSpec false true false false false None (Some 0)) 0 = [] /\
  go_fmt CD (mkSpec false true false false false None (Some 0)) 0 = [43] /\
  c_fmt CD (mkSpec false true false false false None (Some 0)) 0 = [43].
Proof. vm_compute. auto. Qed.
Example sharp_o_prec0_zero : (* string.format("%#.0o", 0): was "", C: "0" *)
  go_fmt_sprintf Co (mkSpec false false false true false None (Some 0)) 0 = [] /\
  go_fmt Co (mkSpec false false false true false None (Some 0)) 0 = [48] /\
  c_fmt Co (mkSpec false false false true false None (Some 0)) 0 = [48].
Proof. vm_compute. auto. Qed.

Definition defect_class := defect_class_src.

Lemma sprintf_path_partial : forall c sp n,
  c_defined c sp = true -> defect_class c sp n = false -> go_fmt_sprintf c sp n = c_fmt c sp n.
Proof.
  intros c [mi pl spc sh ze wd pr] n HD HC. unfold defect_class, defect_class_src, c_defined in *. cbn [sharp prec plus space wid] in *.
  apply orb_false_iff in HC. destruct HC as [-> HC].
  unfold go_fmt_sprintf, c_fmt, width_of, wid_present. cbn [sharp prec plus space wid minus zero].
  set (u := magnitude c n) in *. set (w := match wd with Some w => w | None => 0 end).
  set (ds := digits (upper_of c) (base_of c) u).
  pose proof (len_digits (upper_of c) (base_of c) u) as LD. fold ds in LD.
  assert (NEG : forall b : bool, u = 0 -> is_signed c && (n <? 0) = false).
  { intros _ Hu. unfold u, magnitude in Hu. destruct (is_signed c); [|reflexivity]. cbn. apply Z.ltb_ge. lia. }
  assert (SG : is_signed c = false -> pl = false /\ spc = false).
  { intros Hs. rewrite Hs in HD. cbn [orb] in HD. repeat (apply andb_prop in HD; destruct HD as [HD ?]).
    apply andb_prop in H0. destruct H0 as [A B]. split; [now destruct pl|now destruct spc]. }
  assert (SIGN : (if is_signed c && (n <? 0) then [45] else if pl then [43] else if spc then [32] else [])
               = (if is_signed c && (n <? 0) then [45] else if is_signed c && pl then [43] else if is_signed c && spc then [32] else [])).
  { destruct (is_signed c) eqn:S; [reflexivity|]. destruct (SG eq_refl) as [-> ->]. reflexivity. }
  rewrite !app_nil_r.
  destruct pr as [p|].
  - (* explicit precision *)
    assert (Hp : 0 <= p).
    { repeat (apply andb_prop in HD; destruct HD as [HD ?]). destruct wd; apply Z.leb_le; auto.
      all: try (apply andb_prop in HD; tauto). }
    replace (ze && negb mi && (match wd with Some _ => true | None => false end) && false) with false by (now rewrite andb_false_r).
    destruct (Z.eqb_spec p 0) as [->|NZ]; cbn [andb].
    + destruct (Z.eqb_spec u 0) as [U0|UN].
      * (* nothing but padding *)
        cbn [andb] in HC. apply orb_false_iff in HC. destruct HC as [-> ->].
        rewrite (NEG true U0). rewrite !andb_false_r. cbn [app]. change (len []) with 0. rewrite (rep_nil 48 (0 - 0)) by lia. cbn [app].
        unfold padr, padl. change (len []) with 0. replace (w - 0) with w by lia. cbn [app].
        destruct mi; [reflexivity|now rewrite app_nil_r].
      * rewrite SIGN. reflexivity.
    + rewrite SIGN. reflexivity.
  - (* no precision: C's default precision 1 adds nothing, Go's zero flag becomes a precision *)
    cbn [andb Z.eqb]. rewrite andb_true_r.
    rewrite (rep_nil 48 (1 - len ds)) by lia. cbn [app]. rewrite SIGN.
    set (sg := if is_signed c && (n <? 0) then [45] else if is_signed c && pl then [43] else if is_signed c && spc then [32] else []).
    assert (LS : len sg = if is_signed c && (n <? 0) || pl || spc then 1 else 0).
    { subst sg. destruct (is_signed c) eqn:S.
      - cbn [andb]. destruct (n <? 0), pl, spc; reflexivity.
      - destruct (SG eq_refl) as [-> ->]. reflexivity. }
    destruct (ze && negb mi && match wd with Some _ => true | None => false end) eqn:Z.
    + apply andb_prop in Z. destruct Z as [Z _]. apply andb_prop in Z. destruct Z as [_ M]. destruct mi; [discriminate|].
      unfold padl. rewrite <- LS.
      rewrite (rep_nil 32) by (rewrite !len_app, len_rep; lia).
      cbn [app]. f_equal. f_equal. f_equal. lia.
    + rewrite (rep_nil 48 (0 - len ds)) by lia. reflexivity.
Qed.

(* string.format's %d %i %u %x %X %o = C printf, for every flag combination C defines, every
   width, precision and integer argument *)
Theorem format_int_directives : forall c sp n,
  c_defined c sp = true -> go_fmt c sp n = c_fmt c sp n.
Proof.
  intros c sp n HD. unfold go_fmt. destruct (use_c c sp n) eqn:U; [reflexivity|].
  apply sprintf_path_partial; [exact HD|].
  unfold defect_class, defect_class_src. unfold c_defined in HD. unfold use_c in U.
  repeat (apply andb_prop in HD; destruct HD as [HD ?]).
  destruct c; cbn [is_signed orb negb] in *.
  - (* d *) replace (magnitude CD n =? 0) with (n =? 0) by (unfold magnitude; cbn; destruct (Z.eqb_spec n 0), (Z.eqb_spec (Z.abs n) 0); lia).
    rewrite U. destruct (sharp sp); [discriminate|reflexivity].
  - replace (magnitude CI n =? 0) with (n =? 0) by (unfold magnitude; cbn; destruct (Z.eqb_spec n 0), (Z.eqb_spec (Z.abs n) 0); lia).
    rewrite U. destruct (sharp sp); [discriminate|reflexivity].
  - (* u *) destruct (sharp sp); [discriminate|]. apply andb_prop in H0. destruct H0 as [A B].
    destruct (plus sp), (space sp); try discriminate. cbn. now rewrite andb_false_r.
  - rewrite U. apply andb_prop in H0. destruct H0 as [A B]. destruct (plus sp), (space sp); try discriminate. cbn. now rewrite andb_false_r.
  - rewrite U. apply andb_prop in H0. destruct H0 as [A B]. destruct (plus sp), (space sp); try discriminate. cbn. now rewrite andb_false_r.
  - rewrite U. apply andb_prop in H0. destruct H0 as [A B]. destruct (plus sp), (space sp); try discriminate. cbn. now rewrite andb_false_r.
Qed.

(* %c and %s: byte-counted width and precision, as in C *)
Theorem format_c_directive : forall sp n, go_fmt_c sp n = c_fmt_c sp n.
Proof. intros sp n. unfold go_fmt_c, go_fmt_s, c_fmt_c. reflexivity. Qed.

Theorem format_s_directive : forall sp s,
  (match prec sp with Some p => 0 <= p | None => True end) -> go_fmt_s sp s = c_fmt_s sp s.
Proof.
  intros sp s Hp. unfold go_fmt_s, c_fmt_s. destruct (prec sp) as [p|]; [|reflexivity].
  destruct (Z.ltb_spec p (len s)); [reflexivity|].
  rewrite firstn_all2 by (unfold len in *; lia). reflexivity.
Qed.
