(* Pack/QuoteProofs.v — what is proved about %q of strings. *)
From Coq Require Import ZArith List Bool Lia.
From GV Require Import Pack.QuoteModel.
Import ListNotations.
Open Scope Z_scope.

(* The round trip load(%q s) = s is FALSE of the code as it stands: whenever IsPrint
   rejects a valid multi-byte rune, Go writes \uXXXX, which is not a Lua escape.
   Witness: U+200B ZERO WIDTH SPACE (bytes e2 80 8b). *)
Lemma quote_load_string_refuted :
  forall is_print, is_print 8203 = false ->
  exists s, lua_string_literal (quote is_print s) <> Some s.
Proof.
  intros ip Hp. exists [226; 128; 139].
  unfold quote. cbn [length quote_go]. 
  change (decode_rune [226; 128; 139]) with (8203, 3%nat).
  cbn [Nat.eqb andb]. unfold escape_rune.
  change ((8203 =? 34) || (8203 =? 92)) with false. cbv iota. rewrite Hp.
  vm_compute. discriminate.
Qed.

Fixpoint list_eqb (x y : list Z) : bool :=
  match x, y with [], [] => true | p :: q, r :: t => (p =? r) && list_eqb q t | _, _ => false end.

(* the hypotheses of a partial theorem would be satisfiable: the round trip does hold on
   representatives of every other escape class *)
Example quote_load_examples :
  let ip := is_print_tab [233] in
  forallb (fun s => match lua_string_literal (quote ip s) with Some s' => list_eqb s s' | None => false end)
    [[]; [0]; [7; 8; 9; 10; 11; 12; 13]; [34; 92; 39]; [97; 0; 49]; [127; 128; 255]; [195; 169]; [195]; [92; 120; 52; 49];
     [27; 48; 48]; [237; 160; 128]; [192; 128]; [244; 144; 128; 128]] = true.
Proof. vm_compute. reflexivity. Qed.
