(* Pack/QuoteProofs.v — what is proved about %q of strings. *)
From Coq Require Import ZArith List Bool Lia.
From GV Require Import Pack.QuoteModel.
Import ListNotations.
Open Scope Z_scope.

(* Round 1 proved quote_load_string_refuted here (witness U+200B: Go's \\u200b is not Lua).
   After the repair of format.go (quoteString writes \\u{200b}) the former witness round-trips
   whatever IsPrint says about it. *)
Lemma quote_load_u200b :
  forall is_print, lua_string_literal (quote is_print [226; 128; 139]) = Some [226; 128; 139].
Proof.
  intros ip. unfold quote. cbn [length quote_go].
  change (decode_rune [226; 128; 139]) with (8203, 3%nat).
  cbn [Nat.eqb andb]. unfold escape_rune.
  change ((8203 =? 34) || (8203 =? 92)) with false. cbv iota.
  destruct (ip 8203); vm_compute; reflexivity.
Qed.

Fixpoint list_eqb (x y : list Z) : bool :=
  match x, y with [], [] => true | p :: q, r :: t => (p =? r) && list_eqb q t | _, _ => false end.

(* the hypotheses of a partial theorem would be satisfiable: the round trip does hold on
   representatives of every other escape class *)
Example quote_load_examples :
  let ip := is_print_tab [233] in   (* U+200B, U+0085, U+10B47D below are not printable *)
  forallb (fun s => match lua_string_literal (quote ip s) with Some s' => list_eqb s s' | None => false end)
    [[]; [0]; [7; 8; 9; 10; 11; 12; 13]; [34; 92; 39]; [97; 0; 49]; [127; 128; 255]; [195; 169]; [195]; [92; 120; 52; 49];
     [27; 48; 48]; [237; 160; 128]; [192; 128]; [244; 144; 128; 128]; [226; 128; 139; 49]; [194; 133; 97]; [244; 139; 145; 189; 125]] = true.
Proof. vm_compute. reflexivity. Qed.
