(* Pack/IntRound.v — the integer core of unpack∘pack: for every width 1..16, both byte
   orders, signed and unsigned, what packInt/packUint write is read back by
   readVarInt/readVarUint as the same integer (proofs). *)
From Coq Require Import ZArith List Bool Lia.
From GV Require Import Pack.NumStrModel Pack.Model Pack.Bytes.
Import ListNotations.
Open Scope Z_scope.

Lemma len_app a b : len (a ++ b) = len a + len b.
Proof. unfold len. rewrite app_length. lia. Qed.
Lemma len_nonneg a : 0 <= len a.
Proof. unfold len. lia. Qed.

Lemma take_app (bs t : list Z) : take (len bs) (bs ++ t) = bs.
Proof.
  unfold take, len. rewrite Nat2Z.id, firstn_app, Nat.sub_diag, firstn_all2 by lia.
  cbn [firstn]. apply app_nil_r.
Qed.

Lemma skip_app (bs t : list Z) : skipn (Z.to_nat (len bs)) (bs ++ t) = t.
Proof.
  unfold len. rewrite Nat2Z.id, skipn_app, skipn_all2, Nat.sub_diag by lia. reflexivity.
Qed.

Lemma skipn_skipn' (A : Type) (a b : nat) (l : list A) : skipn b (skipn a l) = skipn (a + b) l.
Proof.
  revert l; induction a; intros l; cbn [skipn Nat.add]; [reflexivity|].
  destruct l; [now rewrite !skipn_nil|]. apply IHa.
Qed.

Lemma u_adv_rest us bs t : u_rest us = bs ++ t -> u_rest (u_adv us (len bs)) = t.
Proof. intros E. unfold u_adv. cbn [u_rest]. rewrite E. apply skip_app. Qed.

Lemma u_adv_adv us a b : 0 <= a -> 0 <= b -> u_adv (u_adv us a) b = u_adv us (a + b).
Proof.
  intros. unfold u_adv. cbn [u_rd u_fmt u_j u_rest u_vals]. f_equal; [lia|].
  rewrite skipn_skipn'. f_equal. lia.
Qed.

Lemma u_read_app us bs t n k :
  u_rest us = bs ++ t -> n = len bs -> u_read n us k = k bs (u_adv us n).
Proof.
  intros E ->. unfold u_read. rewrite E, len_app. pose proof (len_nonneg t).
  destruct (Z.leb_spec (len bs) (len bs + len t)); [|lia]. now rewrite take_app.
Qed.

Lemma u_read_short_app us bs t n k :
  u_rest us = bs ++ t -> n = len bs -> u_read_short n us k = k bs (u_adv us n).
Proof.
  intros E ->. unfold u_read_short. rewrite E, len_app. pose proof (len_nonneg t).
  destruct (Z.leb_spec (len bs) (len bs + len t)); [|lia]. now rewrite take_app.
Qed.

Lemma u_skip_app us bs t n k :
  u_rest us = bs ++ t -> n = len bs -> u_skip n us k = k (u_adv us n).
Proof.
  intros E ->. unfold u_skip. rewrite E, len_app. pose proof (len_nonneg t).
  destruct (Z.leb_spec (len bs) (len bs + len t)); [|lia]. reflexivity.
Qed.

Lemma forallb_repeat (f : Z -> bool) x n : f x = true -> forallb f (repeat x n) = true.
Proof. intros. induction n; cbn; auto. rewrite H, IHn. reflexivity. Qed.

Lemma len_repeat (x : Z) n : len (repeat x n) = Z.of_nat n.
Proof. unfold len. now rewrite repeat_length. Qed.

Lemma u_skip0_app us n t k :
  u_rest us = repeat 0 n ++ t ->
  u_skip0 (Z.of_nat n) us k = k (u_adv us (Z.of_nat n)).
Proof.
  intros E. unfold u_skip0. rewrite E, len_app, len_repeat. pose proof (len_nonneg t).
  destruct (Z.leb_spec (Z.of_nat n) (Z.of_nat n + len t)); [|lia].
  rewrite <- (len_repeat 0 n) at 1. rewrite take_app.
  rewrite forallb_repeat by reflexivity. reflexivity.
Qed.

Lemma u_sign_ext_app us x n t k :
  (0 < n)%nat -> x = 0 \/ x = 255 -> u_rest us = repeat x n ++ t ->
  u_sign_ext (Z.of_nat n) us k = k x (u_adv us (Z.of_nat n)).
Proof.
  intros Hn Hx E. unfold u_sign_ext. rewrite E, len_app, len_repeat. pose proof (len_nonneg t).
  destruct (Z.ltb_spec 0 (Z.of_nat n)); [|lia].
  destruct (Z.leb_spec (Z.of_nat n) (Z.of_nat n + len t)); [|lia].
  cbn [andb]. rewrite <- (len_repeat x n) at 1. rewrite take_app.
  destruct n; [lia|]. cbn [repeat].
  rewrite forallb_repeat by apply Z.eqb_refl.
  destruct Hx as [-> | ->]; reflexivity.
Qed.

(* ------------------------------------------------------------ truncated widths *)
Lemma nth_le_bytes k i v : (i < k)%nat -> nth i (le_bytes k v) 0 = (v / 256 ^ Z.of_nat i) mod 256.
Proof.
  revert i v; induction k; intros i v Hi; [lia|].
  cbn [le_bytes]. destruct i.
  - cbn [nth]. change (Z.of_nat 0) with 0. now rewrite Z.pow_0_r, Z.div_1_r.
  - cbn [nth]. rewrite IHk by lia. rewrite pow256_S, Z.div_div by lia. reflexivity.
Qed.

Lemma firstn_le_bytes n m v : firstn n (le_bytes (n + m) v) = le_bytes n v.
Proof.
  rewrite le_bytes_app, firstn_app, le_bytes_length, Nat.sub_diag. cbn [firstn].
  rewrite firstn_all2 by (rewrite le_bytes_length; lia). apply app_nil_r.
Qed.

Lemma pow256_pos k : 0 < 256 ^ Z.of_nat k.
Proof. apply Z.pow_pos_nonneg; lia. Qed.

(* top byte of the k-byte encoding is >= 128 iff the unsigned value is in the upper half *)
Lemma top_byte k v : (0 < k)%nat ->
  (128 <=? nth (k - 1) (le_bytes k v) 0) = (2 ^ (8 * Z.of_nat k - 1) <=? v mod 256 ^ Z.of_nat k).
Proof.
  intros Hk. rewrite nth_le_bytes by lia.
  destruct k; [lia|]. replace (S k - 1)%nat with k by lia.
  rewrite pow256_S.
  replace (2 ^ (8 * Z.of_nat (S k) - 1)) with (256 ^ Z.of_nat k * 128).
  2:{ rewrite <- pow8. change 128 with (2 ^ 7). rewrite <- Z.pow_add_r by lia. f_equal. lia. }
  pose proof (pow256_pos k) as P. set (a := 256 ^ Z.of_nat k) in *.
  rewrite (Z.mul_comm 256 a), Z.rem_mul_r by lia.
  set (q := (v / a) mod 256). pose proof (Z.mod_pos_bound v a P).
  destruct (Z.leb_spec 128 q), (Z.leb_spec (a * 128) (v mod a + a * q)); try reflexivity; nia.
Qed.

Lemma rev_repeat (x : Z) n : rev (repeat x n) = repeat x n.
Proof.
  induction n; [reflexivity|]. cbn [repeat rev]. rewrite IHn.
  clear. induction n; [reflexivity|]. cbn [repeat app]. now rewrite IHn.
Qed.

(* sign/zero extension of a k-byte little-endian encoding to 8 bytes *)
Lemma ext_signed k v : (0 < k < 8)%nat ->
  - 2 ^ (8 * Z.of_nat k - 1) <= v < 2 ^ (8 * Z.of_nat k - 1) ->
  let bs := le_bytes k v in
  let top := nth (k - 1) bs 0 in
  sgn 8 (le_val (bs ++ repeat (if 128 <=? top then 255 else 0) (8 - k))) = v.
Proof.
  intros Hk Hv bs top. subst top bs. rewrite top_byte by lia.
  rewrite le_val_app, le_bytes_length, le_val_le_bytes.
  assert (E : 256 ^ Z.of_nat k = 2 * 2 ^ (8 * Z.of_nat k - 1)).
  { rewrite <- pow8. rewrite <- Z.pow_succ_r by lia. f_equal. lia. }
  assert (E8 : 256 ^ Z.of_nat k * 256 ^ Z.of_nat (8 - k) = 18446744073709551616).
  { rewrite <- Z.pow_add_r by lia. replace (Z.of_nat k + Z.of_nat (8 - k)) with 8 by lia. reflexivity. }
  set (h := 2 ^ (8 * Z.of_nat k - 1)) in *.
  assert (0 < h) by (apply Z.pow_pos_nonneg; lia).
  set (a := 256 ^ Z.of_nat k) in *. set (b := 256 ^ Z.of_nat (8 - k)) in *.
  unfold sgn. change (2 ^ (8 * Z.of_nat 8 - 1)) with 9223372036854775808.
  change (2 ^ (8 * Z.of_nat 8)) with 18446744073709551616.
  destruct (Z_lt_le_dec v 0).
  - assert (M : v mod a = v + a).
    { rewrite <- (Z.mod_add v 1) by lia. rewrite Z.mul_1_l. apply Z.mod_small. lia. }
    rewrite M. destruct (Z.leb_spec h (v + a)); [|lia].
    rewrite le_val_repeat255. fold b.
    destruct (Z.ltb_spec (v + a + a * (b - 1)) 9223372036854775808); nia.
  - rewrite Z.mod_small by lia. destruct (Z.leb_spec h v); [lia|].
    rewrite le_val_repeat0.
    destruct (Z.ltb_spec (v + a * 0) 9223372036854775808); nia.
Qed.

Lemma ext_unsigned k v : (0 < k < 8)%nat -> 0 <= v < 2 ^ (8 * Z.of_nat k) ->
  to_i64 (le_val (le_bytes k v ++ zeros (8 - Z.of_nat k))) = v.
Proof.
  intros Hk Hv. unfold zeros. rewrite le_val_app, le_val_repeat0, le_val_le_bytes.
  rewrite pow8 in Hv. rewrite Z.mod_small by lia. rewrite Z.mul_0_r, Z.add_0_r.
  apply to_i64_small. unfold H.
  assert (256 ^ Z.of_nat k <= 256 ^ 7) by (apply Z.pow_le_mono_r; lia).
  change (256 ^ 7) with 72057594037927936 in *. lia.
Qed.

(* ------------------------------------------------------------ the round trips *)
Lemma p_bounds_inv lo hi v k r : p_bounds lo hi v k = PCont r -> lo <= v <= hi /\ k = PCont r.
Proof.
  unfold p_bounds. destruct (Z.leb_spec lo v), (Z.leb_spec v hi); cbn [andb]; intros E; try discriminate.
  split; [lia|exact E].
Qed.

Lemma len_enc lt k v : len (enc lt k v) = Z.of_nat k.
Proof. unfold len. now rewrite enc_length. Qed.

Lemma mod64_neg v : - Model.H <= v < 0 -> v mod W = v + W.
Proof.
  intros. unfold Model.H, W in *. rewrite <- (Z.mod_add v 1) by lia. rewrite Z.mul_1_l. apply Z.mod_small. lia.
Qed.

(* what packInt writes, readVarInt reads back *)
Theorem int_roundtrip : forall (k : nat) v s s',
  (1 <= k <= 16)%nat -> - Model.H <= v < Model.H ->
  packInt (Z.of_nat k) v s = PCont s' ->
  exists bs, s' = p_write s bs /\
    forall us t kont, little (u_rd us) = little (p_rd s) -> u_rest us = bs ++ t ->
      readVarInt (Z.of_nat k) us kont = kont v (u_adv us (len bs)).
Proof.
  intros k v s s' Hk Hv HP.
  unfold packInt in HP. set (lt := little (p_rd s)) in *.
  destruct (Z.eqb_spec (Z.of_nat k) 4) as [E4|N4].
  { apply p_bounds_inv in HP. destruct HP as [B HP]. injection HP as HP; subst s'.
    exists (enc lt 4 v). split; [reflexivity|]. intros us t kont Hl E.
    unfold readVarInt. rewrite Hl. fold lt. rewrite E4. cbn [Z.eqb Pos.eqb].
    rewrite (u_read_app us _ _ 4 _ E) by (now rewrite len_enc).
    rewrite dec_enc, sgn_mod by (cbn; lia). now rewrite len_enc. }
  destruct (Z.eqb_spec (Z.of_nat k) 8) as [E8|N8].
  { injection HP as HP; subst s'.
    exists (enc lt 8 v). split; [reflexivity|]. intros us t kont Hl E.
    unfold readVarInt. rewrite Hl. fold lt. rewrite E8. cbn [Z.eqb Pos.eqb].
    rewrite (u_read_app us _ _ 8 _ E) by (now rewrite len_enc).
    rewrite dec_enc, sgn_mod by (cbn; unfold Model.H in Hv; lia). now rewrite len_enc. }
  destruct (Z.leb_spec 8 (Z.of_nat k)) as [G8|L8].
  { replace (Z.to_nat (Z.of_nat k - 8)) with (k - 8)%nat in HP by lia.
    injection HP as HP; subst s'.
    set (x := if v <? 0 then 255 else 0).
    assert (Hx : x = 0 \/ x = 255) by (subst x; destruct (v <? 0); auto).
    eexists. split; [reflexivity|]. intros us t kont Hl E.
    unfold readVarInt. rewrite Hl. fold lt.
    destruct (Z.eqb_spec (Z.of_nat k) 4); [lia|]. destruct (Z.eqb_spec (Z.of_nat k) 8); [lia|].
    destruct (Z.ltb_spec 8 (Z.of_nat k)); [|lia].
    replace (Z.of_nat k - 8) with (Z.of_nat (k - 8)) by lia.
    assert (FIN : forall us',
       (if x =? 0 then if dec lt (enc lt 8 v) <=? maxint then kont (dec lt (enc lt 8 v)) us' else UFail EDoesNotFit
        else if maxint <? dec lt (enc lt 8 v) then kont (dec lt (enc lt 8 v) - W) us' else UFail EDoesNotFit)
       = kont v us').
    { intros us'. rewrite dec_enc. change (256 ^ Z.of_nat 8) with W. subst x.
      destruct (Z.ltb_spec v 0).
      - rewrite mod64_neg by lia. cbn [Z.eqb]. unfold maxint, Model.H, W in *.
        destruct (Z.ltb_spec 9223372036854775807 (v + 18446744073709551616)); [|lia]. f_equal. lia.
      - unfold maxint, Model.H, W in *. rewrite Z.mod_small by lia. cbn [Z.eqb].
        destruct (Z.leb_spec v 9223372036854775807); [reflexivity|lia]. }
    destruct lt.
    - rewrite <- app_assoc in E.
      rewrite (u_read_app us _ _ 8 _ E) by (now rewrite len_enc).
      pose proof (u_adv_rest us _ _ E) as E'. rewrite len_enc in E'.
      rewrite (u_sign_ext_app _ x (k - 8) t _); [ | lia | exact Hx | exact E' ].
      rewrite FIN, u_adv_adv by lia. rewrite len_app, len_enc, len_repeat. reflexivity.
    - rewrite <- app_assoc in E.
      rewrite (u_sign_ext_app us x (k - 8) (enc false 8 v ++ t)); [ | lia | exact Hx | exact E ].
      pose proof (u_adv_rest us _ _ E) as E'. rewrite len_repeat in E'.
      rewrite (u_read_app _ _ _ 8 _ E') by (now rewrite len_enc).
      rewrite FIN, u_adv_adv by lia. rewrite len_app, len_enc, len_repeat. reflexivity. }
  (* 1..7 bytes, not 4 *)
  replace (Z.to_nat (8 - Z.of_nat k)) with (8 - k)%nat in HP by lia.
  rewrite Nat2Z.id in HP.
  remember (8 - k)%nat as m eqn:Em.
  apply p_bounds_inv in HP. destruct HP as [B HP]. injection HP as HP; subst s'.
  assert (B' : - 2 ^ (8 * Z.of_nat k - 1) <= v < 2 ^ (8 * Z.of_nat k - 1)) by lia.
  assert (F : firstn k (le_bytes 8 v) = le_bytes k v).
  { replace 8%nat with (k + (8 - k))%nat by lia. apply firstn_le_bytes. }
  eexists. split; [reflexivity|]. intros us t kont Hl E.
  unfold readVarInt. rewrite Hl. fold lt.
  destruct (Z.eqb_spec (Z.of_nat k) 4); [lia|]. destruct (Z.eqb_spec (Z.of_nat k) 8); [lia|].
  destruct (Z.ltb_spec 8 (Z.of_nat k)); [lia|].
  replace (Z.to_nat (8 - Z.of_nat k)) with m by lia.
  replace (Z.to_nat (Z.of_nat k - 1)) with (k - 1)%nat by lia.
  destruct lt; cbv beta iota in *.
  - unfold enc in *. rewrite F in *.
    rewrite (u_read_short_app us _ _ _ _ E) by (unfold len; now rewrite le_bytes_length).
    unfold dec. subst m. rewrite ext_signed by (auto; lia).
    unfold len. now rewrite le_bytes_length.
  - unfold enc in *. rewrite skipn_rev, le_bytes_length in *.
    replace (8 - m)%nat with k in * by lia. rewrite F in *.
    rewrite (u_read_short_app us _ _ _ _ E) by (unfold len; now rewrite rev_length, le_bytes_length).
    unfold dec. rewrite rev_app_distr, rev_involutive, rev_repeat.
    replace (nth 0 (rev (le_bytes k v)) 0) with (nth (k - 1) (le_bytes k v) 0).
    2:{ rewrite rev_nth by (rewrite le_bytes_length; lia). rewrite le_bytes_length. f_equal; lia. }
    subst m. rewrite ext_signed by (auto; lia).
    unfold len. now rewrite rev_length, le_bytes_length.
Qed.

Lemma to_i64_mod v : - Model.H <= v < Model.H -> to_i64 (v mod W) = v.
Proof.
  intros Hv. rewrite <- (to_i64_small v Hv) at 2. unfold to_i64.
  rewrite Z.mod_mod by (unfold W; lia). reflexivity.
Qed.

(* what packUint writes, readVarUint reads back (as the int64 with the same 64 bits) *)
Theorem uint_roundtrip : forall (k : nat) v s s',
  (1 <= k <= 16)%nat -> - Model.H <= v < Model.H ->
  packUint (Z.of_nat k) v s = PCont s' ->
  exists bs, s' = p_write s bs /\
    forall us t kont, little (u_rd us) = little (p_rd s) -> u_rest us = bs ++ t ->
      readVarUint (Z.of_nat k) us kont = kont v (u_adv us (len bs)).
Proof.
  intros k v s s' Hk Hv HP.
  unfold packUint in HP. set (lt := little (p_rd s)) in *.
  destruct (Z.eqb_spec (Z.of_nat k) 4) as [E4|N4].
  { apply p_bounds_inv in HP. destruct HP as [B HP]. injection HP as HP; subst s'.
    exists (enc lt 4 v). split; [reflexivity|]. intros us t kont Hl E.
    unfold readVarUint. rewrite Hl. fold lt. rewrite E4. cbn [Z.eqb Pos.eqb].
    rewrite (u_read_app us _ _ 4 _ E) by (now rewrite len_enc).
    rewrite dec_enc, Z.mod_small by (cbn; lia). now rewrite len_enc. }
  destruct (Z.eqb_spec (Z.of_nat k) 8) as [E8|N8].
  { injection HP as HP; subst s'.
    exists (enc lt 8 v). split; [reflexivity|]. intros us t kont Hl E.
    unfold readVarUint. rewrite Hl. fold lt. rewrite E8. cbn [Z.eqb Pos.eqb].
    rewrite (u_read_app us _ _ 8 _ E) by (now rewrite len_enc).
    rewrite dec_enc. change (256 ^ Z.of_nat 8) with W. rewrite to_i64_mod by assumption. now rewrite len_enc. }
  destruct (Z.ltb_spec 8 (Z.of_nat k)) as [G8|L8].
  { replace (Z.to_nat (Z.of_nat k - 8)) with (k - 8)%nat in HP by lia.
    injection HP as HP; subst s'.
    eexists. split; [reflexivity|]. intros us t kont Hl E.
    unfold readVarUint. rewrite Hl. fold lt.
    destruct (Z.eqb_spec (Z.of_nat k) 4); [lia|]. destruct (Z.eqb_spec (Z.of_nat k) 8); [lia|].
    destruct (Z.ltb_spec 8 (Z.of_nat k)); [|lia].
    replace (Z.of_nat k - 8) with (Z.of_nat (k - 8)) by lia.
    destruct lt.
    - rewrite <- app_assoc in E.
      rewrite (u_read_app us _ _ 8 _ E) by (now rewrite len_enc).
      pose proof (u_adv_rest us _ _ E) as E'. rewrite len_enc in E'.
      rewrite (u_skip0_app _ (k - 8) t _ E').
      rewrite dec_enc. change (256 ^ Z.of_nat 8) with W. rewrite to_i64_mod by assumption.
      rewrite u_adv_adv by lia. rewrite len_app, len_enc, len_repeat. reflexivity.
    - rewrite <- app_assoc in E.
      rewrite (u_skip0_app us (k - 8) _ _ E).
      pose proof (u_adv_rest us _ _ E) as E'. rewrite len_repeat in E'.
      rewrite (u_read_app _ _ _ 8 _ E') by (now rewrite len_enc).
      rewrite dec_enc. change (256 ^ Z.of_nat 8) with W. rewrite to_i64_mod by assumption.
      rewrite u_adv_adv by lia. rewrite len_app, len_enc, len_repeat. reflexivity. }
  replace (Z.to_nat (8 - Z.of_nat k)) with (8 - k)%nat in HP by lia.
  rewrite Nat2Z.id in HP.
  remember (8 - k)%nat as m eqn:Em.
  apply p_bounds_inv in HP. destruct HP as [B HP]. injection HP as HP; subst s'.
  assert (B' : 0 <= v < 2 ^ (8 * Z.of_nat k)) by lia.
  assert (F : firstn k (le_bytes 8 v) = le_bytes k v).
  { replace 8%nat with (k + (8 - k))%nat by lia. apply firstn_le_bytes. }
  eexists. split; [reflexivity|]. intros us t kont Hl E.
  unfold readVarUint. rewrite Hl. fold lt.
  destruct (Z.eqb_spec (Z.of_nat k) 4); [lia|]. destruct (Z.eqb_spec (Z.of_nat k) 8); [lia|].
  destruct (Z.ltb_spec 8 (Z.of_nat k)); [lia|].
  destruct lt; cbv beta iota in *.
  - unfold enc in *. rewrite F in *.
    rewrite (u_read_short_app us _ _ _ _ E) by (unfold len; now rewrite le_bytes_length).
    unfold dec. rewrite ext_unsigned by (auto; lia).
    unfold len. now rewrite le_bytes_length.
  - unfold enc in *. rewrite skipn_rev, le_bytes_length in *.
    replace (8 - m)%nat with k in * by lia. rewrite F in *.
    rewrite (u_read_short_app us _ _ _ _ E) by (unfold len; now rewrite rev_length, le_bytes_length).
    unfold dec, zeros. rewrite rev_app_distr, rev_involutive, rev_repeat.
    fold (zeros (8 - Z.of_nat k)). rewrite ext_unsigned by (auto; lia).
    unfold len. now rewrite rev_length, le_bytes_length.
Qed.
