(* Pack/IntRound.v — the integer core of unpack∘pack: for every width 1..16, both byte
   orders, signed and unsigned, what packInt/packUint write is read back by
   readVarInt/readVarUint as the same integer (proofs). *)
From Coq Require Import ZArith List Bool Lia.
From GV Require Import Pack.NumStrModel Pack.Model Pack.Bytes.
Import ListNotations.
Open Scope Z_scope.

Lemma len_app a b : len (a ++ b) = len a + len b.
Proof. unfold len. rewrite app_length. lia. Qed.
Lemma len_nonneg a : 0 <= len a.
Proof. unfold len. lia. Qed.

Lemma slice_mid (w bs t : list Z) n :
  n = len bs -> slice (w ++ bs ++ t) (len w) n = bs.
Proof.
  intros ->. unfold slice, len. rewrite !Nat2Z.id.
  rewrite skipn_app, skipn_all2, Nat.sub_diag by lia. cbn [skipn app].
  rewrite firstn_app, Nat.sub_diag, firstn_all2 by lia. cbn [firstn]. apply app_nil_r.
Qed.

Section Read.
Variables (w bs t : list Z).
Let data := w ++ bs ++ t.

Lemma u_read_mid n us k :
  u_j us = len w -> n = len bs ->
  u_read data n us k = k bs (u_set_j us (len w + n)).
Proof.
  intros Hj Hn. unfold u_read. rewrite Hj. subst data.
  rewrite !len_app. pose proof (len_nonneg t).
  destruct (Z.leb_spec n (len w + (len bs + len t) - len w)); [|lia].
  rewrite slice_mid by assumption. reflexivity.
Qed.

Lemma u_read_short_mid n us k :
  u_j us = len w -> n = len bs ->
  u_read_short data n us k = k bs (u_set_j us (len w + n)).
Proof.
  intros Hj Hn. unfold u_read_short. rewrite Hj. subst data.
  rewrite !len_app. pose proof (len_nonneg t).
  destruct (Z.leb_spec n (len w + (len bs + len t) - len w)); [|lia].
  rewrite slice_mid by assumption. reflexivity.
Qed.
End Read.

Lemma forallb_repeat (f : Z -> bool) x n : f x = true -> forallb f (repeat x n) = true.
Proof. intros. induction n; cbn; auto. rewrite H, IHn. reflexivity. Qed.

Lemma u_skip0_mid w n t us k :
  u_j us = len w ->
  u_skip0 (w ++ repeat 0 n ++ t) (Z.of_nat n) us k = k (u_set_j us (len w + Z.of_nat n)).
Proof.
  intros Hj. unfold u_skip0. rewrite Hj, !len_app. pose proof (len_nonneg t).
  assert (L : len (repeat 0 n) = Z.of_nat n) by (unfold len; now rewrite repeat_length).
  rewrite L. destruct (Z.leb_spec (len w + Z.of_nat n) (len w + (Z.of_nat n + len t))); [|lia].
  rewrite slice_mid by (symmetry; exact L).
  rewrite forallb_repeat by reflexivity. reflexivity.
Qed.

Lemma u_sign_ext_mid w x n t us k :
  (0 < n)%nat -> x = 0 \/ x = 255 -> u_j us = len w ->
  u_sign_ext (w ++ repeat x n ++ t) (Z.of_nat n) us k = k x (u_set_j us (len w + Z.of_nat n)).
Proof.
  intros Hn Hx Hj. unfold u_sign_ext. rewrite Hj, !len_app. pose proof (len_nonneg t).
  assert (L : len (repeat x n) = Z.of_nat n) by (unfold len; now rewrite repeat_length).
  rewrite L.
  destruct (Z.ltb_spec 0 (Z.of_nat n)); [|lia].
  destruct (Z.leb_spec (len w + Z.of_nat n) (len w + (Z.of_nat n + len t))); [|lia].
  cbn [andb]. rewrite slice_mid by (symmetry; exact L).
  destruct n; [lia|]. cbn [repeat].
  rewrite forallb_repeat by apply Z.eqb_refl.
  destruct Hx as [-> | ->]; reflexivity.
Qed.

(* ------------------------------------------------------------ truncated widths *)
Lemma nth_le_bytes k i v : (i < k)%nat -> nth i (le_bytes k v) 0 = (v / 256 ^ Z.of_nat i) mod 256.
Proof.
  revert i v; induction k; intros i v Hi; [lia|].
  cbn [le_bytes]. destruct i.
  - cbn [nth]. change (Z.of_nat 0) with 0. now rewrite Z.pow_0_r, Z.div_1_r.
  - cbn [nth]. rewrite IHk by lia. rewrite pow256_S, Z.div_div by lia. reflexivity.
Qed.

Lemma firstn_le_bytes n m v : firstn n (le_bytes (n + m) v) = le_bytes n v.
Proof.
  rewrite le_bytes_app, firstn_app, le_bytes_length, Nat.sub_diag. cbn [firstn].
  rewrite firstn_all2 by (rewrite le_bytes_length; lia). apply app_nil_r.
Qed.

Lemma pow256_pos k : 0 < 256 ^ Z.of_nat k.
Proof. apply Z.pow_pos_nonneg; lia. Qed.

(* top byte of the k-byte encoding is >= 128 iff the unsigned value is in the upper half *)
Lemma top_byte k v : (0 < k)%nat ->
  (128 <=? nth (k - 1) (le_bytes k v) 0) = (2 ^ (8 * Z.of_nat k - 1) <=? v mod 256 ^ Z.of_nat k).
Proof.
  intros Hk. rewrite nth_le_bytes by lia.
  destruct k; [lia|]. replace (S k - 1)%nat with k by lia.
  rewrite pow256_S.
  replace (2 ^ (8 * Z.of_nat (S k) - 1)) with (256 ^ Z.of_nat k * 128).
  2:{ rewrite <- pow8. change 128 with (2 ^ 7). rewrite <- Z.pow_add_r by lia. f_equal. lia. }
  pose proof (pow256_pos k) as P. set (a := 256 ^ Z.of_nat k) in *.
  rewrite (Z.mul_comm 256 a), Z.rem_mul_r by lia.
  set (q := (v / a) mod 256). pose proof (Z.mod_pos_bound v a P).
  destruct (Z.leb_spec 128 q), (Z.leb_spec (a * 128) (v mod a + a * q)); try reflexivity; nia.
Qed.

Lemma rev_repeat (x : Z) n : rev (repeat x n) = repeat x n.
Proof.
  induction n; [reflexivity|]. cbn [repeat rev]. rewrite IHn.
  clear. induction n; [reflexivity|]. cbn [repeat app]. now rewrite IHn.
Qed.

(* sign/zero extension of a k-byte little-endian encoding to 8 bytes *)
Lemma ext_signed k v : (0 < k < 8)%nat ->
  - 2 ^ (8 * Z.of_nat k - 1) <= v < 2 ^ (8 * Z.of_nat k - 1) ->
  let bs := le_bytes k v in
  let top := nth (k - 1) bs 0 in
  sgn 8 (le_val (bs ++ repeat (if 128 <=? top then 255 else 0) (8 - k))) = v.
Proof.
  intros Hk Hv bs top. subst top bs. rewrite top_byte by lia.
  rewrite le_val_app, le_bytes_length, le_val_le_bytes.
  assert (E : 256 ^ Z.of_nat k = 2 * 2 ^ (8 * Z.of_nat k - 1)).
  { rewrite <- pow8. rewrite <- Z.pow_succ_r by lia. f_equal. lia. }
  assert (E8 : 256 ^ Z.of_nat k * 256 ^ Z.of_nat (8 - k) = 18446744073709551616).
  { rewrite <- Z.pow_add_r by lia. replace (Z.of_nat k + Z.of_nat (8 - k)) with 8 by lia. reflexivity. }
  set (h := 2 ^ (8 * Z.of_nat k - 1)) in *.
  assert (0 < h) by (apply Z.pow_pos_nonneg; lia).
  set (a := 256 ^ Z.of_nat k) in *. set (b := 256 ^ Z.of_nat (8 - k)) in *.
  unfold sgn. change (2 ^ (8 * Z.of_nat 8 - 1)) with 9223372036854775808.
  change (2 ^ (8 * Z.of_nat 8)) with 18446744073709551616.
  destruct (Z_lt_le_dec v 0).
  - assert (M : v mod a = v + a).
    { rewrite <- (Z.mod_add v 1) by lia. rewrite Z.mul_1_l. apply Z.mod_small. lia. }
    rewrite M. destruct (Z.leb_spec h (v + a)); [|lia].
    rewrite le_val_repeat255. fold b.
    destruct (Z.ltb_spec (v + a + a * (b - 1)) 9223372036854775808); nia.
  - rewrite Z.mod_small by lia. destruct (Z.leb_spec h v); [lia|].
    rewrite le_val_repeat0.
    destruct (Z.ltb_spec (v + a * 0) 9223372036854775808); nia.
Qed.

Lemma ext_unsigned k v : (0 < k < 8)%nat -> 0 <= v < 2 ^ (8 * Z.of_nat k) ->
  to_i64 (le_val (le_bytes k v ++ zeros (8 - Z.of_nat k))) = v.
Proof.
  intros Hk Hv. unfold zeros. rewrite le_val_app, le_val_repeat0, le_val_le_bytes.
  rewrite pow8 in Hv. rewrite Z.mod_small by lia. rewrite Z.mul_0_r, Z.add_0_r.
  apply to_i64_small. unfold H.
  assert (256 ^ Z.of_nat k <= 256 ^ 7) by (apply Z.pow_le_mono_r; lia).
  change (256 ^ 7) with 72057594037927936 in *. lia.
Qed.

(* ------------------------------------------------------------ the round trips *)
Lemma p_bounds_inv lo hi v k r : p_bounds lo hi v k = PCont r -> lo <= v <= hi /\ k = PCont r.
Proof.
  unfold p_bounds. destruct (Z.leb_spec lo v), (Z.leb_spec v hi); cbn [andb]; intros E; try discriminate.
  split; [lia|exact E].
Qed.

Lemma app_assoc3 (a b c : list Z) : (a ++ b) ++ c = a ++ b ++ c.
Proof. now rewrite app_assoc. Qed.

Ltac zeqb := repeat match goal with
  | |- context [?a =? ?b] => destruct (Z.eqb_spec a b); [try lia|]
  | |- context [?a <=? ?b] => destruct (Z.leb_spec a b); [|try lia]
  | |- context [?a <? ?b] => destruct (Z.ltb_spec a b); [|try lia]
  end.

Theorem int_roundtrip : forall (k : nat) v s s' t us kont,
  (1 <= k <= 16)%nat -> - H <= v < H ->
  packInt (Z.of_nat k) v s = PCont s' ->
  little (u_rd us) = little (p_rd s) -> u_j us = len (p_w s) ->
  readVarInt (p_w s' ++ t) (Z.of_nat k) us kont = kont v (u_set_j us (len (p_w s'))).
Proof.
  intros k v s s' t us kont Hk Hv HP Hl Hj.
  unfold packInt in HP. unfold readVarInt. rewrite Hl.
  set (lt := little (p_rd s)) in *.
  destruct (Z.eqb_spec (Z.of_nat k) 4) as [E4|N4].
  { apply p_bounds_inv in HP. destruct HP as [B HP]. injection HP as HP; subst s'.
    cbn [p_put_int p_write p_w]. fold lt. rewrite app_assoc3.
    rewrite u_read_mid by (auto; unfold len; now rewrite enc_length).
    rewrite dec_enc, sgn_mod by (cbn; lia). rewrite len_app. unfold len at 3. rewrite enc_length. reflexivity. }
  destruct (Z.eqb_spec (Z.of_nat k) 8) as [E8|N8].
  { injection HP as HP; subst s'.
    cbn [p_put_int p_write p_w]. fold lt. rewrite app_assoc3.
    rewrite u_read_mid by (auto; unfold len; now rewrite enc_length).
    rewrite dec_enc, sgn_mod by (cbn; unfold Model.H in Hv; lia). rewrite len_app. unfold len at 3. rewrite enc_length. reflexivity. }
  destruct (Z.leb_spec 8 (Z.of_nat k)) as [G8|L8].
  { (* 9..16 bytes *)
    destruct (Z.ltb_spec 8 (Z.of_nat k)); [|lia].
    injection HP as HP; subst s'. cbn [p_write p_w].
    replace (Z.to_nat (Z.of_nat k - 8)) with (k - 8)%nat by lia.
    replace (Z.of_nat k - 8) with (Z.of_nat (k - 8)) by lia.
    set (x := if v <? 0 then 255 else 0).
    assert (Hx : x = 0 \/ x = 255) by (subst x; destruct (v <? 0); auto).
    assert (L8e : len (enc lt 8 v) = 8) by (unfold len; now rewrite enc_length).
    assert (Lf : len (repeat x (k - 8)) = Z.of_nat (k - 8)) by (unfold len; now rewrite repeat_length).
    assert (FIN : forall us', 
       (if x =? 0 then if dec lt (enc lt 8 v) <=? maxint then kont (dec lt (enc lt 8 v)) us' else UFail EDoesNotFit
        else if maxint <? dec lt (enc lt 8 v) then kont (dec lt (enc lt 8 v) - W) us' else UFail EDoesNotFit)
       = kont v us').
    { intros us'. rewrite dec_enc. change (256 ^ Z.of_nat 8) with W. unfold Model.H, W, maxint in *. subst x.
      destruct (Z.ltb_spec v 0).
      - replace (v mod 18446744073709551616) with (v + 18446744073709551616).
        2:{ symmetry. rewrite <- (Z.mod_add v 1) by lia. apply Z.mod_small. lia. }
        cbn [Z.eqb]. destruct (Z.ltb_spec 9223372036854775807 (v + 18446744073709551616)); [|lia].
        f_equal. lia.
      - rewrite Z.mod_small by lia. cbn [Z.eqb].
        destruct (Z.leb_spec v 9223372036854775807); [reflexivity|lia]. }
    destruct lt.
    - rewrite app_assoc3, <- (app_assoc (enc true 8 v)).
      rewrite u_read_mid by auto.
      pose proof (u_sign_ext_mid (p_w s ++ enc true 8 v) x (k - 8) t) as SE.
      rewrite <- app_assoc in SE.
      rewrite SE; [ | lia | assumption | unfold u_set_j; cbn [u_j]; rewrite len_app; lia ].
      rewrite FIN. unfold u_set_j. cbn [u_rd u_fmt u_vals u_j]. do 2 f_equal.
      rewrite !len_app. lia.
    - rewrite app_assoc3, <- (app_assoc (repeat x (k - 8))).
      rewrite u_sign_ext_mid by (auto; lia).
      pose proof (u_read_mid (p_w s ++ repeat x (k - 8)) (enc false 8 v) t 8) as RD.
      rewrite <- app_assoc in RD.
      rewrite RD; [ | unfold u_set_j; cbn [u_j]; rewrite len_app; lia | lia ].
      rewrite FIN. unfold u_set_j. cbn [u_rd u_fmt u_vals u_j]. do 2 f_equal.
      rewrite !len_app. lia. }
  (* 1..7 bytes, not 4 *)
  destruct (Z.ltb_spec 8 (Z.of_nat k)); [lia|].
  replace (Z.to_nat (8 - Z.of_nat k)) with (8 - k)%nat in HP by lia.
  rewrite Nat2Z.id in HP.
  replace (Z.to_nat (8 - Z.of_nat k)) with (8 - k)%nat by lia.
  remember (8 - k)%nat as m eqn:Em.
  apply p_bounds_inv in HP. destruct HP as [B HP]. injection HP as HP; subst s'.
  cbn [p_write p_w].
  assert (B' : - 2 ^ (8 * Z.of_nat k - 1) <= v < 2 ^ (8 * Z.of_nat k - 1)) by lia.
  assert (F : firstn k (le_bytes 8 v) = le_bytes k v).
  { replace 8%nat with (k + (8 - k))%nat by lia. apply firstn_le_bytes. }
  destruct lt; cbv beta iota.
  - unfold enc. rewrite F. rewrite app_assoc3.
    rewrite u_read_short_mid by (auto; unfold len; now rewrite le_bytes_length).
    unfold dec. replace (Z.to_nat (Z.of_nat k - 1)) with (k - 1)%nat by lia.
    subst m. rewrite ext_signed by (auto; lia).
    rewrite len_app. unfold len at 3. rewrite le_bytes_length. reflexivity.
  - unfold enc. rewrite skipn_rev, le_bytes_length.
    replace (8 - m)%nat with k by lia. rewrite F, app_assoc3.
    rewrite u_read_short_mid by (auto; unfold len; now rewrite rev_length, le_bytes_length).
    unfold dec. rewrite rev_app_distr, rev_involutive, rev_repeat.
    replace (nth 0 (rev (le_bytes k v)) 0) with (nth (k - 1) (le_bytes k v) 0).
    2:{ rewrite rev_nth by (rewrite le_bytes_length; lia). rewrite le_bytes_length. f_equal; lia. }
    subst m. rewrite ext_signed by (auto; lia).
    rewrite len_app. unfold len at 3. rewrite rev_length, le_bytes_length. reflexivity.
Qed.
