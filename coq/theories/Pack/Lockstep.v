(* Pack/Lockstep.v — whole-format unpack∘pack: the two option loops run in lockstep (proofs). *)
From Coq Require Import ZArith List Bool Lia.
From GV Require Import Pack.NumStrModel Pack.NumStrProofs Pack.Model Pack.Bytes Pack.IntRound.
Import ListNotations.
Open Scope Z_scope.

Definition val_ok (v : value) : Prop :=
  match v with
  | VInt n => - Model.H <= n < Model.H
  | VFlt b => 0 <= b < W
  | VStr s => len s < Model.H
  | VNil => True
  end.

Definition pre (s : pst) : Prop := Forall val_ok (p_vals s) /\ 0 < maxAl (p_rd s).

Definition R (s : pst) (us : ust) : Prop :=
  p_rd s = u_rd us /\ p_fmt s = u_fmt us /\ u_j us = len (p_w s) /\ u_vals us = p_packed s.

(* [Sim P kp ku]: from a state satisfying P, when the pack continuation succeeds it has only
   appended some bytes b0, and the unpack continuation, started in a related state whose unread
   input begins with b0, succeeds in a related state having consumed exactly b0. *)
Definition Sim (P : pst -> Prop) (kp : pst -> pres) (ku : ust -> ures) : Prop :=
  forall s s1, pre s -> P s -> kp s = PCont s1 ->
    pre s1 /\ exists b0, p_w s1 = p_w s ++ b0 /\
      forall us t, R s us -> u_rest us = b0 ++ t ->
        exists us1, ku us = UCont us1 /\ R s1 us1 /\ u_rest us1 = t.

Definition T (s : pst) : Prop := True.
Definition NoAO (s : pst) : Prop := alignOnly (p_rd s) = false.

Lemma Sim_weaken (P Q : pst -> Prop) kp ku : (forall s, Q s -> P s) -> Sim P kp ku -> Sim Q kp ku.
Proof. intros HPQ HS s s1 Hpre HQ. apply HS; auto. Qed.

(* ------------------------------------------------------------ leaves *)
Lemma R_write_add s us bs v :
  R s us -> R (p_emit (p_write s bs) v) (u_add (u_adv us (len bs)) v).
Proof.
  intros (A & B & C & D). unfold R, p_emit, p_write, u_add, u_adv.
  cbn [p_rd p_fmt p_w p_packed u_rd u_fmt u_j u_vals]. rewrite len_app, C, D. auto.
Qed.

Lemma leaf_sim (P : pst -> Prop) (bsf : pst -> list Z) (v : value) (ku : ust -> ures) :
  (forall s us t, P s -> R s us -> u_rest us = bsf s ++ t ->
     ku us = UCont (u_add (u_adv us (len (bsf s))) v)) ->
  Sim P (fun s => PCont (p_emit (p_write s (bsf s)) v)) ku.
Proof.
  intros HK s s1 Hpre HP E. injection E as <-. split.
  { exact Hpre. }
  exists (bsf s). split; [reflexivity|]. intros us t HR Hrest.
  eexists. split; [apply (HK s us t HP HR Hrest)|]. split.
  - apply R_write_add, HR.
  - unfold u_add. cbn [u_rest]. apply u_adv_rest, Hrest.
Qed.

(* ------------------------------------------------------------ align *)
Lemma pad_to_range n pos : 0 < n -> 0 <= pad_to n pos.
Proof.
  intros. unfold pad_to. pose proof (Z.mod_pos_bound pos n H).
  destruct (Z.eqb_spec (pos mod n) 0); lia.
Qed.

Lemma len_zeros p : 0 <= p -> len (zeros p) = p.
Proof. intros. unfold zeros. rewrite len_repeat. lia. Qed.

Lemma pre_write s bs : pre s -> pre (p_write s bs).
Proof. auto. Qed.

Lemma sim_align (P : pst -> Prop) n kp ku :
  0 <= n ->
  (forall s bs, P s -> P (p_write s bs)) ->
  Sim (fun s => P s /\ NoAO s) kp ku ->
  Sim P (fun s => p_align n s kp) (fun us => u_align n us ku).
Proof.
  intros Hn HPw HS s s1 Hpre HP E. unfold p_align in E.
  assert (AO : forall (s0 : pst), p_rd s0 = p_rd s -> pre s0 -> P s0 ->
     (if alignOnly (p_rd s) then PCont (p_set_rd s0 (clear_ao (p_rd s))) else kp s0) = PCont s1 ->
     pre s1 /\ exists b1, p_w s1 = p_w s0 ++ b1 /\
       forall us0 t, R s0 us0 -> u_rest us0 = b1 ++ t ->
       exists us1, (if alignOnly (u_rd us0) then UCont (u_set_rd us0 (clear_ao (u_rd us0))) else ku us0) = UCont us1
                   /\ R s1 us1 /\ u_rest us1 = t).
  { intros s0 Erd Hpre0 HP0 E0.
    destruct (alignOnly (p_rd s)) eqn:EA.
    - injection E0 as <-. split.
      { destruct Hpre0 as [V M]. split; [exact V|]. cbn. rewrite <- Erd in *. exact M. }
      exists []. split; [cbn; now rewrite app_nil_r|].
      intros us0 t0 HR Hr. destruct HR as (A & B & C & D).
      rewrite <- A, Erd, EA. eexists. split; [reflexivity|]. split.
      + unfold R, p_set_rd, u_set_rd. cbn. auto.
      + exact Hr.
    - assert (NA : NoAO s0) by (unfold NoAO; now rewrite Erd).
      destruct (HS s0 s1 Hpre0 (conj HP0 NA) E0) as (Hp1 & b1 & Hb1 & Hu).
      split; [exact Hp1|]. exists b1. split; [exact Hb1|].
      intros us0 t0 HR Hr. destruct (Hu us0 t0 HR Hr) as (us1 & E1 & HR1 & Hr1).
      destruct HR as (A & _). rewrite <- A, Erd, EA. eauto. }
  destruct (Z.eqb_spec n 0) as [->|Nz].
  - destruct (AO s eq_refl Hpre HP E) as (Hp1 & b1 & Hb1 & Hu).
    split; [exact Hp1|]. exists b1. split; [exact Hb1|].
    intros us t HR Hr. unfold u_align. cbn [Z.eqb]. apply Hu; assumption.
  - set (n' := if maxAl (p_rd s) <? n then maxAl (p_rd s) else n) in *.
    destruct (is_pow2 n') eqn:PW; cbn [negb] in E; [|discriminate].
    assert (Hn' : 0 < n').
    { destruct Hpre as [_ M]. subst n'. destruct (Z.ltb_spec (maxAl (p_rd s)) n); lia. }
    set (p := pad_to n' (len (p_w s))) in *.
    pose proof (pad_to_range n' (len (p_w s)) Hn') as Hp0. fold p in Hp0.
    destruct (AO (p_write s (zeros p)) eq_refl (pre_write _ _ Hpre) (HPw _ _ HP) E)
      as (Hp1 & b1 & Hb1 & Hu).
    split; [exact Hp1|]. exists (zeros p ++ b1). split.
    { rewrite Hb1. cbn [p_write p_w]. now rewrite app_assoc. }
    intros us t HR Hr. unfold u_align.
    destruct (Z.eqb_spec n 0); [lia|].
    destruct HR as (A & B & C & D). rewrite <- A. fold n'. rewrite PW. cbn [negb]. rewrite C. fold p.
    assert (HR' : R (p_write s (zeros p)) (u_adv us p)).
    { unfold R, p_write, u_adv. cbn. rewrite len_app, len_zeros, C by lia. auto. }
    rewrite <- app_assoc in Hr.
    destruct (Z.eqb_spec p 0) as [Ep|Np].
    + assert (Z0 : zeros p = []) by (rewrite Ep; reflexivity).
      rewrite Z0 in *. cbn [app] in Hr.
      assert (HR0 : R (p_write s []) us).
      { unfold R, p_write. cbn. rewrite app_nil_r. auto. }
      destruct (Hu us t HR0 Hr) as (us1 & E1 & HR1 & Hr1).
      rewrite <- A in E1. eauto.
    + rewrite (u_skip_app us (zeros p) (b1 ++ t) p) by (auto; now rewrite len_zeros).
      pose proof (u_adv_rest us _ _ Hr) as Hr'. rewrite len_zeros in Hr' by lia.
      destruct (Hu (u_adv us p) t HR' Hr') as (us1 & E1 & HR1 & Hr1).
      cbn [u_adv u_rd] in E1. rewrite <- A in E1. eauto.
Qed.

(* ------------------------------------------------------------ taking the next value *)
Lemma float_to_int_range b n : float_to_int b = Some n -> - Model.H <= n < Model.H.
Proof.
  unfold float_to_int.
  destruct ((b / P52) mod 2048 =? 2047); [discriminate|].
  destruct ((b / P52) mod 2048 =? 0).
  { destruct (b mod P52 =? 0); [|discriminate]. intros E; injection E as <-. unfold Model.H; lia. }
  match goal with |- match ?m with _ => _ end = _ -> _ => destruct m as [a|]; [|discriminate] end.
  match goal with |- (if ?c then _ else _) = _ -> _ => destruct c eqn:C; [|discriminate] end.
  intros E; injection E as <-. apply andb_prop in C. destruct C as [C1 C2].
  apply Z.leb_le in C1. apply Z.ltb_lt in C2. lia.
Qed.

Definition pop_closed (P : pst -> Prop) : Prop := forall s vs, P s -> P (p_pop s vs).
Definition write_closed (P : pst -> Prop) : Prop := forall s bs, P s -> P (p_write s bs).

Lemma sim_next (P : pst -> Prop) (A : Type) (cv : value -> conv A) (okA : A -> Prop)
      (kp : A -> pst -> pres) ku :
  pop_closed P ->
  (forall v a, val_ok v -> cv v = CvOk a -> okA a) ->
  (forall a, okA a -> Sim P (kp a) ku) ->
  Sim P (fun s => p_next s (fun v s => match cv v with
                                       | CvOk n => kp n s | CvBad => PFail EBadType | CvUnmodelled => PFail EUnmodelled end)) ku.
Proof.
  intros Hpop Hok HS s s1 Hpre HP E. unfold p_next in E.
  destruct (p_vals s) as [|v vs] eqn:EV; [discriminate|].
  destruct Hpre as [V M]. rewrite EV in V. inversion V as [|? ? Vv Vvs]; subst.
  destruct (cv v) as [a| |] eqn:EC; try discriminate.
  assert (Hpre' : pre (p_pop s vs)) by (split; [exact Vvs|exact M]).
  destruct (HS a (Hok v a Vv EC) (p_pop s vs) s1 Hpre' (Hpop _ _ HP) E) as (Hp1 & b0 & Hb0 & Hu).
  split; [exact Hp1|]. exists b0. split; [exact Hb0|].
  intros us t HR Hr. apply Hu; [|exact Hr]. exact HR.
Qed.

Lemma sim_bounds (P : pst -> Prop) lo hi v kp ku :
  (lo <= v <= hi -> Sim P kp ku) -> Sim P (fun s => p_bounds lo hi v (kp s)) ku.
Proof.
  intros HS s s1 Hpre HP E. apply p_bounds_inv in E. destruct E as [B E]. exact (HS B s s1 Hpre HP E).
Qed.

(* ------------------------------------------------------------ integer leaves *)
Lemma sim_fixed_leaf (P : pst -> Prop) (k : nat) v (F : Z -> Z) :
  F (v mod 256 ^ Z.of_nat k) = v ->
  Sim P (fun s => PCont (p_emit (p_put_int k v s) (VInt v)))
        (fun us => u_read (Z.of_nat k) us (fun bs us' => UCont (u_add us' (VInt (F (dec (little (u_rd us')) bs)))))).
Proof.
  intros HF. unfold p_put_int.
  apply (leaf_sim P (fun s => enc (little (p_rd s)) k v) (VInt v)).
  intros s us t _ HR Hr. destruct HR as (A & _).
  rewrite (u_read_app us _ _ _ _ Hr) by (now rewrite len_enc).
  change (u_rd (u_adv us (Z.of_nat k))) with (u_rd us). rewrite <- A, dec_enc, HF, len_enc. reflexivity.
Qed.

Lemma sim_varint (P : pst -> Prop) (k : nat) v :
  (1 <= k <= 16)%nat -> - Model.H <= v < Model.H ->
  Sim P (fun s => match packInt (Z.of_nat k) v s with PCont s' => PCont (p_emit s' (VInt v)) | PFail e => PFail e end)
        (fun us => readVarInt (Z.of_nat k) us (fun v us' => UCont (u_add us' (VInt v)))).
Proof.
  intros Hk Hv s s1 Hpre HP E.
  destruct (packInt (Z.of_nat k) v s) as [s'|] eqn:EP; [|discriminate]. injection E as <-.
  destruct (int_roundtrip k v s s' Hk Hv EP) as (bs & -> & Hrd).
  split; [exact Hpre|]. exists bs. split; [reflexivity|]. intros us t HR Hr.
  destruct HR as (A & B & C & D).
  rewrite (Hrd us t _ (eq_sym (f_equal little A)) Hr).
  eexists. split; [reflexivity|]. split.
  - apply R_write_add. unfold R; auto.
  - unfold u_add. cbn [u_rest]. apply u_adv_rest, Hr.
Qed.

Lemma sim_varuint (P : pst -> Prop) (k : nat) v :
  (1 <= k <= 16)%nat -> - Model.H <= v < Model.H ->
  Sim P (fun s => match packUint (Z.of_nat k) v s with PCont s' => PCont (p_emit s' (VInt v)) | PFail e => PFail e end)
        (fun us => readVarUint (Z.of_nat k) us (fun v us' => UCont (u_add us' (VInt v)))).
Proof.
  intros Hk Hv s s1 Hpre HP E.
  destruct (packUint (Z.of_nat k) v s) as [s'|] eqn:EP; [|discriminate]. injection E as <-.
  destruct (uint_roundtrip k v s s' Hk Hv EP) as (bs & -> & Hrd).
  split; [exact Hpre|]. exists bs. split; [reflexivity|]. intros us t HR Hr.
  destruct HR as (A & B & C & D).
  rewrite (Hrd us t _ (eq_sym (f_equal little A)) Hr).
  eexists. split; [reflexivity|]. split.
  - apply R_write_add. unfold R; auto.
  - unfold u_add. cbn [u_rest]. apply u_adv_rest, Hr.
Qed.

(* ------------------------------------------------------------ options *)
Definition irange (n : Z) : Prop := - Model.H <= n < Model.H.
Lemma to_int_ok v a : val_ok v -> to_int v = CvOk a -> irange a.
Proof.
  destruct v; cbn; intros V E; try discriminate.
  - injection E as <-. exact V.
  - destruct (float_to_int bits) eqn:F; [|discriminate]. injection E as <-. eapply float_to_int_range; eauto.
Qed.
Definition frange (b : Z) : Prop := 0 <= b < W.
Lemma to_float_ok v a : val_ok v -> to_float v = CvOk a -> frange a.
Proof.
  destruct v; cbn; intros V E; try discriminate; injection E as <-.
  - apply Z.mod_pos_bound. unfold W; lia.
  - exact V.
Qed.
Definition srange (s : list Z) : Prop := len s < Model.H.
Lemma to_str_ok v a : val_ok v -> to_str v = CvOk a -> srange a.
Proof.
  destruct v; cbn; intros V E; try discriminate; injection E as <-.
  - unfold srange, len. pose proof (format_int_length n ltac:(unfold minint, maxint, Model.H in *; lia)).
    unfold Model.H. lia.
  - exact V.
Qed.

Ltac closed := unfold write_closed, pop_closed, T, NoAO; intros; cbn; try tauto; auto.
Ltac open_opt := unfold pack_opt, unpack_opt; cbn [Z.eqb Pos.eqb orb].
Ltac int_pre :=
  open_opt; apply sim_align; [lia | closed | ];
  unfold p_next_int; apply (sim_next _ Z to_int irange); [closed | exact to_int_ok | ].

Lemma opt_b : Sim T (pack_opt 98) (unpack_opt 98).
Proof. int_pre. intros v Hv. apply sim_bounds. intros HB. apply (sim_fixed_leaf _ 1%nat v (sgn 1)). apply sgn_mod; [lia | cbn; lia]. Qed.
Lemma opt_B : Sim T (pack_opt 66) (unpack_opt 66).
Proof. int_pre. intros v Hv. apply sim_bounds. intros HB. apply (sim_fixed_leaf _ 1%nat v to_i64).
  rewrite Z.mod_small by (cbn; lia). apply to_i64_small. unfold Model.H; lia. Qed.
Lemma opt_h : Sim T (pack_opt 104) (unpack_opt 104).
Proof. int_pre. intros v Hv. apply sim_bounds. intros HB. apply (sim_fixed_leaf _ 2%nat v (sgn 2)). apply sgn_mod; [lia | cbn; lia]. Qed.
Lemma opt_H : Sim T (pack_opt 72) (unpack_opt 72).
Proof. int_pre. intros v Hv. apply sim_bounds. intros HB. apply (sim_fixed_leaf _ 2%nat v to_i64).
  rewrite Z.mod_small by (cbn; lia). apply to_i64_small. unfold Model.H; lia. Qed.
Lemma opt_l : Sim T (pack_opt 108) (unpack_opt 108).
Proof. int_pre. intros v Hv. apply (sim_fixed_leaf _ 8%nat v (sgn 8)). apply sgn_mod; [lia | unfold irange, Model.H in Hv; cbn; lia]. Qed.
Lemma opt_j : Sim T (pack_opt 106) (unpack_opt 106).
Proof. int_pre. intros v Hv. apply (sim_fixed_leaf _ 8%nat v (sgn 8)). apply sgn_mod; [lia | unfold irange, Model.H in Hv; cbn; lia]. Qed.
Lemma opt_L : Sim T (pack_opt 76) (unpack_opt 76).
Proof. int_pre. intros v Hv. apply (sim_fixed_leaf _ 8%nat v to_i64). change (256 ^ Z.of_nat 8) with W. apply to_i64_mod; exact Hv. Qed.
Lemma opt_J : Sim T (pack_opt 74) (unpack_opt 74).
Proof. int_pre. intros v Hv. apply (sim_fixed_leaf _ 8%nat v to_i64). change (256 ^ Z.of_nat 8) with W. apply to_i64_mod; exact Hv. Qed.
Lemma opt_T : Sim T (pack_opt 84) (unpack_opt 84).
Proof. int_pre. intros v Hv. apply (sim_fixed_leaf _ 8%nat v to_i64). change (256 ^ Z.of_nat 8) with W. apply to_i64_mod; exact Hv. Qed.

Lemma sim_setrd (P : pst -> Prop) (f : rd -> rd) :
  (forall r, 0 < maxAl r -> 0 < maxAl (f r)) ->
  Sim P (fun s => PCont (p_set_rd s (f (p_rd s)))) (fun us => UCont (u_set_rd us (f (u_rd us)))).
Proof.
  intros Hf s s1 [V M] HP E. injection E as <-. split; [split; [exact V|apply Hf, M]|].
  exists []. split; [cbn; now rewrite app_nil_r|]. intros us t (A & B & C & D) Hr.
  eexists. split; [reflexivity|]. split; [|exact Hr].
  unfold R, p_set_rd, u_set_rd. cbn. rewrite A. auto.
Qed.

Lemma opt_lt : Sim T (pack_opt 60) (unpack_opt 60).
Proof. open_opt. apply (sim_setrd T (fun r => mkRd true (maxAl r) (alignOnly r))). auto. Qed.
Lemma opt_gt : Sim T (pack_opt 62) (unpack_opt 62).
Proof. open_opt. apply (sim_setrd T (fun r => mkRd false (maxAl r) (alignOnly r))). auto. Qed.
Lemma opt_eq : Sim T (pack_opt 61) (unpack_opt 61).
Proof. open_opt. apply (sim_setrd T (fun r => mkRd true (maxAl r) (alignOnly r))). auto. Qed.

Lemma opt_X : Sim NoAO (pack_opt 88) (unpack_opt 88).
Proof.
  open_opt. intros s s1 Hpre HP E.
  destruct (sim_setrd NoAO set_ao (fun r H => H) s s1 Hpre HP E) as (Hp & b0 & Hb & Hu).
  split; [exact Hp|]. exists b0. split; [exact Hb|]. intros us t HR Hr.
  destruct HR as (A & B & C & D). rewrite <- A. unfold NoAO in HP. rewrite HP. rewrite A.
  apply Hu; [unfold R; auto|exact Hr].
Qed.

Lemma opt_space : Sim NoAO (pack_opt 32) (unpack_opt 32).
Proof.
  open_opt. intros s s1 Hpre HP E. injection E as <-. split; [exact Hpre|].
  exists []. split; [now rewrite app_nil_r|]. intros us t HR Hr.
  destruct HR as (A & B & C & D). rewrite <- A. unfold NoAO in HP. rewrite HP.
  eexists. split; [reflexivity|]. split; [unfold R; auto|exact Hr].
Qed.

Lemma R_write s us bs : R s us -> R (p_write s bs) (u_adv us (len bs)).
Proof.
  intros (A & B & C & D). unfold R, p_write, u_adv. cbn. rewrite len_app, C. auto.
Qed.

Lemma opt_x : Sim T (pack_opt 120) (unpack_opt 120).
Proof.
  open_opt. apply sim_align; [lia | closed | ].
  intros s s1 Hpre HP E. injection E as <-. split; [exact Hpre|].
  exists [0]. split; [reflexivity|]. intros us t HR Hr.
  rewrite (u_skip_app us [0] t 1 _ Hr) by reflexivity.
  eexists. split; [reflexivity|]. split.
  - apply (R_write s us [0] HR).
  - apply (u_adv_rest us [0] t Hr).
Qed.

(* d, n: the 64 bits of the float *)
Lemma opt_dn c : c = 100 \/ c = 110 -> Sim T (pack_opt c) (unpack_opt c).
Proof.
  intros [-> | ->]; open_opt.
  all: apply sim_align; [lia | closed | ];
    unfold p_next_float; apply (sim_next _ Z to_float frange); [closed | exact to_float_ok | ];
    intros f Hf; unfold p_put_int;
    apply (leaf_sim _ (fun s => enc (little (p_rd s)) 8 f) (VFlt f));
    intros s us t _ HR Hr; destruct HR as (A & _);
    rewrite (u_read_app us _ _ _ _ Hr) by (now rewrite len_enc);
    change (u_rd (u_adv us 8)) with (u_rd us); rewrite <- A, dec_enc, len_enc;
    change (256 ^ Z.of_nat 8) with W; rewrite Z.mod_small by exact Hf; reflexivity.
Qed.

Lemma smallOptSize_pos d fmt n rest : 0 < d -> smallOptSize d fmt = (inr n, rest) -> 0 < n /\ (n <= 16 \/ n = d).
Proof.
  intros Hd. unfold smallOptSize. destruct (getOptSize fmt) as [[[e ok] m] r]. destruct e; [discriminate|].
  destruct ok.
  - destruct (Z.leb_spec 1 m), (Z.leb_spec m 16); cbn [andb]; intros E; try discriminate.
    injection E as <- <-. lia.
  - destruct (Z.eqb_spec d 0); [discriminate|]. intros E; injection E as <- <-. lia.
Qed.

Lemma opt_bang : Sim NoAO (pack_opt 33) (unpack_opt 33).
Proof.
  open_opt. intros s s1 [V M] HP E.
  destruct (smallOptSize 1 (p_fmt s)) as [[e|n] rest] eqn:ES; [discriminate|]. injection E as <-.
  destruct (smallOptSize_pos 1 _ _ _ ltac:(lia) ES) as [Hn _].
  split; [split; [exact V|exact Hn]|].
  exists []. split; [cbn; now rewrite app_nil_r|]. intros us t (A & B & C & D) Hr.
  rewrite <- B, ES. eexists. split; [reflexivity|]. split; [|exact Hr].
  unfold R. cbn. rewrite A. auto.
Qed.

(* i[n], I[n] *)
Lemma opt_iI c : c = 105 \/ c = 73 -> Sim T (pack_opt c) (unpack_opt c).
Proof.
  intros Hc s s1 Hpre HP E.
  assert (E' : match smallOptSize 8 (p_fmt s) with
               | (inl e, _) => PFail e
               | (inr n, rest) =>
                 p_align n (p_set_fmt s rest) (fun s => p_next_int s (fun v s =>
                   match (if c =? 105 then packInt n v s else packUint n v s) with
                   | PCont s' => PCont (p_emit s' (VInt v)) | PFail e => PFail e end))
               end = PCont s1).
  { destruct Hc as [-> | ->]; exact E. }
  clear E. destruct (smallOptSize 8 (p_fmt s)) as [[e|n] rest] eqn:ES; [discriminate|].
  destruct (smallOptSize_pos 8 _ _ _ ltac:(lia) ES) as [Hn Hn16].
  assert (Hk : (1 <= Z.to_nat n <= 16)%nat) by lia.
  assert (En : n = Z.of_nat (Z.to_nat n)) by lia.
  assert (SIM : Sim T (fun s => p_align n s (fun s => p_next_int s (fun v s =>
                   match (if c =? 105 then packInt n v s else packUint n v s) with
                   | PCont s' => PCont (p_emit s' (VInt v)) | PFail e => PFail e end)))
                (fun us => u_align n us (fun us =>
                   (if c =? 105 then readVarInt else readVarUint) n us (fun v us' => UCont (u_add us' (VInt v)))))).
  { apply sim_align; [lia | closed | ].
    unfold p_next_int. apply (sim_next _ Z to_int irange); [closed | exact to_int_ok | ].
    intros v Hv. rewrite En. destruct Hc as [-> | ->]; cbn [Z.eqb Pos.eqb].
    - apply sim_varint; assumption.
    - apply sim_varuint; assumption. }
  assert (Hpre' : pre (p_set_fmt s rest)) by exact Hpre.
  destruct (SIM (p_set_fmt s rest) s1 Hpre' I E') as (Hp1 & b0 & Hb0 & Hu).
  split; [exact Hp1|]. exists b0. split; [exact Hb0|]. intros us t HR Hr.
  destruct HR as (A & B & C & D).
  assert (HR' : R (p_set_fmt s rest) (u_set_fmt us rest)) by (unfold R; cbn; auto).
  destruct (Hu (u_set_fmt us rest) t HR' Hr) as (us1 & E1 & HR1 & Hr1).
  exists us1. split; [|auto].
  assert (EU : unpack_opt c us = match smallOptSize 8 (u_fmt us) with
      | (inl e, _) => UFail e
      | (inr n, rest) => u_align n (u_set_fmt us rest) (fun s =>
          (if c =? 105 then readVarInt else readVarUint) n s (fun v s => UCont (u_add s (VInt v)))) end).
  { destruct Hc as [-> | ->]; reflexivity. }
  rewrite EU, <- B, ES. exact E1.
Qed.

(* ------------------------------------------------------------ f, c, z, s *)
Lemma sim_if (P : pst -> Prop) (c : bool) e kp ku : Sim P kp ku -> Sim P (fun s => if c then kp s else PFail e) ku.
Proof. intros HS s s1 Hpre HP E. destruct c; [|discriminate]. exact (HS s s1 Hpre HP E). Qed.

Lemma opt_f : Sim T (pack_opt 102) (unpack_opt 102).
Proof.
  open_opt. apply sim_align; [lia | closed | ].
  unfold p_next_float. apply (sim_next _ Z to_float frange); [closed | exact to_float_ok | ].
  intros f Hf. apply sim_if. unfold p_put_int.
  set (b := f64_to_f32 f mod 4294967296).
  apply (leaf_sim _ (fun s => enc (little (p_rd s)) 4 b) (VFlt (f32_to_f64 b))).
  intros s us t _ HR Hr. destruct HR as (A & _).
  rewrite (u_read_app us _ _ _ _ Hr) by (now rewrite len_enc).
  change (u_rd (u_adv us 4)) with (u_rd us). rewrite <- A, dec_enc, len_enc.
  change (256 ^ Z.of_nat 4) with 4294967296. subst b. rewrite Z.mod_mod by lia. reflexivity.
Qed.

Lemma to_i64_range u : - Model.H <= to_i64 u < Model.H.
Proof.
  unfold to_i64, Model.H, W. pose proof (Z.mod_pos_bound u 18446744073709551616 ltac:(lia)).
  destruct (Z.ltb_spec (u mod 18446744073709551616) 9223372036854775808); lia.
Qed.

Lemma opt_c : Sim T (pack_opt 99) (unpack_opt 99).
Proof.
  open_opt. apply sim_align; [lia | closed | ].
  intros s s1 Hpre HP E.
  destruct (mustGetOptSize (p_fmt s)) as [[e|n] rest] eqn:ES; [discriminate|].
  unfold p_next_str, p_next in E. cbn [p_set_fmt p_vals] in E.
  destruct (p_vals s) as [|v vs] eqn:EV; [discriminate|].
  destruct (to_str v) as [str| |] eqn:ET; try discriminate.
  cbn [p_pop] in E. unfold p_write_str in E. cbn [andb] in E.
  match type of E with match (if ?c then _ else _) with _ => _ end = _ => destruct c eqn:EG; [discriminate|] end.
  match type of E with match (if ?c then _ else _) with _ => _ end = _ => destruct c eqn:ED; [discriminate|] end.
  injection E as <-.
  destruct Hpre as [V M]. rewrite EV in V. inversion V as [|? ? Vv Vvs]; subst.
  split; [split; [exact Vvs|exact M]|].
  set (diff := to_i64 n - len str) in *. apply Z.ltb_ge in ED.
  exists (str ++ zeros diff). split; [reflexivity|]. intros us t (A & B & C & D) Hr.
  rewrite <- B, ES. unfold u_read_str. cbn [u_set_fmt u_rest].
  assert (L : len (str ++ zeros diff) = to_i64 n) by (rewrite len_app, len_zeros by lia; subst diff; lia).
  rewrite Hr, len_app, L. pose proof (len_nonneg t). pose proof (len_nonneg str).
  destruct (Z.ltb_spec (to_i64 n) 0); [lia|]. destruct (Z.ltb_spec (to_i64 n + len t) (to_i64 n)); [lia|]. cbn [orb].
  assert (Hr' : u_rest (u_set_fmt us rest) = (str ++ zeros diff) ++ t) by exact Hr.
  rewrite (u_read_app _ _ _ _ _ Hr') by (symmetry; exact L).
  eexists. split; [reflexivity|]. split.
  - unfold R, u_add, u_adv, p_emit, p_write, p_pop, u_set_fmt, p_set_fmt.
    cbn [p_rd p_fmt p_w p_packed u_rd u_fmt u_j u_vals].
    split; [exact A|split; [reflexivity|split]].
    + rewrite len_app, L, C. reflexivity.
    + rewrite D. reflexivity.
  - unfold u_add. cbn [u_rest]. rewrite <- L. apply (u_adv_rest _ _ _ Hr').
Qed.

Lemma find_zero_app str t i : has_zero str = false -> find_zero (str ++ 0 :: t) i = Some (i + len str).
Proof.
  revert i; induction str as [|b r IH]; intros i Hz.
  - cbn. f_equal. unfold len. cbn. lia.
  - cbn [has_zero existsb] in Hz. apply orb_false_iff in Hz. destruct Hz as [Hb Hr].
    cbn [app find_zero]. rewrite Hb. rewrite IH by exact Hr. f_equal. unfold len. cbn [length]. lia.
Qed.

Lemma opt_z : Sim NoAO (pack_opt 122) (unpack_opt 122).
Proof.
  open_opt. intros s s1 Hpre HP E. unfold NoAO in HP. unfold p_align in E. cbn [Z.eqb] in E. rewrite HP in E.
  unfold p_next_str, p_next in E.
  destruct (p_vals s) as [|v vs] eqn:EV; [discriminate|].
  destruct (to_str v) as [str| |] eqn:ET; try discriminate.
  destruct (has_zero str) eqn:HZ; [discriminate|]. injection E as <-.
  destruct Hpre as [V M]. rewrite EV in V. inversion V as [|? ? Vv Vvs]; subst.
  split; [split; [exact Vvs|exact M]|].
  exists (str ++ [0]). split; [reflexivity|]. intros us t (A & B & C & D) Hr.
  rewrite <- A, HP. rewrite <- app_assoc in Hr. cbn [app] in Hr.
  rewrite Hr, find_zero_app by exact HZ. cbn [Z.add].
  rewrite (u_read_app us str (0 :: t) _ _ Hr) by reflexivity.
  pose proof (u_adv_rest us _ _ Hr) as Hr1.
  assert (Hr2 : u_rest (u_add (u_adv us (len str)) (VStr str)) = [0] ++ t) by exact Hr1.
  rewrite (u_skip_app _ [0] t 1 _ Hr2) by reflexivity.
  eexists. split; [reflexivity|]. split.
  - unfold R, u_add, u_adv, p_emit, p_write, p_pop.
    cbn [p_rd p_fmt p_w p_packed u_rd u_fmt u_j u_vals].
    split; [exact A|split; [exact B|split]].
    + rewrite !len_app, C. change (len [0]) with 1. lia.
    + rewrite D. reflexivity.
  - apply (u_adv_rest _ [0] t Hr2).
Qed.

Lemma opt_s : Sim T (pack_opt 115) (unpack_opt 115).
Proof.
  open_opt. intros s s1 Hpre HP E.
  destruct (smallOptSize 8 (p_fmt s)) as [[e|n] rest] eqn:ES; [discriminate|].
  destruct (smallOptSize_pos 8 _ _ _ ltac:(lia) ES) as [Hn Hn16].
  assert (Hk : (1 <= Z.to_nat n <= 16)%nat) by lia.
  assert (En : n = Z.of_nat (Z.to_nat n)) by lia.
  assert (SIM : Sim T (fun s => p_align n s (fun s => p_next_str s (fun str s =>
                   match packUint n (len str) s with
                   | PCont s' => PCont (p_emit (p_write s' str) (VStr str))
                   | PFail EOutOfBounds => PFail EStringDoesNotFit
                   | PFail e => PFail e end)))
                (fun us => u_align n us (fun us =>
                   readVarUint n us (fun l us' => u_read_str l us' (fun bs us'' => UCont (u_add us'' (VStr bs))))))).
  { apply sim_align; [lia | closed | ].
    unfold p_next_str. apply (sim_next _ (list Z) to_str srange); [closed | exact to_str_ok | ].
    intros str Hstr s0 s2 Hpre0 HP0 E0.
    destruct (packUint n (len str) s0) as [s'|e] eqn:EP; [|destruct e; discriminate]. injection E0 as <-.
    pose proof (len_nonneg str). unfold srange in Hstr.
    rewrite En in EP.
    destruct (uint_roundtrip _ (len str) s0 s' Hk ltac:(unfold Model.H in *; lia) EP) as (bs & -> & Hrd).
    split; [exact Hpre0|]. exists (bs ++ str). split; [cbn; now rewrite app_assoc|].
    intros us t (A & B & C & D) Hr. rewrite <- app_assoc in Hr.
    rewrite En, (Hrd us (str ++ t) _ (eq_sym (f_equal little A)) Hr).
    pose proof (u_adv_rest us _ _ Hr) as Hr1.
    unfold u_read_str. rewrite Hr1, len_app. pose proof (len_nonneg t).
    destruct (Z.ltb_spec (len str) 0); [lia|]. destruct (Z.ltb_spec (len str + len t) (len str)); [lia|]. cbn [orb].
    rewrite (u_read_app _ str t _ _ Hr1) by reflexivity.
    eexists. split; [reflexivity|]. split.
    - unfold R, u_add, u_adv, p_emit, p_write.
      cbn [p_rd p_fmt p_w p_packed u_rd u_fmt u_j u_vals].
      split; [exact A|split; [exact B|split]].
      + rewrite !len_app, C. lia.
      + rewrite D. reflexivity.
    - unfold u_add. cbn [u_rest]. apply (u_adv_rest _ _ _ Hr1). }
  assert (Hpre' : pre (p_set_fmt s rest)) by exact Hpre.
  destruct (SIM (p_set_fmt s rest) s1 Hpre' I E) as (Hp1 & b0 & Hb0 & Hu).
  split; [exact Hp1|]. exists b0. split; [exact Hb0|]. intros us t HR Hr.
  destruct HR as (A & B & C & D).
  assert (HR' : R (p_set_fmt s rest) (u_set_fmt us rest)) by (unfold R; cbn; auto).
  destruct (Hu (u_set_fmt us rest) t HR' Hr) as (us1 & E1 & HR1 & Hr1).
  exists us1. split; [|auto]. rewrite <- B, ES. exact E1.
Qed.

(* ------------------------------------------------------------ the option loop *)
Definition supported : list Z :=
  [60; 62; 61; 33; 98; 66; 104; 72; 108; 106; 76; 74; 84; 105; 73; 102; 100; 110; 99; 122; 115; 120; 88; 32].

Lemma opt_sim c : In c supported ->
  Sim (fun s => alignOnly (p_rd s) = true -> alignable c = true) (pack_opt c) (unpack_opt c).
Proof.
  intros Hin. unfold supported in Hin. cbn [In] in Hin.
  repeat (destruct Hin as [<- | Hin]); try contradiction.
  all: match goal with |- Sim (fun s => _ -> alignable ?c = true) _ _ => set (cc := c) end.
  all: assert (WT : forall kp ku, Sim T kp ku -> Sim (fun s => alignOnly (p_rd s) = true -> alignable cc = true) kp ku)
         by (intros kp ku HS; apply (Sim_weaken T); [intros; exact I|exact HS]).
  all: assert (WN : alignable cc = false -> forall kp ku, Sim NoAO kp ku -> Sim (fun s => alignOnly (p_rd s) = true -> alignable cc = true) kp ku)
         by (intros NA kp ku HS; apply (Sim_weaken NoAO); [|exact HS]; intros s Hs; unfold NoAO;
             destruct (alignOnly (p_rd s)); [specialize (Hs eq_refl); congruence|reflexivity]).
  all: subst cc.
  - apply WT, opt_lt. - apply WT, opt_gt. - apply WT, opt_eq. - apply (WN eq_refl), opt_bang.
  - apply WT, opt_b. - apply WT, opt_B. - apply WT, opt_h. - apply WT, opt_H. - apply WT, opt_l. - apply WT, opt_j.
  - apply WT, opt_L. - apply WT, opt_J. - apply WT, opt_T.
  - apply WT, opt_iI; auto. - apply WT, opt_iI; auto. - apply WT, opt_f.
  - apply WT, opt_dn; auto. - apply WT, opt_dn; auto.
  - apply WT, opt_c. - apply (WN eq_refl), opt_z. - apply WT, opt_s.
  - apply WT, opt_x. - apply (WN eq_refl), opt_X. - apply (WN eq_refl), opt_space.
Qed.

(* any other option character is rejected by the packer *)
Lemma pack_opt_unsupported c s : ~ In c supported -> pack_opt c s = PFail (EBadFormat c).
Proof.
  intros NI. unfold pack_opt.
  repeat match goal with
  | |- context [c =? ?k] =>
    rewrite (proj2 (Z.eqb_neq c k)) by (intros ->; apply NI; unfold supported; cbn [In]; tauto)
  end.
  reflexivity.
Qed.

Lemma loop_sim : forall fuel s us out packed,
  pre s -> R s us ->
  pack_go fuel s = POk out packed ->
  exists b, out = p_w s ++ b /\
    forall t, u_rest us = b ++ t -> unpack_go fuel us = UOk packed (len out).
Proof.
  induction fuel as [|f IH]; intros s us out packed Hpre HR E; [discriminate|].
  cbn [pack_go] in E.
  destruct HR as (A & B & C & D).
  destruct (p_fmt s) as [|c rest] eqn:EF.
  - destruct (alignOnly (p_rd s)) eqn:EA; [discriminate|]. injection E as <- <-.
    exists []. split; [now rewrite app_nil_r|]. intros t _.
    cbn [unpack_go]. rewrite <- B, <- A, EA, C, D. reflexivity.
  - destruct (alignOnly (p_rd s) && negb (alignable c)) eqn:EX; [discriminate|].
    destruct (pack_opt c (p_set_fmt s rest)) as [s'|] eqn:EP; [|discriminate].
    assert (Hsup : In c supported).
    { destruct (in_dec Z.eq_dec c supported) as [i|n]; [exact i|].
      rewrite (pack_opt_unsupported c _ n) in EP. discriminate. }
    assert (HP : alignOnly (p_rd (p_set_fmt s rest)) = true -> alignable c = true).
    { cbn [p_set_fmt p_rd]. intros Ht. destruct (alignable c); [reflexivity|]. rewrite Ht in EX. discriminate EX. }
    assert (HR0 : R (p_set_fmt s rest) (u_set_fmt us rest)) by (unfold R; cbn; auto).
    destruct (opt_sim c Hsup (p_set_fmt s rest) s' Hpre HP EP) as (Hp' & b0 & Hb0 & Hu).
    cbn [p_set_fmt p_w] in Hb0.
    assert (HALL : forall t, u_rest us = b0 ++ t ->
              exists us1, unpack_opt c (u_set_fmt us rest) = UCont us1 /\ R s' us1 /\ u_rest us1 = t).
    { intros t Ht. apply (Hu (u_set_fmt us rest) t HR0 Ht). }
    assert (exists b', out = p_w s' ++ b' /\
              forall us1 t, R s' us1 -> u_rest us1 = b' ++ t -> unpack_go f us1 = UOk packed (len out)) as (b' & Hout & Hgo).
    { set (uc := mkU (p_rd s') (p_fmt s') (len (p_w s')) [] (p_packed s')).
      assert (HRc : R s' uc) by (unfold R; cbn; auto).
      destruct (IH s' uc out packed Hp' HRc E) as (b' & Hout & _).
      exists b'. split; [exact Hout|]. intros us1 t HR1 Hr1.
      destruct (IH s' us1 out packed Hp' HR1 E) as (b'' & Hout' & Hgo').
      apply (Hgo' t). rewrite Hr1. f_equal. rewrite Hout in Hout'. now apply app_inv_head in Hout'. }
    exists (b0 ++ b'). split; [rewrite Hout, Hb0; now rewrite app_assoc|].
    intros t Ht. rewrite <- app_assoc in Ht.
    destruct (HALL (b' ++ t) Ht) as (us1 & EU & HR1 & Hr1).
    cbn [unpack_go]. rewrite <- B, <- A, EX, EU. apply (Hgo us1 t HR1 Hr1).
Qed.

(* string.unpack(fmt, string.pack(fmt, v...)) returns the packed values and the next position:
   every format string, every tuple of values that pack accepts *)
Theorem unpack_pack : forall fmt vs out packed,
  Forall val_ok vs ->
  pack fmt vs = POk out packed ->
  unpack fmt out 0 = UOk packed (len out).
Proof.
  intros fmt vs out packed HV E. unfold pack in E. unfold unpack.
  assert (Hpre : pre (mkP rd0 fmt vs [] [])) by (split; [exact HV|cbn; lia]).
  assert (HR : R (mkP rd0 fmt vs [] []) (mkU rd0 fmt 0 (skipn (Z.to_nat 0) out) [])) by (unfold R; cbn; auto).
  destruct (loop_sim _ _ _ out packed Hpre HR E) as (b & Hb & Hgo).
  apply (Hgo []). cbn [p_w app] in Hb. subst b. cbn. now rewrite app_nil_r.
Qed.

(* the hypotheses are satisfiable, with alignment, X, both byte orders, wide and narrow integers, strings, floats *)
Example unpack_pack_example :
  let fmt := [33; 52; 62; 98; 88; 105; 52; 105; 50; 60; 73; 49; 54; 120; 74; 100; 115; 50; 122; 99; 52; 102] in   (* "!4>bXi4i2<I16xJds2zc4f" *)
  let vs := [VInt (-5); VInt (-32768); VInt 77; VInt (-1); VFlt 4609434218613702656; VStr [104; 105]; VStr [65]; VStr [66]; VFlt 4609434218613702656] in
  Forall val_ok vs /\ exists out packed, pack fmt vs = POk out packed.
Proof.
  split.
  - repeat constructor; cbn; unfold Model.H, W, len; cbn; lia.
  - vm_compute. eauto.
Qed.
