(* Close/RefProofs.v — theorems about the structural reference semantics of
   Close/Skel.v, for every skeleton program, every decision stream, every
   exit kind, any amount of fuel. *)
From Coq Require Import List Arith Bool Lia.
From GV Require Import Close.Skel.
Import ListNotations.

(* ---------------------------------------------------------------- traces *)
Lemma brackets_app : forall a b p,
  brackets p (a ++ b) = match brackets p a with Some p' => brackets p' b | None => None end.
Proof.
  induction a as [|e a IH]; intros b p; cbn [app brackets]; [reflexivity|].
  destruct e; try apply IH.
  destruct p as [|t p']; [reflexivity|]. destruct (Nat.eqb t id); [apply IH|reflexivity].
Qed.

Lemma errflow_app : forall a b c,
  errflow c (a ++ b) = match errflow c a with Some c' => errflow c' b | None => None end.
Proof.
  induction a as [|e a IH]; intros b c; cbn [app errflow]; [reflexivity|].
  destruct e; try apply IH.
  - destruct c; [reflexivity|apply IH].
  - destruct (oerr_eqb e c); [apply IH|reflexivity].
  - destruct c; [reflexivity|apply IH].
  - destruct (oerr_eqb e c); [apply IH|reflexivity].
  - destruct (oerr_eqb e c); [apply IH|reflexivity].
Qed.

Lemma err_eqb_refl : forall e, err_eqb e e = true.
Proof. destruct e; cbn; [apply Nat.eqb_refl|reflexivity]. Qed.
Lemma oerr_eqb_refl : forall e, oerr_eqb e e = true.
Proof. destruct e; cbn; [apply err_eqb_refl|reflexivity]. Qed.

(* bal ev: the trace is self-balanced in any pending context: whatever was
   opened in it was closed in it, innermost first. *)
Definition bal (ev : list event) : Prop := forall p, brackets p ev = Some p.
(* flow ev c: starting with no error in flight the trace is error-consistent
   and ends with c in flight *)
Definition flow (ev : list event) (c : option err) : Prop := errflow None ev = Some c.

Lemma bal_nil : bal []. Proof. intro; reflexivity. Qed.
Lemma bal_app : forall a b, bal a -> bal b -> bal (a ++ b).
Proof. intros a b Ha Hb p. rewrite brackets_app, Ha. apply Hb. Qed.
Lemma flow_nil : flow [] None. Proof. reflexivity. Qed.
Lemma flow_app : forall a b c, flow a None -> flow b c -> flow (a ++ b) c.
Proof. intros a b c Ha Hb. unfold flow. rewrite errflow_app, Ha. exact Hb. Qed.

Definition good (r : res rtriple) : Prop :=
  match r with
  | Done (ev, o, _) => bal ev /\ flow ev (err_of o)
  | OutOfFuel => True
  end.

Lemma good_prepend : forall ev r, bal ev -> flow ev None -> good r -> good (prepend ev r).
Proof.
  intros ev [[[ev' o] s]|] Hb Hf; cbn; [|trivial].
  intros [Hb' Hf']. split; [apply bal_app|apply flow_app]; assumption.
Qed.

Lemma err_of_fun_outcome : forall o, err_of (fun_outcome o) = err_of o.
Proof. destruct o; reflexivity. Qed.

(* the events of a local variable around the events of its scope *)
Lemma good_local : forall v ev o s,
  (forall id, v <> VBad id) ->
  bal ev -> flow ev (err_of o) ->
  good (let (cev, o') := close_var v o in Done (open_var v ++ ev ++ cev, o', s)).
Proof.
  intros v ev o s Hv Hb Hf.
  destruct v as [| |id [h|]|id]; cbn [close_var open_var app].
  - cbn. rewrite app_nil_r. split; assumption.
  - cbn. rewrite app_nil_r. split; assumption.
  - cbn. split.
    + intro p. cbn [brackets]. rewrite brackets_app, Hb. cbn. rewrite Nat.eqb_refl. reflexivity.
    + unfold flow. cbn [errflow]. rewrite errflow_app. unfold flow in Hf. rewrite Hf.
      cbn [errflow]. rewrite oerr_eqb_refl. destruct o; reflexivity.
  - cbn. split.
    + intro p. cbn [brackets]. rewrite brackets_app, Hb. cbn. rewrite Nat.eqb_refl. reflexivity.
    + unfold flow. cbn [errflow]. rewrite errflow_app. unfold flow in Hf. rewrite Hf.
      cbn [errflow]. rewrite oerr_eqb_refl. reflexivity.
  - exfalso. eapply Hv. reflexivity.
Qed.

Lemma good_bad : forall s, good (Done ([EvRaise EMissing], OError EMissing, s)).
Proof. intro s. split; [intro p|]; reflexivity. Qed.

Ltac fin := first [ split; [ first [apply bal_nil | intro; reflexivity] | reflexivity ] | exact I ].

Theorem all_good : forall fuel,
  (forall endc w c s, good (run_scope fuel endc w c s)) /\
  (forall endc b s, good (run_block fuel endc b s)) /\
  (forall t s, good (run_stmt fuel t s)) /\
  (forall rep b s, good (run_loop fuel rep b s)).
Proof.
  induction fuel as [|f (IHscope & IHblock & IHstmt & IHloop)].
  { repeat split; intros; exact I. }
  repeat split.
  - (* run_scope *)
    intros endc w c s. cbn [run_scope].
    pose proof (IHblock endc c s) as H.
    destruct (run_block f endc c s) as [[[ev o] s']|]; cbn [bind]; [|exact I].
    destruct H as [Hb Hf].
    destruct o; try (split; assumption).
    destruct (find_label l w) as [b'|]; [|split; assumption].
    apply good_prepend; [assumption|exact Hf|apply IHscope].
  - (* run_block *)
    intros endc b s. cbn [run_block].
    destruct b as [|r|t rest].
    + split; [apply bal_nil|reflexivity].
    + destruct r as [|body]; [fin|].
      pose proof (IHscope false body body s) as H.
      destruct (run_scope f false body body s) as [[[ev o] s']|]; cbn [bind]; [|exact I].
      destruct H as [Hb Hf]. split; [assumption|].
      rewrite <- err_of_fun_outcome in Hf. destruct (fun_outcome o); assumption.
    + assert (Hseq : good (bind (run_stmt f t s) (fun ev o s' =>
                 match o with ONormal => prepend ev (run_block f endc rest s') | _ => Done (ev, o, s') end))).
      { pose proof (IHstmt t s) as H.
        destruct (run_stmt f t s) as [[[ev o] s']|]; cbn [bind]; [|exact I].
        destruct H as [Hb Hf].
        destruct o; try (split; assumption).
        apply good_prepend; [assumption|exact Hf|apply IHblock]. }
      destruct t; try exact Hseq.
      destruct v as [| |id h|id].
      * pose proof (IHscope endc rest rest s) as H.
        destruct (run_scope f endc rest rest s) as [[[ev o] s']|]; cbn [bind]; [|exact I].
        destruct H. apply (good_local VPlain); [discriminate|assumption|assumption].
      * pose proof (IHscope endc rest rest s) as H.
        destruct (run_scope f endc rest rest s) as [[[ev o] s']|]; cbn [bind]; [|exact I].
        destruct H. apply (good_local VNil); [discriminate|assumption|assumption].
      * pose proof (IHscope endc rest rest s) as H.
        destruct (run_scope f endc rest rest s) as [[[ev o] s']|]; cbn [bind]; [|exact I].
        destruct H. apply (good_local (VObj id h)); [discriminate|assumption|assumption].
      * apply good_bad.
  - (* run_stmt *)
    intros t s. cbn [run_stmt].
    destruct t; try fin.
    + apply IHscope.
    + destruct k as [| |v]; try apply IHloop.
      destruct v as [| |id h|id]; try apply good_bad;
        (pose proof (IHloop false b s) as H;
         destruct (run_loop f false b s) as [[[ev o] s']|]; cbn [bind]; [|exact I];
         destruct H; apply good_local; [discriminate|assumption|assumption]).
    + destruct (next_decision s) as [d s1]. destruct d; [apply IHscope|fin].
    + pose proof (IHscope false b b s) as H.
      destruct (run_scope f false b b s) as [[[ev o] s']|]; cbn [bind]; [|exact I].
      destruct H. split; [assumption|rewrite err_of_fun_outcome; assumption].
    + pose proof (IHscope false b b s) as H.
      destruct (run_scope f false b b s) as [[[ev o] s']|]; cbn [bind]; [|exact I].
      destruct H as [Hb Hf]. rewrite <- err_of_fun_outcome in Hf.
      destruct (fun_outcome o); cbn [err_of] in Hf;
        try (split; [apply bal_app; [assumption|intro p; reflexivity]
                    |unfold flow; rewrite errflow_app; unfold flow in Hf; rewrite Hf; reflexivity]).
      * split; [apply bal_app; [assumption|intro p; reflexivity]|].
        unfold flow. rewrite errflow_app. unfold flow in Hf. rewrite Hf. cbn. rewrite err_eqb_refl. reflexivity.
      * split; assumption.
    + pose proof (IHscope false b b (mkSt (ds s) k (lastc s))) as H.
      destruct (run_scope f false b b (mkSt (ds s) k (lastc s))) as [[[ev o] s']|]; cbn [bind]; [|exact I].
      destruct H as [Hb Hf]. split; [apply bal_app; [assumption|intro p; reflexivity]|].
      unfold flow. rewrite errflow_app. unfold flow in Hf. rewrite Hf.
      rewrite err_of_fun_outcome. cbn. rewrite oerr_eqb_refl. reflexivity.
    + destruct (yc s) as [[|j]|]; fin.
  - (* run_loop *)
    intros rep b s. cbn [run_loop].
    destruct (if rep then (true, s) else next_decision s) as [d s1].
    destruct d; [|fin].
    pose proof (IHscope rep b b s1) as H.
    destruct (run_scope f rep b b s1) as [[[ev o] s']|]; cbn [bind]; [|exact I].
    destruct H as [Hb Hf].
    destruct o; try (split; assumption).
    destruct (rep && negb (lastc s')); [split; assumption|].
    apply good_prepend; [assumption|exact Hf|apply IHloop].
Qed.

(* ---------------------------------------------------------------- counting *)
Fixpoint count_in (id : nat) (p : list nat) : nat :=
  match p with [] => 0 | x :: r => (if Nat.eqb x id then 1 else 0) + count_in id r end.

Lemma brackets_counts : forall id ev p p',
  brackets p ev = Some p' ->
  count_open id ev + count_in id p = count_close id ev + count_in id p'.
Proof.
  induction ev as [|e ev IH]; intros p p' H; cbn [brackets] in H.
  - inversion H. reflexivity.
  - destruct e; cbn [count_open count_close]; try (apply IH; assumption).
    + apply IH in H. cbn [count_in] in H. lia.
    + destruct p as [|t p0]; [discriminate|].
      destruct (Nat.eqb_spec t id0); [|discriminate]. subst t.
      apply IH in H. cbn [count_in]. lia.
Qed.

(* ---------------------------------------------------------------- the five theorems *)

(* Every construct — statement, block, scope, loop — for EVERY exit kind
   (fall off the end, break, goto, return, error, coroutine closed) leaves
   nothing pending: what it opened is closed inside its own trace, i.e. before
   whatever receives control emits anything. *)
Theorem close_before_receiver : forall fuel,
  (forall t s ev o s', run_stmt fuel t s = Done (ev, o, s') -> bal ev) /\
  (forall endc b s ev o s', run_scope fuel endc b b s = Done (ev, o, s') -> bal ev) /\
  (forall rep b s ev o s', run_loop fuel rep b s = Done (ev, o, s') -> bal ev).
Proof.
  intro fuel. destruct (all_good fuel) as (Hs & _ & Ht & Hl). repeat split.
  - intros t s ev o s' H. specialize (Ht t s). rewrite H in Ht. apply Ht.
  - intros e b s ev o s' H. specialize (Hs e b b s). rewrite H in Hs. apply Hs.
  - intros r b s ev o s' H. specialize (Hl r b s). rewrite H in Hl. apply Hl.
Qed.

Lemma run_ref_good : forall fuel b d ev o,
  run_ref fuel b d = Done (ev, o) -> bal ev /\ flow ev (err_of o).
Proof.
  intros fuel b d ev o H. unfold run_ref in H.
  destruct (all_good fuel) as (_ & _ & Ht & _). specialize (Ht (SPcall b) (mkSt d None false)).
  destruct (run_stmt fuel (SPcall b) (mkSt d None false)) as [[[ev' o'] s']|]; [|discriminate].
  inversion H; subst. exact Ht.
Qed.

(* closes are well bracketed with the opens and nothing is left pending at
   the end of the program: reverse order of declaration *)
Theorem close_reverse_order : forall fuel b d ev o,
  run_ref fuel b d = Done (ev, o) -> brackets [] ev = Some [].
Proof. intros. apply (run_ref_good _ _ _ _ _ H). Qed.

(* every value that was created is closed exactly as often as it was created *)
Theorem close_exactly_once : forall fuel b d ev o id,
  run_ref fuel b d = Done (ev, o) -> count_close id ev = count_open id ev.
Proof.
  intros fuel b d ev o id H. apply close_reverse_order in H.
  apply (brackets_counts id) in H. cbn in H. lia.
Qed.

(* every handler gets the error in flight (nil when the exit is not an
   error); ordinary code never runs while an error is in flight; pcall and the
   coroutine boundary report the error in flight *)
Theorem close_gets_inflight_error : forall fuel b d ev o,
  run_ref fuel b d = Done (ev, o) -> errflow None ev = Some (err_of o).
Proof. intros. apply (run_ref_good _ _ _ _ _ H). Qed.

(* an error raised by a handler replaces the error in flight: the next
   handler that runs gets the handler's error — and the remaining handlers do
   still run, because close_reverse_order holds whatever the handlers do *)
Lemma errflow_some_prefix : forall a b c r, errflow c (a ++ b) = Some r -> exists c', errflow c a = Some c'.
Proof. intros a b c r H. rewrite errflow_app in H. destruct (errflow c a); [eauto|discriminate]. Qed.

Theorem handler_error_replaces_and_rest_still_run : forall fuel b d ev o pre id a h mid id' a' post,
  run_ref fuel b d = Done (ev, o) ->
  ev = pre ++ EvClose id a :: EvRaise h :: mid ++ EvClose id' a' :: post ->
  (forall e, In e mid -> match e with EvOpen _ | EvClose _ _ => True | _ => False end) ->
  brackets [] ev = Some [] /\ (mid = [] -> a' = Some h).
Proof.
  intros fuel b d ev o pre id a h mid id' a' post H E Hmid.
  split; [eapply close_reverse_order; eassumption|].
  intros ->. apply close_gets_inflight_error in H. subst ev.
  rewrite errflow_app in H. destruct (errflow None pre) as [c|]; [|discriminate].
  cbn [errflow app] in H. destruct (oerr_eqb a c); [|discriminate].
  destruct (oerr_eqb a' (Some h)) eqn:E'; [|discriminate].
  destruct a' as [x|]; [|discriminate]. cbn in E'.
  destruct x, h; cbn in E'; try discriminate; try reflexivity.
  apply Nat.eqb_eq in E'. subst. reflexivity.
Qed.

(* a value without __close (other than nil/false) is an error at the declaration *)
Theorem non_closable_value_is_error : forall fuel endc id rest s,
  run_block (S fuel) endc (BCons (SLocal (VBad id)) rest) s = Done ([EvRaise EMissing], OError EMissing, s).
Proof. reflexivity. Qed.

(* the hypotheses are satisfiable: a program with a raising handler under an error *)
Example ref_example :
  run_ref 20 (BCons (SLocal (VObj 1 None)) (BCons (SLocal (VObj 2 (Some 7))) (BCons (SRaise 3) BNil))) [] =
  Done ([EvOpen 1; EvOpen 2; EvRaise (EUser 3); EvClose 2 (Some (EUser 3)); EvRaise (EUser 7);
         EvClose 1 (Some (EUser 7)); EvPcall (Some (EUser 7))], ONormal).
Proof. vm_compute. reflexivity. Qed.
